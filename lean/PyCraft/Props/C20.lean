import PyCraft.Generated.Enums
import PyCraft.Lemmas.Enums
import PyCraft.Lemmas.Trackers
import PyCraft.Lemmas.Records
/-!
# C20 — State trackers replay packet histories; helper value types obey their laws

Only property theorems and non-vacuity examples live here; helper lemmas are in `Lemmas/`.
Models: `Model/Trackers.lean` (player list, map, position), `Model/Enums.lean`
(`name_from_value`), `Model/Records.lean` (`MutableRecord`, `Vector`, attribute aliases).
-/
namespace PyCraft.C20
open PyCraft PyCraft.Trackers PyCraft.Enums PyCraft.Records

/-! ## Player list -/

/-- Replaying any history of player-list packets on any dict (distinct keys, as every Python dict
has) gives exactly the `items()` of the reference semantics: a finite map `uuid → player` plus
insertion order, where an add binds (new uuid last, known uuid in place), an update touches a bound
uuid only, a removal unbinds. -/
theorem playerlist_replay (hist : List (List Action)) (l₀ : PlayerList)
    (h : (l₀.map Prod.fst).Nodup) :
    replay hist l₀ = (refReplay hist (RefState.ofList l₀)).items :=
  ((Rel.ofList l₀ h).replay hist).items.symm

/-- … in particular from the empty `PlayerList()`. -/
theorem playerlist_replay_from_empty (hist : List (List Action)) :
    replay hist [] = (refReplay hist ⟨fun _ => none, []⟩).items :=
  playerlist_replay hist [] (by simp)

/-- The dict invariant is kept: keys stay distinct under any history. -/
theorem playerlist_keys_nodup (hist : List (List Action)) (l₀ : PlayerList)
    (h : (l₀.map Prod.fst).Nodup) : ((replay hist l₀).map Prod.fst).Nodup :=
  ((Rel.ofList l₀ h).replay hist).1

/-- The constructor `PlayerList(*items)` is the replay of one add per item on the empty list
(so a later item with the same uuid wins and keeps the first one's position). -/
theorem playerlist_ctor_is_replay (items : List Player) :
    PlayerList.ofItems items = replay [items.map .add] [] := by
  simp [PlayerList.ofItems, replay, applyPacket, List.foldl_map, applyAction]

/-- An add overwrites: afterwards the uuid is bound to the new player, every other uuid is bound as
before, and the key order is unchanged for a known uuid / extended at the end for a new one. -/
theorem add_overwrites (l : PlayerList) (p : Player) :
    dictGet p.uuid (applyAction l (.add p)) = some p ∧
    (∀ k, k ≠ p.uuid → dictGet k (applyAction l (.add p)) = dictGet k l) ∧
    (applyAction l (.add p)).map Prod.fst =
      (if p.uuid ∈ l.map Prod.fst then l.map Prod.fst else l.map Prod.fst ++ [p.uuid]) := by
  refine ⟨by simp [applyAction, dictGet_dictSet], ?_, keys_dictSet p.uuid p l⟩
  intro k hk
  simp [applyAction, dictGet_dictSet, hk]

/-- Updates and removals of an unknown uuid are no-ops. -/
theorem update_unknown_noop (l : PlayerList) (u : Int) (h : dictGet u l = none)
    (g x : Int) (d : Option String) :
    applyAction l (.gamemode u g) = l ∧ applyAction l (.latency u x) = l ∧
    applyAction l (.displayName u d) = l ∧ applyAction l (.remove u) = l := by
  have hk := (dictGet_none_iff u l).1 h
  exact ⟨dictModify_of_not_mem u _ l hk, dictModify_of_not_mem u _ l hk,
    dictModify_of_not_mem u _ l hk, dictDel_of_not_mem u l hk⟩

/-- Updates of a known uuid rewrite exactly one field of that player, keep every other binding and
the key order. -/
theorem update_known (l : PlayerList) (u : Int) (p : Player) (h : dictGet u l = some p)
    (g x : Int) (d : Option String) :
    dictGet u (applyAction l (.gamemode u g)) = some { p with gamemode := g } ∧
    dictGet u (applyAction l (.latency u x)) = some { p with ping := x } ∧
    dictGet u (applyAction l (.displayName u d)) = some { p with displayName := d } ∧
    (∀ a, (a = .gamemode u g ∨ a = .latency u x ∨ a = .displayName u d) →
      (applyAction l a).map Prod.fst = l.map Prod.fst ∧
      ∀ k, k ≠ u → dictGet k (applyAction l a) = dictGet k l) := by
  refine ⟨by simp [applyAction, dictGet_dictModify, h], by simp [applyAction, dictGet_dictModify, h],
    by simp [applyAction, dictGet_dictModify, h], ?_⟩
  intro a ha
  rcases ha with rfl | rfl | rfl <;>
    exact ⟨keys_dictModify u _ l, fun k hk => by simp [applyAction, dictGet_dictModify, hk]⟩

/-- Remove followed by add re-inserts the player at the END of the dict. -/
theorem remove_then_add_at_end (l : PlayerList) (h : (l.map Prod.fst).Nodup) (p : Player) :
    applyAction (applyAction l (.remove p.uuid)) (.add p) =
      l.filter (fun q => q.1 ≠ p.uuid) ++ [(p.uuid, p)] := by
  simp only [applyAction]
  rw [dictDel_eq_filter _ _ h, dictSet_of_not_mem]
  rw [keys_filter]; simp

/-! ## Map -/

/-- In-range patch on a `W×H` map (`offX + width ≤ W`, `offY + height ≤ H`,
`len(pixels) = width*height`): the loop does not raise, pixel `i` of the packet lands at column
`offX + i mod width`, row `offY + i div width` (flat index `x + W*z`), and every cell outside the
rectangle is unchanged.  (`width = 0` forces `pixels = b''`: nothing changes.) -/
theorem map_patch_coords (m : MapState) (W H width height offX offY : Nat) (px : Bytes)
    (hW : m.width = W) (hlen : m.pixels.length = W * H)
    (hx : offX + width ≤ W) (hz : offY + height ≤ H) (hpx : px.length = width * height) :
    ∃ r, applyPatch m width ((offX : Int), (offY : Int)) (some px) = .ok r ∧ r.length = W * H ∧
      (∀ i, (hi : i < px.length) →
        r[(offX + i % width) + W * (offY + i / width)]? = some px[i]) ∧
      (∀ x z, x < W → z < H →
        ¬ (offX ≤ x ∧ x < offX + width ∧ offY ≤ z ∧ z < offY + height) →
        r[x + W * z]? = m.pixels[x + W * z]?) :=
  applyPatch_in_range m W H width height offX offY px hW hlen hx hz hpx

/-- The "no pixels" packet (`width == 0` on the wire, read as `pixels = None`) changes no pixel,
whatever its other fields; so does an empty `pixels`. -/
theorem map_patch_none (m : MapState) (width : Nat) (off : Int × Int) :
    applyPatch m width off none = .ok m.pixels ∧ applyPatch m width off (some []) = .ok m.pixels :=
  ⟨rfl, rfl⟩

/-- `apply_to_map`, when the pixel loop does not raise, sets id, scale, icons, tracking and locked
from the packet, patches the pixels, and leaves the map's own width/height alone. -/
theorem apply_to_map_fields (pkt : MapPacket) (m m' : MapState) (h : applyToMap pkt m = .ok m') :
    m'.id = some pkt.mapId ∧ m'.scale = some pkt.scale ∧ m'.icons = pkt.icons ∧
    m'.isTrackingPosition = pkt.isTrackingPosition ∧ m'.isLocked = pkt.isLocked ∧
    m'.width = m.width ∧ m'.height = m.height ∧
    applyPatch m pkt.width pkt.offset pkt.pixels = .ok m'.pixels := by
  unfold applyToMap at h
  split at h
  · cases h
  · rename_i px hpx
    cases h
    exact ⟨rfl, rfl, rfl, rfl, rfl, rfl, rfl, hpx⟩

/-- `apply_to_map_set`: the packet is applied to the map with its id, a fresh zeroed 128×128 map
being created (at the end of the dict) when the id is unknown; other maps are untouched. -/
theorem map_set_apply (pkt : MapPacket) (s s' : MapSet) (h : applyToMapSet pkt s = .ok s') :
    ∃ m', applyToMap pkt ((dictGet pkt.mapId s).getD (MapState.new (some pkt.mapId))) = .ok m' ∧
      dictGet pkt.mapId s' = some m' ∧
      (∀ k, k ≠ pkt.mapId → dictGet k s' = dictGet k s) ∧
      s'.map Prod.fst =
        (if pkt.mapId ∈ s.map Prod.fst then s.map Prod.fst else s.map Prod.fst ++ [pkt.mapId]) := by
  unfold applyToMapSet at h
  have hm : (match dictGet pkt.mapId s with
      | some m => m
      | none => MapState.new (some pkt.mapId)) =
      (dictGet pkt.mapId s).getD (MapState.new (some pkt.mapId)) := by
    cases dictGet pkt.mapId s <;> rfl
  simp only at h
  split at h
  · cases h
  · rename_i m' hm'
    cases h
    exact ⟨m', by rw [← hm]; exact hm', by simp [dictGet_dictSet],
      fun k hk => by simp [dictGet_dictSet, hk], keys_dictSet _ _ _⟩

/-- Map histories replay in order: replaying `ps ++ qs` is replaying `ps` and then, unless that
raised, `qs` on the resulting map set. -/
theorem map_replay_append (ps qs : List MapPacket) (s : MapSet) :
    replayMaps (ps ++ qs) s =
      (match replayMaps ps s with
       | .error e => .error e
       | .ok s' => replayMaps qs s') :=
  replayMaps_append ps qs s

/-! ## Position and look -/

/-- Each coordinate is `cur + pkt` if its relative bit of `flags` is set, else `pkt` (bit `k` set
means `flags / 2^k` is odd: X=bit 0, Y=1, Z=2, YAW=3, PITCH=4); yaw and pitch are then reduced
modulo 360: the results lie in `[0, 360)` and differ from the unreduced angle by a whole number of
turns. -/
theorem position_apply (flags : Nat) (pkt cur : Pos) :
    let r := applyPosLook flags pkt cur
    let yaw₀ := if flags / 8 % 2 = 1 then cur.yaw + pkt.yaw else pkt.yaw
    let pitch₀ := if flags / 16 % 2 = 1 then cur.pitch + pkt.pitch else pkt.pitch
    r.x = (if flags % 2 = 1 then cur.x + pkt.x else pkt.x) ∧
    r.y = (if flags / 2 % 2 = 1 then cur.y + pkt.y else pkt.y) ∧
    r.z = (if flags / 4 % 2 = 1 then cur.z + pkt.z else pkt.z) ∧
    (0 ≤ r.yaw ∧ r.yaw < 360 ∧ ∃ n : Int, yaw₀ = r.yaw + 360 * (n : Rat)) ∧
    (0 ≤ r.pitch ∧ r.pitch < 360 ∧ ∃ n : Int, pitch₀ = r.pitch + 360 * (n : Rat)) := by
  have hx := relOrAbs_bit flags 0 cur.x pkt.x
  have hy := relOrAbs_bit flags 1 cur.y pkt.y
  have hz := relOrAbs_bit flags 2 cur.z pkt.z
  have hyaw := relOrAbs_bit flags 3 cur.yaw pkt.yaw
  have hpitch := relOrAbs_bit flags 4 cur.pitch pkt.pitch
  simp only [Nat.pow_zero, Nat.div_one, Nat.reducePow] at hx hy hz hyaw hpitch
  simp only [applyPosLook, FLAG_REL_X, FLAG_REL_Y, FLAG_REL_Z, FLAG_REL_YAW, FLAG_REL_PITCH,
    hx, hy, hz, hyaw, hpitch]
  exact ⟨trivial, trivial, trivial,
    ⟨(mod360_range _).1, (mod360_range _).2, mod360_congr _⟩,
    ⟨(mod360_range _).1, (mod360_range _).2, mod360_congr _⟩⟩

/-- An angle already in `[0, 360)` is not changed by the wrap. -/
theorem angle_wrap_id (a : Rat) (h0 : 0 ≤ a) (h1 : a < 360) : mod360 a = a := mod360_id a h0 h1

/-- After any non-empty history of position packets, yaw and pitch lie in `[0, 360)`. -/
theorem position_replay_range (hist : List (Nat × Pos)) (cur : Pos) (h : hist ≠ []) :
    0 ≤ (replayPos hist cur).yaw ∧ (replayPos hist cur).yaw < 360 ∧
    0 ≤ (replayPos hist cur).pitch ∧ (replayPos hist cur).pitch < 360 := by
  rw [← List.dropLast_concat_getLast h]
  simp only [replayPos, List.foldl_append, List.foldl_cons, List.foldl_nil, applyPosLook]
  exact ⟨(mod360_range _).1, (mod360_range _).2, (mod360_range _).1, (mod360_range _).2⟩

/-! ## Flag names -/

/-- Loop invariant result: the names selected by `BitFieldEnum.name_from_value` (in printed order)
are member names whose values OR together to exactly `value`. -/
theorem bitfield_chosen_or (members : List (String × Nat)) (hnd : (members.map Prod.fst).Nodup)
    (value : Nat) (ns : List String) (h : chosenNames members value = some ns) :
    tokensValue members ns = some value ∧
    ∀ n ∈ ns, pyIsUpper n = true ∧ ∃ v, (n, v) ∈ members ∧ v ||| value = value :=
  ⟨tokensValue_chosen members hnd value ns h, chosenNames_mem members value ns h⟩

/-- The printed name of a flag value parses back to that value: for every class (distinct attribute
names, none containing `'|'`) and every value, if `name_from_value` returns a string then splitting
it at `'|'` and OR-ing the named members' values (`"0"` ↦ 0) gives the value back. -/
theorem bitfield_name_parses_back (members : List (String × Nat))
    (hnd : (members.map Prod.fst).Nodup) (hbar : ∀ p ∈ members, '|' ∉ p.1.toList)
    (value : Nat) (s : String) (h : nameFromValue members value = some s) :
    parseName members s = some value :=
  nameFromValue_parses members hnd hbar value s h

/-- Splitting a `'|'`-joined non-empty list of `'|'`-free names returns the list. -/
theorem split_join (names : List String) (hne : names ≠ [])
    (h : ∀ n ∈ names, '|' ∉ n.toList) : splitBar (joinBar names) = names :=
  splitBar_joinBar names hne h

/-- `name_from_value` returns `None` exactly when the greedy cover does not reach the value, i.e.
when the OR of ALL upper-case members that are sub-masks of `value` differs from `value`. -/
theorem bitfield_name_none_iff (members : List (String × Nat)) (value : Nat) :
    nameFromValue members value = none ↔
      orAll ((candidates members value).map Prod.snd) ≠ value :=
  nameFromValue_none_iff members value

/-- The model's sort is Python's `sorted(..., reverse=True, key=value)`: a permutation, values
non-increasing, and stable (members of equal value keep their `__dict__` order). -/
theorem bitfield_sort_spec (l : List (String × Nat)) :
    (sortDesc l).Perm l ∧ (sortDesc l).Pairwise (fun a b => b.2 ≤ a.2) ∧
    ∀ k, (sortDesc l).filter (fun a => a.2 == k) = l.filter (fun a => a.2 == k) :=
  ⟨perm_sortDesc l, pairwise_sortDesc l, fun k => filter_sortDesc k l⟩

/-- Instantiation scheme for generated enums: if the computable check succeeds then every value
below 256 that prints parses back to itself. -/
theorem checkEnum_parses_back (members : List (String × Nat)) (h : checkEnum members = true) :
    ∀ v, v < 256 → ∀ s, nameFromValue members v = some s → parseName members s = some v :=
  checkEnum_sound members h

/-- Plain `Enum.name_from_value` returns the FIRST upper-case attribute with the given value, and
`None` exactly when there is none; with distinct names the printed name determines the value. -/
theorem enum_name_from_value (members : List (String × Int)) (value : Int) :
    (∀ n, enumNameFromValue members value = some n →
      ∃ pre post, members = pre ++ (n, value) :: post ∧ pyIsUpper n = true ∧
        ∀ p ∈ pre, ¬ (pyIsUpper p.1 = true ∧ p.2 = value)) ∧
    (enumNameFromValue members value = none ↔
      ∀ p ∈ members, ¬ (pyIsUpper p.1 = true ∧ p.2 = value)) :=
  ⟨fun n h => enumName_some members value n h, enumName_none_iff members value⟩

/-! ## Records -/

section records
variable {Val : Type} [DecidableEq Val]

/-- `==` compares field-wise: it returns `True` exactly when the classes are identical and every
slot is assigned on both sides to equal values. -/
theorem record_eq_fieldwise (a b : Rec Val) :
    recEq a b = .ok true ↔
      a.tag = b.tag ∧ ∀ n ∈ a.names, ∃ v, getSlot a n = .ok v ∧ getSlot b n = .ok v := by
  unfold recEq
  by_cases ht : a.tag = b.tag
  · simp only [ht, ne_eq, not_true_eq_false, if_false, true_and]
    exact allSlotsEq_true_iff a b a.slots
  · simp [ht]

/-- Records that compare equal hash equally (for any hash function `h` of the pair
`(type, tuple of slot values)`); in fact they are then identical and fully assigned.  Hypotheses:
records of the same class have the same slot names, and slot names are distinct. -/
theorem record_eq_hash (h : Nat → List Val → Nat) (pyNone : Val) (a b : Rec Val)
    (hcls : a.tag = b.tag → a.names = b.names) (hnd : a.names.Nodup)
    (heq : recEq a b = .ok true) :
    recHash h pyNone a = recHash h pyNone b ∧ a.tag = b.tag ∧ a.slots = b.slots := by
  obtain ⟨h1, h2, _⟩ := (recEq_true_iff a b hcls hnd).1 heq
  exact ⟨by unfold recHash; rw [h1, h2], h1, h2⟩

/-- On fully assigned records `==` never raises and decides "same class and same slot values". -/
theorem record_eq_decides (a b : Rec Val) (hcls : a.tag = b.tag → a.names = b.names)
    (hnd : a.names.Nodup) (ha : a.complete = true) (hb : b.complete = true) :
    recEq a b = .ok (decide (a.tag = b.tag ∧ a.slots = b.slots)) :=
  recEq_complete a b hcls hnd ha hb

/-- `==` is reflexive (on fully assigned records), symmetric and transitive. -/
theorem record_eq_equivalence (a b c : Rec Val)
    (hab : a.tag = b.tag → a.names = b.names) (hbc : b.tag = c.tag → b.names = c.names)
    (hnd : a.names.Nodup) :
    (a.complete = true → recEq a a = .ok true) ∧
    (recEq a b = .ok true → recEq b a = .ok true) ∧
    (recEq a b = .ok true → recEq b c = .ok true → recEq a c = .ok true) := by
  refine ⟨?_, ?_, ?_⟩
  · intro hc
    exact (recEq_true_iff a a (fun _ => rfl) hnd).2 ⟨rfl, rfl, hc⟩
  · intro h
    obtain ⟨h1, h2, h3⟩ := (recEq_true_iff a b hab hnd).1 h
    have hnb : b.names = a.names := by unfold Rec.names; rw [h2]
    exact (recEq_true_iff b a (fun _ => hnb) (hnb ▸ hnd)).2
      ⟨h1.symm, h2.symm, by unfold Rec.complete at h3 ⊢; rw [← h2]; exact h3⟩
  · intro h h'
    obtain ⟨h1, h2, h3⟩ := (recEq_true_iff a b hab hnd).1 h
    have hnb : b.names = a.names := by unfold Rec.names; rw [h2]
    obtain ⟨k1, k2, _⟩ := (recEq_true_iff b c hbc (hnb ▸ hnd)).1 h'
    exact (recEq_true_iff a c (fun _ => by unfold Rec.names; rw [h2, k2]) hnd).2
      ⟨h1.trans k1, h2.trans k2, h3⟩

/-- `!=` is the negation of `==` (and raises exactly when `==` does). -/
theorem record_ne (a b : Rec Val) :
    (∀ c, recNe a b = .ok c ↔ recEq a b = .ok (!c)) ∧
    (∀ e, recNe a b = .error e ↔ recEq a b = .error e) := by
  unfold recNe
  cases recEq a b with
  | error e => simp
  | ok x => cases x <;> simp

end records

/-! ## Vectors -/

/-- Vector arithmetic is component-wise and the result has the type of the LEFT/self operand
(`type(self)(…)`), whatever the type of the other vector; `+`/`-` with a non-vector give
`NotImplemented`. -/
theorem vector_ops_componentwise {α : Type} [Add α] [Sub α] [Neg α] [Mul α]
    (a b : Vec α) (k : α) :
    (∃ r, vadd a (.vec b) = some r ∧ r.ty = a.ty ∧
      r.x = a.x + b.x ∧ r.y = a.y + b.y ∧ r.z = a.z + b.z) ∧
    (∃ r, vsub a (.vec b) = some r ∧ r.ty = a.ty ∧
      r.x = a.x - b.x ∧ r.y = a.y - b.y ∧ r.z = a.z - b.z) ∧
    ((vneg a).ty = a.ty ∧ (vneg a).x = -a.x ∧ (vneg a).y = -a.y ∧ (vneg a).z = -a.z) ∧
    ((vmul a k).ty = a.ty ∧ (vmul a k).x = a.x * k ∧ (vmul a k).y = a.y * k ∧
      (vmul a k).z = a.z * k) ∧
    ((vrmul k a).ty = a.ty ∧ (vrmul k a).x = k * a.x ∧ (vrmul k a).y = k * a.y ∧
      (vrmul k a).z = k * a.z) ∧
    vadd a .nonVec = none ∧ vsub a .nonVec = none :=
  ⟨⟨_, rfl, rfl, rfl, rfl, rfl⟩, ⟨_, rfl, rfl, rfl, rfl, rfl⟩, ⟨rfl, rfl, rfl, rfl⟩,
   ⟨rfl, rfl, rfl, rfl⟩, ⟨rfl, rfl, rfl, rfl⟩, rfl, rfl⟩

/-- Floor division by a non-zero integer is component-wise true floor division (`k*q ≤ a < k*q+k`
for `k > 0`) and keeps the type; division by zero raises. -/
theorem vector_floordiv (a : Vec Int) (k : Int) :
    (k = 0 → vfloordiv a k = .error .other) ∧
    (0 < k → ∃ r, vfloordiv a k = .ok r ∧ r.ty = a.ty ∧
      (k * r.x ≤ a.x ∧ a.x < k * r.x + k) ∧ (k * r.y ≤ a.y ∧ a.y < k * r.y + k) ∧
      (k * r.z ≤ a.z ∧ a.z < k * r.z + k)) := by
  constructor
  · intro h; simp [vfloordiv, h]
  · intro hk
    have hne : k ≠ 0 := by omega
    refine ⟨⟨a.ty, a.x.fdiv k, a.y.fdiv k, a.z.fdiv k⟩, by simp [vfloordiv, hne], rfl, ?_, ?_, ?_⟩ <;>
    · simp only [Int.fdiv_eq_ediv_of_nonneg _ (Int.le_of_lt hk)]
      exact ⟨Int.mul_ediv_self_le hne, Int.lt_mul_ediv_self_add hk⟩

/-- Over the integers the component-wise operations obey the vector-space laws on components:
`a - b = a + (-b)`, `a + (-a) = 0`, `k * a = a * k`, and `+` is commutative up to the type tag. -/
theorem vector_int_laws (a b : Vec Int) (k : Int) :
    vsub a (.vec b) = vadd a (.vec (vneg b)) ∧
    vadd a (.vec (vneg a)) = some ⟨a.ty, 0, 0, 0⟩ ∧
    vrmul k a = vmul a k ∧
    (vadd a (.vec b)).map (fun r => (r.x, r.y, r.z)) =
      (vadd b (.vec a)).map (fun r => (r.x, r.y, r.z)) := by
  refine ⟨?_, ?_, ?_, ?_⟩
  · simp [vsub, vadd, vneg, Int.sub_eq_add_neg]
  · simp [vadd, vneg, Int.add_right_neg]
  · simp [vrmul, vmul, Int.mul_comm]
  · simp [vadd, Int.add_comm]

/-! ## Attribute aliases -/

section aliases
variable {Val : Type}

/-- `attribute_alias(name)`: reading through the alias returns what was set through it; setting
through the alias sets the underlying attribute and nothing else. -/
theorem alias_readback (o : Obj Val) (name : String) (v : Val) :
    aliasGet name (aliasSet name o v) = .ok v ∧
    getAttr (aliasSet name o v) name = .ok v ∧
    ∀ m, m ≠ name → getAttr (aliasSet name o v) m = getAttr o m :=
  ⟨getAttr_setAttr_self o name v, getAttr_setAttr_self o name v,
   fun m hm => getAttr_setAttr_ne o name m v hm⟩

/-- `attribute_transform(name, from_orig, to_orig)`: the underlying attribute receives
`to_orig(value)`; the alias round-trips when `from_orig ∘ to_orig = id`. -/
theorem alias_transform_readback (o : Obj Val) (name : String) (fromOrig toOrig : Val → Val)
    (hinv : ∀ v, fromOrig (toOrig v) = v) (v : Val) :
    transformGet name fromOrig (transformSet name toOrig o v) = .ok v ∧
    getAttr (transformSet name toOrig o v) name = .ok (toOrig v) := by
  simp [transformGet, transformSet, getAttr_setAttr_self, hinv]

/-- `multi_attribute_alias(container, *names)` with distinct names: setting a container of as many
values as names and reading back returns those values; each underlying attribute holds its
component; other attributes are untouched. -/
theorem alias_multi_readback (names : List String) (hnd : names.Nodup) (o : Obj Val)
    (vals : List Val) (hlen : vals.length = names.length) :
    multiGet names (multiSet names o vals) = .ok vals ∧
    (∀ n v, (n, v) ∈ names.zip vals → getAttr (multiSet names o vals) n = .ok v) ∧
    (∀ m, m ∉ names → getAttr (multiSet names o vals) m = getAttr o m) :=
  ⟨multiGet_multiSet names hnd o vals hlen,
   fun n v h => getAttr_multiSet_zip names hnd o vals n v h,
   fun m hm => getAttr_multiSet_not_mem names o vals m hm⟩

end aliases

/-! ## Non-vacuity: concrete instances -/

section examples

private def alice : Player := ⟨1, "alice", 0, 0, 10, none⟩
private def alice2 : Player := ⟨1, "alice", 0, 1, 20, some "A"⟩
private def bob : Player := ⟨2, "bob", 0, 0, 30, none⟩

-- add / overwrite keeps position; update of unknown is a no-op; remove + add goes to the end
example : replay [[.add alice, .add bob], [.add alice2, .gamemode 7 3, .remove 9]] [] =
    [(1, alice2), (2, bob)] := by decide
example : replay [[.add alice, .add bob], [.remove 1, .add alice2]] [] =
    [(2, bob), (1, alice2)] := by decide
example : ([(1, alice), (2, bob)] : PlayerList).map Prod.fst |>.Nodup := by decide
example : dictGet 7 ([(1, alice), (2, bob)] : PlayerList) = none := by decide

-- a 2×2 patch at (1,1) of a 4×3 map
private def m43 : MapState := { MapState.new none with width := 4, height := 3, pixels := List.replicate 12 0 }
example : applyPatch m43 2 (1, 1) (some [1, 2, 3, 4]) = .ok [0,0,0,0, 0,1,2,0, 0,3,4,0] := by decide
example : m43.width = 4 ∧ m43.pixels.length = 4 * 3 ∧ 1 + 2 ≤ 4 ∧ 1 + 2 ≤ 3 ∧
    ([1, 2, 3, 4] : Bytes).length = 2 * 2 := by decide
-- out-of-range behaviour: a row overflow wraps into the next row, a negative offset indexes from
-- the end, and far out of range raises (IndexError)
example : applyPatch m43 2 (3, 0) (some [1, 2]) = .ok [0,0,0,1, 2,0,0,0, 0,0,0,0] := by decide
example : applyPatch m43 1 (-1, 0) (some [9]) = .ok [0,0,0,0, 0,0,0,0, 0,0,0,9] := by decide
example : applyPatch m43 1 (0, 3) (some [9]) = .error .other := by decide
example : applyPatch m43 0 (0, 0) (some [9]) = .error .other := by decide

-- relative X and YAW (flags = 0x09): x adds, yaw adds and wraps; absolute pitch −90 wraps to 270
example : applyPosLook 9 ⟨1, 2, 3, 350, -90⟩ ⟨10, 20, 30, 20, 5⟩ = ⟨11, 2, 3, 10, 270⟩ := by
  decide +kernel

-- GameMode is a BitFieldEnum
private def gameMode : List (String × Nat) :=
  [("SURVIVAL", 0), ("CREATIVE", 1), ("ADVENTURE", 2), ("SPECTATOR", 3), ("HARDCORE", 8)]
example : nameFromValue gameMode 11 = some "SPECTATOR|HARDCORE" := by decide +kernel
example : nameFromValue gameMode 0 = some "SURVIVAL" := by decide +kernel
example : nameFromValue gameMode 4 = none := by decide +kernel
example : nameFromValue [("A", 1)] 0 = some "0" := by decide +kernel
example : parseName gameMode "SPECTATOR|HARDCORE" = some 11 := by decide +kernel
example : (gameMode.map Prod.fst).Nodup ∧ ∀ p ∈ gameMode, '|' ∉ p.1.toList := by decide +kernel
example : checkEnum gameMode = true := by decide +kernel
example : enumNameFromValue [("lower", 1), ("TOP", 1), ("ALSO", 1)] 1 = some "TOP" := by
  decide +kernel

-- records
private def r1 : Rec Nat := ⟨5, [("uuid", some 1), ("name", some 2)]⟩
private def r2 : Rec Nat := ⟨5, [("uuid", some 1), ("name", none)]⟩
example : recEq r1 r1 = .ok true ∧ r1.complete = true ∧ r1.names.Nodup := by decide
/-- A partially initialised record is hashable but comparing it — even with itself — raises. -/
example : recEq r2 r2 = .error .other ∧ recHash (fun t vs => t + vs.sum) 0 r2 = 6 := by decide

-- vectors: Position + Vector is a Position, Vector + Position is a Vector
example : vadd (⟨.sub 1, 1, 2, 3⟩ : Vec Int) (.vec ⟨.vector, 10, 20, 30⟩) = some ⟨.sub 1, 11, 22, 33⟩ := by
  decide
example : vadd (⟨.vector, 10, 20, 30⟩ : Vec Int) (.vec ⟨.sub 1, 1, 2, 3⟩) = some ⟨.vector, 11, 22, 33⟩ := by
  decide
example : vfloordiv ⟨.vector, -7, 7, 0⟩ 2 = .ok ⟨.vector, -4, 3, 0⟩ := by decide

-- aliases: PositionAndLook.position = multi_attribute_alias(Vector, 'x', 'y', 'z')
example : multiGet ["x", "y", "z"] (multiSet ["x", "y", "z"] [("yaw", 0), ("x", 9)] [1, 2, 3]) =
    (.ok [1, 2, 3] : Except Err (List Nat)) := by decide
/-- With a repeated name the last value wins and the read-back differs from what was set. -/
example : multiGet ["x", "x"] (multiSet ["x", "x"] [] [1, 2]) =
    (.ok [2, 2] : Except Err (List Nat)) := by decide

end examples

end PyCraft.C20

/-! ## Every flag enum found in the library (tabulated from the live classes on every run) -/
namespace PyCraft.C20
open PyCraft.Gen PyCraft.Enums

theorem library_flag_enums_check : ∀ e ∈ flagEnums, checkEnum e.2 = true := by decide +kernel

/-- For every flag enum in the library and every value 0..255: a printed name parses back to the
value it was printed for. -/
theorem library_flag_names_parse_back :
    ∀ e ∈ flagEnums, ∀ v, v < 256 → ∀ s, nameFromValue e.2 v = some s → parseName e.2 s = some v :=
  fun e he => checkEnum_parses_back e.2 (library_flag_enums_check e he)

example : flagEnums.length ≥ 3 := by decide +kernel

end PyCraft.C20
