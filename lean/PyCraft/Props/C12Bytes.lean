import PyCraft.Lemmas.WireBytes
import PyCraft.Props.C01
import PyCraft.Props.C12
import PyCraft.Props.C18
/-!
# C12 ∘ C01 ∘ C18 — the concurrent writers' wire, as BYTES, is what the peer's reader decodes

`Props/C12.lean` proves that the abstract wire (a list of chunks `(p,0)`, `(p,1)` = the two
`socket.send` calls of `Packet._write_buffer`) consists of whole frames, each packet once, per-thread
FIFO.  `Props/C01.lean` proves that a concatenation of byte frames is decoded exactly by
`read_packet` under any read segmentation, any threshold, any cipher.  Here the two are COMPOSED:
`Model/WireBytes.lean` maps the abstract wire to the bytes actually handed to `socket.send`
(`sendsOf`, `bytesOf`; chunk `(p,0)` ↦ `(frameSends z thr (payload p))[0]`, `(p,1)` ↦ `…[1]`) and to
the cipher text produced by `EncryptedSocketWrapper.send` one call at a time (`encSendsOf`,
`encBytesOf`).

Every theorem is for ALL programs `progs` with pairwise distinct packet objects, ALL schedules, ALL
batch caps, ALL zlib implementations with `inflate ∘ deflate = id`, ALL thresholds (`none`,
`some t` for any integer `t`), ALL contents `content : Pkt → id × field bytes` passing C01's VarInt
guard `FrameOK` on the packets of the programs, and ALL segmentations `segs` of the byte stream as
seen by the reader.  `s := run cfg (init progs) sched` is an arbitrary reachable state.

Only property theorems and non-vacuity examples live here; helper lemmas are in
`Lemmas/WireBytes.lean`.
-/
namespace PyCraft.C12Bytes
open PyCraft PyCraft.Writers

/-- In every reachable state the BYTES on the wire are the concatenation of the complete frames
`VarInt(len) ++ body` of the sent packets, in wire order, followed by nothing or by exactly the
length prefix of one packet — the one whose body the current lock holder is about to send and which
has no frame yet.  Send by send: whole frames are exactly the two `frameSends` of their packet.
When the lock is free, and in every final state, there is no open prefix.  Any `payload`, any
(law-free) zlib, any threshold. -/
theorem wire_bytes_are_whole_frames (cfg : Cfg) (progs : List (List Writers.Op))
    (hnd : (progs.flatMap pktsOf).Nodup) (sched : List Tid) (z : ZlibOps) (thr : Option Int)
    (payload : Pkt → Bytes) :
    let s := run cfg (init progs) sched
    let whole := ((sentPkts s.wire).map fun p => frame z thr (payload p)).flatten
    ((bytesOf z thr payload s.wire = whole ∧
        sendsOf z thr payload s.wire =
          (sentPkts s.wire).flatMap fun p => frameSends z thr (payload p)) ∨
      ∃ t p, s.owner = some t ∧ (s.thr t).pc.half = [(p, 0)] ∧ p ∉ sentPkts s.wire ∧
        bytesOf z thr payload s.wire =
          whole ++ encVarInt (frameBody z thr (payload p)).length) ∧
    (s.owner = none → bytesOf z thr payload s.wire = whole) ∧
    ((∀ t, (s.thr t).pc.isDone = true) → bytesOf z thr payload s.wire = whole) := by
  intro s whole
  obtain ⟨ps, -, hw⟩ := C12.frames_contiguous cfg progs hnd sched
  have hA : (bytesOf z thr payload s.wire = whole ∧
        sendsOf z thr payload s.wire =
          (sentPkts s.wire).flatMap fun p => frameSends z thr (payload p)) ∨
      ∃ t p, s.owner = some t ∧ (s.thr t).pc.half = [(p, 0)] ∧ p ∉ sentPkts s.wire ∧
        bytesOf z thr payload s.wire =
          whole ++ encVarInt (frameBody z thr (payload p)).length := by
    rcases hw with hw | ⟨t, p, ho, hh, hp, hw⟩
    · left
      have hs : sentPkts s.wire = ps := by
        show sentPkts (run cfg (init progs) sched).wire = ps
        rw [hw, sentPkts_frames]
      show bytesOf z thr payload (run cfg (init progs) sched).wire = _ ∧
        sendsOf z thr payload (run cfg (init progs) sched).wire = _
      rw [hw]
      refine ⟨?_, ?_⟩
      · rw [bytesOf_frames]; show _ = ((sentPkts s.wire).map _).flatten; rw [hs]
      · rw [sendsOf_frames, sentPkts_frames]
    · right
      have hs : sentPkts s.wire = ps := by
        show sentPkts (run cfg (init progs) sched).wire = ps
        rw [hw, sentPkts_snoc0, sentPkts_frames]
      refine ⟨t, p, ho, hh, by rw [hs]; exact hp, ?_⟩
      show bytesOf z thr payload (run cfg (init progs) sched).wire = _
      rw [hw, bytesOf_append, bytesOf_frames, bytesOf_open]
      show _ = ((sentPkts s.wire).map _).flatten ++ _
      rw [hs]
  have hB : s.owner = none → bytesOf z thr payload s.wire = whole := by
    intro hn
    rcases hA with h | ⟨t, p, ho, -⟩
    · exact h.1
    · rw [hn] at ho; cases ho
  exact ⟨hA, hB, fun hd =>
    hB (C12.all_sent_or_dropped_after_disconnect_partial cfg progs hnd sched hd).2.2.1⟩

/-- The server-side reader recovers exactly what was sent.  In EVERY reachable state — lock free or
held, a frame open or not, final or not — feeding the bytes on the wire, cut into arrival segments
in ANY way, to `read_packet` in a loop (compression enabled iff a threshold is set) delivers
exactly the contents `(id, field bytes)` of the packets whose frame is complete, each once, whole,
in wire order, and then raises end-of-stream: the open length prefix of the lock holder's packet
(if any) yields no packet and no other exception.  (C12 `frames_contiguous` + C01
`roundtrip_stream` / `roundtrip_stream_trailing`.) -/
theorem server_decodes_exactly_sent (cfg : Cfg) (progs : List (List Writers.Op))
    (hnd : (progs.flatMap pktsOf).Nodup) (sched : List Tid) (z : Zlib) (thr : Option Int)
    (content : Pkt → Nat × Bytes)
    (hok : ∀ p ∈ progs.flatMap pktsOf, FrameOK z.toZlibOps thr (content p)) (segs : Segs) :
    let s := run cfg (init progs) sched
    segs.flatten = bytesOf z.toZlibOps thr (payloadOf content) s.wire →
      readAll z.toZlibOps thr.isSome segs = ((sentPkts s.wire).map content, .eof) := by
  intro s hseg
  have hmem : ∀ c ∈ s.wire, c.1 ∈ progs.flatMap pktsOf :=
    (C12.exactly_once cfg progs hnd sched).2.1
  have hsent : ∀ q ∈ (sentPkts s.wire).map content, FrameOK z.toZlibOps thr q := by
    intro q hq
    obtain ⟨p, hp, rfl⟩ := List.mem_map.mp hq
    simp only [sentPkts, List.mem_filterMap] at hp
    obtain ⟨c, hc, hcp⟩ := hp
    split at hcp
    · cases hcp; exact hok _ (hmem c hc)
    · cases hcp
  rcases (wire_bytes_are_whole_frames cfg progs hnd sched z.toZlibOps thr (payloadOf content)).1
    with ⟨hb, -⟩ | ⟨t, p, ho, hh, hp, hb⟩
  · apply C01.roundtrip_stream z thr _ hsent
    rw [hseg, hb, map_frame_content]
  · have hpw : (p, (0 : Fin 2)) ∈ s.wire := by
      have hwl : s.wire = frames (sentPkts s.wire) ++ (cur s).half :=
        (C12.run_inv cfg progs hnd sched).wire.wire_eq
      rw [cur_of_owner ho, hh] at hwl
      rw [hwl]; simp
    obtain ⟨h1, h2⟩ := open_prefix_strict z.toZlibOps thr content p
    apply C01.roundtrip_stream_trailing z thr _ hsent (content p) (hok p (hmem _ hpw))
      (bytesOf z.toZlibOps thr (payloadOf content) [(p, 0)])
      (frameBody z.toZlibOps thr (payloadOf content p)) h1 h2
    rw [hseg, hb, map_frame_content, bytesOf_open]

/-- Per-thread FIFO as the SERVER sees it: if thread `t`'s program queues `p` and later queues `q`,
then as soon as `q`'s frame is complete on the wire, the reader's output — under any segmentation —
contains the content of `p` at `p`'s wire position and the content of `q` at `q`'s, `p` strictly
before `q`: the list of delivered packets is literally `x ++ p ++ y ++ q ++ w` (under `content`)
for the decomposition `x ++ p :: y ++ q :: w` of the sent packets. -/
theorem server_sees_fifo_per_thread (cfg : Cfg) (progs : List (List Writers.Op))
    (hnd : (progs.flatMap pktsOf).Nodup) (sched : List Tid) (z : Zlib) (thr : Option Int)
    (content : Pkt → Nat × Bytes)
    (hok : ∀ p ∈ progs.flatMap pktsOf, FrameOK z.toZlibOps thr (content p)) (segs : Segs)
    (t : Tid) (p q : Pkt)
    (hpq : [Writers.Op.queued p, Writers.Op.queued q].Sublist (progOf progs t)) :
    let s := run cfg (init progs) sched
    segs.flatten = bytesOf z.toZlibOps thr (payloadOf content) s.wire → q ∈ sentPkts s.wire →
      ∃ x y w, sentPkts s.wire = x ++ p :: y ++ q :: w ∧
        (readAll z.toZlibOps thr.isSome segs).1 =
          x.map content ++ content p :: y.map content ++ content q :: w.map content := by
  intro s hseg hq
  obtain ⟨-, hsub, -⟩ := C12.per_thread_fifo cfg progs hnd sched t p q hpq hq
  obtain ⟨x, y, w, hxyw⟩ := pair_split p q _ hsub
  refine ⟨x, y, w, hxyw, ?_⟩
  rw [server_decodes_exactly_sent cfg progs hnd sched z thr content hok segs hseg]
  show (sentPkts s.wire).map content = _
  rw [hxyw]; simp

/-- Exactly once, as the server sees it: the delivered list is the image under `content` of a
duplicate-free list of packet objects, each of which was issued by some program (so nothing is
invented, nothing duplicated); if distinct packet objects of the programs carry distinct contents,
the delivered list itself has no duplicates.  In a final state every packet of every program has
been delivered, or is left in the queue, or is a forced write that failed on the closed socket. -/
theorem server_sees_each_packet_once (cfg : Cfg) (progs : List (List Writers.Op))
    (hnd : (progs.flatMap pktsOf).Nodup) (sched : List Tid) (z : Zlib) (thr : Option Int)
    (content : Pkt → Nat × Bytes)
    (hok : ∀ p ∈ progs.flatMap pktsOf, FrameOK z.toZlibOps thr (content p)) (segs : Segs) :
    let s := run cfg (init progs) sched
    segs.flatten = bytesOf z.toZlibOps thr (payloadOf content) s.wire →
      (readAll z.toZlibOps thr.isSome segs).1 = (sentPkts s.wire).map content ∧
      (sentPkts s.wire).Nodup ∧
      (∀ p ∈ sentPkts s.wire, p ∈ s.issued ∧ p ∈ progs.flatMap pktsOf) ∧
      ((∀ p ∈ progs.flatMap pktsOf, ∀ q ∈ progs.flatMap pktsOf, content p = content q → p = q) →
        (readAll z.toZlibOps thr.isSome segs).1.Nodup) ∧
      ((∀ t, (s.thr t).pc.isDone = true) → ∀ p ∈ progs.flatMap pktsOf,
        content p ∈ (readAll z.toZlibOps thr.isSome segs).1 ∨ p ∈ s.queue ∨ p ∈ s.failed) := by
  intro s hseg
  have hr := server_decodes_exactly_sent cfg progs hnd sched z thr content hok segs hseg
  obtain ⟨hn, -, -, hip, -, hperm⟩ := C12.exactly_once cfg progs hnd sched
  have hiss : ∀ p ∈ sentPkts s.wire, p ∈ s.issued ∧ p ∈ progs.flatMap pktsOf := by
    intro p hp
    have : p ∈ s.issued := hperm.symm.subset
      (List.mem_append_left _ (List.mem_append_left _ (List.mem_append_left _ hp)))
    exact ⟨this, hip p this⟩
  refine ⟨by rw [hr], hn, hiss, fun hinj => ?_, fun hd p hp => ?_⟩
  · rw [hr]
    show ((sentPkts s.wire).map content).Nodup
    exact nodup_map_on content _ (fun a ha b hb h => hinj a (hiss a ha).2 b (hiss b hb).2 h) hn
  · rcases (C12.all_sent_or_dropped_after_disconnect_partial cfg progs hnd sched hd).2.2.2.2.2.1
      p hp with h | h | h
    · left; rw [hr]; exact List.mem_map.mpr ⟨p, h, rfl⟩
    · exact Or.inr (Or.inl h)
    · exact Or.inr (Or.inr h)

/-- The same through an encrypted connection, for ANY cipher pair: the writers' chunks go through
`encryptor.update` ONE `send` AT A TIME (two per frame, exactly the `socket.send` calls of the
run — `EncryptedSocketWrapper.send`), the encryptor context starting at `s0`; the cipher text
arrives in ANY segmentation and is decrypted `read` call by `read` call by a decryptor starting
from the same `s0`.  In every reachable state the reader delivers exactly the contents of the
packets whose frame is complete, in wire order, then end-of-stream. -/
theorem server_decodes_exactly_sent_encrypted {σ : Type} (cp : CipherPair σ) (s0 : σ) (cfg : Cfg)
    (progs : List (List Writers.Op)) (hnd : (progs.flatMap pktsOf).Nodup) (sched : List Tid)
    (z : Zlib) (thr : Option Int) (content : Pkt → Nat × Bytes)
    (hok : ∀ p ∈ progs.flatMap pktsOf, FrameOK z.toZlibOps thr (content p)) (segs : Segs) :
    let s := run cfg (init progs) sched
    segs.flatten = encBytesOf cp.enc s0 z.toZlibOps thr (payloadOf content) s.wire →
      readAllEnc cp.dec s0 z.toZlibOps thr.isSome segs = ((sentPkts s.wire).map content, .eof) := by
  intro s hseg
  rw [readAllEnc_encSends z.toZlibOps cp s0 thr.isSome _ segs hseg]
  exact server_decodes_exactly_sent cfg progs hnd sched z thr content hok _
    (by rw [List.flatten_cons, List.flatten_nil, List.append_nil]; rfl)

/-- Instance: AES/CFB8 as pyCraft sets it up, over EVERY block function `E` and every initial
register `iv` (pyCraft: `E = aes128 secret`, `iv = secret`).  The cipher text is what
`encryptor.update` returns for each of the run's `socket.send` calls in turn (`cfb8EncChunks`,
C18), re-segmented arbitrarily; the reader decrypts with the CFB8 decryptor from the same `iv`. -/
theorem server_decodes_exactly_sent_cfb8 (E : Bytes → Bytes) (iv : Bytes) (cfg : Cfg)
    (progs : List (List Writers.Op)) (hnd : (progs.flatMap pktsOf).Nodup) (sched : List Tid)
    (z : Zlib) (thr : Option Int) (content : Pkt → Nat × Bytes)
    (hok : ∀ p ∈ progs.flatMap pktsOf, FrameOK z.toZlibOps thr (content p)) (segs : Segs) :
    let s := run cfg (init progs) sched
    segs.flatten =
        (cfb8EncChunks E iv (sendsOf z.toZlibOps thr (payloadOf content) s.wire)).2.flatten →
      readAllEnc (cfb8DecX E) iv z.toZlibOps thr.isSome segs =
        ((sentPkts s.wire).map content, .eof) := by
  intro s hseg
  apply server_decodes_exactly_sent_encrypted (cfb8Pair E) iv cfg progs hnd sched z thr content hok
  rw [hseg]
  show _ = (encSends (cfb8EncX E) iv _).2.flatten
  rw [encSends_cfb8]

/-- … and through the WRAPPER model of C18 (`EncryptedSocketWrapper` / `EncryptedFileObjectWrapper`
created by `create_AES_cipher(secret)`): let `ops` be ANY sequence of wrapper calls whose `send`
calls are, in order, exactly the run's `socket.send` calls (receiving calls may be interleaved
anywhere — they use the other cipher context).  The bytes the wrapper hands to the inner socket,
re-segmented arbitrarily and read by a peer that set up its decryptor from the same secret, decode
to exactly the contents of the packets whose frame is complete. -/
theorem server_decodes_exactly_sent_wrappers (E : Bytes → Bytes) (secret : Bytes) (cfg : Cfg)
    (progs : List (List Writers.Op)) (hnd : (progs.flatMap pktsOf).Nodup) (sched : List Tid)
    (z : Zlib) (thr : Option Int) (content : Pkt → Nat × Bytes)
    (hok : ∀ p ∈ progs.flatMap pktsOf, FrameOK z.toZlibOps thr (content p)) (segs : Segs)
    (ops : List PyCraft.Op) :
    let s := run cfg (init progs) sched
    ops.filter PyCraft.Op.isSend =
        (sendsOf z.toZlibOps thr (payloadOf content) s.wire).map PyCraft.Op.send →
    segs.flatten =
        (outsOf PyCraft.Op.isSend ops (Chan.run E (Chan.init secret) ops).2).flatten →
      readAllEnc (cfb8DecX E) secret z.toZlibOps thr.isSome segs =
        ((sentPkts s.wire).map content, .eof) := by
  intro s hops hseg
  apply server_decodes_exactly_sent_cfb8 E secret cfg progs hnd sched z thr content hok
  rw [hseg, (C18.wrapper_stream E secret ops).1, flatMap_sent_filter, hops, flatMap_sent_sends,
    (C18.cfb8_chunks E secret _).1]

/-! ### Non-vacuity -/

/-- contents for the packets 1–4 of `C12.exProgs`: wire ids 0x0e, 0x0f, 0x0e, 0x10 (two packet
objects share an id), fields of different lengths -/
def exContent : Pkt → Nat × Bytes
  | 1 => (0x0e, [0x61])
  | 2 => (0x0f, [])
  | 3 => (0x0e, [0x62, 0x63, 0x64])
  | 4 => (0x10, [0x01, 0x02])
  | _ => (0, [])

example : (C12.exProgs.flatMap pktsOf).Nodup := by decide
example : ∀ p ∈ C12.exProgs.flatMap pktsOf,
    FrameOK Zlib.ident.toZlibOps (some 2) (exContent p) := by decide +kernel

/-- the final state of `C12.exSched`, threshold 2 (packets 3 and 4 take the compress branch, 1 and 2 do
not): the bytes on the wire, and the sends -/
example :
    bytesOf Zlib.ident.toZlibOps (some 2) (payloadOf exContent)
        (run ⟨300, 50⟩ (init C12.exProgs) C12.exSched).wire =
      [0x03, 0x00, 0x0e, 0x61,  0x05, 0x04, 0x0e, 0x62, 0x63, 0x64,  0x04, 0x03, 0x10, 0x01, 0x02,
       0x02, 0x00, 0x0f] ∧
    sendsOf Zlib.ident.toZlibOps (some 2) (payloadOf exContent)
        (run ⟨300, 50⟩ (init C12.exProgs) C12.exSched).wire =
      [[0x03], [0x00, 0x0e, 0x61], [0x05], [0x04, 0x0e, 0x62, 0x63, 0x64], [0x04],
       [0x03, 0x10, 0x01, 0x02], [0x02], [0x00, 0x0f]] := by decide +kernel

/-- … read back under a segmentation that cuts inside length prefixes and bodies -/
example : readAll Zlib.ident.toZlibOps true
      [[0x03, 0x00], [0x0e], [], [0x61, 0x05, 0x04, 0x0e, 0x62], [0x63, 0x64, 0x04, 0x03, 0x10, 0x01],
       [0x02, 0x02, 0x00], [0x0f]]
    = ([(0x0e, [0x61]), (0x0e, [0x62, 0x63, 0x64]), (0x10, [0x01, 0x02]), (0x0f, [])], .eof) := by
  exact (server_decodes_exactly_sent ⟨300, 50⟩ C12.exProgs (by decide) C12.exSched Zlib.ident
    (some 2) exContent (by decide +kernel)
    [[0x03, 0x00], [0x0e], [], [0x61, 0x05, 0x04, 0x0e, 0x62], [0x63, 0x64, 0x04, 0x03, 0x10, 0x01],
     [0x02, 0x02, 0x00], [0x0f]] (by decide +kernel)).trans (by decide +kernel)

/-- a reachable state with an OPEN frame: after 14 scheduler choices packet 1 has its whole frame
on the wire and the networking thread (the lock holder) has sent only the length prefix of packet 3;
the reader delivers packet 1 and raises end-of-stream -/
example :
    (run ⟨300, 50⟩ (init C12.exProgs) (C12.exSched.take 14)).wire = [(1, 0), (1, 1), (3, 0)] ∧
    (run ⟨300, 50⟩ (init C12.exProgs) (C12.exSched.take 14)).owner = some 0 ∧
    bytesOf Zlib.ident.toZlibOps (some 2) (payloadOf exContent)
      (run ⟨300, 50⟩ (init C12.exProgs) (C12.exSched.take 14)).wire = [0x03, 0x00, 0x0e, 0x61, 0x05] := by
  decide +kernel
example : readAll Zlib.ident.toZlibOps true [[0x03, 0x00, 0x0e], [0x61, 0x05]]
    = ([(0x0e, [0x61])], .eof) :=
  (server_decodes_exactly_sent ⟨300, 50⟩ C12.exProgs (by decide) (C12.exSched.take 14)
    Zlib.ident (some 2) exContent (by decide +kernel) [[0x03, 0x00, 0x0e], [0x61, 0x05]]
    (by decide +kernel)).trans (by decide +kernel)

/-- the FIFO hypothesis is satisfiable (thread 2 queues 3 before 4), and `exContent` is injective
on the packets of the programs -/
example : [Writers.Op.queued 3, Writers.Op.queued 4].Sublist (progOf C12.exProgs 2) := by decide
example : 4 ∈ sentPkts (run ⟨300, 50⟩ (init C12.exProgs) C12.exSched).wire := by decide
example : ∀ p ∈ C12.exProgs.flatMap pktsOf, ∀ q ∈ C12.exProgs.flatMap pktsOf,
    exContent p = exContent q → p = q := by decide +kernel

/-- encrypted with CFB8 over the toy block function of C18: the cipher text of the eight sends
differs from the plain text, and — re-segmented 5 + 13 — decodes to the four packets -/
example :
    (cfb8EncChunks C18.toyE [1, 2, 3] (sendsOf Zlib.ident.toZlibOps (some 2) (payloadOf exContent)
        (run ⟨300, 50⟩ (init C12.exProgs) C12.exSched).wire)).2.flatten ≠
      bytesOf Zlib.ident.toZlibOps (some 2) (payloadOf exContent)
        (run ⟨300, 50⟩ (init C12.exProgs) C12.exSched).wire := by decide +kernel
example :
    let ct := (cfb8EncChunks C18.toyE [1, 2, 3] (sendsOf Zlib.ident.toZlibOps (some 2)
      (payloadOf exContent) (run ⟨300, 50⟩ (init C12.exProgs) C12.exSched).wire)).2.flatten
    readAllEnc (cfb8DecX C18.toyE) [1, 2, 3] Zlib.ident.toZlibOps true [ct.take 5, ct.drop 5]
      = ([(0x0e, [0x61]), (0x0e, [0x62, 0x63, 0x64]), (0x10, [0x01, 0x02]), (0x0f, [])], .eof) := by
  intro ct
  exact (server_decodes_exactly_sent_cfb8 C18.toyE [1, 2, 3] ⟨300, 50⟩ C12.exProgs (by decide)
    C12.exSched Zlib.ident (some 2) exContent (by decide +kernel) [ct.take 5, ct.drop 5]
    (by simp [ct])).trans (by decide +kernel)

/-- the wrapper hypothesis is satisfiable: the eight sends with a `recv` and a `read` interleaved -/
example :
    let sends := sendsOf Zlib.ident.toZlibOps (some 2) (payloadOf exContent)
      (run ⟨300, 50⟩ (init C12.exProgs) C12.exSched).wire
    let ops : List PyCraft.Op :=
      (sends.take 3).map .send ++ [.recv [9, 9]] ++ (sends.drop 3).map .send ++ [.read [7]]
    ops.filter PyCraft.Op.isSend = sends.map PyCraft.Op.send := by decide +kernel

end PyCraft.C12Bytes
