import PyCraft.Lemmas.C03Nominal
import PyCraft.Props.C03
import PyCraft.Model.Wire
import PyCraft.Generated.C03Nominal
/-!
# C03 (audit rank 19) — the NOMINAL maxima 5 / 10, an exact characterisation of the reader's three
outcomes, and one instrumented reader

`Props/C03.lean` is `∀ mx`.  Here the two classes and their `max_bytes` are named
(`VarKind.maxBytes`, pinned to the LIVE class attributes through `Generated/C03Nominal.lean`), the
reader's outcome is characterised by an `iff` for each exception and by acceptance of EVERY
terminated run (canonical or zero-padded), the characterisation is shown to determine the decoder
completely, the read bound is shown to determine `max_bytes` (`nominal_iff`), and the read counter and
the decoder are shown to be the two projections of one instrumented reader on ALL inputs.

Only property theorems and non-vacuity examples live here; helpers are in `Lemmas/C03Nominal.lean`.
-/
namespace PyCraft.C03Nominal
open PyCraft

/-! ## One instrumented reader -/

/-- The literal, instrumented `VarInt.read` (`readInstr`, basic.py:147-166) started as Python starts
it (`number = 0`, `bytes_encountered = 0`) returns, on EVERY input — failures included — exactly the
pair (outcome of `decVarInt`, count of `decVarIntReads`).  So the decoder and the read counter used
throughout C03 are two projections of one function, not two hand-written twins. -/
theorem instr_projections (mx : Nat) (bs : Bytes) :
    readInstr mx 0 0 bs = (decVarInt mx bs, decVarIntReads mx 0 bs) :=
  readInstr_eq mx bs 0 0

/-- … in particular for the two classes: `cls.read` = (`cls` decoder, `cls` read count). -/
theorem kind_projections (k : VarKind) (bs : Bytes) : k.read bs = (k.dec bs, k.reads bs) :=
  readInstr_eq k.maxBytes bs 0 0

/-! ## Exact characterisation of the outcomes -/

/-- `dec_iff`: for every `max_bytes = mx` the reader satisfies the decoder-independent specification
`ReaderSpec mx`:
* it raises "too long" IF AND ONLY IF the stream holds at least `mx + 1` bytes and the first `mx + 1`
  all carry the continuation bit;
* it raises end-of-stream IF AND ONLY IF the stream holds at most `mx` bytes and all of them carry the
  continuation bit;
* EVERY run of at most `mx` continuation bytes closed by a terminator is accepted — whether or not it
  is the canonical encoding (zero-padded `80 00` included) — the value is the little-endian base-128
  value of the consumed bytes and the unread rest starts right after the terminator. -/
theorem dec_iff (mx : Nat) : ReaderSpec mx (decVarInt mx) where
  tooLong_iff bs := by
    have := aux_tooLong_iff mx bs 0 0 (by omega)
    simpa [decVarInt] using this
  eof_iff bs := by
    have := aux_eof_iff mx bs 0 0 (by omega)
    simpa [decVarInt] using this
  accepts pre last rest hlen hall hl := by
    have := aux_accepts mx pre 0 0 last rest (by simp) (by omega) hall hl
    simpa [decVarInt] using this

/-- The specification is COMPLETE: any decoder whatsoever that satisfies `ReaderSpec mx` agrees with
the model of `VarInt.read` on every byte string (so `dec_iff` leaves no behaviour undetermined). -/
theorem dec_unique (mx : Nat) (D : Bytes → Except Err (Nat × Bytes)) (h : ReaderSpec mx D)
    (bs : Bytes) : D bs = decVarInt mx bs := by
  have m := dec_iff mx
  rcases shape_cases mx bs with ⟨pre, last, rest, e, h1, h2, h3⟩ | h2 | h3
  · subst e; rw [h.accepts pre last rest h1 h2 h3, m.accepts pre last rest h1 h2 h3]
  · rw [(h.tooLong_iff bs).mpr h2, (m.tooLong_iff bs).mpr h2]
  · rw [(h.eof_iff bs).mpr h3, (m.eof_iff bs).mpr h3]

/-- The reader succeeds IF AND ONLY IF the stream starts with at most `mx` continuation bytes followed
by a terminator. -/
theorem dec_ok_iff (mx : Nat) (bs : Bytes) :
    (∃ v rest, decVarInt mx bs = .ok (v, rest)) ↔
      ∃ pre last rest, bs = pre ++ last :: rest ∧ pre.length ≤ mx ∧ AllCont pre ∧
        last.toNat < 128 := by
  constructor
  · intro ⟨v, rest, h⟩
    obtain ⟨pre, last, e, hl, hall, hlast, _⟩ := C03.dec_ok mx bs v rest h
    exact ⟨pre, last, rest, e, by omega, hall, hlast⟩
  · intro ⟨pre, last, rest, e, h1, h2, h3⟩
    exact ⟨_, rest, by rw [e]; exact (dec_iff mx).accepts pre last rest h1 h2 h3⟩

/-- "raises on end of stream or an over-long encoding" as an `iff` (strengthens
`C03.dec_error_kinds`): the reader fails with `e` exactly when `e` is "too long" and the input is
over-long, or `e` is end-of-stream and the input is an unterminated short run. -/
theorem dec_error_iff (mx : Nat) (bs : Bytes) (e : Err) :
    decVarInt mx bs = .error e ↔
      (e = .tooLong ∧ mx + 1 ≤ bs.length ∧ AllCont (bs.take (mx + 1))) ∨
      (e = .eof ∧ bs.length ≤ mx ∧ AllCont bs) := by
  have m := dec_iff mx
  constructor
  · intro h
    rcases C03.dec_error_kinds mx bs e h with he | he
    · subst he; exact Or.inr ⟨rfl, (m.eof_iff bs).mp h⟩
    · subst he; exact Or.inl ⟨rfl, (m.tooLong_iff bs).mp h⟩
  · rintro (⟨he, h⟩ | ⟨he, h⟩)
    · subst he; exact (m.tooLong_iff bs).mpr h
    · subst he; exact (m.eof_iff bs).mpr h

/-- Exact number of `read(1)` calls on the two failure paths: an over-long encoding costs exactly
`mx + 1` reads (one more than the nominal maximum — the bound is attained), end of stream costs exactly
one read more than the bytes that exist.  (The success path is `C03.dec_ok`: prefix length + 1.) -/
theorem reads_on_failure (mx : Nat) (bs : Bytes) :
    (decVarInt mx bs = .error .tooLong → decVarIntReads mx 0 bs = mx + 1) ∧
    (decVarInt mx bs = .error .eof → decVarIntReads mx 0 bs = bs.length + 1) := by
  refine ⟨fun h => ?_, fun h => aux_eof_reads mx bs 0 0 h⟩
  have := aux_tooLong_reads mx bs 0 0 (by omega) h
  omega

/-! ## The read bound determines `max_bytes` -/

/-- A reader with `max_bytes = mx` stays within `k + 1` reads on every stream IF AND ONLY IF
`mx ≤ k`: raising `max_bytes` above the nominal value breaks the bound. -/
theorem reads_bound_iff (mx k : Nat) : (∀ bs, decVarIntReads mx 0 bs ≤ k + 1) ↔ mx ≤ k := by
  constructor
  · intro h
    have := h (contRun (mx + 1))
    rw [contRun_reads] at this; omega
  · intro h bs
    have := (C03.dec_reads_le mx bs).1; omega

/-- "At most one byte more than the nominal maximum `k`", read as a TIGHT bound (never more than
`k + 1` reads, and `k + 1` reads do occur), holds IF AND ONLY IF `max_bytes = k`.  So the property's
"5 or 10" pins the class attribute exactly. -/
theorem nominal_iff (mx k : Nat) :
    ((∀ bs, decVarIntReads mx 0 bs ≤ k + 1) ∧ ∃ bs, decVarIntReads mx 0 bs = k + 1) ↔ mx = k := by
  constructor
  · intro ⟨h1, bs, h2⟩
    have a := (reads_bound_iff mx k).mp h1
    have b := (C03.dec_reads_le mx bs).1
    omega
  · intro h; subst h
    exact ⟨(reads_bound_iff mx mx).mpr (Nat.le_refl _), contRun (mx + 1), contRun_reads mx⟩

/-! ## The two classes at their nominal maxima -/

/-- `VarInt.read` issues at most 6 = 5 + 1 one-byte reads on ANY stream, and at most one read beyond
the bytes that exist. -/
theorem varint_reads (bs : Bytes) :
    VarKind.varInt.reads bs ≤ 6 ∧ VarKind.varInt.reads bs ≤ bs.length + 1 :=
  C03.dec_reads_le 5 bs

/-- `VarLong.read` issues at most 11 = 10 + 1 one-byte reads on ANY stream, and at most one read beyond
the bytes that exist. -/
theorem varlong_reads (bs : Bytes) :
    VarKind.varLong.reads bs ≤ 11 ∧ VarKind.varLong.reads bs ≤ bs.length + 1 :=
  C03.dec_reads_le 10 bs

/-- `VarInt.read` satisfies the outcome specification with nominal maximum 5. -/
theorem varint_spec : ReaderSpec 5 readVarInt := dec_iff 5

/-- `VarLong.read` satisfies the outcome specification with nominal maximum 10. -/
theorem varlong_spec : ReaderSpec 10 readVarLong := dec_iff 10

/-- Round trip through the named readers on the property's ranges. -/
theorem varint_roundtrip (n : Nat) (rest : Bytes) (h : n < 2 ^ 32) :
    readVarInt (encVarInt n ++ rest) = .ok (n, rest) := C03.dec_enc_varint n rest h

theorem varlong_roundtrip (n : Nat) (rest : Bytes) (h : n < 2 ^ 64) :
    readVarLong (encVarInt n ++ rest) = .ok (n, rest) := C03.dec_enc_varlong n rest h

/-- The wire-type decoder (`Model/Wire.lean`, used by every packet layout) reads `VarInt` fields,
string / byte-array / array length prefixes with the `VarInt` class reader and `VarLong` fields with
the `VarLong` class reader — the literals 5 and 10 there are the class attributes named here. -/
theorem decode_uses_class_readers (cc : CustomCodec) (bs : Bytes) :
    decode cc .varint bs = (do let (n, r) ← readVarInt bs; pure (.int n, r)) ∧
    decode cc .varlong bs = (do let (n, r) ← readVarLong bs; pure (.int n, r)) ∧
    decLen .varint bs = readVarInt bs :=
  ⟨rfl, rfl, rfl⟩

/-! ## Tie to the live code (re-generated and re-checked on every run) -/

/-- The class attributes of the code as it is NOW: `VarInt.max_bytes` and `VarLong.max_bytes`, read
off the live classes by `harness/gen/c03nominal.py`, are the model's `maxBytes`, i.e. 5 and 10. -/
theorem live_max_bytes :
    Gen.c03MaxBytes = [("VarInt", VarKind.varInt.maxBytes), ("VarLong", VarKind.varLong.maxBytes)] ∧
    Gen.c03MaxBytes = [("VarInt", 5), ("VarLong", 10)] := by decide +kernel

/-- `VarLong` inherits `read` from `VarInt` unchanged (same function object), so one reader
parameterised by `max_bytes` is the right model for both. -/
theorem live_shared_read : Gen.c03SharedRead = true := by decide

/-- On every probed boundary input (runs of 0…13 continuation bytes with all-ones and all-zero
payloads, unterminated / terminated by 00, 01, 7f / followed by a trailing byte, padded zeros), for
BOTH classes, the live `cls.read` on a call-counting stream did exactly what the model says: same
outcome (value, `EOFError`, or the "too long" `ValueError`), same value, same `tell()` afterwards, same
number of `read(1)` calls. -/
theorem live_probes_agree : ∀ ch ∈ Gen.c03ProbeChunks, ∀ row ∈ ch, probeAgrees row = true := by
  decide +kernel

/-! ## Changed code is caught -/

/-- CHANGED CODE (a) `VarInt.max_bytes = 7` (passes every `∀ mx` theorem of `Props/C03.lean`):
violates the VarInt read bound (`varint_reads`) — 8 reads on eight `ff` bytes — and the over-long
clause of the nominal specification (`varint_spec`): six continuation bytes are no longer rejected. -/
theorem changed_max_bytes_caught :
    ¬ (∀ bs, decVarIntReads (VarKind.maxBytesChanged .varInt) 0 bs ≤ 6) ∧
    ¬ ReaderSpec 5 (decVarInt (VarKind.maxBytesChanged .varInt)) := by
  constructor
  · intro h
    exact absurd (h [0xff, 0xff, 0xff, 0xff, 0xff, 0xff, 0xff, 0xff]) (by decide +kernel)
  · intro h
    have := (h.tooLong_iff [0xff, 0xff, 0xff, 0xff, 0xff, 0xff, 0x01]).mpr (by decide +kernel)
    exact absurd this (by decide +kernel)

/-- CHANGED CODE (b) a reader that rejects zero-padded encodings such as `80 00` (passes every theorem
of `Props/C03.lean`, which prove acceptance only for canonical encodings): violates the acceptance
clause of the specification. -/
theorem changed_strict_caught : ¬ ReaderSpec 5 (decStrict 5) := by
  intro h
  have := h.accepts [0x80] 0x00 [] (by decide) (by decide +kernel) (by decide)
  exact absurd this (by decide +kernel)

/-! ## Non-vacuity -/

-- the instrumented reader on a success, an end of stream and an over-long input
example : readInstr 5 0 0 [0xac, 0x02, 0x07] = (.ok (300, [0x07]), 2) := by decide +kernel
example : VarKind.varInt.read [0xff, 0xff] = (.error .eof, 3) := by decide +kernel
example : VarKind.varInt.read [0xff, 0xff, 0xff, 0xff, 0xff, 0xff, 0x01] = (.error .tooLong, 6) := by
  decide +kernel
example : VarKind.varLong.read [0xff, 0xff, 0xff, 0xff, 0xff, 0xff, 0x01] = (.ok (2 ^ 43 - 1, []), 7) := by
  decide +kernel
-- each clause of the specification has inhabitants
example : 5 + 1 ≤ (contRun 6).length ∧ AllCont ((contRun 6).take (5 + 1)) := by decide +kernel
example : ([0xff, 0x80] : Bytes).length ≤ 5 ∧ AllCont [0xff, 0x80] := by decide +kernel
example : readVarInt [0x80, 0x00, 0x09] = .ok (0, [0x09]) := by decide +kernel   -- padded zero accepted
example : readVarInt [0xff, 0xff, 0xff, 0xff, 0xff, 0x7f] = .ok (2 ^ 42 - 1, []) := by decide +kernel
-- the bounds are attained: 6 reads for VarInt, 11 for VarLong
example : VarKind.varInt.reads (contRun 6) = 6 := contRun_reads 5
example : VarKind.varLong.reads (contRun 11) = 11 := contRun_reads 10
example : VarKind.varInt.reads [0xff, 0xff, 0xff, 0xff, 0xff, 0x01] = 6 := by decide +kernel
-- a nominal maximum that is too SMALL is caught by the round trip on the property's range
example : decVarInt 3 (encVarInt (2 ^ 32 - 1)) = .error .tooLong := by decide +kernel
-- the live table is not empty and exercises all three outcomes for both classes
example : (Gen.c03ProbeChunks.flatten.length ≥ 200) := by decide +kernel
example : ("VarInt", [255, 255, 255, 255, 255, 255], "tooLong", 0, 6, 6) ∈ Gen.c03ProbeChunks.flatten := by
  decide +kernel
example : ("VarLong", [255, 255, 255, 255, 255, 255, 255, 255, 255, 255, 255], "tooLong", 0, 11, 11)
    ∈ Gen.c03ProbeChunks.flatten := by decide +kernel
example : ("VarInt", [128, 0], "ok", 0, 2, 2) ∈ Gen.c03ProbeChunks.flatten := by decide +kernel
-- the changed readers really differ from the original only where claimed
example : decStrict 5 [0x80, 0x00] = .error .value ∧ decVarInt 5 [0x80, 0x00] = .ok (0, []) := by
  decide +kernel
example : decStrict 5 [0xac, 0x02, 0x07] = decVarInt 5 [0xac, 0x02, 0x07] := by decide +kernel

end PyCraft.C03Nominal
