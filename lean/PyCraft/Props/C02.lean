import PyCraft.Lemmas.Wire
/-!
# C02 — Primitive wire types encode and decode exactly as the protocol prescribes

Model: `Model/Wire.lean` (`encode` / `decode` of every type of `types/basic.py`, arbitrarily nested
`PrefixedArray`s included) and `Model/Scaled.lean` (exact arithmetic of `Angle` / `FixedPoint`).
Only property theorems and non-vacuity examples live here; helper lemmas are in `Lemmas/Wire.lean`.

The theorems are stated for an arbitrary custom codec `cc` with domain `cw` satisfying `CustomLaw`
(the instances for `Position`, records, … are proved with their models), and are instantiated
(`…_basic`) for `noCustomCodec` / `noCustomDom`, where they hold unconditionally for the library's
own basic types.
-/
namespace PyCraft.C02
open PyCraft

/-! ## big-endian integers -/

/-- Big-endian placement: `beBytes w n` is `w` bytes long and denotes `n mod 256^w`; every `w`-byte
string is the `beBytes` of its value (so `beBytes`/`beValue` are mutually inverse on `w`-byte strings
and `[0, 256^w)`); a byte string's value is below `256^length`. -/
theorem be_roundtrip (w n : Nat) (bs : Bytes) :
    beValue (beBytes w n) = n % 256 ^ w ∧ (beBytes w n).length = w ∧
    (bs.length = w → beBytes w (beValue bs) = bs) ∧ beValue bs < 256 ^ bs.length :=
  ⟨beValue_beBytes w n, beBytes_length w n, fun h => h ▸ beBytes_beValue bs, beValue_lt bs⟩

/-- The value domains of the nine fixed-width codes are the usual machine ranges. -/
theorem int_domains (v : Int) :
    (IntT.u8.inDom v ↔ 0 ≤ v ∧ v ≤ 255) ∧ (IntT.i8.inDom v ↔ -128 ≤ v ∧ v ≤ 127) ∧
    (IntT.i16.inDom v ↔ -32768 ≤ v ∧ v ≤ 32767) ∧ (IntT.u16.inDom v ↔ 0 ≤ v ∧ v ≤ 65535) ∧
    (IntT.i32.inDom v ↔ -2147483648 ≤ v ∧ v ≤ 2147483647) ∧
    (IntT.i64.inDom v ↔ -9223372036854775808 ≤ v ∧ v ≤ 9223372036854775807) ∧
    (IntT.u64.inDom v ↔ 0 ≤ v ∧ v ≤ 18446744073709551615) ∧
    (IntT.f32.inDom v ↔ 0 ≤ v ∧ v ≤ 4294967295) ∧
    (IntT.f64.inDom v ↔ 0 ≤ v ∧ v ≤ 18446744073709551615) := by
  simp only [IntT.inDom, IntT.signed, IntT.width]
  refine ⟨?_, ?_, ?_, ?_, ?_, ?_, ?_, ?_, ?_⟩ <;> simp <;> omega

/-- `struct.pack('>x', v)` / `struct.unpack`: for an in-domain `v` packing yields exactly `width`
bytes whose big-endian value is `v mod 256^width` (two's complement for negative `v`), stated without
reference to `packS`/`packU`; an out-of-domain `v` is `struct.error`; unpacking any `width` bytes
followed by anything returns the UNIQUE in-domain integer with that residue and leaves the rest. -/
theorem int_spec (t : IntT) :
    (∀ v, t.inDom v → ∃ bs, t.pack v = .ok bs ∧ bs.length = t.width ∧
        (beValue bs : Int) = v % (256 : Int) ^ t.width) ∧
    (∀ v, ¬ t.inDom v → t.pack v = .error .struct) ∧
    (∀ bs rest, bs.length = t.width → ∃ v, t.unpack (bs ++ rest) = .ok (v, rest) ∧ t.inDom v ∧
        v % (256 : Int) ^ t.width = (beValue bs : Int) ∧
        ∀ v', t.inDom v' → v' % (256 : Int) ^ t.width = (beValue bs : Int) → v' = v) ∧
    (∀ p, p.length < t.width → t.unpack p = .error .struct) :=
  ⟨t.pack_spec, t.pack_err, t.unpack_spec, t.unpack_short⟩

/-- Fixed-width round trip: an in-domain integer packs, and unpacking the bytes followed by anything
returns it and leaves exactly the rest. -/
theorem int_roundtrip (t : IntT) (v : Int) (h : t.inDom v) :
    ∃ bs, t.pack v = .ok bs ∧ bs.length = t.width ∧
      ∀ rest, t.unpack (bs ++ rest) = .ok (v, rest) := t.unpack_pack v h

/-! ## every wire type, arbitrarily nested arrays included -/

section generic
variable {cc : CustomCodec} {cw : CustomT → Value → Prop}

/-- Encoding never fails for an in-domain value — of ANY type, `trailing` and arrays of anything
included. -/
theorem enc_total (law : CustomLaw cc cw) (t : WType) (v : Value) (hw : WellTyped cw t v) :
    ∃ bs, encode cc t v = .ok bs := encode_total law t v hw

/-- Round trip: for a self-delimiting type, decoding the encoding of an in-domain value followed by
ANY other bytes returns exactly that value and leaves exactly those other bytes (so it consumed
exactly the encoding). -/
theorem dec_enc (law : CustomLaw cc cw) (t : WType) (hs : t.selfDelimiting = true) (v : Value)
    (hw : WellTyped cw t v) (rest : Bytes) :
    ∃ bs, encode cc t v = .ok bs ∧ decode cc t (bs ++ rest) = .ok (v, rest) := by
  obtain ⟨bs, h1, _, h2, _⟩ := item_main law t hs v hw
  exact ⟨bs, h1, h2 rest⟩

/-- `TrailingByteArray` round-trips when it is last: the encoding is the bytes themselves and the
reader returns everything up to the end of the buffer. -/
theorem dec_enc_trailing (v : Value) (hw : WellTyped cw .trailing v) :
    ∃ bs, encode cc .trailing v = .ok bs ∧ v = .bytes bs ∧
      decode cc .trailing bs = .ok (v, []) := by
  cases v <;> simp [WellTyped] at hw
  exact ⟨_, rfl, rfl, rfl⟩

/-- The encoding of an in-domain value of a self-delimiting type is never empty. -/
theorem enc_nonempty (law : CustomLaw cc cw) (t : WType) (hs : t.selfDelimiting = true)
    (v : Value) (hw : WellTyped cw t v) (bs : Bytes) (he : encode cc t v = .ok bs) : bs ≠ [] := by
  obtain ⟨bs', h1, h2, _⟩ := item_main law t hs v hw
  rw [he] at h1; cases h1; exact h2

/-- Truncation is detected: decoding ANY strict prefix of the encoding of an in-domain value of a
self-delimiting type raises an error — it never returns a value. -/
theorem dec_prefix_err (law : CustomLaw cc cw) (t : WType) (hs : t.selfDelimiting = true)
    (v : Value) (hw : WellTyped cw t v) (bs : Bytes) (he : encode cc t v = .ok bs)
    (p : Bytes) (hp : p <+: bs) (hne : p ≠ bs) : ∃ e, decode cc t p = .error e := by
  obtain ⟨bs', h1, _, _, h3⟩ := item_main law t hs v hw
  rw [he] at h1; cases h1; exact h3 p hp hne

end generic

/-! ### the library's own basic types, unconditionally (no custom codec plugged in) -/

theorem enc_total_basic (t : WType) (v : Value) (hw : WellTyped noCustomDom t v) :
    ∃ bs, encode noCustomCodec t v = .ok bs := enc_total noCustomLaw t v hw

theorem dec_enc_basic (t : WType) (hs : t.selfDelimiting = true) (v : Value)
    (hw : WellTyped noCustomDom t v) (rest : Bytes) :
    ∃ bs, encode noCustomCodec t v = .ok bs ∧ decode noCustomCodec t (bs ++ rest) = .ok (v, rest) :=
  dec_enc noCustomLaw t hs v hw rest

theorem enc_nonempty_basic (t : WType) (hs : t.selfDelimiting = true) (v : Value)
    (hw : WellTyped noCustomDom t v) (bs : Bytes) (he : encode noCustomCodec t v = .ok bs) :
    bs ≠ [] := enc_nonempty noCustomLaw t hs v hw bs he

theorem dec_prefix_err_basic (t : WType) (hs : t.selfDelimiting = true) (v : Value)
    (hw : WellTyped noCustomDom t v) (bs : Bytes) (he : encode noCustomCodec t v = .ok bs)
    (p : Bytes) (hp : p <+: bs) (hne : p ≠ bs) : ∃ e, decode noCustomCodec t p = .error e :=
  dec_prefix_err noCustomLaw t hs v hw bs he p hp hne

/-! ## the prescribed bytes, kind by kind -/

/-- Boolean: one byte, `01` for true and `00` for false. -/
theorem spec_bytes_bool (cc : CustomCodec) :
    encode cc .bool (.bool true) = .ok [1] ∧ encode cc .bool (.bool false) = .ok [0] := ⟨rfl, rfl⟩

/-- Fixed-width integers (and float bit patterns): `width` bytes, big-endian, two's complement. -/
theorem spec_bytes_int (cc : CustomCodec) (t : IntT) (v : Int) (h : t.inDom v) :
    ∃ bs, encode cc (.int t) (.int v) = .ok bs ∧ bs.length = t.width ∧
      (beValue bs : Int) = v % (256 : Int) ^ t.width := t.pack_spec v h

/-- VarInt / VarLong: the canonical base-128 little-endian groups of C03 (`encVarInt`); negative
values are rejected with `ValueError`. -/
theorem spec_bytes_varint (cc : CustomCodec) (v : Int) :
    (0 ≤ v → encode cc .varint (.int v) = .ok (encVarInt v.toNat) ∧
             encode cc .varlong (.int v) = .ok (encVarInt v.toNat)) ∧
    (v < 0 → encode cc .varint (.int v) = .error .value ∧
             encode cc .varlong (.int v) = .error .value) := by
  simp only [encode, encVarIntZ]
  constructor <;> intro h
  · have : ¬ v < 0 := by omega
    simp [this]
  · simp [h]

/-- `utf8` really is an encoding that the strict decoder inverts. -/
theorem utf8_roundtrip (s : String) : utf8Decode (utf8 s) = some s := PyCraft.utf8_roundtrip s

/-- String: VarInt byte count, then the UTF-8 bytes. -/
theorem spec_bytes_string (cc : CustomCodec) (s : String) :
    encode cc .string (.str s) = .ok (encVarInt (utf8 s).length ++ utf8 s) := rfl

/-- UUID: exactly the 16 bytes (anything else is `ValueError`). -/
theorem spec_bytes_uuid (cc : CustomCodec) (b : Bytes) :
    (b.length = 16 → encode cc .uuid (.bytes b) = .ok b) ∧
    (b.length ≠ 16 → encode cc .uuid (.bytes b) = .error .value) := by
  simp only [encode]
  constructor <;> intro h <;> simp [h]

/-- Angle: the step `0..255` as one unsigned byte. Fixed point: the wire integer in the base type's
big-endian form. -/
theorem spec_bytes_angle_fixed (cc : CustomCodec) (v : Int) :
    (0 ≤ v ∧ v < 256 → encode cc .angle (.int v) = .ok [UInt8.ofNat v.toNat]) ∧
    (∀ base bits, encode cc (.fixed base bits) (.int v) = encode cc (.int base) (.int v)) := by
  refine ⟨fun h => ?_, fun _ _ => rfl⟩
  have hd : (0 ≤ v ∧ v < (256 : Int) ^ 1) := by omega
  have h1 : v.toNat / 256 ^ 0 % 256 = v.toNat := by omega
  simp only [encode, IntT.pack, IntT.signed, IntT.width, packU, if_pos hd, beBytes, h1]
  rfl

/-- Byte arrays: VarInt length then the bytes; big-endian signed 16-bit length then the bytes; the
bare bytes for a trailing array. -/
theorem spec_bytes_bytearrays (cc : CustomCodec) (b : Bytes) :
    encode cc .bytesVarint (.bytes b) = .ok (encVarInt b.length ++ b) ∧
    (b.length < 2 ^ 15 → ∃ h, h.length = 2 ∧ beValue h = b.length ∧
        encode cc .bytesShort (.bytes b) = .ok (h ++ b)) ∧
    encode cc .trailing (.bytes b) = .ok b := by
  refine ⟨rfl, fun hb => ?_, rfl⟩
  have hd : IntT.i16.inDom (b.length : Int) := by
    simp [IntT.inDom, IntT.signed, IntT.width]; omega
  obtain ⟨h, hp, hl, hv⟩ := IntT.i16.pack_spec _ hd
  refine ⟨h, hl, ?_, by rw [encode, hp]; rfl⟩
  simp only [IntT.width] at hv
  omega

/-- Array length prefix: the VarInt of the count, or the count as a 4/2/1-byte big-endian integer. -/
theorem spec_bytes_len (lt : LenT) (n : Nat) (h : lt.inDom n) :
    match lt with
    | .varint => encLen lt n = .ok (encVarInt n)
    | .i32 => ∃ hb, encLen lt n = .ok hb ∧ hb.length = 4 ∧ beValue hb = n
    | .i16 => ∃ hb, encLen lt n = .ok hb ∧ hb.length = 2 ∧ beValue hb = n
    | .u8 => ∃ hb, encLen lt n = .ok hb ∧ hb.length = 1 ∧ beValue hb = n := by
  cases lt <;> simp only [LenT.inDom] at h
  · rfl
  · have hd : IntT.i32.inDom (n : Int) := by simp [IntT.inDom, IntT.signed, IntT.width]; omega
    obtain ⟨hb, hp, hl, hv⟩ := IntT.i32.pack_spec _ hd
    simp only [IntT.width] at hv
    exact ⟨hb, hp, hl, by omega⟩
  · have hd : IntT.i16.inDom (n : Int) := by simp [IntT.inDom, IntT.signed, IntT.width]; omega
    obtain ⟨hb, hp, hl, hv⟩ := IntT.i16.pack_spec _ hd
    simp only [IntT.width] at hv
    exact ⟨hb, hp, hl, by omega⟩
  · have hd : IntT.u8.inDom (n : Int) := by simp [IntT.inDom, IntT.signed, IntT.width]; omega
    obtain ⟨hb, hp, hl, hv⟩ := IntT.u8.pack_spec _ hd
    simp only [IntT.width] at hv
    exact ⟨hb, hp, hl, by omega⟩

/-- Array: the length prefix followed by the concatenation of the element encodings, in order
(`g v` names the encoding of element `v`). -/
theorem spec_bytes_array (cc : CustomCodec) (lt : LenT) (t : WType) (vs : List Value)
    (hb : Bytes) (g : Value → Bytes) (hl : encLen lt vs.length = .ok hb)
    (he : ∀ v ∈ vs, encode cc t v = .ok (g v)) :
    encode cc (.array lt t) (.list vs) = .ok (hb ++ (vs.map g).flatten) := by
  rw [encode, hl, encEach_flatten _ g vs he]; rfl

/-! ## scaled types: `Angle` and `FixedPoint` (value = `p / q`, `q > 0`, exact arithmetic) -/

/-- Python's `round(N / D)`: the result is a nearest integer (`|R − N/D| ≤ 1/2`, cross-multiplied by
`2·D`), and an exact tie goes to the even neighbour. -/
theorem roundHalfEven_spec (N D : Int) (hD : 0 < D) :
    (-D ≤ 2 * roundHalfEven N D * D - 2 * N ∧ 2 * roundHalfEven N D * D - 2 * N ≤ D) ∧
    (2 * (N % D) = D → roundHalfEven N D % 2 = 0) :=
  ⟨roundHalfEven_near N D hD, roundHalfEven_tie N D⟩

/-- The byte handed to `UnsignedByte.send` by `Angle.send` is always in `[0, 256)`, so the pack never
fails; the rounding BEFORE the final `% 256` ranges over `[0, 256]`, 256 included. -/
theorem angle_step_range (p q : Int) (hq : 0 < q) :
    (0 ≤ angleStep p q ∧ angleStep p q < 256) ∧
    (0 ≤ roundHalfEven (256 * (p % (360 * q))) (360 * q) ∧
      roundHalfEven (256 * (p % (360 * q))) (360 * q) ≤ 256) :=
  ⟨angleStep_range p q, angle_raw_range p q hq⟩

/-- … and 256 is attained: for 359.9° the un-reduced rounding is 256 (which `'>B'` cannot pack);
the final `% 256` maps it to step 0. -/
example : roundHalfEven (256 * (3599 % (360 * 10))) (360 * 10) = 256 ∧ angleStep 3599 10 = 0 ∧
    IntT.u8.pack 256 = .error .struct := by decide

/-- Angle quantisation.  With `r = p mod 360q` (so `value mod 360 = r / q ∈ [0, 360)`), `s` the step
sent and `a.1 / a.2` the angle `Angle.read` returns for `s`: the decoded angle is within half a
quantum, `360/512` degrees, of `value mod 360` measured circularly — either directly (`k = 0`) or,
only when the step wrapped to `0`, after adding one full turn (`k = 1`).  The inequality
`|a.1/a.2 + 360·k − r/q| ≤ 360/512` is written cross-multiplied by `512 · a.2 · q > 0`. -/
theorem angle_quantum (p q : Int) (hq : 0 < q) :
    let r := p % (360 * q)
    let s := angleStep p q
    let a := angleOfStep s
    (0 ≤ r ∧ r < 360 * q) ∧ 0 < a.2 ∧
    ∃ k : Int, (k = 0 ∨ (k = 1 ∧ s = 0)) ∧
      -(360 * (a.2 * q)) ≤ 512 * (a.1 * q + 360 * k * (a.2 * q) - a.2 * r) ∧
      512 * (a.1 * q + 360 * k * (a.2 * q) - a.2 * r) ≤ 360 * (a.2 * q) := by
  intro r s a
  refine ⟨⟨Int.emod_nonneg p (by omega), Int.emod_lt_of_pos p (by omega)⟩,
    by show (0 : Int) < 256; omega, ?_⟩
  obtain ⟨k, hk, h1, h2⟩ := angle_near p q hq
  refine ⟨k, hk, ?_, ?_⟩ <;> simp only [a, s, r, angleOfStep] <;> grind

/-- Fixed point, sending: the wire integer `w = int(value · 2^bits)` is strictly within one quantum
of the exact scaled value (`|w − value·2^bits| < 1`, cross-multiplied by `q`; equivalently
`|w/2^bits − value| < 2^-bits` for what `read` returns), and truncation is toward zero: `w` has the
sign of the value or is 0, and never exceeds it in magnitude. -/
theorem fixed_quantum (bits : Nat) (p q : Int) (hq : 0 < q) :
    let w := fixedWire bits p q
    (-q < w * q - p * 2 ^ bits ∧ w * q - p * 2 ^ bits < q) ∧
    (0 ≤ p → 0 ≤ w ∧ w * q ≤ p * 2 ^ bits) ∧ (p ≤ 0 → w ≤ 0 ∧ p * 2 ^ bits ≤ w * q) ∧
    (fixedOfWire bits w).1 = w ∧ (fixedOfWire bits w).2 = 2 ^ bits := by
  intro w
  have hpow : (0 : Int) < 2 ^ bits := Int.pow_pos (by omega)
  obtain ⟨f1, f2⟩ := fixed_tdiv (p * 2 ^ bits) q hq
  have hw : w = (p * 2 ^ bits).tdiv q := rfl
  rw [hw]
  refine ⟨?_, fun hp => ?_, fun hp => ?_, rfl, rfl⟩
  · rcases Int.le_total 0 p with hp | hp
    · have := f1 (Int.mul_nonneg hp (by omega)); omega
    · have := f2 (Int.mul_nonpos_of_nonpos_of_nonneg hp (by omega)); omega
  · have := f1 (Int.mul_nonneg hp (by omega)); omega
  · have := f2 (Int.mul_nonpos_of_nonpos_of_nonneg hp (by omega)); omega

/-- Values that are exact multiples of the quantum `2^-bits` are sent exactly. -/
theorem fixed_exact (bits : Nat) (p q : Int) (h : q ∣ p * 2 ^ bits) :
    fixedWire bits p q * q = p * 2 ^ bits := Int.tdiv_mul_cancel h

/-- End to end for `Angle`: the step computed by `Angle.send` is always encodable (one byte) and
reads back as that step, whatever follows — no value, however large or negative, makes it fail. -/
theorem angle_wire_roundtrip (cc : CustomCodec) (p q : Int) (rest : Bytes) :
    ∃ bs, encode cc .angle (.int (angleStep p q)) = .ok bs ∧ bs.length = 1 ∧
      decode cc .angle (bs ++ rest) = .ok (.int (angleStep p q), rest) := by
  have hd : IntT.u8.inDom (angleStep p q) := by
    have := angleStep_range p q
    simp [IntT.inDom, IntT.signed, IntT.width]; omega
  obtain ⟨bs, h1, h2, h3⟩ := IntT.u8.unpack_pack _ hd
  exact ⟨bs, h1, h2, by rw [decode, h3]; rfl⟩

/-- End to end for `FixedPoint`: the wire integer is sent and read back exactly when it fits the base
integer type, and is `struct.error` (never a wrapped value) when it does not. -/
theorem fixed_wire_roundtrip (cc : CustomCodec) (base : IntT) (bits : Nat) (p q : Int)
    (rest : Bytes) :
    (base.inDom (fixedWire bits p q) →
      ∃ bs, encode cc (.fixed base bits) (.int (fixedWire bits p q)) = .ok bs ∧
        decode cc (.fixed base bits) (bs ++ rest) = .ok (.int (fixedWire bits p q), rest)) ∧
    (¬ base.inDom (fixedWire bits p q) →
      encode cc (.fixed base bits) (.int (fixedWire bits p q)) = .error .struct) := by
  refine ⟨fun hd => ?_, fun hd => base.pack_err _ hd⟩
  obtain ⟨bs, h1, _, h3⟩ := base.unpack_pack _ hd
  exact ⟨bs, h1, by rw [decode, h3]; rfl⟩

/-! ## non-vacuity: concrete instances of every hypothesis -/

/-- a nested array type, a value of it, its encoding and a strict prefix of that -/
private def exT : WType := .array .varint (.array .i32 .string)
private def exV : Value := .list [.list [.str "hi", .str ""], .list [], .list [.str "é"]]
private def exB : Bytes :=
  [3, 0, 0, 0, 2, 2, 0x68, 0x69, 0, 0, 0, 0, 0, 0, 0, 0, 1, 2, 0xc3, 0xa9]

private theorem exW : WellTyped noCustomDom exT exV := by
  simp [exT, exV, WellTyped]; decide
private theorem exE : encode noCustomCodec exT exV = .ok exB := by decide +kernel

example : exT.selfDelimiting = true := rfl
example : ∃ bs, encode noCustomCodec exT exV = .ok bs := enc_total_basic exT exV exW
example : ∃ bs, encode noCustomCodec exT exV = .ok bs ∧
    decode noCustomCodec exT (bs ++ [0xde, 0xad]) = .ok (exV, [0xde, 0xad]) :=
  dec_enc_basic exT rfl exV exW _
example : exB ≠ [] := enc_nonempty_basic exT rfl exV exW exB exE
example : ∃ e, decode noCustomCodec exT (exB.take 7) = .error e :=
  dec_prefix_err_basic exT rfl exV exW exB exE _ (List.take_prefix _ _) (by decide)
example : ∃ e, decode noCustomCodec exT [] = .error e :=
  dec_prefix_err_basic exT rfl exV exW exB exE _ List.nil_prefix (by decide)
example : WellTyped noCustomDom .trailing (.bytes [1, 2, 3]) := by simp [WellTyped]
example : IntT.i16.inDom (-2) ∧ ¬ IntT.u8.inDom 256 := by decide
example : IntT.i16.pack (-2) = .ok [0xff, 0xfe] := by decide
example : (4 : Int) ∣ 3 * 2 ^ 5 ∧ fixedWire 5 3 4 = 24 := by decide
example : fixedWire 5 (-7) 3 = -74 ∧ fixedWire 5 7 3 = 74 := by decide
example : IntT.i8.inDom (fixedWire 5 3 4) ∧ ¬ IntT.i8.inDom (fixedWire 5 5 1) := by decide
example : (2 : Int) * (5 % 2) = 2 ∧ roundHalfEven 5 2 = 2 ∧ roundHalfEven 7 2 = 4 := by decide
example : angleStep 90 1 = 64 ∧ angleStep (-90) 1 = 192 ∧ angleStep 3599 10 = 0 := by decide
/-- a custom codec satisfying `CustomLaw` on a non-empty domain exists (one tag byte for `secpos`) -/
example : ∃ cc cw, CustomLaw cc cw ∧ cw .secpos (.int 7) :=
  ⟨⟨fun _ v => match v with | .int 7 => .ok [7] | _ => .error .type,
    fun _ bs => match bs with | 7 :: r => .ok (.int 7, r) | _ => .error .eof⟩,
   fun _ v => v = .int 7,
   ⟨fun _ _ rest h => by subst h; exact ⟨[7], rfl, by simp, rfl⟩,
    fun _ _ bs h he p hp hne => by
      subst h
      cases he
      have : p = [] := by
        rcases p with _ | ⟨x, p'⟩
        · rfl
        · rw [List.cons_prefix_cons] at hp
          obtain ⟨rfl, hp'⟩ := hp
          rw [List.prefix_nil.mp hp'] at hne
          exact absurd rfl hne
      subst this
      exact ⟨.eof, rfl⟩⟩,
   rfl⟩

end PyCraft.C02
