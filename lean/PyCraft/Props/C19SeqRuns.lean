import PyCraft.Generated.C19Seq
/-!
# C19, audit item 23 — the model of `Model/C19Seq.lean` against observed PROGRAM RUNS of the live code

`Generated/C19Seq.lean` (written by `harness/gen/c19seq.py` from whatever `/repo` contains when it
runs) holds six whole program runs of the real `AuthenticationToken`: several tokens, every
operation, success and error replies, transport failures, members of unexpected JSON types, with
every HTTP exchange intercepted inside `requests` AFTER the request was prepared.  The theorems
below say the model predicts every entry.  A change of the code that alters what is sent (method,
URL, headers, body, timeout), what is returned or raised (including the text of the exception),
what is stored, or that makes tokens share state, makes one of them fail at the next regeneration.
-/
namespace PyCraft.C19Seq
open PyCraft PyCraft.Json PyCraft.AuthSeq PyCraft.Gen.C19Seq

/-- Every observed program run is predicted by the model: per call the outcome (return value, or
exception class with `status_code`, `yggdrasil_error`, `yggdrasil_message`, `yggdrasil_cause` and
the text `args[0]`) and the request as `requests` prepared it (method, URL, non-default headers,
body, timeout) or its absence; and the five attributes of every token at the end. -/
theorem live_run1_agrees : liveRun1.check = true := by decide +kernel
theorem live_run2_agrees : liveRun2.check = true := by decide +kernel
theorem live_run3_agrees : liveRun3.check = true := by decide +kernel
theorem live_run4_agrees : liveRun4.check = true := by decide +kernel
theorem live_run5_agrees : liveRun5.check = true := by decide +kernel
theorem live_run6_agrees : liveRun6.check = true := by decide +kernel

/-- All of them (the list the generator wrote, whatever its length). -/
theorem live_runs_agree : ∀ r ∈ liveRuns, r.check = true := by
  intro r hr
  simp only [liveRuns, List.mem_cons, List.not_mem_nil, or_false] at hr
  rcases hr with rfl | rfl | rfl | rfl | rfl | rfl
  · exact live_run1_agrees
  · exact live_run2_agrees
  · exact live_run3_agrees
  · exact live_run4_agrees
  · exact live_run5_agrees
  · exact live_run6_agrees

/-- The table is not trivial: 6 runs, 44 calls, 35 of which sent a request. -/
example : liveRuns.length = 6 ∧ (liveRuns.map (·.steps.length)).sum = 44 ∧
    (liveRuns.map fun r => (r.seen.filter fun s => match s with
      | some (_, _, some _) => true
      | _ => false).length).sum = 35 := by decide +kernel

end PyCraft.C19Seq
