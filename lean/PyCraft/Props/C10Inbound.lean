import PyCraft.Lemmas.C10Inbound
import PyCraft.Props.C10Wire
/-!
# C10, the INBOUND direction — "switches BOTH directions to encrypted immediately after that reply,
applies the announced compression threshold to EVERYTHING that follows"

`Props/C10.lean` speaks about mode flags of frames the client WRITES, `Props/C10Wire.lean` about the
bytes of those frames.  This file is about the bytes the client READS: the server's login stream
(`LoginIn.srvWire`: frames under the threshold announced so far; everything behind an encryption
request through a CFB8 encryptor with register = shared secret) fed, in ANY segmentation, to the
byte-level model of the client's read loop (`LoginIn.clientRun`, `Model/C10Inbound.lean`:
`read_packet` on `connection.file_object` — a stack of `EncryptedFileObjectWrapper`s over the raw
socket file, looked up afresh for every packet — with `options.compression_enabled` of that
moment, the `read` of the class registered under the id, then `LoginReactor.react` and, for an
encryption request, the wrapping of the file object).

Everything is quantified over ALL login parameters, ALL server scripts (any order and number of
encryption requests, set-compressions with any threshold, plugin requests, unregistered ids, then
success or disconnect — and anything whatsoever behind that), ALL interleavings of write phases and
reads (`ticks`), every zlib, every block function, every id profile with pairwise distinct ids and
every segmentation.  `Gen.C10Inbound` (regenerated from the live code) discharges the id/layout
assumptions for every protocol version the library knows.

Only property theorems and non-vacuity examples live here; helper lemmas, the seeded faults and the
concrete example parameters are in `Lemmas/C10Inbound.lean`.
-/
namespace PyCraft.C10Inbound
open PyCraft PyCraft.Login PyCraft.LoginWire PyCraft.LoginIn

/-- THE INBOUND ROUND TRIP.  Let the server's byte stream for `script` arrive in ANY segmentation,
and let the client's loop run ANY sequence of write phases and reads (not reading past the end of a
script that never terminates the login).  Then, with `got` = the packets the reads have consumed
(the first `reads ticks` packets of the script cut behind its first success/disconnect):
* the login state is EXACTLY the login model (`Model/Login.lean`, to which all theorems of
  `Props/C10.lean`/`C10Wire.lean` apply) run on those packets with the write phases where the
  ticks have them — in particular every packet behind the encryption request was decrypted, and
  every packet behind a set-compression was read in the compressed format, correctly;
* `_react` was handed exactly the events of `got`, in order: nothing lost, duplicated, merged or
  reordered across the cipher switch or a threshold change;
* `read_packet` raised nothing;
* the file object carries one wrapper per encryption request consumed (none before the first);
* what is still unread, SEEN THROUGH THE WRAPPERS NOW INSTALLED, is the server's stream for the
  rest of the script under the threshold now in force — the client is at a frame boundary and its
  decryptor registers are in step with the server's encryptors (so the play-state reader of C11
  can take over from there). -/
theorem client_reads_server_script (P : LoginParams) (z : Zlib) (E : Bytes → Bytes)
    (C : CbProfile) (script : List SrvPkt) (ticks : List Tick) (segs : Segs)
    (hC : C.distinct = true)
    (hok : ScriptOK z.toZlibOps C none (cutScript script))
    (hb : script.any (·.isTerminal) = true ∨ reads ticks ≤ script.length)
    (hseg : segs.flatten = srvWire z.toZlibOps E P.secret C script) :
    let r := clientRun P z.toZlibOps E C ticks segs
    let got := (cutScript script).take (reads ticks)
    r.cs = exec P .init (fill ticks (cutScript script)) ∧
      r.seen = got.filterMap (·.ev) ∧
      r.ioErr = none ∧
      r.file.st.length = (got.filter (·.isEncRequest)).length ∧
      ahead (layersX E) r.file =
        srvStream z.toZlibOps E P.secret C r.cs.threshold (script.drop got.length) := by
  intro r got
  have hsplit := cutScript_append_drop script
  have hb' : (cutScript script).any (·.isTerminal) = true ∨
      reads ticks ≤ (cutScript script).length ∨ ClientState.init.alive = false := by
    cases hany : script.any (·.isTerminal) with
    | true => exact Or.inl (by rw [cutScript_any]; exact hany)
    | false =>
      rcases hb with h | h
      · rw [hany] at h; cases h
      · exact Or.inr (Or.inl (by rw [cutScript_of_live script hany]; exact h))
  have ha : ahead (layersX E) (InState.init segs).file =
      srvStream z.toZlibOps E P.secret C (InState.init segs).cs.threshold
        (cutScript script ++ script.drop (cutScript script).length) := by
    rw [hsplit]; exact hseg
  obtain ⟨h1, h2, h3, h4, h5⟩ := run_sync P z E C hC (script.drop (cutScript script).length)
    ticks (.init segs) (cutScript script) (cutScript_idem script) rfl (fun _ => rfl) hb' hok ha
  have h2' : r.seen = [] ++ got.filterMap (·.ev) := h2
  have h5' : r.file.st.length = 0 + (got.filter (·.isEncRequest)).length := h5
  refine ⟨h1, by rw [h2']; rfl, h3, by rw [h5', Nat.zero_add], ?_⟩
  have hdrop : (cutScript script).drop (reads ticks) ++ script.drop (cutScript script).length =
      script.drop got.length := by
    show _ = script.drop ((cutScript script).take (reads ticks)).length
    rw [List.length_take]
    by_cases hle : reads ticks ≤ (cutScript script).length
    · rw [Nat.min_eq_left hle]
      conv => rhs; rw [← hsplit]
      rw [List.drop_append_of_le_length hle]
    · have hlt : (cutScript script).length ≤ reads ticks := by omega
      rw [Nat.min_eq_right hlt, List.drop_eq_nil_of_le hlt, List.nil_append]
  rw [← hdrop]; exact h4

/-- The reviewer's formulation, for the regular schedule of the login model ("flush, up to `cap`
reads, flush, …, final flush") and a script without unregistered ids: on ANY segmentation of the
server's stream the client ends in exactly the state `Login.runLogin` computes from the
pre-parsed events, having handed `_react` exactly the events up to and including the first
success/disconnect, without an exception of `read_packet`. -/
theorem client_reads_regular_schedule (P : LoginParams) (z : Zlib) (E : Bytes → Bytes)
    (C : CbProfile) (script : List SrvPkt) (cap : Nat) (segs : Segs)
    (hC : C.distinct = true)
    (hknown : ∀ p ∈ script, p.ev.isSome = true)
    (hok : ScriptOK z.toZlibOps C none (cutScript script))
    (hseg : segs.flatten = srvWire z.toZlibOps E P.secret C script) :
    let evs := script.filterMap (·.ev)
    let r := clientRun P z.toZlibOps E C (ticksOf (schedule cap evs)) segs
    r.cs = runLogin P cap evs ∧ r.seen = processed evs ∧ r.ioErr = none := by
  intro evs r
  have hlen : evs.length = script.length := by
    show (script.filterMap (·.ev)).length = script.length
    clear hok hseg
    induction script with
    | nil => rfl
    | cons p rest ih =>
      obtain ⟨e, he⟩ := Option.isSome_iff_exists.mp (hknown p (by simp))
      simp only [List.filterMap_cons, he, List.length_cons]
      rw [ih fun q hq => hknown q (by simp [hq])]
  have hreads : reads (ticksOf (schedule cap evs)) = script.length := by
    rw [reads_ticksOf, events_schedule, hlen]
  obtain ⟨h1, h2, h3, -, -⟩ := client_reads_server_script P z E C script
    (ticksOf (schedule cap evs)) segs hC hok (Or.inr (by rw [hreads]; exact Nat.le_refl _)) hseg
  refine ⟨?_, ?_, h3⟩
  · show r.cs = exec P .init (schedule cap evs)
    rw [← exec_fill_ticksOf P (schedule cap evs) script .init (events_schedule cap evs).symm hknown]
    exact h1
  · have h2' : r.seen = ((cutScript script).take (reads (ticksOf (schedule cap evs)))).filterMap
        (·.ev) := h2
    rw [h2', hreads, List.take_of_length_le (cutScript_length_le script)]
    exact (processed_filterMap script).symm

/-- What the reference server's stream IS, for the one encryption request a real server sends:
the PLAINTEXT frames of everything up to AND INCLUDING the encryption request — each under the
threshold announced before it — followed by the CFB8 encryption, as ONE continuous stream from
register = shared secret, of the frames of everything behind it (again each under the threshold in
force for it).  Without an encryption request the stream is plaintext throughout. -/
theorem server_stream_shape (z : ZlibOps) (E : Bytes → Bytes) (secret : Bytes) (C : CbProfile)
    (pre post : List SrvPkt) (sid : String) (pk tok : Bytes)
    (hpre : ∀ p ∈ pre, p.isEncRequest = false) (hpost : ∀ p ∈ post, p.isEncRequest = false) :
    srvWire z E secret C (pre ++ .encRequest sid pk tok :: post) =
        plainFrames z C none pre ++
          (packetFrame z (thrAfterAll none pre) (srvFields C (.encRequest sid pk tok)) ++
            (cfb8Enc E secret (plainFrames z C (thrAfterAll none pre) post)).2) ∧
      srvWire z E secret C pre = plainFrames z C none pre := by
  refine ⟨?_, srvStream_plain z E secret C pre none hpre⟩
  unfold srvWire
  rw [srvStream_append_plain z E secret C pre none _ hpre]
  simp only [srvStream, SrvPkt.isEncRequest, if_true, thrAfter]
  rw [srvStream_plain z E secret C post _ hpost]

/-- WHATEVER ARRIVES (no assumption on the bytes at all), after ANY tick list: the login state is
the login model run on the packets actually handed to `_react` — so every theorem of
`Props/C10.lean` and `Props/C10Wire.lean` (stated for all step lists) holds for the byte-level
client; the file object carries exactly one wrapper per encryption request reacted to; and the two
directions are switched TOGETHER: the socket is wrapped (`encrypted`, what `_write_packet` uses) iff
the file object is. -/
theorem client_refines_login_model (P : LoginParams) (z : ZlibOps) (E : Bytes → Bytes)
    (C : CbProfile) (ticks : List Tick) (segs : Segs) :
    let r := clientRun P z E C ticks segs
    ∃ steps : List Step, r.cs = exec P .init steps ∧ r.seen = events steps ∧
      r.file.st.length = (r.seen.filter (·.isEncRequest)).length ∧
      (r.cs.encrypted = true ↔ r.file.st ≠ []) := by
  intro r
  obtain ⟨steps, h1, h2, h3, h4⟩ := run_refines P z E C ticks (.init segs)
  have h2' : r.seen = [] ++ events steps := h2
  rw [List.nil_append] at h2'
  have h3' : r.file.st.length = 0 + ((events steps).filter (·.isEncRequest)).length := h3
  have h4' : r.cs.encrypted = true ↔ 0 < r.file.st.length :=
    h4 (by simp [InState.init, ClientState.init, FileObj.raw, Sock.enc])
  refine ⟨steps, h1, h2', by rw [h3', h2', Nat.zero_add], ?_⟩
  rw [List.length_pos_iff] at h4'
  exact h4'

/-- The server closes the connection in the middle of the login (a script without success or
disconnect, read to its end): the next `read_packet` raises `EOFError` — at a frame boundary,
through whatever wrappers and compression mode are in force — after the client has reacted to
every packet of the script; the login state is the one reached before that read, and nothing is
written or read afterwards. -/
theorem server_closes_midlogin_eof (P : LoginParams) (z : Zlib) (E : Bytes → Bytes)
    (C : CbProfile) (script : List SrvPkt) (t1 t2 : List Tick) (segs : Segs)
    (hC : C.distinct = true)
    (hlive : script.any (·.isTerminal) = false)
    (hok : ScriptOK z.toZlibOps C none script)
    (hr : reads t1 = script.length)
    (hseg : segs.flatten = srvWire z.toZlibOps E P.secret C script) :
    let r := clientRun P z.toZlibOps E C (t1 ++ .read :: t2) segs
    r.ioErr = some .eof ∧ r.cs = exec P .init (fill t1 script) ∧
      r.seen = script.filterMap (·.ev) := by
  intro r
  have hcut := cutScript_of_live script hlive
  obtain ⟨h1, h2, h3, -, h5⟩ := client_reads_server_script P z E C script t1 segs hC
    (by rw [hcut]; exact hok) (Or.inr (by omega)) hseg
  rw [hcut] at h1 h2 h5
  simp only [hr, List.take_length, List.drop_length, srvStream] at h2 h5
  -- the state before the fatal read is still reading
  have hal : (clientRun P z.toZlibOps E C t1 segs).cs.alive = true := by
    rw [h1]
    apply exec_alive P .init _ init_alive
    intro e he
    have hmem : ∀ (ts : List Tick) (l : List SrvPkt), (∀ p ∈ l, p.isTerminal = false) →
        ∀ e ∈ events (fill ts l), e.isTerminal = false := by
      intro ts
      induction ts with
      | nil => intro l _ e he; simp [fill, events] at he
      | cons t ts ih =>
        intro l hl e he
        cases t with
        | flush => exact ih l hl e (by simpa [fill, events] using he)
        | read =>
          cases l with
          | nil => exact ih [] hl e (by simpa [fill] using he)
          | cons p ps =>
            have hps : ∀ q ∈ ps, q.isTerminal = false := fun q hq => hl q (by simp [hq])
            cases hev : p.ev with
            | none => exact ih ps hps e (by simpa [fill, hev] using he)
            | some e' =>
              simp only [fill, hev, events, List.mem_cons] at he
              rcases he with rfl | he
              · rw [ev_isTerminal p _ hev]; exact hl p (by simp)
              · exact ih ps hps e he
    exact hmem t1 script (by simpa using hlive) e he
  have hrd : (clientRun P z.toZlibOps E C t1 segs).reading = true := by
    rw [reading_eq, h3, hal]; rfl
  obtain ⟨e1, e2, e3⟩ := readTick_eof P z.toZlibOps E C _ hrd h5
  have hrun : r = run P z.toZlibOps E C t2
      (readTick P z.toZlibOps E C (clientRun P z.toZlibOps E C t1 segs)) := by
    show run P z.toZlibOps E C (t1 ++ .read :: t2) (.init segs) = _
    rw [run_append, run_cons]; rfl
  rw [hrun, run_dead _ _ _ _ _ _ (by rw [e3]; rfl)]
  exact ⟨e3, by rw [e1, h1], by rw [e2, h2]⟩

/-- Negative witness: the statements are sensitive to every ingredient of the inbound switch.  On
the concrete script "encrypt → compress 1 → plugin request → success" (protocol-757 ids,
store-only zlib, a toy block function), all read in ONE batch, the real client model sees the four
events and reaches play — but a client that
1. wraps only `connection.socket` and leaves `connection.file_object` alone, or
2. hands the file wrapper the ENCRYPTOR context instead of the decryptor, or
3. keeps using the file object it fetched at the start of the batch (the wrapper takes effect one
   `_run` iteration late), or
4. enables read-side decompression one frame late,
does not: 1–3 lose everything behind the encryption request and die with an exception; 4 silently
skips the plugin request (it is read as an unregistered id), which is then NEVER ANSWERED.  Fault 3
is invisible when a write phase separates every two reads (`inSlow`) — which is why only a
statement over all interleavings catches it.  All four faulty clients satisfy every theorem of
`Props/C10.lean`, `C10Wire.lean` and `C18.lean` (their OUTBOUND behaviour is the real one). -/
theorem wrong_inbound_switch_detected :
    let w := inWire C757 inScript
    let want : List LoginEv := [.encRequest "srv" [7, 8] [9], .setCompression 1,
      .pluginRequest 5 "ch" [1], .success]
    let z := Zlib.ident.toZlibOps
    ((inClient C757 inBatch [w]).seen = want ∧
        (inClient C757 inBatch [w]).cs.reactor = .play ∧
        (inClient C757 inBatch [w]).ioErr = none ∧
        (inClient C757 inBatch [w]).cs.outbox.map (·.pkt) =
          [.encResp [7, 1, 2, 3] [7, 9], .plugResp 5 false none]) ∧
      ((runNoWrap demoParams z inE C757 inBatch [w]).seen = want.take 1 ∧
        (runNoWrap demoParams z inE C757 inBatch [w]).ioErr ≠ none) ∧
      ((runEncCtx demoParams z inE C757 inBatch [w]).seen = want.take 1 ∧
        (runEncCtx demoParams z inE C757 inBatch [w]).ioErr ≠ none) ∧
      ((runStale demoParams z inE C757 inBatch [w]).seen = want.take 1 ∧
        (runStale demoParams z inE C757 inBatch [w]).ioErr ≠ none ∧
        (runStale demoParams z inE C757 inSlow [w]).seen = want) ∧
      ((runLateComp demoParams z inE C757 inBatch [w]).seen =
          [.encRequest "srv" [7, 8] [9], .setCompression 1, .success] ∧
        (runLateComp demoParams z inE C757 inBatch [w]).ioErr = none ∧
        (runLateComp demoParams z inE C757 inBatch [w]).cs.outbox.map (·.pkt) =
          [.encResp [7, 1, 2, 3] [7, 9]]) := by
  decide +kernel

/-! ### The live dispatch tables (regenerated from /repo on every run) -/

/-- Every row of the live table — i.e. every protocol version the library knows — is exactly what
the model assumes: no two clientbound login classes share an id (the dict of
`PacketReactor.__init__` has one entry per class), the classes are the four (five from 385 on) of
the model with the modelled field types and `packet_name`s, `login success` has one of the two
modelled layouts, the resulting profile has pairwise distinct ids (`hC` of the theorems above), the
plugin request is registered iff the plugin response is, and the two serverbound answers have
distinct ids (`hids` of `C10Wire.server_recovers_outbox`). -/
theorem live_profiles_ok :
    ∀ r ∈ Gen.C10Inbound.rows, ∃ C ids, profileOfRow r = some C ∧ C.distinct = true ∧
      C.pluginRequest.isSome = r.sbPlugResp.isSome ∧
      sbIdsOfRow r = some ids ∧ ids.encResp ≠ ids.plugResp := by
  have h : ∀ r ∈ Gen.C10Inbound.rows,
      (match profileOfRow r, sbIdsOfRow r with
       | some C, some ids => C.distinct && (C.pluginRequest.isSome == r.sbPlugResp.isSome) &&
           (ids.encResp != ids.plugResp)
       | _, _ => false) = true := by decide +kernel
  intro r hr
  have := h r hr
  cases hp : profileOfRow r with
  | none => simp [hp] at this
  | some C =>
    cases hi : sbIdsOfRow r with
    | none => simp [hp, hi] at this
    | some ids =>
      simp only [hp, hi, Bool.and_eq_true, beq_iff_eq, bne_iff_ne, ne_eq] at this
      exact ⟨C, ids, rfl, this.1.1, this.1.2, rfl, this.2⟩

/-- Every known protocol version — in particular every supported one — has a row, hence a profile
with pairwise distinct ids: the assumption `hC` is discharged for the whole version range. -/
theorem known_versions_have_profile :
    (∀ v ∈ Gen.C10Inbound.known, ∃ C, profileAt v = some C ∧ C.distinct = true) ∧
      (∀ v ∈ Gen.C10Inbound.supported, v ∈ Gen.C10Inbound.known) := by
  have h1 : interleaved Gen.C10Inbound.known (Gen.C10Inbound.rows.map (·.versions)) = true := by
    decide +kernel
  have h2 : subseq Gen.C10Inbound.supported Gen.C10Inbound.known = true := by decide +kernel
  refine ⟨?_, subseq_mem _ _ h2⟩
  intro v hv
  obtain ⟨l, hl, hvl⟩ := interleaved_mem _ _ h1 v hv
  obtain ⟨r0, hr0, rfl⟩ := List.mem_map.mp hl
  cases hf : Gen.C10Inbound.rows.find? (fun r => r.versions.contains v) with
  | none =>
    have := List.find?_eq_none.mp hf r0 hr0
    simp [hvl] at this
  | some r =>
    obtain ⟨C, -, hp, hC, -⟩ := live_profiles_ok r (List.mem_of_find?_eq_some hf)
    exact ⟨C, by simp only [profileAt, hf, Option.bind_some, hp], hC⟩

/-- The inbound round trip for a concrete protocol version of the live tables: no assumption on the
ids is left. -/
theorem client_reads_server_script_at_version (v : Nat) (hv : v ∈ Gen.C10Inbound.known) :
    ∃ C, profileAt v = some C ∧
      ∀ (P : LoginParams) (z : Zlib) (E : Bytes → Bytes) (script : List SrvPkt)
        (ticks : List Tick) (segs : Segs),
        ScriptOK z.toZlibOps C none (cutScript script) →
        (script.any (·.isTerminal) = true ∨ reads ticks ≤ script.length) →
        segs.flatten = srvWire z.toZlibOps E P.secret C script →
        (clientRun P z.toZlibOps E C ticks segs).cs =
            exec P .init (fill ticks (cutScript script)) ∧
          (clientRun P z.toZlibOps E C ticks segs).seen =
            ((cutScript script).take (reads ticks)).filterMap (·.ev) ∧
          (clientRun P z.toZlibOps E C ticks segs).ioErr = none := by
  obtain ⟨C, hp, hC⟩ := known_versions_have_profile.1 v hv
  refine ⟨C, hp, ?_⟩
  intro P z E script ticks segs hok hb hseg
  obtain ⟨h1, h2, h3, -, -⟩ := client_reads_server_script P z E C script ticks segs hC hok hb hseg
  exact ⟨h1, h2, h3⟩

/-! ### Non-vacuity: concrete profiles, scripts and runs (kernel-evaluated) -/

/-- The profiles either side of the layout boundaries 385, 391 and 707, read off the live table. -/
example : profileAt 47 = some C47 ∧ profileAt 384 = some C47 ∧ profileAt 385 = some C385 ∧
    profileAt 390 = some C385 ∧ profileAt 391 = some ⟨0, 1, 2, 3, some 4, false⟩ ∧
    profileAt 706 = some ⟨0, 1, 2, 3, some 4, false⟩ ∧ profileAt 707 = some C757 ∧
    profileAt 757 = some C757 := by decide +kernel

/-- The hypotheses of `client_reads_server_script` are satisfiable: distinct ids, a well-formed
script with THREE framing/cipher modes (plain+uncompressed, encrypted+uncompressed,
encrypted+compressed), a packet behind the success that is not a login packet at all. -/
example : C757.distinct = true ∧ C385.distinct = true ∧ C47.distinct = true ∧
    ScriptOK Zlib.ident.toZlibOps C757 none (cutScript inScript) ∧
    ScriptOK Zlib.ident.toZlibOps C385 none (cutScript inScript385) ∧
    inScript.any (·.isTerminal) = true ∧ cutScript inScript = inScript.take 4 := by
  decide +kernel

/-- The server's bytes for the 757 script: `0a 01 03 737276 02 0708 01 09` is the PLAINTEXT frame of
the encryption request (length 10, id 1, "srv", the two prefixed arrays); everything behind it is
ONE CFB8 stream (register = secret) of: `02 03 01` (set compression 1, still in the uncompressed
format), `07 06 04 05 02 6368 01` (plugin request in the COMPRESSED format: length 7, data length 6,
id 4, message id 5, "ch", data `01`), the success frame (data length 21: id 2, 16 UUID bytes,
"bob"), and the stray frame `04 03 26 01 02`. -/
example : inWire C757 inScript =
    [0x0a, 0x01, 0x03, 0x73, 0x72, 0x76, 0x02, 0x07, 0x08, 0x01, 0x09] ++
      (cfb8Enc inE [1, 2, 3]
        ([0x02, 0x03, 0x01] ++ [0x07, 0x06, 0x04, 0x05, 0x02, 0x63, 0x68, 0x01] ++
          ([0x16, 0x15, 0x02] ++ List.replicate 16 7 ++ [0x03, 0x62, 0x6f, 0x62]) ++
          [0x04, 0x03, 0x26, 0x01, 0x02])).2 := by decide +kernel

/-- `client_reads_server_script` instantiated on that stream arriving in three segments that cut
through the encryption-request frame and through the cipher switch, read in one batch: the login
state, … -/
example :
    let w := inWire C757 inScript
    (inClient C757 inBatch [w.take 5, w.drop 5 |>.take 9, w.drop 14]).cs =
      exec demoParams .init (fill inBatch (cutScript inScript)) :=
  (client_reads_server_script demoParams Zlib.ident inE C757 inScript inBatch _
    (by decide) (by decide +kernel) (Or.inl (by decide)) (by decide +kernel)).1

/-- … which is: play reached, threshold 1, socket wrapped, the encryption response written in
plaintext and uncompressed, the plugin response encrypted and in the compressed format, … -/
example : exec demoParams .init (fill inBatch (cutScript inScript)) =
    { encrypted := true, threshold := some 1, reactor := .play, queue := [],
      outbox := [⟨.encResp [7, 1, 2, 3] [7, 9], false, none, true⟩,
                 ⟨.plugResp 5 false none, true, some 1, false⟩],
      joins := ["srv/010203/0708"], err := none } := by decide +kernel

/-- … the fifth read of the batch is a no-op (the login reactor is gone): ONE wrapper is installed
and the stray frame is still unread behind it, exactly as the last conjunct says. -/
example :
    let r := inClient C757 inBatch [inWire C757 inScript]
    r.file.st.length = 1 ∧ ahead (layersX inE) r.file = [0x04, 0x03, 0x26, 0x01, 0x02] ∧
      r.seen.length = 4 := by decide +kernel

/-- Protocol-385 numbering, byte-by-byte arrival, a write phase before every read: compression
first, an unregistered id skipped, the plugin request answered, the switch to encryption, and the
disconnect — read through the cipher in the compressed format — surfacing as a version mismatch. -/
example :
    let r := inClient C385 inSlow ((inWire C385 inScript385).map fun b => [b])
    r.seen = [.setCompression 64, .pluginRequest 300 "a" [], .encRequest "-" [7, 8] [9],
      .disconnect "{\"text\": \"Outdated server! I'm still on 1.8.9\"}"] ∧
    r.cs.err = some (.versionMismatch "1.8.9") ∧ r.ioErr = none ∧ r.file.st.length = 1 ∧
    r.cs.outbox.map (·.pkt) = [.plugResp 300 false none, .encResp [7, 1, 2, 3] [7, 9]] := by
  decide +kernel

/-- `client_reads_regular_schedule` instantiated (the script without its stray packet). -/
example :
    (clientRun demoParams Zlib.ident.toZlibOps inE C757
      (ticksOf (schedule 50 ((inScript.take 4).filterMap (·.ev))))
      [inWire C757 (inScript.take 4)]).cs =
    runLogin demoParams 50 ((inScript.take 4).filterMap (·.ev)) :=
  (client_reads_regular_schedule demoParams Zlib.ident inE C757 (inScript.take 4) 50 _
    (by decide) (by decide) (by decide +kernel) (by decide +kernel)).1

/-- `server_stream_shape` instantiated: its hypotheses hold for the 385 script split at its
encryption request (something before, something behind). -/
example : inScript385 = inScript385.take 3 ++ .encRequest "-" [7, 8] [9] :: inScript385.drop 4 ∧
    (∀ p ∈ inScript385.take 3, p.isEncRequest = false) ∧
    (∀ p ∈ inScript385.drop 4, p.isEncRequest = false) ∧
    thrAfterAll none (inScript385.take 3) = some 64 := by decide +kernel

/-- `server_closes_midlogin_eof` instantiated: the server stops behind "encrypt, compress". -/
example :
    (inClient C757 [.flush, .read, .read, .read, .flush] [inWire C757 (inScript.take 2)]).ioErr =
      some .eof :=
  (server_closes_midlogin_eof demoParams Zlib.ident inE C757 (inScript.take 2)
    [.flush, .read, .read] [.flush] _ (by decide) (by decide) (by decide +kernel) (by decide)
    (by decide +kernel)).1

/-- Two encryption requests (no real server does this): the client nests two wrappers, the model
server two encryptors, and the round trip still holds — the theorem has no "at most one" clause. -/
example :
    let script : List SrvPkt := [.encRequest "a" [1] [2], .encRequest "b" [3] [4],
      .success (.bin (List.replicate 16 0)) "x"]
    let r := inClient C757 [.read, .read, .read] [inWire C757 script]
    r.seen.length = 3 ∧ r.file.st.length = 2 ∧ r.cs.reactor = .play ∧ r.ioErr = none := by
  decide +kernel

/-- Packets that are NOT well-formed are really refused by the guard: a plugin request on a
profile that does not register it, an "unknown" id that is registered, a 15-byte UUID. -/
example : (SrvPkt.pluginRequest 1 "c" []).wf C47 = false ∧ (SrvPkt.unknown 2 []).wf C757 = false ∧
    (SrvPkt.success (.bin (List.replicate 15 0)) "x").wf C757 = false ∧
    clientDecode C757 (C757.success, List.replicate 15 0) = .error .value := by decide +kernel

end PyCraft.C10Inbound
