import PyCraft.Lemmas.PlayWire
import PyCraft.Props.C11
import PyCraft.Props.C01
/-!
# C11 on the wire — keep-alives and teleports are answered, byte by byte

Refines property C11 ("in play, keep-alives and teleports are always answered; unknown packets
pass") from the abstract packets of `Model/Play.lean` (`Props/C11.lean`) to the BYTES of both
directions, by composing three layers:

* C01 (`Props/C01.lean`): frames under any threshold, any lawful zlib, any cipher pair, any
  segmentation — used for the server → client stream AND for the client → server stream;
* the field layouts of the six packets involved (`Model/PlayWire.lean`): `serverFields`,
  `clientDecode` (what `read_packet` + the packet class's `read` make of a delivered frame),
  `replyFields` (`write_fields` of the replies), `serverDecode` (an independent strict reader);
* C11 (`runLoop`, `C11.keepalive_echo`, `C11.teleport_ack`, the closed form `runLoop_spec`).

Everything is quantified over ALL packet lists `pkts : List SrvPkt` (each packet carries all its
wire data; `inboxOf pkts` is the `PlayEv` list the reactor sees), ALL profiles (the ids and layout
switches are parameters; only pairwise distinctness of the ids in use is assumed), ALL thresholds,
ALL lawful zlibs, ALL cipher pairs and initial contexts (`plainPair`/`()` = no encryption), ALL
chunkings of the writer's stream into `send` calls, ALL segmentations into arrivals, ALL caps with
`capR ≥ 1`, both values of `peerOpen`.

`SrvPkt.wf` / `replyWf` are the decidable well-formedness predicates (bit patterns of the right
width, VarInts below the reader's bound `2^42`, `other`/`unknown` ids what they claim to be);
`FrameOK` is C01's VarInt guard.

Only property theorems and non-vacuity examples live here; helper lemmas and the concrete example
parameters are in `Lemmas/PlayWire.lean`.
-/
namespace PyCraft.C11Wire
open PyCraft PyCraft.Play PyCraft.PlayWire

/-- (a) The client reads the server's stream back.  Let a server write any well-formed packets
(one frame each, any threshold/zlib), cut the stream into `send` calls in any way, encrypt it call
by call (or not: `plainPair`), and let it arrive in ANY segmentation: `read_packet` in a loop —
C01's reader, then the packet class's `read` selected by the id — hands `_react` exactly the events
`inboxOf pkts` (keep-alive ids, positions, teleport ids as written; an unknown id as a bare packet
without data; other known packets by name), in order, nothing lost, merged or split, and then sees
end-of-stream exactly at a frame boundary: everything was consumed. -/
theorem client_decodes_server_stream {σ : Type} (cp : CipherPair σ) (s0 : σ) (z : Zlib)
    (thr : Option Int) (P : Profile) (pkts : List SrvPkt) (hP : P.cbDistinct = true)
    (hwf : ∀ p ∈ pkts, p.wf P = true)
    (hok : ∀ p ∈ pkts, FrameOK z.toZlibOps thr (serverFields P p))
    (sends : List Bytes) (hsends : sends.flatten = serverBytes z.toZlibOps thr P pkts)
    (segs : Segs) (hseg : segs.flatten = (encSends cp.enc s0 sends).2.flatten) :
    clientRead P cp.dec s0 z.toZlibOps thr.isSome segs = (inboxOf pkts, .eof) := by
  have hr := C01.roundtrip_encrypted cp s0 z thr (pkts.map (serverFields P))
    (fun q hq => by obtain ⟨p, hp, rfl⟩ := List.mem_map.mp hq; exact hok p hp) sends
    (by rw [hsends, serverBytes, List.map_map]; rfl) segs hseg
  unfold clientRead
  rw [hr]
  exact decodeEach_server P hP pkts hwf .eof

/-- (a′) The same on a plaintext connection, in the vocabulary of `C01.roundtrip_stream`: any
segmentation of `serverBytes` is read back as `inboxOf pkts`, then end-of-stream. -/
theorem client_decodes_plain_stream (z : Zlib) (thr : Option Int) (P : Profile)
    (pkts : List SrvPkt) (hP : P.cbDistinct = true) (hwf : ∀ p ∈ pkts, p.wf P = true)
    (hok : ∀ p ∈ pkts, FrameOK z.toZlibOps thr (serverFields P p)) (segs : Segs)
    (hseg : segs.flatten = serverBytes z.toZlibOps thr P pkts) :
    clientRead P idXform () z.toZlibOps thr.isSome segs = (inboxOf pkts, .eof) := by
  have hr := C01.roundtrip_stream z thr (pkts.map (serverFields P))
    (fun q hq => by obtain ⟨p, hp, rfl⟩ := List.mem_map.mp hq; exact hok p hp) segs
    (by rw [hseg, serverBytes, List.map_map]; rfl)
  have hr' : readAllEnc idXform () z.toZlibOps thr.isSome segs =
      (pkts.map (serverFields P), .eof) := hr
  unfold clientRead
  rw [hr']
  exact decodeEach_server P hP pkts hwf .eof

/-- (b) What the client writes.  For the run of the networking loop on the decoded inbox (any caps
with `capR ≥ 1`, peer open or not): the bytes handed to the socket are the concatenation of WHOLE
frames — one per reply on `Result.wire`, `frame`d `VarInt(id) ++ write_fields` — on a plaintext
connection as they are, otherwise as ONE cipher stream over them however the `send` calls chunk it;
the replies are a prefix of — and, unless the peer has closed at a disconnect, exactly — the replies
due (`C11.wire_order`), which are the replies to the packets BEFORE the first server disconnect:
nothing is written for anything behind it. -/
theorem client_wire_is_frames_of_replies {τ : Type} (enc : StreamXform τ) (t0 : τ) (z : ZlibOps)
    (thr : Option Int) (P : Profile) (pkts : List SrvPkt) (po : Bool) (capW capR : Nat)
    (hR : 1 ≤ capR) :
    ∃ r, runLoop P.newer107 po capW capR (inboxOf pkts) = some r ∧
      (clientWire z thr P idXform () r.wire).flatten = (r.wire.map (replyFrame z thr P)).flatten ∧
      (clientWire z thr P enc t0 r.wire).flatten =
        (enc.update t0 (r.wire.map (replyFrame z thr P)).flatten).2 ∧
      r.wire <+: due P pkts ∧
      ((po = true ∨ hasDiscP pkts = false) → r.wire = due P pkts) ∧
      (due P pkts = (beforeDisc (inboxOf pkts)).flatMap (replyTo P.newer107)) ∧
      (∀ pre j post, pkts = pre ++ SrvPkt.disconnect j :: post →
        (∀ p ∈ pre, p.isDisconnect = false) →
        due P pkts = pre.flatMap fun p => replyTo P.newer107 p.ev) := by
  obtain ⟨r, h, hp, he, -⟩ := run_facts P pkts po capW capR hR
  refine ⟨r, h, wireWith_flatten z thr idXform () _ _, wireWith_flatten z thr enc t0 _ _, hp, he,
    (due_eq P pkts).symm, ?_⟩
  intro pre j post hpk hpre
  rw [due, hpk, beforeDiscP_append_disc pre post j hpre]

/-- (c) The server recovers the replies.  Let the client's chunks (threshold/zlib/cipher as
above) arrive in ANY segmentation at an independent reference server — C01's reader through the
matching decryptor, then a STRICT decoder per packet (`serverDecode`: keep-alive in this profile's
width, the acknowledgement this profile expects, every payload consumed exactly): it recovers
exactly the reply list `Result.wire` — which is the list of replies due unless the peer has closed —
and then end-of-stream.  Under compression and encryption too (`cp`, `thr` arbitrary). -/
theorem server_recovers_replies {τ : Type} (cp : CipherPair τ) (t0 : τ) (z : Zlib)
    (thr : Option Int) (P : Profile) (pkts : List SrvPkt) (po : Bool) (capW capR : Nat)
    (hR : 1 ≤ capR) (hSb : P.sbDistinct = true) (hwf : ∀ p ∈ pkts, p.wf P = true)
    (hok : ∀ q ∈ due P pkts, FrameOK z.toZlibOps thr (replyFields P q)) :
    ∃ r, runLoop P.newer107 po capW capR (inboxOf pkts) = some r ∧
      (∀ segs : Segs,
        segs.flatten = (clientWire z.toZlibOps thr P cp.enc t0 r.wire).flatten →
        serverDecodeReplies P cp.dec t0 z.toZlibOps thr.isSome segs = (r.wire, .eof)) ∧
      ((po = true ∨ hasDiscP pkts = false) → r.wire = due P pkts) := by
  obtain ⟨r, h, hp, he, -⟩ := run_facts P pkts po capW capR hR
  refine ⟨r, h, fun segs hseg => ?_, he⟩
  have hsub : ∀ q ∈ r.wire, q ∈ due P pkts := fun q hq => hp.subset hq
  have hr := C01.roundtrip_encrypted cp t0 z thr (r.wire.map (replyFields P))
    (fun p hp' => by obtain ⟨q, hq, rfl⟩ := List.mem_map.mp hp'; exact hok q (hsub q hq))
    (r.wire.flatMap (sendsWith z.toZlibOps thr (replyFields P)))
    (sends_frames z.toZlibOps thr P r.wire) segs hseg
  unfold serverDecodeReplies
  rw [hr]
  exact decodeEach_replies P hSb r.wire (fun q hq => due_wf P pkts hwf q (hsub q hq)) .eof

/-- (a)+(b)+(c) end to end.  Server bytes in (any segmentation, cipher `cpS`), the client reads
them, runs the loop, writes (cipher `cpC`); the reference server reading the client's bytes in any
segmentation recovers exactly the replies due to the packets before the first disconnect. -/
theorem session_end_to_end {σ τ : Type} (cpS : CipherPair σ) (s0 : σ) (cpC : CipherPair τ) (t0 : τ)
    (z : Zlib) (thr : Option Int) (P : Profile) (pkts : List SrvPkt) (capW capR : Nat)
    (hR : 1 ≤ capR) (hP : P.cbDistinct = true) (hSb : P.sbDistinct = true)
    (hwf : ∀ p ∈ pkts, p.wf P = true)
    (hokS : ∀ p ∈ pkts, FrameOK z.toZlibOps thr (serverFields P p))
    (hokC : ∀ q ∈ due P pkts, FrameOK z.toZlibOps thr (replyFields P q))
    (sends : List Bytes) (hsends : sends.flatten = serverBytes z.toZlibOps thr P pkts)
    (segsIn : Segs) (hin : segsIn.flatten = (encSends cpS.enc s0 sends).2.flatten) :
    ∃ inbox r, clientRead P cpS.dec s0 z.toZlibOps thr.isSome segsIn = (inbox, .eof) ∧
      runLoop P.newer107 true capW capR inbox = some r ∧
      r.closed = hasDiscP pkts ∧
      ∀ segsOut : Segs,
        segsOut.flatten = (clientWire z.toZlibOps thr P cpC.enc t0 r.wire).flatten →
        serverDecodeReplies P cpC.dec t0 z.toZlibOps thr.isSome segsOut = (due P pkts, .eof) := by
  have ha := client_decodes_server_stream cpS s0 z thr P pkts hP hwf hokS sends hsends segsIn hin
  obtain ⟨r, h, hrec, he⟩ :=
    server_recovers_replies cpC t0 z thr P pkts true capW capR hR hSb hwf hokC
  obtain ⟨r', h', -, -, hcl⟩ := run_facts P pkts true capW capR hR
  have hrr : r' = r := Option.some.inj (h'.symm.trans h)
  refine ⟨inboxOf pkts, r, ha, h, by rw [← hrr]; exact hcl, fun segsOut hout => ?_⟩
  rw [← he (Or.inl rfl)]
  exact hrec segsOut hout

/-- (d) The keep-alive echo is byte-transparent, for both id widths.
Packet level, for ANY payload bytes `raw` (whatever server wrote them): if `read_packet` decodes
`(kaCb, raw)` to a keep-alive with id `id`, then the field bytes of the reply are — Long layout —
the first eight bytes of `raw`, verbatim (through the signed `unpack('>q')`/`pack('>q')` trip);
— VarInt layout — an encoding of the same number as the bytes `used` that were consumed, and those
very bytes whenever `used` is the canonical (shortest) encoding, which is what every VarInt writer
emits (a Java server's negative id arrives as five bytes and goes back as the same five bytes).
Run level (via `C11.keepalive_echo`): the field bytes of the keep-alive replies on the wire are
exactly the field bytes of the keep-alive requests received before any server disconnect — same
order, each once. -/
theorem keepalive_echo_bytes (P : Profile) :
    (∀ raw id, clientDecode P (P.kaCb, raw) = .ok (.keepAlive id) →
      (replyFields P (.keepAlive id)).1 = P.kaSb ∧
      ∃ used rest, raw = used ++ rest ∧
        (P.kaLong = true → used.length = 8 ∧ (replyFields P (.keepAlive id)).2 = used) ∧
        (P.kaLong = false → leValue used = id ∧
          leValue (replyFields P (.keepAlive id)).2 = id ∧
          (Canonical used → (replyFields P (.keepAlive id)).2 = used))) ∧
    (∀ (pkts : List SrvPkt) (po : Bool) (capW capR : Nat), 1 ≤ capR →
      (po = true ∨ hasDiscP pkts = false) →
      ∃ r, runLoop P.newer107 po capW capR (inboxOf pkts) = some r ∧
        (r.wire.filter Reply.isKeepAlive).map (fun q => (replyFields P q).2) =
          ((beforeDiscP pkts).filter SrvPkt.isKeepAlive).map (fun p => (serverFields P p).2)) := by
  constructor
  · intro raw id h
    refine ⟨rfl, ?_⟩
    have h' : readKeepAlive P raw = .ok (.keepAlive id) := by
      simpa [clientDecode] using h
    obtain ⟨hl, hv⟩ := readKeepAlive_ok P raw id h'
    cases hk : P.kaLong
    · obtain ⟨r, hr⟩ := hv hk
      obtain ⟨used, e1, e2, -, e4⟩ := decVarInt_ok_used raw id r hr
      refine ⟨used, r, e1, fun hh => (by cases hh), fun _ => ?_⟩
      have hf : (replyFields P (.keepAlive id)).2 = encVarInt id := by simp [replyFields, hk]
      rw [hf]
      exact ⟨e2, leValue_enc id, e4⟩
    · obtain ⟨r, hr, -⟩ := hl hk
      refine ⟨beBytes 8 id, r, hr, fun _ => ⟨beBytes_length 8 id, ?_⟩, fun hh => (by cases hh)⟩
      rw [replyFields_kaField]; simp [kaField, hk]
  · intro pkts po capW capR hR hc
    obtain ⟨r, h, -, he⟩ := C11.keepalive_echo P.newer107 po capW capR hR (inboxOf pkts)
    refine ⟨r, h, ?_⟩
    rw [hasDisc_inboxOf] at he
    rw [ka_filter_fields, he hc, beforeDisc_inboxOf, ka_filter_server]

/-- (e₁) The teleport confirm carries the teleport id as read (protocol ≥ 107).
Packet level, for ANY payload `raw`: if `read_packet` decodes `(posLookCb, raw)` to a
position-and-look with teleport id `tid`, then behind the 33 bytes of position, look and flags `raw`
holds bytes `used` denoting `tid`, and the reply is `(teleportConfirmSb, VarInt(tid))` — those very
bytes when they are canonical.  Run level (via `C11.teleport_ack`): the non-keep-alive replies on
the wire are, as `(id, field bytes)`, exactly the acknowledgements `ackOf` of the position-and-look
packets received before any server disconnect, in order, each once. -/
theorem teleport_ack_bytes (P : Profile) (hP : P.cbDistinct = true) :
    (P.newer107 = true → ∀ raw x y z yaw pitch flags tid,
      clientDecode P (P.posLookCb, raw) = .ok (.posLook x y z yaw pitch flags tid) →
      replyTo P.newer107 (.posLook x y z yaw pitch flags tid) = [.teleportConfirm tid] ∧
      replyFields P (.teleportConfirm tid) = (P.teleportConfirmSb, encVarInt tid) ∧
      ∃ head used rest, raw = head ++ (used ++ rest) ∧ head.length = 33 ∧ leValue used = tid ∧
        (Canonical used → (replyFields P (.teleportConfirm tid)).2 = used)) ∧
    (∀ (pkts : List SrvPkt) (po : Bool) (capW capR : Nat), 1 ≤ capR →
      (po = true ∨ hasDiscP pkts = false) →
      ∃ r, runLoop P.newer107 po capW capR (inboxOf pkts) = some r ∧
        (r.wire.filter fun q => !q.isKeepAlive).map (replyFields P) =
          (beforeDiscP pkts).filterMap (ackOf P)) := by
  have hne : P.posLookCb ≠ P.kaCb := by
    simp only [Profile.cbDistinct, Bool.and_eq_true, bne_iff_ne, ne_eq] at hP
    exact fun h => hP.1.1 h.symm
  constructor
  · intro hn raw x y z yaw pitch flags tid h
    have h' : readPosLook P raw = .ok (.posLook x y z yaw pitch flags tid) := by
      simpa [clientDecode, hne] using h
    obtain ⟨r6, hb, -, hnew, -⟩ := readPosLook_ok P raw x y z yaw pitch flags tid h'
    obtain ⟨r7, hr7⟩ := hnew hn
    obtain ⟨used, e1, e2, -, e4⟩ := decVarInt_ok_used r6 tid r7 hr7
    refine ⟨by simp [replyTo, hn], rfl, ?_⟩
    refine ⟨beBytes 8 x.toNat ++ (beBytes 8 y.toNat ++ (beBytes 8 z.toNat ++
      (beBytes 4 yaw.toNat ++ (beBytes 4 pitch.toNat ++ beBytes 1 flags)))), used, r7, ?_, ?_, e2,
      e4⟩
    · rw [hb, e1]; simp
    · simp [beBytes_length]
  · intro pkts po capW capR hR hc
    obtain ⟨r, h, ha, -⟩ := C11.teleport_ack P.newer107 po capW capR hR (inboxOf pkts)
    refine ⟨r, h, ?_⟩
    rw [hasDisc_inboxOf] at ha
    rw [ha hc, beforeDisc_inboxOf, ack_filter_server]

/-- (e₂) The position echo carries the same bit patterns (protocol < 107).  For ANY payload `raw`:
if `read_packet` decodes `(posLookCb, raw)` to a position-and-look, the reactor's reply is the
serverbound position-and-look whose field bytes are THE FIRST 32 BYTES OF `raw` — x, y (as feet_y),
z, yaw, pitch, bit for bit — followed by `on_ground = 1`, and nothing else. -/
theorem position_echo_bytes (P : Profile) (hP : P.cbDistinct = true) (hn : P.newer107 = false)
    (raw : Bytes) (x y z yaw pitch : Int) (flags tid : Nat)
    (h : clientDecode P (P.posLookCb, raw) = .ok (.posLook x y z yaw pitch flags tid)) :
    replyTo P.newer107 (.posLook x y z yaw pitch flags tid) =
        [.positionEcho x y z yaw pitch true] ∧
      33 ≤ raw.length ∧
      replyFields P (.positionEcho x y z yaw pitch true) = (P.posLookSb, raw.take 32 ++ [1]) := by
  have hne : P.posLookCb ≠ P.kaCb := by
    simp only [Profile.cbDistinct, Bool.and_eq_true, bne_iff_ne, ne_eq] at hP
    exact fun h => hP.1.1 h.symm
  have h' : readPosLook P raw = .ok (.posLook x y z yaw pitch flags tid) := by
    simpa [clientDecode, hne] using h
  obtain ⟨r6, hb, -, -, -⟩ := readPosLook_ok P raw x y z yaw pitch flags tid h'
  refine ⟨by simp [replyTo, hn], by rw [hb]; simp [beBytes_length]; omega, ?_⟩
  rw [hb, take32 _ _ _ _ _ _ (beBytes_length _ _) (beBytes_length _ _) (beBytes_length _ _)
    (beBytes_length _ _) (beBytes_length _ _)]
  simp [replyFields]

/-- (d)+(e) in one: the whole client stream is the echo specification.  Unless the peer has closed
at a disconnect, the `(id, field bytes)` sequence the client writes is, packet by packet of the
server's stream before the first disconnect: for a keep-alive the serverbound keep-alive id with
THE SERVER'S OWN field bytes; for a position-and-look the acknowledgement `ackOf`; for anything else
nothing (`echoOf`). -/
theorem replies_are_echo_of_server_bytes (P : Profile) (pkts : List SrvPkt) (po : Bool)
    (capW capR : Nat) (hR : 1 ≤ capR) (hc : po = true ∨ hasDiscP pkts = false) :
    ∃ r, runLoop P.newer107 po capW capR (inboxOf pkts) = some r ∧
      r.wire.map (replyFields P) = (beforeDiscP pkts).flatMap (echoOf P) := by
  obtain ⟨r, h, he⟩ := C11.wire_order P.newer107 po capW capR hR (inboxOf pkts)
    (by rw [hasDisc_inboxOf]; exact hc)
  exact ⟨r, h, by rw [he, due_eq, due_fields]⟩

/-- The field writer never raises on what the reactor builds: on every reply that is due to
well-formed packets, `write_fields` with `struct.pack`'s and `VarInt.send`'s range checks
(`replyFieldsPy`) succeeds with exactly `replyFields`. -/
theorem replies_writable (P : Profile) (pkts : List SrvPkt) (hwf : ∀ p ∈ pkts, p.wf P = true) :
    ∀ q ∈ due P pkts, replyFieldsPy P q = .ok (replyFields P q) :=
  fun q hq => replyFieldsPy_ok P q (due_wf P pkts hwf q hq)

/-- (f) Negative witness: the statements have teeth.  On the concrete runs `demo47` / `demo757`
(store-only zlib, threshold 20 — the position echo is compressed-framed —, CFB8 over a toy block
function) the reference server recovers the replies from the client's bytes; but had the client
echoed the keep-alive id in the OTHER width (`wrongWidthFields`), swapped yaw and pitch in the
position echo (`swapLookFields`), or confirmed teleport id + 1 (`offByOneFields`), the same server
would NOT recover them: it stops with an exception, or delivers a different reply list. -/
theorem wrong_echo_detected :
    let want47 := demoRun p47 demo47
    let want757 := demoRun p757 demo757
    demoServer p47 (demoWire (replyFields p47) want47) = (want47, .eof) ∧
      demoServer p757 (demoWire (replyFields p757) want757) = (want757, .eof) ∧
      (demoServer p47 (demoWire (wrongWidthFields p47) want47)).1 ≠ want47 ∧
      (demoServer p47 (demoWire (wrongWidthFields p47) want47)).2 ≠ .eof ∧
      (demoServer p757 (demoWire (wrongWidthFields p757) want757)).1 ≠ want757 ∧
      (demoServer p757 (demoWire (wrongWidthFields p757) want757)).2 ≠ .eof ∧
      (demoServer p47 (demoWire (swapLookFields p47) want47)).1 ≠ want47 ∧
      (demoServer p757 (demoWire (offByOneFields p757) want757)).1 ≠ want757 := by
  decide +kernel

/-! ### Non-vacuity: concrete profiles and runs (kernel-evaluated) -/

/-- The two profiles have distinct ids where required — protocol 47 with keep-alive id 0x00 in BOTH
directions and equal to the (unused) teleport-confirm id. -/
example : p757.cbDistinct = true ∧ p757.sbDistinct = true ∧ p47.cbDistinct = true ∧
    p47.sbDistinct = true ∧ p47.kaSb = p47.teleportConfirmSb := by decide

/-- The demo packets are well-formed and pass the VarInt guard, compressed or not. -/
example : (∀ p ∈ demo757, p.wf p757 = true) ∧ (∀ p ∈ demo47, p.wf p47 = true) := by
  decide +kernel
example : (∀ p ∈ demo757, FrameOK Zlib.ident.toZlibOps demoThr (serverFields p757 p)) ∧
    (∀ p ∈ demo47, FrameOK Zlib.ident.toZlibOps none (serverFields p47 p)) ∧
    (∀ q ∈ due p757 demo757, FrameOK Zlib.ident.toZlibOps demoThr (replyFields p757 q)) ∧
    (∀ q ∈ due p47 demo47, FrameOK Zlib.ident.toZlibOps demoThr (replyFields p47 q)) := by
  decide +kernel

/-- The server's bytes for protocol 757, threshold 20: `0a 00 21 fffffffffffffffe` keep-alive −2
(Long); `25 24 38 …` position-and-look, compressed-framed (data length 0x24 = 36), teleport id 7,
dismount flag 0; `03 00 7e aa` unknown; the chat message; keep-alive 2; `05 00 1a 02 7b7d`
disconnect "{}"; keep-alive 3. -/
example : hexOfBytes (serverBytes Zlib.ident.toZlibOps demoThr p757 demo757) =
    "0a0021fffffffffffffffe" ++
    "25243840240000000000004050000000000000c00800000000000042b4000000000000000700" ++
    "03007eaa" ++ "06000f027b7d00" ++ "0a00210000000000000002" ++ "05001a027b7d" ++
    "0a00210000000000000003" := by decide +kernel

/-- (a) instantiated: that stream, CFB8-encrypted in two `send` calls and arriving in three segments
that cut through a length prefix and a Double, is decoded to the seven events. -/
example :
    let s := serverBytes Zlib.ident.toZlibOps demoThr p757 demo757
    let c := (encSends (cfb8EncX toyE) [9, 9] [s.take 5, s.drop 5]).2.flatten
    clientRead p757 (cfb8DecX toyE) [9, 9] Zlib.ident.toZlibOps true
        [c.take 1, c.drop 1 |>.take 20, c.drop 21] =
      ([.keepAlive 0xFFFFFFFFFFFFFFFE,
        .posLook 0x4024000000000000 0x4050000000000000 0xC008000000000000 0x42B40000 0 0 7,
        .unknown 0x7E [], .other "chat message", .keepAlive 2, .disconnect, .keepAlive 3], .eof) :=
  client_decodes_server_stream (cfb8Pair toyE) [9, 9] Zlib.ident demoThr p757 demo757 (by decide)
    (by decide +kernel) (by decide +kernel)
    [(serverBytes Zlib.ident.toZlibOps demoThr p757 demo757).take 5,
     (serverBytes Zlib.ident.toZlibOps demoThr p757 demo757).drop 5] (by decide +kernel) _
    (by decide +kernel)

/-- The replies of the two demo runs … -/
example : demoRun p757 demo757 =
    [.keepAlive 0xFFFFFFFFFFFFFFFE, .teleportConfirm 7, .keepAlive 2] := by decide +kernel
example : demoRun p47 demo47 =
    [.keepAlive 0xFFFFFFFE,
     .positionEcho 0x4024000000000000 0x4050000000000000 0xC008000000000000 0x42B40000 0x3F800000
       true, .keepAlive 2] := by decide +kernel

/-- … and the client's plaintext bytes.  757: `0a 00 0f fffffffffffffffe` (keep-alive, the server's
eight bytes), `03 00 00 07` (teleport confirm 7), keep-alive 2.  47, no compression:
`06 00 feffffff0f` (the five VarInt bytes of the Java int −2 come back unchanged), `22 06 …` the
position echo (32 bytes of the request + `01`), `02 00 02`. -/
example : hexOfBytes (clientWire Zlib.ident.toZlibOps demoThr p757 idXform ()
      (demoRun p757 demo757)).flatten =
    "0a000ffffffffffffffffe" ++ "03000007" ++ "0a000f0000000000000002" := by decide +kernel
example : hexOfBytes (clientWire Zlib.ident.toZlibOps none p47 idXform ()
      (demoRun p47 demo47)).flatten =
    "0600feffffff0f" ++
    "220640240000000000004050000000000000c00800000000000042b400003f80000001" ++
    "020002" := by decide +kernel

/-- (c) instantiated: the hypotheses are satisfiable (protocol 47, CFB8, threshold 20, real caps),
and the conclusion for a byte-by-byte arrival. -/
example : ∃ r, runLoop false true 300 50 (inboxOf demo47) = some r ∧
    (∀ segs : Segs,
      segs.flatten = (clientWire Zlib.ident.toZlibOps demoThr p47 (cfb8EncX toyE) [1, 2, 3]
        r.wire).flatten →
      serverDecodeReplies p47 (cfb8DecX toyE) [1, 2, 3] Zlib.ident.toZlibOps true segs =
        (r.wire, .eof)) ∧
    ((true = true ∨ hasDiscP demo47 = false) → r.wire = due p47 demo47) :=
  server_recovers_replies (cfb8Pair toyE) [1, 2, 3] Zlib.ident demoThr p47 demo47 true 300 50
    (by decide) (by decide) (by decide +kernel) (by decide +kernel)

/-- (d)/(e) packet level, on concrete raw payloads: a Long keep-alive with trailing garbage, a
non-canonical VarInt keep-alive (`80 00` = 0, echoed as `00`: same number, canonical bytes), and a
protocol-47 position-and-look. -/
example : clientDecode p757 (0x21, [0xff, 0, 0, 0, 0, 0, 0, 1, 0xee]) =
    .ok (.keepAlive 0xff00000000000001) ∧
    (replyFields p757 (.keepAlive 0xff00000000000001)).2 = [0xff, 0, 0, 0, 0, 0, 0, 1] := by
  decide +kernel
example : clientDecode p47 (0x00, [0x80, 0x00]) = .ok (.keepAlive 0) ∧
    (replyFields p47 (.keepAlive 0)).2 = [0x00] ∧ ¬ Canonical [0x80, 0x00] := by
  refine ⟨by decide +kernel, by decide +kernel, ?_⟩
  simp [Canonical, leValue]
example : clientDecode p47 (0x08, (serverFields p47 (demo47.getD 1 (.keepAlive 0))).2) =
    .ok (.posLook 0x4024000000000000 0x4050000000000000 0xC008000000000000 0x42B40000 0x3F800000
      0 0) := by decide +kernel

/-- (e₂) instantiated: the hypotheses of `position_echo_bytes` are satisfiable, and its conclusion
for that payload. -/
example : replyFields p47 (.positionEcho 0x4024000000000000 0x4050000000000000 0xC008000000000000
      0x42B40000 0x3F800000 true) =
    (0x06, ((serverFields p47 (demo47.getD 1 (.keepAlive 0))).2).take 32 ++ [1]) :=
  (position_echo_bytes p47 (by decide) rfl _ _ _ _ _ _ 0 0 (by decide +kernel)).2.2

/-- The echo specification of the protocol-47 demo stream. -/
example : (beforeDiscP demo47).flatMap (echoOf p47) =
    [(0x00, [0xfe, 0xff, 0xff, 0xff, 0x0f]),
     (0x06, [0x40, 0x24, 0, 0, 0, 0, 0, 0, 0x40, 0x50, 0, 0, 0, 0, 0, 0, 0xc0, 0x08, 0, 0, 0, 0, 0, 0,
             0x42, 0xb4, 0, 0, 0x3f, 0x80, 0, 0, 1]),
     (0x00, [0x02])] := by decide +kernel

/-- A packet that is NOT well-formed: an "unknown" packet whose id is the keep-alive id — the client
would decode it as a keep-alive (here: fail on the short payload). -/
example : (SrvPkt.unknown 0x21 [0xaa]).wf p757 = false ∧
    clientDecode p757 (serverFields p757 (.unknown 0x21 [0xaa])) = .error .struct := by
  decide +kernel

end PyCraft.C11Wire
