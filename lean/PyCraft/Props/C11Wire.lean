import PyCraft.Lemmas.PlayWire
import PyCraft.Props.C11
import PyCraft.Props.C01
/-!
# C11 on the wire — keep-alives and teleports are answered, byte by byte

Refines property C11 ("in play, keep-alives and teleports are always answered; unknown packets
pass") from the abstract packets of `Model/Play.lean` (`Props/C11.lean`) to the BYTES of both
directions, by composing three layers:

* C01 (`Props/C01.lean`): frames under any threshold, any lawful zlib, any cipher pair, any
  segmentation — used for the server → client stream AND for the client → server stream;
* the field layouts of the six packets involved (`Model/PlayWire.lean`): `serverFields`,
  `clientDecode` (what `read_packet` + the packet class's `read` make of a delivered frame),
  `replyFields` (`write_fields` of the replies), `serverDecode` (an independent strict reader);
* C11 (`runLoop`, `C11.keepalive_echo`, `C11.teleport_ack`, the closed form `runLoop_spec`).

* the play-state "set compression" packet (protocols ≤ 47; `SrvPkt.setCompression`,
  `Profile.setCompressionCb`): it switches threshold and compression of BOTH directions at its
  position in the stream — `serverBytes` frames what follows it with the new threshold, `clientRead`
  re-evaluates its flag packet by packet, and every reply is framed with the threshold in force
  when it was WRITTEN (`runT` = `runLoop` instrumented with "packets processed so far", `thrAt`,
  `thrTags`, `clientWireT`); the reference server is told the flag per frame
  (`serverDecodeRepliesM`).  Streams without such packets are the one-threshold special case
  (`quiet_stream_one_threshold`, last clause of `client_wire_is_frames_of_replies`,
  `server_recovers_replies_one_threshold`).

Everything is quantified over ALL packet lists `pkts : List SrvPkt` (each packet carries all its
wire data; `inboxOf pkts` is the `PlayEv` list the reactor sees), ALL profiles (the ids and layout
switches are parameters; only pairwise distinctness of the ids in use is assumed), ALL thresholds,
ALL lawful zlibs, ALL cipher pairs and initial contexts (`plainPair`/`()` = no encryption), ALL
chunkings of the writer's stream into `send` calls, ALL segmentations into arrivals, ALL caps with
`capR ≥ 1`, both values of `peerOpen`.

`SrvPkt.wf` / `replyWf` are the decidable well-formedness predicates (bit patterns of the right
width, VarInts below the reader's bound `2^42`, `other`/`unknown` ids what they claim to be);
`FrameOK` is C01's VarInt guard.

Only property theorems and non-vacuity examples live here; helper lemmas and the concrete example
parameters are in `Lemmas/PlayWire.lean`.
-/
namespace PyCraft.C11Wire
open PyCraft PyCraft.Play PyCraft.PlayWire

/-- (a) The client reads the server's stream back — set-compression packets included.  Let a
server write any well-formed packets, one frame each, starting under the threshold `thr` login left
in force and framing everything BEHIND a play-state "set compression" packet with that packet's
threshold (`serverBytes`; any zlib; `ServerOK`: C01's VarInt guard for every frame under the
threshold it is framed with); cut the stream into `send` calls in any way, encrypt it call by call
(or not: `plainPair`), and let it arrive in ANY segmentation: `read_packet` in a loop — C01's reader
with the CURRENT `compression_enabled` flag, then the packet class's `read` selected by the id, the
flag switched on by the reactor behind each set-compression packet — hands `_react` exactly the
events `inboxOf pkts` (keep-alive ids, positions, teleport ids as written; an unknown id as a bare
packet without data; other known packets, set compression among them, by name), in order, nothing
lost, merged or split, and then sees end-of-stream exactly at a frame boundary: everything was
consumed. -/
theorem client_decodes_server_stream {σ : Type} (cp : CipherPair σ) (s0 : σ) (z : Zlib)
    (thr : Option Int) (P : Profile) (pkts : List SrvPkt) (hP : P.cbDistinct = true)
    (hwf : ∀ p ∈ pkts, p.wf P = true)
    (hok : ServerOK z.toZlibOps P thr pkts)
    (sends : List Bytes) (hsends : sends.flatten = serverBytes z.toZlibOps thr P pkts)
    (segs : Segs) (hseg : segs.flatten = (encSends cp.enc s0 sends).2.flatten) :
    clientRead P cp.dec s0 z.toZlibOps thr.isSome segs = (inboxOf pkts, .eof) := by
  rw [clientRead_spec, hseg, encSends_flatten, (cp.inv s0 _).1, hsends]
  exact parseClient_server z P hP pkts thr _ hwf hok
    (by rw [cp.enc.len]; have := serverBytes_length z.toZlibOps P pkts thr; omega)

/-- (a′) The same on a plaintext connection: any segmentation of `serverBytes` is read back as
`inboxOf pkts`, then end-of-stream. -/
theorem client_decodes_plain_stream (z : Zlib) (thr : Option Int) (P : Profile)
    (pkts : List SrvPkt) (hP : P.cbDistinct = true) (hwf : ∀ p ∈ pkts, p.wf P = true)
    (hok : ServerOK z.toZlibOps P thr pkts) (segs : Segs)
    (hseg : segs.flatten = serverBytes z.toZlibOps thr P pkts) :
    clientRead P idXform () z.toZlibOps thr.isSome segs = (inboxOf pkts, .eof) := by
  rw [clientRead_spec]
  show parseClient P z.toZlibOps (segs.flatten.length + 1) thr.isSome segs.flatten = _
  rw [hseg]
  exact parseClient_server z P hP pkts thr _ hwf hok
    (by have := serverBytes_length z.toZlibOps P pkts thr; omega)

/-- (a″) A stream WITHOUT set-compression packets is framed with the one threshold `thr` throughout
(the vocabulary of `C01.roundtrip_stream`), and its VarInt guard is the guard of every packet under
`thr`. -/
theorem quiet_stream_one_threshold (z : ZlibOps) (thr : Option Int) (P : Profile)
    (pkts : List SrvPkt) (hq : ∀ p ∈ pkts, p.isSetCompression = false) :
    serverBytes z thr P pkts = (pkts.map fun p => packetFrame z thr (serverFields P p)).flatten ∧
    (ServerOK z P thr pkts ↔ ∀ p ∈ pkts, FrameOK z thr (serverFields P p)) ∧
    ∀ n, thrAt thr pkts n = thr :=
  ⟨by rw [serverBytes, serverFrames_quiet z thr P pkts hq], serverOK_quiet z thr P pkts hq,
    thrAt_quiet thr pkts hq⟩

/-- (b) What the client writes.  For the run of the networking loop on the decoded inbox (any caps
with `capR ≥ 1`, peer open or not) the instrumented run `runT` terminates too and tells, for every
reply on `Result.wire`, in order, how many packets of the server's stream the client had processed
when `_write_packet` wrote it: a number that never decreases along the wire and never exceeds the
length of the stream.  The threshold that reply is framed with is the one in force at that point of
the stream (`thrTags`: `thr`, or the threshold of the last set-compression packet processed — so a
reply written after the client has processed a set-compression packet uses it, whichever packet it
answers).  The bytes handed to the socket are the concatenation of WHOLE frames — one per reply,
`frame`d `VarInt(id) ++ write_fields` under its own threshold — on a plaintext connection as they
are, otherwise as ONE cipher stream over them however the `send` calls chunk it; the replies are a
prefix of — and, unless the peer has closed at a disconnect, exactly — the replies due
(`C11.wire_order`), which are the replies to the packets BEFORE the first server disconnect: nothing
is written for anything behind it.  Without set-compression packets every reply is framed with `thr`
and the chunks are those of the one-threshold writer `clientWire`. -/
theorem client_wire_is_frames_of_replies {τ : Type} (enc : StreamXform τ) (t0 : τ) (z : ZlibOps)
    (thr : Option Int) (P : Profile) (pkts : List SrvPkt) (po : Bool) (capW capR : Nat)
    (hR : 1 ≤ capR) :
    ∃ r tw, runLoop P.newer107 po capW capR (inboxOf pkts) = some r ∧
      runT P.newer107 po capW capR (inboxOf pkts) = some tw ∧ tw.map (·.1) = r.wire ∧
      (∀ x ∈ tw, x.2 ≤ pkts.length) ∧ (tw.Pairwise fun a b => a.2 ≤ b.2) ∧
      (clientWireT z P idXform () (thrTags thr pkts tw)).flatten =
        ((thrTags thr pkts tw).map (replyFrameT z P)).flatten ∧
      (clientWireT z P enc t0 (thrTags thr pkts tw)).flatten =
        (enc.update t0 ((thrTags thr pkts tw).map (replyFrameT z P)).flatten).2 ∧
      r.wire <+: due P pkts ∧
      ((po = true ∨ hasDiscP pkts = false) → r.wire = due P pkts) ∧
      (due P pkts = (beforeDisc (inboxOf pkts)).flatMap (replyTo P.newer107)) ∧
      (∀ pre j post, pkts = pre ++ SrvPkt.disconnect j :: post →
        (∀ p ∈ pre, p.isDisconnect = false) →
        due P pkts = pre.flatMap fun p => replyTo P.newer107 p.ev) ∧
      ((∀ p ∈ pkts, p.isSetCompression = false) →
        thrTags thr pkts tw = r.wire.map (fun q => (q, thr)) ∧
        clientWireT z P enc t0 (thrTags thr pkts tw) = clientWire z thr P enc t0 r.wire) := by
  obtain ⟨r, h, hp, he, -⟩ := run_facts P pkts po capW capR hR
  obtain ⟨tw, ht, hfst, hle, hmono⟩ := runT_spec P.newer107 po capW capR (inboxOf pkts) r h
  have hlen : (inboxOf pkts).length = pkts.length := by simp [inboxOf]
  refine ⟨r, tw, h, ht, hfst, fun x hx => hlen ▸ hle x hx, hmono,
    wireWithT_flatten z idXform () _ _, wireWithT_flatten z enc t0 _ _, hp, he,
    (due_eq P pkts).symm, ?_, fun hq => ?_⟩
  · intro pre j post hpk hpre
    rw [due, hpk, beforeDiscP_append_disc pre post j hpre]
  · have e := thrTags_quiet thr pkts hq tw
    rw [hfst] at e
    exact ⟨e, by rw [e]; exact wireWithT_const z thr enc t0 _ _⟩

/-- (b′) WHEN a reply is written: never before the packet it answers has been processed.  The reply at
position `j` of `Result.wire` is the `j`-th reply due; the number `n` of packets processed when it was
written (its tag) is large enough for the first `n` packets to cause MORE than `j` replies — the
packet it answers is among them.  Hence a reply that is not an answer to one of the first `i` packets
is written with more than `i` packets processed (`i < n`): a set-compression packet among the first
`i` packets has been processed by then, and the reply is framed with its threshold or with that of a
later one, never with an earlier threshold.  (The converse does not hold: a reply may be framed with a
threshold announced AFTER the packet it answers — `demo47sc` with the real caps.) -/
theorem reply_written_after_its_packet (P : Profile) (pkts : List SrvPkt) (po : Bool)
    (capW capR : Nat) (hR : 1 ≤ capR) :
    ∃ r tw, runLoop P.newer107 po capW capR (inboxOf pkts) = some r ∧
      runT P.newer107 po capW capR (inboxOf pkts) = some tw ∧ tw.map (·.1) = r.wire ∧
      ∀ (j : Nat) (hj : j < tw.length),
        j < ((pkts.take tw[j].2).flatMap fun p => replyTo P.newer107 p.ev).length ∧
        ∀ i, ((pkts.take i).flatMap fun p => replyTo P.newer107 p.ev).length ≤ j → i < tw[j].2 := by
  obtain ⟨r, h, -⟩ := run_facts P pkts po capW capR hR
  obtain ⟨tw, ht, hfst, -, -⟩ := runT_spec P.newer107 po capW capR (inboxOf pkts) r h
  refine ⟨r, tw, h, ht, hfst, fun j hj => ?_⟩
  have ha := runT_after P.newer107 po capW capR (inboxOf pkts) tw ht j hj
  refine ⟨by rw [← repliesUpTo_inboxOf]; exact ha, fun i hi => ?_⟩
  rw [← repliesUpTo_inboxOf] at hi
  apply Nat.lt_of_not_le
  intro hle
  have := repliesUpTo_mono P.newer107 (inboxOf pkts) hle
  omega

/-- (c) The server recovers the replies.  Let the client's chunks (zlib/cipher as above, every reply
framed with the threshold in force when it was written, `thrTags`) arrive in ANY segmentation at an
independent reference server — C01's reader through the matching decryptor, told frame by frame
whether a threshold was in force (it is the server that announced the thresholds), then a STRICT
decoder per packet (`serverDecode`: keep-alive in this profile's width, the acknowledgement this
profile expects, every payload consumed exactly): it recovers exactly the reply list `Result.wire` —
which is the list of replies due unless the peer has closed — and then end-of-stream.  Under
compression and encryption too (`cp`, `thr`, the thresholds of the set-compression packets
arbitrary).  `hok`: every reply due passes the VarInt guard under every threshold that is in force
at some point of the stream. -/
theorem server_recovers_replies {τ : Type} (cp : CipherPair τ) (t0 : τ) (z : Zlib)
    (thr : Option Int) (P : Profile) (pkts : List SrvPkt) (po : Bool) (capW capR : Nat)
    (hR : 1 ≤ capR) (hSb : P.sbDistinct = true) (hwf : ∀ p ∈ pkts, p.wf P = true)
    (hok : ∀ q ∈ due P pkts, ∀ n ≤ pkts.length,
      FrameOK z.toZlibOps (thrAt thr pkts n) (replyFields P q)) :
    ∃ r tw, runLoop P.newer107 po capW capR (inboxOf pkts) = some r ∧
      runT P.newer107 po capW capR (inboxOf pkts) = some tw ∧ tw.map (·.1) = r.wire ∧
      (∀ (last : Bool) (segs : Segs),
        segs.flatten = (clientWireT z.toZlibOps P cp.enc t0 (thrTags thr pkts tw)).flatten →
        serverDecodeRepliesM P cp.dec t0 z.toZlibOps ((thrTags thr pkts tw).map (·.2.isSome)) last
          segs = (r.wire, .eof)) ∧
      ((po = true ∨ hasDiscP pkts = false) → r.wire = due P pkts) := by
  obtain ⟨r, h, hp, he, -⟩ := run_facts P pkts po capW capR hR
  obtain ⟨tw, ht, hfst, hle, -⟩ := runT_spec P.newer107 po capW capR (inboxOf pkts) r h
  have hlen : (inboxOf pkts).length = pkts.length := by simp [inboxOf]
  refine ⟨r, tw, h, ht, hfst, fun last segs hseg => ?_, he⟩
  have hmem : ∀ qt ∈ thrTags thr pkts tw,
      qt.1 ∈ due P pkts ∧ ∃ n ≤ pkts.length, qt.2 = thrAt thr pkts n := by
    intro qt hq
    obtain ⟨x, hx, rfl⟩ := List.mem_map.mp hq
    refine ⟨hp.subset ?_, x.2, hlen ▸ hle x hx, rfl⟩
    rw [← hfst]; exact List.mem_map.mpr ⟨x, hx, rfl⟩
  have hrec := serverDecodeRepliesM_wire cp t0 z P hSb (thrTags thr pkts tw)
    (fun qt hq => due_wf P pkts hwf qt.1 (hmem qt hq).1)
    (fun qt hq => by
      obtain ⟨hd, n, hn, e⟩ := hmem qt hq
      rw [e]; exact hok qt.1 hd n hn) last segs hseg
  rw [hrec]
  congr 1
  rw [← hfst, thrTags, List.map_map]
  rfl

/-- (c′) One threshold.  The one-threshold writer `clientWire z thr` (every reply framed with `thr`)
is read back by the one-flag reference server `serverDecodeReplies … thr.isSome` — the vocabulary of
`Model/SessionWire.lean`; and (last clause) `clientWire z thr` IS what the client hands to the socket
whenever the server's stream contains no set-compression packet: then every tag of `runT` stands for
the threshold `thr`. -/
theorem server_recovers_replies_one_threshold {τ : Type} (cp : CipherPair τ) (t0 : τ) (z : Zlib)
    (thr : Option Int) (P : Profile) (pkts : List SrvPkt) (po : Bool) (capW capR : Nat)
    (hR : 1 ≤ capR) (hSb : P.sbDistinct = true) (hwf : ∀ p ∈ pkts, p.wf P = true)
    (hok : ∀ q ∈ due P pkts, FrameOK z.toZlibOps thr (replyFields P q)) :
    ∃ r, runLoop P.newer107 po capW capR (inboxOf pkts) = some r ∧
      (∀ segs : Segs,
        segs.flatten = (clientWire z.toZlibOps thr P cp.enc t0 r.wire).flatten →
        serverDecodeReplies P cp.dec t0 z.toZlibOps thr.isSome segs = (r.wire, .eof)) ∧
      ((po = true ∨ hasDiscP pkts = false) → r.wire = due P pkts) ∧
      ((∀ p ∈ pkts, p.isSetCompression = false) →
        ∃ tw, runT P.newer107 po capW capR (inboxOf pkts) = some tw ∧
          clientWireT z.toZlibOps P cp.enc t0 (thrTags thr pkts tw) =
            clientWire z.toZlibOps thr P cp.enc t0 r.wire) := by
  obtain ⟨r, tw, h, ht, -, -, -, -, -, hp, he, -, -, hquiet⟩ :=
    client_wire_is_frames_of_replies cp.enc t0 z.toZlibOps thr P pkts po capW capR hR
  refine ⟨r, h, fun segs hseg => ?_, he, fun hq => ⟨tw, ht, (hquiet hq).2⟩⟩
  have hsub : ∀ q ∈ r.wire, q ∈ due P pkts := fun q hq => hp.subset hq
  have hr := C01.roundtrip_encrypted cp t0 z thr (r.wire.map (replyFields P))
    (fun p hp' => by obtain ⟨q, hq, rfl⟩ := List.mem_map.mp hp'; exact hok q (hsub q hq))
    (r.wire.flatMap (sendsWith z.toZlibOps thr (replyFields P)))
    (sends_frames z.toZlibOps thr P r.wire) segs hseg
  unfold serverDecodeReplies
  rw [hr]
  exact decodeEach_replies P hSb r.wire (fun q hq => due_wf P pkts hwf q (hsub q hq)) .eof

/-- (a)+(b)+(c) end to end.  Server bytes in (any segmentation, cipher `cpS`, thresholds changing at
the set-compression packets), the client reads them, runs the loop, writes (cipher `cpC`, each reply
under the threshold in force when written); the reference server reading the client's bytes in any
segmentation recovers exactly the replies due to the packets before the first disconnect. -/
theorem session_end_to_end {σ τ : Type} (cpS : CipherPair σ) (s0 : σ) (cpC : CipherPair τ) (t0 : τ)
    (z : Zlib) (thr : Option Int) (P : Profile) (pkts : List SrvPkt) (capW capR : Nat)
    (hR : 1 ≤ capR) (hP : P.cbDistinct = true) (hSb : P.sbDistinct = true)
    (hwf : ∀ p ∈ pkts, p.wf P = true)
    (hokS : ServerOK z.toZlibOps P thr pkts)
    (hokC : ∀ q ∈ due P pkts, ∀ n ≤ pkts.length,
      FrameOK z.toZlibOps (thrAt thr pkts n) (replyFields P q))
    (sends : List Bytes) (hsends : sends.flatten = serverBytes z.toZlibOps thr P pkts)
    (segsIn : Segs) (hin : segsIn.flatten = (encSends cpS.enc s0 sends).2.flatten) :
    ∃ inbox r tw, clientRead P cpS.dec s0 z.toZlibOps thr.isSome segsIn = (inbox, .eof) ∧
      runLoop P.newer107 true capW capR inbox = some r ∧
      runT P.newer107 true capW capR inbox = some tw ∧ tw.map (·.1) = r.wire ∧
      r.closed = hasDiscP pkts ∧
      ∀ (last : Bool) (segsOut : Segs),
        segsOut.flatten = (clientWireT z.toZlibOps P cpC.enc t0 (thrTags thr pkts tw)).flatten →
        serverDecodeRepliesM P cpC.dec t0 z.toZlibOps ((thrTags thr pkts tw).map (·.2.isSome)) last
          segsOut = (due P pkts, .eof) := by
  have ha := client_decodes_server_stream cpS s0 z thr P pkts hP hwf hokS sends hsends segsIn hin
  obtain ⟨r, tw, h, ht, hfst, hrec, he⟩ :=
    server_recovers_replies cpC t0 z thr P pkts true capW capR hR hSb hwf hokC
  obtain ⟨r', h', -, -, hcl⟩ := run_facts P pkts true capW capR hR
  have hrr : r' = r := Option.some.inj (h'.symm.trans h)
  refine ⟨inboxOf pkts, r, tw, ha, h, ht, hfst, by rw [← hrr]; exact hcl,
    fun last segsOut hout => ?_⟩
  rw [← he (Or.inl rfl)]
  exact hrec last segsOut hout

/-- (d) The keep-alive echo is byte-transparent, for both id widths.
Packet level, for ANY payload bytes `raw` (whatever server wrote them): if `read_packet` decodes
`(kaCb, raw)` to a keep-alive with id `id`, then the field bytes of the reply are — Long layout —
the first eight bytes of `raw`, verbatim (through the signed `unpack('>q')`/`pack('>q')` trip);
— VarInt layout — an encoding of the same number as the bytes `used` that were consumed, and those
very bytes whenever `used` is the canonical (shortest) encoding, which is what every VarInt writer
emits (a Java server's negative id arrives as five bytes and goes back as the same five bytes).
Run level (via `C11.keepalive_echo`): the field bytes of the keep-alive replies on the wire are
exactly the field bytes of the keep-alive requests received before any server disconnect — same
order, each once. -/
theorem keepalive_echo_bytes (P : Profile) :
    (∀ raw id, clientDecode P (P.kaCb, raw) = .ok (.keepAlive id) →
      (replyFields P (.keepAlive id)).1 = P.kaSb ∧
      ∃ used rest, raw = used ++ rest ∧
        (P.kaLong = true → used.length = 8 ∧ (replyFields P (.keepAlive id)).2 = used) ∧
        (P.kaLong = false → leValue used = id ∧
          leValue (replyFields P (.keepAlive id)).2 = id ∧
          (Canonical used → (replyFields P (.keepAlive id)).2 = used))) ∧
    (∀ (pkts : List SrvPkt) (po : Bool) (capW capR : Nat), 1 ≤ capR →
      (po = true ∨ hasDiscP pkts = false) →
      ∃ r, runLoop P.newer107 po capW capR (inboxOf pkts) = some r ∧
        (r.wire.filter Reply.isKeepAlive).map (fun q => (replyFields P q).2) =
          ((beforeDiscP pkts).filter SrvPkt.isKeepAlive).map (fun p => (serverFields P p).2)) := by
  constructor
  · intro raw id h
    refine ⟨rfl, ?_⟩
    have h' : readKeepAlive P raw = .ok (.keepAlive id) := by
      simpa [clientDecode] using h
    obtain ⟨hl, hv⟩ := readKeepAlive_ok P raw id h'
    cases hk : P.kaLong
    · obtain ⟨r, hr⟩ := hv hk
      obtain ⟨used, e1, e2, -, e4⟩ := decVarInt_ok_used raw id r hr
      refine ⟨used, r, e1, fun hh => (by cases hh), fun _ => ?_⟩
      have hf : (replyFields P (.keepAlive id)).2 = encVarInt id := by simp [replyFields, hk]
      rw [hf]
      exact ⟨e2, leValue_enc id, e4⟩
    · obtain ⟨r, hr, -⟩ := hl hk
      refine ⟨beBytes 8 id, r, hr, fun _ => ⟨beBytes_length 8 id, ?_⟩, fun hh => (by cases hh)⟩
      rw [replyFields_kaField]; simp [kaField, hk]
  · intro pkts po capW capR hR hc
    obtain ⟨r, h, -, he⟩ := C11.keepalive_echo P.newer107 po capW capR hR (inboxOf pkts)
    refine ⟨r, h, ?_⟩
    rw [hasDisc_inboxOf] at he
    rw [ka_filter_fields, he hc, beforeDisc_inboxOf, ka_filter_server]

/-- (e₁) The teleport confirm carries the teleport id as read (protocol ≥ 107).
Packet level, for ANY payload `raw`: if `read_packet` decodes `(posLookCb, raw)` to a
position-and-look with teleport id `tid`, then behind the 33 bytes of position, look and flags `raw`
holds bytes `used` denoting `tid`, and the reply is `(teleportConfirmSb, VarInt(tid))` — those very
bytes when they are canonical.  Run level (via `C11.teleport_ack`): the non-keep-alive replies on
the wire are, as `(id, field bytes)`, exactly the acknowledgements `ackOf` of the position-and-look
packets received before any server disconnect, in order, each once. -/
theorem teleport_ack_bytes (P : Profile) (hP : P.cbDistinct = true) :
    (P.newer107 = true → ∀ raw x y z yaw pitch flags tid,
      clientDecode P (P.posLookCb, raw) = .ok (.posLook x y z yaw pitch flags tid) →
      replyTo P.newer107 (.posLook x y z yaw pitch flags tid) = [.teleportConfirm tid] ∧
      replyFields P (.teleportConfirm tid) = (P.teleportConfirmSb, encVarInt tid) ∧
      ∃ head used rest, raw = head ++ (used ++ rest) ∧ head.length = 33 ∧ leValue used = tid ∧
        (Canonical used → (replyFields P (.teleportConfirm tid)).2 = used)) ∧
    (∀ (pkts : List SrvPkt) (po : Bool) (capW capR : Nat), 1 ≤ capR →
      (po = true ∨ hasDiscP pkts = false) →
      ∃ r, runLoop P.newer107 po capW capR (inboxOf pkts) = some r ∧
        (r.wire.filter fun q => !q.isKeepAlive).map (replyFields P) =
          (beforeDiscP pkts).filterMap (ackOf P)) := by
  have hne : P.posLookCb ≠ P.kaCb := by
    simp only [Profile.cbDistinct, Bool.and_eq_true, bne_iff_ne, ne_eq] at hP
    exact fun h => hP.1.1 h.symm
  constructor
  · intro hn raw x y z yaw pitch flags tid h
    have h' : readPosLook P raw = .ok (.posLook x y z yaw pitch flags tid) := by
      simpa [clientDecode, hne] using h
    obtain ⟨r6, hb, -, hnew, -⟩ := readPosLook_ok P raw x y z yaw pitch flags tid h'
    obtain ⟨r7, hr7⟩ := hnew hn
    obtain ⟨used, e1, e2, -, e4⟩ := decVarInt_ok_used r6 tid r7 hr7
    refine ⟨by simp [replyTo, hn], rfl, ?_⟩
    refine ⟨beBytes 8 x.toNat ++ (beBytes 8 y.toNat ++ (beBytes 8 z.toNat ++
      (beBytes 4 yaw.toNat ++ (beBytes 4 pitch.toNat ++ beBytes 1 flags)))), used, r7, ?_, ?_, e2,
      e4⟩
    · rw [hb, e1]; simp
    · simp [beBytes_length]
  · intro pkts po capW capR hR hc
    obtain ⟨r, h, ha, -⟩ := C11.teleport_ack P.newer107 po capW capR hR (inboxOf pkts)
    refine ⟨r, h, ?_⟩
    rw [hasDisc_inboxOf] at ha
    rw [ha hc, beforeDisc_inboxOf, ack_filter_server]

/-- (e₂) The position echo carries the same bit patterns (protocol < 107).  For ANY payload `raw`:
if `read_packet` decodes `(posLookCb, raw)` to a position-and-look, the reactor's reply is the
serverbound position-and-look whose field bytes are THE FIRST 32 BYTES OF `raw` — x, y (as feet_y),
z, yaw, pitch, bit for bit — followed by `on_ground = 1`, and nothing else. -/
theorem position_echo_bytes (P : Profile) (hP : P.cbDistinct = true) (hn : P.newer107 = false)
    (raw : Bytes) (x y z yaw pitch : Int) (flags tid : Nat)
    (h : clientDecode P (P.posLookCb, raw) = .ok (.posLook x y z yaw pitch flags tid)) :
    replyTo P.newer107 (.posLook x y z yaw pitch flags tid) =
        [.positionEcho x y z yaw pitch true] ∧
      33 ≤ raw.length ∧
      replyFields P (.positionEcho x y z yaw pitch true) = (P.posLookSb, raw.take 32 ++ [1]) := by
  have hne : P.posLookCb ≠ P.kaCb := by
    simp only [Profile.cbDistinct, Bool.and_eq_true, bne_iff_ne, ne_eq] at hP
    exact fun h => hP.1.1 h.symm
  have h' : readPosLook P raw = .ok (.posLook x y z yaw pitch flags tid) := by
    simpa [clientDecode, hne] using h
  obtain ⟨r6, hb, -, -, -⟩ := readPosLook_ok P raw x y z yaw pitch flags tid h'
  refine ⟨by simp [replyTo, hn], by rw [hb]; simp [beBytes_length]; omega, ?_⟩
  rw [hb, take32 _ _ _ _ _ _ (beBytes_length _ _) (beBytes_length _ _) (beBytes_length _ _)
    (beBytes_length _ _) (beBytes_length _ _)]
  simp [replyFields]

/-- (d)+(e) in one: the whole client stream is the echo specification.  Unless the peer has closed
at a disconnect, the `(id, field bytes)` sequence the client writes is, packet by packet of the
server's stream before the first disconnect: for a keep-alive the serverbound keep-alive id with
THE SERVER'S OWN field bytes; for a position-and-look the acknowledgement `ackOf`; for anything else
nothing (`echoOf`). -/
theorem replies_are_echo_of_server_bytes (P : Profile) (pkts : List SrvPkt) (po : Bool)
    (capW capR : Nat) (hR : 1 ≤ capR) (hc : po = true ∨ hasDiscP pkts = false) :
    ∃ r, runLoop P.newer107 po capW capR (inboxOf pkts) = some r ∧
      r.wire.map (replyFields P) = (beforeDiscP pkts).flatMap (echoOf P) := by
  obtain ⟨r, h, he⟩ := C11.wire_order P.newer107 po capW capR hR (inboxOf pkts)
    (by rw [hasDisc_inboxOf]; exact hc)
  exact ⟨r, h, by rw [he, due_eq, due_fields]⟩

/-- The field writer never raises on what the reactor builds: on every reply that is due to
well-formed packets, `write_fields` with `struct.pack`'s and `VarInt.send`'s range checks
(`replyFieldsPy`) succeeds with exactly `replyFields`. -/
theorem replies_writable (P : Profile) (pkts : List SrvPkt) (hwf : ∀ p ∈ pkts, p.wf P = true) :
    ∀ q ∈ due P pkts, replyFieldsPy P q = .ok (replyFields P q) :=
  fun q hq => replyFieldsPy_ok P q (due_wf P pkts hwf q hq)

/-- (f) Negative witness: the statements have teeth.  On the concrete runs `demo47` / `demo757`
(store-only zlib, threshold 20 — the position echo is compressed-framed —, CFB8 over a toy block
function) the reference server recovers the replies from the client's bytes; but had the client
echoed the keep-alive id in the OTHER width (`wrongWidthFields`), swapped yaw and pitch in the
position echo (`swapLookFields`), or confirmed teleport id + 1 (`offByOneFields`), the same server
would NOT recover them: it stops with an exception, or delivers a different reply list. -/
theorem wrong_echo_detected :
    let want47 := demoRun p47 demo47
    let want757 := demoRun p757 demo757
    demoServer p47 (demoWire (replyFields p47) want47) = (want47, .eof) ∧
      demoServer p757 (demoWire (replyFields p757) want757) = (want757, .eof) ∧
      (demoServer p47 (demoWire (wrongWidthFields p47) want47)).1 ≠ want47 ∧
      (demoServer p47 (demoWire (wrongWidthFields p47) want47)).2 ≠ .eof ∧
      (demoServer p757 (demoWire (wrongWidthFields p757) want757)).1 ≠ want757 ∧
      (demoServer p757 (demoWire (wrongWidthFields p757) want757)).2 ≠ .eof ∧
      (demoServer p47 (demoWire (swapLookFields p47) want47)).1 ≠ want47 ∧
      (demoServer p757 (demoWire (offByOneFields p757) want757)).1 ≠ want757 := by
  decide +kernel

/-! ### Non-vacuity: concrete profiles and runs (kernel-evaluated) -/

/-- The two profiles have distinct ids where required — protocol 47 with keep-alive id 0x00 in BOTH
directions and equal to the (unused) teleport-confirm id. -/
example : p757.cbDistinct = true ∧ p757.sbDistinct = true ∧ p47.cbDistinct = true ∧
    p47.sbDistinct = true ∧ p47.kaSb = p47.teleportConfirmSb := by decide

/-- The demo packets are well-formed and pass the VarInt guard, compressed or not. -/
example : (∀ p ∈ demo757, p.wf p757 = true) ∧ (∀ p ∈ demo47, p.wf p47 = true) := by
  decide +kernel
example : ServerOK Zlib.ident.toZlibOps p757 demoThr demo757 ∧
    ServerOK Zlib.ident.toZlibOps p47 none demo47 ∧
    (∀ p ∈ demo757, FrameOK Zlib.ident.toZlibOps demoThr (serverFields p757 p)) ∧
    (∀ p ∈ demo47, FrameOK Zlib.ident.toZlibOps none (serverFields p47 p)) ∧
    (∀ q ∈ due p757 demo757, FrameOK Zlib.ident.toZlibOps demoThr (replyFields p757 q)) ∧
    (∀ q ∈ due p47 demo47, FrameOK Zlib.ident.toZlibOps demoThr (replyFields p47 q)) := by
  decide +kernel

/-- The server's bytes for protocol 757, threshold 20: `0a 00 21 fffffffffffffffe` keep-alive −2
(Long); `25 24 38 …` position-and-look, compressed-framed (data length 0x24 = 36), teleport id 7,
dismount flag 0; `03 00 7e aa` unknown; the chat message; keep-alive 2; `05 00 1a 02 7b7d`
disconnect "{}"; keep-alive 3. -/
example : hexOfBytes (serverBytes Zlib.ident.toZlibOps demoThr p757 demo757) =
    "0a0021fffffffffffffffe" ++
    "25243840240000000000004050000000000000c00800000000000042b4000000000000000700" ++
    "03007eaa" ++ "06000f027b7d00" ++ "0a00210000000000000002" ++ "05001a027b7d" ++
    "0a00210000000000000003" := by decide +kernel

/-- (a) instantiated: that stream, CFB8-encrypted in two `send` calls and arriving in three segments
that cut through a length prefix and a Double, is decoded to the seven events. -/
example :
    let s := serverBytes Zlib.ident.toZlibOps demoThr p757 demo757
    let c := (encSends (cfb8EncX toyE) [9, 9] [s.take 5, s.drop 5]).2.flatten
    clientRead p757 (cfb8DecX toyE) [9, 9] Zlib.ident.toZlibOps true
        [c.take 1, c.drop 1 |>.take 20, c.drop 21] =
      ([.keepAlive 0xFFFFFFFFFFFFFFFE,
        .posLook 0x4024000000000000 0x4050000000000000 0xC008000000000000 0x42B40000 0 0 7,
        .unknown 0x7E [], .other "chat message", .keepAlive 2, .disconnect, .keepAlive 3], .eof) :=
  client_decodes_server_stream (cfb8Pair toyE) [9, 9] Zlib.ident demoThr p757 demo757 (by decide)
    (by decide +kernel) (by decide +kernel)
    [(serverBytes Zlib.ident.toZlibOps demoThr p757 demo757).take 5,
     (serverBytes Zlib.ident.toZlibOps demoThr p757 demo757).drop 5] (by decide +kernel) _
    (by decide +kernel)

/-- The replies of the two demo runs … -/
example : demoRun p757 demo757 =
    [.keepAlive 0xFFFFFFFFFFFFFFFE, .teleportConfirm 7, .keepAlive 2] := by decide +kernel
example : demoRun p47 demo47 =
    [.keepAlive 0xFFFFFFFE,
     .positionEcho 0x4024000000000000 0x4050000000000000 0xC008000000000000 0x42B40000 0x3F800000
       true, .keepAlive 2] := by decide +kernel

/-- … and the client's plaintext bytes.  757: `0a 00 0f fffffffffffffffe` (keep-alive, the server's
eight bytes), `03 00 00 07` (teleport confirm 7), keep-alive 2.  47, no compression:
`06 00 feffffff0f` (the five VarInt bytes of the Java int −2 come back unchanged), `22 06 …` the
position echo (32 bytes of the request + `01`), `02 00 02`. -/
example : hexOfBytes (clientWire Zlib.ident.toZlibOps demoThr p757 idXform ()
      (demoRun p757 demo757)).flatten =
    "0a000ffffffffffffffffe" ++ "03000007" ++ "0a000f0000000000000002" := by decide +kernel
example : hexOfBytes (clientWire Zlib.ident.toZlibOps none p47 idXform ()
      (demoRun p47 demo47)).flatten =
    "0600feffffff0f" ++
    "220640240000000000004050000000000000c00800000000000042b400003f80000001" ++
    "020002" := by decide +kernel

/-- (c) instantiated: the hypotheses are satisfiable (protocol 47, CFB8, threshold 20, real caps),
and the conclusion for every arrival. -/
example : ∃ r tw, runLoop p47.newer107 true 300 50 (inboxOf demo47) = some r ∧
    runT p47.newer107 true 300 50 (inboxOf demo47) = some tw ∧ tw.map (·.1) = r.wire ∧
    (∀ (last : Bool) (segs : Segs),
      segs.flatten = (clientWireT Zlib.ident.toZlibOps p47 (cfb8Pair toyE).enc [1, 2, 3]
        (thrTags demoThr demo47 tw)).flatten →
      serverDecodeRepliesM p47 (cfb8Pair toyE).dec [1, 2, 3] Zlib.ident.toZlibOps
        ((thrTags demoThr demo47 tw).map (·.2.isSome)) last segs = (r.wire, .eof)) ∧
    ((true = true ∨ hasDiscP demo47 = false) → r.wire = due p47 demo47) :=
  server_recovers_replies (cfb8Pair toyE) [1, 2, 3] Zlib.ident demoThr p47 demo47 true 300 50
    (by decide) (by decide) (by decide +kernel) (by decide +kernel)

/-! #### set compression in the play state (protocol 47) -/

/-- The stream `demo47sc` — keep-alive 1, SET COMPRESSION 20, position-and-look, keep-alive 2, SET
COMPRESSION 1000, keep-alive 3, disconnect — from "no compression": it is well-formed, passes the
guard, and its bytes are `02 00 01` (no data-length field yet), `02 46 14` (the set-compression packet
itself still in the old framing), then `23 22 08 …` (the position-and-look, 34 bytes > 20:
compressed-framed, data length 0x22), `03 00 00 02` (data length 0), `04 00 46 e8 07` (threshold
1000), `03 00 00 03`, `05 00 40 02 7b 7d`. -/
example : (∀ p ∈ demo47sc, p.wf p47 = true) ∧ ServerOK Zlib.ident.toZlibOps p47 none demo47sc ∧
    hexOfBytes (serverBytes Zlib.ident.toZlibOps none p47 demo47sc) =
      "020001" ++ "024614" ++
      "23220840240000000000004050000000000000c00800000000000042b400003f80000000" ++
      "03000002" ++ "040046e807" ++ "03000003" ++ "050040027b7d" ∧
    (List.range 8).map (thrAt none demo47sc) =
      [none, none, some 20, some 20, some 20, some 1000, some 1000, some 1000] := by
  decide +kernel

/-- (a) instantiated on it, byte by byte arrival, no cipher: the reader switches its flag behind the
first set-compression packet (had it not, the fourth frame's `00` would be taken for the packet id)
and hands the reactor the seven events. -/
example : clientRead p47 idXform () Zlib.ident.toZlibOps false
      ((serverBytes Zlib.ident.toZlibOps none p47 demo47sc).map fun b => [b]) =
    ([.keepAlive 1, .other "set compression",
      .posLook 0x4024000000000000 0x4050000000000000 0xC008000000000000 0x42B40000 0x3F800000 0 0,
      .keepAlive 2, .other "set compression", .keepAlive 3, .disconnect], .eof) :=
  client_decodes_plain_stream Zlib.ident none p47 demo47sc (by decide) (by decide +kernel)
    (by decide +kernel) ((serverBytes Zlib.ident.toZlibOps none p47 demo47sc).map fun b => [b])
    (by induction serverBytes Zlib.ident.toZlibOps none p47 demo47sc <;> simp_all)

/-- (b) instantiated: WHEN a reply is written decides its framing, not which packet it answers.  With
the real caps (300/50) all seven packets are read in one batch and the four replies are flushed by
`disconnect()` — after BOTH set-compression packets: all framed under threshold 1000, the reply to
keep-alive 1 (sent before any set compression) included.  With `capR = 2` the loop alternates:
keep-alive 1 is answered after 2 packets (threshold 20, data length 0), the position echo after 3
(34 bytes > 20: compressed-framed, `23 22 06 …`), keep-alive 2 after 4, keep-alive 3 in the final
flush (threshold 1000). -/
example : demoRunT p47 300 50 demo47sc =
      [(.keepAlive 1, 7),
       (.positionEcho 0x4024000000000000 0x4050000000000000 0xC008000000000000 0x42B40000 0x3F800000
          true, 7), (.keepAlive 2, 7), (.keepAlive 3, 7)] ∧
    (demoRunT p47 300 2 demo47sc).map (·.2) = [2, 3, 4, 7] ∧
    (thrTags none demo47sc (demoRunT p47 300 2 demo47sc)).map (·.2) =
      [some 20, some 20, some 20, some 1000] ∧
    hexOfBytes (clientWireT Zlib.ident.toZlibOps p47 idXform ()
        (thrTags none demo47sc (demoRunT p47 300 2 demo47sc))).flatten =
      "03000001" ++ "23220640240000000000004050000000000000c00800000000000042b400003f80000001" ++
      "03000002" ++ "03000003" ∧
    hexOfBytes (clientWireT Zlib.ident.toZlibOps p47 idXform ()
        (thrTags none demo47sc (demoRunT p47 300 50 demo47sc))).flatten =
      "03000001" ++ "23000640240000000000004050000000000000c00800000000000042b400003f80000001" ++
      "03000002" ++ "03000003" := by decide +kernel

/-- (b′) instantiated (`capR = 2`): the position echo is reply 1; the first two packets (keep-alive
1, set compression 20) cause only one reply, so it is written with more than two packets processed —
here three — and therefore under threshold 20, never uncompressed-framed. -/
example : ((demo47sc.take 2).flatMap fun p => replyTo p47.newer107 p.ev).length = 1 ∧
    ((demoRunT p47 300 2 demo47sc).map (·.2))[1]? = some 3 ∧
    thrAt none demo47sc 2 = some 20 ∧ thrAt none demo47sc 3 = some 20 := by decide +kernel

/-- (c)/(end to end) instantiated on it (CFB8 both ways, `capR = 2`): the hypotheses are satisfiable,
and the reference server, told the four flags, recovers the four replies. -/
example : ∃ inbox r tw,
    clientRead p47 (cfb8Pair toyE).dec [9, 9] Zlib.ident.toZlibOps false
      [(encSends (cfb8Pair toyE).enc [9, 9] [serverBytes Zlib.ident.toZlibOps none p47 demo47sc]).2.flatten]
      = (inbox, .eof) ∧
    runLoop p47.newer107 true 300 2 inbox = some r ∧
    runT p47.newer107 true 300 2 inbox = some tw ∧ tw.map (·.1) = r.wire ∧
    r.closed = hasDiscP demo47sc ∧
    ∀ (last : Bool) (segsOut : Segs),
      segsOut.flatten = (clientWireT Zlib.ident.toZlibOps p47 (cfb8Pair toyE).enc [1, 2, 3]
        (thrTags none demo47sc tw)).flatten →
      serverDecodeRepliesM p47 (cfb8Pair toyE).dec [1, 2, 3] Zlib.ident.toZlibOps
        ((thrTags none demo47sc tw).map (·.2.isSome)) last segsOut = (due p47 demo47sc, .eof) :=
  session_end_to_end (cfb8Pair toyE) [9, 9] (cfb8Pair toyE) [1, 2, 3] Zlib.ident none p47 demo47sc
    300 2 (by decide) (by decide) (by decide) (by decide +kernel) (by decide +kernel)
    (by decide +kernel) [serverBytes Zlib.ident.toZlibOps none p47 demo47sc] (by simp) _ (by simp)

/-- A reader that does NOT switch (the model before this revision: one flag for the whole stream)
misreads the same bytes: with the flag off throughout it takes the data-length octet of the fourth
frame for a packet id. -/
example : decodeEach (clientDecode p47)
      (readAll Zlib.ident.toZlibOps false [serverBytes Zlib.ident.toZlibOps none p47 demo47sc]).1
      (readAll Zlib.ident.toZlibOps false [serverBytes Zlib.ident.toZlibOps none p47 demo47sc]).2 ≠
    (inboxOf demo47sc, .eof) := by decide +kernel

/-- (d)/(e) packet level, on concrete raw payloads: a Long keep-alive with trailing garbage, a
non-canonical VarInt keep-alive (`80 00` = 0, echoed as `00`: same number, canonical bytes), and a
protocol-47 position-and-look. -/
example : clientDecode p757 (0x21, [0xff, 0, 0, 0, 0, 0, 0, 1, 0xee]) =
    .ok (.keepAlive 0xff00000000000001) ∧
    (replyFields p757 (.keepAlive 0xff00000000000001)).2 = [0xff, 0, 0, 0, 0, 0, 0, 1] := by
  decide +kernel
example : clientDecode p47 (0x00, [0x80, 0x00]) = .ok (.keepAlive 0) ∧
    (replyFields p47 (.keepAlive 0)).2 = [0x00] ∧ ¬ Canonical [0x80, 0x00] := by
  refine ⟨by decide +kernel, by decide +kernel, ?_⟩
  simp [Canonical, leValue]
example : clientDecode p47 (0x08, (serverFields p47 (demo47.getD 1 (.keepAlive 0))).2) =
    .ok (.posLook 0x4024000000000000 0x4050000000000000 0xC008000000000000 0x42B40000 0x3F800000
      0 0) := by decide +kernel

/-- (e₂) instantiated: the hypotheses of `position_echo_bytes` are satisfiable, and its conclusion
for that payload. -/
example : replyFields p47 (.positionEcho 0x4024000000000000 0x4050000000000000 0xC008000000000000
      0x42B40000 0x3F800000 true) =
    (0x06, ((serverFields p47 (demo47.getD 1 (.keepAlive 0))).2).take 32 ++ [1]) :=
  (position_echo_bytes p47 (by decide) rfl _ _ _ _ _ _ 0 0 (by decide +kernel)).2.2

/-- The echo specification of the protocol-47 demo stream. -/
example : (beforeDiscP demo47).flatMap (echoOf p47) =
    [(0x00, [0xfe, 0xff, 0xff, 0xff, 0x0f]),
     (0x06, [0x40, 0x24, 0, 0, 0, 0, 0, 0, 0x40, 0x50, 0, 0, 0, 0, 0, 0, 0xc0, 0x08, 0, 0, 0, 0, 0, 0,
             0x42, 0xb4, 0, 0, 0x3f, 0x80, 0, 0, 1]),
     (0x00, [0x02])] := by decide +kernel

/-- A packet that is NOT well-formed: an "unknown" packet whose id is the keep-alive id — the client
would decode it as a keep-alive (here: fail on the short payload). -/
example : (SrvPkt.unknown 0x21 [0xaa]).wf p757 = false ∧
    clientDecode p757 (serverFields p757 (.unknown 0x21 [0xaa])) = .error .struct := by
  decide +kernel

end PyCraft.C11Wire
