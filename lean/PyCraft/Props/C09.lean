import PyCraft.Lemmas.Negotiate
/-!
# C09 — Status queries and version negotiation pick the right version or the right error

Only property theorems and non-vacuity examples live here; helper lemmas are in
`Lemmas/Negotiate.lean`.  Every statement is for ALL version tables `env : VEnv`; the only sanity
hypothesis ever used is `Sane env` (every supported protocol has a rank, i.e.
`SUPPORTED_PROTOCOL_VERSIONS ⊆ KNOWN_PROTOCOL_VERSIONS`, which `initglobals` guarantees), and it is
needed only where Python would otherwise raise `TypeError` from `max`.  Python sets are
duplicate-free lists; `rankOf env v` is `PROTOCOL_VERSION_INDICES[v]`.
-/
namespace PyCraft.C09
open PyCraft PyCraft.Neg

/-! ## Negotiation outcome -/

/-- Soundness: the client goes on to log in with version `v` only if the server reported exactly
`v` and `v` is allowed, or the reply carried no version / no protocol key / the server closed
without replying and `v` is the configured default. -/
theorem negotiate_sound (env : VEnv) (allowed : List Nat) (dflt : Nat) (r : StatusReply) (v : Nat)
    (h : evalStatus env allowed dflt r = .connect v) :
    (∃ n name, r = .proto n name ∧ n = (v : Int) ∧ v ∈ allowed) ∨
      ((r = .noVersion ∨ r = .noProtocolKey ∨ r = .closedBeforeReply) ∧ v = dflt) := by
  cases r with
  | proto n name =>
    left
    simp only [evalStatus, handleProtoVersion, versionMismatch] at h
    split at h
    · rename_i hz
      obtain ⟨w, hw, rfl⟩ := (inZ_iff _ _).1 hz
      simp only [Int.toNat_natCast, NegOutcome.connect.injEq] at h
      subst h
      exact ⟨_, name, rfl, rfl, hw⟩
    · cases h
  | noVersion =>
    simp only [evalStatus, handleFailure, handleProtoVersion, NegOutcome.connect.injEq] at h
    exact .inr ⟨.inl rfl, h.symm⟩
  | noProtocolKey =>
    simp only [evalStatus, handleFailure, handleProtoVersion, NegOutcome.connect.injEq] at h
    exact .inr ⟨.inr (.inl rfl), h.symm⟩
  | emptyObj => simp [evalStatus] at h
  | closedBeforeReply =>
    simp only [evalStatus, handleFailure, handleProtoVersion, NegOutcome.connect.injEq] at h
    exact .inr ⟨.inr (.inr rfl), h.symm⟩

/-- Completeness, for every integer the server may report:
(1) an allowed protocol number is accepted as is;
(2) any other integer (negative ones included) yields a version mismatch that carries the
    server's number and name, flagged `supported` exactly when the number is a supported protocol;
(3) replies without a version, without a protocol key, or a closed stream fall back to the default;
(4) the empty status object is rejected as invalid and never leads to a login. -/
theorem negotiate_complete (env : VEnv) (allowed : List Nat) (dflt : Nat) :
    (∀ (n : Nat) name, n ∈ allowed →
        evalStatus env allowed dflt (.proto (n : Int) name) = .connect n) ∧
    (∀ (n : Int) name, (∀ v ∈ allowed, (v : Int) ≠ n) →
        ∃ b, evalStatus env allowed dflt (.proto n name) = .mismatch n name b ∧
          (b = true ↔ ∃ p ∈ env.supportedProtocols, (p : Int) = n)) ∧
    (evalStatus env allowed dflt .noVersion = .connect dflt ∧
      evalStatus env allowed dflt .noProtocolKey = .connect dflt ∧
      evalStatus env allowed dflt .closedBeforeReply = .connect dflt) ∧
    (evalStatus env allowed dflt .emptyObj = .invalidStatus ∧
      ∀ v, evalStatus env allowed dflt .emptyObj ≠ .connect v) := by
  refine ⟨?_, ?_, ⟨rfl, rfl, rfl⟩, rfl, fun v h => by cases h⟩
  · intro n name hn
    have : inZ (n : Int) allowed = true := (inZ_iff _ _).2 ⟨n, hn, rfl⟩
    simp [evalStatus, this, handleProtoVersion]
  · intro n name hn
    have : inZ n allowed = false := by
      cases hz : inZ n allowed with
      | false => rfl
      | true =>
        obtain ⟨w, hw, he⟩ := (inZ_iff _ _).1 hz
        exact absurd he (hn w hw)
    refine ⟨inZ n env.supportedProtocols, ?_, inZ_iff _ _⟩
    simp [evalStatus, this, versionMismatch]

/-- The text of the mismatch error.  When the server's number `n` is not allowed, the error's text
is exactly `Server's protocol version of <n in decimal>[ (<name>)] is not supported.` if `n` is not
a supported protocol, and `… is supported, but not allowed for this connection.` if it is. -/
theorem mismatch_message_correct (env : VEnv) (allowed : List Nat) (dflt : Nat) (n : Int)
    (name : Option String) (hn : ∀ v ∈ allowed, (v : Int) ≠ n) :
    ∃ b, evalStatus env allowed dflt (.proto n name) = .mismatch n name b ∧
      ((∃ p ∈ env.supportedProtocols, (p : Int) = n) →
        mismatchMessage n name b =
          "Server's protocol version of " ++ toString n ++
            (match name with | none => "" | some s => " (" ++ s ++ ")") ++
            " is supported, but not allowed for this connection.") ∧
      ((∀ p ∈ env.supportedProtocols, (p : Int) ≠ n) →
        mismatchMessage n name b =
          "Server's protocol version of " ++ toString n ++
            (match name with | none => "" | some s => " (" ++ s ++ ")") ++
            " is not supported.") := by
  obtain ⟨b, hb, hiff⟩ := (negotiate_complete env allowed dflt).2.1 n name hn
  refine ⟨b, hb, ?_, ?_⟩
  · intro hs
    have : b = true := hiff.2 hs
    subst this
    simp only [mismatchMessage, if_true, String.append_assoc]
    rfl
  · intro hs
    have : b = false := by
      cases b with
      | false => rfl
      | true =>
        obtain ⟨p, hp, he⟩ := hiff.1 rfl
        exact absurd he (hs p hp)
    subst this
    simp only [mismatchMessage, Bool.false_eq_true, if_false, String.append_assoc]
    rfl

/-- The two wordings cannot be confused, whatever the server's number and name are: the message
ends in `" is not supported."` iff the flag says unsupported, and ends in
`" is supported, but not allowed for this connection."` iff the flag says supported. -/
theorem mismatch_message_distinguishes (n : Int) (name : Option String) (b : Bool) :
    (" is not supported.".toList <:+ (mismatchMessage n name b).toList ↔ b = false) ∧
    (" is supported, but not allowed for this connection.".toList
        <:+ (mismatchMessage n name b).toList ↔ b = true) := by
  have key : ∀ (pre : List Char) (s t : List Char), t.length ≤ s.length → ¬ t <:+ s →
      ¬ t <:+ pre ++ s := fun pre s t hl hns h =>
    hns (List.suffix_of_suffix_length_le h (List.suffix_append pre s) hl)
  have key' : ∀ (pre : List Char) (s t : List Char), s.length ≤ t.length → ¬ s <:+ t →
      ¬ t <:+ pre ++ s := fun pre s t hl hns h =>
    hns (List.suffix_of_suffix_length_le (List.suffix_append pre s) h hl)
  cases b with
  | false =>
    have e : (mismatchMessage n name false).toList =
        ("Server's protocol version of " ++ toString n ++
            (match name with | none => "" | some s => " (" ++ s ++ ")")).toList ++
          " is not supported.".toList := by
      rw [← String.toList_append]
      simp only [mismatchMessage, Bool.false_eq_true, if_false, String.append_assoc]
      rfl
    rw [e]
    refine ⟨⟨fun _ => rfl, fun _ => List.suffix_append _ _⟩, ⟨fun h => ?_, fun h => by cases h⟩⟩
    exact absurd h (key' _ _ _ (by decide) (by decide))
  | true =>
    have e : (mismatchMessage n name true).toList =
        ("Server's protocol version of " ++ toString n ++
            (match name with | none => "" | some s => " (" ++ s ++ ")")).toList ++
          " is supported, but not allowed for this connection.".toList := by
      rw [← String.toList_append]
      simp only [mismatchMessage, if_true, String.append_assoc]
      rfl
    rw [e]
    refine ⟨⟨fun h => ?_, fun h => by cases h⟩, ⟨fun _ => rfl, fun _ => List.suffix_append _ _⟩⟩
    exact absurd h (key _ _ _ (by decide) (by decide))

/-! ## When a status query is made -/

/-- With exactly one allowed version no status query is made: `connect()` logs in directly with
that version (whether or not it has a rank — `max` of a singleton compares nothing); and a direct
login happens ONLY for a one-element allowed set. -/
theorem single_no_query (env : VEnv) (allowed : List Nat) :
    (allowed.length = 1 → ∃ v, allowed = [v] ∧ connectPlan env allowed = .ok (.direct v)) ∧
    (∀ v, connectPlan env allowed = .ok (.direct v) → allowed = [v]) := by
  constructor
  · intro h1
    match allowed, h1 with
    | [v], _ => exact ⟨v, rfl, rfl⟩
  · intro v h
    rcases connectPlan_ok env allowed _ h with ⟨w, hw, hp⟩ | ⟨_, w, hp, _⟩
    · cases hp; exact hw
    · cases hp

/-- With two or more allowed versions (all of which have a rank) a status query is made, and its
handshake carries the latest allowed version: a member of the allowed set that is strictly later
than every other member. -/
theorem many_query_latest (env : VEnv) (allowed : List Nat) (h2 : 2 ≤ allowed.length)
    (hr : ∀ a ∈ allowed, a ∈ env.knownOrder) :
    ∃ v, connectPlan env allowed = .ok (.query v) ∧ v ∈ allowed ∧
      ∀ a ∈ allowed, a ≠ v → rankOf env a < rankOf env v := by
  obtain ⟨v, hp, hl⟩ := connectPlan_many env allowed h2 hr
  exact ⟨v, hp, latest_spec env allowed v hl⟩

/-- An empty allowed set makes `connect()` raise `ValueError` (from `max`); two or more versions of
which one has no rank make it raise `TypeError`; there is no other failure. -/
theorem plan_errors (env : VEnv) (allowed : List Nat) (e : Err)
    (h : connectPlan env allowed = .error e) :
    (allowed = [] ∧ e = .value) ∨
      (2 ≤ allowed.length ∧ e = .type ∧ ∃ a ∈ allowed, a ∉ env.knownOrder) := by
  unfold connectPlan at h
  cases hl : latest env allowed with
  | error e' =>
    simp only [hl, Except.error.injEq] at h
    subst h
    exact latest_err env allowed _ hl
  | ok v =>
    simp only [hl] at h
    split at h <;> cases h

/-- After negotiation settles on `v` (server's version or the default), `handle_proto_version`
sets the allowed set to `{v}` and calls `connect()` again: that second call logs in directly with
`v`, with no further status query. -/
theorem followup_direct (env : VEnv) (allowed : List Nat) (dflt : Nat) (r : StatusReply) (v : Nat)
    (_h : evalStatus env allowed dflt r = .connect v) :
    connectPlan env [v] = .ok (.direct v) := connectPlan_single env v

/-! ## Construction -/

/-- What it means for a requested version to be accepted: a `str` must be a key of
`SUPPORTED_MINECRAFT_VERSIONS` whose protocol is supported, an `int` must itself be a supported
protocol number, anything else is refused; and a refusal is always `ValueError`. -/
theorem resolve_spec (env : VEnv) (r : VReq) :
    (∀ v, resolve env r = .ok v ↔
      v ∈ env.supportedProtocols ∧
        (r = .num (v : Int) ∨ ∃ s, r = .name s ∧ dictGet env.supportedNames s = some v)) ∧
    (∀ e, resolve env r = .error e → e = .value) :=
  ⟨resolve_ok_iff env r, resolve_err env r⟩

/-- Unknown or unsupported versions are refused at construction: if any element of
`allowed_versions` does not resolve to a supported protocol, the constructor raises `ValueError`
(whatever `initial_version` is); so does an empty `allowed_versions`; and in a sane environment so
does an `initial_version` that does not resolve. -/
theorem ctor_refuses_unsupported (env : VEnv) :
    (∀ reqs initial, (∃ r ∈ reqs, ∀ v, resolve env r ≠ .ok v) →
        ctor env (some reqs) initial = .error .value) ∧
    (∀ initial, ctor env (some []) initial = .error .value) ∧
    (Sane env → ∀ allowed r, (∀ v, resolve env r ≠ .ok v) →
        ctor env allowed (some r) = .error .value) := by
  refine ⟨?_, ?_, ?_⟩
  · intro reqs initial hbad
    simp [ctor, allowedSet, resolveAll_bad env reqs hbad]
  · intro initial
    have : toSet env [] = [] := (toSet_eq_nil env []).2 rfl
    simp [ctor, allowedSet, resolveAll, this, latest]
  · intro hsane allowed r hbad
    cases h : ctor env allowed (some r) with
    | ok cfg =>
      exact absurd ((ctor_ok env allowed _ cfg h).2.2.2 r rfl) (hbad _)
    | error e =>
      rcases ctor_err env allowed _ e h with ha | ⟨al, ha, hl⟩ | ⟨r', hr', he⟩
      · rw [allowedSet_err env allowed e ha]
      · rcases latest_err env al e hl with ⟨_, he⟩ | ⟨_, _, a, ha', hna⟩
        · rw [he]
        · exact absurd (hsane a (allowedSet_sub env allowed al ha a ha')) hna
      · rw [resolve_err env r' e he]

/-- In a sane environment the constructor's only failure is `ValueError`. -/
theorem ctor_error_kind (env : VEnv) (hsane : Sane env) (allowed : Option (List VReq))
    (initial : Option VReq) (e : Err) (h : ctor env allowed initial = .error e) : e = .value := by
  rcases ctor_err env allowed _ e h with ha | ⟨al, ha, hl⟩ | ⟨r', _, he⟩
  · exact allowedSet_err env allowed e ha
  · rcases latest_err env al e hl with ⟨_, he⟩ | ⟨_, _, a, ha', hna⟩
    · exact he
    · exact absurd (hsane a (allowedSet_sub env allowed al ha a ha')) hna
  · exact resolve_err env r' e he

/-- What a successful construction guarantees: the allowed set is a non-empty duplicate-free
subset of the supported protocols, consisting exactly of the resolved requests (or of all supported
protocols when `allowed_versions is None`); the default is a supported protocol; the context
version is the latest allowed version (a member, strictly later than every other member); the
default equals it when no `initial_version` was given, and is the resolved `initial_version`
otherwise — which need NOT be a member of the allowed set. -/
theorem ctor_ok_spec (env : VEnv) (allowed : Option (List VReq)) (initial : Option VReq)
    (cfg : Cfg) (h : ctor env allowed initial = .ok cfg) :
    cfg.allowed.Nodup ∧ cfg.allowed ≠ [] ∧
    (∀ v ∈ cfg.allowed, v ∈ env.supportedProtocols) ∧
    (allowed = none → ∀ v, v ∈ cfg.allowed ↔ v ∈ env.supportedProtocols) ∧
    (∀ reqs, allowed = some reqs → ∀ v, v ∈ cfg.allowed ↔ ∃ r ∈ reqs, resolve env r = .ok v) ∧
    cfg.default ∈ env.supportedProtocols ∧
    cfg.ctx ∈ cfg.allowed ∧
    (∀ a ∈ cfg.allowed, a ≠ cfg.ctx → rankOf env a < rankOf env cfg.ctx) ∧
    (initial = none → cfg.default = cfg.ctx) ∧
    (∀ r, initial = some r → resolve env r = .ok cfg.default) := by
  obtain ⟨ha, hl, hd1, hd2⟩ := ctor_ok env allowed initial cfg h
  obtain ⟨hnd, hs1, hs2⟩ := allowedSet_ok env allowed cfg.allowed ha
  obtain ⟨hmem, hmax⟩ := latest_spec env cfg.allowed cfg.ctx hl
  have hsub := allowedSet_sub env allowed cfg.allowed ha
  refine ⟨hnd, ?_, hsub, hs1, hs2, ?_, hmem, hmax, hd1, hd2⟩
  · intro hnil
    rw [hnil] at hmem
    cases hmem
  · cases initial with
    | none => rw [hd1 rfl]; exact hsub _ hmem
    | some r => exact ((resolve_ok_iff env r _).1 (hd2 r rfl)).1

/-- Construction succeeds whenever it should: in a sane environment, if `allowed_versions` is
`None` and something is supported, or is a non-empty collection all of whose elements resolve, and
`initial_version` is `None` or resolves, then the constructor returns. -/
theorem ctor_succeeds (env : VEnv) (hsane : Sane env) (allowed : Option (List VReq))
    (initial : Option VReq)
    (ha : match allowed with
      | none => env.supportedProtocols ≠ []
      | some reqs => reqs ≠ [] ∧ ∀ r ∈ reqs, ∃ v, resolve env r = .ok v)
    (hi : ∀ r, initial = some r → ∃ v, resolve env r = .ok v) :
    ∃ cfg, ctor env allowed initial = .ok cfg := by
  cases h : ctor env allowed initial with
  | ok cfg => exact ⟨cfg, rfl⟩
  | error e =>
    exfalso
    rcases ctor_err env allowed _ e h with hal | ⟨al, hal, hl⟩ | ⟨r', hr', he⟩
    · cases allowed with
      | none => simp [allowedSet] at hal
      | some reqs =>
        obtain ⟨l, hl⟩ := resolveAll_good env reqs ha.2
        simp [allowedSet, hl] at hal
    · rcases latest_err env al e hl with ⟨hnil, _⟩ | ⟨_, _, a, ha', hna⟩
      · subst hnil
        cases allowed with
        | none =>
          simp only [allowedSet, Except.ok.injEq] at hal
          exact ha ((toSet_eq_nil env _).1 hal)
        | some reqs =>
          simp only [allowedSet] at hal
          cases hr : resolveAll env reqs with
          | error e' => simp [hr] at hal
          | ok l =>
            simp only [hr, Except.ok.injEq] at hal
            have hl0 := (toSet_eq_nil env _).1 hal
            subst hl0
            match reqs, ha.1, hr with
            | r :: rs, _, hr =>
              simp only [resolveAll] at hr
              cases h1 : resolve env r with
              | error _ => simp [h1] at hr
              | ok w =>
                cases h2 : resolveAll env rs with
                | error _ => simp [h1, h2] at hr
                | ok vs => simp [h1, h2] at hr
      · exact hna (hsane a (allowedSet_sub env allowed al hal a ha'))
    · obtain ⟨v, hv⟩ := hi r' hr'
      rw [hv] at he
      cases he

/-- In a sane environment whose rank table has no repeats, the allowed set produced by the
constructor is listed in ascending rank (it is a sub-list of `KNOWN_PROTOCOL_VERSIONS`) — the
canonical form printed by the driver. -/
theorem ctor_allowed_sorted (env : VEnv) (hsane : Sane env) (hk : env.knownOrder.Nodup)
    (allowed : Option (List VReq)) (initial : Option VReq) (cfg : Cfg)
    (h : ctor env allowed initial = .ok cfg) : cfg.allowed.Sublist env.knownOrder := by
  obtain ⟨ha, _⟩ := ctor_ok env allowed initial cfg h
  have key : ∀ l, (∀ x ∈ l, x ∈ env.supportedProtocols) → (toSet env l).Sublist env.knownOrder := by
    intro l hl
    rw [toSet_eq_filter env l hk (fun x hx => hsane x (hl x hx))]
    exact List.filter_sublist
  cases allowed with
  | none =>
    simp only [allowedSet, Except.ok.injEq] at ha
    rw [← ha]
    exact key _ (fun _ hx => hx)
  | some reqs =>
    simp only [allowedSet] at ha
    cases hr : resolveAll env reqs with
    | error e => simp [hr] at ha
    | ok l =>
      simp only [hr, Except.ok.injEq] at ha
      rw [← ha]
      apply key
      intro x hx
      obtain ⟨r, _, hrx⟩ := (resolveAll_ok env reqs l hr x).1 hx
      exact ((resolve_ok_iff env r x).1 hrx).1

/-! ## What goes on the wire -/

/-- Every TCP connection `connect()` opens starts with a handshake carrying the configured host
and port, followed either by a login start (next state 2) naming the authenticated profile if there
is an auth token and the configured user name otherwise, or by a status request (next state 1) whose
handshake carries the latest allowed version.  If the outcome is `connect v`, the LAST connection
is `[handshake(v, host, port, 2), login start]` — the chosen protocol number is the one in the
handshake.  If the outcome is an error, the only connection is the status query: no login start is
ever sent. -/
theorem handshake_fields (env : VEnv) (p : ConnParams) (allowed : List Nat) (dflt : Nat)
    (r : StatusReply) (s : Session) (h : session env p allowed dflt r = .ok s) :
    (∀ fr ∈ s.conns, ∃ hs rest, fr = .handshake hs :: rest ∧ hs.host = p.host ∧ hs.port = p.port ∧
        ((hs.next = 2 ∧ rest = [.loginStart (loginName p)]) ∨
         (hs.next = 1 ∧ rest = [.statusRequest] ∧ latest env allowed = .ok hs.proto))) ∧
    (∀ v, s.outcome = .connect v →
        s.conns.getLast? = some [.handshake ⟨v, p.host, p.port, 2⟩, .loginStart (loginName p)]) ∧
    ((∀ v, s.outcome ≠ .connect v) →
        ∃ q, s.conns = [[.handshake ⟨q, p.host, p.port, 1⟩, .statusRequest]]) ∧
    (loginName p = match p.authProfile with | some a => some a | none => p.username) := by
  have hq : ∀ q, connectPlan env allowed = .ok (.query q) → latest env allowed = .ok q := by
    intro q hp
    rcases connectPlan_ok env allowed _ hp with ⟨_, _, hc⟩ | ⟨_, w, hw, hl⟩
    · cases hc
    · cases hw; exact hl
  have hD : ∀ v, ∃ hs rest, firstFrames p (.direct v) = .handshake hs :: rest ∧ hs.host = p.host ∧
      hs.port = p.port ∧ ((hs.next = 2 ∧ rest = [.loginStart (loginName p)]) ∨
        (hs.next = 1 ∧ rest = [.statusRequest] ∧ latest env allowed = .ok hs.proto)) :=
    fun v => ⟨⟨v, p.host, p.port, 2⟩, _, rfl, rfl, rfl, .inl ⟨rfl, rfl⟩⟩
  have hQ : ∀ q, latest env allowed = .ok q →
      ∃ hs rest, firstFrames p (.query q) = .handshake hs :: rest ∧ hs.host = p.host ∧
      hs.port = p.port ∧ ((hs.next = 2 ∧ rest = [.loginStart (loginName p)]) ∨
        (hs.next = 1 ∧ rest = [.statusRequest] ∧ latest env allowed = .ok hs.proto)) :=
    fun q h => ⟨⟨q, p.host, p.port, 1⟩, _, rfl, rfl, rfl, .inr ⟨rfl, rfl, h⟩⟩
  unfold session at h
  cases hp : connectPlan env allowed with
  | error e => simp [hp] at h
  | ok plan =>
    cases plan with
    | direct v =>
      simp only [hp, Except.ok.injEq] at h
      subst h
      refine ⟨?_, ?_, ?_, rfl⟩
      · intro fr hfr
        simp only [List.mem_singleton] at hfr
        subst hfr
        exact hD v
      · intro v' hv'
        cases hv'
        rfl
      · intro hno
        exact absurd rfl (hno v)
    | query q =>
      have hq' := hq q hp
      simp only [hp] at h
      cases ho : evalStatus env allowed dflt r with
      | connect v =>
        simp only [ho, connectPlan_single, Except.ok.injEq] at h
        subst h
        refine ⟨?_, ?_, ?_, rfl⟩
        · intro fr hfr
          simp only [List.mem_cons, List.not_mem_nil, or_false] at hfr
          rcases hfr with rfl | rfl
          · exact hQ q hq'
          · exact hD v
        · intro v' hv'
          cases hv'
          rfl
        · intro hno
          exact absurd rfl (hno v)
      | mismatch n nm b =>
        simp only [ho, Except.ok.injEq] at h
        subst h
        refine ⟨?_, ?_, ?_, rfl⟩
        · intro fr hfr
          simp only [List.mem_singleton] at hfr
          subst hfr
          exact hQ q hq'
        · intro v' hv'
          cases hv'
        · intro _
          exact ⟨q, rfl⟩
      | invalidStatus =>
        simp only [ho, Except.ok.injEq] at h
        subst h
        refine ⟨?_, ?_, ?_, rfl⟩
        · intro fr hfr
          simp only [List.mem_singleton] at hfr
          subst hfr
          exact hQ q hq'
        · intro v' hv'
          cases hv'
        · intro _
          exact ⟨q, rfl⟩

/-- The session's outcome is the negotiation outcome: with one allowed version it is `connect`
that version on a single connection; otherwise it is `evalStatus` of the server's reply, reached
after exactly one status-query connection, plus one login connection iff the outcome is `connect`. -/
theorem session_outcome (env : VEnv) (p : ConnParams) (allowed : List Nat) (dflt : Nat)
    (r : StatusReply) (s : Session) (h : session env p allowed dflt r = .ok s) :
    (∃ v, allowed = [v] ∧ s.outcome = .connect v ∧ s.conns.length = 1) ∨
    (2 ≤ allowed.length ∧ s.outcome = evalStatus env allowed dflt r ∧
      s.conns.length = (match s.outcome with | .connect _ => 2 | _ => 1)) := by
  unfold session at h
  cases hp : connectPlan env allowed with
  | error e => simp [hp] at h
  | ok plan =>
    rcases connectPlan_ok env allowed _ hp with ⟨v, hv, hc⟩ | ⟨h2, w, hw, _⟩
    · subst hc
      simp only [hp, Except.ok.injEq] at h
      subst h
      exact .inl ⟨v, hv, rfl, rfl⟩
    · subst hw
      simp only [hp] at h
      right
      cases ho : evalStatus env allowed dflt r with
      | connect v =>
        simp only [ho, connectPlan_single, Except.ok.injEq] at h
        subst h
        exact ⟨h2, rfl, rfl⟩
      | mismatch n nm b =>
        simp only [ho, Except.ok.injEq] at h
        subst h
        exact ⟨h2, rfl, rfl⟩
      | invalidStatus =>
        simp only [ho, Except.ok.injEq] at h
        subst h
        exact ⟨h2, rfl, rfl⟩

/-! ## Plain status query -/

/-- Status query WITHOUT latency: for a server that answers with a response (followed by anything
at all), the handler gets that status exactly once, no ping is sent, no latency is reported, the
connection is closed by exactly one `disconnect`, the exit callback runs exactly once, nothing
sent after the response is reacted to, and no clock reading is taken. -/
theorem status_once_noping (j : String) (extra : List StatusPkt) (clock : List Nat) :
    runStatus false (.response j :: extra) clock =
      some ⟨[.disconnect, .handleStatus j], true, 1⟩ := by
  simp [runStatus, runLoop, usesTimer, react, StatusSt.init, StatusSt.disc, runLoop_interrupted]

/-- Status query WITH latency, compliant server (`response`, then a pong echoing the ping's time):
the handler gets the status exactly once, exactly one ping is sent (stamped with the first clock
reading), the latency handler is called exactly once with `second reading − first reading`, which
is non-negative for a monotone clock; then exactly one `disconnect`, exit callback exactly once,
and nothing sent after the pong is reacted to. -/
theorem status_once_ping (j : String) (extra : List StatusPkt) (t₁ t₂ : Nat) (clock : List Nat)
    (hmono : t₁ ≤ t₂) :
    runStatus true (.response j :: .pong (t₁ : Int) :: extra) (t₁ :: t₂ :: clock) =
      some ⟨[.sendPing t₁, .handleStatus j, .disconnect, .handlePing ((t₂ : Int) - t₁)], true, 1⟩ ∧
    (0 : Int) ≤ (t₂ : Int) - t₁ := by
  refine ⟨?_, by omega⟩
  simp [runStatus, runLoop, usesTimer, react, StatusSt.init, StatusSt.disc, runLoop_interrupted]

/-- `status_once` in one statement, for the compliant script `[response] ++ [pong if doPing]`:
`handleStatus` occurs exactly once, `sendPing` and `handlePing` occur iff latency was requested,
exactly one `disconnect`, the connection ends closed and the exit callback ran exactly once. -/
theorem status_once (doPing : Bool) (j : String) (extra : List StatusPkt) (t₁ t₂ : Nat)
    (clock : List Nat) (hmono : t₁ ≤ t₂) :
    ∃ run, runStatus doPing
        (.response j :: ((if doPing then [StatusPkt.pong (t₁ : Int)] else []) ++ extra))
        (t₁ :: t₂ :: clock) = some run ∧
      run.acts.count (.handleStatus j) = 1 ∧
      (∀ j', Act.handleStatus j' ∈ run.acts → j' = j) ∧
      run.acts.count .disconnect = 1 ∧
      ((∃ t, Act.sendPing t ∈ run.acts) ↔ doPing = true) ∧
      ((∃ l, Act.handlePing l ∈ run.acts) ↔ doPing = true) ∧
      (∀ l, Act.handlePing l ∈ run.acts → l = (t₂ : Int) - t₁ ∧ 0 ≤ l) ∧
      run.closed = true ∧ run.exitCalls = 1 := by
  cases doPing with
  | false =>
    refine ⟨_, by simpa using status_once_noping j extra (t₁ :: t₂ :: clock), ?_⟩
    simp
  | true =>
    refine ⟨_, by simpa using (status_once_ping j extra t₁ t₂ clock hmono).1, ?_⟩
    simp
    omega

/-- Whatever the server sends (any packets, any pong times, any clock): at most one `disconnect`
is ever issued, the exit callback runs at most once, and it runs exactly when the connection was
closed, which is exactly when a `disconnect` was issued. -/
theorem status_any_script (doPing : Bool) (script : List StatusPkt) (clock : List Nat)
    (run : StatusRun) (h : runStatus doPing script clock = some run) :
    (run.closed = false ∧ run.exitCalls = 0 ∧ run.acts.count .disconnect = 0) ∨
      (run.closed = true ∧ run.exitCalls = 1 ∧ run.acts.count .disconnect = 1) := by
  unfold runStatus at h
  cases hl : runLoop doPing StatusSt.init script clock with
  | none => simp [hl] at h
  | some r =>
    obtain ⟨st, acts⟩ := r
    simp only [hl, Option.some.injEq] at h
    subst h
    rcases runLoop_inv doPing script clock _ st acts rfl hl with ⟨rfl, hc⟩ | ⟨rfl, hc⟩
    · left; exact ⟨rfl, rfl, hc⟩
    · right; exact ⟨rfl, rfl, hc⟩

/-- Pings only if latency was requested: with `handle_ping=False` no ping is ever sent and no
latency is ever reported, whatever the server sends. -/
theorem status_no_ping_unless_requested (script : List StatusPkt) (clock : List Nat)
    (run : StatusRun) (h : runStatus false script clock = some run) :
    ∀ a ∈ run.acts, (∀ t, a ≠ .sendPing t) ∧ (∀ l, a ≠ .handlePing l) := by
  unfold runStatus at h
  cases hl : runLoop false StatusSt.init script clock with
  | none => simp [hl] at h
  | some r =>
    obtain ⟨st, acts⟩ := r
    simp only [hl, Option.some.injEq] at h
    subst h
    exact runLoop_noping script clock _ st acts hl

/-! ## Non-vacuity -/

/-- A small but non-trivial environment: three supported versions among seven known ones. -/
def envEx : VEnv :=
  { supportedNames := [("1.8.9", 47), ("1.12.2", 340), ("1.16.4", 754)]
    supportedProtocols := [47, 340, 754]
    knownOrder := [4, 5, 47, 107, 340, 498, 754] }

def paramsEx : ConnParams := ⟨"mc.example.org", 25565, some "steve", none⟩

example : Sane envEx := by decide
example : envEx.knownOrder.Nodup := by decide
-- construction
example : ctor envEx none none = .ok ⟨[47, 340, 754], 754, 754⟩ := by decide
example : ctor envEx (some [.name "1.12.2", .num 47, .num 47]) none = .ok ⟨[47, 340], 340, 340⟩ := by
  decide
example : ctor envEx (some [.num 340, .num 47]) (some (.num 754)) = .ok ⟨[47, 340], 754, 340⟩ := by
  decide  -- a default outside the allowed set is accepted
example : ctor envEx (some [.num 47, .num 498]) none = .error .value := by decide
example : ctor envEx (some [.num 47, .other]) none = .error .value := by decide
example : ctor envEx (some [.name "1.9"]) none = .error .value := by decide
example : ctor envEx (some []) none = .error .value := by decide
example : ctor envEx none (some (.num (-1))) = .error .value := by decide
-- plans
example : connectPlan envEx [340] = .ok (.direct 340) := by decide
example : connectPlan envEx [47, 340, 754] = .ok (.query 754) := by decide
example : connectPlan envEx [] = .error .value := by decide
example : connectPlan envEx [47, 999] = .error .type := by decide
-- outcomes
example : evalStatus envEx [47, 340] 340 (.proto 47 (some "1.8.9")) = .connect 47 := by decide
example : evalStatus envEx [47, 340] 340 (.proto 754 (some "1.16.4")) =
    .mismatch 754 (some "1.16.4") true := by decide
example : evalStatus envEx [47, 340] 340 (.proto 498 none) = .mismatch 498 none false := by decide
example : evalStatus envEx [47, 340] 340 (.proto (-3) none) = .mismatch (-3) none false := by decide
example : evalStatus envEx [47, 340] 340 .noVersion = .connect 340 := by decide
example : evalStatus envEx [47, 340] 340 .closedBeforeReply = .connect 340 := by decide
example : evalStatus envEx [47, 340] 340 .emptyObj = .invalidStatus := by decide
example : mismatchMessage 754 (some "1.16.4") true =
    "Server's protocol version of 754 (1.16.4) is supported, but not allowed for this connection." := by
  decide
example : mismatchMessage (-3) none false = "Server's protocol version of -3 is not supported." := by
  decide
-- sessions
example : session envEx paramsEx [47, 340] 340 (.proto 47 (some "1.8.9")) =
    .ok ⟨[[.handshake ⟨340, "mc.example.org", 25565, 1⟩, .statusRequest],
          [.handshake ⟨47, "mc.example.org", 25565, 2⟩, .loginStart (some "steve")]],
         .connect 47⟩ := by decide
example : session envEx { paramsEx with authProfile := some "Alex" } [340] 340 .emptyObj =
    .ok ⟨[[.handshake ⟨340, "mc.example.org", 25565, 2⟩, .loginStart (some "Alex")]],
         .connect 340⟩ := by decide
-- status runs
example : runStatus true [.response "{}", .pong 1000, .response "x"] [1000, 1042] =
    some ⟨[.sendPing 1000, .handleStatus "{}", .disconnect, .handlePing 42], true, 1⟩ := by decide
example : runStatus false [.response "{}", .pong 7] [] =
    some ⟨[.disconnect, .handleStatus "{}"], true, 1⟩ := by decide
example : runStatus true [.other, .response "{}"] [5] =
    some ⟨[.sendPing 5, .handleStatus "{}"], false, 0⟩ := by decide

end PyCraft.C09
