import PyCraft.Lemmas.Login
/-!
# C10 — login completes correctly for every order of optional server steps

Only property theorems and non-vacuity examples live here; helper lemmas are in `Lemmas/Login.lean`.

A run of the client is `exec P .init steps` for a list of `Step`s (`flush` = write phase of one
networking-loop iteration, `recv e` = read and react to one packet). The theorems quantify over
ALL step lists — every order, choice and number of server packets and every placement of the
write phases — and over all parameters `P` (RSA, secret, hash function, token present or not, JSON
text extraction, plugin handler). `runLogin P cap script` is the regular schedule "flush, up to
`cap` reads, flush, …, final flush"; statements that need the final flush are made about it.

"`pre` contains no terminal event" (`∀ e ∈ events pre, e.isTerminal = false`) says the packet under
consideration is actually reached: no login-success or disconnect packet came before it.
-/
namespace PyCraft.C10
open PyCraft PyCraft.Login

/-- Every encryption request that is reached is answered immediately (forced write) with an
EncryptionResponse whose `shared_secret` slot holds RSA(secret) and whose `verify_token` slot holds
RSA(token) under the server's key — so the holder of the matching private key recovers exactly the
secret and the token. That frame is written with the cipher/compression state in force BEFORE the
request (plaintext, and everything before it plaintext, if this is the first request); directly
after the reply both directions are encrypted, they stay encrypted whatever follows, and EVERY
frame written later — however the write phases fall — is encrypted. -/
theorem enc_reply_then_encrypted (P : LoginParams) (pre post : List Step) (sid : String)
    (pk tok : Bytes) (hpre : ∀ e ∈ events pre, e.isTerminal = false) :
    let s0 := exec P .init pre
    let s1 := exec P .init (pre ++ [.recv (.encRequest sid pk tok)])
    let s2 := exec P .init (pre ++ .recv (.encRequest sid pk tok) :: post)
    s1.outbox = s0.outbox ++
        [⟨.encResp (P.rsa.enc pk P.secret) (P.rsa.enc pk tok), s0.encrypted, s0.threshold, true⟩] ∧
    (∀ priv, P.rsa.matching pk priv →
        P.rsa.dec priv (P.rsa.enc pk P.secret) = P.secret ∧ P.rsa.dec priv (P.rsa.enc pk tok) = tok) ∧
    ((∀ e ∈ events pre, e.isEncRequest = false) →
        s0.encrypted = false ∧ ∀ f ∈ s0.outbox, f.encrypted = false) ∧
    s1.encrypted = true ∧ s2.encrypted = true ∧
    ∃ later, s2.outbox = s1.outbox ++ later ∧ ∀ f ∈ later, f.encrypted = true := by
  intro s0 s1 s2
  have hal : s0.alive = true := exec_alive P .init pre init_alive hpre
  have h1 : s1 = react P s0 (.encRequest sid pk tok) := by
    show exec P .init (pre ++ [_]) = _
    rw [exec_snoc, step_recv_alive P _ _ hal]
  have h2 : s2 = exec P s1 post := by
    show exec P .init (pre ++ _ :: post) = _
    rw [exec_mid, h1, step_recv_alive P _ _ hal]
  obtain ⟨ho, he⟩ := react_encRequest P s0 sid pk tok
  obtain ⟨he2, later, hl, hf⟩ := exec_encrypted P s1 post (h1 ▸ he)
  refine ⟨h1 ▸ ho, fun priv hm => ⟨P.rsa.law pk priv _ hm, P.rsa.law pk priv _ hm⟩, ?_, h1 ▸ he,
    h2 ▸ he2, later, h2 ▸ hl, hf⟩
  intro hne
  obtain ⟨hp, l, hlo, hlf⟩ := exec_plain P .init pre hne
  refine ⟨hp, ?_⟩
  intro f hf
  have : f ∈ l := by
    have : s0.outbox = [] ++ l := hlo
    rw [List.nil_append] at this
    exact this ▸ hf
  exact hlf f this

/-- A reached set-compression packet with threshold `t` makes `t` the threshold in force, and every
frame written from then on — until another set-compression packet arrives — is framed with
threshold `some t`; the frames written earlier are untouched (they keep the mode they were written
with). -/
theorem threshold_applies_after (P : LoginParams) (pre mid : List Step) (t : Int)
    (hpre : ∀ e ∈ events pre, e.isTerminal = false)
    (hmid : ∀ e ∈ events mid, e.isSetCompression = false) :
    let s0 := exec P .init pre
    let s1 := exec P .init (pre ++ .recv (.setCompression t) :: mid)
    s1.threshold = some t ∧
    ∃ later, s1.outbox = s0.outbox ++ later ∧ ∀ f ∈ later, f.threshold = some t := by
  intro s0 s1
  have hal : s0.alive = true := exec_alive P .init pre init_alive hpre
  have h1 : s1 = exec P { s0 with threshold := some t } mid := by
    show exec P .init (pre ++ _ :: mid) = _
    rw [exec_mid, step_recv_alive P _ _ hal]; rfl
  obtain ⟨ht, later, hl, hf⟩ := exec_threshold P { s0 with threshold := some t } mid hmid
  exact ⟨h1 ▸ ht, later, h1 ▸ hl, hf⟩

/-- As long as no set-compression packet has arrived, compression is disabled and every frame is
written uncompressed-framed. -/
theorem threshold_none_before (P : LoginParams) (steps : List Step)
    (h : ∀ e ∈ events steps, e.isSetCompression = false) :
    (exec P .init steps).threshold = none ∧ ∀ f ∈ (exec P .init steps).outbox, f.threshold = none := by
  obtain ⟨ht, later, hl, hf⟩ := exec_threshold P .init steps h
  refine ⟨ht, ?_⟩
  have : (exec P .init steps).outbox = [] ++ later := hl
  rw [List.nil_append] at this
  intro f hfm; exact hf f (this ▸ hfm)

/-- The answer a plugin request must get: same message id; unsuccessful and without payload unless
the user's handler took over, in which case the handler's (successful) answer replaces it. -/
theorem plugin_reply_shape (P : LoginParams) (i : Nat) (c : String) (d : Bytes) :
    expectedPluginReply P (.pluginRequest i c d) =
      some (.plugResp i (P.handler i c d).isSome (P.handler i c d)) := by
  simp only [expectedPluginReply, pluginReply]
  cases P.handler i c d <;> rfl

/-- For every run: the plugin responses written so far followed by those still queued are exactly
the answers to the plugin requests the reactor reached, in order, one each — so what is already on
the wire is a prefix of that list (nothing duplicated, nothing reordered, nothing invented). -/
theorem plugin_answered_once_any (P : LoginParams) (steps : List Step) :
    let s := exec P .init steps
    ((s.outbox.map (·.pkt) ++ s.queue).filter ClientPkt.isPlugResp =
      (processed (events steps)).filterMap (expectedPluginReply P)) ∧
    ((s.outbox.map (·.pkt)).filter ClientPkt.isPlugResp <+:
      (processed (events steps)).filterMap (expectedPluginReply P)) := by
  intro s
  have h := plugin_exec P .init steps init_alive
  have h0 : ClientState.init.pluginTrace = [] := rfl
  rw [h0, List.nil_append] at h
  refine ⟨h, ?_⟩
  rw [← h]
  simp only [ClientState.pluginTrace, List.filter_append]
  exact List.prefix_append _ _

/-- For a complete run (any batch size `cap`, any script) that is not cut short by a disconnect
packet: the queue is empty at the end and the plugin responses ON THE WIRE are exactly the answers
to the plugin requests received before login success, in order, each exactly once. -/
theorem plugin_answered_once (P : LoginParams) (cap : Nat) (script : List LoginEv)
    (h : ∀ e ∈ processed script, e.isDisconnect = false) :
    let s := runLogin P cap script
    s.queue = [] ∧
    (s.outbox.map (·.pkt)).filter ClientPkt.isPlugResp =
      (processed script).filterMap (expectedPluginReply P) := by
  intro s
  have herr : s.err = none := by
    show (exec P .init (schedule cap script)).err = none
    rw [err_exec P .init _ init_alive, events_schedule, List.findSome?_eq_none_iff]
    intro e he
    have := h e he
    cases e <;> simp_all [errOf, LoginEv.isDisconnect]
  obtain ⟨pre, hp⟩ := sched_ends_flush cap 0 script
  have hq : s.queue = [] := by
    show (exec P .init (schedule cap script)).queue = []
    unfold schedule at herr ⊢
    show (exec P .init (sched cap 0 script)).queue = []
    have herr' : (exec P .init (sched cap 0 script)).err = none := herr
    rw [hp] at herr' ⊢
    exact queue_after_flush P .init pre herr'
  refine ⟨hq, ?_⟩
  have := (plugin_answered_once_any P (schedule cap script)).1
  rw [events_schedule] at this
  rw [← this]
  show _ = List.filter _ (List.map _ s.outbox ++ s.queue)
  rw [hq, List.append_nil]

/-- Login success, once reached, puts the client in the play state without an error; a run in
which neither success nor disconnect has arrived is still in the login state without an error. -/
theorem success_enters_play (P : LoginParams) (pre post steps : List Step)
    (hpre : ∀ e ∈ events pre, e.isTerminal = false)
    (hsteps : ∀ e ∈ events steps, e.isTerminal = false) :
    ((exec P .init (pre ++ .recv .success :: post)).reactor = .play ∧
     (exec P .init (pre ++ .recv .success :: post)).err = none) ∧
    ((exec P .init steps).reactor = .login ∧ (exec P .init steps).err = none) := by
  refine ⟨⟨?_, ?_⟩, ?_, ?_⟩
  · rw [reactor_exec P .init _ init_alive, events_mid,
      processed_append_terminal _ _ _ hpre rfl]
    simp
  · rw [err_exec P .init _ init_alive, events_mid,
      processed_append_terminal _ _ _ hpre rfl, List.findSome?_eq_none_iff]
    intro e he
    rcases List.mem_append.1 he with h | h
    · have := hpre e h; cases e <;> simp_all [errOf, LoginEv.isTerminal]
    · simp at h; subst h; rfl
  · rw [reactor_exec P .init _ init_alive, processed_of_live _ hsteps]
    have : ¬ LoginEv.success ∈ events steps := by
      intro he; have := hsteps _ he
      simp [LoginEv.isTerminal] at this
    simp [this]
  · rw [err_exec P .init _ init_alive, processed_of_live _ hsteps, List.findSome?_eq_none_iff]
    intro e he; have := hsteps e he
    cases e <;> simp_all [errOf, LoginEv.isTerminal]

/-- A disconnect packet that is reached during login never ends silently: processing stops right
there (whatever the server sends afterwards changes nothing, the client stays out of the play
state) and an error is recorded. With `msg` the JSON `text` member if there is one (a string), else
the raw payload: the error is `VersionMismatch` carrying `ver` exactly when `msg` is one of
"Outdated client! Please use " / "Outdated server! I'm still on " followed by the non-empty
whitespace-free `ver` (and at most one final newline), and `LoginDisconnect` carrying `msg` exactly
when it has no such form (a `text` member that is not a string counts as absent). -/
theorem disconnect_surfaces (P : LoginParams) (pre post : List Step) (j : String)
    (hpre : ∀ e ∈ events pre, e.isTerminal = false) :
    let s := exec P .init (pre ++ .recv (.disconnect j) :: post)
    let msg := match P.jsonText j with | .str t => t | _ => j
    s = exec P .init (pre ++ [.recv (.disconnect j)]) ∧
    s.err ≠ none ∧ s.reactor = .login ∧
    (∀ ver, s.err = some (.versionMismatch ver) ↔ Outdated msg ver) ∧
    (s.err = some (.loginDisconnect msg) ↔ ∀ ver, ¬ Outdated msg ver) ∧
    (∀ m, s.err = some (.loginDisconnect m) → m = msg) := by
  intro s msg
  have hal : (exec P .init pre).alive = true := exec_alive P .init pre init_alive hpre
  have hs : s = { exec P .init pre with err := some (classifyDisconnect P j) } := by
    show exec P .init (pre ++ _ :: post) = _
    rw [exec_mid, step_recv_alive P _ _ hal]
    exact exec_err P _ post rfl
  have hs1 : exec P .init (pre ++ [.recv (.disconnect j)]) =
      { exec P .init pre with err := some (classifyDisconnect P j) } := by
    rw [exec_snoc, step_recv_alive P _ _ hal]; rfl
  have herr : s.err = some (classifyDisconnect P j) := by rw [hs]
  have hre : s.reactor = .login := by
    rw [hs]
    simp only [ClientState.alive, Bool.and_eq_true] at hal
    cases hr : (exec P .init pre).reactor <;> simp_all
  refine ⟨hs.trans hs1.symm, by rw [herr]; simp, hre, ?_⟩
  · have hc := classify_str P j
    have hmsg : disconnectMessage P j = msg := rfl
    rw [hmsg] at hc
    rw [herr, hc]
    cases ho : outdatedVersion msg with
    | some v =>
      have hv := (outdatedVersion_eq_some msg v).1 ho
      refine ⟨?_, ?_, ?_⟩
      · intro ver
        constructor
        · intro h; simp at h; subst h; exact hv
        · intro h
          have := (outdatedVersion_eq_some msg ver).2 h
          rw [ho] at this; simp at this; subst this; rfl
      · constructor
        · intro h; simp at h
        · intro h; exact absurd hv (h v)
      · intro m h; simp at h
    | none =>
      have hnone := (outdatedVersion_eq_none msg).1 ho
      refine ⟨?_, ?_, ?_⟩
      · intro ver
        constructor
        · intro h; simp at h
        · intro h; exact absurd h (hnone ver)
      · exact ⟨fun _ => hnone, fun _ => rfl⟩
      · intro m h; simp at h; exact h.symm

/-- `auth_token.join` is called exactly for the reached encryption requests whose server id is not
"-" while a token is present — once per such request, in order — with the verification hash of
(server id, the fresh secret, the server's public key); the last such hash is `joined`. -/
theorem join_iff (P : LoginParams) (steps : List Step) :
    (exec P .init steps).joins = (processed (events steps)).filterMap (expectedJoin P) ∧
    (exec P .init steps).joined = ((processed (events steps)).filterMap (expectedJoin P)).getLast? ∧
    (∀ sid pk tok h, expectedJoin P (.encRequest sid pk tok) = some h ↔
      (sid ≠ "-" ∧ P.hasToken = true ∧ h = P.hash sid P.secret pk)) ∧
    (∀ e, e.isEncRequest = false → expectedJoin P e = none) := by
  have h := joins_exec P .init steps init_alive
  have h0 : ClientState.init.joins = [] := rfl
  rw [h0, List.nil_append] at h
  refine ⟨h, by rw [ClientState.joined, h], ?_, ?_⟩
  · intro sid pk tok hh
    simp only [expectedJoin]
    by_cases h1 : sid = "-" <;> by_cases h2 : P.hasToken = true <;> simp [h1, h2, eq_comm]
  · intro e he; cases e <;> simp_all [expectedJoin, LoginEv.isEncRequest]

/-! ### Non-vacuity: concrete runs (kernel-evaluated) -/

/-- compress → encrypt → plugin → success, one packet per loop iteration. -/
example :
    runLogin demoParams 1
      [.setCompression 256, .encRequest "srv" [7, 8] [9], .pluginRequest 5 "ch" [1], .success] =
    { encrypted := true, threshold := some 256, reactor := .play, queue := [],
      outbox := [⟨.encResp [7, 1, 2, 3] [7, 9], false, some 256, true⟩,
                 ⟨.plugResp 5 false none, true, some 256, false⟩],
      joins := ["srv/010203/0708"], err := none } := by decide +kernel

/-- The same packets in ONE batch with the plugin request first: the forced encryption response
overtakes the queued plugin response, which is then written encrypted and compressed-framed. -/
example :
    (runLogin demoParams 50
      [.pluginRequest 5 "ch" [1], .setCompression 256, .encRequest "-" [7, 8] [9], .success]).outbox =
    [⟨.encResp [7, 1, 2, 3] [7, 9], false, some 256, true⟩,
     ⟨.plugResp 5 false none, true, some 256, false⟩] := by decide +kernel

/-- Disconnect with an "Outdated server" text, then more packets: version mismatch, nothing else
processed. -/
example :
    (runLogin demoParams 1
      [.setCompression 1, .disconnect "{\"text\": \"Outdated server! I'm still on 1.8.9\"}",
       .success]).err = some (.versionMismatch "1.8.9") ∧
    (runLogin demoParams 1
      [.setCompression 1, .disconnect "{\"text\": \"Outdated server! I'm still on 1.8.9\"}",
       .success]).reactor = .login := by decide +kernel

example : (runLogin demoParams 1 [.disconnect "Server is full"]).err =
    some (.loginDisconnect "Server is full") := by decide +kernel

example : (runLogin demoParams 1 [.disconnect "{\"text\": 5}"]).err =
    some (.loginDisconnect "{\"text\": 5}") := by decide +kernel

/-- The hypotheses of the theorems are satisfiable by non-trivial values. -/
example : ∀ e ∈ events [.flush, .recv (.setCompression 256), .recv (.pluginRequest 1 "c" []), .flush],
    e.isTerminal = false := by decide

example : ∀ e ∈ events [.recv (.pluginRequest 1 "c" []), .flush, .recv .success],
    e.isSetCompression = false := by decide

example : ∀ e ∈ processed [.pluginRequest 1 "c" [], .encRequest "-" [] [], .success, .disconnect "x"],
    e.isDisconnect = false := by decide

example : Outdated "Outdated client! Please use 1.16.4\n" "1.16.4" :=
  (outdatedVersion_eq_some _ _).1 (by decide +kernel)

example : ∀ ver, ¬ Outdated "Outdated client! Please use 1.16 .4" ver :=
  (outdatedVersion_eq_none _).1 (by decide +kernel)

end PyCraft.C10
