import PyCraft.Lemmas.Lifecycle
/-!
# C16 — connection lifecycle: one active thread, clean refusal, always reusable

Model: `Model/Lifecycle.lean` (a deterministic transition system driven by a schedule; one atomic
action per step).  Every theorem below is for ALL server behaviour lists `env`, ALL user programs
`progs` (any number of user threads, any API calls), ALL reconnect budgets `rl`, `rh` of the
listener / exception handler, and ALL schedules `sched : List Tid` of any length (entries that are
not enabled are skipped).

Vocabulary: `s := run env (init progs rl rh) sched` is an arbitrary reachable state;
`atCall s t op` = thread `t` (a user thread, or a networking thread inside a reaction, listener or
exception handler) is about to acquire the lock and execute the body of the API call `op`
(the final `disconnect(immediate=True)` of `_handle_exception` is NOT such a call: it is part of the
locked check-and-cleanup block `hChk`, see `handler_cleanup_spares_new_connection`);
`pendingOut s1 t` = the outcome of the call whose body `t` has just executed;
`s.shared` = the attributes `(networking_thread, new_networking_thread, socket, file_object,
connected, #connection attempts, #thread objects)`; `SameThreads s s1 t` = no thread object was
created, interrupted or moved except that `t` itself advanced; `NPc.ioPhase` = the phases
io / handling / epilogue; `target s` = `new_networking_thread or networking_thread`.

Only property theorems and non-vacuity examples live here; helper lemmas are in `Lemmas/`.
-/
namespace PyCraft.C16
open PyCraft PyCraft.Life

/-- `step_inv`: the invariant `LInv` (lock discipline, slot ownership, predecessor chain, open
socket for the uninterrupted thread) is preserved by every atomic step of every thread. -/
theorem step_inv (env : List Beh) (s s' : Sys) (t : Tid) (h : LInv s)
    (hs : step env s t = some s') : LInv s' :=
  Life.step_inv env s s' t h hs

/-- `run_inv`: hence it holds in every reachable state. -/
theorem run_inv (env : List Beh) (progs : List (List Op)) (rl rh : Nat) (sched : List Tid) :
    LInv (run env (init progs rl rh) sched) :=
  reach_inv env progs rl rh sched

/-- `at_most_one_io_thread`: in every reachable state at most one networking thread is in an
I/O-performing phase (io, handling, epilogue); that thread is the one in the
`networking_thread` slot, unless it is just releasing the lock at the end of its epilogue. -/
theorem at_most_one_io_thread (env : List Beh) (progs : List (List Op)) (rl rh : Nat)
    (sched : List Tid) :
    let s := run env (init progs rl rh) sched
    (∀ i j, (s.net i).pc.ioPhase = true → (s.net j).pc.ioPhase = true → i = j) ∧
    (∀ i, (s.net i).pc.ioPhase = true → s.nt = some i ∨ (s.net i).pc = .epRel) := by
  intro s
  have h := reach_inv env progs rl rh sched
  exact ⟨io_unique s h, fun i hi => (ioPhase_cases _ hi).imp (h.nt_iff i).mpr id⟩

/-- `waiting_thread_no_io`: a networking thread that is still waiting for its predecessor, or is
taking over the slot, has no I/O event in the log. -/
theorem waiting_thread_no_io (env : List Beh) (progs : List (List Op)) (rl rh : Nat)
    (sched : List Tid) (i : Nat) (e : Ev) :
    let s := run env (init progs rl rh) sched
    (Tid.net i, e) ∈ s.log → e.isIO = true →
      (s.net i).pc.phase ≠ .unborn ∧ (s.net i).pc.phase ≠ .waitingPrev ∧
      (s.net i).pc.phase ≠ .takeOver := by
  intro s hm he
  have := (reach_loginv env progs rl rh sched).no_io_pre i e hm he
  revert this
  cases (s.net i).pc
  case call site => cases site <;> simp [NPc.preIO, NPc.phase]
  case callRel site out => cases site <;> simp [NPc.preIO, NPc.phase]
  all_goals simp [NPc.preIO, NPc.phase]

/-- `io_events_separated`: any two I/O events in the log of a reachable state that were performed
by different networking threads are separated by the `fin` event of the first thread (the event
with which it leaves its `finally` block and enters phase `done`). -/
theorem io_events_separated (env : List Beh) (progs : List (List Op)) (rl rh : Nat)
    (sched : List Tid) (l1 l2 l3 : List (Tid × Ev)) (i j : Nat) (e1 e2 : Ev) :
    let s := run env (init progs rl rh) sched
    s.log = l1 ++ (Tid.net i, e1) :: l2 ++ (Tid.net j, e2) :: l3 →
    e1.isIO = true → e2.isIO = true → i ≠ j → (Tid.net i, Ev.fin) ∈ l2 := by
  intro s hs h1 h2 hij
  exact (reach_loginv env progs rl rh sched).sep l1 l2 l3 i j e1 e2 hs h1 h2 hij

/-- `active_refuses`: if `connect()` / `status()` is called (by any thread) in a reachable state
where `networking_thread` is an uninterrupted thread or `new_networking_thread` is set, then the
body of the call returns `InvalidState` without touching the connection (no socket replaced, no
connection attempt, no thread created, interrupted or moved); the caller then releases the lock
(always enabled) and everything except the caller's own progress is as before the call. -/
theorem active_refuses (env : List Beh) (progs : List (List Op)) (rl rh : Nat)
    (sched : List Tid) (t : Tid) (op : Op) :
    let s := run env (init progs rl rh) sched
    op.isConn = true → atCall s t op →
    ((∃ i, s.nt = some i ∧ (s.net i).intr = false) ∨ s.newNt ≠ none) →
    ∀ s1, step env s t = some s1 →
      pendingOut s1 t = some .invalidState ∧ s1.shared = s.shared ∧ SameThreads s s1 t ∧
      ∃ s2, step env s1 t = some s2 ∧ s2.shared = s.shared ∧ SameThreads s s2 t ∧
        s2.owner = none ∧ s2.depth = 0 ∧
        (∀ u, t = .user u → (s2.usr u).outs = (s.usr u).outs ++ [.invalidState]) := by
  intro s hop hat hbusy s1 hs1
  have h := reach_inv env progs rl rh sched
  have hb : busy s = true := (busy_iff s).mpr hbusy
  obtain ⟨-, hp, hsh, -, -, hst, -, -, -, houts⟩ := call_step env s s1 t op hat hs1
  have hbody : body env s op = (s, .invalidState) := by
    obtain ⟨sb, ob, hbd⟩ : ∃ sb ob, body env s op = (sb, ob) := ⟨_, _, rfl⟩
    rw [hbd]
    rcases body_cases env s op sb ob hbd with ⟨-, -, e1, e2⟩ | ⟨-, hb', -⟩ | ⟨-, hb', -⟩ |
      ⟨p, -, hb', -⟩ | ⟨hop', -⟩
    · rw [e1, e2]
    all_goals simp_all
  rw [hbody] at hp hsh hst
  obtain ⟨s2, hs2, hsh2, ho2, hd2, hst2, hu2, -⟩ :=
    release_step env s1 t .invalidState (Life.step_inv env s s1 t h hs1) hp
  refine ⟨hp, hsh, hst, s2, hs2, hsh2.trans hsh, hst.trans hst2, ho2, hd2, ?_⟩
  intro u hu
  rw [(hu2 u hu).1, houts u hu]

/-- `reusable_after_end`: if `connect()` / `status()` is called — by a user thread or by the
networking thread itself from a listener or exception handler — in a reachable state where the
connection has ended (`new_networking_thread` is empty and the thread in the
`networking_thread` slot, if any, is interrupted), the call is NOT refused with `InvalidState`:
it makes exactly one connection attempt; if the server refuses, the caller gets the refusal, the
socket is left unconnected and no thread is created; otherwise the call succeeds, the new socket
and stream are installed and EXACTLY ONE thread object is created (uninterrupted; directly in the
slot if the slot was empty, else as the successor of the interrupted holder), all other threads
being untouched. -/
theorem reusable_after_end (env : List Beh) (progs : List (List Op)) (rl rh : Nat)
    (sched : List Tid) (t : Tid) (op : Op) :
    let s := run env (init progs rl rh) sched
    op.isConn = true → atCall s t op →
    s.newNt = none → (∀ i, s.nt = some i → (s.net i).intr = true) →
    ∀ s1, step env s t = some s1 →
      s1.conns = s.conns + 1 ∧
      (env.getD s.conns .accept = .refuse →
        pendingOut s1 t = some .refused ∧ s1.socket = .unconnected ∧
        s1.nthreads = s.nthreads ∧ s1.nt = s.nt ∧ s1.newNt = none ∧ SameThreads s s1 t) ∧
      (env.getD s.conns .accept ≠ .refuse →
        pendingOut s1 t = some .ok ∧ s1.socket = .open s.conns ∧ s1.file = .open s.conns ∧
        s1.connected = true ∧ s1.nthreads = s.nthreads + 1 ∧
        (s.net s.nthreads).pc = .unborn ∧ (s1.net s.nthreads).intr = false ∧
        (∀ j, j ≠ s.nthreads → (s1.net j).intr = (s.net j).intr ∧
          (s1.net j).prev = (s.net j).prev ∧ (t ≠ .net j → (s1.net j).pc = (s.net j).pc)) ∧
        ((s.nt = none ∧ s1.nt = some s.nthreads ∧ s1.newNt = none ∧
            (s1.net s.nthreads).pc = .loopChk ∧ (s1.net s.nthreads).prev = none) ∨
         (∃ p, s.nt = some p ∧ s1.nt = some p ∧ s1.newNt = some s.nthreads ∧
            (s1.net s.nthreads).pc = .waitPrev ∧ (s1.net s.nthreads).prev = some p))) := by
  intro s hop hat hnew hnt s1 hs1
  have h := reach_inv env progs rl rh sched
  have hb : busy s = false := by
    cases hbs : busy s with
    | false => rfl
    | true =>
      rcases (busy_iff s).mp hbs with ⟨i, h1, h2⟩ | h1
      · rw [hnt i h1] at h2; cases h2
      · exact absurd hnew h1
  have hne := atCall_ne_new s h t op hat
  have hborn : (s.net s.nthreads).pc = .unborn := (h.born _).mpr (Nat.le_refl _)
  obtain ⟨-, hp, hsh, -, -, hst, -, -, -, -⟩ := call_step env s s1 t op hat hs1
  obtain ⟨sb, ob, hbd⟩ : ∃ sb ob, body env s op = (sb, ob) := ⟨_, _, rfl⟩
  simp only [hbd, Sys.shared, Shared.mk.injEq] at hsh hp hst
  obtain ⟨e1, e2, e3, e4, e5, e6, e7⟩ := hsh
  rcases body_cases env s op sb ob hbd with ⟨-, hb', -⟩ | ⟨-, -, henv, b1, b2⟩ |
    ⟨-, -, henv, hn, b1, b2⟩ | ⟨p, -, -, henv, hn, b1, b2⟩ | ⟨hop', -⟩
  · rw [hb] at hb'; cases hb'
  · rw [b1] at e1 e2 e3 e4 e5 e6 e7 hst; rw [b2] at hp
    refine ⟨e6, fun _ => ⟨hp, e3, e7, e1, e2.trans hnew, hst⟩, fun hc => absurd henv hc⟩
  · rw [b1] at e1 e2 e3 e4 e5 e6 e7 hst; rw [b2] at hp
    refine ⟨e6, fun hc => absurd hc henv, fun _ => ⟨hp, e3, e4, e5, e7, hborn, ?_, ?_, Or.inl ?_⟩⟩
    · rw [(hst s.nthreads).1]; simp [directSt, updN]
    · intro j hj
      obtain ⟨a, b, c⟩ := hst j
      refine ⟨by rw [a]; simp [directSt, updN, hj], by rw [b]; simp [directSt, updN, hj],
        fun ht => by rw [c ht]; simp [directSt, updN, hj]⟩
    · refine ⟨hn, e1, e2.trans hnew, ?_, ?_⟩
      · rw [(hst s.nthreads).2.2 hne]; simp [directSt, updN]
      · rw [(hst s.nthreads).2.1]; simp [directSt, updN]
  · rw [b1] at e1 e2 e3 e4 e5 e6 e7 hst; rw [b2] at hp
    refine ⟨e6, fun hc => absurd hc henv, fun _ => ⟨hp, e3, e4, e5, e7, hborn, ?_, ?_, Or.inr ?_⟩⟩
    · rw [(hst s.nthreads).1]; simp [succSt, updN]
    · intro j hj
      obtain ⟨a, b, c⟩ := hst j
      refine ⟨by rw [a]; simp [succSt, updN, hj], by rw [b]; simp [succSt, updN, hj],
        fun ht => by rw [c ht]; simp [succSt, updN, hj]⟩
    · refine ⟨p, hn, e1.trans hn, e2, ?_, ?_⟩
      · rw [(hst s.nthreads).2.2 hne]; simp [succSt, updN]
      · rw [(hst s.nthreads).2.1]; simp [succSt, updN]
  · rw [hop] at hop'; cases hop'

/-- `disconnect_total`: `disconnect(immediate)` called by any thread in ANY reachable state (any
number of times: the statement is about an arbitrary reachable state) is enabled as soon as the
lock is available, and its outcome is a normal return — it never raises.  Afterwards the socket
is `None`, `connected` is false, the slots and counters are unchanged, the thread selected by
`new_networking_thread or networking_thread` is interrupted, nobody else's flag changes, and
EVERY thread occupying a slot is interrupted. -/
theorem disconnect_total (env : List Beh) (progs : List (List Op)) (rl rh : Nat)
    (sched : List Tid) (t : Tid) (imm : Bool) :
    let s := run env (init progs rl rh) sched
    atCall s t (.disconnect imm) →
    (canAcq s t = true → ∃ s1, step env s t = some s1) ∧
    ∀ s1, step env s t = some s1 →
      pendingOut s1 t = some .ok ∧ s1.socket = .none ∧ s1.connected = false ∧
      s1.nt = s.nt ∧ s1.newNt = s.newNt ∧ s1.nthreads = s.nthreads ∧ s1.conns = s.conns ∧
      (∀ j, target s = some j → (s1.net j).intr = true) ∧
      (∀ j, target s ≠ some j → (s1.net j).intr = (s.net j).intr) ∧
      (∀ j, s1.nt = some j ∨ s1.newNt = some j → (s1.net j).intr = true) := by
  intro s hat
  have h := reach_inv env progs rl rh sched
  refine ⟨call_enabled env s t _ hat, fun s1 hs1 => ?_⟩
  obtain ⟨-, hp, hsh, -, -, hst, -, -, -, -⟩ := call_step env s s1 t _ hat hs1
  simp only [Sys.shared, Shared.mk.injEq] at hsh
  obtain ⟨e1, e2, e3, e4, e5, e6, e7⟩ := hsh
  have hbody : body env s (.disconnect imm) = (discSt s, .ok) := by
    simp [body, doDisconnect_eq, discSt]
  rw [hbody] at e1 e2 e3 e4 e5 e6 e7 hst hp
  have hI : ∀ j, target s = some j → (s1.net j).intr = true := by
    intro j hj; rw [(hst j).1]; simp [discSt, dnet, hj]
  have hK : ∀ j, target s ≠ some j → (s1.net j).intr = (s.net j).intr := by
    intro j hj; rw [(hst j).1]; simp [discSt, dnet, hj]
  refine ⟨hp, e3, e5, e1, e2, e7, e6, hI, hK, ?_⟩
  intro j hj
  have e1' : s1.nt = s.nt := e1
  have e2' : s1.newNt = s.newNt := e2
  rw [e1', e2'] at hj
  cases hnew : s.newNt with
  | some k =>
    rcases hj with hj | hj
    · -- `j` holds the slot while a successor exists: it is the (interrupted) predecessor
      obtain ⟨p, -, hp2, -, -, hp5⟩ := h.prev_ok k ((h.new_iff k).mp hnew)
      have hpj : p = j := by
        rcases hp5 with hp5 | hp5
        · rw [hj] at hp5; cases hp5; rfl
        · rw [hj] at hp5; cases hp5
      subst hpj
      by_cases htg : target s = some p
      · exact hI p htg
      · rw [hK p htg]; exact hp2
    · exact hI j (by rw [hnew] at hj; cases hj; simp [target, hnew])
  | none =>
    rcases hj with hj | hj
    · exact hI j (by simp [target, hnew, hj])
    · rw [hnew] at hj; cases hj

/-- `interrupt_is_permanent_and_bounds_steps`: once a thread object is interrupted, then under ANY
continuation of the schedule it stays interrupted, and it executes at most `rank ≤ 23` more
actions (`stepsOf` counts its executed schedule entries); `rank = 0` means dead. -/
theorem interrupt_is_permanent_and_bounds_steps (env : List Beh) (progs : List (List Op))
    (rl rh : Nat) (sched more : List Tid) (j : Nat) :
    let s := run env (init progs rl rh) sched
    (s.net j).pc ≠ .unborn → (s.net j).intr = true →
      ((run env s more).net j).intr = true ∧
      ((run env s more).net j).pc.rank + stepsOf env s (.net j) more ≤ (s.net j).pc.rank ∧
      (s.net j).pc.rank ≤ 23 ∧
      (((run env s more).net j).pc.rank = 0 ↔ ((run env s more).net j).pc = .dead) := by
  intro s hb hi
  obtain ⟨a, -, c⟩ := rank_run env more j s (reach_inv env progs rl rh sched) hb hi
  exact ⟨a, c, rank_le _, rank_zero _⟩

/-- `never_stuck`: in a reachable state, a live networking thread that is not enabled is blocked
either by the lock holder — who is enabled, and whose step frees the lock — or, being a waiting
successor, by its predecessor, which is a different, existing, interrupted, not yet dead thread
(to which this theorem and the previous one apply again; the predecessor itself is not waiting). -/
theorem never_stuck (env : List Beh) (progs : List (List Op)) (rl rh : Nat)
    (sched : List Tid) (j : Nat) :
    let s := run env (init progs rl rh) sched
    (s.net j).pc ≠ .unborn → (s.net j).pc ≠ .dead → step env s (.net j) = none →
      (∃ t, s.owner = some t ∧ t ≠ .net j ∧ ∃ s', step env s t = some s' ∧ s'.owner = none) ∨
      ((s.net j).pc = .waitPrev ∧ ∃ p, (s.net j).prev = some p ∧ p ≠ j ∧
        (s.net p).pc ≠ .dead ∧ (s.net p).pc ≠ .unborn ∧ (s.net p).pc.waiting = false ∧
        (s.net p).intr = true) := by
  intro s hb hd hst
  have h := reach_inv env progs rl rh sched
  rcases blocked_cases env s h j hb hd hst with ⟨t, h1, h2⟩ | ⟨h1, p, h2, h3, h4, h5, h6⟩
  · exact Or.inl ⟨t, h1, h2, owner_enabled env s h t h1⟩
  · refine Or.inr ⟨h1, p, h2, h3, h4, h5, ?_, h6⟩
    cases hw : (s.net p).pc.waiting with
    | false => rfl
    | true =>
      have e1 := (h.new_iff p).mpr hw
      have e2 := (h.new_iff j).mpr (by rw [h1]; rfl)
      rw [e1] at e2; cases e2; exact absurd rfl h3

/-- `can_always_terminate`: from every reachable state there is a continuation of at most 47
schedule entries after which a given interrupted thread is dead. -/
theorem can_always_terminate (env : List Beh) (progs : List (List Op)) (rl rh : Nat)
    (sched : List Tid) (j : Nat) :
    let s := run env (init progs rl rh) sched
    (s.net j).pc ≠ .unborn → (s.net j).intr = true →
      ∃ more, more.length ≤ 47 ∧ ((run env s more).net j).pc = .dead := by
  intro s hb hi
  exact can_terminate env s (reach_inv env progs rl rh sched) j hb hi

/-
FULL STATEMENT (not proved): after a `disconnect()` call completes, on every FAIR infinite
continuation of the schedule (every thread is scheduled infinitely often) the networking thread(s)
that occupied the slots eventually reach `dead`.

What is proved (`…_partial`): after the body of a `disconnect()` call, every thread `j` occupying
a slot (1) is interrupted and stays so under ANY finite continuation `more`, (2) executes at most
`rank ≤ 23` further actions in `more`, is dead iff its rank is 0, (3) in every later state can be
driven to its death by some continuation of at most 47 entries; together with `never_stuck`
(whenever it is not enabled, a specific enabled thread — the lock holder — or its interrupted,
live, non-waiting predecessor is what it waits for).  MISSING: the liveness argument proper, i.e.
infinite schedules, a fairness assumption and a global variant showing that the lock cannot be
withheld from the thread for ever (user programs are finite and every other looping thread is a
successor that waits for this one); no such infinite-schedule semantics is defined here.
-/
/-- `disconnect_leads_to_termination_partial`: see the comment above. -/
theorem disconnect_leads_to_termination_partial (env : List Beh) (progs : List (List Op))
    (rl rh : Nat) (sched : List Tid) (t : Tid) (imm : Bool) :
    let s := run env (init progs rl rh) sched
    atCall s t (.disconnect imm) → ∀ s1, step env s t = some s1 →
    ∀ j, s1.nt = some j ∨ s1.newNt = some j →
      (s1.net j).intr = true ∧ (s1.net j).pc.rank ≤ 23 ∧
      ∀ more,
        ((run env s1 more).net j).intr = true ∧
        ((run env s1 more).net j).pc.rank + stepsOf env s1 (.net j) more ≤ (s1.net j).pc.rank ∧
        (((run env s1 more).net j).pc.rank = 0 ↔ ((run env s1 more).net j).pc = .dead) ∧
        ∃ more', more'.length ≤ 47 ∧
          ((run env (run env s1 more) more').net j).pc = .dead := by
  intro s hat s1 hs1 j hj
  have h := reach_inv env progs rl rh sched
  have h1 := Life.step_inv env s s1 t h hs1
  have hi := ((disconnect_total env progs rl rh sched t imm hat).2 s1 hs1).2.2.2.2.2.2.2.2.2 j hj
  have hb : (s1.net j).pc ≠ .unborn := by
    intro hc
    rcases hj with hj | hj
    · have := (h1.nt_iff j).mp hj; rw [hc] at this; cases this
    · have := (h1.new_iff j).mp hj; rw [hc] at this; cases this
  refine ⟨hi, rank_le _, fun more => ?_⟩
  obtain ⟨a, b, c⟩ := rank_run env more j s1 h1 hb hi
  exact ⟨a, c, rank_zero _, can_terminate env _ (Life.run_inv env s1 h1 more) j b a⟩

/-- `write_never_fails`: in a reachable state, an uninterrupted thread in the slot (in particular
one about to execute its write phase) finds a connected socket together with its own stream, and
`_handle_exception` never finds both slots empty (no `AttributeError` on `None.interrupt`). -/
theorem write_never_fails (env : List Beh) (progs : List (List Op)) (rl rh : Nat)
    (sched : List Tid) (i : Nat) :
    let s := run env (init progs rl rh) sched
    (s.nt = some i → (s.net i).intr = false → ∃ c, s.socket = .open c ∧ s.file = .open c) ∧
    ((s.net i).pc = .hChk → target s ≠ none) := by
  intro s
  have h := reach_inv env progs rl rh sched
  refine ⟨fun hn hi => ?_, fun hpc => ?_⟩
  · have := h.live_open i (Or.inl ((h.nt_iff i).mp hn)) hi
    revert this
    cases s.socket <;> cases s.file <;> simp [linked]
    exact fun hc => hc.symm
  · have hni : s.nt = some i := (h.nt_iff i).mpr (by rw [hpc]; rfl)
    cases hn : s.newNt <;> simp [target, hn, hni]

/-- `handler_cleanup_spares_new_connection`: in every reachable state (i.e. for all schedules), if
a `connect()` — by another thread, or by an exception handler — has completed before the failing
thread `i` executes the final block of `_handle_exception` (so `new_networking_thread` is the new,
uninterrupted thread `j`), then that block does NOT disconnect: the socket, the stream,
`connected`, the slots and the counters are unchanged, the new thread is not interrupted, no
thread is created, interrupted or moved; thread `i` merely proceeds to the end of the block. -/
theorem handler_cleanup_spares_new_connection (env : List Beh) (progs : List (List Op))
    (rl rh : Nat) (sched : List Tid) (i j : Nat) :
    let s := run env (init progs rl rh) sched
    (s.net i).pc = .hChk → s.newNt = some j → (s.net j).intr = false →
    ∀ s1, step env s (.net i) = some s1 →
      s1.shared = s.shared ∧ SameThreads s s1 (.net i) ∧ (s1.net j).intr = false ∧
      (s1.net i).pc = .hRel ∧ s1.owner = some (.net i) := by
  intro s hpc hnew hj s1 hs1
  have htg : target s = some j := by simp [target, hnew]
  obtain ⟨-, ho, hp, h | h | h⟩ := hchk_step env s s1 i hpc hs1
  · obtain ⟨k, hk, hki, -⟩ := h
    rw [htg] at hk; cases hk; rw [hj] at hki; cases hki
  · obtain ⟨k, -, -, hsh, hst⟩ := h
    exact ⟨hsh, hst, by rw [(hst j).1]; exact hj, hp, ho⟩
  · rw [htg] at h; cases h.1

/-- `handler_cleanup_is_atomic`: the final block of `_handle_exception` reads the flag of
`new_networking_thread or networking_thread` and, exactly when it is set, executes the body of
`disconnect(immediate=True)` in the SAME action (under the lock, which a concurrent `connect()`
holds throughout): afterwards the socket is `None`, `connected` is false, the slots are unchanged
and the selected thread is interrupted.  Nothing can happen between the test and the cleanup. -/
theorem handler_cleanup_is_atomic (env : List Beh) (progs : List (List Op))
    (rl rh : Nat) (sched : List Tid) (i j : Nat) :
    let s := run env (init progs rl rh) sched
    (s.net i).pc = .hChk → target s = some j → (s.net j).intr = true →
    ∀ s1, step env s (.net i) = some s1 →
      s1.socket = .none ∧ s1.connected = false ∧ s1.nt = s.nt ∧ s1.newNt = s.newNt ∧
      s1.nthreads = s.nthreads ∧ s1.conns = s.conns ∧ (s1.net j).intr = true ∧
      (s1.net i).pc = .hRel ∧ s1.owner = some (.net i) := by
  intro s hpc htg hj s1 hs1
  obtain ⟨-, ho, hp, h | h | h⟩ := hchk_step env s s1 i hpc hs1
  · obtain ⟨k, hk, -, hsh, hst⟩ := h
    simp only [Sys.shared, Shared.mk.injEq, discSt] at hsh
    obtain ⟨e1, e2, e3, -, e5, e6, e7⟩ := hsh
    refine ⟨e3, e5, e1, e2, e7, e6, ?_, hp, ho⟩
    rw [(hst j).1]; simp [discSt, dnet, htg]
  · obtain ⟨k, hk, hki, -⟩ := h
    rw [htg] at hk; cases hk; rw [hj] at hki; cases hki
  · rw [htg] at h; cases h.1

/-! ### Non-vacuity -/

/-- Two user threads: `A` = user 0 runs connect, disconnect, connect; `B` = user 1 runs connect,
disconnect. -/
def exProgs : List (List Op) :=
  [[.connect, .disconnect false, .connect], [.connect, .disconnect false]]

/-- `A` runs its three calls before the first networking thread notices anything, `B`'s connect is
refused, and the first networking thread then leaves through its epilogue. -/
def exSched : List Tid :=
  [.user 0, .user 0, .user 0, .user 0, .user 0, .user 0, .user 1, .user 1,
   .net 0, .net 0, .net 0, .net 0]

/-- The schedule reaches a state with TWO networking threads alive: thread 0 in phase `done`
(after its `finally` block, not yet dead), thread 1 still waiting for it; `A` got ok, ok, ok and
`B` was refused with `InvalidState`; no schedule entry was skipped. -/
example :
    let s := run [] (init exProgs 0 0) exSched
    (s.net 0).pc.phase = .done ∧ (s.net 1).pc.phase = .waitingPrev ∧
    (s.net 0).pc.alive = true ∧ (s.net 1).pc.alive = true ∧ s.nthreads = 2 ∧
    (s.usr 0).outs = [.ok, .ok, .ok] ∧ (s.usr 1).outs = [.invalidState] ∧
    skipped [] (init exProgs 0 0) exSched = 0 := by decide

/-- … and the continuation lets thread 0 die, thread 1 take over, `B` disconnect and thread 1 run
to its death: everything terminates, the slot is empty, the socket closed. -/
example :
    let s := run [] (init exProgs 0 0)
      (exSched ++ [.net 0, .net 1, .net 1, .net 1, .user 1, .user 1] ++ List.replicate 6 (.net 1))
    (s.net 0).pc = .dead ∧ (s.net 1).pc = .dead ∧ s.nt = none ∧ s.newNt = none ∧
    s.socket = .none ∧ s.connected = false ∧ (s.usr 1).outs = [.invalidState, .ok] ∧
    s.owner = none := by decide

/-- Hypotheses of `active_refuses`: after `A`'s first connect (`exSched.take 2`) `B` is at its
`connect()` call and the slot holds an uninterrupted thread. -/
example :
    let s := run [] (init exProgs 0 0) (exSched.take 2)
    atCall s (.user 1) .connect ∧ (∃ i, s.nt = some i ∧ (s.net i).intr = false) :=
  ⟨⟨by decide, _, rfl⟩, 0, by decide, by decide⟩

/-- Hypotheses of `reusable_after_end` for a USER thread: after `A`'s disconnect
(`exSched.take 4`) `A` is at its second `connect()`, the successor slot is empty and the slot
holder is interrupted — the call creates thread 1 as a waiting successor. -/
example :
    let s := run [] (init exProgs 0 0) (exSched.take 4)
    atCall s (.user 0) .connect ∧ s.newNt = none ∧ s.nt = some 0 ∧ (s.net 0).intr = true :=
  ⟨⟨by decide, _, rfl⟩, by decide, by decide, by decide⟩

/-- Hypotheses of `reusable_after_end` for the NETWORKING thread itself: the first server sends a
disconnect packet, the reaction disconnects, and the listener (budget `rl = 1`) is about to call
`connect()` from inside the networking thread; after that step a second connection is open and
thread 1 waits for thread 0. -/
example :
    let s := run [.disconnects, .accept] (init [[.connect]] 1 0)
      ([.user 0, .user 0] ++ List.replicate 7 (.net 0))
    atCall s (.net 0) .connect ∧ s.newNt = none ∧ s.nt = some 0 ∧ (s.net 0).intr = true ∧
    (∃ s1, step [.disconnects, .accept] s (.net 0) = some s1 ∧ s1.socket = .open 1 ∧
      s1.newNt = some 1 ∧ (s1.net 1).pc = .waitPrev ∧ pendingOut s1 (.net 0) = some .ok) :=
  ⟨⟨.listen, by decide, rfl⟩, by decide, by decide, by decide, _, rfl, by decide, by decide,
    by decide, by decide⟩

/-- The exception handler reconnecting (budget `rh = 1`) against a server whose first two
connections fail: two connections, two threads, everything ends cleanly. -/
example :
    let s := run [.fails, .fails, .accept] (init [[.connect]] 0 1)
      ([.user 0, .user 0] ++ List.replicate 14 (.net 0) ++ List.replicate 16 (.net 1))
    s.conns = 2 ∧ s.nthreads = 2 ∧ (s.net 0).pc = .dead ∧ (s.net 1).pc = .dead ∧
    s.nt = none ∧ s.socket = .none := by decide

/-- Hypotheses of `disconnect_total` / `disconnect_leads_to_termination_partial`: `A` at its
`disconnect()` call with an uninterrupted thread in the slot; and a refused connect
(`ConnectionRefusedError`) followed by `disconnect()` and a successful `connect()`. -/
example :
    let s := run [] (init exProgs 0 0) (exSched.take 2)
    atCall s (.user 0) (.disconnect false) ∧ s.nt = some 0 ∧ (s.net 0).intr = false :=
  ⟨⟨by decide, _, rfl⟩, by decide, by decide⟩

example :
    let s := run [.refuse, .accept] (init [[.connect, .disconnect false, .connect]] 0 0)
      (List.replicate 6 (.user 0))
    (s.usr 0).outs = [.refused, .ok, .ok] ∧ s.conns = 2 ∧ s.nthreads = 1 ∧ s.nt = some 0 ∧
    s.socket = .open 1 := by decide

/-! ### Findings (behaviour of the Python code that the model reproduces)

These are reachable behaviours of the model that were also reproduced on the real code. -/

/-- FINDING 1 (transient refusal after `disconnect()`): one thread calling connect, disconnect,
connect, disconnect, connect faster than the first networking thread notices its interrupt gets
`InvalidState` from the last `connect()` although it has just disconnected: the hypothesis
`newNt = none` of `reusable_after_end` is necessary. -/
example :
    let s := run [] (init [[.connect, .disconnect false, .connect, .disconnect false, .connect]] 0 0)
      (List.replicate 10 (.user 0))
    (s.usr 0).outs = [.ok, .ok, .ok, .ok, .invalidState] ∧ s.connected = false ∧
    s.socket = .none := by decide

/-- FORMER FINDING 2 (a reconnect killed by the old thread's cleanup) — REPAIRED in the Python
(the test of `(new_networking_thread or networking_thread).interrupt` and the
`disconnect(immediate=True)` now form one locked block) and no longer reachable in the model, by
`handler_cleanup_spares_new_connection`.  The schedule that used to exhibit it: the first
connection fails, the networking thread runs its handlers and is about to execute the final
block (`hChk`); a user thread's `connect()` succeeds first; the old thread then executes the
block.  The state before that step satisfies the hypotheses of the theorem, and afterwards the
new connection is intact: socket open, `connected`, the new thread uninterrupted; it takes over
once the old thread is dead and runs. -/
example :
    let s := run [.fails, .accept] (init [[.connect, .connect]] 0 0)
      ([.user 0, .user 0] ++ List.replicate 7 (.net 0) ++ [.user 0, .user 0])
    (s.net 0).pc = .hChk ∧ s.newNt = some 1 ∧ (s.net 1).intr = false ∧
    (s.usr 0).outs = [.ok, .ok] := by decide

example :
    let s := run [.fails, .accept] (init [[.connect, .connect]] 0 0)
      ([.user 0, .user 0] ++ List.replicate 7 (.net 0) ++ [.user 0, .user 0] ++
        List.replicate 5 (.net 0) ++ List.replicate 6 (.net 1))
    (s.usr 0).outs = [.ok, .ok] ∧ s.conns = 2 ∧ (s.net 0).pc = .dead ∧ s.nt = some 1 ∧
    s.newNt = none ∧ (s.net 1).intr = false ∧ (s.net 1).pc = .rChk ∧ s.socket = .open 1 ∧
    s.connected = true ∧ (Tid.net 1, Ev.wr (some 1)) ∈ s.log := by decide

/-- Hypotheses of `handler_cleanup_is_atomic`: without a reconnect the failing thread finds its
own flag set and the block disconnects. -/
example :
    let s := run [.fails] (init [[.connect]] 0 0) ([.user 0, .user 0] ++ List.replicate 7 (.net 0))
    (s.net 0).pc = .hChk ∧ target s = some 0 ∧ (s.net 0).intr = true ∧ s.socket = .open 0 := by
  decide

/-- FINDING 3 (`disconnect()` while the networking thread is inside `read_packet`): a thread that
has passed the `not self.interrupt` test reads from a closed stream, takes the EXCEPTION path
(handlers are called, `_handle_exit` is not) — it still terminates. -/
example :
    let s := run [] (init [[.connect, .disconnect false]] 0 0)
      ([.user 0, .user 0] ++ List.replicate 4 (.net 0) ++ [.user 0, .user 0] ++
        List.replicate 10 (.net 0))
    (Tid.net 0, Ev.rd none .error) ∈ s.log ∧ (Tid.net 0, Ev.exc) ∈ s.log ∧
    (Tid.net 0, Ev.exit) ∉ s.log ∧ (s.net 0).pc = .dead := by decide

/-- FINDING 4 (stale read): a thread that has passed the `not self.interrupt` test evaluates
`self.connection.file_object` only afterwards; if a disconnect and a connect happen in between,
the OLD thread reads a packet of the NEW connection (here: connection 1's disconnect packet) and
its reaction tears the new connection down, while the new thread is still waiting. -/
example :
    let s := run [.accept, .disconnects]
      (init [[.connect, .disconnect false, .connect]] 0 0)
      ([.user 0, .user 0] ++ List.replicate 4 (.net 0) ++ List.replicate 4 (.user 0) ++
        List.replicate 3 (.net 0))
    (Tid.net 0, Ev.rd (some 1) .packet) ∈ s.log ∧ (s.net 1).pc = .waitPrev ∧
    (s.net 1).intr = true ∧ s.socket = .none ∧ (s.usr 0).outs = [.ok, .ok, .ok] := by decide

end PyCraft.C16
