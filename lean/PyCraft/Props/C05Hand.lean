import PyCraft.Lemmas.Packets
/-!
# C05 (hand-written part) — every packet class that overrides `read` / `write_fields` round-trips
under every protocol version

Models: `Model/Packets/{Map,PlayerListItem,SpawnObject,CombatEvent,FacePlayer,PluginResponse}.lean`
(each `context.protocol_…` test is a Boolean flag; every theorem is for ALL flag combinations,
including those no real protocol version produces).  Helper lemmas: `Lemmas/Packets.lean`.

Shape of every theorem: if the packet's fields are wire-representable (`…WF`, a decidable
predicate), `write_fields` succeeds with some bytes `bs`, and `read` on `bs` followed by ANY `rest`
returns the fields and leaves exactly `rest` (so it consumed exactly `bs`; `rest = []` is the
"consumes the payload exactly" case).  Where the reader cannot reproduce what the writer was given
the result is `normalise p`, defined in the model, with a companion theorem saying where
`normalise p = p`; genuine reader/writer disagreements are exhibited by concrete counterexamples.
-/
namespace PyCraft.C05Hand
open PyCraft PyCraft.Pk

/-! ## PluginResponsePacket (serverbound login) -/

/-- `PluginResponsePacket`: a representable response is written, and reading the bytes back returns
the normalised fields and consumes everything (the data is a `TrailingByteArray`); an unsuccessful
response is self-delimiting: whatever follows is left unread. -/
theorem plugin_response_rt (p : PluginRespPkt) (h : PluginRespWF p) :
    ∃ bs, writePluginResp p = .ok bs ∧ readPluginResp bs = .ok (p.normalise, []) ∧
      (p.effSuccessful = false → ∀ rest, readPluginResp (bs ++ rest) = .ok (p.normalise, rest)) :=
  plugresp_rt_aux p h

/-- The reader returns exactly what the writer was given iff `successful` was assigned explicitly
and an unsuccessful response carries no `data`. -/
theorem plugin_response_normalise_id (p : PluginRespPkt) :
    p.normalise = p ↔ ∃ b, p.successful = some b ∧ (b = false → p.data = none) :=
  plugresp_normalise_id p

/-- successful with data, `successful` assigned -/
example : PluginRespWF ⟨300, some true, some [1, 2, 3]⟩ ∧
    (⟨300, some true, some [1, 2, 3]⟩ : PluginRespPkt).normalise = ⟨300, some true, some [1, 2, 3]⟩ := by
  decide
/-- successful derived from `data is not None` -/
example : PluginRespWF ⟨5, none, some []⟩ ∧
    (⟨5, none, some []⟩ : PluginRespPkt).normalise = ⟨5, some true, some []⟩ := by decide
/-- unsuccessful -/
example : PluginRespWF ⟨5, none, none⟩ ∧ PluginRespWF ⟨5, some false, none⟩ := by decide
/-- data attached to an explicitly unsuccessful response is dropped by the writer -/
example : PluginRespWF ⟨5, some false, some [9]⟩ ∧
    (⟨5, some false, some [9]⟩ : PluginRespPkt).normalise = ⟨5, some false, none⟩ := by decide
/-- `successful = True` with `data = None` is NOT representable: the writer raises `TypeError` -/
example : ¬ PluginRespWF ⟨5, some true, none⟩ ∧
    writePluginResp ⟨5, some true, none⟩ = .error .type := by decide

/-! ## FacePlayerPacket -/

/-- `FacePlayerPacket`, both layouts (`v353` and the 352 layout), with or without the entity block:
round trip up to the attributes that are not on the wire (`normalise`). -/
theorem face_player_rt (f : FaceFlags) (p : FacePkt) (h : FaceWF f p) :
    ∃ bs, writeFace f p = .ok bs ∧ readFace f bs = .ok (p.normalise f, []) ∧
      ∀ rest, readFace f (bs ++ rest) = .ok (p.normalise f, rest) := by
  obtain ⟨bs, hw, hr⟩ := face_rt_aux f p h
  exact ⟨bs, hw, by simpa using hr [], hr⟩

/-- The reader returns exactly the writer's attributes iff the attributes that are not sent are
unassigned: from 353 on, `entity_origin` when `entity_id is None`; before, `origin`,
`entity_origin`, and `x`/`y`/`z` when an entity is given. -/
theorem face_player_normalise_id (f : FaceFlags) (p : FacePkt) :
    p.normalise f = p ↔
      (if f.v353 then (p.entityId = none → p.entityOrigin = none)
       else p.origin = none ∧ p.entityOrigin = none ∧
         (p.entityId ≠ none → p.x = none ∧ p.y = none ∧ p.z = none)) :=
  face_normalise_id f p

/-- with entity, ≥ 353 -/
example : FaceWF ⟨true⟩ ⟨some 1, some 0x3ff0000000000000, some 0, some 0xbff0000000000000,
    some 77, some 0⟩ := by decide
/-- without entity, ≥ 353 -/
example : FaceWF ⟨true⟩ ⟨some 0, some 1, some 2, some 3, none, none⟩ := by decide
/-- with / without entity, 352 layout -/
example : FaceWF ⟨false⟩ ⟨none, none, none, none, some 77, none⟩ ∧
    FaceWF ⟨false⟩ ⟨none, some 1, some 2, some 3, none, none⟩ := by decide
/-- an attribute the writer needs but that was never assigned is not representable -/
example : ¬ FaceWF ⟨true⟩ ⟨some 0, some 1, some 2, some 3, some 77, none⟩ ∧
    writeFace ⟨true⟩ ⟨some 0, some 1, some 2, some 3, some 77, none⟩ = .error .other := by decide

/-! ## CombatEventPacket -/

/-- `CombatEventPacket` before protocol `PRE | 15`, every event variant: exact round trip. -/
theorem combat_event_rt (f : CombatFlags) (ev : CombatEvent) (h : CombatWF f ev) :
    ∃ bs, writeCombat f ev = .ok bs ∧ readCombat f bs = .ok (ev, []) ∧
      ∀ rest, readCombat f (bs ++ rest) = .ok (ev, rest) := by
  obtain ⟨bs, hw, hr⟩ := combat_rt_aux f ev h
  exact ⟨bs, hw, by simpa using hr [], hr⟩

/-- From `PRE | 15` on both directions raise `NotImplementedError`, whatever the event / bytes. -/
theorem combat_event_deprecated (ev : CombatEvent) (bs : Bytes) :
    writeCombat ⟨true⟩ ev = .error .other ∧ readCombat ⟨true⟩ bs = .error .other :=
  combat_deprecated ev bs

example : CombatWF ⟨false⟩ .enter := by decide
example : CombatWF ⟨false⟩ (.endCombat 100 (-2)) := by decide
example : CombatWF ⟨false⟩ (.dead 7 9 "died é") := by decide +kernel
example : ¬ CombatWF ⟨false⟩ (.endCombat (-1) 0) ∧ ¬ CombatWF ⟨true⟩ .enter := by decide

/-! ## SpawnObjectPacket -/

/-- `SpawnObjectPacket`, all eight flag combinations (UUID present or not, VarInt or Byte type,
Double or Integer position, velocity present or not): round trip up to the attributes that are not
on the wire. -/
theorem spawn_object_rt (f : SpawnFlags) (p : SpawnPkt) (h : SpawnWF f p) :
    ∃ bs, writeSpawn f p = .ok bs ∧ readSpawn f bs = .ok (p.normalise f, []) ∧
      ∀ rest, readSpawn f (bs ++ rest) = .ok (p.normalise f, rest) := by
  obtain ⟨bs, hw, hr⟩ := spawn_rt_aux f p h
  exact ⟨bs, hw, by simpa using hr [], hr⟩

/-- The reader returns exactly the writer's attributes iff `object_uuid` is unassigned before
protocol 49 and the velocities are unassigned when they are not sent (before 49 with `data ≤ 0`). -/
theorem spawn_object_normalise_id (f : SpawnFlags) (p : SpawnPkt) :
    p.normalise f = p ↔
      (f.v49 = false → p.objectUuid = none) ∧
      (p.hasVelocity f = false → p.velocityX = none ∧ p.velocityY = none ∧ p.velocityZ = none) :=
  spawn_normalise_id f p

private def exUuid : Bytes := [0, 1, 2, 3, 4, 5, 6, 7, 8, 9, 10, 11, 12, 13, 14, 15]

/-- newest layout -/
example : SpawnWF ⟨true, true, true⟩
    ⟨1, some exUuid, 300, 0x4000000000000000, 0, 0xc000000000000000, 64, 255, 0,
     some 1, some (-1), some 0⟩ := by decide
/-- oldest layout without velocity (`data = 0`) and with velocity (`data = 5`) -/
example : SpawnWF ⟨false, false, false⟩ ⟨1, none, -3, 32, -32, 0, 0, 255, 0, none, none, none⟩ ∧
    SpawnWF ⟨false, false, false⟩ ⟨1, none, -3, 32, -32, 0, 0, 255, 5, some 1, some 2, some 3⟩ := by
  decide
/-- a flag combination no real version has (`v458` without `v49`) is covered too -/
example : SpawnWF ⟨false, true, false⟩ ⟨1, none, 300, 32, -32, 0, 0, 255, 0, none, none, none⟩ := by
  decide
/-- a type id above 127 is not representable before 458 -/
example : ¬ SpawnWF ⟨true, false, true⟩
    ⟨1, some exUuid, 300, 0, 0, 0, 0, 0, 0, some 0, some 0, some 0⟩ := by decide

/-! ## MapPacket -/

/-- `MapPacket`, all 32 flag combinations, any number of icons, with or without the pixel block:
for everything the WRITER accepts, the reader returns `normalise` of it and consumes exactly the
bytes written.  `normalise` (see `Model/Packets/Map.lean`): before 373 the icon type and direction
are reduced modulo 16; before 364 display names are dropped; with neither `v107` nor `pre6`
`is_tracking_position` is `True`; before 452 `is_locked` is `False`; with `width = 0` height, offset
and pixels are `0`, `None`, `None`; and the offsets, written as `UnsignedByte` but read as `Byte`,
come back reinterpreted as signed (`asSigned8`). -/
theorem map_rt (f : MapFlags) (p : MapPkt) (h : MapWF f p) :
    ∃ bs, writeMap f p = .ok bs ∧ readMap f bs = .ok (p.normalise f, []) ∧
      ∀ rest, readMap f (bs ++ rest) = .ok (p.normalise f, rest) := by
  obtain ⟨bs, hw, hr⟩ := map_rt_aux f p h
  exact ⟨bs, hw, by simpa using hr [], hr⟩

/-- An icon comes back unchanged iff, before 373, type and direction are nibbles and, before 364, it
has no display name. -/
theorem map_icon_normalise_id (f : MapFlags) (ic : MapIcon) :
    ic.normalise f = ic ↔
      (f.v373 = false → (0 ≤ ic.type ∧ ic.type < 16) ∧ (0 ≤ ic.direction ∧ ic.direction < 16)) ∧
      (f.v364 = false → ic.displayName = none) :=
  icon_normalise_id f ic

/-- The sub-domain on which the whole packet comes back unchanged: the fields that are not sent hold
the reader's constants, every icon is unchanged, and both offsets are at most 127 (the intersection
of the writer's `UnsignedByte` and the reader's `Byte`). -/
theorem map_normalise_id (f : MapFlags) (p : MapPkt)
    (h1 : f.v107 = false → f.pre6 = false → p.isTrackingPosition = true)
    (h2 : f.v452 = false → p.isLocked = false)
    (h3 : ∀ ic ∈ p.icons, ic.normalise f = ic)
    (h4 : p.width = 0 → p.height = 0 ∧ p.offset = none ∧ p.pixels = none)
    (h5 : ∀ o, p.offset = some o → o.1 < 128 ∧ o.2 < 128) :
    p.normalise f = p :=
  Pk.map_normalise_id f p h1 h2 h3 h4 h5

/-- Exact round trip on that sub-domain. -/
theorem map_rt_exact (f : MapFlags) (p : MapPkt) (h : MapWF f p)
    (h1 : f.v107 = false → f.pre6 = false → p.isTrackingPosition = true)
    (h2 : f.v452 = false → p.isLocked = false)
    (h3 : ∀ ic ∈ p.icons, ic.normalise f = ic)
    (h4 : p.width = 0 → p.height = 0 ∧ p.offset = none ∧ p.pixels = none)
    (h5 : ∀ o, p.offset = some o → o.1 < 128 ∧ o.2 < 128) :
    ∃ bs, writeMap f p = .ok bs ∧ ∀ rest, readMap f (bs ++ rest) = .ok (p, rest) := by
  obtain ⟨bs, hw, _, hr⟩ := map_rt f p h
  rw [Pk.map_normalise_id f p h1 h2 h3 h4 h5] at hr
  exact ⟨bs, hw, hr⟩

private def exMapNew : MapPkt :=
  ⟨3, 1, true, false, [⟨5, 12, -1, 1, some "hi"⟩, ⟨20, 200, 0, 0, none⟩], 2, 1, some (3, 4),
   some [0xaa, 0xbb]⟩
private def exMapOld : MapPkt :=
  ⟨3, 1, true, false, [⟨5, 12, -1, 1, none⟩], 0, 0, none, none⟩

/-- newest layout, two icons (with / without display name), pixel block whose length (2) is
unrelated to `width * height` — and the packet is in the exact sub-domain -/
example : MapWF ⟨true, true, true, true, true⟩ exMapNew ∧
    exMapNew.normalise ⟨true, true, true, true, true⟩ = exMapNew := by decide +kernel
/-- oldest layout, nibble icon, no pixel block — in the exact sub-domain too -/
example : MapWF ⟨false, false, false, false, false⟩ exMapOld ∧
    exMapOld.normalise ⟨false, false, false, false, false⟩ = exMapOld := by decide +kernel
/-- a flag combination no real version has (`pre6` without `v107`) -/
example : MapWF ⟨false, true, true, false, true⟩ exMapNew := by decide +kernel

/-- DEFECT (offset signedness), protocol 107 layout: the writer accepts the offset `(200, 0)` and
the reader returns `(-56, 0)`: reader and writer are not inverse on `128..255`. -/
example :
    let f : MapFlags := ⟨true, false, false, false, false⟩
    let p : MapPkt := ⟨3, 1, false, false, [], 1, 1, some (200, 0), some []⟩
    MapWF f p ∧ writeMap f p = .ok [3, 1, 0, 0, 1, 1, 200, 0, 0] ∧
    readMap f [3, 1, 0, 0, 1, 1, 200, 0, 0] =
      .ok (⟨3, 1, false, false, [], 1, 1, some (-56, 0), some []⟩, []) ∧
    readMap f [3, 1, 0, 0, 1, 1, 200, 0, 0] ≠ .ok (p, []) := by decide +kernel

/-- … and the offsets the reader can produce below zero cannot be written back:
`UnsignedByte.send(-56)` is `struct.error`. -/
example :
    writeMap ⟨true, false, false, false, false⟩
      ⟨3, 1, false, false, [], 1, 1, some (-56, 0), some []⟩ = .error .struct := by decide +kernel

/-- Nibble packing before 373 loses range silently: type 21, direction 35 are written (no error) and
come back as 5 and 3. -/
example :
    let f : MapFlags := ⟨false, false, false, false, false⟩
    writeMap f ⟨3, 1, true, false, [⟨21, 35, -1, 1, none⟩], 0, 0, none, none⟩ =
      .ok [3, 1, 1, 0x53, 0xff, 1, 0] ∧
    readMap f [3, 1, 1, 0x53, 0xff, 1, 0] =
      .ok (⟨3, 1, true, false, [⟨5, 3, -1, 1, none⟩], 0, 0, none, none⟩, []) := by decide +kernel

/-! ## PlayerListItemPacket -/

/-- `PlayerListItemPacket`: every action kind, any number of actions, any number of properties with
or without signature, display names present or absent: exact round trip. -/
theorem player_list_item_rt (p : PliPkt) (h : PliWF p) :
    ∃ bs, writePli p = .ok bs ∧ readPli bs = .ok (p, []) ∧
      ∀ rest, readPli (bs ++ rest) = .ok (p, rest) := by
  obtain ⟨bs, hw, hr⟩ := pli_rt_aux p h
  exact ⟨bs, hw, by simpa using hr [], hr⟩

private def exAdd : PliPkt :=
  ⟨.addPlayer,
   [.addPlayer exUuid "ab" [⟨"n", "v", none⟩, ⟨"n", "v", some "s"⟩] 1 20 none,
    .addPlayer exUuid "" [] 0 0 (some "hi")]⟩

example : PliWF exAdd := by decide +kernel
example : PliWF ⟨.updateGameMode, [.updateGameMode exUuid 3]⟩ ∧
    PliWF ⟨.updateLatency, [.updateLatency exUuid 300, .updateLatency exUuid 0]⟩ ∧
    PliWF ⟨.removePlayer, [.removePlayer exUuid]⟩ ∧ PliWF ⟨.removePlayer, []⟩ := by decide +kernel
example : PliWF ⟨.updateDisplayName,
    [.updateDisplayName exUuid none, .updateDisplayName exUuid (some "")]⟩ := by decide +kernel

/-- The homogeneity condition in `PliWF` is necessary: the writer sends each action with the action's
own class, the reader parses all of them with the packet's `action_type`.  A latency action in a
game-mode packet is written without error and comes back as a game-mode action. -/
example :
    let p : PliPkt := ⟨.updateGameMode, [.updateLatency exUuid 3]⟩
    ¬ PliWF p ∧ ∃ bs, writePli p = .ok bs ∧
      readPli bs = .ok (⟨.updateGameMode, [.updateGameMode exUuid 3]⟩, []) := by
  refine ⟨by decide +kernel, _, rfl, by decide +kernel⟩

end PyCraft.C05Hand
