import PyCraft.Lemmas.C11Errors
import PyCraft.Generated.C11Errors
import PyCraft.Generated.Versions
/-!
# C11, audit gap 11 — "a server disconnect packet closes the connection, runs the exit callback
exactly once and reports no error", with writes that can FAIL

`Props/C11.lean` proves the clause in a model (`Model/Play.lean`) in which `errors := 0` is a literal
and a write phase cannot fail. Here the model is `Model/C11Errors.lean`: every call of
`_write_packet` may raise an `IOError` (`fails k` for the k-th call, an arbitrary function), the
write phase of `_run` catches it into `exc_info`, the read phase forgets it when a packet named
"disconnect" has been processed, `_run` re-raises what is left, and `run` then reports the error
INSTEAD of calling the exit callback. `errors` and `exitCalls` are computed by that mechanism.

What is proved (for every `fails`, every `capW`, every `capR ≥ 1`, every inbox):

* the run terminates in exactly one of three ways (`run_outcomes`), and it is conservative: popped
  packets are the replies to the delivered packets, in order, each at most once
  (`replies_popped_in_order_at_most_once`);
* without a relevant failing write the run is the one of `Model/Play.lean`
  (`no_failed_write_conservative`), so all of `Props/C11.lean` carries over;
* the clause itself, in the form in which it is TRUE of the code: an error is reported iff some
  reachable write phase fails and no disconnect packet is among the packets the read phase of the
  SAME iteration can read (`error_iff`, with the two directions `disconnect_after_failed_write_clean`
  and `failed_write_without_disconnect_reported`; `iteration_raises_iff` is the one-iteration form);
  in particular a disconnect within the first `capR` packets is always clean (`short_session_clean`),
  and without any disconnect packet a failing write is always reported
  (`no_disconnect_error_iff`);
* the unrestricted clause is FALSE of the code (and of the model): `disconnect_not_always_clean`
  (the "Partial" of DESIGN §C11: the client dies on EPIPE before it reads the disconnect packet);
* models of two seeded changes (l.648-649 deleted; `except IOError` of the write phase narrowed)
  violate `disconnect_after_failed_write_clean` on concrete inputs
  (`seeded_no_clear_detected`, `seeded_narrow_except_detected`);
* the model computes exactly what the LIVE `NetworkingThread.run` was observed to do on the
  generated scenarios (`model_agrees_with_live_runs`), and in every supported version exactly one
  clientbound play class is named "disconnect" (`disconnect_name_unique`).

Only property theorems and non-vacuity examples live here; helper lemmas are in
`Lemmas/C11Errors.lean`.
-/
namespace PyCraft.C11Errors
open PyCraft PyCraft.PlayErr
open PyCraft.Play (PlayEv Reply replyTo beforeDisc hasDisc fullWire)

/-- The loop terminates for every failure pattern, all caps with `capR ≥ 1` and every inbox. -/
theorem loop_terminates (newer : Bool) (fails : Nat → Bool) (capW capR : Nat) (hR : 1 ≤ capR)
    (inbox : List PlayEv) : (runLoop newer fails capW capR inbox).isSome = true := by
  obtain ⟨r, h, -⟩ := runLoop_spec newer fails capW capR hR inbox
  simp [h]

/-- A run ends in exactly one of three ways. `done` is the prefix of the inbox that was processed
(delivered to the listeners, in order, unknown ids as generic packets).
1. CLEAN: the inbox has a disconnect packet, everything up to and including the first one was
   processed, the connection is closed, the exit callback ran once, no error; packets are left
   unsent only if a write failed.
2. OPEN: no disconnect packet; the whole inbox was processed, nothing lost, nothing unsent, the
   connection stays open, no callback.
3. ERROR: a write failed (`lost ≠ []`) and no disconnect packet was processed; the connection is
   closed, ONE error is reported and the exit callback is NOT called. -/
theorem run_outcomes (newer : Bool) (fails : Nat → Bool) (capW capR : Nat) (hR : 1 ≤ capR)
    (inbox : List PlayEv) :
    ∃ r done rest, runLoop newer fails capW capR inbox = some r ∧ inbox = done ++ rest ∧
      r.delivered = done.map PlayEv.asSeen ∧ r.spawned = done.any PlayEv.isPosLook ∧
      ((hasDisc inbox = true ∧ done = beforeDisc inbox ++ [.disconnect] ∧ r.closed = true ∧
          r.exitCalls = 1 ∧ r.errors = 0 ∧ (r.lost = [] → r.unsent = [])) ∨
       (hasDisc inbox = false ∧ done = inbox ∧ r.closed = false ∧ r.exitCalls = 0 ∧
          r.errors = 0 ∧ r.lost = [] ∧ r.unsent = []) ∨
       (PlayEv.disconnect ∉ done ∧ r.closed = true ∧ r.exitCalls = 0 ∧ r.errors = 1 ∧
          r.lost ≠ [])) := by
  obtain ⟨r, hr, done, rest, h1, h2, h3, -, h5⟩ := runLoop_spec newer fails capW capR hR inbox
  exact ⟨r, done, rest, hr, h1, h2, h3, h5⟩

/-- Conservation. Let `P` be the packets popped from the queue during the run, in order. Then `P`
followed by what is still queued is exactly the list of replies due to the delivered packets (in
order, so each reply was popped at most once and none was invented); the k-th popped packet is on
the wire iff write number k did not fail, otherwise it is lost; and the replies due to the delivered
packets are a prefix of those due to everything before the first disconnect packet. -/
theorem replies_popped_in_order_at_most_once (newer : Bool) (fails : Nat → Bool) (capW capR : Nat)
    (hR : 1 ≤ capR) (inbox : List PlayEv) :
    ∃ r P, runLoop newer fails capW capR inbox = some r ∧
      P ++ r.unsent = r.delivered.flatMap (replyTo newer) ∧
      r.wire = (sift fails 0 P).1 ∧ r.lost = (sift fails 0 P).2 ∧
      r.delivered.flatMap (replyTo newer) <+: fullWire newer inbox := by
  obtain ⟨r, hr, done, rest, h1, h2, -, ⟨P, p1, p2, p3⟩, h5⟩ :=
    runLoop_spec newer fails capW capR hR inbox
  have hflat : r.delivered.flatMap (replyTo newer) = done.flatMap (replyTo newer) := by
    rw [h2, List.flatMap_map]
    congr 1; funext e; exact replyTo_asSeen newer e
  refine ⟨r, P, hr, by rw [hflat]; exact p1, p2, p3, ?_⟩
  rw [hflat, fullWire]
  rcases h5 with ⟨_, b, _⟩ | ⟨a, b, _⟩ | ⟨a, _⟩
  · rw [b]; simp [replyTo]
  · rw [b, (Play.beforeDisc_of_no_disc inbox ((hasDisc_false_iff _).1 a)).1]
    exact List.prefix_refl _
  · rw [h1, (beforeDisc_append_of_not_mem done rest a).1, List.flatMap_append]
    exact List.prefix_append _ _

/-- Conservative extension: if none of the first `|fullWire|` writes fails (`fullWire` = the
replies due to the packets before the first disconnect — no other write is ever attempted), the
run is exactly the run of `Model/Play.lean` with an open peer, nothing is lost and nothing is left
unsent. Hence every theorem of `Props/C11.lean` holds for the model with failing writes too. -/
theorem no_failed_write_conservative (newer : Bool) (fails : Nat → Bool) (capW capR : Nat)
    (hR : 1 ≤ capR) (inbox : List PlayEv)
    (hno : ∀ k, k < (fullWire newer inbox).length → fails k = false) :
    (runLoop newer fails capW capR inbox).map Result.toPlay = Play.runLoop newer true capW capR inbox ∧
    ∀ r, runLoop newer fails capW capR inbox = some r → r.lost = [] ∧ r.unsent = [] := by
  obtain ⟨r, hr, hw, hl, hu, hd, hs, hc, hx, he⟩ := runLoop_nofail newer fails capW capR hR inbox hno
  obtain ⟨r', hr', hd', hs', hc', hx', he', -, hw'⟩ := Play.runLoop_spec newer true capW capR hR inbox
  refine ⟨?_, fun r2 h2 => ?_⟩
  · rw [hr, hr', Option.map_some]
    congr 1
    apply Play.Result.ext'
    · simp [Result.toPlay, hw, hw' (Or.inl rfl)]
    · simp [Result.toPlay, hd, hd']
    · simp [Result.toPlay, hs, hs']
    · simp [Result.toPlay, hc, hc']
    · simp [Result.toPlay, hx, hx']
    · simp [Result.toPlay, he, he']
  · rw [hr] at h2; cases h2; exact ⟨hl, hu⟩

/-- An error is never reported without a failed write of an actual reply: `errors = 1` implies
that one of the first `|fullWire|` writes fails. -/
theorem error_needs_failed_write (newer : Bool) (fails : Nat → Bool) (capW capR : Nat)
    (hR : 1 ≤ capR) (inbox : List PlayEv) (r : PlayErr.Result)
    (hr : runLoop newer fails capW capR inbox = some r) (he : r.errors = 1) :
    ∃ k, k < (fullWire newer inbox).length ∧ fails k = true := by
  apply Classical.byContradiction
  intro hcon
  have hno : ∀ k, k < (fullWire newer inbox).length → fails k = false := by
    intro k hk
    cases hfk : fails k with
    | false => rfl
    | true => exact absurd ⟨k, hk, hfk⟩ hcon
  obtain ⟨r', hr', -, -, -, -, -, -, -, he'⟩ := runLoop_nofail newer fails capW capR hR inbox hno
  rw [hr] at hr'; cases hr'
  omega

/-- Without a disconnect packet in the inbox: the error is reported (exactly once, the connection
closed, the exit callback not called) iff one of the writes of the due replies fails; otherwise the
run is the failure-free one. -/
theorem no_disconnect_error_iff (newer : Bool) (fails : Nat → Bool) (capW capR : Nat)
    (hR : 1 ≤ capR) (inbox : List PlayEv) (hnd : hasDisc inbox = false) :
    ∃ r, runLoop newer fails capW capR inbox = some r ∧
      (r.errors = 1 ↔ ∃ k, k < (fullWire newer inbox).length ∧ fails k = true) ∧
      (r.errors = 1 → r.closed = true ∧ r.exitCalls = 0 ∧ r.lost ≠ []) ∧
      (r.errors ≠ 1 → r.errors = 0 ∧ r.closed = false ∧ r.exitCalls = 0 ∧
        r.wire = fullWire newer inbox ∧ r.lost = [] ∧ r.unsent = []) := by
  obtain ⟨r, hr, done, rest, h1, h2, h3, ⟨P, p1, p2, p3⟩, h5⟩ :=
    runLoop_spec newer fails capW capR hR inbox
  refine ⟨r, hr, ⟨error_needs_failed_write newer fails capW capR hR inbox r hr, ?_⟩, ?_, ?_⟩
  · rintro ⟨k, hk, hfk⟩
    rcases h5 with ⟨a, _⟩ | ⟨a, b, c, d, e, f, g⟩ | ⟨_, _, _, e, _⟩
    · rw [hnd] at a; cases a
    · exfalso
      rw [g, List.append_nil, b] at p1
      rw [fullWire, (Play.beforeDisc_of_no_disc inbox ((hasDisc_false_iff _).1 hnd)).1, ← p1] at hk
      have := (sift_lost_nil_iff fails 0 P).1 (p3 ▸ f) k hk
      rw [Nat.zero_add, hfk] at this
      cases this
    · exact e
  · intro he
    rcases h5 with ⟨a, _⟩ | ⟨_, _, _, _, e, _⟩ | ⟨_, c, d, _, f⟩
    · rw [hnd] at a; cases a
    · omega
    · exact ⟨c, d, f⟩
  · intro hne
    rcases h5 with ⟨a, _⟩ | ⟨a, b, c, d, e, f, g⟩ | ⟨_, _, _, e, _⟩
    · rw [hnd] at a; cases a
    · refine ⟨e, c, d, ?_, f, g⟩
      rw [g, List.append_nil, b] at p1
      rw [p2, sift_wire_of_lost_nil _ _ _ (p3 ▸ f), p1, fullWire,
        (Play.beforeDisc_of_no_disc inbox ((hasDisc_false_iff _).1 hnd)).1]
    · exact absurd e hne

/-- One iteration of `_run`, started in any state with the thread not interrupted and the socket
open: the iteration ends by re-raising the write error iff its write phase failed and no disconnect
packet is among the `capR − w` packets its read phase can read, `w` being the number of packets the
failed write phase had written successfully (the packet counter is shared). -/
theorem iteration_raises_iff (newer : Bool) (fails : Nat → Bool) (capW capR : Nat) (c : Conn)
    (inbox : List PlayEv) (hi : c.interrupt = false) (hcl : c.closed = false) :
    (iter newer fails capW capR c inbox).exc = true ↔
      ((writePhase fails capW c).exc = true ∧
        hasDisc (inbox.take (capR - (writePhase fails capW c).num)) = false) :=
  iter_exc_iff newer fails capW capR c inbox hi hcl

/-- THE CLAUSE. In the run on `inbox0`, let an iteration of `_run` start in state `c` with
`pre ++ disconnect :: post` still unread, no disconnect packet in `pre`, and let the first disconnect
packet be within reach of the read phase of THIS iteration: `w + |pre| < capR`, where `w` is the
number of packets written by the write phase of this iteration — whether or not that write phase
failed. Then the whole run closes the connection, runs the exit callback exactly once and reports
NO error; everything up to and including the disconnect packet is delivered and nothing after it.
If the write phase did fail, a packet was lost (so the clean exit is due to the forgetting of
`exc_info`, l.648-649, not to the absence of a failure). -/
theorem disconnect_after_failed_write_clean (newer : Bool) (fails : Nat → Bool) (capW capR : Nat)
    (inbox0 : List PlayEv) (c : Conn) (pre post : List PlayEv)
    (hreach : Reach newer fails capW capR inbox0 c (pre ++ .disconnect :: post))
    (hi : c.interrupt = false) (hpre : PlayEv.disconnect ∉ pre)
    (hlen : (writePhase fails capW c).num + pre.length < capR) :
    ∃ r, runLoop newer fails capW capR inbox0 = some r ∧
      r.closed = true ∧ r.exitCalls = 1 ∧ r.errors = 0 ∧
      r.delivered = c.delivered ++ (pre ++ [PlayEv.disconnect]).map PlayEv.asSeen ∧
      ((writePhase fails capW c).exc = true → r.lost ≠ []) :=
  reach_disc_clean newer fails capW capR inbox0 c pre post hreach hi hpre hlen

/-- The converse: if the write phase of a reachable iteration fails and no disconnect packet is
among the packets its read phase can read, the run ends THERE: the connection is closed, the error
is reported once and the exit callback is not called — even if a disconnect packet follows. -/
theorem failed_write_without_disconnect_reported (newer : Bool) (fails : Nat → Bool)
    (capW capR : Nat) (hR : 1 ≤ capR) (inbox0 : List PlayEv) (c : Conn) (inbox : List PlayEv)
    (hreach : Reach newer fails capW capR inbox0 c inbox) (hi : c.interrupt = false)
    (hw : (writePhase fails capW c).exc = true)
    (hd : hasDisc (inbox.take (capR - (writePhase fails capW c).num)) = false) :
    ∃ r, runLoop newer fails capW capR inbox0 = some r ∧
      r.closed = true ∧ r.exitCalls = 0 ∧ r.errors = 1 ∧
      r.delivered = c.delivered ++
        (inbox.take (capR - (writePhase fails capW c).num)).map PlayEv.asSeen :=
  reach_fail_error newer fails capW capR hR inbox0 c inbox hreach hi hw hd

/-- Exact characterisation of "reports an error": at most one error is reported, and one is
reported iff some iteration of the run starts (in a state `c`, with `inbox` unread) whose write
phase fails and whose read phase cannot reach a disconnect packet. -/
theorem error_iff (newer : Bool) (fails : Nat → Bool) (capW capR : Nat) (hR : 1 ≤ capR)
    (inbox0 : List PlayEv) :
    ∃ r, runLoop newer fails capW capR inbox0 = some r ∧ (r.errors = 0 ∨ r.errors = 1) ∧
      (r.errors = 1 ↔
        ∃ c inbox, Reach newer fails capW capR inbox0 c inbox ∧ c.interrupt = false ∧
          (writePhase fails capW c).exc = true ∧
          hasDisc (inbox.take (capR - (writePhase fails capW c).num)) = false) := by
  obtain ⟨c', raised, hc, -⟩ := loop_spec newer fails capW capR hR (2 * inbox0.length + 1)
    Conn.init inbox0 init_live rfl (by simp [Conn.init])
  have hr : runLoop newer fails capW capR inbox0 = some (finish fails c' raised) := by
    simp [runLoop, runFrom, hc]
  refine ⟨_, hr, by cases raised <;> simp [finish], ?_, ?_⟩
  · intro he
    have hraised : raised = true := by
      cases raised with
      | true => rfl
      | false => simp [finish] at he
    subst hraised
    obtain ⟨c, inbox, h1, h2, h3⟩ :=
      raised_reach newer fails capW capR inbox0 _ _ _ _ Reach.start hc
    have hl := reach_live newer fails capW capR inbox0 c inbox h1 h2
    obtain ⟨h4, h5⟩ := (iter_exc_iff newer fails capW capR c inbox h2 hl.2.2).1 h3
    exact ⟨c, inbox, h1, h2, h4, h5⟩
  · rintro ⟨c, inbox, h1, h2, h3, h4⟩
    obtain ⟨r, hr', -, -, he, -⟩ :=
      reach_fail_error newer fails capW capR hR inbox0 c inbox h1 h2 h3 h4
    rw [hr] at hr'; cases hr'; exact he

/-- A disconnect packet among the first `capR` packets (50 in the code) is ALWAYS clean, whatever
writes fail: no write phase precedes the first read phase, and the only writes attempted are those
of the flush inside `disconnect()`, whose failure is swallowed there. -/
theorem short_session_clean (newer : Bool) (fails : Nat → Bool) (capW capR : Nat)
    (pre post : List PlayEv) (hpre : PlayEv.disconnect ∉ pre) (hlen : pre.length < capR) :
    ∃ r, runLoop newer fails capW capR (pre ++ .disconnect :: post) = some r ∧
      r.closed = true ∧ r.exitCalls = 1 ∧ r.errors = 0 ∧
      r.delivered = (pre ++ [PlayEv.disconnect]).map PlayEv.asSeen := by
  have hnum : (writePhase fails capW Conn.init).num = 0 := by
    simp [writePhase, writeLoop, Conn.init]
  obtain ⟨r, hr, a, b, c, d, -⟩ := reach_disc_clean newer fails capW capR
    (pre ++ .disconnect :: post) Conn.init pre post Reach.start rfl hpre (by omega)
  exact ⟨r, hr, a, b, c, by simpa [Conn.init] using d⟩

/-! ### Live facts (regenerated from /repo on every run) -/

/-- In every supported protocol version exactly one class of `clientbound.play.get_packets` has
the `packet_name` "disconnect" — the name both `PlayingReactor.react` and the read phase of `_run`
test — namely `DisconnectPacket`; the table covers exactly the supported versions. -/
theorem disconnect_name_unique :
    (∀ row ∈ Gen.C11Errors.discNamed, row.2 = ["DisconnectPacket"]) ∧
    Gen.C11Errors.discNamed.map (·.1) = liveTables.supportedProtocols := by
  decide +kernel

/-- The model against the code: for every generated scenario (the real `NetworkingThread.run` with
its literal caps, on a socket that fails from the n-th write on) the model computes exactly the
observed wire, lost and unsent packets, delivered packets, `spawned`, closed socket, number of exit
callbacks and number of reported errors. -/
theorem model_agrees_with_live_runs :
    ∀ row ∈ Gen.C11Errors.liveRuns,
      runLoop row.1 (match row.2.1 with | none => fun _ => false | some n => failFrom n) 300 50
        row.2.2.1 = some row.2.2.2 := by
  decide +kernel

/-- The generated scenarios do exercise all three outcomes, in particular a failed write phase
followed by a clean exit, and an error in spite of a disconnect packet. -/
theorem live_runs_cover_outcomes :
    (∃ row ∈ Gen.C11Errors.liveRuns, row.2.2.2.errors = 0 ∧ row.2.2.2.exitCalls = 1 ∧
      row.2.2.2.lost ≠ [] ∧ row.2.2.2.wire ≠ [] ∧ 50 < row.2.2.2.delivered.length) ∧
    (∃ row ∈ Gen.C11Errors.liveRuns, row.2.2.2.errors = 1 ∧ row.2.2.2.exitCalls = 0 ∧
      hasDisc row.2.2.1 = true) ∧
    (∃ row ∈ Gen.C11Errors.liveRuns, row.2.2.2.errors = 0 ∧ row.2.2.2.closed = false) := by
  decide +kernel

/-! ### The unrestricted clause is false; seeded changes are detected -/

/-- `n` keep-alive packets with ids `a, a+1, …`. -/
private def kas (a n : Nat) : List PlayEv := (List.range n).map (fun i => PlayEv.keepAlive (a + i))

/-- "A server disconnect packet … reports no error" does NOT hold for every history: with the real
caps, 100 keep-alives followed by a disconnect packet and a peer that is gone end in a reported
error and no exit callback (the write phase of the 2nd iteration fails; the 50 packets its read
phase reads do not include the disconnect packet). Confirmed on the real code: this is the row
`(true, some 0, ka(50) ++ ka(50) ++ disc)` of `Gen.C11Errors.liveRuns`. -/
theorem disconnect_not_always_clean :
    ∃ (fails : Nat → Bool) (inbox : List PlayEv) (r : PlayErr.Result), hasDisc inbox = true ∧
      runLoop true fails 300 50 inbox = some r ∧ r.errors = 1 ∧ r.exitCalls = 0 ∧ r.closed = true :=
  ⟨failFrom 0, kas 0 100 ++ [.disconnect], _, by decide +kernel, rfl, by decide +kernel,
    by decide +kernel, by decide +kernel⟩

/-- The input on which the seeded changes are caught: 50 keep-alives, the disconnect packet, peer
gone. It satisfies the hypotheses of `disconnect_after_failed_write_clean` at the second iteration
(state reached after reading the 50 keep-alives; `pre = []`, `w = 0`). -/
private def seedInbox : List PlayEv := kas 0 50 ++ [.disconnect]

private def seedState : Conn := (iter true (failFrom 0) 300 50 Conn.init seedInbox).conn

/-- Non-vacuity of `disconnect_after_failed_write_clean` with a write phase that really fails. -/
example : Reach true (failFrom 0) 300 50 seedInbox seedState ([] ++ PlayEv.disconnect :: []) ∧
    seedState.interrupt = false ∧ (writePhase (failFrom 0) 300 seedState).exc = true ∧
    (writePhase (failFrom 0) 300 seedState).num + ([] : List PlayEv).length < 50 := by
  refine ⟨?_, by decide +kernel, by decide +kernel, by decide +kernel⟩
  have h : (iter true (failFrom 0) 300 50 Conn.init seedInbox).rest = [] ++ PlayEv.disconnect :: [] := by
    decide +kernel
  rw [← h]
  exact Reach.step Reach.start (by decide +kernel) (by decide +kernel) (by decide +kernel)

/-- The real model on that input: clean, as the theorem says. -/
example : (runLoop true (failFrom 0) 300 50 seedInbox).map
      (fun r => (r.errors, r.exitCalls, r.closed, r.lost)) =
    some (0, 1, true, [.keepAlive 0, .keepAlive 1]) := by decide +kernel

/-- Seeded change 1 (l.648-649 deleted: `exc_info` is not forgotten when the disconnect packet is
read): on `seedInbox` the changed code reports an error and skips the exit callback, contradicting
the conclusion `errors = 0 ∧ exitCalls = 1` of `disconnect_after_failed_write_clean`. -/
theorem seeded_no_clear_detected :
    (runLoopNoClear true (failFrom 0) 300 50 seedInbox).map (fun r => (r.errors, r.exitCalls)) =
      some (1, 0) ∧
    (runLoop true (failFrom 0) 300 50 seedInbox).map (fun r => (r.errors, r.exitCalls)) =
      some (0, 1) := by
  decide +kernel

/-- Seeded change 2 (`except IOError` of the write phase narrowed so that the error of `send` is
not caught): the exception leaves `_run` from the write phase; same contradiction. -/
theorem seeded_narrow_except_detected :
    (runLoopNarrow true (failFrom 0) 300 50 seedInbox).map (fun r => (r.errors, r.exitCalls)) =
      some (1, 0) ∧
    (runLoop true (failFrom 0) 300 50 seedInbox).map (fun r => (r.errors, r.exitCalls)) =
      some (0, 1) := by
  decide +kernel

/-! ### Non-vacuity: concrete runs (kernel-evaluated) -/

private def demoInbox : List PlayEv :=
  [.keepAlive 1, .posLook 10 64 (-3) 90 0 0 7, .unknown 200 [0xaa], .other "chat message",
   .keepAlive 2, .disconnect, .keepAlive 3]

/-- Tiny caps, the first and the third write fail (not a monotone pattern): the write phase of the
2nd iteration fails at once, its read phase reaches the disconnect packet — clean; the flush of
`disconnect()` gets one packet through and loses another. -/
example : runLoop true (fun k => k == 0 || k == 2) 2 3 demoInbox =
    some { wire := [.teleportConfirm 7], lost := [.keepAlive 1, .keepAlive 2], unsent := [],
           delivered := [.keepAlive 1, .posLook 10 64 (-3) 90 0 0 7, .unknown 200 [],
                         .other "chat message", .keepAlive 2, .disconnect],
           spawned := true, closed := true, exitCalls := 1, errors := 0 } := by decide +kernel

/-- Same inbox and caps, peer gone from the second write on, read cap 1: the read phase after the
failed write cannot reach the disconnect packet — error, exit callback skipped, one packet lost. -/
example : runLoop true (failFrom 1) 2 1 demoInbox =
    some { wire := [.keepAlive 1], lost := [.teleportConfirm 7], unsent := [],
           delivered := [.keepAlive 1, .posLook 10 64 (-3) 90 0 0 7, .unknown 200 []],
           spawned := true, closed := true, exitCalls := 0, errors := 1 } := by decide +kernel

/-- No failing write: the result of `Model/Play.lean` (first example of `Props/C11.lean`). -/
example : (runLoop true (fun _ => false) 300 50 demoInbox).map Result.toPlay =
    Play.runLoop true true 300 50 demoInbox := by decide +kernel

/-- The hypothesis of `no_failed_write_conservative` is satisfiable by a pattern that does fail
later, and that of `no_disconnect_error_iff` by a failing one. -/
example : ∀ k, k < (fullWire true demoInbox).length → failFrom 3 k = false := by decide +kernel
example : hasDisc [PlayEv.keepAlive 1, .keepAlive 2] = false ∧
    ∃ k, k < (fullWire true [PlayEv.keepAlive 1, .keepAlive 2]).length ∧ failFrom 1 k = true :=
  ⟨by decide, 1, by decide, by decide⟩

/-- `sift`: writes 0 and 2 succeed, write 1 fails. -/
example : sift (fun k => k == 1) 0 [Reply.keepAlive 5, .keepAlive 6, .keepAlive 7] =
    ([.keepAlive 5, .keepAlive 7], [.keepAlive 6]) := by decide +kernel

end PyCraft.C11Errors
