import PyCraft.Lemmas.C18Keys
/-!
# C18 — key = IV = the shared secret under AES-128, and the secret is a fresh draw per login

Closes the two clauses of C18 that `Props/C18.lean` / `Props/C10Wire.lean` leave without a theorem
(audit_report.md, ranks 9 and 10):

* "AES-128-CFB8 (key and IV both equal to the shared secret)": part A.  The channel state `KChan`
  carries the KEY; the block function is the concrete `aes128 key` (`Model/Aes.lean`), not an
  arbitrary `E`; `KChan.create` is `create_AES_cipher` + `encryptor()` + `decryptor()`.
* "The shared secret is 16 fresh random bytes per login": part B.  `os.urandom` is an oracle
  (`Urandom.draw n` = what the n-th call of the process returns, 16 bytes), `execK` the login
  reactor drawing from it, writing through the real NESTED wrapper stack.  "Fresh" = each reached
  request makes exactly one new call, the call numbers are consecutive and never repeat — within a
  login, across logins on any connections of the process — and that draw (nothing else) is what is
  RSA-encrypted into the reply, hashed for `join`, and installed as key and IV.
* "RSA PKCS#1 v1.5 … so that the key holder recovers them exactly": part C derives the recovery law
  that `Model/Login.lean` assumes of its `Rsa` parameter from RFC 8017 §7.2 over an abstract RSA
  permutation.
* `Props/C18KeysLive.lean` re-checks A–C against the LIVE code on every run
  (`Generated/C18Keys.lean`, produced by `harness/gen/c18keys.py` from the real
  `LoginReactor.react`).

Each clause comes with refutations: models of CHANGED code (constant secret, secret drawn once and
kept, reversed / constant key, constant IV, a separate decryptor for the file wrapper) violate the
corresponding theorem on a concrete instance (`decide +kernel`).

Only property theorems and non-vacuity examples live here; helper lemmas, the spec predicates
(`ChannelSpec`, `FreshSpec`) and the concrete parameters (`demoKP`, `demoLogin`, `demoTwice`) are in
`Lemmas/C18Keys.lean`, the definitions in `Model/C18Keys.lean`.
-/
namespace PyCraft.C18Keys
open PyCraft PyCraft.Login PyCraft.LoginWire PyCraft.Keys

/-! ## A. the channel is AES-128-CFB8 with key = IV = secret -/

/-- `create_AES_cipher(secret)` + `encryptor()` + `decryptor()` succeeds exactly on 16-byte
secrets, and then the AES key, the encryptor's register (IV) and the decryptor's register (IV) are
all the secret; otherwise `ValueError`. -/
theorem create_iff (secret : Bytes) :
    (secret.length = 16 ∧ KChan.create secret = .ok ⟨secret, secret, secret⟩) ∨
      (secret.length ≠ 16 ∧ KChan.create secret = .error .value) := by
  by_cases h : secret.length = 16
  · exact Or.inl ⟨h, create_of_len secret h⟩
  · exact Or.inr ⟨h, create_err secret h⟩

/-- The channel pyCraft sets up from a secret, over ANY interleaving of `send` / `recv` / `read`
calls on the two wrappers: the bytes handed to the inner socket, concatenated, are the CFB8
encryption UNDER AES-128 KEYED BY THE SECRET, with IV = THE SECRET, of everything passed to `send`;
the bytes returned by `recv` and `read` (one shared decryptor), concatenated in call order, are the
CFB8 decryption under the same key and IV of everything the inner socket / file returned; the key
never changes; both registers stay 16 bytes long (AES is only ever applied to whole blocks). -/
theorem pycraft_channel (secret : Bytes) (c : KChan) (ops : List Op)
    (h : KChan.create secret = .ok c) :
    let r := KChan.run c ops
    secret.length = 16 ∧ c = ⟨secret, secret, secret⟩ ∧
      (outsOf Op.isSend ops r.2).flatten =
        (cfb8Enc (aes128 secret) secret (ops.flatMap Op.sent)).2 ∧
      (outsOf Op.isRecv ops r.2).flatten =
        (cfb8Dec (aes128 secret) secret (ops.flatMap Op.rcvd)).2 ∧
      r.1.key = secret ∧
      r.1.encReg = (cfb8Enc (aes128 secret) secret (ops.flatMap Op.sent)).1 ∧
      r.1.decReg = (cfb8Dec (aes128 secret) secret (ops.flatMap Op.rcvd)).1 ∧
      r.1.encReg.length = 16 ∧ r.1.decReg.length = 16 ∧ r.2.length = ops.length := by
  intro r
  obtain ⟨hl, rfl⟩ := create_ok_inv secret c h
  obtain ⟨r1, r2, r3⟩ := KChan.run_toChan ⟨secret, secret, secret⟩ ops
  have hs := run_sent (aes128 secret) ⟨secret, secret⟩ ops
  have hr := run_rcvd (aes128 secret) ⟨secret, secret⟩ ops
  have hne : secret ≠ [] := by intro h0; simp [h0] at hl
  have he : r.1.encReg = (cfb8Enc (aes128 secret) secret (ops.flatMap Op.sent)).1 := by
    rw [← congrArg Prod.fst hs]; exact congrArg Chan.encReg r3
  have hd : r.1.decReg = (cfb8Dec (aes128 secret) secret (ops.flatMap Op.rcvd)).1 := by
    rw [← congrArg Prod.fst hr]; exact congrArg Chan.decReg r3
  refine ⟨hl, rfl, ?_, ?_, r2, he, hd, ?_, ?_, ?_⟩
  · show (outsOf Op.isSend ops (KChan.run _ ops).2).flatten = _
    rw [r1]; exact congrArg Prod.snd hs
  · show (outsOf Op.isRecv ops (KChan.run _ ops).2).flatten = _
    rw [r1]; exact congrArg Prod.snd hr
  · rw [he, cfb8Enc_reg_length _ _ _ hne]; exact hl
  · rw [hd, cfb8Dec_reg_length _ _ _ hne]; exact hl
  · show (KChan.run _ ops).2.length = _
    rw [r1]; exact run_length _ _ ops

/-- The same as a predicate on (constructor, wrappers), the form the refutations below negate. -/
theorem pycraft_channel_spec : ChannelSpec KChan.create fun c ops => (KChan.run c ops).2 := by
  intro secret c ops h
  obtain ⟨-, -, a, b, -⟩ := pycraft_channel secret c ops h
  exact ⟨a, b⟩

/-- Two peers that each run `create_AES_cipher` on the same secret interoperate, whatever the
chunking and interleaving on either side: if what A's inner socket was handed is what B's inner
socket / file returns, B's `recv`/`read` calls return exactly what A passed to `send`. -/
theorem pycraft_channel_roundtrip (secret : Bytes) (cA cB : KChan) (opsA opsB : List Op)
    (hA : KChan.create secret = .ok cA) (hB : KChan.create secret = .ok cB)
    (h : opsB.flatMap Op.rcvd = (outsOf Op.isSend opsA (KChan.run cA opsA).2).flatten) :
    (outsOf Op.isRecv opsB (KChan.run cB opsB).2).flatten = opsA.flatMap Op.sent := by
  obtain ⟨-, -, a, -⟩ := pycraft_channel secret cA opsA hA
  obtain ⟨-, -, -, b, -⟩ := pycraft_channel secret cB opsB hB
  rw [b, h, a]
  exact (cfb8Dec_enc (aes128 secret) secret _).1

/-- CFB8 as NIST SP 800-38A §6.3 (s = 8) states it, index by index and without reference to the
recursive definition: ciphertext byte `i` is plaintext byte `i` XOR the most significant byte of
the block function applied to the LAST `|iv|` BYTES OF `iv ‖ c[0..i)` (the shift register after `i`
steps); decryption XORs the same key-stream byte onto the ciphertext; the register after the whole
input is the last `|iv|` bytes of `iv ‖ c`.  For every block function and every non-empty IV. -/
theorem cfb8_spec (E : Bytes → Bytes) (iv p : Bytes) (hiv : iv ≠ []) :
    let c := (cfb8Enc E iv p).2
    (∀ i (hi : i < p.length),
        c[i]? = some (p[i] ^^^ cfb8Key E ((iv ++ c.take i).drop i)) ∧
          ((iv ++ c.take i).drop i).length = iv.length) ∧
      (∀ i (hi : i < c.length),
        (cfb8Dec E iv c).2[i]? = some (c[i] ^^^ cfb8Key E ((iv ++ c.take i).drop i))) ∧
      (cfb8Enc E iv p).1 = (iv ++ c).drop p.length := by
  intro c
  refine ⟨fun i hi => ⟨cfb8Enc_getElem E iv p hiv i hi, ?_⟩,
    fun i hi => cfb8Dec_getElem E iv c hiv i hi, cfb8Enc_reg_window E iv p hiv⟩
  apply window_length
  show i ≤ (cfb8Enc E iv p).2.length
  rw [cfb8Enc_length]; omega

/-- SP 800-38A F.3.7's key, used here as the shared secret: key AND IV. -/
def katSecret : Bytes :=
  [0x2b, 0x7e, 0x15, 0x16, 0x28, 0xae, 0xd2, 0xa6, 0xab, 0xf7, 0x15, 0x88, 0x09, 0xcf, 0x4f, 0x3c]
/-- SP 800-38A F.3.7's plaintext `6bc1bee22e409f96e93d7e117393172aae2d`. -/
def katPlain : Bytes :=
  [0x6b, 0xc1, 0xbe, 0xe2, 0x2e, 0x40, 0x9f, 0x96, 0xe9, 0x3d, 0x7e, 0x11, 0x73, 0x93, 0x17, 0x2a,
   0xae, 0x2d]
/-- Its AES-128-CFB8 encryption with key = IV = `katSecret`, `14118e0710eb1b4ca30ae2de24747efb6173`,
as computed by two implementations that share no code with pyCraft or with this model
(`openssl enc -aes-128-cfb8 -K 2b7e…4f3c -iv 2b7e…4f3c` and a from-scratch Python AES). -/
def katCipher : Bytes :=
  [0x14, 0x11, 0x8e, 0x07, 0x10, 0xeb, 0x1b, 0x4c, 0xa3, 0x0a, 0xe2, 0xde, 0x24, 0x74, 0x7e, 0xfb,
   0x61, 0x73]

/-- A known answer with key = IV (the vectors of `Props/C18.lean` have key ≠ IV): one-shot, and
through the channel `create_AES_cipher` sets up with the first 7 bytes cut into `send` 3 + 4 and,
for the other direction, the first 5 bytes into `recv` 2 + file `read` 3. -/
theorem keyiv_known_answer :
    (cfb8Enc (aes128 katSecret) katSecret katPlain).2 = katCipher ∧
      KChan.create katSecret = .ok ⟨katSecret, katSecret, katSecret⟩ ∧
      (KChan.run ⟨katSecret, katSecret, katSecret⟩
          [.send (katPlain.take 3), .recv (katCipher.take 2), .send ((katPlain.drop 3).take 4),
            .read ((katCipher.drop 2).take 3)]).2 =
        [katCipher.take 3, katPlain.take 2, (katCipher.drop 3).take 4,
          (katPlain.drop 2).take 3] := by
  decide +kernel

/-! ### refutations: changed constructors / wrappers violate `pycraft_channel_spec` -/

/-- `algorithms.AES(shared_secret[::-1])`: the first ciphertext byte is already wrong. -/
theorem reversed_key_refuted :
    ¬ ChannelSpec KChan.createRevKey fun c ops => (KChan.run c ops).2 := by
  intro h
  have := (h katSecret ⟨katSecret.reverse, katSecret, katSecret⟩ [.send [0x6b]] (by decide)).1
  revert this; decide +kernel

/-- A constant AES key with `CFB8(shared_secret)`. -/
theorem constant_key_refuted :
    ¬ ChannelSpec KChan.createConstKey fun c ops => (KChan.run c ops).2 := by
  intro h
  have := (h katSecret ⟨List.replicate 16 0, katSecret, katSecret⟩ [.send [0x6b]] (by decide)).1
  revert this; decide +kernel

/-- `AES(shared_secret)` with a constant IV. -/
theorem constant_iv_refuted :
    ¬ ChannelSpec KChan.createConstIV fun c ops => (KChan.run c ops).2 := by
  intro h
  have := (h katSecret ⟨katSecret, List.replicate 16 0, List.replicate 16 0⟩ [.recv [0x14]]
    (by decide)).2
  revert this; decide +kernel

/-- A decryptor of its own for the file-object wrapper (`cipher.decryptor()` called twice): a
`read` after a `recv` starts from the IV again instead of continuing the stream. -/
theorem own_file_decryptor_refuted :
    ¬ ChannelSpec KChan.create fun c ops => (KChan.runOwnFileDec (c, c.decReg) ops).2 := by
  intro h
  have := (h katSecret ⟨katSecret, katSecret, katSecret⟩ [.recv [0x14], .read [0x11]]
    (by decide)).2
  revert this; decide +kernel

/-! ## B. the secret is a fresh draw per request, hence per login -/

/-- The `k`-th encryption request a login reaches (counting from 0; `pre` is everything before it,
any schedule, nothing terminal) uses draw number `n0 + k` of the process — `n0` being the number
of `os.urandom` calls made before the login: that draw is 16 bytes, `create_AES_cipher` accepts it
and sets key = both registers = it; the reply written at that moment carries RSA(that draw) and
RSA(token) under the request's key; the `join` hash (if any) is taken over that draw; it is the
`k`-th installed key, the earlier keys being draws `n0 … n0 + k − 1`; and whatever follows removes
none of this.  The reactor never ends with the cipher constructor's `ValueError`. -/
theorem secret_fresh (P : KeyParams) (n0 : Nat) (pre post : List Step) (sid : String)
    (pk tok : Bytes) (hpre : ∀ e ∈ events pre, e.isTerminal = false) :
    let k := (reqs (events pre)).length
    let d := P.rng.draw (n0 + k)
    let s0 := execK P (.init n0) pre
    let s2 := execK P (.init n0) (pre ++ .recv (.encRequest sid pk tok) :: post)
    s0.nDraws = n0 + k ∧ d.length = 16 ∧ KChan.create d = .ok ⟨d, d, d⟩ ∧
      (∃ later, s2.log =
        s0.log ++ ⟨replyOf P d pk tok, !s0.layers.isEmpty, s0.threshold, true⟩ :: later) ∧
      (∃ later, s2.joins = s0.joins ++ joinOf P d sid pk ++ later) ∧
      (∃ later, s2.keys = (List.range' n0 (k + 1)).map P.rng.draw ++ later) ∧
      s2.keys[k]? = some d ∧ ∀ e, s2.err ≠ some (.cipher e) := by
  intro k d s0 s2
  obtain ⟨h1, h2, h3, ⟨later, h4⟩⟩ := fresh_at_request P n0 pre post sid pk tok hpre
  exact ⟨h1, P.rng.len16 _, create_of_len _ (P.rng.len16 _), h2, h3, ⟨later, h4⟩,
    keys_at P.rng.draw n0 k _ later h4,
    err_not_cipher P _ _ (by intro e he; cases he)⟩

/-- After ANY run of a login that started when `n0` calls of `os.urandom` had been made: the
counter has advanced by exactly the number `k` of encryption requests the reactor reached; the
installed keys are, in installation order, exactly the draws `n0, …, n0 + k − 1` — one per
request, no call number twice; so if those draws are pairwise different (what "random" gives with
overwhelming probability) all keys of the login are pairwise different. -/
theorem keys_are_consecutive_draws (P : KeyParams) (n0 : Nat) (steps : List Step) :
    let s := execK P (.init n0) steps
    let k := (reqs (processed (events steps))).length
    s.nDraws = n0 + k ∧ s.keys = (List.range' n0 k).map P.rng.draw ∧ s.layers.length = k ∧
      (List.range' n0 k).Nodup ∧
      ((∀ i j, i < k → j < k → P.rng.draw (n0 + i) = P.rng.draw (n0 + j) → i = j) →
        s.keys.Nodup) := by
  intro s k
  obtain ⟨h1, h2⟩ := keys_execK P n0 steps
  refine ⟨h1, h2, ?_, List.nodup_range', fun hinj => ?_⟩
  · have := congrArg List.length h2
    simpa [KState.keys] using this
  · show (execK P (.init n0) steps).keys.Nodup
    rw [h2]; exact nodup_draws _ _ _ hinj

/-- Several logins of one process, on any connections, each preceded by any number (`gap`) of
unrelated `os.urandom` calls: all keys installed by all of them, in order, are the draws with the
call numbers `drawIdxs` — which are STRICTLY INCREASING (and ≥ the starting count).  No secret is
carried from one login to the next, none is drawn before it is needed, none is used twice. -/
theorem logins_use_disjoint_draws (P : KeyParams) (n : Nat) (runs : List (Nat × List Step)) :
    let counts := runs.map fun r => (r.1, (reqs (processed (events r.2))).length)
    (logins P n runs).flatMap KState.keys = (drawIdxs n counts).map P.rng.draw ∧
      (drawIdxs n counts).Pairwise (· < ·) ∧ (∀ i ∈ drawIdxs n counts, n ≤ i) :=
  ⟨logins_keys P n runs, drawIdxs_pairwise n _, drawIdxs_ge n _⟩

/-- The first conjunct as a predicate on the secret generator, the form the refutations negate. -/
theorem fresh_spec : FreshSpec genUrandom := fun P n runs => logins_keys P n runs

/-- What an encryption request does to the WIRE, from any reachable state `s` (any number of
cipher layers already installed) and for any continuation `post`.  The reply goes out through the
layers in place BEFORE the request (`sent`); then a layer with key = IV = the new draw `d` is put on
top.  Everything the continuation writes is, as ONE continuous stream, encrypted with
AES-128-CFB8 under `d` and then passed through the older layers — where "everything the
continuation writes" is what the same continuation hands to the real socket of a connection
WITHOUT any of these layers (`inner.wire`), which may itself contain further replies and further
nested ciphers.  The log of the run is the log before, the reply, and the log of `inner`. -/
theorem wire_after_request (P : KeyParams) (s : KState) (hs : s.alive = true) (sid : String)
    (pk tok : Bytes) (post : List Step) :
    let d := P.rng.draw s.nDraws
    let reply := replyOf P d pk tok
    let sent := updates stackSend s.layers (frameSends P.z s.threshold (payloadOf P.ids reply))
    let s1 := reactK P s (.encRequest sid pk tok)
    let inner := execK P { s1 with layers := [], wire := [], log := [] } post
    let full := execK P s (.recv (.encRequest sid pk tok) :: post)
    s1.wire = s.wire ++ sent.2 ∧ s1.layers = ⟨d, d, d⟩ :: sent.1 ∧ s1.nDraws = s.nDraws + 1 ∧
      full.wire.flatten =
        s.wire.flatten ++ sent.2.flatten ++
          (stackSend sent.1 (cfb8Enc (aes128 d) d inner.wire.flatten).2).2 ∧
      full.log =
        s.log ++ ⟨reply, !s.layers.isEmpty, s.threshold, true⟩ :: inner.log.map flagged := by
  intro d reply sent s1 inner full
  obtain ⟨h0, w, l⟩ := wire_after_request_aux P s hs sid pk tok post
  have hr := reactK_encRequest P s sid pk tok
  have hw : s1.wire = s.wire ++ sent.2 := by show (reactK P s _).wire = _; rw [hr]
  have hl : s1.layers = ⟨d, d, d⟩ :: sent.1 := by show (reactK P s _).layers = _; rw [hr]
  have hg : s1.log = s.log ++ [⟨reply, !s.layers.isEmpty, s.threshold, true⟩] := by
    show (reactK P s _).log = _; rw [hr]
  refine ⟨hw, hl, by show (reactK P s _).nDraws = _; rw [hr], ?_, ?_⟩
  · show (execK P s _).wire.flatten = _
    rw [h0, w]
    show s1.wire.flatten ++ (stackSend s1.layers inner.wire.flatten).2 = _
    rw [hw, hl, List.flatten_append, stackSend_cons]
  · show (execK P s _).log = _
    rw [h0, l]
    show s1.log ++ inner.log.map flagged = _
    rw [hg, List.append_assoc, List.singleton_append]

/-- `secret_fresh` and `wire_after_request` together: in a login started at call number `n0`, from
the `k`-th reached request on (`k` = number of requests in `pre`, which is also the number of
cipher layers then in place) the wire is what was there, the reply through those `k` layers, and
then — through them as well — the AES-128-CFB8 stream with key = IV = draw number `n0 + k` of
everything the continuation writes. -/
theorem wire_from_kth_request (P : KeyParams) (n0 : Nat) (pre post : List Step) (sid : String)
    (pk tok : Bytes) (hpre : ∀ e ∈ events pre, e.isTerminal = false) :
    let k := (reqs (events pre)).length
    let d := P.rng.draw (n0 + k)
    let s0 := execK P (.init n0) pre
    let sent := updates stackSend s0.layers
      (frameSends P.z s0.threshold (payloadOf P.ids (replyOf P d pk tok)))
    let s1 := reactK P s0 (.encRequest sid pk tok)
    let inner := execK P { s1 with layers := [], wire := [], log := [] } post
    let s2 := execK P (.init n0) (pre ++ .recv (.encRequest sid pk tok) :: post)
    s0.layers.length = k ∧
      s2.wire.flatten =
        s0.wire.flatten ++ sent.2.flatten ++
          (stackSend sent.1 (cfb8Enc (aes128 d) d inner.wire.flatten).2).2 := by
  intro k d s0 sent s1 inner s2
  obtain ⟨hn, -, hlen, -⟩ := keys_are_consecutive_draws P n0 pre
  rw [processed_of_live _ hpre] at hn hlen
  have hal : s0.alive = true := execK_alive P _ pre (init_alive n0) hpre
  obtain ⟨-, -, -, hw, -⟩ := wire_after_request P s0 hal sid pk tok post
  have hd : P.rng.draw s0.nDraws = d := by
    show P.rng.draw (execK P (.init n0) pre).nDraws = _
    rw [hn]
  refine ⟨hlen, ?_⟩
  have hs2 : s2 = execK P s0 (.recv (.encRequest sid pk tok) :: post) := by
    show execWith genUrandom KChan.create P _ (pre ++ _) = _
    rw [execWith_append]
  rw [hs2]
  rw [hd] at hw
  exact hw

/-- The usual case written out.  A request reaching a connection with NO cipher yet (`Bare`: the
wire so far is the plaintext frames of the log), no further request afterwards: the wire is the
plaintext frames written before, the PLAINTEXT frame of the reply carrying RSA(d), RSA(token), and
then the AES-128-CFB8 encryption with key = IV = `d` — `d` being draw number `s.nDraws` — of the
frames of everything written afterwards, as one stream.  (`C10Wire.wire_switch_at_reply` with the
abstract block function replaced by AES under the secret and the constant secret by the draw.) -/
theorem wire_single_layer (P : KeyParams) (s : KState) (hs : s.alive = true) (hb : Bare P s)
    (sid : String) (pk tok : Bytes) (post : List Step)
    (hpost : ∀ e ∈ events post, e.isEncRequest = false) :
    let d := P.rng.draw s.nDraws
    let reply := replyOf P d pk tok
    let full := execK P s (.recv (.encRequest sid pk tok) :: post)
    ∃ later, full.log = s.log ++ ⟨reply, false, s.threshold, true⟩ :: later ∧
      (∀ f ∈ later, f.encrypted = true) ∧
      full.wire.flatten =
        (s.log.map (frameOfSent P.z P.ids)).flatten ++
          frame P.z s.threshold (payloadOf P.ids reply) ++
          (cfb8Enc (aes128 d) d (later.map (frameOfSent P.z P.ids)).flatten).2 :=
  single_layer_aux P s hs hb sid pk tok post hpost

/-- Two requests in one login (what `Model/Login.lean`, with its single cipher flag and single
secret, cannot express): plaintext up to and including the first reply; then the FIRST cipher
(key = IV = draw `n0`) encrypts as one stream the frames written between the requests, the SECOND
reply (RSA of draw `n0 + 1`), and the output of the SECOND cipher (key = IV = draw `n0 + 1`), which
encrypts the frames written after the second request. -/
theorem wire_two_requests (P : KeyParams) (n0 : Nat) (pre mid post : List Step)
    (sid1 : String) (pk1 tok1 : Bytes) (sid2 : String) (pk2 tok2 : Bytes)
    (hpre : ∀ e ∈ events pre, e.isTerminal = false ∧ e.isEncRequest = false)
    (hmid : ∀ e ∈ events mid, e.isTerminal = false ∧ e.isEncRequest = false)
    (hpost : ∀ e ∈ events post, e.isEncRequest = false) :
    let d1 := P.rng.draw n0
    let d2 := P.rng.draw (n0 + 1)
    let s0 := execK P (.init n0) pre
    let full := execK P (.init n0) (pre ++ .recv (.encRequest sid1 pk1 tok1) ::
      (mid ++ .recv (.encRequest sid2 pk2 tok2) :: post))
    ∃ (thr2 : Option Int) (L1 L2 : List Sent),
      full.log = s0.log ++ ⟨replyOf P d1 pk1 tok1, false, s0.threshold, true⟩ ::
        (L1 ++ ⟨replyOf P d2 pk2 tok2, true, thr2, true⟩ :: L2) ∧
      (∀ f ∈ L1, f.encrypted = true) ∧ (∀ f ∈ L2, f.encrypted = true) ∧
      full.wire.flatten =
        (s0.log.map (frameOfSent P.z P.ids)).flatten ++
          frame P.z s0.threshold (payloadOf P.ids (replyOf P d1 pk1 tok1)) ++
          (cfb8Enc (aes128 d1) d1
            ((L1.map (frameOfSent P.z P.ids)).flatten ++
              frame P.z thr2 (payloadOf P.ids (replyOf P d2 pk2 tok2)) ++
              (cfb8Enc (aes128 d2) d2 (L2.map (frameOfSent P.z P.ids)).flatten).2)).2 :=
  two_requests_aux P n0 pre mid post sid1 pk1 tok1 sid2 pk2 tok2 hpre hmid hpost

/-- Tie to `Model/LoginWire.lean`.  For ANY run that reaches at most one encryption request, what
the real socket is handed is `LoginWire.wireBytes` of the log with the block function INSTANTIATED
to AES-128 under draw `n0` and the register to draw `n0`; the log has the switch discipline
(plaintext up to and including the reply, encrypted afterwards); and either no cipher was
installed and no reply written, or exactly one, keyed by draw `n0`, whose reply is
RSA(draw `n0`), RSA(token) under the key of a request of the script. -/
theorem wire_is_login_wire (P : KeyParams) (n0 : Nat) (steps : List Step)
    (h1 : (reqs (processed (events steps))).length ≤ 1) :
    let s := execK P (.init n0) steps
    let d := P.rng.draw n0
    s.wire.flatten = wireBytes P.z (aes128 d) d P.ids s.log ∧ switchOK false s.log = true ∧
      ((s.keys = [] ∧ hasEncResp s.log = false) ∨
        (s.keys = [d] ∧ hasEncResp s.log = true ∧
          ∃ sid pk tok, LoginEv.encRequest sid pk tok ∈ events steps ∧
            firstEncResp s.log = some (P.base.rsa.enc pk d, P.base.rsa.enc pk tok))) :=
  one_layer_final P n0 steps h1

/-- Hence the independent reference server of `Model/LoginWire.lean`, run with the REAL block
cipher (`aes128`) keyed by what it RSA-decrypts from the reply, recovers every packet of such a run
from the real socket's bytes in any segmentation — and the key it ends up with is the client's
draw (none if no request was reached). -/
theorem reference_server_recovers (P : KeyParams) (n0 : Nat) (steps : List Step) (zl : Zlib)
    (priv : Bytes) (segs : Segs) (hz : P.z = zl.toZlibOps)
    (h1 : (reqs (processed (events steps))).length ≤ 1)
    (hids : P.ids.encResp ≠ P.ids.plugResp)
    (hkey : ∀ sid pk tok, LoginEv.encRequest sid pk tok ∈ events steps →
      P.base.rsa.matching pk priv)
    (hok : ∀ f ∈ (execK P (.init n0) steps).log, FrameOK P.z f.threshold (wirePkt P.ids f))
    (hseg : segs.flatten = (execK P (.init n0) steps).wire.flatten) :
    let s := execK P (.init n0) steps
    let r := serverRecover P.z aes128 (P.base.rsa.dec priv) P.ids.encResp (modesOf s.log) segs
    r.packets = s.log.map (wirePkt P.ids) ∧ r.err = none ∧ r.rest = [] ∧ r.key = s.keys.head? := by
  intro s r
  obtain ⟨hw, hsw, hcase⟩ := one_layer_final P n0 steps h1
  have hk : ∀ a b, firstEncResp s.log = some (a, b) →
      P.base.rsa.dec priv a = P.rng.draw n0 := by
    intro a b hab
    rcases hcase with ⟨-, hno⟩ | ⟨-, -, sid, pk, tok, hm, hf⟩
    · have : (firstEncResp s.log).isSome = false := by rw [← hasEncResp_iff_first]; exact hno
      rw [hab] at this; cases this
    · have hf' : firstEncResp s.log = _ := hf
      rw [hf'] at hab
      simp only [Option.some.injEq, Prod.mk.injEq] at hab
      rw [← hab.1]; exact P.base.rsa.law pk priv _ (hkey sid pk tok hm)
  have hrun : r = ⟨s.log.map (wirePkt P.ids),
      if hasEncResp s.log then some (P.rng.draw n0) else none, none, []⟩ := by
    show serverRecover P.z aes128 _ _ _ segs = _
    rw [hz] at hok hw ⊢
    exact recvPlain_outbox zl aes128 (P.base.rsa.dec priv) (P.rng.draw n0) P.ids hids s.log
      (Sock.plain segs) hsw hok hk (hseg.trans hw)
  rw [hrun]
  refine ⟨rfl, rfl, rfl, ?_⟩
  rcases hcase with ⟨hk0, hno⟩ | ⟨hk1, hhas, -⟩
  · have hk0' : s.keys = [] := hk0
    have hno' : hasEncResp s.log = false := hno
    simp [hk0', hno']
  · have hk1' : s.keys = [P.rng.draw n0] := hk1
    have hhas' : hasEncResp s.log = true := hhas
    simp [hk1', hhas']

/-- Tie to `Model/Login.lean`.  For ANY run that reaches at most one encryption request this model
and the login model of `Props/C10.lean` / `Props/C10Wire.lean` — run with its one `secret`
parameter set to draw `n0` — agree on everything the login model has: the written frames with
their modes, threshold, reactor, queue, `join` calls, the error, and the cipher flag.  So every C10 /
C10Wire theorem about such a run holds of this model with `secret := draw n0` and (by
`wire_is_login_wire`) `E := aes128 (draw n0)`; beyond one request the login model's single secret
and single cipher no longer describe the code (`second_request_nests`). -/
theorem login_model_agrees (P : KeyParams) (n0 : Nat) (steps : List Step)
    (h1 : (reqs (processed (events steps))).length ≤ 1) :
    let cs := exec (P.login (P.rng.draw n0)) .init steps
    let ks := execK P (.init n0) steps
    ks.log = cs.outbox ∧ ks.threshold = cs.threshold ∧ ks.reactor = cs.reactor ∧
      ks.queue = cs.queue ∧ ks.joins = cs.joins ∧ ks.err = cs.err.map KErr.login ∧
      cs.encrypted = !ks.layers.isEmpty := by
  intro cs ks
  obtain ⟨a, b, c, d, e, f, g⟩ := sim_final P n0 steps h1
  exact ⟨a, b, c, d, e, f, g⟩

/-- A second request really nests: on the concrete run `demoTwice` (two requests, a plugin request
after each) the bytes the real socket gets are NOT the single-cipher wire of `Model/LoginWire.lean`
for the same log — the one-layer reading of `C10Wire.wire_switch_at_reply` "for any continuation"
does not describe the code there; `wire_two_requests` does. -/
theorem second_request_nests :
    let s := execK demoKP (.init 0) demoTwice
    s.keys = [demoKP.rng.draw 0, demoKP.rng.draw 1] ∧
      s.wire.flatten ≠
        wireBytes demoKP.z (aes128 (demoKP.rng.draw 0)) (demoKP.rng.draw 0) demoKP.ids s.log := by
  decide +kernel

/-! ### refutations: changed secret generation violates `fresh_spec` -/

/-- Two logins with one request each (one unrelated draw in between). -/
def twoLogins : List (Nat × List Step) := [(0, demoLogin), (1, demoLogin)]

/-- `def generate_shared_secret(): return b'\0' * 16`. -/
theorem zero_secret_refuted : ¬ FreshSpec genZero := by
  intro h
  have := h demoKP 0 twoLogins
  revert this; decide +kernel

/-- The secret drawn once — at import time, when the `Connection` is created, or at its first login
(whichever call number `c` that is) — and kept for later logins: two logins then install the same
key, while `fresh_spec` demands two different draws. -/
theorem kept_secret_refuted (c : Nat) : ¬ FreshSpec (genFixed c) := by
  intro h
  have h2 := h demoKP 0 twoLogins
  have hr : (drawIdxs 0 (twoLogins.map fun r => (r.1, (reqs (processed (events r.2))).length))).map
      demoKP.rng.draw = [demoKP.rng.draw 0, demoKP.rng.draw 2] := by decide +kernel
  have hall := logins_keys_from_gen (genFixed c) demoKP (· = demoKP.rng.draw c) (fun _ => rfl) 0
    twoLogins
  rw [h2, hr] at hall
  have h0 := hall (demoKP.rng.draw 0) (by simp)
  have h2' := hall (demoKP.rng.draw 2) (by simp)
  have h02 : demoKP.rng.draw 0 = demoKP.rng.draw 2 := h0.trans h2'.symm
  revert h02; decide +kernel

/-! ## C. PKCS#1 v1.5: the key holder recovers secret and token exactly -/

/-- RSAES-PKCS1-v1_5 (RFC 8017 §7.2) over ANY RSA key pair — the only property of RSA used is that
the private-key operation inverts the public-key operation below the modulus — and for ANY lawful
padding string the library may draw (`k − mLen − 3` nonzero octets): every message of at most
`k − 11` octets is accepted, the ciphertext is `k` octets long, and decryption returns the message
exactly.  This is the recovery law `Model/Login.lean` assumes of its `Rsa` parameter (and
`C10.enc_reply_then_encrypted` concludes from), here derived; longer messages are refused
("message too long", Python `ValueError`). -/
theorem pkcs1_key_holder_recovers (T : Trapdoor) (ps m : Bytes) (hps : PsOK T.k ps m) :
    (m.length + 11 ≤ T.k →
      ∃ c, rsaesEncrypt T ps m = .ok c ∧ c.length = T.k ∧ rsaesDecrypt T c = .ok m) ∧
    (T.k < m.length + 11 → rsaesEncrypt T ps m = .error .value) :=
  ⟨rsaes_dec_enc T ps m hps, rsaes_too_long T ps m⟩

/-- What pyCraft sends fits: the 16-byte secret and any verify token of up to 64 bytes are within
the limit under 1024-bit (`k = 128`) and 2048-bit (`k = 256`) keys — so for those the key holder
recovers both exactly, whatever the padding. -/
theorem login_messages_recovered (T : Trapdoor) (hk : T.k = 128 ∨ T.k = 256) (secret token : Bytes)
    (ps1 ps2 : Bytes) (hs : secret.length = 16) (ht : token.length ≤ 64)
    (h1 : PsOK T.k ps1 secret) (h2 : PsOK T.k ps2 token) :
    (∃ c, rsaesEncrypt T ps1 secret = .ok c ∧ rsaesDecrypt T c = .ok secret) ∧
      (∃ c, rsaesEncrypt T ps2 token = .ok c ∧ rsaesDecrypt T c = .ok token) := by
  obtain ⟨c1, a1, -, b1⟩ := rsaes_dec_enc T ps1 secret h1 (by omega)
  obtain ⟨c2, a2, -, b2⟩ := rsaes_dec_enc T ps2 token h2 (by omega)
  exact ⟨⟨c1, a1, b1⟩, ⟨c2, a2, b2⟩⟩

/-! ## Non-vacuity -/

-- `create_iff`: both branches occur; 24- and 32-byte secrets are valid AES keys but not valid IVs
example : KChan.create katSecret = .ok ⟨katSecret, katSecret, katSecret⟩ ∧
    KChan.create [1, 2, 3] = .error .value ∧
    KChan.create (List.replicate 24 7) = .error .value ∧
    KChan.create (List.replicate 32 7) = .error .value := by decide

-- `pycraft_channel` / `pycraft_channel_roundtrip`: hypotheses met by `katSecret`, with a
-- non-trivial interleaving (the conclusion evaluated in `keyiv_known_answer`)
example : ∃ c, KChan.create katSecret = .ok c := ⟨_, rfl⟩

-- `cfb8_spec`: a 16-byte IV and an 18-byte plaintext; byte 17's register window is the last 16
-- ciphertext bytes
example : katSecret ≠ [] ∧ katPlain.length = 18 ∧
    (katSecret ++ katCipher.take 17).drop 17 = (katCipher.drop 1).take 16 := by decide

-- `secret_fresh` with k = 1: a prefix that contains a request and nothing terminal
example : (∀ e ∈ events (schedule 1 [.encRequest "srv" [7, 8] [9], .pluginRequest 5 "ch" [1]]),
      e.isTerminal = false) ∧
    (reqs (events (schedule 1 [.encRequest "srv" [7, 8] [9], .pluginRequest 5 "ch" [1]]))).length =
      1 := by decide

-- … and the conclusion on `demoTwice` evaluated: counter, keys, the join of the first request only
-- (the second has server id "-"), both replies in the log
example :
    let s := execK demoKP (.init 5) demoTwice
    s.nDraws = 7 ∧ s.keys = [List.replicate 16 6, List.replicate 16 7] ∧
      s.joins = ["srv/06060606060606060606060606060606/0708"] ∧
      (s.log.filter fun f => isEncResp f.pkt).map (·.pkt) =
        [.encResp (7 :: List.replicate 16 6) [7, 9], .encResp (3 :: List.replicate 16 7) [3, 6]] ∧
      s.log.map (·.encrypted) = [false, true, true, true] := by decide +kernel

-- `keys_are_consecutive_draws`: the injectivity hypothesis holds for the demo oracle
example : ∀ i j, i < 2 → j < 2 → demoKP.rng.draw (0 + i) = demoKP.rng.draw (0 + j) → i = j := by
  intro i j hi hj
  have h : ∀ i, i < 2 → ∀ j, j < 2 → demoKP.rng.draw (0 + i) = demoKP.rng.draw (0 + j) → i = j := by
    decide
  exact h i hi j hj

-- `logins_use_disjoint_draws`: two logins, one unrelated draw in between: call numbers 0 and 2
example : drawIdxs 0 (twoLogins.map fun r => (r.1, (reqs (processed (events r.2))).length)) =
    [0, 2] := by decide +kernel

-- `wire_after_request` / `wire_single_layer`: an alive, bare state that has already written a frame
example :
    let s := execK demoKP (.init 0) [.recv (.pluginRequest 300 "a" []), .flush, .recv (.setCompression 1)]
    s.alive = true ∧ s.layers = [] ∧ s.log.length = 1 ∧
      s.wire.flatten = (s.log.map (frameOfSent demoKP.z demoKP.ids)).flatten := by decide +kernel

-- `wire_two_requests`: the hypotheses are met by `demoTwice` cut at its two requests
example : demoTwice =
    [.flush] ++ .recv (.encRequest "srv" [7, 8] [9]) ::
      ([.flush, .recv (.pluginRequest 5 "ch" [1]), .flush] ++ .recv (.encRequest "-" [3, 4] [6]) ::
        [.flush, .recv (.pluginRequest 6 "ch" []), .flush, .recv .success, .flush]) := by decide

-- `wire_is_login_wire` / `reference_server_recovers`: `demoLogin` reaches one request; its wire:
-- plaintext reply, then the plugin response encrypted under AES keyed by draw 0
example : (reqs (processed (events demoLogin))).length = 1 ∧
    (execK demoKP (.init 0) demoLogin).wire.flatten =
      [0x16, 0x01, 0x11, 0x07, 1, 1, 1, 1, 1, 1, 1, 1, 1, 1, 1, 1, 1, 1, 1, 1, 0x02, 0x07, 0x09] ++
        (cfb8Enc (aes128 (List.replicate 16 1)) (List.replicate 16 1) [0x03, 0x02, 0x05, 0x00]).2 := by
  decide +kernel

-- `login_model_agrees`: on `demoLogin` both models write the same two frames (and on `demoTwice`,
-- which reaches two requests, they do not: the second reply carries another secret)
example : (execK demoKP (.init 0) demoLogin).log =
      (exec (demoKP.login (demoKP.rng.draw 0)) .init demoLogin).outbox ∧
    (execK demoKP (.init 0) demoLogin).log.length = 2 ∧
    (execK demoKP (.init 0) demoTwice).log ≠
      (exec (demoKP.login (demoKP.rng.draw 0)) .init demoTwice).outbox := by decide +kernel

-- `pkcs1_key_holder_recovers`: a toy key pair (k = 12, modulus 2^88 = 256^11, RSAEP = RSADP = flip
-- the lowest bit) and a lawful padding string for a 1-byte message; both branches occur
def toyT : Trapdoor :=
  { k := 12, n := 2 ^ 88, f := fun x => x ^^^ 1, finv := fun y => y ^^^ 1,
    n_lo := by decide, n_hi := by decide,
    f_lt := fun x hx => Nat.xor_lt_two_pow hx (by decide),
    inv := fun x _ => by simp [Nat.xor_assoc] }

example : PsOK toyT.k [9, 8, 7, 6, 5, 4, 3, 2] [0x2a] ∧
    rsaesEncrypt toyT [9, 8, 7, 6, 5, 4, 3, 2] [0x2a] = .ok [0, 2, 9, 8, 7, 6, 5, 4, 3, 2, 0, 0x2b] ∧
    rsaesDecrypt toyT [0, 2, 9, 8, 7, 6, 5, 4, 3, 2, 0, 0x2b] = .ok [0x2a] ∧
    rsaesEncrypt toyT [9, 8, 7, 6, 5, 4, 3] [0x2a, 0x2b] = .error .value := by decide +kernel

-- the decoder rejects what RFC 8017 §7.2.2 step 3 rejects: wrong first/second octet, a padding
-- string shorter than 8, no separator
example : emeDecode [1, 2, 9, 8, 7, 6, 5, 4, 3, 2, 0, 5] = .error .value ∧
    emeDecode [0, 1, 9, 8, 7, 6, 5, 4, 3, 2, 0, 5] = .error .value ∧
    emeDecode [0, 2, 9, 8, 7, 6, 5, 4, 3, 0, 5, 5] = .error .value ∧
    emeDecode [0, 2, 9, 8, 7, 6, 5, 4, 3, 2, 1, 5] = .error .value ∧
    emeDecode [0, 2, 9, 8, 7, 6, 5, 4, 3, 2, 0, 5] = .ok [5] := by decide

end PyCraft.C18Keys
