import PyCraft.Lemmas.C14ComposeRun
import PyCraft.Lemmas.C14ComposeLife
import PyCraft.Props.C14
import PyCraft.Props.C16
/-!
# C14, composed — from the origin of an exception to a reusable connection

Closes rank 4 of `docs/audit_report.md`: "nothing connects an exception's ORIGIN to the chain, nor
the chain to 'ends that thread, closes the connection (unless a handler already started a new one)
… can connect again'".

PART I is about `Model/C14Compose.lean` (`ExcFlow`): ONE networking thread from `_run` to the end
of `run`, sequentially, with listeners / reaction / `read_packet` / write phase / exit callback
that can raise, with handlers that can call `disconnect()` and `connect()`, with the `exc_info`
pair, with the final locked block.  Every theorem is for ALL setups (hierarchies, listeners,
reactions, reactor handlers, handler chains, final handlers, exit callbacks), ALL write and read
scripts and ALL start states of the connection (subject to the stated, satisfiable hypotheses).

PART II is about the transition system `Model/Lifecycle.lean` (`Life`): the same facts for ALL
server behaviours, user programs, reconnect budgets and schedules — what other threads do
between the `except` clause and the final block cannot invalidate them.

PART III refutes, on concrete instances by kernel evaluation, the three code changes of the audit
that pass every earlier theorem (`except IgnorePacket` → `except Exception` in `_react`;
`read_packet` wrapped in a `try` that yields `None`; `self.interrupt = True` deleted from `run`).

Vocabulary (`Lemmas/C14Compose*.lean`): `stagesX` = documented call sequence for a packet;
`cutAfterFirst DEv.notOk` = cut just after the first callback that does not return normally;
`TEv.raisedExc ev = some e` = the log event `ev` let `e` escape into the thread;
`TEv.isActivity` = events of `_run` / `_handle_exit`; `HxOut.events` = calls and final block of
`_handle_exception`; `effR / effHandlers / effFin` = the reactor's handler, the handlers and the
final handler AS THEY BEHAVED (nominal behaviour, or `raises InvalidState` when a `connect()`
inside them was refused); `Conn.FreshNew c` = an uninterrupted `new_networking_thread` owns the
open socket of the latest `_connect()`.
-/
namespace PyCraft.C14Compose
open PyCraft PyCraft.ExcFlow

/-! ## PART I — one thread, from origin to end -/

/-- `react_is_spec` (origin inside `_react`): the callbacks invoked for a packet are the documented
sequence — matching early listeners in registration order, the reaction, matching ordinary
listeners — cut just after the FIRST one that does not return normally; the `disconnect()` calls
of exactly those callbacks are applied; and `_react` lets `e` escape iff that first one raised `e`
(`IgnorePacket` is swallowed, nothing else is). -/
theorem react_is_spec (hier : Hier) (early ordinary : List XListener) (rx : PCb) (cls : Nat)
    (c : Conn) :
    (reactX hier early ordinary rx cls c).1 =
      cutAfterFirst DEv.notOk (stagesX hier early ordinary rx cls) ∧
    (reactX hier early ordinary rx cls c).2.1 =
      applyDiscs c (reactX hier early ordinary rx cls c).1 ∧
    ((reactX hier early ordinary rx cls c).2.2 = .done ↔
      ∀ ev ∈ stagesX hier early ordinary rx cls, ev.out = .ok) ∧
    (∀ e, (reactX hier early ordinary rx cls c).2.2 = .escaped e ↔
      ∃ ev, (stagesX hier early ordinary rx cls).find? DEv.notOk = some ev ∧ ev.out = .raises e) ∧
    ((reactX hier early ordinary rx cls c).2.2 = .ignored ↔
      ∃ ev, (stagesX hier early ordinary rx cls).find? DEv.notOk = some ev ∧ ev.out = .ignore) := by
  rw [reactX_eq]
  refine ⟨rfl, rfl, ?_, ?_, ?_⟩
  · constructor
    · intro h ev hev
      have := classify_find_done _ h
      have h2 : DEv.notOk ev = false := by
        cases hh : DEv.notOk ev with
        | false => rfl
        | true =>
          have : (stagesX hier early ordinary rx cls).any DEv.notOk = true :=
            List.any_eq_true.mpr ⟨ev, hev, hh⟩
          simp_all
      cases ho : ev.out <;> simp_all [DEv.notOk, LOut.isOk]
    · intro h
      have : (stagesX hier early ordinary rx cls).find? DEv.notOk = none := by
        apply List.find?_eq_none.mpr
        intro x hx
        simp [DEv.notOk, h x hx, LOut.isOk]
      simp only [this, classify]
  · intro e
    cases hf : (stagesX hier early ordinary rx cls).find? DEv.notOk with
    | none => simp [classify]
    | some ev =>
      have := List.find?_some hf
      cases ho : ev.out <;> simp_all [classify, DEv.notOk, LOut.isOk]
  · cases hf : (stagesX hier early ordinary rx cls).find? DEv.notOk with
    | none => simp [classify]
    | some ev =>
      have := List.find?_some hf
      cases ho : ev.out <;> simp_all [classify, DEv.notOk, LOut.isOk]

/-- `exception_enters_chain` (origin → chain → end of thread): in the log of ANY run of the
networking thread, an event that let an exception `e` escape — a listener's callback or the
reaction (via `_react`), `read_packet`, the write phase, the deferred write error, the exit
callback — is preceded only by activity events that let nothing escape, and is followed by
EXACTLY: `self.interrupt = True`, the calls and the final block of
`_handle_exception(e, exc_info)` with `exc_info[1] = e` run on the connection as it then was (own
flag set), and `networking_thread = None`.  So the thread has ended, no packet is read, written or
dispatched afterwards, the first call of the chain is the reactor's handler with exactly `e`, the
exception leaving `run` is the one `_handle_exception` re-raises, and the unread part of the
script is a suffix of the script (nothing was consumed behind the thread's back).  -/
theorem exception_enters_chain (S : Setup) (ws : List WRes) (rs : List RdRes) (c : Conn)
    (pre : List TEv) (ev : TEv) (post : List TEv) (e : Exc)
    (hl : (runThread S ws rs c).log = pre ++ ev :: post) (he : ev.raisedExc = some e) :
    (∀ x ∈ pre, x.raisedExc = none ∧ x.isActivity = true) ∧ ev.isActivity = true ∧
    (runThread S ws rs c).entered = some (e, e) ∧ (runThread S ws rs c).ended = true ∧
    (runThread S ws rs c).conn.nt = none ∧ (runThread S ws rs c).rest <:+ rs ∧
    ∃ c1 rh h, c.Le c1 ∧ (rh = S.rh ∨ rh = S.rhNew) ∧ (c1.conns = c.conns → rh = S.rh) ∧
      h = hx S.hier S.inv rh S.handlers S.fin e e { c1 with nt := c1.nt.map fun _ => true } ∧
      (runThread S ws rs c).hx = some h ∧
      post = [.setIntr] ++ h.events ++ [.slotCleared] ∧
      (∀ x ∈ post, x.raisedExc = none ∧ x.isActivity = false) ∧
      (∃ r, h.out.trace.head? = some (.reactor e r)) ∧
      (runThread S ws rs c).reraised = h.out.reraised ∧
      (runThread S ws rs c).conn = { h.conn with nt := none } := by
  obtain ⟨hsuf, -⟩ := runThreadWith_shape (pyCode S) (pyCode_ok S) S ws rs c
  obtain ⟨c1, h1, h2, h3, h4⟩ := thread_escape (pyCode S) (pyCode_ok S) S ws rs c pre ev post e hl he
  have hact : ∀ x ∈ pre, x.isActivity = true := fun x hx => h2 x (by simp [hx])
  have hlog := hl
  unfold runThread at hl ⊢
  rw [h4] at hl
  have hpost : post = [TEv.setIntr] ++
      (hx S.hier S.inv (if c1.conns = c.conns then S.rh else S.rhNew) S.handlers S.fin e e
        ((pyCode S).excPrologue c1)).events ++ [TEv.slotCleared] := by
    simp only [excPath, List.append_assoc, List.singleton_append] at hl
    have := List.append_cancel_left hl
    simp only [List.cons_append, List.nil_append, List.cons.injEq, true_and] at this
    simp [← this]
  refine ⟨fun x hx => ⟨h3 x hx, hact x hx⟩, h2 ev (by simp), by rw [h4]; rfl, by rw [h4]; rfl,
    by rw [h4]; rfl, hsuf, c1, if c1.conns = c.conns then S.rh else S.rhNew, _, h1, ?_, ?_, rfl,
    by rw [h4]; rfl, hpost, ?_, hx_head _ _ _ _ _ _ _ _, by rw [h4]; rfl, by rw [h4]; rfl⟩
  · split <;> simp
  · intro hc; simp [hc]
  · rw [hpost]; exact HxOut.events_quiet _

/-- `chain_entered_only_by_escape`: conversely `_handle_exception` is entered only with an
exception that some activity event of the log let escape, and with `exc_info[1]` being that very
exception; if it is not entered, no event let anything escape, nothing leaves `run`, and a thread
that has ended has cleared its slot. -/
theorem chain_entered_only_by_escape (S : Setup) (ws : List WRes) (rs : List RdRes) (c : Conn) :
    (∀ e i, (runThread S ws rs c).entered = some (e, i) →
      i = e ∧ ∃ pre ev post, (runThread S ws rs c).log = pre ++ ev :: post ∧
        ev.raisedExc = some e) ∧
    ((runThread S ws rs c).entered = none →
      (runThread S ws rs c).hx = none ∧ (runThread S ws rs c).reraised = none ∧
      (∀ x ∈ (runThread S ws rs c).log, x.raisedExc = none) ∧
      ((runThread S ws rs c).ended = true → (runThread S ws rs c).conn.nt = none)) :=
  ⟨fun e i h => thread_entered (pyCode S) (pyCode_ok S) S ws rs c e i h,
   fun h => thread_quiet (pyCode S) (pyCode_ok S) S ws rs c h⟩

/-- `escapes_enter_chain`: the same as a predicate on the run (`EscapesEnterChain`), the form
against which changed code is tested in PART III. -/
theorem escapes_enter_chain (S : Setup) (ws : List WRes) (rs : List RdRes) (c : Conn) :
    EscapesEnterChain (runThread S ws rs c) := by
  intro pre ev post e hl he
  obtain ⟨-, -, h3, h4, -, -, c1, rh, h, -, -, -, -, -, -, h5, -⟩ :=
    exception_enters_chain S ws rs c pre ev post e hl he
  exact ⟨h3, h4, fun x hx => (h5 x hx).2⟩

/-- `chain_is_the_c14_chain`: the pure observable of the composed run IS `handleException` of
`Model/Handlers.lean` — applied to the exception that escaped and to the reactor's handler, the
handlers and the final handler as they behaved — so all eight theorems of `Props/C14.lean` hold
for the composed thread.  The handlers as they behaved have the registered ids and type filters
in the registered order, and the registered behaviour unless a `connect()` inside them raised
`InvalidState`; without `connect()` calls they ARE the registered ones.  The `exc_info[1]` passed
with every call is the exception passed with it, the recorded `exc_info[1]` is the recorded
exception, and what leaves `run` — `exc_info[1]` — is the recorded exception (`C14.reraise_iff`
transferred). -/
theorem chain_is_the_c14_chain (S : Setup) (ws : List WRes) (rs : List RdRes) (c : Conn)
    (h : HxOut) (e i : Exc) (hh : (runThread S ws rs c).hx = some h)
    (he : (runThread S ws rs c).entered = some (e, i)) :
    h.out = handleException S.hier h.effR h.effHandlers h.effFin e ∧
    AllEff S.inv h.effHandlers S.handlers ∧
    h.effHandlers.map (·.id) = S.handlers.map (·.id) ∧
    h.effHandlers.map (·.types) = S.handlers.map (·.types) ∧
    ((∀ x ∈ S.handlers, Act.connect ∉ x.acts) → h.effHandlers = S.handlers.map XHandler.erase) ∧
    h.infos = h.out.trace.map CallEv.arg ∧
    h.recordedInfo = h.out.recorded ∧
    (∀ x, (runThread S ws rs c).reraised = some x →
      h.recordedInfo = some x ∧ h.out.recorded = some x ∧ S.fin = .none ∧ h.out.caught = false) := by
  obtain ⟨hi, pre, ev, post, hl, hr⟩ :=
    (chain_entered_only_by_escape S ws rs c).1 e i he
  obtain ⟨-, -, -, -, -, -, c1, rh, h', -, -, -, hdef, hh', -, -, -, hre, -⟩ :=
    exception_enters_chain S ws rs c pre ev post e hl hr
  rw [hh] at hh'
  cases hh'
  obtain ⟨o1, o2, o3, o4⟩ := hx_out S.hier S.inv rh S.handlers S.fin e
    { c1 with nt := c1.nt.map fun _ => true }
  rw [← hdef] at o1 o2 o3 o4
  refine ⟨o1, o4, o4.ids.1, o4.ids.2, fun hn => allEff_noConnect S.inv _ _ o4 hn, o2, o3, ?_⟩
  intro x hx
  rw [hre] at hx
  have hrec : h.out.recorded = some x := by
    rw [o1] at hx ⊢
    exact (C14.reraise_iff S.hier h.effR h.effHandlers h.effFin e).2.2.1 x hx
  have hiff := (C14.reraise_iff S.hier h.effR h.effHandlers h.effFin e).1
  rw [← o1] at hiff
  have hne : h.out.reraised ≠ none := by rw [hx]; simp
  obtain ⟨f1, f2, -⟩ := hiff.mp hne
  refine ⟨by rw [o3]; exact hrec, hrec, ?_, f2⟩
  -- the final handler as it behaved is `None` only if the configured one is
  rw [hdef] at f1
  by_cases hsw : effRBeh (runActs S.inv rh.acts { c1 with nt := c1.nt.map fun _ => true }).2
      rh.rbeh = .retTrue
  · rw [hx_retTrue _ _ _ _ _ _ _ _ hsw] at f1
    simp only at f1
    cases hf : S.fin <;> simp_all [XFinal.erase]
  · rw [hx_tail _ _ _ _ _ _ _ _ hsw] at f1
    simp only [hxTail] at f1
    exact ((XFinal.run_spec S.inv S.fin _).2.1).mp f1

/-- `closes_unless_reconnected` (chain → cleanup, clauses "closes the connection (unless a handler
has already started a new one)"): let the thread occupy the slot and let any uninterrupted
successor own the open socket at the start.  Whenever `_handle_exception` is entered and the
reactor's handler does not swallow the exception, the final locked block never finds both slots
empty, and
* if an uninterrupted `new_networking_thread` exists at that moment — some callback has
  `connect()`ed since and nobody has disconnected after that — the block leaves everything alone:
  the new socket is open, `connected` is true, the successor is still uninterrupted;
* otherwise it executes `disconnect(immediate=True)`: the socket is `None`, `connected` is
  false, and the socket that was open before the block is among the closed ones.
The decision is DERIVED from `self.interrupt = True` in `run` (l.607), not assumed. -/
theorem closes_unless_reconnected (S : Setup) (ws : List WRes) (rs : List RdRes) (c : Conn)
    (hslot : c.nt.isSome = true) (hfresh : c.FreshNew) (h : HxOut)
    (hh : (runThread S ws rs c).hx = some h) (hsw : h.effR ≠ .retTrue) :
    h.cleanup ≠ .failed ∧ h.connAtCleanup.nt = some true ∧
    (h.connAtCleanup.new = some false →
      h.cleanup = .spared ∧ (runThread S ws rs c).conn = { h.connAtCleanup with nt := none } ∧
      (∃ k, (runThread S ws rs c).conn.sock = some k ∧ k + 1 = (runThread S ws rs c).conn.conns) ∧
      (runThread S ws rs c).conn.connected = true ∧
      (c.new ≠ some false → c.conns < (runThread S ws rs c).conn.conns)) ∧
    (h.connAtCleanup.new ≠ some false →
      h.cleanup = .disconnected ∧ (runThread S ws rs c).conn.sock = none ∧
      (runThread S ws rs c).conn.connected = false ∧
      (∀ k, h.connAtCleanup.sock = some k → k ∈ (runThread S ws rs c).conn.closed) ∧
      (h.connAtCleanup.conns = c.conns → ∀ k, c.sock = some k →
        k ∈ (runThread S ws rs c).conn.closed)) := by
  -- the run entered the chain: find the escaping event
  have hent : ∃ e i, (runThread S ws rs c).entered = some (e, i) := by
    cases hE : (runThread S ws rs c).entered with
    | none =>
      have := ((chain_entered_only_by_escape S ws rs c).2 hE).1
      rw [hh] at this; cases this
    | some p => exact ⟨p.1, p.2, rfl⟩
  obtain ⟨e, i, hE⟩ := hent
  obtain ⟨-, pre, ev, post, hl, hr⟩ := (chain_entered_only_by_escape S ws rs c).1 e i hE
  obtain ⟨-, -, -, -, -, -, c1, rh, h', hle, -, -, hdef, hh', -, -, -, -, hconn⟩ :=
    exception_enters_chain S ws rs c pre ev post e hl hr
  rw [hh] at hh'
  cases hh'
  have hnt1 : ({ c1 with nt := c1.nt.map fun _ => true } : Conn).nt = some true := by
    have := hle.slot hslot
    cases hn : c1.nt <;> simp_all
  have hf1 : ({ c1 with nt := c1.nt.map fun _ => true } : Conn).FreshNew := hle.fresh hfresh
  obtain ⟨g1, g2, g3, g4⟩ := hx_cleanup S.hier S.inv rh S.handlers S.fin e e _ hnt1 hf1
  obtain ⟨gle, -⟩ := hx_conn S.hier S.inv rh S.handlers S.fin e e
    { c1 with nt := c1.nt.map fun _ => true }
  rw [← hdef] at g1 g2 g3 g4 gle
  obtain ⟨k1, k2⟩ := g4 hsw
  refine ⟨g1, g2, fun hnew => ?_, fun hnew => ?_⟩
  · obtain ⟨a, b⟩ := k1 hnew
    obtain ⟨⟨k, s1, s2⟩, s3⟩ := g3 hnew
    refine ⟨a, by rw [hconn, b], ⟨k, by rw [hconn, b]; exact s1, by rw [hconn, b]; exact s2⟩,
      by rw [hconn, b]; exact s3, fun hc0 => ?_⟩
    rw [hconn, b]
    -- a successor that is uninterrupted now but was not there (or interrupted) before: connected
    have hc1 : c.conns ≤ c1.conns := hle.conns
    have hc2 : c1.conns ≤ h.connAtCleanup.conns := gle.conns
    apply Nat.lt_of_le_of_ne (Nat.le_trans hc1 hc2)
    intro heq
    have e1 : c1.conns = c.conns := by omega
    have e2 : h.connAtCleanup.conns = c1.conns := by omega
    rcases gle.same e2 with g | ⟨-, g⟩
    · simp only at g
      rcases hle.same e1 with g' | ⟨-, g'⟩
      · rw [g, g'] at hnew; exact hc0 hnew
      · rw [g, g'] at hnew; cases hnew
    · rw [g] at hnew; cases hnew
  · obtain ⟨a, b⟩ := k2 hnew
    obtain ⟨d1, d2, d3, -⟩ := disconnect_spec h.connAtCleanup
    refine ⟨a, by rw [hconn, b]; exact d1, by rw [hconn, b]; exact d2,
      fun k hk => by rw [hconn, b]; exact d3 k hk, fun heq k hk => ?_⟩
    rw [hconn, b]
    have hc1 : c.conns ≤ c1.conns := hle.conns
    have hc2 : c1.conns ≤ h.connAtCleanup.conns := gle.conns
    have e1 : c1.conns = c.conns := by omega
    have e2 : h.connAtCleanup.conns = c1.conns := by omega
    rcases hle.sockKept e1 k hk with g | g
    · rcases gle.sockKept e2 k g with g' | g'
      · exact d3 k g'
      · obtain ⟨m, hm⟩ := (disconnect_le h.connAtCleanup).closed
        simp only [hm, List.mem_append]; exact .inl g'
    · obtain ⟨m, hm⟩ := gle.closed
      obtain ⟨m', hm'⟩ := (disconnect_le h.connAtCleanup).closed
      simp only [hm', hm, List.mem_append]; exact .inl (.inl g)

/-- `closed_unless_reconnected`: the previous theorem as a predicate on the run
(`ClosedUnlessReconnected`), the form against which changed code is tested in PART III. -/
theorem closed_unless_reconnected (S : Setup) (ws : List WRes) (rs : List RdRes) (c : Conn)
    (hslot : c.nt.isSome = true) (hfresh : c.FreshNew) :
    ClosedUnlessReconnected (runThread S ws rs c) := by
  intro h hh hsw hnew
  obtain ⟨-, a, b, -⟩ :=
    (closes_unless_reconnected S ws rs c hslot hfresh h hh hsw).2.2.2 hnew
  exact ⟨a, b⟩

/-- `first_callback_can_reconnect` (why l.607 matters for "unless a handler has already started a
new one"): when `_handle_exception` starts with the own flag set and no successor thread, a
reactor handler whose first `connect()` comes after any number of `disconnect()`s is NOT refused
with `InvalidState`: it behaves as written, a new socket is installed and an uninterrupted
`new_networking_thread` exists afterwards.  More generally (`runActs`), in such a state the first
`connect()` of any callback succeeds. -/
theorem first_callback_can_reconnect (hier : Hier) (inv : Exc) (rh : XReactorH)
    (hs : List XHandler) (fin : XFinal) (e info : Exc) (c : Conn) (pre : List Act)
    (hnt : c.nt = some true) (hnew : c.new = none) (hacts : rh.acts = pre ++ [.connect])
    (hpre : Act.connect ∉ pre) :
    (hx hier inv rh hs fin e info c).effR = rh.rbeh ∧
    (runActs inv rh.acts c).2 = none ∧ (runActs inv rh.acts c).1.new = some false ∧
    (runActs inv rh.acts c).1.conns = c.conns + 1 ∧
    (∀ (acts : List Act), Act.connect ∉ acts →
      (runActs inv (acts ++ [.connect]) c).2 = none ∧
      (runActs inv (acts ++ [.connect]) c).1.new = some false) := by
  obtain ⟨a1, a2, a3⟩ := first_connect_ok inv pre hpre c hnt hnew
  rw [← hacts] at a1 a2 a3
  refine ⟨?_, a1, a2, a3, fun acts ha => ?_⟩
  · rw [(hx_effR hier inv rh hs fin e info c).1, a1]; rfl
  · obtain ⟨b1, b2, -⟩ := first_connect_ok inv acts ha c hnt hnew
    exact ⟨b1, b2⟩

/-- `reconnectable_afterwards` (clause "afterwards the same connection object can connect
again"): once `run` has ended — normally or through the exception path, whatever the handlers did
— the slot is empty, so `connect()` is refused with `InvalidState` exactly when a
`new_networking_thread` exists, i.e. only when some callback of this very run has already
connected (if there was no successor at the start and nothing connected since, there is none
now); and when it is not refused it installs the next socket and starts a fresh, uninterrupted
thread directly in the slot. -/
theorem reconnectable_afterwards (S : Setup) (ws : List WRes) (rs : List RdRes) (c : Conn)
    (hend : (runThread S ws rs c).ended = true) :
    (runThread S ws rs c).conn.nt = none ∧
    ((runThread S ws rs c).conn.connect = none ↔ (runThread S ws rs c).conn.new.isSome = true) ∧
    (c.new = none → (runThread S ws rs c).conn.conns = c.conns →
      (runThread S ws rs c).conn.new = none) ∧
    (∀ c', (runThread S ws rs c).conn.connect = some c' →
      c'.nt = some false ∧ c'.new = none ∧ c'.sock = some (runThread S ws rs c).conn.conns ∧
      c'.connected = true ∧ c'.conns = (runThread S ws rs c).conn.conns + 1) := by
  obtain ⟨c2, hle, hc⟩ := thread_ended S ws rs c hend
  unfold runThread
  rw [hc]
  obtain ⟨s1, s2⟩ := connect_spec { c2 with nt := none }
  refine ⟨rfl, ?_, fun hn he => hle.noNew he hn, fun c' hc' => ?_⟩
  · rw [s1]; simp [Conn.busy]
  · obtain ⟨t1, t2, t3, -, t5, -⟩ := s2 c' hc'
    obtain ⟨t5a, t5b⟩ := t5 rfl
    exact ⟨t5a, t5b, t1, t2, t3⟩

/-- `write_error_fate` (the deferred `IOError` of the write phase, l.617-625, 645-653): when the
write phase of an iteration ends with an `IOError` `e0`, exactly one of three things happens in
that iteration of `_run`: (1) the read phase lets another exception `e1` escape — `e1`, not `e0`,
enters the chain; (2) nothing escapes and `e0` is still pending — it is raised at the end of the
iteration (`deferred e0` is the last event) and enters the chain; (3) nothing escapes and `e0` was
forgiven — then a packet with `packet_name == "disconnect"` was read and dispatched in this very
iteration, and `_run` simply goes on with the next iteration.  The pending error is never replaced
by anything else. -/
theorem write_error_fate (S : Setup) (n : Nat) (e0 : Exc) (ws : List WRes) (rs : List RdRes)
    (c : Conn) (hi : c.selfIntr = false) :
    ((readLoop (pyCode S) rs n (some e0) c).pend = some e0 ∨
      (readLoop (pyCode S) rs n (some e0) c).pend = none) ∧
    (∀ e1, (readLoop (pyCode S) rs n (some e0) c).exc = some e1 →
      (runLoop (pyCode S) (.ioError n e0 :: ws) rs c).res = .raised e1 ∧
      (runLoop (pyCode S) (.ioError n e0 :: ws) rs c).log =
        .write (.ioError n e0) :: (readLoop (pyCode S) rs n (some e0) c).log) ∧
    ((readLoop (pyCode S) rs n (some e0) c).exc = none →
      (readLoop (pyCode S) rs n (some e0) c).pend = some e0 →
      (runLoop (pyCode S) (.ioError n e0 :: ws) rs c).res = .raised e0 ∧
      (runLoop (pyCode S) (.ioError n e0 :: ws) rs c).log =
        .write (.ioError n e0) :: (readLoop (pyCode S) rs n (some e0) c).log ++ [.deferred e0] ∧
      TEv.forgiven e0 ∉ (readLoop (pyCode S) rs n (some e0) c).log) ∧
    ((readLoop (pyCode S) rs n (some e0) c).exc = none →
      (readLoop (pyCode S) rs n (some e0) c).pend = none →
      (runLoop (pyCode S) (.ioError n e0 :: ws) rs c).res =
        (runLoop (pyCode S) ws (readLoop (pyCode S) rs n (some e0) c).rest
          (readLoop (pyCode S) rs n (some e0) c).conn).res ∧
      TEv.forgiven e0 ∈ (readLoop (pyCode S) rs n (some e0) c).log) ∧
    (∀ e, TEv.forgiven e ∈ (readLoop (pyCode S) rs n (some e0) c).log →
      e = e0 ∧ ∃ a cls b, (readLoop (pyCode S) rs n (some e0) c).log =
        a ++ TEv.read (.packet cls true) :: b) := by
  obtain ⟨p1, p2⟩ := readLoop_pend (pyCode S) (pyCode_ok S) rs n (some e0) c
  rw [runLoop_cons (pyCode S) _ ws rs c hi]
  simp only
  refine ⟨?_, fun e1 h1 => ?_, fun h1 h2 => ?_, fun h1 h2 => ?_, fun e he => ?_⟩
  · rcases p1 with g | ⟨g, -⟩
    · exact .inl g
    · exact .inr g
  · simp [h1]
  · simp only [h1, h2, true_and]
    intro hf
    -- still pending although forgiven: impossible, a forgiven error is gone for good
    have := (p2 e0 hf).2.1
    rw [h2] at this; cases this
  · simp only [h1, h2, true_and]
    rcases p1 with g | ⟨-, e, g1, g2⟩
    · rw [g] at h2; cases h2
    · cases g1; exact g2
  · obtain ⟨g1, -, g2⟩ := p2 e he
    exact ⟨(Option.some.inj g1).symm, g2⟩

/-! ### Non-vacuity of PART I -/

/-- 1 = `Exception`, 2 = `OSError(Exception)`, 3 = `CustomException(Exception)`,
7 = `InvalidState(Exception)`; packet classes 100 = `Packet`, 101 = `JoinGamePacket(Packet)`. -/
private def hr₀ : Hier := [(2, 1), (3, 1), (7, 1), (101, 100)]

/-- The scenario of `ExceptionReconnectTest` without its `disconnect(immediate=True)`: an ordinary
listener for `JoinGamePacket` raises `CustomException`; an early handler for `CustomException`
calls `connect()`. -/
private def S₁ : Setup where
  hier := hr₀
  inv := ⟨7, 0⟩
  early := []
  ordinary := [⟨5, [101], false, .raises ⟨3, 1⟩⟩]
  rx := fun _ => ⟨false, .ok⟩
  rh := ⟨[], .retFalse⟩
  rhNew := ⟨[], .retFalse⟩
  handlers := [⟨10, [3], [.connect], .returns⟩]
  fin := .none
  exit := none

/-- The listener's exception enters the chain; the handler's `connect()` is NOT refused (the own
flag was set at l.607); the final block spares the new connection; nothing is re-raised; the old
socket 0 was replaced by socket 1, which is open; unread input stays unread. -/
example :
    runThread S₁ [.wrote 0] [.packet 101 false, .packet 101 false] Conn.fresh =
      { log := [.write (.wrote 0), .read (.packet 101 false), .cb ⟨.reaction, false, .ok⟩,
                .cb ⟨.ordinary 5, false, .raises ⟨3, 1⟩⟩, .setIntr,
                .call (.reactor ⟨3, 1⟩ none) ⟨3, 1⟩, .call (.handler 10 ⟨3, 1⟩ none) ⟨3, 1⟩,
                .cleanup false, .slotCleared],
        conn := ⟨none, some false, some 1, true, 2, []⟩,
        rest := [.packet 101 false], ended := true, entered := some (⟨3, 1⟩, ⟨3, 1⟩),
        hx := (runThread S₁ [.wrote 0] [.packet 101 false, .packet 101 false] Conn.fresh).hx,
        reraised := none } := by decide +kernel

/-- Hypotheses of `exception_enters_chain`, `closes_unless_reconnected` (spared branch) and
`chain_is_the_c14_chain` are satisfiable together. -/
example :
    let o := runThread S₁ [.wrote 0] [.packet 101 false] Conn.fresh
    (∃ h, o.hx = some h ∧ h.effR ≠ .retTrue ∧ h.connAtCleanup.new = some false ∧
      h.cleanup = .spared) ∧ Conn.fresh.nt.isSome = true ∧ Conn.fresh.FreshNew ∧
    o.entered = some (⟨3, 1⟩, ⟨3, 1⟩) :=
  ⟨⟨_, rfl, by decide +kernel, by decide +kernel, by decide +kernel⟩, rfl,
    fun h => (by cases h), by decide +kernel⟩

/-- Without a reconnecting handler the same exception closes the connection and, with final
handler `None` and nobody catching, leaves `run`: the other branch of
`closes_unless_reconnected`, and `reconnectable_afterwards` with `connect()` possible. -/
example :
    let o := runThread { S₁ with handlers := [] } [.wrote 0] [.packet 101 false] Conn.fresh
    o.conn = ⟨none, none, none, false, 1, [0]⟩ ∧ o.reraised = some ⟨3, 1⟩ ∧ o.ended = true ∧
    o.conn.connect = some ⟨some false, none, some 1, true, 2, [0]⟩ := by decide +kernel

/-- Every origin is reachable: `read_packet` raising, the reaction raising, an early listener
raising, the write phase raising, a deferred write error (raised at the end of the iteration;
forgiven when a disconnect packet is read in the same iteration), and the exit callback. -/
example :
    (runThread S₁ [.wrote 0] [.raises ⟨2, 9⟩] Conn.fresh).entered = some (⟨2, 9⟩, ⟨2, 9⟩) ∧
    (runThread { S₁ with rx := fun _ => ⟨false, .raises ⟨2, 8⟩⟩ } [.wrote 0] [.packet 100 false]
      Conn.fresh).entered = some (⟨2, 8⟩, ⟨2, 8⟩) ∧
    (runThread { S₁ with early := [⟨4, [100], false, .raises ⟨2, 7⟩⟩] } [.wrote 0]
      [.packet 101 false] Conn.fresh).entered = some (⟨2, 7⟩, ⟨2, 7⟩) ∧
    (runThread S₁ [.raises ⟨3, 6⟩] [] Conn.fresh).entered = some (⟨3, 6⟩, ⟨3, 6⟩) ∧
    (runThread S₁ [.ioError 0 ⟨2, 5⟩] [.packet 100 false] Conn.fresh).entered =
      some (⟨2, 5⟩, ⟨2, 5⟩) ∧
    (runThread S₁ [.ioError 0 ⟨2, 5⟩, .wrote 0] [.packet 100 true] Conn.fresh).entered = none ∧
    (runThread { S₁ with rx := fun _ => ⟨true, .ok⟩, exit := some ⟨[], .raises ⟨3, 4⟩⟩ }
      [.wrote 0] [.packet 100 true] Conn.fresh).entered = some (⟨3, 4⟩, ⟨3, 4⟩) := by
  decide +kernel

/-- Hypothesis and all three cases of `write_error_fate`: superseded by a read error, raised at
the end of the iteration, forgiven by a disconnect packet. -/
example :
    Conn.fresh.selfIntr = false ∧
    (runLoop (pyCode S₁) [.ioError 0 ⟨2, 5⟩] [.raises ⟨2, 9⟩] Conn.fresh).res = .raised ⟨2, 9⟩ ∧
    (runLoop (pyCode S₁) [.ioError 0 ⟨2, 5⟩] [.packet 100 false, .none] Conn.fresh).log =
      [.write (.ioError 0 ⟨2, 5⟩), .read (.packet 100 false), .cb ⟨.reaction, false, .ok⟩,
       .read .none, .deferred ⟨2, 5⟩] ∧
    (runLoop (pyCode S₁) [.ioError 0 ⟨2, 5⟩] [.packet 100 true, .none] Conn.fresh).log =
      [.write (.ioError 0 ⟨2, 5⟩), .read (.packet 100 true), .cb ⟨.reaction, false, .ok⟩,
       .forgiven ⟨2, 5⟩, .read .none] := by decide +kernel

/-- `IgnorePacket` is not an origin: the packet's remaining callbacks are skipped and the thread
goes on reading. -/
example :
    (runThread { S₁ with early := [⟨4, [100], false, .ignore⟩] } [.wrote 0]
      [.packet 101 false, .none] Conn.fresh).log =
      [.write (.wrote 0), .read (.packet 101 false), .cb ⟨.early 4, false, .ignore⟩,
       .read .none] := by decide +kernel

/-- A second `connect()` in the same exception path IS refused (a successor exists): the handler
as it behaved raises `InvalidState`, which replaces the exception — `effHandlers` differs from the
registered handlers exactly there. -/
example :
    let o := runThread { S₁ with handlers := [⟨10, [3], [.connect], .raises ⟨3, 2⟩⟩,
                                              ⟨11, [], [.connect], .returns⟩], fin := .false }
      [.wrote 0] [.packet 101 false] Conn.fresh
    (o.hx.map fun h => (h.effHandlers, h.out.recorded, h.cleanup)) =
      some ([⟨10, [3], .raises ⟨3, 2⟩⟩, ⟨11, [], .raises ⟨7, 0⟩⟩], some ⟨7, 0⟩, .spared) := by
  decide +kernel

/-- Hypotheses of `first_callback_can_reconnect` (the `PlayingStatusReactor` fallback:
`disconnect(immediate=True); connect(); return True`). -/
example : (hx hr₀ ⟨7, 0⟩ ⟨[.disconnect, .connect], .retTrue⟩ [] .none ⟨2, 1⟩ ⟨2, 1⟩
    ⟨some true, none, some 0, true, 1, []⟩).conn = ⟨some true, some false, some 1, true, 2, [0]⟩ := by
  decide +kernel

/-! ## PART II — the same, for all schedules (`Model/Lifecycle.lean`)

`s := Life.run env (Life.init progs rl rh) sched` is an arbitrary reachable state of the
transition system; `(s.net i).pc = .exc` = networking thread `i` is at `except Exception as e:` in
`run` (an exception has just left `_run` or `_handle_exit`: a failed read, a failed write, a
refused `connect()` of a listener); `NPc.inHandler` = inside `_handle_exception`;
`NPc.onExcPath` = from the `except` clause to the death of the thread; `NPc.pastChk` = after the
final locked block; `Ev.isLoop` = events of the packet loop (flag test, write phase,
`read_packet`, exit callback). -/

/-- `flag_set_inside_handle_exception`: in every reachable state, a networking thread that is
inside `_handle_exception` (running handlers, inside a handler's `connect()`, at or after the
final locked block) has its `interrupt` flag set and occupies the `networking_thread` slot — the
hypothesis `(s.net j).intr = true` that `C16.handler_cleanup_is_atomic` assumes is a theorem. -/
theorem flag_set_inside_handle_exception (env : List Life.Beh) (progs : List (List Life.Op))
    (rl rh : Nat) (sched : List Life.Tid) (i : Nat) :
    let s := Life.run env (Life.init progs rl rh) sched
    (s.net i).pc.inHandler = true → (s.net i).intr = true ∧ s.nt = some i := by
  intro s hp
  have h := Life.reach_inv env progs rl rh sched
  refine ⟨Life.reach_hinv env progs rl rh sched i hp, (h.nt_iff i).mpr ?_⟩
  revert hp
  cases (s.net i).pc
  case call site => cases site <;> simp [Life.NPc.inHandler, Life.NPc.holds]
  case callRel site out => cases site <;> simp [Life.NPc.inHandler, Life.NPc.holds]
  all_goals simp [Life.NPc.inHandler, Life.NPc.holds]

/-- `cleanup_decision_derived`: when thread `i` executes the final locked block of
`_handle_exception` in ANY reachable state, the flag it reads (`Life.cleanupFlag`, the same
decision table as `ExcFlow.Conn.cleanupFlag`) is never absent, and
* with no `new_networking_thread` it is the thread's own flag, which IS set: the block executes
  `disconnect(immediate=True)` — socket `None`, `connected` false, slots unchanged;
* with an uninterrupted successor `j` (a `connect()` by a handler or by another thread completed
  first) the block changes nothing: same socket, stream, `connected`, slots; `j` stays
  uninterrupted and owns the open socket;
* with an interrupted successor it disconnects.
Nothing is assumed about the flag: it follows from `self.interrupt = True` at the `except`
clause and from no step ever clearing a flag. -/
theorem cleanup_decision_derived (env : List Life.Beh) (progs : List (List Life.Op))
    (rl rh : Nat) (sched : List Life.Tid) (i : Nat) :
    let s := Life.run env (Life.init progs rl rh) sched
    (s.net i).pc = .hChk → ∀ s1, Life.step env s (.net i) = some s1 →
      (s.net i).intr = true ∧ s.nt = some i ∧ (s1.net i).pc = .hRel ∧
      Life.cleanupFlag s =
        (match s.newNt.map fun j => (s.net j).intr with
         | some b => some b
         | none => s.nt.map fun j => (s.net j).intr) ∧
      (s.newNt = none →
        Life.cleanupFlag s = some true ∧ s1.socket = .none ∧ s1.connected = false ∧
        s1.nt = s.nt ∧ s1.newNt = none ∧ s1.conns = s.conns) ∧
      (∀ j, s.newNt = some j → (s.net j).intr = false →
        Life.cleanupFlag s = some false ∧ s1.shared = s.shared ∧ (s1.net j).intr = false ∧
        Life.linked s1.socket s1.file = true) ∧
      (∀ j, s.newNt = some j → (s.net j).intr = true →
        Life.cleanupFlag s = some true ∧ s1.socket = .none ∧ s1.connected = false) := by
  intro s hpc s1 hs1
  have h := Life.reach_inv env progs rl rh sched
  obtain ⟨hi, hnt⟩ : (s.net i).intr = true ∧ s.nt = some i :=
    flag_set_inside_handle_exception env progs rl rh sched i (by rw [hpc]; rfl)
  have hrel : (s1.net i).pc = .hRel := (Life.hchk_step env s s1 i hpc hs1).2.2.1
  refine ⟨hi, hnt, hrel, Life.cleanupFlag_eq s, fun hnew => ?_, fun j hnew hj => ?_,
    fun j hnew hj => ?_⟩
  · have htg : Life.target s = some i := by simp [Life.target, hnew, hnt]
    obtain ⟨a1, a2, a3, a4, a5, a6, -⟩ :=
      C16.handler_cleanup_is_atomic env progs rl rh sched i i hpc htg hi s1 hs1
    exact ⟨by simp [Life.cleanupFlag, htg, hi], a1, a2, a3, a4.trans hnew, a6⟩
  · obtain ⟨a1, a2, a3, -⟩ :=
      C16.handler_cleanup_spares_new_connection env progs rl rh sched i j hpc hnew hj s1 hs1
    have h1 := Life.step_inv env s s1 _ h hs1
    have hw : (s1.net j).pc.waiting = true := by
      have e : s1.newNt = some j := by
        have : s1.shared.newNt = s.shared.newNt := by rw [a1]
        exact this.trans hnew
      exact (h1.new_iff j).mp e
    exact ⟨by simp [Life.cleanupFlag, Life.target, hnew, hj], a1, a3,
      h1.live_open j (.inr hw) a3⟩
  · have htg : Life.target s = some j := by simp [Life.target, hnew]
    obtain ⟨a1, a2, -⟩ :=
      C16.handler_cleanup_is_atomic env progs rl rh sched i j hpc htg hj s1 hs1
    exact ⟨by simp [Life.cleanupFlag, htg, hj], a1, a2⟩

/-- `exception_path_ends_thread` (clause "ends that thread"): from a reachable state in which
thread `i` is at the `except` clause of `run`, under EVERY continuation of the schedule the thread
stays on the exception path (handlers, final block, `finally`, death) — it never tests its flag,
writes, reads a packet or calls the exit callback again: everything it appends to the log is
outside the packet loop; it executes at most 10 more actions; once past the `except` clause its
flag is set for good.  Some continuation of at most 48 entries kills it, and on EVERY weakly fair
infinite schedule it dies and stays dead. -/
theorem exception_path_ends_thread (env : List Life.Beh) (progs : List (List Life.Op))
    (rl rh : Nat) (sched : List Life.Tid) (i : Nat) :
    let s := Life.run env (Life.init progs rl rh) sched
    (s.net i).pc = .exc →
      (∀ more,
        ((Life.run env s more).net i).pc.onExcPath = true ∧
        ((Life.run env s more).net i).pc.rank + Life.stepsOf env s (.net i) more ≤ 10 ∧
        (((Life.run env s more).net i).pc ≠ .exc → ((Life.run env s more).net i).intr = true) ∧
        ∃ ext, (Life.run env s more).log = s.log ++ ext ∧
          ∀ e, (Life.Tid.net i, e) ∈ ext → e.isLoop = false) ∧
      (∃ more, more.length ≤ 48 ∧ ((Life.run env s more).net i).pc = .dead) ∧
      (∀ σ, Life.WeakFair env s σ →
        ∃ n, ∀ m, n ≤ m → ((Life.runN env s σ m).net i).pc = .dead) := by
  intro s hpc
  have h := Life.reach_inv env progs rl rh sched
  have hb : (s.net i).pc ≠ .unborn := by rw [hpc]; simp
  refine ⟨fun more => ?_, Life.exc_can_terminate env s h i hpc, fun σ hf => ?_⟩
  · obtain ⟨a, b⟩ := Life.onExcPath_run env i more s h (by rw [hpc]; rfl)
    have c := Life.rank_run' env more i s h hb (.inr hpc)
    rw [hpc] at c
    refine ⟨a, c, fun hne => ?_, b⟩
    rcases Life.exc_or_intr_run env i more s h hb (.inr hpc) with g | g
    · exact g
    · exact absurd g hne
  · exact Life.exc_eventually_dead env progs.length i s σ h
      (Life.UB_run env _ sched _ (Life.init_UB progs rl rh)) hpc hf

/-- `exception_closes_and_frees` (clauses "closes the connection (unless … a new one)" and "can
connect again", for all schedules): let thread `i` be at the `except` clause in a reachable state
`s0` with nobody waiting in `new_networking_thread`, and let `s` be ANY later state in which no
connection attempt has been made since (`conns` unchanged — so in particular no handler has
reconnected).  Then nobody waits in `new_networking_thread`, the slot holds `i` or nothing; as
soon as `i` is past the `except` clause `_check_connection` passes (`busy s = false`) and a
`connect()` / `status()` by ANY thread at that moment is not refused with `InvalidState` — it makes
exactly one connection attempt; and as soon as `i` is past the final locked block the socket is
`None` and `connected` is false, and stays so. -/
theorem exception_closes_and_frees (env : List Life.Beh) (progs : List (List Life.Op))
    (rl rh : Nat) (sched more : List Life.Tid) (i : Nat) :
    let s0 := Life.run env (Life.init progs rl rh) sched
    let s := Life.run env s0 more
    (s0.net i).pc = .exc → s0.newNt = none → s.conns = s0.conns →
      s.newNt = none ∧ (s.nt = some i ∨ s.nt = none) ∧
      ((s.net i).pc ≠ .exc → Life.busy s = false ∧
        ∀ t op, op.isConn = true → Life.atCall s t op → ∀ s1, Life.step env s t = some s1 →
          s1.conns = s.conns + 1 ∧ Life.pendingOut s1 t ≠ some .invalidState) ∧
      ((s.net i).pc.pastChk = true → s.socket = .none ∧ s.connected = false) := by
  intro s0 s hpc hnew hc
  have h0 := Life.reach_inv env progs rl rh sched
  have q := Life.excq_run env i s0.conns more s0 h0 (Life.excq_init s0 h0 i hpc hnew) hc
  refine ⟨q.noNew, q.slot, fun hne => ⟨Life.excq_not_busy s i _ q hne, ?_⟩, q.closed⟩
  intro t op hop hat s1 hs1
  have hs : s = Life.run env (Life.init progs rl rh) (sched ++ more) := by
    rw [Life.run_append]
  have hint : ∀ k, s.nt = some k → (s.net k).intr = true := by
    intro k hk
    rcases q.slot with g | g
    · rw [g] at hk; cases hk; exact q.flag hne
    · rw [g] at hk; cases hk
  have hat' : Life.atCall (Life.run env (Life.init progs rl rh) (sched ++ more)) t op := by
    rw [← hs]; exact hat
  obtain ⟨a, b, c⟩ := C16.reusable_after_end env progs rl rh (sched ++ more) t op hop hat'
    (by rw [← hs]; exact q.noNew) (by rw [← hs]; exact hint) s1 (by rw [← hs]; exact hs1)
  rw [← hs] at a b c
  refine ⟨a, ?_⟩
  by_cases hr : env.getD s.conns .accept = .refuse
  · rw [(b hr).1]; simp
  · rw [(c hr).1]; simp

/-- `exc_closes_conn`: the closing clause as a predicate on the run function (`ExcClosesConn`),
the form against which the changed transition system is tested in PART III. -/
theorem exc_closes_conn : Life.ExcClosesConn Life.run := by
  intro env progs rl rh sched more i hpc hnew hc hp
  exact (exception_closes_and_frees env progs rl rh sched more i hpc hnew hc).2.2.2 hp

/-! ### Non-vacuity of PART II -/

/-- The first server lets every read fail: user 0 connects, thread 0 runs into the failing read
and stands at the `except` clause with its flag still CLEAR, the socket open and nobody waiting —
the hypotheses of `exception_path_ends_thread` and `exception_closes_and_frees`. -/
example :
    let s := Life.run [.fails] (Life.init [[.connect]] 0 0)
      ([.user 0, .user 0] ++ List.replicate 5 (.net 0))
    (s.net 0).pc = .exc ∧ (s.net 0).intr = false ∧ s.newNt = none ∧ s.socket = .open 0 ∧
    s.connected = true := by decide

/-- … five own steps later it is dead, the connection is closed, and (no connection attempt
since) a further `connect()` by the user succeeds. -/
example :
    let s := Life.run [.fails, .accept] (Life.init [[.connect, .connect]] 0 0)
      ([.user 0, .user 0] ++ List.replicate 5 (.net 0) ++ List.replicate 8 (.net 0) ++
        [.user 0, .user 0])
    (s.net 0).pc = .dead ∧ (s.usr 0).outs = [.ok, .ok] ∧ s.socket = .open 1 ∧
    (Life.Tid.net 0, Life.Ev.hchk (some true)) ∈ s.log := by decide

/-- Hypotheses of `cleanup_decision_derived`, all three cases: no successor (own flag), an
uninterrupted successor created by a user's `connect()` that slipped in, an interrupted one. -/
example :
    let s := Life.run [.fails] (Life.init [[.connect]] 0 0)
      ([.user 0, .user 0] ++ List.replicate 7 (.net 0))
    (s.net 0).pc = .hChk ∧ s.newNt = none ∧ Life.cleanupFlag s = some true := by decide

example :
    let s := Life.run [.fails, .accept] (Life.init [[.connect, .connect]] 0 0)
      ([.user 0, .user 0] ++ List.replicate 7 (.net 0) ++ [.user 0, .user 0])
    (s.net 0).pc = .hChk ∧ s.newNt = some 1 ∧ Life.cleanupFlag s = some false := by decide

example :
    let s := Life.run [.fails, .accept]
      (Life.init [[.connect, .connect, .disconnect false]] 0 0)
      ([.user 0, .user 0] ++ List.replicate 7 (.net 0) ++ List.replicate 4 (.user 0))
    (s.net 0).pc = .hChk ∧ s.newNt = some 1 ∧ Life.cleanupFlag s = some true := by decide

/-! ## PART III — the audit's code changes are refuted

Each changed fragment is put into the same loop skeleton (`runThreadWith`) resp. transition
system (`runNoIntr`) and evaluated by the kernel on a small instance. -/

/-- A listener for every packet raises `OSError#1`; nothing handles it; final handler `False`. -/
private def S₂ : Setup where
  hier := hr₀
  inv := ⟨7, 0⟩
  early := []
  ordinary := [⟨5, [100], false, .raises ⟨2, 1⟩⟩]
  rx := fun _ => ⟨false, .ok⟩
  rh := ⟨[], .retFalse⟩
  rhNew := ⟨[], .retFalse⟩
  handlers := []
  fin := .false
  exit := none

/-- `except_exception_refuted`: with `except IgnorePacket` → `except Exception` in `_react`, the
listener's exception is swallowed: the log contains the raising callback FOLLOWED by further reads
and callbacks, and `_handle_exception` is never entered — `escapes_enter_chain` fails.  (The real
code on the same input ends the thread there.) -/
theorem except_exception_refuted :
    ¬ EscapesEnterChain (runThreadWith (codeExceptException S₂) S₂ [.wrote 0]
        [.packet 100 false, .packet 100 false] Conn.fresh) ∧
    (runThread S₂ [.wrote 0] [.packet 100 false, .packet 100 false] Conn.fresh).entered =
      some (⟨2, 1⟩, ⟨2, 1⟩) := by
  refine ⟨fun hC => ?_, by decide +kernel⟩
  have := (hC [.write (.wrote 0), .read (.packet 100 false), .cb ⟨.reaction, false, .ok⟩]
    (.cb ⟨.ordinary 5, false, .raises ⟨2, 1⟩⟩)
    [.read (.packet 100 false), .cb ⟨.reaction, false, .ok⟩,
      .cb ⟨.ordinary 5, false, .raises ⟨2, 1⟩⟩, .read .none]
    ⟨2, 1⟩ (by decide +kernel) rfl).1
  revert this
  decide +kernel

/-- `read_swallowed_refuted`: with `read_packet` wrapped in a `try` that yields `None`, a decoding
error (`EOFError`-like `OSError#3`) is logged as raised but the loop just breaks and goes on:
`escapes_enter_chain` fails.  (The real code enters the chain with it.) -/
theorem read_swallowed_refuted :
    ¬ EscapesEnterChain (runThreadWith (codeReadSwallowed S₂) S₂ [.wrote 0, .wrote 0]
        [.raises ⟨2, 3⟩] Conn.fresh) ∧
    (runThread S₂ [.wrote 0, .wrote 0] [.raises ⟨2, 3⟩] Conn.fresh).entered =
      some (⟨2, 3⟩, ⟨2, 3⟩) := by
  refine ⟨fun hC => ?_, by decide +kernel⟩
  have := (hC [.write (.wrote 0)] (.read (.raises ⟨2, 3⟩)) [.write (.wrote 0), .read .none]
    ⟨2, 3⟩ (by decide +kernel) rfl).1
  revert this
  decide +kernel

/-- `no_interrupt_refuted` (sequential model): with `self.interrupt = True` deleted, the final
block reads a clear flag and does NOT disconnect: after the thread has ended the socket is still
open and `connected` is true — `closed_unless_reconnected` fails although its hypotheses hold
(`Conn.fresh`); and a handler's bare `connect()` is refused with `InvalidState` (it is not in the
real code, see the example after `reconnectable_afterwards`). -/
theorem no_interrupt_refuted :
    ¬ ClosedUnlessReconnected (runThreadWith (codeNoInterrupt S₂) S₂ [.wrote 0]
        [.packet 100 false] Conn.fresh) ∧
    (runThreadWith (codeNoInterrupt S₂) S₂ [.wrote 0] [.packet 100 false] Conn.fresh).conn =
      ⟨none, none, some 0, true, 1, []⟩ ∧
    (runThread S₂ [.wrote 0] [.packet 100 false] Conn.fresh).conn =
      ⟨none, none, none, false, 1, [0]⟩ ∧
    ((runThreadWith (codeNoInterrupt S₁) S₁ [.wrote 0] [.packet 101 false] Conn.fresh).hx.map
      fun h => h.effHandlers) = some [⟨10, [3], .raises ⟨7, 0⟩⟩] := by
  refine ⟨fun hC => ?_, by decide +kernel, by decide +kernel, by decide +kernel⟩
  have := hC _ rfl (by decide +kernel) (by decide +kernel)
  revert this
  decide +kernel

/-- `no_interrupt_refuted_life` (transition system): the same deletion in `Model/Lifecycle.lean`
(`runNoIntr`): the first connection's reads fail, thread 0 runs its exception path to its death
with nobody else doing anything — and the socket is still open, `connected` still true:
`Life.ExcClosesConn` fails for the changed system, and holds for the real one
(`exc_closes_conn`). -/
theorem no_interrupt_refuted_life : ¬ Life.ExcClosesConn Life.runNoIntr := by
  intro hC
  have := hC [.fails] [[.connect]] 0 0 ([.user 0, .user 0] ++ List.replicate 5 (.net 0))
    (List.replicate 8 (.net 0)) 0 (by decide) (by decide) (by decide) (by decide)
  revert this
  decide

/-- … concretely: the state the changed system ends in, next to the real one. -/
example :
    let sched := [Life.Tid.user 0, .user 0] ++ List.replicate 13 (.net 0)
    ((Life.runNoIntr [.fails] (Life.init [[.connect]] 0 0) sched).net 0).pc = .dead ∧
    (Life.runNoIntr [.fails] (Life.init [[.connect]] 0 0) sched).socket = .open 0 ∧
    (Life.runNoIntr [.fails] (Life.init [[.connect]] 0 0) sched).connected = true ∧
    ((Life.run [.fails] (Life.init [[.connect]] 0 0) sched).net 0).pc = .dead ∧
    (Life.run [.fails] (Life.init [[.connect]] 0 0) sched).socket = .none ∧
    (Life.run [.fails] (Life.init [[.connect]] 0 0) sched).connected = false := by decide

end PyCraft.C14Compose
