import PyCraft.Lemmas.Handlers
/-!
# C14 — Networking-thread exceptions are contained and routed like try/except

Model: `PyCraft/Model/Handlers.lean` — `handleException` mirrors `Connection._handle_exception`
(reactor handler first, then the `for … else` loop over the registered handlers written as a left
fold with explicit state `(exc, calls, broke)`, then the final handler, record, conditional
re-raise); `tryExceptChain` is the independent reference semantics (nested `try/except`, structural
recursion).  Specification vocabulary (`lastExc`, `argsChained`, `RBeh.replace`, `finExc`, …) and
helper lemmas: `PyCraft/Lemmas/Handlers.lean`.

Every statement is for ALL exception-class hierarchies, ALL handler chains, ALL behaviours of the
reactor handler and final handler, and ALL exceptions.
-/
namespace PyCraft.C14
open PyCraft

/-- The handler loop IS a try/except chain: the fold-with-break loop of `_handle_exception` ends in
exactly the state the nested-`try` reference semantics predicts (same handlers run with the same
arguments and results, same final exception, `caught` ⇔ some clause caught).  Consequently, when the
reactor's handler returns a false value the handler part of the outcome equals the chain on the
original exception, and when it raises `e'` it equals the chain on `e'`. -/
theorem chain_equiv (hier : Hier) (hs : List Handler) (fin : Final) (e : Exc) :
    handlerLoop hier hs e =
      { exc := (tryExceptChain hier hs e).2.exc, calls := (tryExceptChain hier hs e).1,
        broke := (tryExceptChain hier hs e).2.isCaught } ∧
    ((handleException hier .retFalse hs fin e).trace.filter CallEv.isHandler =
        (tryExceptChain hier hs e).1 ∧
      (handleException hier .retFalse hs fin e).caught = (tryExceptChain hier hs e).2.isCaught ∧
      (handleException hier .retFalse hs fin e).loopExc = some (tryExceptChain hier hs e).2.exc) ∧
    (∀ e', (handleException hier (.raises e') hs fin e).trace.filter CallEv.isHandler =
        (tryExceptChain hier hs e').1 ∧
      (handleException hier (.raises e') hs fin e).caught =
        (tryExceptChain hier hs e').2.isCaught ∧
      (handleException hier (.raises e') hs fin e).loopExc =
        some (tryExceptChain hier hs e').2.exc) := by
  refine ⟨handlerLoop_eq_chain hier hs e, ?_, ?_⟩
  · rw [handleException_of_ne _ _ _ _ _ (by simp)]
    simp [RBeh.replace, CallEv.isHandler, filter_isHandler_chain, finCalls_not_handler]
  · intro e'
    rw [handleException_of_ne _ _ _ _ _ (by simp)]
    simp [RBeh.replace, CallEv.isHandler, filter_isHandler_chain, finCalls_not_handler]

/-- The first handler called is the first one, in list order, whose types match the exception in
play after the reactor's handler (the original one, or the one the reactor's handler raised), and
it receives exactly that exception; if none matches no handler is called.  Moreover every handler
call in the trace is a call of a registered handler whose types match the exception it was given.
(`find?` is the independent specification.) -/
theorem first_match_receives (hier : Hier) (r : RBeh) (hs : List Handler) (fin : Final) (e : Exc)
    (hr : r ≠ .retTrue) :
    ((handleException hier r hs fin e).trace.filter CallEv.isHandler).head? =
      (hs.find? (fun h => h.handles hier (r.replace e))).map
        (fun h => CallEv.handler h.id (r.replace e) h.beh.raised) ∧
    (∀ ev ∈ (handleException hier r hs fin e).trace.filter CallEv.isHandler,
      ∃ h ∈ hs, h.handles hier ev.arg = true ∧ ev = CallEv.handler h.id ev.arg h.beh.raised) := by
  rw [handleException_of_ne _ _ _ _ _ hr]
  simp only [List.filter_cons, CallEv.isHandler, Bool.false_eq_true, ↓reduceIte,
    List.filter_append, filter_isHandler_chain, finCalls_not_handler, List.append_nil]
  exact ⟨chain_head hier hs _, chain_sound hier hs _⟩

/-- The final handler always runs: unless the reactor's handler returned a true value, a callable
final handler is called exactly once, as the LAST call of the trace, with the last exception in
play (`lastExc` of everything before it = the exception the handler loop ended with); if it raises,
its exception is the one recorded, otherwise the one it was given is. -/
theorem final_always_runs (hier : Hier) (r : RBeh) (hs : List Handler) (b : Beh) (e : Exc)
    (hr : r ≠ .retTrue) :
    ∃ pre x, (handleException hier r hs (.fn b) e).trace = pre ++ [CallEv.final x b.raised] ∧
      (∀ ev ∈ pre, ev.isFinal = false) ∧
      x = lastExc e pre ∧
      (handleException hier r hs (.fn b) e).loopExc = some x ∧
      (handleException hier r hs (.fn b) e).recorded = some (b.raised.getD x) ∧
      (handleException hier r hs (.fn b) e).finalCalled = true := by
  rw [handleException_of_ne _ _ _ _ _ hr]
  refine ⟨CallEv.reactor e r.raisedExc :: (tryExceptChain hier hs (r.replace e)).1,
    (tryExceptChain hier hs (r.replace e)).2.exc, ?_, ?_, ?_, rfl, rfl, ?_⟩
  · simp [finCalls]
  · intro ev hev
    simp only [List.mem_cons] at hev
    rcases hev with hev | hev
    · subst hev; rfl
    · exact not_isFinal_of_isHandler (chain_all_handler hier hs _ ev hev)
  · rw [lastExc_cons]
    simp only [CallEv.raised, replace_eq]
    exact (chain_argsChained hier hs _).2.symm
  · simp [Outcome.finalCalled, finCalls, CallEv.isFinal]

/-- Without a callable final handler (`None` or `False`) no final call appears in the trace, and
when the reactor's handler returns a true value NOTHING else happens: no handler, no final handler,
nothing recorded, nothing re-raised. -/
theorem final_absent (hier : Hier) (r : RBeh) (hs : List Handler) (fin : Final) (e : Exc) :
    ((fin = .none ∨ fin = .false) →
      (handleException hier r hs fin e).finalCalled = false) ∧
    handleException hier .retTrue hs fin e =
      { trace := [CallEv.reactor e none], caught := false, loopExc := none, recorded := none,
        reraised := none, swallowedByReactor := true } := by
  refine ⟨?_, rfl⟩
  intro hfin
  by_cases hr : r = .retTrue
  · subst hr; simp [handleException_retTrue, Outcome.finalCalled, CallEv.isFinal]
  · rw [handleException_of_ne _ _ _ _ _ hr]
    have hc : ∀ ev ∈ (tryExceptChain hier hs (r.replace e)).1, ev.isFinal = false :=
      fun ev hev => not_isFinal_of_isHandler (chain_all_handler hier hs _ ev hev)
    have hany : (tryExceptChain hier hs (r.replace e)).1.any CallEv.isFinal = false := by
      rw [Bool.eq_false_iff]; intro h
      obtain ⟨ev, hev, h2⟩ := List.any_eq_true.mp h
      rw [hc ev hev] at h2; cases h2
    rcases hfin with h | h <;> subst h <;>
      simp [Outcome.finalCalled, finCalls, CallEv.isFinal, hany]

/-- The recorded exception is the last exception in play: unless the reactor's handler swallowed
the exception, `connection.exception` = the original exception replaced successively by whatever
the reactor's handler, the user handlers and the final handler raised (`lastExc`); and every call
in the trace — reactor handler, each user handler, final handler — was offered the last exception
in play at that moment. -/
theorem recorded_is_last (hier : Hier) (r : RBeh) (hs : List Handler) (fin : Final) (e : Exc)
    (hr : r ≠ .retTrue) :
    (handleException hier r hs fin e).recorded =
      some (lastExc e (handleException hier r hs fin e).trace) ∧
    (∀ a ev b, (handleException hier r hs fin e).trace = a ++ ev :: b →
      ev.arg = lastExc e a) := by
  have hc := chain_argsChained hier hs (r.replace e)
  have hA : argsChained e (handleException hier r hs fin e).trace := by
    rw [handleException_of_ne _ _ _ _ _ hr]
    simp only []
    rw [argsChained_append, lastExc_cons]
    simp only [argsChained, CallEv.arg, CallEv.raised, replace_eq, true_and, hc.2]
    exact ⟨hc.1, argsChained_finCalls _ _⟩
  refine ⟨?_, fun a ev b h => argsChained_split hA a ev b h⟩
  rw [handleException_of_ne _ _ _ _ _ hr]
  simp only [lastExc_append, lastExc_cons, CallEv.raised, replace_eq, hc.2, lastExc_finCalls]

/-- Re-raise law: the exception is re-raised from the thread iff the final handler is `None`, no
handler caught it, and the reactor's handler did not swallow it.  With `False` (or any callable) it
is never re-raised.  What is re-raised is the recorded exception. -/
theorem reraise_iff (hier : Hier) (r : RBeh) (hs : List Handler) (fin : Final) (e : Exc) :
    ((handleException hier r hs fin e).reraised ≠ none ↔
      fin = .none ∧ (handleException hier r hs fin e).caught = false ∧
        (handleException hier r hs fin e).swallowedByReactor = false) ∧
    (fin ≠ .none → (handleException hier r hs fin e).reraised = none) ∧
    (∀ x, (handleException hier r hs fin e).reraised = some x →
      (handleException hier r hs fin e).recorded = some x) ∧
    ((handleException hier r hs fin e).caught = true ↔
      r ≠ .retTrue ∧ (tryExceptChain hier hs (r.replace e)).2.isCaught = true) := by
  by_cases hr : r = .retTrue
  · subst hr; simp [handleException_retTrue]
  · rw [handleException_of_ne _ _ _ _ _ hr]
    by_cases hc : fin = .none ∧ (tryExceptChain hier hs (r.replace e)).2.isCaught = false
    · simp [hc, hr]
    · simp only [hc, ↓reduceIte, ne_eq, not_true_eq_false, and_true,
        reduceCtorEq, false_implies, implies_true, true_and, hr, not_false_eq_true]

/-- An exception raised inside a handler is offered to LATER handlers only: if the loop reaches the
handler `h` at position `pre.length` without having been caught (`pre` did not break the loop), `h`
matches what is then in play and raises `e'`, then the rest of the run is exactly the loop over the
handlers AFTER `h` started on `e'` — neither `h` nor any handler before it is consulted about `e'`,
and every later call is a call of a handler from `post`.  Independently of any hypothesis the ids
called form a sublist of the registered ids (registration order, nobody consulted twice). -/
theorem handler_raises_offered_to_later_only (hier : Hier) (pre : List Handler) (h : Handler)
    (post : List Handler) (e e' : Exc)
    (hpre : (handlerLoop hier pre e).broke = false)
    (hh : h.handles hier (handlerLoop hier pre e).exc = true)
    (hb : h.beh = .raises e') :
    handlerLoop hier (pre ++ h :: post) e =
      { exc := (handlerLoop hier post e').exc,
        calls := (handlerLoop hier pre e).calls ++
          CallEv.handler h.id (handlerLoop hier pre e).exc (some e') ::
            (handlerLoop hier post e').calls,
        broke := (handlerLoop hier post e').broke } ∧
    (∀ ev ∈ (handlerLoop hier post e').calls,
      ∃ h' ∈ post, h'.handles hier ev.arg = true ∧
        ev = CallEv.handler h'.id ev.arg h'.beh.raised) ∧
    (∀ (r : RBeh) (fin : Final) (hs : List Handler),
      (handleException hier r hs fin e).calls.Sublist (hs.map (·.id))) := by
  simp only [handlerLoop_eq_chain] at hpre hh ⊢
  refine ⟨?_, chain_sound hier post e', ?_⟩
  · rw [chain_append_raise hier h post e' hb pre e hpre hh]
  · intro r fin hs
    by_cases hr : r = .retTrue
    · subst hr; simp [handleException_retTrue, Outcome.calls, List.filterMap_cons, CallEv.handlerId?]
    · rw [handleException_of_ne _ _ _ _ _ hr]
      have := chain_ids_sublist hier hs (r.replace e)
      cases fin <;> simpa [Outcome.calls, finCalls, List.filterMap_cons, CallEv.handlerId?] using this

/-- Registration order: `early=True` puts the handler BEFORE all existing ones (which keep their
relative order), `early=False` after them; after any sequence of registrations the list is
(early registrations, latest first) ++ initial ++ (ordinary registrations in order); and an early
handler that matches is the one that receives the exception. -/
theorem early_registration_order (hier : Hier) (hs : List Handler) (h : Handler) :
    registerHandler hs h true = h :: hs ∧
    registerHandler hs h false = hs ++ [h] ∧
    (∀ rs : List (Handler × Bool), registerHandlers hs rs =
      ((rs.filter (fun r => r.2)).map (·.1)).reverse ++ hs ++
        (rs.filter (fun r => !r.2)).map (·.1)) ∧
    (∀ (r : RBeh) (fin : Final) (e : Exc), r ≠ .retTrue →
      h.handles hier (r.replace e) = true →
      ((handleException hier r (registerHandler hs h true) fin e).trace.filter
          CallEv.isHandler).head? = some (CallEv.handler h.id (r.replace e) h.beh.raised)) := by
  refine ⟨rfl, rfl, fun rs => registerHandlers_eq rs hs, ?_⟩
  intro r fin e hr hh
  rw [handleException_of_ne _ _ _ _ _ hr]
  simp only [List.filter_cons, CallEv.isHandler, Bool.false_eq_true, ↓reduceIte,
    List.filter_append, filter_isHandler_chain, finCalls_not_handler, List.append_nil]
  rw [chain_head, registerHandler_early]
  simp [hh]

/-! ## Non-vacuity -/

/-- 1 = `Exception`, 2 = `OSError(Exception)`, 3 = `ConnectionError(OSError)`,
4 = `ValueError(Exception)`. -/
private def h₀ : Hier := [(2, 1), (3, 2), (4, 1)]

private def hsA : List Handler :=
  [⟨10, [4], .returns⟩, ⟨11, [2], .raises ⟨4, 7⟩⟩, ⟨12, [4], .returns⟩, ⟨13, [], .returns⟩]

-- ConnectionError: skipped by 10, caught by 11 which raises ValueError#7; that is NOT offered to
-- 10 (earlier) but to 12 (later), which catches it; final runs with ValueError#7; nothing re-raised
example :
    handleException h₀ .retFalse hsA (.fn .returns) ⟨3, 0⟩ =
      { trace := [.reactor ⟨3, 0⟩ none, .handler 11 ⟨3, 0⟩ (some ⟨4, 7⟩), .handler 12 ⟨4, 7⟩ none,
          .final ⟨4, 7⟩ none],
        caught := true, loopExc := some ⟨4, 7⟩, recorded := some ⟨4, 7⟩, reraised := none,
        swallowedByReactor := false } := by decide
example : tryExceptChain h₀ hsA ⟨3, 0⟩ =
    ([.handler 11 ⟨3, 0⟩ (some ⟨4, 7⟩), .handler 12 ⟨4, 7⟩ none], .caughtBy 12 ⟨4, 7⟩) := by decide
-- the last handler raising: loop ends without break → uncaught; final = None → re-raised
example :
    handleException h₀ .retFalse [⟨10, [], .raises ⟨2, 9⟩⟩] .none ⟨4, 0⟩ =
      { trace := [.reactor ⟨4, 0⟩ none, .handler 10 ⟨4, 0⟩ (some ⟨2, 9⟩)],
        caught := false, loopExc := some ⟨2, 9⟩, recorded := some ⟨2, 9⟩,
        reraised := some ⟨2, 9⟩, swallowedByReactor := false } := by decide
-- final = False: recorded, never re-raised
example : (handleException h₀ .retFalse [] .false ⟨4, 0⟩).reraised = none ∧
    (handleException h₀ .retFalse [] .false ⟨4, 0⟩).recorded = some ⟨4, 0⟩ := by decide
-- reactor handler raises: replaces the exception; final handler raising replaces the recorded one
example :
    handleException h₀ (.raises ⟨4, 1⟩) hsA (.fn (.raises ⟨2, 5⟩)) ⟨3, 0⟩ =
      { trace := [.reactor ⟨3, 0⟩ (some ⟨4, 1⟩), .handler 10 ⟨4, 1⟩ none,
          .final ⟨4, 1⟩ (some ⟨2, 5⟩)],
        caught := true, loopExc := some ⟨4, 1⟩, recorded := some ⟨2, 5⟩, reraised := none,
        swallowedByReactor := false } := by decide
-- reactor handler returns True: nothing else happens
example : (handleException h₀ .retTrue hsA (.fn .returns) ⟨3, 0⟩).recorded = none ∧
    (handleException h₀ .retTrue hsA (.fn .returns) ⟨3, 0⟩).swallowedByReactor = true := by decide
-- hypotheses of `handler_raises_offered_to_later_only` are satisfiable
example : (handlerLoop h₀ [⟨10, [4], .returns⟩] ⟨3, 0⟩).broke = false ∧
    (⟨11, [2], .raises ⟨4, 7⟩⟩ : Handler).handles h₀ (handlerLoop h₀ [⟨10, [4], .returns⟩] ⟨3, 0⟩).exc
      = true := by decide
-- registration
example : registerHandlers [⟨1, [], .returns⟩]
    [(⟨2, [], .returns⟩, true), (⟨3, [], .returns⟩, false), (⟨4, [], .returns⟩, true)] =
    [⟨4, [], .returns⟩, ⟨2, [], .returns⟩, ⟨1, [], .returns⟩, ⟨3, [], .returns⟩] := by decide

end PyCraft.C14
