import PyCraft.Lemmas.C09Status
import PyCraft.Props.C09
import PyCraft.Props.C08
/-!
# C09, audit item 18 — the `status()` handler modes, the "only" of the fallback, totality

Model: `Model/C09Status.lean` (namespace `PyCraft.NegS`), helper lemmas and the specification
vocabulary (`PingIffRequested`, `noVersion`, `FallbackOnlyWhenNoVersion`, `abstractReply`,
`ThreadShape`, …) in `Lemmas/C09Status.lean`.

What the first C09 file left open and this one closes:

* `doPing : Bool` was a free parameter.  Here the call is `statusCall p ctx hs hp exitCb …` with the
  two handler ARGUMENTS `hs hp : HArg` (`None` / callable / `False`), `do_ping` is computed from
  `hp` as in l.369, every handler invocation in the log is tagged with the callable that ran, and
  the `do_ping` rule of the reviewer's changed code is refuted.
* the status scripts were the two compliant ones; here ignorable packets may be interleaved anywhere,
  a response may fail to parse (`json.loads` raises), and three theorems hold for EVERY script.
* the exit callback was a counter; here it is the action `exit` in the log and is shown to be last.
* "falls back only when …" was relative to five reply shapes; here the reply is an arbitrary JSON
  value, unparsable JSON, end of stream or another socket error, the first model is shown to be the
  restriction of this one, and the changed exception test of audit item 1 is refuted.
* `session` was conditional on `= .ok s`; here it is total after a successful constructor, and the
  live version tables are shown to be sane.
-/
namespace PyCraft.C09Status
open PyCraft PyCraft.Neg PyCraft.NegS

/-! ## Part 1 — `Connection.status(handle_status, handle_ping)` -/

/-- The table of handler modes (l.369-380): `False` installs the no-op, a callable installs itself,
`None` leaves the printing method; latency is measured unless `handle_ping` is `False`; and the
defaults of the signature are `handle_status=None, handle_ping=False`. -/
theorem handler_callables (h : HArg) :
    (calleeOf h = .noop ↔ h = .disabled) ∧ (calleeOf h = .user ↔ h = .custom) ∧
    (calleeOf h = .printer ↔ h = .dflt) ∧ (doPingOf h = true ↔ h ≠ .disabled) ∧
    statusDefaultArgs = (.dflt, .disabled) :=
  ⟨(calleeOf_spec h).1, (calleeOf_spec h).2.1, (calleeOf_spec h).2.2, doPingOf_spec h, rfl⟩

/-- Whatever the server sends, in all nine combinations of the two arguments: every status-handler
invocation runs the callable selected by `handle_status`, every latency report runs the callable
selected by `handle_ping`, and a ping is sent or a latency reported only if `handle_ping` was not
`False`. -/
theorem handlers_invoked_are_installed {J : Type} (p : ConnParams) (ctx : Nat) (hs hp : HArg)
    (exitCb : Bool) (parse : String → Except Err J) (clock : Nat → Nat) (script : List StatusPkt) :
    (∀ w d, SAct.callStatus w d ∈ (statusCall p ctx hs hp exitCb parse clock script).acts →
      w = calleeOf hs) ∧
    (∀ w l, SAct.callPing w l ∈ (statusCall p ctx hs hp exitCb parse clock script).acts →
      w = calleeOf hp ∧ hp ≠ .disabled) ∧
    (∀ t, SAct.sendPing t ∈ (statusCall p ctx hs hp exitCb parse clock script).acts →
      hp ≠ .disabled) := by
  have hloop : ∀ a ∈ (statusCall p ctx hs hp exitCb parse clock script).acts,
      a ∈ (runLoopS parse clock (doPingOf hp) (calleeOf hs) (calleeOf hp) TSt.init script).2.1 ∨
        a = .exit ∨ a = .disconnectImmediate ∨ ∃ e, a = .excHandlers e :=
    fun a ha => threadRun_acts_mem _ _ _ _ _ _ _ _ a ha
  have hdp : ∀ a ∈ (runLoopS parse clock (doPingOf hp) (calleeOf hs) (calleeOf hp) TSt.init script).2.1,
      ((∃ t, a = .sendPing t) ∨ ∃ w l, a = .callPing w l) → hp ≠ .disabled := by
    intro a ha hping hd
    subst hd
    have := runLoopS_false_acts parse clock (calleeOf hs) (calleeOf .disabled) script TSt.init rfl a ha
    rcases hping with ⟨t, rfl⟩ | ⟨w, l, rfl⟩
    · exact this.1 t rfl
    · exact this.2 w l rfl
  refine ⟨?_, ?_, ?_⟩
  · intro w d h
    rcases hloop _ h with h | h | h | ⟨_, h⟩
    · exact ((runLoopS_callees _ _ _ _ _ script TSt.init _ h).1 w d rfl)
    all_goals cases h
  · intro w l h
    rcases hloop _ h with h | h | h | ⟨_, h⟩
    · exact ⟨(runLoopS_callees _ _ _ _ _ script TSt.init _ h).2 w l rfl, hdp _ h (.inr ⟨w, l, rfl⟩)⟩
    all_goals cases h
  · intro t h
    rcases hloop _ h with h | h | h | ⟨_, h⟩
    · exact hdp _ h (.inl ⟨t, rfl⟩)
    all_goals cases h

/-- Pings exactly when latency was requested: as soon as a parsable response arrives (possibly
after packets the reactor ignores), a ping is sent iff `handle_ping` was `None` or a callable. -/
theorem ping_iff_requested : PingIffRequested doPingOf := by
  intro p ctx hs hp exitCb parse clock others rest j d ho hpj
  constructor
  · rintro ⟨t, ht⟩
    exact (handlers_invoked_are_installed p ctx hs hp exitCb parse clock _).2.2 t ht
  · intro hne
    have hd : doPingOf hp = true := (doPingOf_spec hp).2 hne
    refine ⟨clock 0, threadRun_acts_sub _ _ _ _ _ _ _ _ _ ?_⟩
    rw [runLoopS_others _ _ _ _ _ _ _ _ ho, runLoopS_response_ok _ _ _ _ _ _ _ _ _ rfl hpj, hd]
    simp [TSt.init]

/-- The reviewer's changed code `do_ping = handle_ping is not None` (which leaves every theorem of
`Props/C09.lean` true) violates `ping_iff_requested`: with `handle_ping=False` it pings. -/
theorem changed_doPing_refuted : ¬ PingIffRequested (fun hp => hp != .dflt) := by
  intro h
  have := (h ⟨"h", 25565, none, none⟩ 0 .dflt .disabled false (fun s => .ok s) (fun _ => 7) [] []
    "{}" "{}" (by simp) rfl).1 ⟨7, by decide +kernel⟩
  exact this rfl

/-- Status query without latency, any interleaving of ignorable packets before the response and
anything at all after it, all three `handle_status` modes: the frames queued are the handshake
(protocol = context version, configured host and port, next state 1) and the request; the thread
disconnects, hands the PARSED object to the selected callable once, runs the exit callback (if there
is one) as the last action and ends; nothing else happens. -/
theorem status_noping_general {J : Type} (p : ConnParams) (ctx : Nat) (hs : HArg) (exitCb : Bool)
    (parse : String → Except Err J) (clock : Nat → Nat) (others extra : List StatusPkt) (j : String)
    (d : J) (ho : ∀ q ∈ others, IsOther q) (hpj : parse j = .ok d) :
    statusCall p ctx hs .disabled exitCb parse clock (others ++ .response j :: extra) =
      ⟨[.handshake ⟨ctx, p.host, p.port, 1⟩, .statusRequest],
       [.disconnect, .callStatus (calleeOf hs) d] ++ (if exitCb then [.exit] else []),
       false, true, none⟩ := by
  unfold statusCall statusCallWith threadRun
  rw [runLoopS_others _ _ _ _ _ _ _ _ ho, runLoopS_response_ok _ _ _ _ _ _ _ _ _ rfl hpj]
  cases exitCb <;> simp [doPingOf, TSt.disc, TSt.init, firstFrames, STATE_STATUS]

/-- Status query with latency (`handle_ping` `None` or a callable), ignorable packets interleaved
before the response and between response and pong, anything after the pong: one ping stamped with
the first clock reading, the parsed object handed to the selected status callable once, then — on the
pong — one disconnect, one latency report `second reading − time in the pong` to the selected ping
callable, the exit callback last.  If the server echoes the ping's time and the clock did not go
backwards between the two readings, the reported latency is non-negative. -/
theorem status_ping_general {J : Type} (p : ConnParams) (ctx : Nat) (hs hp : HArg) (exitCb : Bool)
    (parse : String → Except Err J) (clock : Nat → Nat) (o₁ o₂ extra : List StatusPkt) (j : String)
    (d : J) (t : Int) (hne : hp ≠ .disabled) (h₁ : ∀ q ∈ o₁, IsOther q) (h₂ : ∀ q ∈ o₂, IsOther q)
    (hpj : parse j = .ok d) :
    statusCall p ctx hs hp exitCb parse clock (o₁ ++ .response j :: (o₂ ++ .pong t :: extra)) =
      ⟨[.handshake ⟨ctx, p.host, p.port, 1⟩, .statusRequest],
       [.sendPing (clock 0), .callStatus (calleeOf hs) d, .disconnect,
         .callPing (calleeOf hp) ((clock 1 : Int) - t)] ++ (if exitCb then [.exit] else []),
       false, true, none⟩ ∧
    (t = (clock 0 : Int) → clock 0 ≤ clock 1 → (0 : Int) ≤ (clock 1 : Int) - t) := by
  refine ⟨?_, fun h1 h2 => by omega⟩
  have hd : doPingOf hp = true := (doPingOf_spec hp).2 hne
  unfold statusCall statusCallWith threadRun
  rw [runLoopS_others _ _ _ _ _ _ _ _ h₁, runLoopS_response_ok _ _ _ _ _ _ _ _ _ rfl hpj, hd,
    if_pos rfl, runLoopS_others _ _ _ _ _ _ _ _ h₂, runLoopS_pong _ _ _ _ _ _ _ _ rfl, if_pos rfl]
  cases exitCb <;> simp [TSt.disc, TSt.tick, TSt.init, firstFrames, STATE_STATUS]

/-- Latency, for EVERY script and every monotone clock: a reported latency is the reading taken
when the pong arrived minus the time that pong carried, and every ping sent in this query was
stamped with an earlier-or-equal reading — so whenever the pong echoes a ping that was sent, the
reported latency is non-negative. -/
theorem latency_general {J : Type} (p : ConnParams) (ctx : Nat) (hs hp : HArg) (exitCb : Bool)
    (parse : String → Except Err J) (clock : Nat → Nat) (script : List StatusPkt)
    (hm : ∀ i k, i ≤ k → clock i ≤ clock k) (w : Callee) (l : Int)
    (h : SAct.callPing w l ∈ (statusCall p ctx hs hp exitCb parse clock script).acts) :
    ∃ k t, StatusPkt.pong t ∈ script ∧ l = (clock k : Int) - t ∧
      (∀ t₁, SAct.sendPing t₁ ∈ (statusCall p ctx hs hp exitCb parse clock script).acts →
        t₁ ≤ clock k) ∧
      ((∃ t₁, SAct.sendPing t₁ ∈ (statusCall p ctx hs hp exitCb parse clock script).acts ∧
        t = (t₁ : Int)) → 0 ≤ l) := by
  obtain ⟨_, h2, h3⟩ := runLoopS_reads parse clock (doPingOf hp) (calleeOf hs) (calleeOf hp) script
    TSt.init
  have hmem : ∀ a ∈ (statusCall p ctx hs hp exitCb parse clock script).acts,
      ((∃ t, a = .sendPing t) ∨ ∃ w l, a = SAct.callPing w l) →
      a ∈ (runLoopS parse clock (doPingOf hp) (calleeOf hs) (calleeOf hp) TSt.init script).2.1 := by
    intro a ha hk
    rcases threadRun_acts_mem _ _ _ _ _ _ _ _ a ha with h | rfl | rfl | ⟨_, rfl⟩
    · exact h
    all_goals (rcases hk with ⟨_, hk⟩ | ⟨_, _, hk⟩ <;> cases hk)
  obtain ⟨t, ht, _, hl⟩ := h3 w l (hmem _ h (.inr ⟨w, l, rfl⟩))
  have hs1 : ∀ t₁, SAct.sendPing t₁ ∈ (statusCall p ctx hs hp exitCb parse clock script).acts →
      t₁ ≤ clock ((runLoopS parse clock (doPingOf hp) (calleeOf hs) (calleeOf hp) TSt.init
        script).1.reads - 1) := by
    intro t₁ h1
    obtain ⟨i, _, hi2, rfl⟩ := h2 t₁ (hmem _ h1 (.inl ⟨t₁, rfl⟩))
    exact hm _ _ (by omega)
  refine ⟨_, t, ht, hl, hs1, ?_⟩
  rintro ⟨t₁, h1, rfl⟩
  have := hs1 t₁ h1
  omega

/-- "Hands the PARSED status object": if the first response does not parse, `json.loads`'s error
goes to the exception handlers, the connection is closed immediately, no status handler runs, no
ping is sent, and the exit callback is NOT run (`_handle_exit` is skipped on the exception path). -/
theorem parse_failure {J : Type} (p : ConnParams) (ctx : Nat) (hs hp : HArg) (exitCb : Bool)
    (parse : String → Except Err J) (clock : Nat → Nat) (others extra : List StatusPkt) (j : String)
    (e : Err) (ho : ∀ q ∈ others, IsOther q) (hpj : parse j = .error e) :
    statusCall p ctx hs hp exitCb parse clock (others ++ .response j :: extra) =
      ⟨[.handshake ⟨ctx, p.host, p.port, 1⟩, .statusRequest],
       [.excHandlers e, .disconnectImmediate], false, true, some e⟩ := by
  unfold statusCall statusCallWith threadRun
  rw [runLoopS_others _ _ _ _ _ _ _ _ ho, runLoopS_response_err _ _ _ _ _ _ _ _ _ rfl hpj]
  simp [firstFrames, STATE_STATUS]

/-- "Finally closes the connection and runs the exit callback", for EVERY script: the thread is in
exactly one of three situations —
* still waiting (script exhausted): connected, nothing closed;
* an exception ended it: the log ends with handlers + immediate disconnect, closed, no exit callback;
* it ended normally: the log is `… , disconnect, <the one handler call of that packet>` followed by
  `exit` as the very last action iff an exit callback was given; closed; no other `disconnect`.
The handler call after the disconnect is the status handler when latency was not requested and the
latency handler when it was. -/
theorem thread_outcomes {J : Type} (p : ConnParams) (ctx : Nat) (hs hp : HArg) (exitCb : Bool)
    (parse : String → Except Err J) (clock : Nat → Nat) (script : List StatusPkt) :
    ThreadShape (doPingOf hp) (calleeOf hs) (calleeOf hp) exitCb
      [.handshake ⟨ctx, p.host, p.port, 1⟩, .statusRequest]
      (statusCall p ctx hs hp exitCb parse clock script) :=
  threadRun_shape parse clock (doPingOf hp) (calleeOf hs) (calleeOf hp) exitCb _ script

/-- The exit callback in the log, for EVERY script: `exit` occurs iff an exit callback was given
and a `disconnect` happened; when it occurs it is the LAST action, the connection is closed, the
thread has ended without error; a `disconnect` always leaves the connection closed and the thread
ended; and `exit` never occurs twice. -/
theorem exit_is_last {J : Type} (p : ConnParams) (ctx : Nat) (hs hp : HArg) (exitCb : Bool)
    (parse : String → Except Err J) (clock : Nat → Nat) (script : List StatusPkt)
    (run : StatusRunS J) (hrun : run = statusCall p ctx hs hp exitCb parse clock script) :
    (SAct.exit ∈ run.acts ↔ exitCb = true ∧ SAct.disconnect ∈ run.acts) ∧
    (SAct.exit ∈ run.acts → run.acts.getLast? = some .exit ∧ run.connected = false ∧
      run.threadEnded = true ∧ run.error = none) ∧
    (SAct.disconnect ∈ run.acts → run.connected = false ∧ run.threadEnded = true ∧
      run.error = none) ∧
    run.acts.countP SAct.isExit ≤ 1 := by
  subst hrun
  exact (thread_outcomes p ctx hs hp exitCb parse clock script).exit_last

/-- Without latency, EVERY script: nothing happens until the first response; that response either
fails to parse (error path) or is handed to the status handler exactly once, after the disconnect;
later responses, pongs and anything else are never reacted to. -/
theorem noping_any_script {J : Type} (p : ConnParams) (ctx : Nat) (hs : HArg) (exitCb : Bool)
    (parse : String → Except Err J) (clock : Nat → Nat) (script : List StatusPkt) :
    ((∀ j, StatusPkt.response j ∉ script) ∧
      (statusCall p ctx hs .disabled exitCb parse clock script).acts = [] ∧
      (statusCall p ctx hs .disabled exitCb parse clock script).threadEnded = false) ∨
    (∃ others j rest e, script = others ++ .response j :: rest ∧
      (∀ q ∈ others, ∀ j', q ≠ StatusPkt.response j') ∧ parse j = .error e ∧
      (statusCall p ctx hs .disabled exitCb parse clock script).acts =
        [.excHandlers e, .disconnectImmediate]) ∨
    (∃ others j rest d, script = others ++ .response j :: rest ∧
      (∀ q ∈ others, ∀ j', q ≠ StatusPkt.response j') ∧ parse j = .ok d ∧
      (statusCall p ctx hs .disabled exitCb parse clock script).acts =
        [.disconnect, .callStatus (calleeOf hs) d] ++ (if exitCb then [.exit] else [])) := by
  have hd : doPingOf .disabled = false := rfl
  rcases runLoopS_noping parse clock (calleeOf hs) (calleeOf .disabled) script TSt.init rfl with
    ⟨h, hn⟩ | ⟨o, j, r, e, h1, h2, h3, h⟩ | ⟨o, j, r, d, h1, h2, h3, h⟩
  · refine .inl ⟨hn, ?_, ?_⟩ <;>
    · unfold statusCall statusCallWith threadRun
      rw [hd, h]
      rfl
  · refine .inr (.inl ⟨o, j, r, e, h1, h2, h3, ?_⟩)
    unfold statusCall statusCallWith threadRun
    rw [hd, h]
    rfl
  · refine .inr (.inr ⟨o, j, r, d, h1, h2, h3, ?_⟩)
    unfold statusCall statusCallWith threadRun
    rw [hd, h]
    cases exitCb <;> rfl

/-! ## Part 2 — negotiation on arbitrary replies -/

/-- "Falls back to the configured default version ONLY when the reply carries no version or the
server closes without replying", over every reply the status connection can produce (any JSON
value, unparsable JSON, end of stream, any other socket error): `handle_failure()` is what happens
— and then with the default version — exactly when `noVersion r`. -/
theorem fallback_only_when_no_version : FallbackOnlyWhenNoVersion isEOFError := by
  intro env kn allowed dflt r v
  show evalReply env kn allowed dflt r = .connect v true ↔ _
  rcases evalReply_cases env kn allowed dflt r with ⟨hn, h⟩ |
    ⟨hn, ⟨e, h, _⟩ | ⟨n, h, _⟩ | ⟨_, _, _, w, _, _, _, _, _, _, h⟩⟩ <;> rw [h, hn]
  · constructor
    · intro he; cases he; exact ⟨rfl, rfl⟩
    · rintro ⟨rfl, _⟩; rfl
  · exact ⟨(fun he => by cases he), (fun he => by cases he.2)⟩
  · exact ⟨(fun he => by cases he), (fun he => by cases he.2)⟩
  · exact ⟨(fun he => by cases he), (fun he => by cases he.2)⟩

/-- The changed code of audit item 1 — `handle_exception` testing `isinstance(exc, Exception)`
instead of `EOFError` (or the fallback moved to a place where every error reaches it) — violates
`fallback_only_when_no_version`: a connection reset then falls back to the default version. -/
theorem changed_exception_test_refuted : ¬ FallbackOnlyWhenNoVersion (fun _ => true) := by
  intro h
  have := (h ⟨[], [47, 340], [47, 340]⟩ [] [47, 340] 340 .ioError 340).1 (by decide +kernel)
  exact absurd this.2 (by decide)

/-- Login with the server's version, exactly: `handle_proto_version(v)` is reached other than by
the fallback iff the reply is a JSON object whose `version` is an object whose `protocol` is the
integer `v` (or the JSON boolean equal to it: `True == 1`), and `v` is allowed. -/
theorem login_with_reported_version_iff (env : VEnv) (kn : List (String × Nat)) (allowed : List Nat)
    (dflt : Nat) (r : Reply) (v : Nat) :
    evalReply env kn allowed dflt r = .connect v false ↔
      ∃ kvs xk proto, r = .json (.obj kvs) ∧ lookup kvs "version" = some (.obj xk) ∧
        lookup xk "protocol" = some proto ∧ v ∈ allowed ∧
        (proto = .int (v : Int) ∨ (proto = .bool true ∧ v = 1) ∨ (proto = .bool false ∧ v = 0)) := by
  constructor
  · intro he
    rcases evalReply_cases env kn allowed dflt r with ⟨_, h⟩ |
      ⟨_, ⟨e, h, _⟩ | ⟨n, h, _⟩ | ⟨kvs, xk, proto, w, h1, h2, h3, h4, h5, h6, h⟩⟩ <;> rw [h] at he
    · cases he
    · cases he
    · cases he
    · cases he
      refine ⟨kvs, xk, proto, h1, h2, h3, h4, ?_⟩
      cases proto with
      | int n => simp only [intKey, Option.some.injEq] at h5; subst h5; exact .inl rfl
      | bool b =>
        cases b with
        | true => simp only [intKey, if_true, Option.some.injEq] at h5; exact .inr (.inl ⟨rfl, by omega⟩)
        | false =>
          simp only [intKey, Bool.false_eq_true, if_false, Option.some.injEq] at h5
          exact .inr (.inr ⟨rfl, by omega⟩)
      | flt f =>
        cases f with
        | integral m => exact absurd rfl (h6 m)
        | fractional => simp [intKey] at h5
        | nan => simp [intKey] at h5
        | inf => simp [intKey] at h5
      | null => simp [intKey] at h5
      | str s => simp [intKey] at h5
      | arr l => simp [intKey] at h5
      | obj k => simp [intKey] at h5
  · rintro ⟨kvs, xk, proto, rfl, h2, h3, h4, hp⟩
    refine evalReply_of_reported env kn allowed dflt kvs xk proto v h2 h3 h4 ?_ ?_
    · rcases hp with rfl | ⟨rfl, rfl⟩ | ⟨rfl, rfl⟩ <;> rfl
    · intro m hm
      rcases hp with rfl | ⟨rfl, _⟩ | ⟨rfl, _⟩ <;> cases hm

/-- The first model (`Neg.evalStatus` on the five shapes of `Neg.StatusReply`) is this model
restricted to the replies it can express: end of stream; `{}`; a non-empty object without
`version`; `version` an object without `protocol`; `version.protocol` an integer with
`version.name` absent, `null` or a string.  So `C09.negotiate_sound`, `negotiate_complete` and the
message theorems carry over verbatim to those replies — and the error's text is the first model's. -/
theorem refines_first_model (env : VEnv) (kn : List (String × Nat)) (allowed : List Nat) (dflt : Nat)
    (r : Reply) (a : StatusReply) (h : abstractReply r = some a) :
    evalReply env kn allowed dflt r =
      embedOutcome (isFallbackShape a) (evalStatus env allowed dflt a) ∧
    (∀ n name b, evalStatus env allowed dflt a = .mismatch n name b →
      mismatchText (.int n) (nameJV name) b = some (mismatchMessage n name b)) :=
  ⟨evalReply_refines env kn allowed dflt r a h, fun n name b _ => mismatchText_int n name b⟩

/-- Replies outside the first model's vocabulary that do NOT fall back: unparsable JSON, a socket
error other than end of stream, the empty object, and a JSON scalar each deliver their own error to
the exception handlers; none of them opens a login connection. -/
theorem errors_are_delivered (env : VEnv) (kn : List (String × Nat)) (allowed : List Nat)
    (dflt : Nat) :
    evalReply env kn allowed dflt .badJson = .raised .json ∧
    evalReply env kn allowed dflt .ioError = .raised .os ∧
    evalReply env kn allowed dflt (.json (.obj [])) = .raised .invalidStatus ∧
    evalReply env kn allowed dflt (.json .null) = .raised (.py .type) ∧
    (∀ b, evalReply env kn allowed dflt (.json (.bool b)) = .raised (.py .type)) ∧
    (∀ n, evalReply env kn allowed dflt (.json (.int n)) = .raised (.py .type)) ∧
    (∀ f, evalReply env kn allowed dflt (.json (.flt f)) = .raised (.py .type)) :=
  ⟨rfl, rfl, rfl, rfl, fun _ => rfl, fun _ => rfl, fun _ => rfl⟩

/-- Every `VersionMismatch` that can be raised: its wording says "supported, but not allowed"
exactly when the protocol it names is in `SUPPORTED_PROTOCOL_VERSIONS`; it comes from a JSON object
whose `version` object has a `protocol` that is NOT (equal to) an allowed version; it records
`version.get('name')`; and it names the reported protocol itself — except when that is `null`, in
which case (l.554-555) it names the protocol that `KNOWN_MINECRAFT_VERSIONS` gives for the NAME, or
none. -/
theorem mismatch_sound (env : VEnv) (kn : List (String × Nat)) (allowed : List Nat) (dflt : Nat)
    (r : Reply) (sp sv : JV) (b : Bool)
    (h : evalReply env kn allowed dflt r = .raised (.mismatch sp sv b)) :
    (b = true ↔ ∃ p ∈ env.supportedProtocols, intKey sp = some (p : Int)) ∧
    ∃ kvs xk proto, r = .json (.obj kvs) ∧ lookup kvs "version" = some (.obj xk) ∧
      lookup xk "protocol" = some proto ∧ sv = (lookup xk "name").getD .null ∧
      (∀ v ∈ allowed, intKey proto ≠ some (v : Int)) ∧
      ((proto ≠ .null ∧ sp = proto) ∨
       (proto = .null ∧ ((sp = .null ∧ ∀ s p, sv = .str s → dictGet kn s ≠ some p) ∨
          ∃ s p, sv = .str s ∧ dictGet kn s = some p ∧ sp = .int p))) := by
  rcases evalReply_cases env kn allowed dflt r with ⟨_, h'⟩ |
    ⟨_, ⟨e, h', horig⟩ | ⟨n, h', _⟩ | ⟨_, _, _, w, _, _, _, _, _, _, h'⟩⟩ <;> rw [h'] at h
  · cases h
  · cases h
    obtain ⟨kvs, x, hr, hx, xk, proto, rfl, hp, hset, hvm⟩ := horig sp sv b rfl
    obtain ⟨h1, h2, h3⟩ := versionMismatchX_spec env kn _ _ _ _ _ hvm
    refine ⟨?_, kvs, xk, proto, hr, hx, hp, h1, inIntSet_false _ _ hset, ?_⟩
    · rw [h2]; exact inIntList_iff _ _
    · rw [h1]; exact h3
  · cases h
  · cases h

/-- A JSON float equal to an allowed version (`"protocol": 47.0`) passes `proto in allowed` and is
handed to `handle_proto_version` as a float — observed on the real code: a second TCP connection is
opened and its first write raises `TypeError` before any byte is sent. -/
theorem float_protocol (env : VEnv) (kn : List (String × Nat)) (allowed : List Nat) (dflt : Nat)
    (kvs xk : List (String × JV)) (v : Nat)
    (h1 : lookup kvs "version" = some (.obj xk))
    (h2 : lookup xk "protocol" = some (.flt (.integral (v : Int)))) (hv : v ∈ allowed) :
    evalReply env kn allowed dflt (.json (.obj kvs)) = .connectFloat (v : Int) :=
  evalReply_of_float env kn allowed dflt kvs xk v h1 h2 hv

/-! ## Part 3 — totality of `session`, the live tables -/

/-- Once the constructor has succeeded, `connect()`'s two-connection exchange is total: for every
connection parameters and every server reply there is a session — no hypothesis on the tables is
needed (the constructor already evaluated the only `max` that can raise). -/
theorem session_total (env : VEnv) (allowed : Option (List VReq)) (initial : Option VReq) (cfg : Cfg)
    (h : ctor env allowed initial = .ok cfg) (p : ConnParams) (r : StatusReply) :
    ∃ s, session env p cfg.allowed cfg.default r = .ok s := by
  obtain ⟨_, hl, _, _⟩ := ctor_ok env allowed initial cfg h
  have hcp : connectPlan env cfg.allowed =
      .ok (if cfg.allowed.length = 1 then .direct cfg.ctx else .query cfg.ctx) := by
    simp only [connectPlan, hl]
    split <;> rfl
  by_cases h1 : cfg.allowed.length = 1
  · simp only [session, hcp, if_pos h1]
    exact ⟨_, rfl⟩
  · cases ho : evalStatus env cfg.allowed cfg.default r with
    | connect v =>
      simp only [session, hcp, if_neg h1, ho, connectPlan_single]
      exact ⟨_, rfl⟩
    | mismatch n nm b =>
      simp only [session, hcp, if_neg h1, ho]
      exact ⟨_, rfl⟩
    | invalidStatus =>
      simp only [session, hcp, if_neg h1, ho]
      exact ⟨_, rfl⟩

/-- The version tables of the running module, as the `VEnv` the negotiation model consults. -/
def liveEnv : VEnv :=
  ⟨liveTables.supportedVersions, liveTables.supportedProtocols, liveTables.knownProtocols⟩

/-- The live tables are sane: every supported protocol has a rank.  (Not by enumeration: from the
general theorem `C08.supported_projection` and the kernel-checked `C08.model_eq_live`.) -/
theorem live_sane : Sane liveEnv := by
  intro p hp
  have := (C08.supported_projection liveRecords).2.2.2.2.1
  rw [C08.model_eq_live] at this
  exact this p hp

/-- `rankOf liveEnv` is `PROTOCOL_VERSION_INDICES.get` of the running module. -/
theorem live_rank (v : Nat) (hv : v ∈ liveEnv.knownOrder) :
    index liveTables v = some (rankOf liveEnv v) := by
  have h := (C08.indices_spec liveRecords).2.1 v (rankOf liveEnv v)
  rw [C08.model_eq_live] at h
  rw [h]
  have hv' : v ∈ liveTables.knownProtocols := hv
  have hlt := List.idxOf_lt_length_of_mem hv'
  show liveTables.knownProtocols[liveTables.knownProtocols.idxOf v]? = some v
  rw [List.getElem?_eq_getElem hlt, List.getElem_idxOf hlt]

/-- With the live tables: the default constructor succeeds, and after ANY successful constructor
every session exists. -/
theorem live_session_total :
    (∃ cfg, ctor liveEnv none none = .ok cfg) ∧
    (∀ allowed initial cfg, ctor liveEnv allowed initial = .ok cfg →
      ∀ p r, ∃ s, session liveEnv p cfg.allowed cfg.default r = .ok s) :=
  ⟨C09.ctor_succeeds liveEnv live_sane none none (by decide +kernel) (fun _ h => by cases h),
   fun allowed initial cfg h p r => session_total liveEnv allowed initial cfg h p r⟩

/-! ## Non-vacuity and concrete instances -/

section Examples
open PyCraft.C09 (envEx paramsEx)

/-- The driver's `json.loads`: identity, except one text that raises. -/
def parseEx (s : String) : Except Err String := if s = "{bad" then .error .value else .ok s
def clockEx (k : Nat) : Nat := [1000, 1042, 1100].getD k 1100

-- all handler modes on a script with ignorable packets interleaved
example : statusCall paramsEx 754 .dflt .custom true parseEx clockEx
    [.other, .response "{}", .other, .other, .pong 1000, .response "x"] =
    ⟨[.handshake ⟨754, "mc.example.org", 25565, 1⟩, .statusRequest],
     [.sendPing 1000, .callStatus .printer "{}", .disconnect, .callPing .user 42, .exit],
     false, true, none⟩ := by decide +kernel
example : statusCall paramsEx 754 .custom .dflt false parseEx clockEx
    [.response "{}", .pong 1000] =
    ⟨[.handshake ⟨754, "mc.example.org", 25565, 1⟩, .statusRequest],
     [.sendPing 1000, .callStatus .user "{}", .disconnect, .callPing .printer 42],
     false, true, none⟩ := by decide +kernel
example : statusCall paramsEx 754 .disabled .disabled true parseEx clockEx
    [.other, .response "{}", .pong 5] =
    ⟨[.handshake ⟨754, "mc.example.org", 25565, 1⟩, .statusRequest],
     [.disconnect, .callStatus .noop "{}", .exit], false, true, none⟩ := by decide +kernel
-- the signature's defaults: print the status, no ping
example : statusCall paramsEx 754 statusDefaultArgs.1 statusDefaultArgs.2 true parseEx clockEx
    [.response "{}"] =
    ⟨[.handshake ⟨754, "mc.example.org", 25565, 1⟩, .statusRequest],
     [.disconnect, .callStatus .printer "{}", .exit], false, true, none⟩ := by decide +kernel
-- unparsable JSON: error path, no exit callback
example : statusCall paramsEx 754 .custom .custom true parseEx clockEx [.other, .response "{bad"] =
    ⟨[.handshake ⟨754, "mc.example.org", 25565, 1⟩, .statusRequest],
     [.excHandlers .value, .disconnectImmediate], false, true, some .value⟩ := by decide +kernel
-- a server that never answers: the thread keeps waiting
example : (statusCall paramsEx 754 .custom .custom true parseEx clockEx [.other, .other]).threadEnded
    = false := by decide +kernel
-- a non-compliant server: the latency can be negative when the pong does not echo the ping
example : statusCall paramsEx 754 .custom .custom false parseEx clockEx [.response "{}", .pong 5000] =
    ⟨[.handshake ⟨754, "mc.example.org", 25565, 1⟩, .statusRequest],
     [.sendPing 1000, .callStatus .user "{}", .disconnect, .callPing .user (-3958)],
     false, true, none⟩ := by decide +kernel
-- the changed `do_ping` rule, concretely
example : (statusCallWith (fun hp => hp != .dflt) paramsEx 754 .dflt .disabled true parseEx clockEx
    [.response "{}"]).acts = [.sendPing 1000, .callStatus .printer "{}"] := by decide +kernel
-- a monotone clock (hypothesis `hm` of `latency_general`)
example : ∀ i k, i ≤ k → (fun n => 1000 + 42 * n) i ≤ (fun n => 1000 + 42 * n) k :=
  fun _ _ h => Nat.add_le_add_left (Nat.mul_le_mul_left 42 h) 1000

/-- Known version names for the examples (`KNOWN_MINECRAFT_VERSIONS`). -/
def knEx : List (String × Nat) := [("1.8.9", 47), ("1.12.2", 340), ("1.16.4", 754), ("1.14.4", 498)]

def verObj (proto : JV) (rest : List (String × JV)) : JV :=
  .obj [("description", .str "x"), ("version", .obj (("protocol", proto) :: rest))]

example : evalReply envEx knEx [47, 340] 340 (.json (verObj (.int 47) [("name", .str "1.8.9")])) =
    .connect 47 false := by decide +kernel
example : evalReply envEx knEx [47, 340] 340 (.json (verObj (.int 754) [("name", .str "1.16.4")])) =
    .raised (.mismatch (.int 754) (.str "1.16.4") true) := by decide +kernel
example : evalReply envEx knEx [47, 340] 340 (.json (verObj (.int (-3)) [])) =
    .raised (.mismatch (.int (-3)) .null false) := by decide +kernel
-- fallbacks: end of stream; objects, LISTS and STRINGS that do not contain the key
example : evalReply envEx knEx [47, 340] 340 .closed = .connect 340 true := by decide +kernel
example : evalReply envEx knEx [47, 340] 340 (.json (.obj [("description", .str "x")])) =
    .connect 340 true := by decide +kernel
example : evalReply envEx knEx [47, 340] 340 (.json (.obj [("version", .obj [("name", .str "y")])])) =
    .connect 340 true := by decide +kernel
example : evalReply envEx knEx [47, 340] 340 (.json (.arr [])) = .connect 340 true := by
  decide +kernel
example : evalReply envEx knEx [47, 340] 340 (.json (.str "")) = .connect 340 true := by
  decide +kernel
example : evalReply envEx knEx [47, 340] 340 (.json (.obj [("version", .arr [])])) =
    .connect 340 true := by decide +kernel
-- no fallback
example : evalReply envEx knEx [47, 340] 340 .badJson = .raised .json := by decide +kernel
example : evalReply envEx knEx [47, 340] 340 .ioError = .raised .os := by decide +kernel
example : evalReply envEx knEx [47, 340] 340 (.json (.obj [])) = .raised .invalidStatus := by
  decide +kernel
example : evalReply envEx knEx [47, 340] 340 (.json (.obj [("version", .null)])) =
    .raised (.py .type) := by decide +kernel
example : evalReply envEx knEx [47, 340] 340 (.json (.str "my version")) = .raised (.py .type) := by
  decide +kernel
example : evalReply envEx knEx [47, 340] 340 (.json (verObj (.str "47") [])) =
    .raised (.py .type) := by decide +kernel
example : evalReply envEx knEx [47, 340] 340 (.json (verObj (.flt .nan) [])) =
    .raised (.py .value) := by decide +kernel
-- quirks of dynamic typing, as observed on the real code
example : evalReply envEx knEx [47, 340] 340 (.json (verObj (.flt (.integral 47)) [])) =
    .connectFloat 47 := by decide +kernel
example : evalReply envEx knEx [47, 340] 340 (.json (verObj (.flt .fractional) [])) =
    .raised (.mismatch (.flt .fractional) .null false) := by decide +kernel
example : evalReply envEx knEx [47, 340] 340 (.json (verObj (.bool true) [])) =
    .raised (.mismatch (.bool true) .null false) := by decide +kernel
-- `"protocol": null`: the name decides — and an ALLOWED version is then reported as
-- "supported, but not allowed for this connection"
example : evalReply envEx knEx [47, 340] 340 (.json (verObj .null [("name", .str "1.8.9")])) =
    .raised (.mismatch (.int 47) (.str "1.8.9") true) := by decide +kernel
example : mismatchText (.int 47) (.str "1.8.9") true = some
    "Server's protocol version of 47 (1.8.9) is supported, but not allowed for this connection." := by
  decide +kernel
example : evalReply envEx knEx [47, 340] 340 (.json (verObj .null [("name", .str "zzz")])) =
    .raised (.mismatch .null (.str "zzz") false) := by decide +kernel
example : mismatchText .null (.str "zzz") false = some "Server's version of zzz is not supported." := by
  decide +kernel
example : evalReply envEx knEx [47, 340] 340 (.json (verObj .null [("name", .arr [])])) =
    .raised (.py .type) := by decide +kernel
-- the changed exception test, concretely
example : evalReplyWith (fun _ => true) envEx knEx [47, 340] 340 .ioError = .connect 340 true := by
  decide +kernel
example : evalReplyWith (fun _ => true) envEx knEx [47, 340] 340
    (.json (verObj (.int 754) [])) = .connect 340 true := by decide +kernel
-- the abstraction to the first model
example : abstractReply (.json (verObj (.int 47) [("name", .str "1.8.9")])) =
    some (.proto 47 (some "1.8.9")) := by decide +kernel
example : abstractReply (.json (.arr [])) = none := by decide +kernel
example : noVersion (.json (.arr [])) = true ∧ noVersion .ioError = false ∧
    noVersion (.json (.obj [])) = false := by decide +kernel
-- sessions after a successful constructor
example : ctor envEx (some [.num 340, .num 47]) (some (.num 754)) = .ok ⟨[47, 340], 754, 340⟩ ∧
    (session envEx paramsEx [47, 340] 754 .closedBeforeReply).toOption.map (·.outcome) =
      some (.connect 754) := by decide +kernel
example : liveEnv.supportedProtocols.length ≥ 100 ∧ 757 ∈ liveEnv.supportedProtocols := by
  decide +kernel

end Examples

end PyCraft.C09Status
