import PyCraft.Lemmas.LifecycleFairSched
import PyCraft.Props.C16
/-!
# C16, liveness part — "`disconnect()` … always leads to the networking thread terminating"

`Props/C16.lean` proves the safety half (`disconnect_leads_to_termination_partial`: the interrupted
thread performs at most 23 more actions, is never stuck for good, CAN always be driven to its
death).  This file supplies what was missing there: infinite schedules, a fairness assumption, and
the variant argument showing that the lock cannot be withheld from the thread for ever.

Semantics (`Model/LifecycleFair.lean`).  An infinite schedule is `σ : Nat → Tid`; `runN env s σ n` is
the state after the first `n` picks, a pick of a thread that is not enabled being a no-op exactly
as in `run` (`runN_is_run`).  `shift σ a` is `σ` from pick `a` on.

FAIRNESS ASSUMPTION USED: only WEAK fairness (justice),
`WeakFair env s σ := ∀ t n, (∀ m ≥ n, t is enabled in runN env s σ m) → ∃ m ≥ n, σ m = t`
— a thread that is enabled continuously from some pick on is picked again.  It is implied by
unconditional fairness `Fair σ := ∀ t n, ∃ m ≥ n, σ m = t` (`fair_implies_weakFair`), so every
theorem below also holds for all `Fair` schedules; it is strictly weaker (`rr 1 1` is weakly fair
for the example run but never picks `user 7`).  It constrains ALL threads, in particular the lock
holder: fairness towards the interrupted thread alone is NOT enough (`starved_by_lock_holder`).

Why weak fairness suffices (heart of the variant, `Lemmas/LifecycleFairVar.lean`,
`Lemmas/LifecycleFairLive.lean`): an interrupted thread `j` is blocked only (a) at the beginning of
a locked block while somebody else holds the lock, or (b) in `previous_thread.join()`.  (a): the
lock holder is always enabled and its step releases the lock (`owner_enabled`), so by weak fairness
it moves; and every step of every thread other than `j` decreases
`vari = 25·Σ_u (actions left in user program u) + Σ_k rank(pc_k)`, because user programs are finite
lists and — `j` occupying a slot — the only other networking threads that can move are past their
epilogue (two actions left), while the one thread object a `connect()` may still create waits for
`j`'s death.  Hence after finitely many such steps `j` is enabled for good and is picked.  (b): the
predecessor is itself interrupted and not waiting, so (a) applies to it first.

Only property theorems and non-vacuity / refutation examples live here.
-/
namespace PyCraft.C16Live
open PyCraft PyCraft.Life

/-- `runN_is_run`: the state after `n` picks of an infinite schedule is the state that the
finite-schedule semantics of `Model/Lifecycle.lean` assigns to the prefix `σ 0, …, σ (n-1)`; so
every theorem of `Props/C16.lean` about reachable states applies to every `runN` state. -/
theorem runN_is_run (env : List Beh) (s : Sys) (σ : Nat → Tid) (n : Nat) :
    runN env s σ n = run env s ((List.range n).map σ) :=
  runN_eq_run env s σ n

/-- `fair_implies_weakFair`: a schedule that picks every thread id infinitely often is weakly fair
for every server behaviour and every start state. -/
theorem fair_implies_weakFair (σ : Nat → Tid) (hσ : Fair σ) (env : List Beh) (s : Sys) :
    WeakFair env s σ :=
  hσ.weak env s

/-- `interrupted_thread_terminates`: in every reachable state, every existing thread object whose
`interrupt` flag is set — by `disconnect()`, by the reaction to a disconnect packet, or by the
exception path — reaches `dead` on every weakly fair infinite continuation, and stays dead. -/
theorem interrupted_thread_terminates (env : List Beh) (progs : List (List Op)) (rl rh : Nat)
    (sched : List Tid) (j : Nat) :
    let s := run env (init progs rl rh) sched
    (s.net j).pc ≠ .unborn → (s.net j).intr = true →
    ∀ σ, WeakFair env s σ → ∃ n, ∀ m, n ≤ m → ((runN env s σ m).net j).pc = .dead := by
  intro s hb hi σ hf
  exact eventually_always_dead env progs.length j s σ (reach_inv env progs rl rh sched)
    (UB_run env _ sched _ (init_UB progs rl rh)) hb hi hf

/-- `disconnect_leads_to_termination`: for all server behaviours, user programs, reconnect budgets
and every reachable state `s`: if any thread `t` (a user thread, or a networking thread in its
reaction to a disconnect packet) executes the body of `disconnect(immediate)` there, giving `s1`,
then every thread `j` occupying a slot of `s1` (`networking_thread` or `new_networking_thread`)
reaches `dead` after finitely many picks of EVERY weakly fair infinite schedule — whatever the
other threads do meanwhile, including further `connect()` calls — and stays dead. -/
theorem disconnect_leads_to_termination (env : List Beh) (progs : List (List Op)) (rl rh : Nat)
    (sched : List Tid) (t : Tid) (imm : Bool) :
    let s := run env (init progs rl rh) sched
    atCall s t (.disconnect imm) → ∀ s1, step env s t = some s1 →
    ∀ j, s1.nt = some j ∨ s1.newNt = some j →
    ∀ σ, WeakFair env s1 σ → ∃ n, ∀ m, n ≤ m → ((runN env s1 σ m).net j).pc = .dead := by
  intro s hat s1 hs1 j hj σ hf
  have h := reach_inv env progs rl rh sched
  have h1 := Life.step_inv env s s1 t h hs1
  have hi := (C16.disconnect_leads_to_termination_partial env progs rl rh sched t imm hat s1 hs1
    j hj).1
  have hb : (s1.net j).pc ≠ .unborn := by
    intro hc
    rcases hj with hj | hj
    · have := (h1.nt_iff j).mp hj; rw [hc] at this; cases this
    · have := (h1.new_iff j).mp hj; rw [hc] at this; cases this
  have hub : UB progs.length s1 :=
    UB_step env _ s s1 t (UB_run env _ sched _ (init_UB progs rl rh)) hs1
  exact eventually_always_dead env progs.length j s1 σ h1 hub hb hi hf

/-- `disconnect_leads_to_termination_fair`: the same under unconditional fairness (every thread id
is picked infinitely often). -/
theorem disconnect_leads_to_termination_fair (env : List Beh) (progs : List (List Op))
    (rl rh : Nat) (sched : List Tid) (t : Tid) (imm : Bool) :
    let s := run env (init progs rl rh) sched
    atCall s t (.disconnect imm) → ∀ s1, step env s t = some s1 →
    ∀ j, s1.nt = some j ∨ s1.newNt = some j →
    ∀ σ, Fair σ → ∃ n, ∀ m, n ≤ m → ((runN env s1 σ m).net j).pc = .dead := by
  intro s hat s1 hs1 j hj σ hσ
  exact disconnect_leads_to_termination env progs rl rh sched t imm hat s1 hs1 j hj σ
    (hσ.weak env s1)

/-- `all_networking_threads_end`: from every reachable state that is CLOSING — the user programs
have only `disconnect()` calls left, the reconnect budgets of the packet listener and of the
exception handler are exhausted and no such reconnect is pending, and every thread occupying a slot
is interrupted (i.e. a disconnect was the last effective lifecycle call) — every weakly fair
infinite schedule reaches, after finitely many picks, a state `q` that never changes again, in
which every networking thread ever created is dead, no further thread object was created, both
slots are empty, the lock is free and every user program has run to completion. -/
theorem all_networking_threads_end (env : List Beh) (progs : List (List Op)) (rl rh : Nat)
    (sched : List Tid) :
    let s := run env (init progs rl rh) sched
    Closing s → ∀ σ, WeakFair env s σ →
    ∃ n, (∀ m, n ≤ m → runN env s σ m = runN env s σ n) ∧
      (∀ t, step env (runN env s σ n) t = none) ∧
      (runN env s σ n).nthreads = s.nthreads ∧
      (∀ i, i < s.nthreads → ((runN env s σ n).net i).pc = .dead) ∧
      (runN env s σ n).nt = none ∧ (runN env s σ n).newNt = none ∧
      (runN env s σ n).owner = none ∧
      (∀ u, ((runN env s σ n).usr u).pc = .idle ∧ ((runN env s σ n).usr u).todo = []) := by
  intro s hc σ hf
  have h := reach_inv env progs rl rh sched
  have hub : UB progs.length s := UB_run env _ sched _ (init_UB progs rl rh)
  obtain ⟨n, hq⟩ := eventually_quiet env progs.length _ s σ h hub hc (Nat.le_refl _) hf
  obtain ⟨a, b, c, d, e⟩ := quiet_facts env _ (runN_inv env s h σ n) hq
  have hn := (closing_runN env progs.length s σ h hub hc n).2.2
  refine ⟨n, fun m hm => ?_, hq, hn, fun i hi => b i (by rw [hn]; exact hi), c, d, a, e⟩
  have e : m = n + (m - n) := by omega
  rw [e, runN_add]
  exact quiet_const env _ _ hq _

/-! ### Non-vacuity -/

/-- The ruler schedule 0 1 0 2 0 1 0 3 … over thread codes (`2u ↦ user u`, `2i+1 ↦ net i`) picks
every one of the infinitely many thread ids infinitely often: `Fair` (hence `WeakFair`) is
satisfiable. -/
theorem diag_is_fair : Fair diag := diag_fair

example : (List.range 8).map diag =
    [.user 0, .net 0, .user 0, .user 1, .user 0, .net 0, .user 0, .net 1] := by decide

/-- Round-robin over the user threads `0 … U-1` and the thread objects that exist is weakly fair
from every closing reachable state (no other thread is ever enabled there). -/
theorem round_robin_weakFair (env : List Beh) (progs : List (List Op)) (rl rh : Nat)
    (sched : List Tid) :
    let s := run env (init progs rl rh) sched
    Closing s → WeakFair env s (rr progs.length s.nthreads) := by
  intro s hc
  exact rr_weakFair_closing env progs.length s (reach_inv env progs rl rh sched)
    (UB_run env _ sched _ (init_UB progs rl rh)) hc

/-- One user thread: connect, disconnect. -/
def exProgs : List (List Op) := [[.connect, .disconnect false]]

/-- After the `connect()` call (body and release). -/
def exSched : List Tid := [.user 0, .user 0]

/-- The state just after the body of the `disconnect()` call. -/
def exS1 : Sys := run [] (init exProgs 0 0) (exSched ++ [.user 0])

/-- The scenario satisfies the hypotheses of `disconnect_leads_to_termination`: the user thread is
at its `disconnect()` call, the step yields `exS1`, thread 0 occupies the slot, is alive
(`loopChk`), and the user thread still holds the lock. -/
example :
    let s := run [] (init exProgs 0 0) exSched
    atCall s (.user 0) (.disconnect false) ∧ step [] s (.user 0) = some exS1 ∧
    exS1.nt = some 0 ∧ (exS1.net 0).pc = .loopChk ∧ exS1.owner = some (.user 0) :=
  ⟨⟨by decide, _, rfl⟩, rfl, by decide, by decide, by decide⟩

/-- `exS1` is closing, and round-robin `user 0, net 0, user 0, net 0, …` is weakly fair from it. -/
theorem exS1_closing : Closing exS1 :=
  closing_of_closingB 1 exS1 (reach_inv [] exProgs 0 0 _)
    (UB_run [] _ _ _ (init_UB exProgs 0 0)) (by decide)

theorem exS1_rr : WeakFair [] exS1 (rr 1 1) :=
  round_robin_weakFair [] exProgs 0 0 (exSched ++ [Tid.user 0]) exS1_closing

example : (List.range 4).map (rr 1 1) = [.user 0, .net 0, .user 0, .net 0] := by decide

/-- Weak fairness is strictly weaker than unconditional fairness: `rr 1 1` is weakly fair for the
run from `exS1` but never picks `user 7`. -/
example : WeakFair [] exS1 (rr 1 1) ∧ ¬Fair (rr 1 1) := by
  refine ⟨exS1_rr, fun h => ?_⟩
  obtain ⟨m, -, hm⟩ := h (.user 7) 0
  simp only [rr] at hm
  split at hm
  · have : m % (1 + 1) = 7 := by simpa using hm
    omega
  · cases hm

/-- Theorem 1 instantiated on the scenario, for the ruler schedule and for round-robin: thread 0
dies and stays dead. -/
example : ∃ n, ∀ m, n ≤ m → ((runN [] exS1 diag m).net 0).pc = .dead :=
  disconnect_leads_to_termination_fair [] exProgs 0 0 exSched (.user 0) false
    ⟨by decide, _, rfl⟩ exS1 rfl 0 (Or.inl (by decide)) diag diag_fair

example : ∃ n, ∀ m, n ≤ m → ((runN [] exS1 (rr 1 1) m).net 0).pc = .dead :=
  disconnect_leads_to_termination [] exProgs 0 0 exSched (.user 0) false
    ⟨by decide, _, rfl⟩ exS1 rfl 0 (Or.inl (by decide)) (rr 1 1) exS1_rr

/-- … and concretely: under round-robin thread 0 is dead after 10 picks (5 of them its own: the
interrupt check, `_handle_exit`, the epilogue, its release, the end of `run`). -/
example : ((runN [] exS1 (rr 1 1) 9).net 0).pc ≠ .dead ∧
    ((runN [] exS1 (rr 1 1) 10).net 0).pc = .dead := by decide

/-- Theorem 2 instantiated: round-robin from `exS1` reaches a state that never changes again, with
thread 0 dead and the slots empty. -/
example : ∃ n, (∀ m, n ≤ m → runN [] exS1 (rr 1 1) m = runN [] exS1 (rr 1 1) n) ∧
    ((runN [] exS1 (rr 1 1) n).net 0).pc = .dead ∧ (runN [] exS1 (rr 1 1) n).nt = none := by
  obtain ⟨n, h1, -, -, h4, h5, -⟩ :=
    all_networking_threads_end [] exProgs 0 0 (exSched ++ [Tid.user 0]) exS1_closing (rr 1 1)
      exS1_rr
  exact ⟨n, h1, h4 0 (by decide), h5⟩

/-- Both disjuncts of the slot hypothesis: connect, disconnect, connect, disconnect executed before
the first networking thread notices anything — the second `disconnect()` finds thread 0 (already
interrupted) in `networking_thread` and its waiting successor, thread 1, in
`new_networking_thread`; both die on every weakly fair schedule. -/
def exProgs2 : List (List Op) := [[.connect, .disconnect false, .connect, .disconnect true]]

example :
    let s := run [] (init exProgs2 0 0) (List.replicate 6 (.user 0))
    atCall s (.user 0) (.disconnect true) ∧
    ∃ s1, step [] s (.user 0) = some s1 ∧ s1.nt = some 0 ∧ s1.newNt = some 1 ∧
      (s1.net 1).pc = .waitPrev ∧
      ∀ σ, WeakFair [] s1 σ → ∃ n, ∀ m, n ≤ m →
        ((runN [] s1 σ m).net 0).pc = .dead ∧ ((runN [] s1 σ m).net 1).pc = .dead := by
  intro s
  have hat : atCall s (.user 0) (.disconnect true) := ⟨by decide, _, rfl⟩
  refine ⟨hat, _, rfl, by decide, by decide, by decide, fun σ hf => ?_⟩
  obtain ⟨n0, h0⟩ := disconnect_leads_to_termination [] exProgs2 0 0 _ (.user 0) true hat _ rfl 0
    (Or.inl (by decide)) σ hf
  obtain ⟨n1, h1⟩ := disconnect_leads_to_termination [] exProgs2 0 0 _ (.user 0) true hat _ rfl 1
    (Or.inr (by decide)) σ hf
  exact ⟨n0 + n1, fun m hm => ⟨h0 m (by omega), h1 m (by omega)⟩⟩

/-! ### The fairness hypothesis is needed -/

/-- `starved_thread_never_dies`: the schedule that only ever picks the user thread never lets
thread 0 move: it is alive (`loopChk`) after every number of picks — and this schedule is indeed
not weakly fair for the run (thread 0 is enabled at every pick and never chosen). -/
theorem starved_thread_never_dies :
    (∀ n, ((runN [] exS1 (fun _ => .user 0) n).net 0).pc ≠ .dead) ∧
    ¬WeakFair [] exS1 (fun _ => .user 0) := by
  have h : ∀ n, ((runN [] exS1 (fun _ => .user 0) n).net 0).pc ≠ .dead := by
    intro n
    rw [never_picked [] exS1 (reach_inv [] exProgs 0 0 _) 0 (by decide) _ (fun _ => by simp) n]
    decide
  refine ⟨h, fun hf => ?_⟩
  obtain ⟨n, hn⟩ := disconnect_leads_to_termination [] exProgs 0 0 exSched (.user 0) false
    ⟨by decide, _, rfl⟩ exS1 rfl 0 (Or.inl (by decide)) _ hf
  exact h n (hn n (Nat.le_refl _))

/-- `starved_by_lock_holder`: fairness towards the interrupted thread ALONE is not enough.  In
`exS1` the user thread has executed the body of `disconnect()` and still holds the lock.  The
schedule that picks thread 0 at EVERY pick lets it see its flag and run `_handle_exit`, and then
it waits for ever for the lock at the `with self.connection._write_lock:` of its `finally` block:
it is never dead, because the lock holder is never scheduled. -/
theorem starved_by_lock_holder :
    (∀ n, ((runN [] exS1 (fun _ => .net 0) n).net 0).pc ≠ .dead) ∧
    (∀ n, 2 ≤ n → ((runN [] exS1 (fun _ => .net 0) n).net 0).pc = .epilogue) ∧
    ¬WeakFair [] exS1 (fun _ => .net 0) := by
  have hstuck : ∀ n, 2 ≤ n →
      runN [] exS1 (fun _ => .net 0) n = runN [] exS1 (fun _ => .net 0) 2 := by
    intro n hn
    have e : n = 2 + (n - 2) := by omega
    rw [e, runN_add]
    have hs : step [] (runN [] exS1 (fun _ => .net 0) 2) (.net 0) = none := by decide
    exact stuck_const [] _ _ (fun _ => hs) _
  have h2 : ∀ n, 2 ≤ n → ((runN [] exS1 (fun _ => .net 0) n).net 0).pc = .epilogue := by
    intro n hn; rw [hstuck n hn]; decide
  have h : ∀ n, ((runN [] exS1 (fun _ => .net 0) n).net 0).pc ≠ .dead := by
    intro n
    by_cases hn : 2 ≤ n
    · rw [h2 n hn]; simp
    · have : n = 0 ∨ n = 1 := by omega
      rcases this with rfl | rfl <;> decide
  refine ⟨h, h2, fun hf => ?_⟩
  obtain ⟨n, hn⟩ := disconnect_leads_to_termination [] exProgs 0 0 exSched (.user 0) false
    ⟨by decide, _, rfl⟩ exS1 rfl 0 (Or.inl (by decide)) _ hf
  exact h n (hn n (Nat.le_refl _))

/-- `closing_decidable`: on reachable states `Closing` is implied by its bounded, decidable form
`closingB progs.length s` (quantifying over the user threads that have a program and the thread
objects that exist). -/
theorem closing_decidable (env : List Beh) (progs : List (List Op)) (rl rh : Nat)
    (sched : List Tid) :
    let s := run env (init progs rl rh) sched
    closingB progs.length s = true → Closing s := by
  intro s hc
  exact closing_of_closingB progs.length s (reach_inv env progs rl rh sched)
    (UB_run env _ sched _ (init_UB progs rl rh)) hc

/-- Quiescence needs the "no reconnect pending" part of `Closing`: with a listener budget `rl = 1`
and a server that sends a disconnect packet on the first connection, after the user's final
`disconnect()` (every slot occupant interrupted, no user call left) the listener of the old thread
reconnects; the new connection's thread is never interrupted and runs for ever. -/
example :
    let s := run [.disconnects, .accept] (init [[.connect, .disconnect false]] 1 0)
      ([.user 0, .user 0] ++ List.replicate 5 (.net 0) ++ [.user 0, .user 0] ++
        List.replicate 10 (.net 0) ++ List.replicate 5 (.net 1))
    (s.usr 0).todo = [] ∧ (s.net 0).pc = .dead ∧ s.nt = some 1 ∧ (s.net 1).intr = false ∧
    s.connected = true ∧ (Tid.net 1, Ev.wr (some 1)) ∈ s.log := by decide

/-- … the state right after that final `disconnect()` violates `Closing` only in `rl = 1`. -/
example :
    let s := run [.disconnects, .accept] (init [[.connect, .disconnect false]] 1 0)
      ([.user 0, .user 0] ++ List.replicate 5 (.net 0) ++ [.user 0, .user 0])
    (s.usr 0).todo = [] ∧ s.nt = some 0 ∧ (s.net 0).intr = true ∧ s.newNt = none ∧
    (s.net 0).pc = .call .react ∧ s.rh = 0 ∧ s.rl = 1 ∧ s.socket = .none := by decide

end PyCraft.C16Live
