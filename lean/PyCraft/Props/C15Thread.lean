import PyCraft.Lemmas.C15Thread
import PyCraft.Lemmas.HandshakeWire
import PyCraft.Props.C14
import PyCraft.Props.C15
import PyCraft.Model.Cfb8
import PyCraft.Generated.C15Thread
/-!
# C15 (whole thread) — a server that stops mid-conversation: the "error OR documented fallback"
split, the phased reader, and the bound for the whole `connect()` session

Closes audit gap 1 (`docs/audit_report.md`).  `Props/C15.lean` speaks about `readAllK` on a
homogeneous stream (one compression flag, one cipher from byte 0, no reactor);
`C14.handleException` takes the reactor handler's answer as a free parameter; `C09.evalStatus`
takes the end of stream as the symbolic input `closedBeforeReply`.  Here they are connected:

* `Model/C15Thread.lean`: `threadLoop` (the read loop of `NetworkingThread._run` with the reactor,
  the compression flag and the decryptor stack switching BETWEEN `read_packet` calls),
  `reactorHandle` (`PacketReactor.handle_exception` / `PlayingStatusReactor.handle_exception`),
  `threadsFuel`/`connectRun` (the threads of one `connect()`, including reconnects issued from the
  networking thread);
* every statement below is for ALL reaction functions (`React`: what `packet.read` + `_react` do
  with a delivered frame), all cipher pairs, all lawful zlibs, all handler chains, all exception
  hierarchies — except the `live_*` theorems, which check the model's reactor handler, the
  exception classes and the reactor installed by `connect()`/`status()` against tables generated
  from the LIVE code (`harness/gen/c15thread.py` → `Generated/C15Thread.lean`).

Formulation notes (differences from the reviewer's sketch, and why):
* (b) `reactorRes : ReactorKind → Err → …` is replaced by `reactorHandle` on exception CLASSES with
  `isinstance` = `isSub hier` (so "testing `isinstance(exc, Exception)`" is a statement about the
  hierarchy, refuted below), and with the outcome of the fallback `connect()` as an input: when
  that `connect()` raises, `handle_exception` raises and the exception is NOT swallowed but replaced
  — the sketch's iff `swallowed ↔ kind = playingStatus ∧ e = eof` is false for the code as written
  without the third conjunct "the fallback connection is accepted" (`cut_outcome`).
* (d) instead of one fixed shape `frames none ++ frames (some t) ++ enc(frames)` the phased
  theorem is for ANY number and order of switches, each taking effect right behind the packet that
  triggers it, and for NESTED decryptors (a second encryption request wraps the wrapped file
  object: `stackDec`), against a reference server (`srvWire`) that switches at the same points.
* (c) the bound "at most two connections" is not built into the model: `threadsFuel` follows every
  reconnect; that it stops after two threads is the theorem `connect_bounded`, under the explicit
  hypothesis `ReactOK` (only `PlayingStatusReactor` reaches `handle_proto_version`).
-/
namespace PyCraft.C15Thread
open PyCraft

/-! ## (a) the status response cut anywhere -/

/-- The status response for ANY JSON text, cut after ANY number `k` of bytes short of its full
length and delivered in ANY segmentation, then end of stream: the reader delivers nothing and raises
`EOFError` — as `readAll` of C15, and as the whole thread under ANY reactor (in particular
`PlayingStatusReactor`, whose handler turns exactly this into the fallback: `cut_outcome`). -/
theorem status_cut_eof {σ κ : Type} (cp : CipherPair σ) (init : κ → σ) (z : Zlib) (react : React κ)
    (json : String) (hj : HsWire.StrOK json) (k : Nat)
    (hk : k < (HsWire.responseBytes json).length) (segs : Segs)
    (hseg : segs.flatten = (HsWire.responseBytes json).take k) :
    readAll HsWire.noZlib false segs = ([], .eof) ∧
    ∀ kind, (runThread (stackClient cp init z.toZlibOps react) kind segs).view =
      ([], .raised .eof, ⟨kind, false⟩) := by
  have hfo : FrameOK z.toZlibOps none (0, HsWire.encString json) := by
    have := HsWire.frameOK_string 0 json (by omega) hj
    exact this
  have hwire : ∀ kind, srvWire (stackPair cp).enc (stackInstall init) z.toZlibOps react
      ⟨kind, none, []⟩ [(0, HsWire.encString json)] = HsWire.responseBytes json := by
    intro kind
    simp only [srvWire_cons, srvWire_nil, List.append_nil]
    rfl
  constructor
  · obtain ⟨n, -, h2, h3, h4⟩ := C15.prefix_delivers_complete_only Zlib.ident none
      [(0, HsWire.encString json)] (fun p hp => by
        simp only [List.mem_singleton] at hp; subst hp
        exact HsWire.frameOK_string 0 json (by omega) hj) k
      (by
        have : ([((0 : Nat), HsWire.encString json)].map
            (packetFrame Zlib.ident.toZlibOps none)).flatten = HsWire.responseBytes json := by
          simp [HsWire.responseBytes, HsWire.plainFrame, HsWire.noZlib]
        rw [this]; omega) segs
      (by
        rw [hseg]
        simp [HsWire.responseBytes, HsWire.plainFrame, HsWire.noZlib])
    have hn : n = 0 := by
      cases n with
      | zero => rfl
      | succ n =>
        exfalso
        have : (((List.take (n + 1) [((0 : Nat), HsWire.encString json)]).map
            (packetFrame Zlib.ident.toZlibOps none)).flatten) = HsWire.responseBytes json := by
          simp [HsWire.responseBytes, HsWire.plainFrame, HsWire.noZlib]
        rw [this] at h3; omega
    subst hn
    exact h2
  · intro kind
    have := threadLoop_cut (stackPair cp) [] (stackInstall init) z react
      [(0, HsWire.encString json)] ⟨kind, false⟩ ⟨kind, none, []⟩ (Sock.enc [] segs) k
      (segs.flatten.length + 1) 0 rfl rfl rfl ⟨hfo, trivial⟩
      (by rw [hwire]; exact hseg) (Nat.lt_succ_self _) (by simp) (by simp [srvWire_nil])
      (fun _ => by
        show k < (srvWire _ _ _ _ _ [(0, HsWire.encString json)]).length
        rw [hwire]; exact hk)
    exact this

/-! ## (d) the phased reader: any switches, any cut -/

/-- THE CUT THEOREM FOR THE WHOLE THREAD.  A reference server runs the conversation `ps` with a
client whose reactor is `kind` on a fresh connection: every packet framed under the threshold in
force and encrypted by the encryptor context(s) in force, where `set compression`, `encryption
request` (also several: nested contexts) and `login success` take effect right behind the packet
that carries them — as determined by the SAME reaction function the client uses.  Cut that stream
after ANY number `k` of bytes, deliver it in ANY segmentation, then end the stream.  Then, with `n`
the number of frames lying wholly inside the first `k` bytes (it exists and is pinned by the two
length inequalities), the thread does exactly what the reference run does on the first `n`
packets followed by end of stream: hands them to `_react` in order until a reaction stops the loop,
otherwise `EOFError`.  In particular what was delivered is a prefix of those `n` packets: no packet
the server did not send completely is delivered.  Any cipher pair, any wrapping operation, any
lawful zlib, any reaction function. -/
theorem cut_delivers_complete_only {τ κ : Type} (cp : CipherPair τ) (st0 : τ)
    (install : τ → κ → τ) (z : Zlib) (react : React κ) (kind : ReactorKind)
    (ps : List (Nat × Bytes)) (hok : WireOK z.toZlibOps react kind none ps) (k : Nat) (segs : Segs)
    (hseg : segs.flatten =
      (srvWire cp.enc install z.toZlibOps react ⟨kind, none, st0⟩ ps).take k) :
    ∃ n, n ≤ ps.length ∧
      (runThread ⟨cp.dec, st0, install, z.toZlibOps, react⟩ kind segs).view =
        refRun react ⟨kind, false⟩ (ps.take n) ∧
      (srvWire cp.enc install z.toZlibOps react ⟨kind, none, st0⟩ (ps.take n)).length ≤ k ∧
      (n < ps.length →
        k < (srvWire cp.enc install z.toZlibOps react ⟨kind, none, st0⟩ (ps.take (n + 1))).length) ∧
      (runThread ⟨cp.dec, st0, install, z.toZlibOps, react⟩ kind segs).delivered <+: ps.take n := by
  obtain ⟨n, h1, h2, h3⟩ := srvWire_count cp.enc install z.toZlibOps react ps ⟨kind, none, st0⟩ k
  have hv := threadLoop_cut cp st0 install z react ps ⟨kind, false⟩ ⟨kind, none, st0⟩
    (Sock.enc st0 segs) k (segs.flatten.length + 1) n rfl rfl rfl hok hseg (Nat.lt_succ_self _)
    h1 h2 h3
  refine ⟨n, h1, hv, h2, h3, ?_⟩
  have hd : (runThread ⟨cp.dec, st0, install, z.toZlibOps, react⟩ kind segs).delivered =
      (refRun react ⟨kind, false⟩ (ps.take n)).1 := congrArg Prod.fst hv
  rw [hd]
  exact refRun_prefix react _ _

/-- The same for pyCraft's client as it is: plain socket file at first, one more CFB8-style
decryptor wrapped around the current file object at every encryption request (`stackClient`), the
server applying the matching encryptors, newest first.  If moreover no reaction of the conversation
stops the loop (`Quiet`: an otherwise valid conversation that simply breaks off), ALL `n` complete
packets are delivered and the thread ends with `EOFError`. -/
theorem cut_delivers_complete_only_nested {σ κ : Type} (cp : CipherPair σ) (init : κ → σ)
    (z : Zlib) (react : React κ) (kind : ReactorKind) (ps : List (Nat × Bytes))
    (hok : WireOK z.toZlibOps react kind none ps) (k : Nat) (segs : Segs)
    (hseg : segs.flatten = (srvWire (stackEnc cp.enc) (stackInstall init) z.toZlibOps react
      ⟨kind, none, []⟩ ps).take k) :
    ∃ n, n ≤ ps.length ∧
      (runThread (stackClient cp init z.toZlibOps react) kind segs).view =
        refRun react ⟨kind, false⟩ (ps.take n) ∧
      (srvWire (stackEnc cp.enc) (stackInstall init) z.toZlibOps react ⟨kind, none, []⟩
        (ps.take n)).length ≤ k ∧
      (n < ps.length →
        k < (srvWire (stackEnc cp.enc) (stackInstall init) z.toZlibOps react ⟨kind, none, []⟩
          (ps.take (n + 1))).length) ∧
      (Quiet react kind ps →
        (runThread (stackClient cp init z.toZlibOps react) kind segs).delivered = ps.take n ∧
        (runThread (stackClient cp init z.toZlibOps react) kind segs).ending = .raised .eof) := by
  obtain ⟨n, h1, h2, h3, h4, -⟩ := cut_delivers_complete_only (stackPair cp) []
    (stackInstall init) z react kind ps hok k segs hseg
  refine ⟨n, h1, h2, h3, h4, ?_⟩
  intro hq
  obtain ⟨q1, q2, -⟩ := refRun_quiet react (ps.take n) ⟨kind, false⟩ (quiet_take react ps kind n hq)
  have hv : (runThread (stackClient cp init z.toZlibOps react) kind segs).view =
      refRun react ⟨kind, false⟩ (ps.take n) := h2
  constructor
  · rw [← q1]; exact congrArg Prod.fst hv
  · rw [← q2]; exact congrArg (fun x => x.2.1) hv

/-! ## the whole-thread bound -/

/-- For ANY byte stream of `N` bytes (well-formed or not, any segmentation), any client and any
reactor, the networking thread issues at most `N + 2` reads, at most two of them after the end of
the stream, hands at most `N` packets to `_react`, and more fuel than `N + 1` `read_packet` calls
changes nothing (the fuel is never the reason to stop).  It ends by one of the four framing
exceptions of `read_packet` (`EOFError`, the VarInt `ValueError`, `zlib.error`, `AssertionError`) or
by a stopping reaction; and its reactor at that moment is the one it started with or
`PlayingReactor`. -/
theorem thread_bounded {τ κ : Type} (C : Client τ κ) (kind : ReactorKind) (segs : Segs) :
    (runThread C kind segs).sock.reads ≤ segs.flatten.length + 2 ∧
    (runThread C kind segs).sock.empties ≤ 2 ∧
    (runThread C kind segs).delivered.length ≤ segs.flatten.length ∧
    (∀ fuel, segs.flatten.length < fuel →
      threadLoop C fuel ⟨kind, false⟩ (Sock.enc C.st0 segs) = runThread C kind segs) ∧
    (((runThread C kind segs).ending = .raised .eof ∨
      (runThread C kind segs).ending = .raised .tooLong ∨
      (runThread C kind segs).ending = .raised .zlib ∨
      (runThread C kind segs).ending = .raised .assertion) ∨
     ∃ kind' p d, (C.react kind' p).stop = some (d, (runThread C kind segs).ending)) ∧
    ((runThread C kind segs).mode.kind = kind ∨ (runThread C kind segs).mode.kind = .playing) := by
  obtain ⟨⟨m1, m2, m3⟩, h2, h3⟩ := threadLoop_tally C (segs.flatten.length + 1) ⟨kind, false⟩
    (Sock.enc C.st0 segs)
  have hrem : (Sock.enc C.st0 segs).rem = segs.flatten.length := rfl
  have hr : (Sock.enc C.st0 segs).reads = 0 := rfl
  have he : (Sock.enc C.st0 segs).empties = 0 := rfl
  refine ⟨?_, ?_, ?_, ?_, ?_, ?_⟩
  · show (threadLoop C _ _ _).sock.reads ≤ _; omega
  · show (threadLoop C _ _ _).sock.empties ≤ _; omega
  · show (threadLoop C _ _ _).delivered.length ≤ _; omega
  · intro fuel hf
    exact threadLoop_fuel_free C fuel _ _ _ (by rw [hrem]; exact hf) (by rw [hrem]; omega)
  · exact threadLoop_ending C _ _ _ (by rw [hrem]; omega)
  · exact (threadLoop_kinds C _ ⟨kind, false⟩ _).1

/-! ## (b) error OR documented fallback -/

/-- THE SPLIT.  Run `_handle_exception` with the reactor handler the code has
(`reactorHandle`), for ANY exception class hierarchy, reactor, exception, handler chain, final
handler and outcome `fb` of the fallback `connect()`:

1. the exception is swallowed (nothing recorded, no handler and no final handler called, nothing
   re-raised) IF AND ONLY IF the reactor is `PlayingStatusReactor`, the exception is an instance of
   `EOFError`, and the fallback connection was started (`connect()` returned);
2. `connect()` is called for the fallback exactly under the first two conditions, and then with
   the default version (`fallbackVersion`);
3. in every other case the error is REPORTED: it (or what replaced it) is recorded on the
   connection, the first entry of the trace is the reactor's handler called with the original
   exception, a callable final handler is called last, exactly once, with the last exception in
   play (`C14.final_always_runs`), and with no user handlers and a returning final handler the
   final handler receives precisely the original exception — or, when the fallback `connect()`
   raised `e'`, precisely `e'`. -/
theorem cut_outcome {α : Type} (hier : Hier) (eofCls : Nat) (kind : ReactorKind)
    (fb : Except Exc α) (dflt : Nat) (e : Exc) (hs : List Handler) (fin : Final) :
    ((handleException hier (reactorHandle hier eofCls kind fb e) hs fin e).swallowedByReactor = true ↔
      kind = .playingStatus ∧ isSub hier e.cls eofCls = true ∧ ∃ a, fb = .ok a) ∧
    ((handleException hier (reactorHandle hier eofCls kind fb e) hs fin e).swallowedByReactor = true →
      handleException hier (reactorHandle hier eofCls kind fb e) hs fin e =
        { trace := [.reactor e none], caught := false, loopExc := none, recorded := none,
          reraised := none, swallowedByReactor := true }) ∧
    (fallbackVersion hier eofCls kind dflt e =
      if kind = .playingStatus ∧ isSub hier e.cls eofCls = true then some dflt else none) ∧
    ((handleException hier (reactorHandle hier eofCls kind fb e) hs fin e).swallowedByReactor = false →
      (handleException hier (reactorHandle hier eofCls kind fb e) hs fin e).recorded =
        some (lastExc e (handleException hier (reactorHandle hier eofCls kind fb e) hs fin e).trace) ∧
      (∃ raised, (handleException hier (reactorHandle hier eofCls kind fb e) hs fin e).trace.head? =
        some (.reactor e raised) ∧
        (raised = none ∨ ∃ e', fb = .error e' ∧ raised = some e')) ∧
      (∀ b, fin = .fn b → ∃ pre x,
        (handleException hier (reactorHandle hier eofCls kind fb e) hs fin e).trace =
          pre ++ [CallEv.final x b.raised] ∧ (∀ ev ∈ pre, ev.isFinal = false) ∧
          x = lastExc e pre) ∧
      (hs = [] → fin = .fn .returns →
        (handleException hier (reactorHandle hier eofCls kind fb e) hs fin e).trace =
          [.reactor e (reactorHandle hier eofCls kind fb e).raisedExc,
           .final ((reactorHandle hier eofCls kind fb e).replace e) none] ∧
        ((reactorHandle hier eofCls kind fb e).replace e = e ∨
          ∃ e', fb = .error e' ∧ kind = .playingStatus ∧ isSub hier e.cls eofCls = true ∧
            (reactorHandle hier eofCls kind fb e).replace e = e'))) := by
  have hiff : reactorHandle hier eofCls kind fb e = .retTrue ↔
      kind = .playingStatus ∧ isSub hier e.cls eofCls = true ∧ ∃ a, fb = .ok a := by
    cases kind <;> cases fb <;> by_cases hsub : isSub hier e.cls eofCls = true <;>
      simp [reactorHandle, hsub]
  have hsw : ∀ r, (handleException hier r hs fin e).swallowedByReactor = true ↔ r = .retTrue := by
    intro r
    by_cases hr : r = .retTrue
    · subst hr; simp [handleException_retTrue]
    · rw [handleException_of_ne _ _ _ _ _ hr]; simp [hr]
  refine ⟨(hsw _).trans hiff, ?_, ?_, ?_⟩
  · intro h
    rw [(hsw _).mp h]; rfl
  · cases kind <;> by_cases hsub : isSub hier e.cls eofCls = true <;>
      simp [fallbackVersion, hsub]
  · intro h
    have hr : reactorHandle hier eofCls kind fb e ≠ .retTrue := by
      intro hc; rw [(hsw _).mpr hc] at h; cases h
    refine ⟨(C14.recorded_is_last hier _ hs fin e hr).1, ?_, ?_, ?_⟩
    · rw [handleException_of_ne _ _ _ _ _ hr]
      refine ⟨_, rfl, ?_⟩
      cases kind <;> cases fb <;> by_cases hsub : isSub hier e.cls eofCls = true <;>
        simp [reactorHandle, hsub, RBeh.raisedExc]
    · intro b hb
      subst hb
      obtain ⟨pre, x, h1, h2, h3, -⟩ := C14.final_always_runs hier _ hs b e hr
      exact ⟨pre, x, h1, h2, h3⟩
    · intro hhs hfin
      subst hhs; subst hfin
      rw [handleException_of_ne _ _ _ _ _ hr]
      refine ⟨by simp [tryExceptChain, finCalls, ChainResult.exc, Beh.raised], ?_⟩
      cases kind <;> cases fb <;> by_cases hsub : isSub hier e.cls eofCls = true <;>
        simp [reactorHandle, hsub, RBeh.replace]

/-! ## (c) the session: at most two connections, `≤ N₁ + N₂ + 4` reads -/

/-- For ANY server streams (cut or not, well-formed or not), any dial outcomes, any handlers: a
`connect()` whose reactions reach `handle_proto_version` only from `PlayingStatusReactor` starts at
most TWO networking threads (the fuel of `connectRun` is never the reason to stop: 2 is as good as
any larger amount); every thread after the first is a direct login (`Plan.direct v`: one allowed
version, `LoginReactor`) that does not reconnect; every thread issues at most (bytes of its stream
+ 2) reads, at most two of them after the end of its stream, and hands at most (bytes) packets to
`_react`; in total at most `N₁ + N₂ + 4` reads. -/
theorem connect_bounded {τ κ : Type} (C : Client τ κ) (H : Handling) (env : Neg.VEnv)
    (allowed : List Nat) (dflt : Nat) (srv : Segs) (dial : Nat → Except Exc Segs)
    (hr : ReactOK C.react) (fuel : Nat) (logs : List ThreadLog)
    (h : connectRun C H env allowed dflt srv dial (fuel + 2) = .ok logs) :
    logs.length ≤ 2 ∧
    connectRun C H env allowed dflt srv dial 2 = .ok logs ∧
    (∀ t ∈ logs.tail, ∃ v s, t = soleLog C H (.direct v) s) ∧
    (∀ t ∈ logs, t.reads ≤ t.streamLen + 2 ∧ t.empties ≤ 2 ∧ t.delivered.length ≤ t.streamLen) ∧
    (logs.map (·.reads)).sum ≤ (logs.map (·.streamLen)).sum + 4 := by
  unfold connectRun at h ⊢
  cases hp : Neg.connectPlan env allowed with
  | error e => rw [hp] at h; cases h
  | ok plan =>
    rw [hp] at h
    injection h with h
    subst h
    have hlen := threadsFuel_length C H env dflt dial hr (fuel + 2) 0 plan srv
    have hb := threadsFuel_bounds C H env dflt dial (fuel + 2) 0 plan srv
    refine ⟨hlen, ?_, threadsFuel_tail C H env dflt dial hr (fuel + 2) 0 plan srv, hb, ?_⟩
    · simp only [threadsFuel_fuel_free C H env dflt dial hr fuel 0 plan srv]
    · have := sum_reads_le _ (fun t ht => (hb t ht).1)
      omega

/-- THE FALLBACK, BYTES IN.  `connect()` with several allowed versions (`connectPlan` = a status
query) against a server whose status connection breaks off after ANY `k` bytes of ANY conversation
`ps`, such that the `n` complete packets before the cut stop nothing and leave the reactor in place
(for the real status exchange: `ps = [response]`, `n = 0` — see `status_cut_takes_fallback`), with
`EOFError` an instance of the class the reactor tests for:
* if the second connection is accepted (`dial 0 = .ok s2`): exactly two threads; the first
  delivered the `n` packets, ended by `EOFError`, and its exception was swallowed — nothing
  recorded, no handler called; the second is a direct login with the DEFAULT version on the new
  connection, which (having `LoginReactor`) reports whatever ends it;
* if it is refused with `e'`: one thread, and `e'` (not the `EOFError`) is what the handlers get.
The plans of these connections are exactly those of C09's symbolic `Neg.session … closedBeforeReply`
— the end of stream is no longer an assumption there. -/
theorem cut_takes_fallback {τ κ : Type} (cp : CipherPair τ) (st0 : τ) (install : τ → κ → τ)
    (z : Zlib) (react : React κ) (hr : ReactOK react) (H : Handling) (env : Neg.VEnv)
    (allowed : List Nat) (dflt hq : Nat) (hplan : Neg.connectPlan env allowed = .ok (.query hq))
    (heof : isSub H.hier (H.excOf .eof).cls H.eofCls = true)
    (ps : List (Nat × Bytes)) (hok : WireOK z.toZlibOps react .playingStatus none ps)
    (k n : Nat) (hn : n ≤ ps.length)
    (h1 : (srvWire cp.enc install z.toZlibOps react ⟨.playingStatus, none, st0⟩
      (ps.take n)).length ≤ k)
    (h2 : n < ps.length → k < (srvWire cp.enc install z.toZlibOps react ⟨.playingStatus, none, st0⟩
      (ps.take (n + 1))).length)
    (hquiet : Quiet react .playingStatus (ps.take n))
    (hkind : (refRun react ⟨.playingStatus, false⟩ (ps.take n)).2.2.kind = .playingStatus)
    (srv : Segs)
    (hsrv : srv.flatten =
      (srvWire cp.enc install z.toZlibOps react ⟨.playingStatus, none, st0⟩ ps).take k)
    (dial : Nat → Except Exc Segs) (fuel : Nat) (p : Neg.ConnParams) :
    (runThread ⟨cp.dec, st0, install, z.toZlibOps, react⟩ .playingStatus srv).delivered =
      ps.take n ∧
    (runThread ⟨cp.dec, st0, install, z.toZlibOps, react⟩ .playingStatus srv).ending =
      .raised .eof ∧
    (∀ s2, dial 0 = .ok s2 →
      connectRun ⟨cp.dec, st0, install, z.toZlibOps, react⟩ H env allowed dflt srv dial (fuel + 2) =
        .ok [mkLog (.query hq) srv
              (runThread ⟨cp.dec, st0, install, z.toZlibOps, react⟩ .playingStatus srv)
              (some { trace := [.reactor (H.excOf .eof) none], caught := false, loopExc := none,
                      recorded := none, reraised := none, swallowedByReactor := true }),
             soleLog ⟨cp.dec, st0, install, z.toZlibOps, react⟩ H (.direct dflt) s2]) ∧
    (∀ e', dial 0 = .error e' →
      connectRun ⟨cp.dec, st0, install, z.toZlibOps, react⟩ H env allowed dflt srv dial (fuel + 2) =
        .ok [mkLog (.query hq) srv
              (runThread ⟨cp.dec, st0, install, z.toZlibOps, react⟩ .playingStatus srv)
              (some (handleException H.hier (.raises e') H.hs H.fin (H.excOf .eof)))]) ∧
    Neg.session env p allowed dflt .closedBeforeReply =
      .ok ⟨[Neg.firstFrames p (.query hq), Neg.firstFrames p (.direct dflt)], .connect dflt⟩ := by
  have hv := threadLoop_cut cp st0 install z react ps ⟨.playingStatus, false⟩
    ⟨.playingStatus, none, st0⟩ (Sock.enc st0 srv) k (srv.flatten.length + 1) n rfl rfl rfl hok
    hsrv (Nat.lt_succ_self _) hn h1 h2
  obtain ⟨q1, q2, -⟩ := refRun_quiet react (ps.take n) ⟨.playingStatus, false⟩ hquiet
  have hv' : (runThread ⟨cp.dec, st0, install, z.toZlibOps, react⟩ .playingStatus srv).view =
      refRun react ⟨.playingStatus, false⟩ (ps.take n) := hv
  have hd : (runThread ⟨cp.dec, st0, install, z.toZlibOps, react⟩ .playingStatus srv).delivered =
      ps.take n := by rw [← q1]; exact congrArg Prod.fst hv'
  have he : (runThread ⟨cp.dec, st0, install, z.toZlibOps, react⟩ .playingStatus srv).ending =
      .raised .eof := by rw [← q2]; exact congrArg (fun x => x.2.1) hv'
  have hk : (runThread ⟨cp.dec, st0, install, z.toZlibOps, react⟩ .playingStatus srv).mode.kind =
      .playingStatus := (congrArg (fun x => x.2.2.kind) hv').trans hkind
  refine ⟨hd, he, ?_, ?_, ?_⟩
  · intro s2 hd0
    unfold connectRun
    rw [hplan]
    simp only []
    rw [threadsFuel_fallback _ H env dflt dial (fuel + 1) 0 (.query hq) srv s2 .eof he hk heof hd0,
      threadsFuel_login _ H env dflt dial hr fuel 1 (.direct dflt) s2 rfl]
    rfl
  · intro e' hd0
    unfold connectRun
    rw [hplan]
    simp only []
    rw [threadsFuel_fallback_refused _ H env dflt dial (fuel + 1) 0 (.query hq) srv .eof e' he hk
      heof hd0]
    rfl
  · simp [Neg.session, hplan, Neg.evalStatus, Neg.handleFailure, Neg.handleProtoVersion,
      connectPlan_single]

/-- … for the real status exchange: the server's whole answer on the status connection is ONE
packet `resp` (any id, any content — the response), and the stream ends after any `k` bytes short
of it. -/
theorem status_cut_takes_fallback {τ κ : Type} (cp : CipherPair τ) (st0 : τ)
    (install : τ → κ → τ) (z : Zlib) (react : React κ) (hr : ReactOK react) (H : Handling)
    (env : Neg.VEnv) (allowed : List Nat) (dflt hq : Nat)
    (hplan : Neg.connectPlan env allowed = .ok (.query hq))
    (heof : isSub H.hier (H.excOf .eof).cls H.eofCls = true)
    (resp : Nat × Bytes) (hok : FrameOK z.toZlibOps none resp) (k : Nat)
    (hk : k < (packetFrame z.toZlibOps none resp).length) (srv : Segs)
    (hsrv : srv.flatten = (cp.enc.update st0 (packetFrame z.toZlibOps none resp)).2.take k)
    (dial : Nat → Except Exc Segs) (fuel : Nat) :
    (∀ s2, dial 0 = .ok s2 →
      ∃ t1, connectRun ⟨cp.dec, st0, install, z.toZlibOps, react⟩ H env allowed dflt srv dial
          (fuel + 2) =
        .ok [t1, soleLog ⟨cp.dec, st0, install, z.toZlibOps, react⟩ H (.direct dflt) s2] ∧
        t1.delivered = [] ∧ t1.ending = .raised .eof ∧
        (∃ o, t1.outcome = some o ∧ o.swallowedByReactor = true ∧ o.recorded = none ∧
          o.reraised = none)) ∧
    (∀ e', dial 0 = .error e' →
      ∃ t1, connectRun ⟨cp.dec, st0, install, z.toZlibOps, react⟩ H env allowed dflt srv dial
          (fuel + 2) = .ok [t1] ∧
        t1.delivered = [] ∧ t1.ending = .raised .eof ∧
        t1.outcome = some (handleException H.hier (.raises e') H.hs H.fin (H.excOf .eof)) ∧
        (∃ o, t1.outcome = some o ∧ o.swallowedByReactor = false ∧ o.recorded ≠ none)) := by
  have hwire : srvWire cp.enc install z.toZlibOps react ⟨.playingStatus, none, st0⟩ [resp] =
      (cp.enc.update st0 (packetFrame z.toZlibOps none resp)).2 := by
    simp only [srvWire_cons, srvWire_nil, List.append_nil]
  obtain ⟨g1, g2, g3, g4, -⟩ := cut_takes_fallback cp st0 install z react hr H env allowed dflt hq
    hplan heof [resp] ⟨hok, trivial⟩ k 0 (by simp) (by simp [srvWire_nil])
    (fun _ => by
      show k < (srvWire _ _ _ _ _ [resp]).length
      rw [hwire, cp.enc.len]; exact hk)
    trivial rfl srv (by rw [hwire]; exact hsrv) dial fuel ⟨"", 0, none, none⟩
  constructor
  · intro s2 hd0
    refine ⟨_, g3 s2 hd0, ?_, g2, ?_⟩
    · simpa [mkLog] using g1
    · exact ⟨_, rfl, rfl, rfl, rfl⟩
  · intro e' hd0
    refine ⟨_, g4 e' hd0, ?_, g2, rfl, ?_⟩
    · simpa [mkLog] using g1
    · refine ⟨_, rfl, ?_, ?_⟩
      · rw [handleException_of_ne _ _ _ _ _ (by simp)]
      · rw [handleException_of_ne _ _ _ _ _ (by simp)]; simp

/-- NO FALLBACK ANYWHERE ELSE.  `connect()` with a single allowed version (`connectPlan` = a
direct login) against ANY server stream: exactly one thread, whatever the dial outcomes; if it ends
by an exception `e` (for a conversation that breaks off: `EOFError`, by
`cut_delivers_complete_only_nested`), `_handle_exception` runs with the reactor answering `False`:
the exception is recorded on the connection, never swallowed. -/
theorem login_cut_reports {τ κ : Type} (C : Client τ κ) (hr : ReactOK C.react) (H : Handling)
    (env : Neg.VEnv) (allowed : List Nat) (dflt v : Nat)
    (hplan : Neg.connectPlan env allowed = .ok (.direct v)) (srv : Segs)
    (dial : Nat → Except Exc Segs) (fuel : Nat) :
    connectRun C H env allowed dflt srv dial (fuel + 1) = .ok [soleLog C H (.direct v) srv] ∧
    (∀ e, (runThread C .login srv).ending = .raised e →
      (soleLog C H (.direct v) srv).outcome =
        some (handleException H.hier .retFalse H.hs H.fin (H.excOf e)) ∧
      (handleException H.hier .retFalse H.hs H.fin (H.excOf e)).swallowedByReactor = false ∧
      (handleException H.hier .retFalse H.hs H.fin (H.excOf e)).recorded ≠ none) := by
  constructor
  · unfold connectRun
    rw [hplan]
    simp only []
    rw [threadsFuel_login C H env dflt dial hr fuel 0 (.direct v) srv rfl]
  · intro e he
    refine ⟨?_, ?_, ?_⟩
    · simp only [soleLog, mkLog, kindOfPlan, he]
    · rw [handleException_of_ne _ _ _ _ _ (by simp)]
    · rw [handleException_of_ne _ _ _ _ _ (by simp)]; simp

/-! ## the model against the LIVE code (tables regenerated from /repo on every run) -/

/-- The model's reactor handler IS the code's: for every reactor class (`StatusReactor`,
`PlayingStatusReactor`, `LoginReactor`, `PlayingReactor`) × every probed exception class × both
outcomes of the fallback `connect()`, the real `Connection._handle_exception` (no user handlers,
recording final handler) did what `handleException ∘ reactorHandle` predicts on the live class
hierarchy: same "swallowed", same version handed to `connect()` (the default version, or no call),
same exception class given to the final handler, same class recorded on the connection.  The table
is not empty or partial: it has the rows of all four reactors for `EOFError`, both outcomes. -/
theorem live_reactor_handlers :
    (∀ row ∈ Gen.c15Handle, rowOK (fun h c k fb e => reactorHandle h c k fb e) row = true) ∧
    (∀ kind ∈ [0, 1, 2, 3], ∀ fails ∈ [0, 1],
      ∃ row ∈ Gen.c15Handle, row.1 = kind ∧ row.2.1 = Gen.c15Eof ∧ row.2.2.1 = fails) ∧
    80 ≤ Gen.c15Handle.length := by
  decide +kernel

/-- The exception classes are what the model assumes: the generated edge list reproduces Python's
own `issubclass(·, EOFError)` on every class involved; the real `read_packet` raises an instance of
`EOFError` on an exhausted stream and on a frame cut inside its body, and on the three other
framing failures (VarInt too long, bad zlib data, wrong decompressed size) an `Exception` that is
NOT an `EOFError` — so of all the ways `read_packet` can fail only the end of the stream can take
the fallback. -/
theorem live_exception_classes :
    (∀ row ∈ Gen.c15SubEof, isSub Gen.c15Hier row.1 Gen.c15Eof = (row.2 == 1)) ∧
    Gen.c15SubEof.map (·.1) = Gen.c15Classes.map (·.1) ∧
    isSub Gen.c15Hier (readerCls 0) Gen.c15Eof = true ∧
    isSub Gen.c15Hier (readerCls 4) Gen.c15Eof = true ∧
    (∀ code ∈ [1, 2, 3], readerCls code ≠ 0 ∧
      isSub Gen.c15Hier (readerCls code) Gen.c15Eof = false ∧
      isSub Gen.c15Hier (readerCls code) Gen.c15Exception = true) ∧
    isSub Gen.c15Hier Gen.c15Refused Gen.c15Eof = false := by
  decide +kernel

/-- `kindOfPlan` is what the code installs: `status()` → `StatusReactor`; `connect()` with one
allowed version → `LoginReactor`, with two → `PlayingStatusReactor`. -/
theorem live_installed_reactor :
    Gen.c15Install.map (fun r => (r.1, kindOfCode r.2)) =
      [(0, some .status), (1, some (kindOfPlan (.direct 0))), (2, some (kindOfPlan (.query 0)))] := by
  decide +kernel

/-! ## negative witnesses: the seeded changes are refuted -/

/-- Moving the EOF fallback into `StatusReactor` or into `LoginReactor`, or testing
`isinstance(exc, Exception)`: each changed handler (a) violates the characterisation of
`cut_outcome` on a concrete instance — it swallows an exception that `cut_outcome` says must be
reported — and (b) disagrees with the live table. -/
theorem moved_fallback_refuted :
    -- (a) against `cut_outcome` (1): swallowed although the reactor is not PlayingStatusReactor /
    --     the exception is not an EOFError
    ((handleException demoHier (reactorHandleMovedToStatus demoHier 2 .status (.ok ()) ⟨2, 0⟩)
        [] (.fn .returns) ⟨2, 0⟩).swallowedByReactor = true ∧
      (handleException demoHier (reactorHandle demoHier 2 .status (.ok ()) ⟨2, 0⟩)
        [] (.fn .returns) ⟨2, 0⟩).swallowedByReactor = false) ∧
    ((handleException demoHier (reactorHandleMovedToLogin demoHier 2 .login (.ok ()) ⟨2, 0⟩)
        [] (.fn .returns) ⟨2, 0⟩).swallowedByReactor = true ∧
      (handleException demoHier (reactorHandleMovedToLogin demoHier 2 .playingStatus (.ok ()) ⟨2, 0⟩)
        [] (.fn .returns) ⟨2, 0⟩).swallowedByReactor = false) ∧
    ((handleException demoHier (reactorHandleAnyException demoHier 1 .playingStatus (.ok ()) ⟨3, 0⟩)
        [] (.fn .returns) ⟨3, 0⟩).swallowedByReactor = true ∧
      isSub demoHier 3 2 = false) ∧
    -- (b) against the live code
    (∃ row ∈ Gen.c15Handle,
      rowOK (fun h c k fb e => reactorHandleMovedToStatus h c k fb e) row = false) ∧
    (∃ row ∈ Gen.c15Handle,
      rowOK (fun h c k fb e => reactorHandleMovedToLogin h c k fb e) row = false) ∧
    (∃ row ∈ Gen.c15Handle,
      rowOK (fun h _ k fb e => reactorHandleAnyException h Gen.c15Exception k fb e) row = false) := by
  decide +kernel

/-- A reader that enables decompression one frame late, or whose `encrypt` reaction leaves the
file object used by `read_packet` unwrapped, is refuted by `cut_delivers_complete_only_nested`
already on the UNCUT demo conversation: the first hands a wrong packet to the listeners (id 4
instead of 5), the second stops delivering behind the encryption request — while the real loop
delivers the conversation exactly. -/
theorem late_switch_refuted :
    (runThread demoClient .login [demoWire .login demoLogin]).view =
      refRun demoReact ⟨.login, false⟩ demoLogin ∧
    (threadLoopLateComp demoClient 33 false ⟨.login, false⟩
        (Sock.enc [] [demoWire .login demoLogin])).view ≠
      refRun demoReact ⟨.login, false⟩ demoLogin ∧
    (threadLoopLateComp demoClient 33 false ⟨.login, false⟩
        (Sock.enc [] [demoWire .login demoLogin])).delivered.take 3 =
      [(4, [9]), (3, [2]), (4, [5, 0x61, 0x62, 0x63])] ∧
    (threadLoopNoDecrypt demoClient 33 ⟨.login, false⟩
        (Sock.enc [] [demoWire .login demoLogin])).view ≠
      refRun demoReact ⟨.login, false⟩ demoLogin ∧
    (threadLoopNoDecrypt demoClient 33 ⟨.login, false⟩
        (Sock.enc [] [demoWire .login demoLogin])).delivered = demoLogin.take 5 := by
  decide +kernel

/-! ## non-vacuity -/

-- the hypotheses of the cut theorems hold for the demo conversation (compression switched on at
-- packet 2, cipher at packet 5, reactor at packet 7), cut inside the encrypted part, in three
-- segments; the conclusion with its concrete numbers: 5 complete frames in 22 bytes
example := cut_delivers_complete_only_nested (cfb8Pair toyE) (fun key : Bytes => key) Zlib.ident
  demoReact .login demoLogin (by decide +kernel) 22
  [(demoWire .login demoLogin).take 7, [], ((demoWire .login demoLogin).take 22).drop 7]
  (by decide +kernel)
example : Quiet demoReact .login demoLogin := by decide +kernel
example : (demoWire .login (demoLogin.take 5)).length ≤ 22 ∧
    22 < (demoWire .login (demoLogin.take 6)).length ∧
    (runThread demoClient .login
      [(demoWire .login demoLogin).take 7, [], ((demoWire .login demoLogin).take 22).drop 7]).view =
      (demoLogin.take 5, .raised .eof, ⟨.login, true⟩) := by decide +kernel
-- a stopping reaction inside the complete part: the login disconnect is delivered, then
-- `LoginDisconnect`, not `EOFError`; nothing behind it is read
example : (runThread demoClient .login [demoWire .login [(4, []), (0, [0x22]), (5, [])]]).view =
    ([(4, []), (0, [0x22])], .raised .other, ⟨.login, false⟩) := by decide +kernel
-- two encryption requests: two nested decryptors, still exact
example : (runThread demoClient .login
      [demoWire .login [(1, []), (5, [1]), (1, []), (5, [2]), (2, [])]]).view =
    ([(1, []), (5, [1]), (1, []), (5, [2]), (2, [])], .raised .eof, ⟨.playing, false⟩) := by
  decide +kernel
-- the stream ends at a frame boundary of the status connection (here: before any byte): the thread
-- raises `EOFError` — and so does `HsWire.clientRecvStatus`: `([], .eof)`
example : (runThread demoClient .playingStatus []).view = ([], .raised .eof, ⟨.playingStatus, false⟩)
    ∧ HsWire.clientRecvStatus [] = ([], .eof) := by decide +kernel
-- `status_cut_eof`, `status_cut_takes_fallback`: hypotheses satisfiable
example := status_cut_eof (cfb8Pair toyE) (fun key : Bytes => key) Zlib.ident demoReact "{}"
  (by decide +kernel) 3 (by decide +kernel) [[0x04], [0x00, 0x02]] (by decide +kernel)
example := status_cut_takes_fallback (stackPair (cfb8Pair toyE)) [] (stackInstall fun key => key)
  Zlib.ident demoReact demoReact_ok demoHandling demoEnv [47, 340] 47 340 (by decide +kernel)
  (by decide +kernel) (0, [0x7b, 0x7d]) (by decide +kernel) 2 (by decide +kernel)
  [(demoWire .playingStatus [(0, [0x7b, 0x7d])]).take 2] (by decide +kernel)
  (fun _ => .ok [(demoWire .login demoLogin).take 10]) 0
-- … and the whole session computed: status query cut after 2 bytes → EOFError swallowed, fallback
-- login with the default version 47 on the second connection, which is cut after 10 bytes → two
-- packets delivered, EOFError reported (recorded, class 2 = EOFError, final handler called)
example : ∃ l, connectRun demoClient demoHandling demoEnv [47, 340] 47
      [(demoWire .playingStatus [(0, [0x7b, 0x7d])]).take 2]
      (fun _ => .ok [(demoWire .login demoLogin).take 10]) 2 = .ok l ∧
    l.map (fun t => (t.plan, t.delivered, t.ending)) =
      [(.query 340, [], .raised .eof), (.direct 47, [(4, [9]), (3, [2])], .raised .eof)] ∧
    l.map (fun t => (t.reads, t.empties)) = [(3, 1), (7, 1)] ∧
    l.map (fun t => (t.outcome.map (·.swallowedByReactor), t.outcome.map (·.recorded),
      t.outcome.map finalArgCls)) =
      [(some true, some none, some 0), (some false, some (some ⟨2, 0⟩), some 2)] :=
  ⟨_, rfl, by decide +kernel, by decide +kernel, by decide +kernel⟩
-- the fallback connection refused: one thread, ConnectionRefusedError (class 5) reported
example : ∃ l, connectRun demoClient demoHandling demoEnv [47, 340] 47
      [(demoWire .playingStatus [(0, [0x7b, 0x7d])]).take 2] (fun _ => .error ⟨5, 9⟩) 2 = .ok l ∧
    l.map (fun t => (t.plan, t.ending)) = [(.query 340, .raised .eof)] ∧
    l.map (fun t => (t.outcome.map (·.swallowedByReactor), t.outcome.map (·.recorded),
      t.outcome.map finalArgCls)) = [(some false, some (some ⟨5, 9⟩), some 5)] :=
  ⟨_, rfl, by decide +kernel, by decide +kernel⟩
-- the uncut status answer: negotiated, second thread a direct login with the server's version
example : ∃ l, connectRun demoClient demoHandling demoEnv [47, 340] 340
      [demoWire .playingStatus [(0, [0x7b, 0x7d])]] (fun _ => .ok []) 2 = .ok l ∧
    l.map (fun t => (t.plan, t.delivered, t.ending)) =
      [(.query 340, [(0, [0x7b, 0x7d])], .negotiated 47), (.direct 47, [], .raised .eof)] ∧
    l.map (fun t => t.outcome.map (·.recorded)) = [none, some (some ⟨2, 0⟩)] :=
  ⟨_, rfl, by decide +kernel, by decide +kernel⟩
example := connect_bounded demoClient demoHandling demoEnv [47, 340] 47
  [(demoWire .playingStatus [(0, [0x7b, 0x7d])]).take 2]
  (fun _ => .ok [(demoWire .login demoLogin).take 10]) demoReact_ok 0 _ rfl
example := login_cut_reports demoClient demoReact_ok demoHandling demoEnv [47] 340 47
  (by decide +kernel) [(demoWire .login demoLogin).take 10] (fun _ => .error ⟨5, 0⟩) 0

end PyCraft.C15Thread
