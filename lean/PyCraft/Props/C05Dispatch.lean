import PyCraft.Lemmas.C05DispatchReg
import PyCraft.Lemmas.C05DispatchBytes
import PyCraft.Props.C01
import PyCraft.Props.C02
import PyCraft.Props.C06
/-!
# C05 — id ↔ class ↔ codec, composed over the live tables (audit gap 14)

Property C05 ends with "… yields a packet of the same class with equal field values, consumes the
payload exactly, and carries the id registered for that version".  `Props/C05*.lean` prove the
round trip of a field list / of each hand-written codec for ANY flags and ANY id; nothing said WHICH id,
layout and flags a registered class has under a given version, nor that the reader — which only sees
the id — picks that class.  This file closes that:

* `Dsp.regTable` (`Model/C05Dispatch.lean`): for each of the 8 state/direction tables and every known
  protocol version, the registered classes with `get_id(context)` (from `Gen.idTables`) and the codec:
  the live `get_definition(context)`, the context-dependent custom types resolved with the formats
  PROBED from the live `send/read_with_context` under that version, or one of the six hand-written
  models with the flags `mapFlagsOf v`, … (the same `protocol_later_eq(n)` tests as the Python);
* `dispatch_table_correct`: the dict of `PacketReactor.__init__`, built in ANY iteration order, maps
  each registered id (outside the known collisions K1) to exactly the class whose id it is;
* `every_registered_class_rt`: every registered class of every supported version has an id ≥ 0 and a
  codec, the codec round-trips, and (NBT classes excepted) has wire-representable values;
* `registered_stream_roundtrip`: any sequence of instances of registered classes, written by
  `Packet.write` (id of THAT version, fields by THAT version's codec) through any threshold / zlib, cut
  arbitrarily, is read back by `read_packet` with the reactor's dict as the same classes with the same
  field values, every payload consumed exactly;
* `hand_flags_live` / `custom_formats_live`: for every known version, the comparisons the live
  `write_fields` AND `read` of each hand-written class perform (recorded by a logging context) are
  exactly those the model's flags are built from, with the model's results; the live writer and reader
  of `Position` / `Record` / `Pitch` use the same format, the one given by the thresholds 443 / 741 /
  201 / 204;
* `hand_bytes_live`: under every known version the bytes the live `write_fields` of each hand-written
  class produces for a sample packet, and those it produces for what the live `read` made of them, are
  the bytes of the model's codec for that class and version;
* `effpos_*`, `pitch_byte_*`: the value-level scaling of `SoundEffectPacket.EffectPosition` / `Pitch`.

Generated data: `Generated/C05Dispatch.lean` (by `harness/gen/c05dispatch.py`, from the live code).

Only property theorems and examples here; helpers are in `Lemmas/C05Dispatch*.lean`.
-/
namespace PyCraft.C05Dispatch
open PyCraft PyCraft.Dsp PyCraft.Pk PyCraft.Gen

/-! ## the registry is the id table, extended -/

/-- Forgetting the codecs, `regTable` IS `Gen.idTables` (so `C06`'s theorems speak about its rows), and
each table has one row per known protocol version, in publication order. -/
theorem registry_extends_id_tables :
    regTable.map (fun t => (t.1, t.2.map RegRow.idRow)) = idTables ∧
    ∀ t ∈ regTable, t.2.map (·.v) = liveTables.knownProtocols := by
  refine ⟨aligned, fun t ht => ?_⟩
  have h := List.all_eq_true.mp cols_known _ (mem_idTables_of_mem ht)
  simpa [Function.comp_def, RegRow.idRow] using h

/-- The lookup functions the driver uses (`regRow t v`, `regEnt t v c`: first table named `t`, first
row of version `v`, first class named `c`) return members of `regTable`: every theorem below applies
to what they return. -/
theorem lookups_are_members (t : String) (v : Nat) (c : String) (r : RegRow) (e : RegEnt)
    (hr : regRow t v = some r) (he : regEnt t v c = some e) :
    (∃ tt ∈ regTable, tt.1 = t ∧ r ∈ tt.2 ∧ r.v = v) ∧ e ∈ r.ents ∧ e.cls = c := by
  obtain ⟨r', hr', hm, hc⟩ := regEnt_mem he
  rw [hr] at hr'
  cases hr'
  exact ⟨regRow_mem hr, hm, hc⟩

/-! ## any codec -/

/-- Every codec — a field list with the library's custom types, or one of the six hand-written pairs
under any flags — on every wire-representable value: `write_fields` succeeds; `read` of the written
bytes returns the value (up to `norm`: attributes that are not on the wire) and leaves nothing unread;
if the body is self-delimiting, with anything appended `read` leaves exactly the appended bytes. -/
theorem codec_roundtrip (k : Codec) (p : PVal) (h : k.WF p) :
    ∃ bs, k.write p = .ok bs ∧ k.read bs = .ok (k.norm p, []) ∧
      (k.selfDelimiting p = true → ∀ rest, k.read (bs ++ rest) = .ok (k.norm p, rest)) :=
  codec_rt k p h

/-! ## every registered class, every supported version -/

/-- For every state/direction table, every SUPPORTED protocol version and every class registered for
it: the class has an integer id ≥ 0 and a codec in the registry; that codec round-trips on all its
wire-representable values (see `codec_roundtrip`); and unless it has an NBT field (outside the model)
the sample packet is wire-representable — the statement is not vacuous for that class and version. -/
theorem every_registered_class_rt :
    ∀ t ∈ regTable, ∀ r ∈ t.2, r.supported = true → ∀ e ∈ r.ents,
      ∃ i k, e.id = some i ∧ 0 ≤ i ∧ e.codec = some k ∧
        (∀ p, k.WF p → ∃ bs, k.write p = .ok bs ∧ k.read bs = .ok (k.norm p, []) ∧
          (k.selfDelimiting p = true → ∀ rest, k.read (bs ++ rest) = .ok (k.norm p, rest))) ∧
        (k.hasNbt = false → k.WF (sampleOf k)) := by
  intro t ht r hr hs e he
  obtain ⟨k, hk, hadm⟩ := supported_entry_codec ht hr hs he
  have hid := C06.ids_total_supported _ (mem_idTables_of_mem ht) r.idRow
    (List.mem_map.mpr ⟨r, hr, rfl⟩) hs (e.cls, e.id) (List.mem_map.mpr ⟨e, he, rfl⟩)
  obtain ⟨i, hi, h0⟩ := hid
  refine ⟨i, k, hi, h0, hk, fun p hp => codec_rt k p hp, fun hn => sample_WF k hadm hn ?_⟩
  intro hc
  rw [hc] at hk
  have := registered_combat_live ht hr he hk
  cases this

/-- `CombatEventPacket` is registered only under versions where it is not deprecated: no registered
class has the codec whose both directions raise `NotImplementedError`. -/
theorem registered_combat_not_deprecated :
    ∀ t ∈ regTable, ∀ r ∈ t.2, ∀ e ∈ r.ents, e.codec ≠ some (.combat ⟨true⟩) := by
  intro t ht r hr e he hc
  have := registered_combat_live ht hr he hc
  cases this

/-! ## the reactor finds the class by its id -/

/-- `PacketReactor.__init__` on a supported version.  For ANY iteration order `order` of the set
returned by `get_packets(context)`: building the dict succeeds; every registered class whose id is not
one of the known collisions (K1, `C06.knownCollisions`) is found under its id — the entry itself, hence
its name AND its codec; and whatever the dict returns under an id is a registered class with that id. -/
theorem dispatch_table_correct :
    ∀ t ∈ regTable, ∀ r ∈ t.2, r.supported = true →
      ∀ order : List RegEnt, order.Perm r.ents →
        ∃ d, reactorDict order = .ok d ∧
          (∀ e ∈ r.ents, ∀ i, e.id = some i → some i ∉ C06.knownFor t.1 r.v →
            dictGetG d i = some e) ∧
          (∀ i e, dictGetG d i = some e → e ∈ r.ents ∧ e.id = some i) := by
  intro t ht r hr hs order hperm
  have ht' := mem_idTables_of_mem ht
  have hr' : r.idRow ∈ t.2.map RegRow.idRow := List.mem_map.mpr ⟨r, hr, rfl⟩
  have htot : ∀ e ∈ order, ∃ i, e.id = some i := fun e he => by
    obtain ⟨i, hi, _⟩ := C06.ids_total_supported _ ht' r.idRow hr' hs (e.cls, e.id)
      (List.mem_map.mpr ⟨e, hperm.mem_iff.mp he, rfl⟩)
    exact ⟨i, hi⟩
  obtain ⟨ks, hk1, hk2, hk3⟩ := keyed_ok order htot
  have hmem : ∀ p ∈ ks, p.2 ∈ r.ents := fun p hp =>
    hperm.mem_iff.mp (hk2 ▸ List.mem_map.mpr ⟨p, hp, rfl⟩)
  refine ⟨buildDictG ks, by simp [reactorDict, hk1, Except.map], fun e he i hi hnk => ?_,
    fun i e hd => ?_⟩
  · have hnd : some i ∉ dupIds (r.ents.map fun e => (e.cls, e.id)) := fun hdup =>
      hnk (C06.ids_injective_except_known _ ht' r.idRow hr' hs (some i) hdup)
    have he' : e ∈ ks.map (·.2) := hk2 ▸ hperm.mem_iff.mpr he
    obtain ⟨p, hp, rfl⟩ := List.mem_map.mp he'
    have hpi : p.1 = i := by
      have := hk3 p hp; rw [hi] at this; exact (Option.some.inj this).symm
    refine dict_unique ks i p.2 (by rw [← hpi]; exact hp) (fun q hq hqi => ?_)
    exact entry_unique r.ents i hnd q.2 (hmem q hq) p.2 (hmem p hp)
      (by rw [hk3 q hq, hqi]) hi
  · have hm := dict_sound ks i e hd
    exact ⟨hmem _ hm, hk3 _ hm⟩

/-! ## the composed round trip -/

/-- A conversation of registered packets.  On a supported version of any table, for any iteration
order of the reactor's dict, any zlib and any threshold: take ANY list of instances of classes
registered for that version (ids outside the known collisions), each passing the guard `RegOK`
(values wire-representable for the class's codec under that version, frame lengths below 2^42).
`Packet.write` of all of them succeeds — each frame starts with the id `get_id(context)` of THAT
version; and for ANY segmentation of the byte stream, `read_packet` in a loop delivers, in order, for
each packet an instance of the SAME class (found through the dict by the id on the wire), whose `read`
returned the same field values (up to `norm`) and consumed its payload exactly; then end-of-stream. -/
theorem registered_stream_roundtrip (z : Zlib) (thr : Option Int) :
    ∀ t ∈ regTable, ∀ r ∈ t.2, r.supported = true →
      ∀ order : List RegEnt, order.Perm r.ents →
      ∀ ps : List RPacket,
        (∀ p ∈ ps, p.ent ∈ r.ents ∧ p.ent.id ∉ C06.knownFor t.1 r.v ∧ RegOK z.toZlibOps thr p) →
        ∃ d stream, reactorDict order = .ok d ∧ writeRegAll z.toZlibOps thr ps = .ok stream ∧
          ∀ segs : Segs, segs.flatten = stream →
            readReg z.toZlibOps thr.isSome d segs = (ps.map RPacket.expected, .eof) := by
  intro t ht r hr hs order hperm ps hps
  obtain ⟨d, hd, hfind, _⟩ := dispatch_table_correct t ht r hr hs order hperm
  have hok : ∀ p ∈ ps, RegOK z.toZlibOps thr p := fun p hp => (hps p hp).2.2
  refine ⟨d, _, hd, writeRegAll_of_ok z.toZlibOps thr ps hok, fun segs hseg => ?_⟩
  have hr' := C01.roundtrip_stream z thr (ps.map rawOfReg) (fun q hq => by
    obtain ⟨p, hp, rfl⟩ := List.mem_map.mp hq
    obtain ⟨_, _, _, _, _, _, _, _, hfr, _⟩ := regOK_facts z.toZlibOps thr p (hok p hp)
    exact hfr) segs hseg
  simp only [readReg, hr', List.map_map]
  congr 1
  refine List.map_congr_left fun p hp => ?_
  exact deliver_of_ok z.toZlibOps thr d p (hok p hp) (fun i hi =>
    hfind p.ent (hps p hp).1 i hi (by rw [← hi]; exact (hps p hp).2.1))

/-- The same through any cipher pair: the frames are cut into `send` calls in any way and encrypted
from context `s0`; the cipher text arrives in any segmentation and is decrypted from `s0`. -/
theorem registered_stream_roundtrip_encrypted {σ : Type} (cp : CipherPair σ) (s0 : σ) (z : Zlib)
    (thr : Option Int) :
    ∀ t ∈ regTable, ∀ r ∈ t.2, r.supported = true →
      ∀ order : List RegEnt, order.Perm r.ents →
      ∀ ps : List RPacket,
        (∀ p ∈ ps, p.ent ∈ r.ents ∧ p.ent.id ∉ C06.knownFor t.1 r.v ∧ RegOK z.toZlibOps thr p) →
        ∃ d stream, reactorDict order = .ok d ∧ writeRegAll z.toZlibOps thr ps = .ok stream ∧
          ∀ (sends : List Bytes) (segs : Segs), sends.flatten = stream →
            segs.flatten = (encSends cp.enc s0 sends).2.flatten →
            readRegEnc cp.dec s0 z.toZlibOps thr.isSome d segs = (ps.map RPacket.expected, .eof) := by
  intro t ht r hr hs order hperm ps hps
  obtain ⟨d, hd, hfind, _⟩ := dispatch_table_correct t ht r hr hs order hperm
  have hok : ∀ p ∈ ps, RegOK z.toZlibOps thr p := fun p hp => (hps p hp).2.2
  refine ⟨d, _, hd, writeRegAll_of_ok z.toZlibOps thr ps hok, fun sends segs hsends hseg => ?_⟩
  have hr' := C01.roundtrip_encrypted cp s0 z thr (ps.map rawOfReg) (fun q hq => by
    obtain ⟨p, hp, rfl⟩ := List.mem_map.mp hq
    obtain ⟨_, _, _, _, _, _, _, _, hfr, _⟩ := regOK_facts z.toZlibOps thr p (hok p hp)
    exact hfr) sends hsends segs hseg
  simp only [readRegEnc, hr', List.map_map]
  congr 1
  refine List.map_congr_left fun p hp => ?_
  exact deliver_of_ok z.toZlibOps thr d p (hok p hp) (fun i hi =>
    hfind p.ent (hps p hp).1 i hi (by rw [← hi]; exact (hps p hp).2.1))

/-- What `RPacket.expected` is under the guard: an instance of the packet's own class entry, read
without error, the (normalised) field values, nothing of the payload left. -/
theorem expected_of_ok (z : ZlibOps) (thr : Option Int) (p : RPacket) (h : RegOK z thr p) :
    ∃ k, p.ent.codec = some k ∧ p.expected = .known p.ent (.ok (k.norm p.val, [])) := by
  obtain ⟨_, k, _, _, hk, _⟩ := regOK_facts z thr p h
  exact ⟨k, hk, by simp [RPacket.expected, hk]⟩

/-! ## version ↦ flags, against the live code -/

/-- The hand-written classes.  `SpyAgrees tab flagsOf log` says: `tab` (generated by running the LIVE
method on a sample packet exercising every branch, under a context that records every
`protocol_…` comparison with its arguments and result) has one row per known protocol version, in
order, and the set of comparisons recorded under version `v` is exactly `log f` where `flagsOf v =
some f` are the flags the MODEL uses for `v`.  This holds for `write_fields` AND for `read` of
`MapPacket`, `SpawnObjectPacket`, `FacePlayerPacket`, `CombatEventPacket`; so both directions branch
on the same comparisons as the model, with the thresholds 107, 452, PRE|6, 373, 364 / 49, 458, 100 /
353 / PRE|15 and the model's truth values, under every known version. -/
theorem hand_flags_live :
    (SpyAgrees C05D.mapSend mapFlagsOf mapSendLog ∧ SpyAgrees C05D.mapRead mapFlagsOf mapReadLog) ∧
    (SpyAgrees C05D.spawnSend spawnFlagsOf spawnLog ∧ SpyAgrees C05D.spawnRead spawnFlagsOf spawnLog) ∧
    (SpyAgrees C05D.faceSend faceFlagsOf faceLog ∧ SpyAgrees C05D.faceRead faceFlagsOf faceLog) ∧
    (SpyAgrees C05D.combatSend combatFlagsOf combatLog ∧
      SpyAgrees C05D.combatRead combatFlagsOf combatLog) :=
  ⟨map_spy, spawn_spy, face_spy, combat_spy⟩

/-- `PlayerListItemPacket` and `PluginResponsePacket` perform NO version comparison at all, in either
direction, under any known version: their codecs do not depend on the version, as in the model. -/
theorem flagless_classes_live :
    SpyAgrees C05D.pliSend unitFlagsOf (fun _ => []) ∧ SpyAgrees C05D.pliRead unitFlagsOf (fun _ => []) ∧
    SpyAgrees C05D.plugSend unitFlagsOf (fun _ => []) ∧ SpyAgrees C05D.plugRead unitFlagsOf (fun _ => []) :=
  noFlags_spy

/-- The hand-written classes are tied to their MODELS by behaviour, not by name only.  `BytesAgree tab`
says: `tab` (generated by running the live code) has one row per known protocol version, in order, and
under every version `v` (i) the bytes the live `write_fields` of the class produces for the sample
packet — `none` if it raises — are exactly what the model's codec for that class and version
(`handCodec tab.cls v`) writes for the same sample, and (ii) the bytes the live `write_fields` produces
for the packet the live `read` made of those bytes are exactly what the model writes for the
NORMALISED sample, i.e. for what the model's reader returns (`codec_roundtrip`).  This holds for all six
classes: version ↦ flags AND the use the code makes of the flags are pinned on the sample, for both
directions, under all known versions. -/
theorem hand_bytes_live :
    BytesAgree C05D.mapBytes ∧ BytesAgree C05D.spawnBytes ∧ BytesAgree C05D.faceBytes ∧
    BytesAgree C05D.combatBytes ∧ BytesAgree C05D.pliBytes ∧ BytesAgree C05D.plugBytes :=
  ⟨map_bytes, spawn_bytes, face_bytes, combat_bytes, flagless_bytes.1, flagless_bytes.2⟩

/-- The spy and byte tables were recorded on the classes with the names `handCodec` dispatches on. -/
theorem spy_tables_classes :
    [C05D.mapSend, C05D.mapRead, C05D.pliSend, C05D.pliRead, C05D.spawnSend, C05D.spawnRead,
     C05D.combatSend, C05D.combatRead, C05D.faceSend, C05D.faceRead, C05D.plugSend, C05D.plugRead].map
      (·.cls) =
    ["MapPacket", "MapPacket", "PlayerListItemPacket", "PlayerListItemPacket", "SpawnObjectPacket",
     "SpawnObjectPacket", "CombatEventPacket", "CombatEventPacket", "FacePlayerPacket",
     "FacePlayerPacket", "PluginResponsePacket", "PluginResponsePacket"] ∧
    [C05D.mapBytes, C05D.pliBytes, C05D.spawnBytes, C05D.combatBytes, C05D.faceBytes,
     C05D.plugBytes].map (·.cls) = handNames := by decide

/-- The context-dependent custom types.  `customProbe` (the format WRITTEN by the live
`send_with_context` and the format ACCEPTED by the live `read_with_context` of `Position`,
`MultiBlockChangePacket.Record` and `SoundEffectPacket.Pitch`, determined from bytes) has one row per
known version, in order; in every row writer and reader agree on a known format for each type, and it
is the one given by `protocol_later_eq(443)`, `(741)`, `(201)` and `protocol_earlier(204)`.  Hence
the formats the registry fills into the layouts (`customFlagsAt`) are these, for every known version. -/
theorem custom_formats_live :
    C05D.customProbe.map (·.1) = liveTables.knownProtocols ∧
    (∀ x ∈ C05D.customProbe, ∃ fl, customFlagsOf x.1 = some fl ∧ customFlagsOfRow x.2 = some fl) ∧
    ∀ v ∈ liveTables.knownProtocols, ∃ fl, customFlagsAt v = some fl ∧ customFlagsOf v = some fl :=
  ⟨custom_probe.1, custom_probe.2, customFlagsAt_known⟩

/-! ## value-level scaling of `SoundEffectPacket.EffectPosition` and `Pitch` -/

/-- Every wire integer is reproduced: `send(read(w))` writes `w` again (`int((w / 8.0) * 8) = w`). -/
theorem effpos_exact (w : Int) : effPosWire (effPosOfWire w).1 (effPosOfWire w).2 = w := by
  show Int.tdiv (w * 8) 8 = w
  exact Int.mul_tdiv_cancel w (by decide)

/-- A coordinate `p / q` is sent as the integer `w` within one unit of `8·p/q`, truncated toward zero;
so what the peer reads, `w / 8`, differs from the coordinate by less than 1/8 and never exceeds it in
magnitude.  (`EffectPosition` is definitionally the `FixedPoint` arithmetic of `Model/Scaled.lean` with
3 fractional bits; this is `C02.fixed_quantum 3`.) -/
theorem effpos_quantum (p q : Int) (hq : 0 < q) :
    let w := effPosWire p q
    (-q < w * q - p * 8 ∧ w * q - p * 8 < q) ∧
    (0 ≤ p → 0 ≤ w ∧ w * q ≤ p * 8) ∧ (p ≤ 0 → w ≤ 0 ∧ p * 8 ≤ w * q) := by
  have h := C02.fixed_quantum 3 p q hq
  exact ⟨h.1, h.2.1, h.2.2.1⟩

/-- The `Byte` pitch (protocol < 201), scaled (`× 63.5`, protocol < 204) or not: every byte value is
reproduced by `send(read(b))` in exact arithmetic (`int((b / 63.5) * 63.5) = b`). -/
theorem pitch_byte_exact (scaled : Bool) (b : Int) :
    pitchByteWire scaled (pitchOfByte scaled b).1 (pitchOfByte scaled b).2 = b := by
  cases scaled with
  | false => show Int.tdiv b 1 = b; exact Int.tdiv_one b
  | true =>
    show Int.tdiv (b * 2 * 127) (127 * 2) = b
    have : b * 2 * 127 = b * (127 * 2) := by omega
    rw [this]
    exact Int.mul_tdiv_cancel b (by decide)

/-- A scaled pitch `p / q` is sent as the byte `w` within one unit of `63.5·p/q`, truncated toward
zero (cross-multiplied: `63.5 = 127/2`). -/
theorem pitch_byte_quantum (p q : Int) (hq : 0 < q) :
    let w := pitchByteWire true p q
    (0 ≤ p → 0 ≤ w ∧ w * (q * 2) ≤ p * 127 ∧ p * 127 < w * (q * 2) + q * 2) ∧
    (p ≤ 0 → w ≤ 0 ∧ p * 127 ≤ w * (q * 2) ∧ w * (q * 2) - q * 2 < p * 127) := by
  obtain ⟨f1, f2⟩ := fixed_tdiv (p * 127) (q * 2) (by omega)
  exact ⟨fun hp => f1 (by omega), fun hp => f2 (by omega)⟩

/-! ## non-vacuity -/

/-- four instances of classes registered in the clientbound play table under protocol 757 (1.18): a
field-list packet, a hand-written one with flags, one whose layout contains the context-dependent
`Position`, and the flag-free hand-written player list -/
def exEnt (c : String) : RegEnt := (regEnt "cbPlay" 757 c).getD ⟨"", none, none⟩

def exPackets : List RPacket :=
  [⟨exEnt "KeepAlivePacket", .fields [.int 77]⟩, ⟨exEnt "MapPacket", .map sampleMap⟩,
   ⟨exEnt "BlockChangePacket", .fields [Value.ofInts [1, 2, 3], .int 300]⟩,
   ⟨exEnt "PlayerListItemPacket", .pli samplePli⟩]

/-- the registry entries: the ids of THAT version, the `Position` format and the map flags of that
version -/
example : exEnt "KeepAlivePacket" = ⟨"KeepAlivePacket", some 0x21, some (.fields [("keep_alive_id", .int .i64)])⟩ ∧
    exEnt "BlockChangePacket" = ⟨"BlockChangePacket", some 0x0C,
      some (.fields [("location", .custom (.position true)), ("block_state_id", .varint)])⟩ ∧
    exEnt "MapPacket" = ⟨"MapPacket", some 0x27, some (.map ⟨true, true, true, true, true⟩)⟩ := by
  decide +kernel

/-- … and under protocol 340 (1.12.2): other ids, the old `Position` format, other map flags -/
example : regEnt "cbPlay" 340 "KeepAlivePacket" =
      some ⟨"KeepAlivePacket", some 0x1F, some (.fields [("keep_alive_id", .int .i64)])⟩ ∧
    regEnt "cbPlay" 340 "BlockChangePacket" = some ⟨"BlockChangePacket", some 0x0B,
      some (.fields [("location", .custom (.position false)), ("block_state_id", .varint)])⟩ ∧
    regEnt "cbPlay" 340 "MapPacket" =
      some ⟨"MapPacket", some 0x24, some (.map ⟨true, false, false, false, false⟩)⟩ ∧
    regEnt "cbPlay" 110 "SoundEffectPacket" = some ⟨"SoundEffectPacket", some 0x46,
      some (.fields [("sound_id", .varint), ("sound_category", .varint),
        ("effect_position", .custom .effectPos), ("volume", .int .f32),
        ("pitch", .custom (.pitch false true))])⟩ := by
  decide +kernel

/-- the hypotheses of `registered_stream_roundtrip` (and of `dispatch_table_correct`,
`every_registered_class_rt`) are satisfiable: the row exists, is supported, and the four packets are
registered in it, collide with nothing and pass the guard (threshold 64: the player list is
compressed, the others are not) -/
example : ∃ t ∈ regTable, ∃ r ∈ t.2, r.supported = true ∧ t.1 = "cbPlay" ∧ r.v = 757 ∧
    ∀ p ∈ exPackets, p.ent ∈ r.ents ∧ p.ent.id ∉ C06.knownFor t.1 r.v ∧
      RegOK Zlib.ident.toZlibOps (some 64) p := by
  cases hr : regRow "cbPlay" 757 with
  | none => exact absurd hr (by decide +kernel)
  | some r =>
    obtain ⟨tt, htt, ht1, hr2, hv⟩ := regRow_mem hr
    refine ⟨tt, htt, r, hr2, ?_, ht1, hv, ?_⟩
    · have : ((regRow "cbPlay" 757).map (·.supported)) = some true := by decide +kernel
      rw [hr] at this; exact Option.some.inj this
    · have key : ((regRow "cbPlay" 757).map fun r => decide (∀ p ∈ exPackets, p.ent ∈ r.ents ∧
          p.ent.id ∉ C06.knownFor "cbPlay" 757 ∧ RegOK Zlib.ident.toZlibOps (some 64) p)) = some true := by
        decide +kernel
      rw [hr] at key
      have := of_decide_eq_true (Option.some.inj key)
      rw [ht1, hv]; exact this

/-- the bytes `Packet.write` produces for the four packets (threshold 64): each frame carries the id
registered for 757 — 0x21, 0x27, 0x0C, 0x36 — … -/
def exStream : Bytes :=
  [0x0a, 0x00, 0x21, 0, 0, 0, 0, 0, 0, 0, 0x4d,
   0x16, 0x00, 0x27, 3, 1, 0, 1, 1, 5, 0xff, 1, 0x0c, 1, 2, 0x68, 0x69, 2, 1, 3, 4, 2, 0xaa, 0xbb,
   0x0c, 0x00, 0x0c, 0, 0, 0, 0x40, 0, 0, 0x30, 0x02, 0xac, 0x02,
   0x25, 0x00, 0x36, 0, 1, 0, 1, 2, 3, 4, 5, 6, 7, 8, 9, 10, 11, 12, 13, 14, 15, 2, 0x61, 0x62, 1, 1,
   0x6e, 1, 0x76, 1, 1, 0x73, 1, 0x14, 1, 2, 0x68, 0x69]

example : writeRegAll Zlib.ident.toZlibOps (some 64) exPackets = .ok exStream := by decide +kernel

/-- … and the reader, with the dict built in REVERSE row order and the stream cut inside a length
prefix, inside the map body and inside the player list, delivers the four classes under their ids, each
`read` leaving 0 bytes of its payload, then end-of-stream -/
example :
    (match reactorDict ((regRow "cbPlay" 757).map (·.ents.reverse) |>.getD []) with
     | .ok d =>
       let r := readReg Zlib.ident.toZlibOps true d
         [exStream.take 1, exStream.drop 1 |>.take 20, [], exStream.drop 21 |>.take 40, exStream.drop 61]
       (r.1.map Delivered.summary, r.2)
     | .error _ => ([], .other)) =
    ([("KeepAlivePacket", some 0x21, some 0), ("MapPacket", some 0x27, some 0),
      ("BlockChangePacket", some 0x0C, some 0), ("PlayerListItemPacket", some 0x36, some 0)], .eof) := by
  decide +kernel

/-- every codec kind occurs in the registry of supported versions -/
example : (regEnt "sbLogin" 757 "PluginResponsePacket").bind (·.codec) = some .plug ∧
    (regEnt "cbPlay" 757 "PlayerListItemPacket").bind (·.codec) = some .pli ∧
    (regEnt "cbPlay" 47 "SpawnObjectPacket").bind (·.codec) = some (.spawn ⟨false, false, false⟩) ∧
    (regEnt "cbPlay" 498 "SpawnObjectPacket").bind (·.codec) = some (.spawn ⟨true, true, true⟩) ∧
    (regEnt "cbPlay" 352 "FacePlayerPacket").bind (·.codec) = some (.face ⟨false⟩) ∧
    (regEnt "cbPlay" 353 "FacePlayerPacket").bind (·.codec) = some (.face ⟨true⟩) ∧
    (regEnt "cbPlay" 754 "CombatEventPacket").bind (·.codec) = some (.combat ⟨false⟩) ∧
    regEnt "cbPlay" 755 "CombatEventPacket" = none := by
  decide +kernel

/-- a K1 version (389: `PlayerListHeaderAndFooterPacket` and `TimeUpdatePacket` share 0x4A): every
OTHER id of that version is still covered — `MapPacket`'s 0x26 is not a known collision —
while under the colliding id the class found does depend on the iteration order -/
example : some (0x26 : Int) ∉ C06.knownFor "cbPlay" 389 ∧
    (regEnt "cbPlay" 389 "MapPacket").bind (·.id) = some 0x26 ∧
    ((regRow "cbPlay" 389).map fun r =>
      ((reactorDict r.ents).toOption.bind (dictGetG · 0x4A)).map (·.cls)) = some (some "TimeUpdatePacket") ∧
    ((regRow "cbPlay" 389).map fun r =>
      ((reactorDict r.ents.reverse).toOption.bind (dictGetG · 0x4A)).map (·.cls)) =
        some (some "PlayerListHeaderAndFooterPacket") := by
  decide +kernel

/-- the registry is not trivial: 9025 (class, version) pairs in the clientbound play table, 250
supported versions -/
example : ((regTable.lookup "cbPlay").map fun rows => (rows.map (·.ents.length)).sum) = some 9025 ∧
    ((regTable.lookup "cbPlay").map fun rows => (rows.filter (·.supported)).length) = some 250 := by
  decide +kernel

/-- scaling: the coordinate 2.3 = 23/10 is sent as 18 and read back as 18/8 = 2.25; −2.3 as −18 -/
example : effPosWire 23 10 = 18 ∧ effPosWire (-23) 10 = -18 ∧ effPosOfWire 18 = (18, 8) ∧
    pitchByteWire true 1 1 = 63 ∧ pitchByteWire true 2 1 = 127 ∧ pitchOfByte true 63 = (126, 127) := by
  decide

/-! ## concrete refutations: models of CHANGED code violate the theorems above -/

/-- CHANGED CODE 1: `MapPacket.read` tests `protocol_in_range(108, PRE | 6)` where `write_fields`
tests `(107, PRE | 6)` (every C05Hand theorem still holds: they quantify over ONE flag record used by
both directions).  Under protocol 107 the writer then runs with `v107 = true` and the reader with
`v107 = false`: the sample packet, wire-representable, is not read back — the conclusion of
`every_registered_class_rt` / `codec_roundtrip` fails for the changed codec. -/
example :
    let fw : MapFlags := ⟨true, false, false, false, false⟩
    let fr : MapFlags := ⟨false, false, false, false, false⟩
    mapFlagsOf 107 = some fw ∧ MapWF fw sampleMap ∧
    ∃ bs, writeMap fw sampleMap = .ok bs ∧ readMap fr bs ≠ .ok (sampleMap.normalise fw, []) := by
  refine ⟨by decide +kernel, by decide +kernel, _, rfl, by decide +kernel⟩

/-- … and `hand_flags_live` fails on the regenerated table: the log recorded for the changed `read`
contains `protocol_in_range(108, PRE | 6)`, which is the log of NO flag record. -/
example : ∀ f : MapFlags, mapReadLog f ≠
    [(3, 364, 0, false), (3, 373, 0, false), (3, 452, 0, false), (3, PRE + 6, 0, false),
     (4, 108, PRE + 6, false)] ∧
    mapReadLog f ≠
    [(0, 107, 0, false), (3, 364, 0, false), (3, 373, 0, false), (3, 452, 0, false),
     (3, PRE + 6, 0, false), (4, 108, PRE + 6, false)] := by
  intro ⟨a, b, c, d, e⟩
  cases a <;> cases b <;> cases c <;> cases d <;> cases e <;> decide

/-- the spy check itself is refuted by a table that differs in ONE recorded argument -/
example : spyCheck { C05D.faceRead with variants := [[(3, 354, 0, false)], [(3, 354, 0, true)]] }
    (fun iv => faceLog ⟨decide (353 ≤ iv)⟩) = false := by decide +kernel

/-- CHANGED CODE 2: only the READER of `Position` is moved to `protocol_later_eq(477)`
(`basic.py:322`; audit item 6).  On the 34 versions 443–476 the regenerated `customProbe` row is
`[1, 0, …]` (written x,z,y; accepted x,y,z): it has no flags, so `custom_formats_live` fails, the
registry has no codec for `BlockChangePacket` there and `every_registered_class_rt` fails; and indeed
the two formats do not round-trip. -/
example : customFlagsOfRow [1, 0, 0, 0, 1, 1, 0, 0] = none ∧
    (match encode realCustom (.custom (.position true)) (Value.ofInts [1, 2, 3]) with
     | .ok bs => (decode realCustom (.custom (.position false)) bs).toOption.map
         (fun r => decide (WellTyped realDom (.custom (.position true)) r.1 ∧ r.2 = []) &&
           (r.1.ints? == some [1, 2, 3]))
     | .error _ => none) = some false := by
  decide +kernel

/-- CHANGED CODE 3: the reactor's dict is built for another version than the one the peer writes with
(e.g. the reactor created before the negotiated version is stored in the context).  A server speaking
340 sends `ResourcePackSendPacket` (id 0x34 there); a dict built for 757 delivers it as
`EnterCombatEventPacket` whose `read` leaves the whole payload unread — `registered_stream_roundtrip`
demands the same class and 0 bytes left. -/
example :
    (match regEnt "cbPlay" 340 "ResourcePackSendPacket", (regRow "cbPlay" 757).map (reactorDict ·.ents) with
     | some e, some (.ok d) =>
       let p : RPacket := ⟨e, .fields [.str "u", .str "h"]⟩
       (match writeReg Zlib.ident.toZlibOps none p with
        | .ok stream => (readReg Zlib.ident.toZlibOps false d [stream]).1.map Delivered.summary
        | .error _ => [])
     | _, _ => []) = [("EnterCombatEventPacket", some 0x34, some 4)] := by
  decide +kernel

/-- CHANGED CODE 4: `read_packet` without `packet.context = self.connection.context` (the line
`connection.py:709`): `self.definition` is `None` and `Packet.read` raises `TypeError` for every
field-list class.  The model of that reader delivers `.error .type` where the theorem demands the
values: refuted on the first packet of the example conversation. -/
def deliverNoContext (dict : List (Int × RegEnt)) (raw : Nat × Bytes) : Delivered :=
  match dictGetG dict (raw.1 : Int) with
  | some e =>
    .known e (match e.codec with
      | some (.fields _) => .error .type
      | some k => k.read raw.2
      | none => .error .other)
  | none => .unknown raw.1

example :
    (match (regRow "cbPlay" 757).map (reactorDict ·.ents) with
     | some (.ok d) => ((readAll Zlib.ident.toZlibOps true [exStream]).1.map (deliverNoContext d)).map
         Delivered.summary
     | _ => []) ≠ (exPackets.map RPacket.expected).map Delivered.summary := by
  decide +kernel

end PyCraft.C05Dispatch
