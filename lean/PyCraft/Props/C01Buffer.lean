import PyCraft.Model.PacketBuffer
/-!
# C01 (extension) — the scratch buffer between the codec and the socket (`PacketBuffer`)

`Packet.write` assembles every frame in a `PacketBuffer` (sends, then `get_writable`) and
`PacketReactor.read_packet` reads every frame back out of one (sends, `reset_cursor`, then reads).
The frame theorems of `Props/C01` treat that buffer as a byte list; this file proves that the real
object — one cursor shared by `write` and `read`, `write` overwriting at the cursor — behaves as a
byte list under exactly that discipline, for every sequence of operations, and shows where it does
not (a `send` after `reset_cursor` overwrites).  Tie: `pbuf.run` against the live `PacketBuffer`
over random operation sequences (`corr/c01.py`).
-/
namespace PyCraft.C01Buffer
open PyCraft PyCraft.PBuf

/-- The cursor never passes the end of the contents. -/
def Inv (s : St) : Prop := s.pos ≤ s.buf.length

theorem step_inv (s : St) (op : Op) (h : Inv s) : Inv (step s op).1 := by
  unfold Inv at *
  cases op with
  | send v => simp [step, List.length_append, List.length_take, List.length_drop]; omega
  | read n =>
    cases n with
    | none => simp [step, List.length_drop]; omega
    | some n => simp [step, List.length_take, List.length_drop]; omega
  | reset => simp [step, init]
  | rewind => simp [step]
  | getw => simpa [step] using h

/-- … in every reachable state (so `BytesIO`'s zero padding of a write beyond the end never occurs). -/
theorem run_inv (ops : List Op) : ∀ s, Inv s → Inv (run s ops).1 := by
  induction ops with
  | nil => intro s h; simpa [run] using h
  | cons op ops ih => intro s h; simpa [run] using ih _ (step_inv s op h)

theorem reachable_inv (ops : List Op) : Inv (run init ops).1 :=
  run_inv ops init (by simp [Inv, init])

theorem run_append (a b : List Op) : ∀ s,
    run s (a ++ b) = ((run (run s a).1 b).1, (run s a).2 ++ (run (run s a).1 b).2) := by
  induction a with
  | nil => intro s; simp [run]
  | cons op a ih =>
    intro s
    simp only [List.cons_append, run, ih]
    cases (step s op).2 <;> simp

/-- Write phase.  With the cursor at the end (a fresh or reset buffer, or after earlier sends), any
number of `send`s appends: contents = old contents ++ all values in order, cursor at the end again,
nothing returned. -/
theorem sends_append (vs : List Bytes) : ∀ s, s.pos = s.buf.length →
    run s (vs.map .send) = (⟨s.buf ++ vs.flatten, s.buf.length + vs.flatten.length⟩, []) := by
  induction vs with
  | nil => intro s h; cases s; simp_all [run]
  | cons v vs ih =>
    intro s h
    have hs : (step s (.send v)) = (⟨s.buf ++ v, s.buf.length + v.length⟩, none) := by
      simp [step, h]
    simp only [List.map_cons, run, hs]
    rw [ih ⟨s.buf ++ v, s.buf.length + v.length⟩ (by simp)]
    simp [List.append_assoc, Nat.add_assoc]

private theorem drop_take_length {α} (l : List α) (n : Nat) : l.drop (l.take n).length = l.drop n := by
  rw [List.length_take]
  by_cases h : n ≤ l.length
  · rw [Nat.min_eq_left h]
  · have h' : l.length ≤ n := by omega
    rw [Nat.min_eq_right h', List.drop_eq_nil_of_le (Nat.le_refl _), List.drop_eq_nil_of_le h']

/-- Read phase.  Any number of sized `read`s returns the consecutive pieces of what lies after the
cursor, and never changes the contents. -/
theorem reads_chunk (ns : List Nat) : ∀ s,
    (run s (ns.map (fun n => .read (some n)))).2 = chunks (s.buf.drop s.pos) ns ∧
    (run s (ns.map (fun n => .read (some n)))).1.buf = s.buf := by
  induction ns with
  | nil => intro s; simp [run, chunks]
  | cons n ns ih =>
    intro s
    obtain ⟨h1, h2⟩ := ih ⟨s.buf, s.pos + ((s.buf.drop s.pos).take n).length⟩
    simp only [List.map_cons, run, step, chunks]
    refine ⟨?_, h2⟩
    rw [h1]
    congr 1
    show chunks (List.drop (s.pos + _) s.buf) ns = _
    rw [← List.drop_drop, drop_take_length]

/-- The pieces, concatenated, are a prefix of the byte string — nothing skipped, nothing twice. -/
theorem chunks_flatten (ns : List Nat) : ∀ bs, (chunks bs ns).flatten = bs.take ns.sum := by
  induction ns with
  | nil => intro bs; simp [chunks]
  | cons n ns ih => intro bs; simp [chunks, ih, List.take_add]

/-- The discipline of `read_packet` (fresh buffer: sends, `reset_cursor`, sized reads): the reads
return the consecutive pieces of the concatenation of everything sent. -/
theorem write_then_read (vs : List Bytes) (ns : List Nat) :
    (run init (vs.map .send ++ [.rewind] ++ ns.map (fun n => .read (some n)))).2
      = chunks vs.flatten ns := by
  rw [List.append_assoc, run_append, sends_append vs init rfl]
  simp only [init, List.nil_append, List.length_nil, Nat.zero_add, List.cons_append, run, step]
  exact (reads_chunk ns ⟨vs.flatten, 0⟩).1

/-- The discipline of `Packet.write` (fresh buffer: sends, then `get_writable`): the concatenation. -/
theorem write_then_get (vs : List Bytes) :
    (run init (vs.map .send ++ [.getw])).2 = [vs.flatten] := by
  rw [run_append, sends_append vs init rfl]
  simp [init, run, step]

/-- `read()` with no length returns everything after the cursor and leaves the cursor at the end. -/
theorem read_all (s : St) (h : Inv s) :
    step s (.read none) = (⟨s.buf, s.buf.length⟩, some (s.buf.drop s.pos)) := by
  unfold Inv at h
  simp [step, List.length_drop]; omega

/-- `reset` forgets everything, from any state. -/
theorem reset_fresh (s : St) : (step s .reset).1 = init := rfl

/-- Outside the discipline the buffer is NOT a byte list: a `send` after `reset_cursor` overwrites
the beginning instead of appending (`BytesIO.write` stores at the cursor). -/
theorem send_after_rewind_overwrites :
    (run init [.send [1, 2, 3], .rewind, .send [9], .getw]).2 = [[9, 2, 3]] := by decide

-- non-vacuity
example : (run init [.send [1, 2], .send [3], .rewind, .read (some 1), .read (some 5), .read (some 1)]).2
    = [[1], [2, 3], []] := by decide
example : (run init ([[1, 2], [3]].map .send ++ [.getw])).2 = [[1, 2, 3]] := write_then_get _
example : Inv (run init [.send [1, 2], .rewind, .read none, .send [7]]).1 := reachable_inv _

end PyCraft.C01Buffer
