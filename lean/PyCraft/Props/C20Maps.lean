import PyCraft.Lemmas.C20Maps
import PyCraft.Generated.C20Maps
/-!
# C20, map tracker: histories of map packets (audit item 15)

"Applying any sequence of … map … packets to the library's tracker objects yields the state
prescribed by replaying them in order … map pixels land at offset + (i mod width, i div width)."

`Props/C20.lean` has the single pixel loop (`map_patch_coords`) and unfoldings of one
`apply_to_map` / `apply_to_map_set` under the hypothesis that it did not raise.  Here:

* the invariant `MapSet.WF` of a library-built map set and the packets `MapPacket.InRange` whose
  pixel rectangle fits a 128×128 map;
* the fresh map (`fresh_map_spec`, and `fresh_map_live` against the live constructor);
* totality of a whole history (`map_replay_total`) and its result against a reference semantics
  that mentions neither loops nor flat indices nor association lists: dict order
  (`map_replay_keys`), fields (`map_replay_fields`), every cell of every map (`map_replay_pixel`),
  the statement's own wording (`map_last_patch_lands`, `cell_lands`, `cell_only`), and the fact that
  these clauses leave no freedom (`map_replay_unique`);
* the exception path with all its effects (`map_error_state`, `fx_agrees`), tied to the live code
  by generated scenarios (`live_scenarios_agree`);
* refutations: three models of changed code that pass every theorem of `Props/C20.lean` violate
  the laws proved here.
-/
namespace PyCraft.C20Maps
open PyCraft PyCraft.Trackers

/-! ## The fresh map -/

/-- `MapPacket.Map(id)` (`map_packet.py:51-60` with the default `width=128, height=128`): the given
id, no scale, no icons, 128 wide, 128 high, `128*128` pixels, every cell zero, tracking position,
not locked. -/
theorem fresh_map_spec (id : Option Int) :
    (MapState.new id).id = id ∧ (MapState.new id).scale = none ∧ (MapState.new id).icons = [] ∧
    (MapState.new id).width = 128 ∧ (MapState.new id).height = 128 ∧
    (MapState.new id).pixels.length = 16384 ∧
    (MapState.new id).isTrackingPosition = true ∧ (MapState.new id).isLocked = false ∧
    ∀ x z, x < 128 → z < 128 → (MapState.new id).pixels[x + 128 * z]? = some 0 :=
  ⟨rfl, rfl, rfl, rfl, rfl, new_length id, rfl, rfl, new_pixel id⟩

/-- The model's fresh map is what the LIVE `MapPacket.Map(5)` looks like (generated table:
id, scale, icons, width, height, `len(pixels)`, the non-zero pixels, both flags). -/
theorem fresh_map_live :
    (MapState.new (some 5)).obs 5 = obsOfRaw Gen.C20Maps.freshMap := by decide +kernel

/-- The defaults of the constructor: `Map(k)` is `Map(k, width=128, height=128)`. -/
theorem fresh_map_default_size (k : Int) : MapState.new (some k) = MapState.ofSize k 128 128 := rfl

/-- `MapSet()` and `MapSet(Map(k))` satisfy the invariant. -/
theorem fresh_sets_wf (k : Int) :
    MapSet.WF [] ∧ MapSet.WF [(k, MapState.new (some k))] := by
  refine ⟨⟨List.nodup_nil, fun _ h => absurd h (by simp)⟩, ⟨by simp, ?_⟩⟩
  intro km h
  simp only [List.mem_singleton] at h
  subst h
  exact ⟨rfl, rfl, rfl, new_length _⟩

/-! ## Whole histories -/

/-- Totality and invariant: a history of in-range packets applied to a well-formed map set never
raises, and the result is again well-formed (distinct keys, every map stored under its own id, 128
wide, 128 high, `128*128` pixels).  The effectful model agrees: no exception, same set. -/
theorem map_replay_total (hist : List MapPacket) (s : MapSet) (hs : MapSet.WF s)
    (hin : ∀ p ∈ hist, p.InRange) :
    ∃ s', replayMaps hist s = .ok s' ∧ MapSet.WF s' ∧ replayMapsFx hist s = (s', none) := by
  obtain ⟨s', h, hwf, _⟩ := replay_spec hist s hs hin
  refine ⟨s', h, hwf, ?_⟩
  have := replayMaps_eq_fx hist s
  rw [h] at this
  rcases hfx : replayMapsFx hist s with ⟨t, _ | e⟩
  · rw [hfx] at this; cases this; rfl
  · rw [hfx] at this; cases this

/-- Dict order after the history: the ids already present keep their places; every new id is
appended when it first occurs.  In particular an id is present afterwards iff it was present or
some packet of the history is addressed to it. -/
theorem map_replay_keys (hist : List MapPacket) (s s' : MapSet) (hs : MapSet.WF s)
    (hin : ∀ p ∈ hist, p.InRange) (h : replayMaps hist s = .ok s') :
    s'.map Prod.fst = refKeys hist (s.map Prod.fst) ∧
    ∀ k, k ∈ s'.map Prod.fst ↔ k ∈ s.map Prod.fst ∨ ∃ p ∈ hist, p.mapId = k := by
  obtain ⟨s'', h', _, hkeys, _⟩ := replay_spec hist s hs hin
  rw [h] at h'; cases h'
  refine ⟨hkeys, fun k => ?_⟩
  have := mem_refKeys hist (keys s) k
  rw [← hkeys] at this
  exact this

/-- Fields after the history: a map no packet is addressed to is untouched (or still absent); any
other map carries its own id and the scale, icons, `is_tracking_position`, `is_locked` of the LAST
packet addressed to it, and is still 128×128 with `128*128` pixels. -/
theorem map_replay_fields (hist : List MapPacket) (s s' : MapSet) (hs : MapSet.WF s)
    (hin : ∀ p ∈ hist, p.InRange) (h : replayMaps hist s = .ok s') (k : Int) :
    (lastPacket hist k = none → dictGet k s' = dictGet k s) ∧
    (∀ q, lastPacket hist k = some q →
      ∃ m, dictGet k s' = some m ∧ m.id = some k ∧ m.scale = some q.scale ∧ m.icons = q.icons ∧
        m.isTrackingPosition = q.isTrackingPosition ∧ m.isLocked = q.isLocked ∧
        m.width = 128 ∧ m.height = 128 ∧ m.pixels.length = 16384) := by
  obtain ⟨s'', h', hwf, _, hfields, _⟩ := replay_spec hist s hs hin
  rw [h] at h'; cases h'
  have hk := hfields k
  unfold FieldsSpec at hk
  constructor
  · intro hn; rw [hn] at hk; exact hk
  · intro q hq
    rw [hq] at hk
    obtain ⟨m, hm, hid, hsc, hic, htr, hlk⟩ := hk
    obtain ⟨_, hw, hh, hl⟩ := wf_entry hwf hm
    exact ⟨m, hm, hid, hsc, hic, htr, hlk, hw, hh, hl⟩

/-- Pixels after the history: cell (column `x`, row `z`) of every map `k` of the resulting set
holds the value of the LAST packet of the history that is addressed to `k` and prescribes something
for that cell (`lastWrite`, via `MapPacket.cell`: the cell lies `dx < width` columns and `dz` rows
into the packet's rectangle and gets its pixel number `dx + width*dz`); if there is none, it holds
what it held before, and `0` if the map was created by the history. -/
theorem map_replay_pixel (hist : List MapPacket) (s s' : MapSet) (hs : MapSet.WF s)
    (hin : ∀ p ∈ hist, p.InRange) (h : replayMaps hist s = .ok s')
    (k : Int) (hk : k ∈ s'.map Prod.fst) (x z : Nat) (hx : x < 128) (hz : z < 128) :
    s'.pixel k x z = some ((lastWrite hist k x z).getD ((s.pixel k x z).getD 0)) := by
  obtain ⟨s'', h', hwf, _, _, hpix⟩ := replay_spec hist s hs hin
  rw [h] at h'; cases h'
  obtain ⟨v, hv⟩ := wf_pixel_some hwf hk x z hx hz
  have := hpix k x z hx hz
  rw [or_or_zero, hv] at this
  rw [hv]; exact this

/-- The three clauses above pin the result down completely: any well-formed map set with that key
order, those fields and those pixels IS the result of the replay. -/
theorem map_replay_unique (hist : List MapPacket) (s t : MapSet) (hs : MapSet.WF s)
    (hin : ∀ p ∈ hist, p.InRange) (ht : MapSet.WF t)
    (hkeys : t.map Prod.fst = refKeys hist (s.map Prod.fst))
    (hfields : ∀ k, FieldsSpec hist s t k)
    (hpix : ∀ k ∈ t.map Prod.fst, ∀ x z, x < 128 → z < 128 →
      t.pixel k x z = some ((lastWrite hist k x z).getD ((s.pixel k x z).getD 0))) :
    replayMaps hist s = .ok t := by
  obtain ⟨s', h, hwf, hkeys', hfields', hpix'⟩ := replay_spec hist s hs hin
  rw [h]
  congr 1
  have hkk : keys s' = keys t := by rw [hkeys']; exact hkeys.symm
  apply mapSet_ext s' t hwf ht hkk
  · intro k m1 m2 h1 h2
    have f1 := hfields' k
    have f2 := hfields k
    unfold FieldsSpec at f1 f2
    cases hl : lastPacket hist k with
    | none =>
      rw [hl] at f1 f2
      have : some m1 = some m2 := by rw [← h1, ← h2, f1, f2]
      cases this
      exact ⟨rfl, rfl, rfl, rfl⟩
    | some q =>
      rw [hl] at f1 f2
      obtain ⟨a, ha, _, a1, a2, a3, a4⟩ := f1
      obtain ⟨b, hb, _, b1, b2, b3, b4⟩ := f2
      rw [h1] at ha; cases ha
      rw [h2] at hb; cases hb
      exact ⟨by rw [a1, b1], by rw [a2, b2], by rw [a3, b3], by rw [a4, b4]⟩
  · intro k x z hx hz
    by_cases hk : k ∈ keys t
    · obtain ⟨v, hv⟩ := wf_pixel_some hwf (hkk ▸ hk) x z hx hz
      have := hpix' k x z hx hz
      rw [or_or_zero, hv] at this
      rw [hv, hpix k hk x z hx hz]; exact this
    · have h1 : dictGet k t = none := (dictGet_none_iff k t).2 hk
      have h2 : dictGet k s' = none := (dictGet_none_iff k s').2 (hkk ▸ hk)
      simp [MapSet.pixel, h1, h2]

/-- What `MapPacket.cell` means, forwards (the statement's wording): packet pixel `i` is prescribed
for column `offX + i mod width`, row `offZ + i div width`. -/
theorem cell_lands (p : MapPacket) (px : Bytes) (hpx : p.pixels = some px)
    (h1 : 0 ≤ p.offset.1) (h2 : 0 ≤ p.offset.2) (hw : 0 < p.width) (i : Nat)
    (hi : i < px.length) :
    p.cell (p.offset.1.toNat + i % p.width) (p.offset.2.toNat + i / p.width) = some px[i] :=
  cell_of_index p px hpx _ _ (by apply Prod.ext <;> simp <;> omega) hw i hi

/-- … and backwards: every value `cell` prescribes for a cell is pixel `i` of the packet for an `i`
with `(x, z) = offset + (i mod width, i div width)`. -/
theorem cell_only (p : MapPacket) (px : Bytes) (hpx : p.pixels = some px)
    (h1 : 0 ≤ p.offset.1) (h2 : 0 ≤ p.offset.2) (x z : Nat) (v : UInt8)
    (h : p.cell x z = some v) :
    ∃ i, px[i]? = some v ∧ x = p.offset.1.toNat + i % p.width ∧
      z = p.offset.2.toNat + i / p.width :=
  Trackers.cell_only p px hpx _ _ (by apply Prod.ext <;> simp <;> omega) x z v h

/-- The statement's sentence on a whole history: after any in-range history whose last packet is
`p`, pixel `i` of `p` sits in column `offX + i mod width`, row `offZ + i div width` of the map with
`p`'s id. -/
theorem map_last_patch_lands (pre : List MapPacket) (p : MapPacket) (s s' : MapSet)
    (hs : MapSet.WF s) (hin : ∀ q ∈ pre ++ [p], q.InRange)
    (h : replayMaps (pre ++ [p]) s = .ok s') (px : Bytes) (hpx : p.pixels = some px) (i : Nat)
    (hi : i < px.length) :
    s'.pixel p.mapId (p.offset.1.toNat + i % p.width) (p.offset.2.toNat + i / p.width) =
      some px[i] :=
  patch_lands pre p s s' hs hin h px hpx i hi

/-- The usual description of an admissible packet (non-negative offset, the `width × height`
rectangle inside the map, exactly `width*height` pixels) implies `InRange`. -/
theorem in_range_of_rect (p : MapPacket) (px : Bytes) (hpx : p.pixels = some px)
    (h1 : 0 ≤ p.offset.1) (h2 : 0 ≤ p.offset.2) (h3 : p.offset.1 + (p.width : Int) ≤ 128)
    (h4 : p.offset.2 + (p.height : Int) ≤ 128) (h5 : px.length = p.width * p.height) :
    p.InRange :=
  inRange_of_rect p px hpx h1 h2 h3 h4 h5

/-! ## The exception path -/

/-- The `Except` model of `Model/Trackers.lean` is the effectful model with the objects forgotten:
same success, same set on success, same error. -/
theorem fx_agrees (hist : List MapPacket) (p : MapPacket) (s : MapSet) :
    (applyToMapSet p s =
      match applyToMapSetFx p s with
      | (s', none) => .ok s'
      | (_, some e) => .error e) ∧
    (replayMaps hist s =
      match replayMapsFx hist s with
      | (s', none) => .ok s'
      | (_, some e) => .error e) :=
  ⟨applyToMapSet_eq_fx p s, replayMaps_eq_fx hist s⟩

/-- When `apply_to_map_set` raises (no hypothesis on the set or the packet): the dict has the
packet's id — a fresh map created for it STAYS, at the end of the dict; no other entry is touched;
the map `m₀` the packet was applied to (the known one, or the fresh one) has had `id`, `scale`,
`icons` overwritten from the packet, keeps its OLD `is_tracking_position` / `is_locked`, its width,
height and number of pixels, and its pixels are those of `m₀` after exactly the writes for the
packet pixels before the failing index `n` (the write for pixel `n` is the one that raises). -/
theorem map_error_state (p : MapPacket) (s s' : MapSet) (e : Err)
    (h : applyToMapSetFx p s = (s', some e)) :
    applyToMapSet p s = .error e ∧
    s'.map Prod.fst =
      (if p.mapId ∈ s.map Prod.fst then s.map Prod.fst else s.map Prod.fst ++ [p.mapId]) ∧
    (∀ k, k ≠ p.mapId → dictGet k s' = dictGet k s) ∧
    ∃ m', dictGet p.mapId s' = some m' ∧
      m'.id = some p.mapId ∧ m'.scale = some p.scale ∧ m'.icons = p.icons ∧
      m'.isTrackingPosition =
        ((dictGet p.mapId s).getD (MapState.new (some p.mapId))).isTrackingPosition ∧
      m'.isLocked = ((dictGet p.mapId s).getD (MapState.new (some p.mapId))).isLocked ∧
      m'.width = ((dictGet p.mapId s).getD (MapState.new (some p.mapId))).width ∧
      m'.height = ((dictGet p.mapId s).getD (MapState.new (some p.mapId))).height ∧
      m'.pixels.length =
        ((dictGet p.mapId s).getD (MapState.new (some p.mapId))).pixels.length ∧
      ∃ px n v, p.pixels = some px ∧ px[n]? = some v ∧
        patchLoopFx ((dictGet p.mapId s).getD (MapState.new (some p.mapId))).width p.width p.offset
          0 (px.take n) ((dictGet p.mapId s).getD (MapState.new (some p.mapId))).pixels
          = (m'.pixels, none) ∧
        patchLoopFx ((dictGet p.mapId s).getD (MapState.new (some p.mapId))).width p.width p.offset
          n [v] m'.pixels = (m'.pixels, some e) := by
  have hx := applyToMapSet_eq_fx p s
  rw [h] at hx
  rw [applyToMapSetFx_eq] at h
  simp only [Prod.mk.injEq] at h
  obtain ⟨hs', he⟩ := h
  have hfx := applyToMapFx_err p ((dictGet p.mapId s).getD (MapState.new (some p.mapId)))
    (applyToMapFx p ((dictGet p.mapId s).getD (MapState.new (some p.mapId)))).1 e
    (by rw [← he])
  subst hs'
  exact ⟨hx, keys_dictSet _ _ _, fun k hk => by simp [dictGet_dictSet, hk],
    _, by simp [dictGet_dictSet], hfx⟩

/-- A history that raises does so at its first raising packet `p`: the packets before it were
applied without exception (to them the theorems above apply), and the final state is the one
`map_error_state` describes for `p`; the packets after `p` are not applied. -/
theorem map_replay_error_point (hist : List MapPacket) (s s' : MapSet) (e : Err)
    (h : replayMapsFx hist s = (s', some e)) :
    ∃ pre p post s1, hist = pre ++ p :: post ∧ replayMaps pre s = .ok s1 ∧
      replayMapsFx pre s = (s1, none) ∧ applyToMapSetFx p s1 = (s', some e) := by
  obtain ⟨pre, p, post, s1, hh, hpre, hp⟩ := replayMapsFx_err hist s s' e h
  refine ⟨pre, p, post, s1, hh, ?_, hpre, hp⟩
  rw [replayMaps_eq_fx, hpre]

/-! ## Ties to the live code -/

/-- Every scenario recorded from the LIVE `apply_to_map_set` (a fresh 128×128 map written in its
last cell; an exception on a fresh map; overlapping patches, `IndexError` after two writes,
`ZeroDivisionError`, wrapping negative offsets, row overflow, surplus pixels on small known maps)
is reproduced exactly by the model, exception path included: dict order, id, scale, icons, width,
height, `len(pixels)`, every non-zero pixel, both flags. -/
theorem live_scenarios_agree : ∀ sc ∈ Gen.C20Maps.scenarios, scenarioOK sc = true := by
  decide +kernel

/-- The table is not empty and contains both successful histories and ones that raise. -/
theorem live_scenarios_cover :
    10 ≤ Gen.C20Maps.scenarios.length ∧
    (Gen.C20Maps.scenarios.any fun sc => sc.2.2.2.1.isSome && sc.2.1.isEmpty) = true ∧
    (Gen.C20Maps.scenarios.any fun sc =>
      sc.2.2.2.1.isNone && decide (2 ≤ sc.2.2.2.2.length)) = true := by
  decide +kernel

/-! ## Changed code is noticed

`PixelLaw` and `ErrorLaw` (`Model/C20Maps.lean`) are the statements of theorems above with the
function under test abstracted; each holds of the model and fails, on a concrete history checked by `decide +kernel`, of a model of the
changed code. -/

/-- `PixelLaw` (`map_replay_total` + `map_replay_pixel` for an arbitrary replay function) holds of
the model. -/
theorem pixel_law_holds : PixelLaw replayMaps := by
  intro hist s hs hin
  obtain ⟨s', h, hwf, _⟩ := map_replay_total hist s hs hin
  exact ⟨s', h, hwf, fun k hk x z hx hz => map_replay_pixel hist s s' hs hin h k hk x z hx hz⟩

/-- The replay function parameterised by the fresh-map constructor is the model when given the
model's constructor (so the two refutations below differ from the model in that constructor only). -/
theorem pixel_law_holds_with :
    PixelLaw (replayMapsWith fun p => MapState.new (some p.mapId)) := by
  rw [replayMapsWith_new]; exact pixel_law_holds

/-- `ErrorLaw` (the first clauses of `map_error_state` for an arbitrary `apply_to_map_set`) holds of
the model. -/
theorem error_law_holds : ErrorLaw applyToMapSetFx := by
  intro p s s' e h
  obtain ⟨_, _, _, m', hm, h1, h2, h3, _⟩ := map_error_state p s s' e h
  exact ⟨m', hm, h1, h2, h3⟩

/-- A packet without pixels for map 1. -/
def pktBare : MapPacket :=
  { mapId := 1, scale := 0, icons := [], width := 0, height := 0, offset := (0, 0), pixels := none,
    isTrackingPosition := true, isLocked := false }

/-- A 2×1 patch at column 0, row 1 of map 1. -/
def pktRow1 : MapPacket :=
  { mapId := 1, scale := 0, icons := [], width := 2, height := 1, offset := (0, 1),
    pixels := some [7, 9], isTrackingPosition := true, isLocked := false }

/-- A packet for map 7 with `width == 0` but one pixel: the loop raises `ZeroDivisionError` before
any write. -/
def pktZero : MapPacket :=
  { mapId := 7, scale := 3, icons := [⟨1, 2, 3, 4, none⟩], width := 0, height := 0,
    offset := (0, 0), pixels := some [1], isTrackingPosition := false, isLocked := true }

/-- A 1×3 patch at column 3, row 1: on a map with three rows its third pixel is outside. -/
def pktOut : MapPacket :=
  { mapId := 7, scale := 6, icons := [⟨2, 2, 2, 2, none⟩], width := 1, height := 3,
    offset := (3, 1), pixels := some [1, 2, 3], isTrackingPosition := false, isLocked := true }

/-- Seeded change "fresh map filled with `0xFF`": after the single pixel-less packet `pktBare` on
`MapSet()`, cell (0, 0) of map 1 is `0xFF`, where the law prescribes `0`. -/
theorem seeded_ff_refuted :
    ¬ PixelLaw (replayMapsWith fun p => MapState.newFF (some p.mapId)) := by
  intro h
  obtain ⟨s', hr, _, hp⟩ := h [pktBare] [] (by decide) (by decide)
  have hc : (match replayMapsWith (fun p => MapState.newFF (some p.mapId)) [pktBare] [] with
      | .ok s' => decide (1 ∈ s'.map Prod.fst ∧ s'.pixel 1 0 0 = some 255)
      | .error _ => false) = true := by decide +kernel
  rw [hr] at hc
  simp only [decide_eq_true_eq] at hc
  have := hp 1 hc.1 0 0 (by decide) (by decide)
  rw [hc.2] at this
  revert this
  decide +kernel

/-- Seeded change "fresh map created with `width=self.width`": after `pktRow1` on `MapSet()` the
result is not even well-formed (the map is 2 wide with 256 pixels), and cell (0, 1) does not hold
the packet's first pixel. -/
theorem seeded_width_refuted :
    ¬ PixelLaw (replayMapsWith fun p => MapState.newW (some p.mapId) p.width) := by
  intro h
  obtain ⟨s', hr, hwf, _⟩ := h [pktRow1] [] (by decide) (by decide)
  have hc : (match replayMapsWith (fun p => MapState.newW (some p.mapId) p.width) [pktRow1] [] with
      | .ok s' => decide (¬ MapSet.WF s' ∧ s'.pixel 1 0 1 ≠ some 7)
      | .error _ => false) = true := by decide +kernel
  rw [hr] at hc
  simp only [decide_eq_true_eq] at hc
  exact hc.1 hwf

/-- Seeded change "store the fresh map only after `apply_to_map` returned": `pktZero` raises on
`MapSet()` and leaves the set empty, where the law demands an entry for map 7. -/
theorem seeded_late_store_refuted : ¬ ErrorLaw applyToMapSetFxLate := by
  intro h
  have hc : applyToMapSetFxLate pktZero [] = ([], some .other) := by decide +kernel
  obtain ⟨m', hm, _⟩ := h pktZero [] [] .other hc
  simp [dictGet] at hm

/-! ## Non-vacuity and observations

(Kernel evaluation of a `128*128`-element list costs seconds per traversal, so the examples on
full-size maps write few pixels; longer runs are in the live scenarios, on small maps.) -/

/-- A map set with one known map (id 3, one non-zero cell, locked) … -/
def sEx : MapSet :=
  [(3, { MapState.new (some 3) with scale := some 2, pixels := (MapState.new none).pixels.set 1030 5,
                                      isLocked := true })]

/-- … and a history over a known and a new id: two patches on map 3 overlapping in cell (6, 8), a
patch into the last cell of the new map 9, and a pixel-less packet for map 9. -/
def histEx : List MapPacket :=
  [ { mapId := 3, scale := 1, icons := [⟨1, 2, 3, -4, some "a"⟩], width := 3, height := 2,
      offset := (5, 7), pixels := some [1, 2, 3, 4, 5, 6], isTrackingPosition := false,
      isLocked := true },
    { mapId := 9, scale := -2, icons := [], width := 1, height := 1, offset := (127, 127),
      pixels := some [13], isTrackingPosition := true, isLocked := false },
    { mapId := 3, scale := 4, icons := [], width := 2, height := 1, offset := (6, 8),
      pixels := some [7, 0], isTrackingPosition := true, isLocked := false },
    { mapId := 9, scale := 5, icons := [⟨6, 7, 0, 0, none⟩], width := 0, height := 0,
      offset := (0, 0), pixels := none, isTrackingPosition := false, isLocked := false } ]

/-- The hypotheses of the history theorems hold for `sEx`, `histEx` (so `map_replay_total` yields a
run, and the other theorems describe it). -/
example : MapSet.WF sEx ∧ (∀ p ∈ histEx, p.InRange) ∧ sEx ≠ [] ∧ histEx.length = 4 := by
  decide +kernel

/-- … and the reference semantics is not trivial there: the last packet for map 9 is the
pixel-less one, for map 3 the third; cell (6, 8) of map 3 was 5, is written 5 by the first packet and
7 by the third; cell (7, 8) is written 6 and then 0; cell (127, 127) of the new map 9 gets 13; the
dict order is `[3, 9]`. -/
example :
    (lastPacket histEx 9).map (·.scale) = some 5 ∧ (lastPacket histEx 3).map (·.scale) = some 4 ∧
    lastPacket histEx 4 = none ∧ sEx.pixel 3 6 8 = some 5 ∧
    lastWrite histEx 3 6 8 = some 7 ∧ lastWrite histEx 3 7 8 = some 0 ∧
    lastWrite histEx 3 5 8 = some 4 ∧ lastWrite histEx 3 0 0 = none ∧
    lastWrite histEx 9 127 127 = some 13 ∧ lastWrite histEx 9 6 8 = none ∧
    refKeys histEx (sEx.map Prod.fst) = [3, 9] := by
  decide +kernel

/-- A model run (the last two packets of `histEx` on `sEx`) agrees with the reference values. -/
example :
    (match replayMaps (histEx.drop 2) sEx with
     | .ok s' => decide (s'.map Prod.fst = [3, 9] ∧ s'.pixel 3 6 8 = some 7 ∧
         s'.pixel 3 7 8 = some 0 ∧ s'.pixel 3 0 0 = some 0 ∧ s'.pixel 9 6 8 = some 0 ∧
         (dictGet 9 s').map (·.scale) = some (some 5) ∧
         (dictGet 3 s').map (·.isLocked) = some false)
     | .error _ => false) = true ∧
    lastWrite (histEx.drop 2) 3 6 8 = some 7 ∧ lastWrite (histEx.drop 2) 3 7 8 = some 0 := by
  decide +kernel

/-- `map_error_state` is not vacuous.  On `MapSet()`, `pktZero` raises; afterwards map 7 IS in the
set, with the packet's id, scale and icons and the fresh map's flags (tracking, not locked — not
the packet's).  On a known 4×3 map, `pktOut` raises at its third pixel; the first two are written
(flat indices 7 and 11), the map keeps the flags it had. -/
example :
    (applyToMapSetFx pktZero []).2 = some .other ∧
    (applyToMapSetFx pktZero []).1.map Prod.fst = [7] ∧
    (dictGet 7 (applyToMapSetFx pktZero []).1).map
        (fun m => (m.id, m.scale, m.icons, m.isTrackingPosition, m.isLocked)) =
      some (some 7, some 3, [⟨1, 2, 3, 4, none⟩], true, false) ∧
    applyToMapSetFx pktOut (MapSet.ofSizes [(7, 4, 3)]) =
      ([(7, { MapState.ofSize 7 4 3 with
                scale := some 6, icons := [⟨2, 2, 2, 2, none⟩],
                pixels := [0, 0, 0, 0, 0, 0, 0, 1, 0, 0, 0, 2] })], some .other) := by
  decide +kernel

/-- `InRange` is sufficient, not necessary, for a packet not to raise — and outside it the Python
does not raise either but writes elsewhere: a one-pixel patch at offset `(-1, 0)` lands in cell
(127, 127) (Python's negative index), one at offset `(128, 0)` lands in column 0 of row 1.  (Longer
versions of both are in the live scenarios.) -/
example :
    let neg : MapPacket := { pktRow1 with width := 1, offset := (-1, 0), pixels := some [7] }
    let spill : MapPacket := { pktRow1 with width := 1, offset := (128, 0), pixels := some [7] }
    ¬ neg.InRange ∧ ¬ spill.InRange ∧
    (match replayMaps [neg] [] with
     | .ok s' => decide (s'.pixel 1 127 127 = some 7)
     | .error _ => false) = true ∧
    (match replayMaps [spill] [] with
     | .ok s' => decide (s'.pixel 1 0 1 = some 7 ∧ s'.pixel 1 0 0 = some 0)
     | .error _ => false) = true := by
  decide +kernel

end PyCraft.C20Maps
