import PyCraft.Lemmas.C06DispatchTables
import PyCraft.Props.C06
import PyCraft.Props.C08
/-!
# C06Dispatch — "the decoder chosen is the class whose id it is, and the choice never depends on
set iteration order", stated about the REAL tables and the REAL reactors (audit rank 20)

Relative to `Props/C06.lean`:

* `dispatch_sound`, `dispatch_defined`, `dispatch_unique_at`, `dispatch_order_independent_at` need no
  global `Nodup`: they hold for every list of registered classes, collisions or not, id by id;
  `dispatch_any_winner` / `dispatch_order_dependent` show local uniqueness is also NECESSARY;
* `tables_names` / `tables_versions` / `tables_supported` / `supported_row_iff` / `domain_complete`
  pin the domain of `idTables` to 8 names × `knownProtocols`, flags = `supportedProtocols` (250);
* `collisions_exact` replaces the id-keyed K1 exclusion by the exact colliding CLASS SETS
  (`knownCollisionSets`); `known_collisions_real` shows each is real and makes the winner depend on
  the iteration order (a negative result with witnesses);
* `dispatch_on_tables` instantiates dispatch on every supported row of every table, including the
  non-colliding ids of the K1 rows;
* `reactor_binding`, `reactor_dicts`, `self_ids_agree` tie this to the running code: which table each
  reactor class of connection.py uses, that the dict its real `__init__` built at every supported
  version is an instance of the modelled comprehension over the tabulated row, and that the id
  `Packet.write` sends (`self.id`) is the tabulated `get_id(context)`.

Tables are regenerated from /repo on every run (`harness/extract.py`, `harness/gen/c06dispatch.py`).
-/
namespace PyCraft.C06Dispatch
open PyCraft PyCraft.Gen

/-! ### The comprehension, id by id, with no global hypothesis -/

/-- Soundness, unconditionally: whatever the iteration order `perm` of the registered classes, and
whether or not ids collide, the class the dict returns for id `i` is a registered class whose id is
`i`. -/
theorem dispatch_sound (ents perm : List (String × Int)) (hp : perm.Perm ents) (i : Int)
    (c : String) (h : dictGet (buildDict perm) i = some c) : (c, i) ∈ ents :=
  hp.mem_iff.mp (dictGet_buildDict_some h)

/-- `packet_id in self.clientbound_packets` (connection.py:706) holds exactly when some registered
class has that id — in every iteration order. -/
theorem dispatch_defined (ents perm : List (String × Int)) (hp : perm.Perm ents) (i : Int) :
    (dictGet (buildDict perm) i).isSome = true ↔ ∃ c, (c, i) ∈ ents := by
  rw [dictGet_buildDict_isSome]
  constructor
  · rintro ⟨c, hc⟩; exact ⟨c, hp.mem_iff.mp hc⟩
  · rintro ⟨c, hc⟩; exact ⟨c, hp.mem_iff.mpr hc⟩

/-- Local uniqueness suffices: if at most one registered class has id `i` (other ids may collide
freely), then in every iteration order the dict maps `i` to exactly the class whose id it is. -/
theorem dispatch_unique_at (ents perm : List (String × Int)) (hp : perm.Perm ents) (i : Int)
    (hu : (ents.filter fun e => e.2 == i).length ≤ 1) (c : String) :
    dictGet (buildDict perm) i = some c ↔ (c, i) ∈ ents := by
  constructor
  · exact dispatch_sound ents perm hp i c
  · intro h
    have hs := (dispatch_defined ents perm hp i).mpr ⟨c, h⟩
    cases hd : dictGet (buildDict perm) i with
    | none => simp [hd] at hs
    | some c' =>
      have h' := dispatch_sound ents perm hp i c' hd
      have := eq_of_mem_of_length_le_one hu (List.mem_filter.mpr ⟨h, by simp⟩)
        (List.mem_filter.mpr ⟨h', by simp⟩)
      simp only [Prod.mk.injEq, and_true] at this
      rw [this]

/-- … hence at such an id the decoder chosen does not depend on the set iteration order. -/
theorem dispatch_order_independent_at (ents p₁ p₂ : List (String × Int)) (h₁ : p₁.Perm ents)
    (h₂ : p₂.Perm ents) (i : Int) (hu : (ents.filter fun e => e.2 == i).length ≤ 1) :
    dictGet (buildDict p₁) i = dictGet (buildDict p₂) i := by
  cases hd : dictGet (buildDict p₂) i with
  | some c =>
    exact (dispatch_unique_at ents p₁ h₁ i hu c).mpr ((dispatch_unique_at ents p₂ h₂ i hu c).mp hd)
  | none =>
    cases hd1 : dictGet (buildDict p₁) i with
    | none => rfl
    | some c =>
      have := (dispatch_unique_at ents p₂ h₂ i hu c).mpr ((dispatch_unique_at ents p₁ h₁ i hu c).mp hd1)
      rw [hd] at this; cases this

/-- Every registered class with id `i` wins in some iteration order (the one that visits it last). -/
theorem dispatch_any_winner (ents : List (String × Int)) (i : Int) (c : String)
    (h : (c, i) ∈ ents) : ∃ perm, perm.Perm ents ∧ dictGet (buildDict perm) i = some c :=
  exists_perm_dictGet h

/-- Local uniqueness is necessary: as soon as two different classes share id `i`, two iteration
orders of the same set give two different decoders for `i`. -/
theorem dispatch_order_dependent (ents : List (String × Int)) (i : Int) (c₁ c₂ : String)
    (h₁ : (c₁, i) ∈ ents) (h₂ : (c₂, i) ∈ ents) (hne : c₁ ≠ c₂) :
    ∃ p₁ p₂, p₁.Perm ents ∧ p₂.Perm ents ∧
      dictGet (buildDict p₁) i ≠ dictGet (buildDict p₂) i := by
  obtain ⟨p₁, hp₁, hd₁⟩ := exists_perm_dictGet h₁
  obtain ⟨p₂, hp₂, hd₂⟩ := exists_perm_dictGet h₂
  refine ⟨p₁, p₂, hp₁, hp₂, ?_⟩
  rw [hd₁, hd₂]; intro h; exact hne (Option.some.inj h)

/-- What "being the comprehension's result for some iteration order" gives about a dict `d`: it
returns only classes whose id is the key; it has a key exactly for the ids some class carries; and
where one class carries the id, it returns that class. -/
theorem comprehension_spec (d : List (Int × String)) (ents : List (String × Int))
    (h : IsComprehensionOf d ents) :
    (∀ i c, dictGet d i = some c → (c, i) ∈ ents) ∧
    (∀ i, (dictGet d i).isSome = true ↔ ∃ c, (c, i) ∈ ents) ∧
    (∀ i, (ents.filter fun e => e.2 == i).length ≤ 1 →
      ∀ c, dictGet d i = some c ↔ (c, i) ∈ ents) := by
  obtain ⟨perm, hp, hd⟩ := h
  refine ⟨?_, ?_, ?_⟩
  · intro i c; rw [← hd]; exact dispatch_sound ents perm hp i c
  · intro i; rw [← hd]; exact dispatch_defined ents perm hp i
  · intro i hu c; rw [← hd]; exact dispatch_unique_at ents perm hp i hu c

/-! ### The domain of the tabulated id tables -/

/-- The tabulation has exactly the eight state/direction tables, in this order. -/
theorem tables_names : idTables.map (·.1) = tableNames := by
  simpa [checkNames] using checkNames_ok

/-- Every table has one row per KNOWN protocol version, in the order of the live
`KNOWN_PROTOCOL_VERSIONS`. -/
theorem tables_versions : ∀ t ∈ idTables, t.2.map (·.1) = liveTables.knownProtocols := by
  intro t ht
  have h := checkVersions_ok
  simp only [checkVersions, List.all_eq_true] at h
  simpa using h t ht

/-- In every table the rows flagged "supported" are, in order, exactly the live
`SUPPORTED_PROTOCOL_VERSIONS`. -/
theorem tables_supported :
    ∀ t ∈ idTables, (supportedRows t.2).map (·.1) = liveTables.supportedProtocols := by
  intro t ht
  have h := checkFlags_ok
  simp only [checkFlags, List.all_eq_true] at h
  simpa using h t ht

/-- A row is flagged "supported" exactly when its version is a supported protocol version. -/
theorem supported_row_iff :
    ∀ t ∈ idTables, ∀ r ∈ t.2, r.2.1 = true ↔ r.1 ∈ liveTables.supportedProtocols := by
  intro t ht r hr
  rw [← tables_supported t ht]
  constructor
  · intro hs
    obtain ⟨v, s, l⟩ := r
    simp only at hs; subst hs
    exact List.mem_map.mpr ⟨(v, l), mem_supportedRows.mpr hr, rfl⟩
  · intro hm
    obtain ⟨e, he, hev⟩ := List.mem_map.mp hm
    have he' := mem_supportedRows.mp he
    have hnd : (t.2.map (·.1)).Nodup := by
      rw [tables_versions t ht, ← C08.model_eq_live]; exact knownProtocols_nodup liveRecords
    have : r = (e.1, true, e.2) := eq_of_nodup_map (·.1) hnd hr he' hev.symm
    rw [this]

/-- The quantifier of the property: all 8 tables, and in each of them every one of the 250 supported
protocol versions has a row flagged supported. -/
theorem domain_complete :
    liveTables.supportedProtocols.length = 250 ∧
    ∀ n ∈ tableNames, ∃ t ∈ idTables, t.1 = n ∧
      ∀ v ∈ liveTables.supportedProtocols, ∃ r ∈ t.2, r.1 = v ∧ r.2.1 = true := by
  refine ⟨by decide +kernel, ?_⟩
  intro n hn
  rw [← tables_names] at hn
  obtain ⟨t, ht, rfl⟩ := List.mem_map.mp hn
  refine ⟨t, ht, rfl, ?_⟩
  intro v hv
  rw [← tables_supported t ht] at hv
  obtain ⟨e, he, rfl⟩ := List.mem_map.mp hv
  exact ⟨(e.1, true, e.2), mem_supportedRows.mp he, rfl, rfl⟩

/-! ### Collisions: exact class sets -/

/-- For every table, every supported version and EVERY id, at most one registered class carries the
id — unless (table, version, id) is one of the nine listed K1 collisions, and then the classes
carrying it are exactly the listed ones (a third class joining, or a different partner, breaks this). -/
theorem collisions_exact :
    ∀ t ∈ idTables, ∀ r ∈ t.2, r.2.1 = true → ∀ i : Int,
      (classesAtRow r.2.2 i).length ≤ 1 ∨
        (t.1, r.1, i, classesAtRow r.2.2 i) ∈ knownCollisionSets := by
  intro t ht r hr hs i
  have h := checkRows_ok
  simp only [checkRows, List.all_eq_true] at h
  have h2 := h t ht r hr
  simp only [hs, Bool.not_true, Bool.false_or] at h2
  exact rowOk_collisions h2 i

/-- Each listed collision is real, and really makes the decoder depend on the iteration order
(negative result with witnesses): on that supported row exactly the listed (≥ 2) classes carry the id;
every iteration order picks one of them; and each of them is picked by some iteration order. -/
theorem known_collisions_real :
    ∀ k ∈ knownCollisionSets, ∃ t ∈ idTables, t.1 = k.1 ∧ ∃ r ∈ t.2, r.1 = k.2.1 ∧ r.2.1 = true ∧
      ∃ ents, resolveRow r.2.2 = some ents ∧ classesAt ents k.2.2.1 = k.2.2.2 ∧
        2 ≤ k.2.2.2.length ∧
        (∀ perm, perm.Perm ents → ∃ c ∈ k.2.2.2, dictGet (buildDict perm) k.2.2.1 = some c) ∧
        (∀ c ∈ k.2.2.2, ∃ perm, perm.Perm ents ∧ dictGet (buildDict perm) k.2.2.1 = some c) := by
  intro k hk
  have h := checkKnownReal_ok
  simp only [checkKnownReal, List.all_eq_true] at h
  have hk' := h k hk
  cases hra : rowAt k.1 k.2.1 with
  | none => simp [hra] at hk'
  | some p =>
    obtain ⟨s, row⟩ := p
    cases s with
    | false => simp [hra] at hk'
    | true =>
      simp only [hra, Bool.and_eq_true, beq_iff_eq, decide_eq_true_eq] at hk'
      obtain ⟨t, ht, htn, hmem⟩ := lookup2_mem hra
      have hrows := checkRows_ok
      simp only [checkRows, List.all_eq_true] at hrows
      have hrow := hrows t ht _ hmem
      simp only [Bool.not_true, Bool.false_or] at hrow
      obtain ⟨ents, hents⟩ := rowOk_resolves hrow
      have hcl : classesAt ents k.2.2.1 = k.2.2.2 := by
        rw [← classesAtRow_of_resolveRow hents]; exact hk'.1
      refine ⟨t, ht, htn, _, hmem, rfl, rfl, ents, hents, hcl, hk'.2, ?_, ?_⟩
      · intro perm hp
        have hne : ∃ c, c ∈ k.2.2.2 := by
          match hq : k.2.2.2, hk'.2 with
          | c :: _, _ => exact ⟨c, by simp⟩
        obtain ⟨c0, hc0⟩ := hne
        rw [← hcl] at hc0
        have hs := (dispatch_defined ents perm hp k.2.2.1).mpr ⟨c0, mem_classesAt.mp hc0⟩
        cases hd : dictGet (buildDict perm) k.2.2.1 with
        | none => simp [hd] at hs
        | some c =>
          refine ⟨c, ?_, rfl⟩
          rw [← hcl]
          exact mem_classesAt.mpr (dispatch_sound ents perm hp _ c hd)
      · intro c hc
        rw [← hcl] at hc
        exact exists_perm_dictGet (mem_classesAt.mp hc)

/-- The new list refines the id-keyed list of `Props/C06.lean` (same keys, same order). -/
theorem collision_keys_agree :
    knownCollisionSets.map (fun k => (k.1, k.2.1, k.2.2.1)) = C06.knownCollisions := by
  decide +kernel

/-! ### Dispatch on the real tables -/

/-- Dispatch on the real tables, no `Nodup`, K1 rows included.  For every table and every supported
version, the row resolves to non-negative integer ids (so the reactor's constructor does not raise),
and for EVERY iteration order `perm` of the registered classes, every id `i` and class `c`:
the dict built by the comprehension returns only a class registered with id `i`; and unless
(table, version, `i`) is a listed collision it returns `c` exactly when `c` is the class registered
with id `i`. -/
theorem dispatch_on_tables :
    ∀ t ∈ idTables, ∀ r ∈ t.2, r.2.1 = true →
      ∃ ents, resolveRow r.2.2 = some ents ∧ (∀ e ∈ ents, 0 ≤ e.2) ∧
        ∀ perm, perm.Perm ents → ∀ (i : Int) (c : String),
          (dictGet (buildDict perm) i = some c → (c, some i) ∈ r.2.2) ∧
          ((∀ cs, (t.1, r.1, i, cs) ∉ knownCollisionSets) →
            (dictGet (buildDict perm) i = some c ↔ (c, some i) ∈ r.2.2)) := by
  intro t ht r hr hs
  have h := checkRows_ok
  simp only [checkRows, List.all_eq_true] at h
  have h2 := h t ht r hr
  simp only [hs, Bool.not_true, Bool.false_or] at h2
  obtain ⟨ents, hents⟩ := rowOk_resolves h2
  refine ⟨ents, hents, ?_, ?_⟩
  · intro e he
    exact rowOk_nonneg h2 ((mem_of_resolveRow hents e.1 e.2).mp he)
  · intro perm hp i c
    refine ⟨fun hd => (mem_of_resolveRow hents c i).mp (dispatch_sound ents perm hp i c hd), ?_⟩
    intro hnot
    rw [← mem_of_resolveRow hents c i]
    apply dispatch_unique_at ents perm hp i
    rcases rowOk_collisions h2 i with hle | hin
    · rw [classesAtRow_of_resolveRow hents] at hle
      simpa [classesAt] using hle
    · exact absurd hin (hnot _)

/-! ### The running reactors -/

/-- Which table each reactor class of connection.py decodes with (by identity of the live
`get_clientbound_packets` function): handshake → `PacketReactor`, login → `LoginReactor`, play →
`PlayingReactor`, status → `StatusReactor` and `PlayingStatusReactor`; and these five are all the
reactor classes. -/
theorem reactor_binding :
    reactorBinding = expectedBinding ∧ reactorDicts.map (·.1) = reactorBinding.map (·.1) :=
  ⟨by simpa using binding_ok, by simpa using reactorNames_ok⟩

/-- The dicts the REAL `PacketReactor.__init__` built.  For every reactor class: it is bound to one
of the eight tables; a dict was recorded for every supported version; and every recorded entry
(version, outcome) belongs to a supported row of that table with the same version, the constructor did
not raise, and the dict it built agrees — as a map id → class — with the modelled comprehension over
the classes of that row in SOME iteration order.  (`comprehension_spec` then gives soundness,
definedness and — via `collisions_exact` — exactness at every non-colliding id.) -/
theorem reactor_dicts :
    ∀ rd ∈ reactorDicts, ∃ b ∈ reactorBinding, b.1 = rd.1 ∧ ∃ t ∈ idTables, t.1 = b.2 ∧
      (∀ v ∈ liveTables.supportedProtocols, ∃ od, (v, od) ∈ expandGroups rd.2) ∧
      ∀ e ∈ expandGroups rd.2, ∃ row, (e.1, true, row) ∈ t.2 ∧
        ∃ ents d, resolveRow row = some ents ∧ e.2 = some d ∧ IsComprehensionOf d ents := by
  intro rd hrd
  have h := checkReactors_ok
  simp only [checkReactors, List.all_eq_true] at h
  have h1 := h rd hrd
  cases hb : reactorBinding.find? (fun b => b.1 == rd.1) with
  | none => simp [hb] at h1
  | some b =>
    simp only [hb] at h1
    cases htf : idTables.find? (fun t => t.1 == b.2) with
    | none => simp [htf] at h1
    | some t =>
      simp only [htf] at h1
      have ht := List.mem_of_find?_eq_some htf
      refine ⟨b, List.mem_of_find?_eq_some hb, by simpa using List.find?_some hb, t, ht,
        by simpa using List.find?_some htf, ?_, ?_⟩
      · intro v hv
        rw [← tables_supported t ht] at hv
        obtain ⟨r, hr, rfl⟩ := List.mem_map.mp hv
        obtain ⟨e, he, hp⟩ := zipAll_left h1 r hr
        simp only [dictRowOk, Bool.and_eq_true, beq_iff_eq] at hp
        refine ⟨e.2, ?_⟩
        rw [hp.1]; exact he
      · intro e he
        obtain ⟨r, hr, hp⟩ := zipAll_right h1 e he
        simp only [dictRowOk, Bool.and_eq_true, beq_iff_eq] at hp
        obtain ⟨hv, hm⟩ := hp
        refine ⟨r.2, ?_, ?_⟩
        · rw [← hv]; exact mem_supportedRows.mp hr
        · cases hres : resolveRow r.2 with
          | none => simp [hres] at hm
          | some ents =>
            cases hd : e.2 with
            | none => simp [hres, hd] at hm
            | some d =>
              simp only [hres, hd] at hm
              exact ⟨ents, d, rfl, rfl, dictOk_realised hm⟩

/-- The id `Packet.write` puts on the wire (`self.id`, the `overridable_property` of packet.py:23-25,
read as `cls(context=ctx).id`) is, for every table, every supported version and every registered
class, the tabulated `cls.get_id(ctx)`: the two tabulations coincide. -/
theorem self_ids_agree :
    (selfIds.map fun s => (s.1, expandGroups s.2)) =
      (idTables.map fun t => (t.1, supportedRows t.2)) := by
  simpa [checkSelf] using checkSelf_ok

/-! ### Non-vacuity -/

-- `dispatch_unique_at` applies where the old `dispatch_unique` (global Nodup) does not
example : ((([("A", 1), ("B", 1), ("C", 2)] : List (String × Int)).filter fun e => e.2 == 2).length ≤ 1) ∧
    ¬ (([("A", 1), ("B", 1), ("C", 2)] : List (String × Int)).map (·.2)).Nodup := by decide
example : dictGet (buildDict [("A", 1), ("C", 2), ("B", 1)]) 2 = some "C" ∧
    dictGet (buildDict [("A", 1), ("C", 2), ("B", 1)]) 1 = some "B" ∧
    dictGet (buildDict [("B", 1), ("C", 2), ("A", 1)]) 1 = some "A" := by decide +kernel

-- the supported row 757 of the clientbound play table is non-trivial and resolves
example : (match rowAt "cbPlay" 757 with
    | some (true, row) =>
      match resolveRow row with | some ents => decide (20 ≤ ents.length) | none => false
    | _ => false) = true := by decide +kernel

-- K1 row 389: the hypothesis "not a listed collision" of `dispatch_on_tables` holds at id 0x0E and
-- fails exactly at 0x4A
example : (∀ cs, ("cbPlay", 389, (0x0E : Int), cs) ∉ knownCollisionSets) := by
  intro cs h
  simp [knownCollisionSets] at h
example : ("cbPlay", 389, (0x4A : Int), ["PlayerListHeaderAndFooterPacket", "TimeUpdatePacket"]) ∈
    knownCollisionSets := by decide

-- the live PlayingReactor dict at 757 has more than 20 keys; at the K1 version 389 its entry for
-- 0x4A is one of the two listed classes (which one depends on the run)
example : (match liveDict "PlayingReactor" 757 with
    | some (some d) => decide (20 ≤ d.length) | _ => false) = true := by decide +kernel
example : (match liveDict "PlayingReactor" 389 with
    | some (some d) => ["PlayerListHeaderAndFooterPacket", "TimeUpdatePacket"].any
        fun c => dictGet d 0x4A == some c
    | _ => false) = true := by decide +kernel
example : reactorDicts.all (fun rd => (expandGroups rd.2).length == 250) = true := by
  decide +kernel

/-! ### The changes the reviewer describes are refuted (and passed the old theorems) -/

/-- row `v` of the clientbound play table, `[]` if absent -/
private def playRow (v : Nat) : List IdEnt :=
  match rowAt "cbPlay" v with | some (_, row) => row | none => []

-- (a) a third class joins 0x4A on 389: the old id-keyed check `entsInjExcept (knownFor …)` passes,
-- the new per-row check fails
example : entsInjExcept (C06.knownFor "cbPlay" 389) (playRow 389 ++ [("ZPacket", some 0x4A)]) = true ∧
    rowOk "cbPlay" 389 (playRow 389 ++ [("ZPacket", some 0x4A)]) = false ∧
    rowOk "cbPlay" 389 (playRow 389) = true := by decide +kernel

/-- (b) on 317, ChatMessagePacket collides at 0x10 with a DIFFERENT partner (BlockChangePacket moved
onto 0x10, MultiBlockChangePacket moved away to the unused 0x7E) -/
private def row317' : List IdEnt :=
  (playRow 317).map fun e =>
    if e.1 == "MultiBlockChangePacket" then (e.1, some 0x7E)
    else if e.1 == "BlockChangePacket" then (e.1, some 0x10) else e

example : entsInjExcept (C06.knownFor "cbPlay" 317) row317' = true ∧
    classesAtRow row317' 0x10 = ["BlockChangePacket", "ChatMessagePacket"] ∧
    rowOk "cbPlay" 317 row317' = false ∧ rowOk "cbPlay" 317 (playRow 317) = true := by
  decide +kernel

-- (c) the reactor ↔ table binding: a constructor that ignored `self.__class__` and always used the
-- play table (or a LoginReactor bound to `clientbound.play.get_packets`) would hand LoginReactor the
-- play dict; against the login row of the same version this is rejected
example : (match liveDict "PlayingReactor" 757, rowAt "cbLogin" 757 with
    | some (some d), some (true, row) => dictRowOk (757, row) (757, some d)
    | _, _ => true) = false := by decide +kernel
-- (d) keys computed with a stale context (e.g. the ids of version 756 used at 757)
example : (match liveDict "PlayingReactor" 756, rowAt "cbPlay" 757 with
    | some (some d), some (true, row) => dictRowOk (757, row) (757, some d)
    | _, _ => true) = false := by decide +kernel
-- (e) a dict that dropped a registered class, or maps a key to a class with another id
example : dictOk [(1, "A")] [("A", 1), ("B", 2)] = false ∧
    dictOk [(1, "A"), (2, "A")] [("A", 1), ("B", 2)] = false ∧
    dictOk [(1, "A"), (2, "B")] [("A", 1), ("B", 2)] = true := by decide +kernel

end PyCraft.C06Dispatch
