import PyCraft.Lemmas.VarIntDec
/-!
# C03 — VarInt/VarLong decoding is bounded and encoding terminates and is canonical

Only property theorems and non-vacuity examples live here; helper lemmas are in `Lemmas/`.
`mx = 5` is `VarInt`, `mx = 10` is `VarLong` (the reader's `max_bytes`); every statement is for all
`mx`.
-/
namespace PyCraft.C03
open PyCraft

/-- Round trip: for every `n` below the reader's bound, decoding the encoding followed by any other
bytes returns `n` and leaves exactly those other bytes. -/
theorem dec_enc (mx n : Nat) (rest : Bytes) (h : n < 2 ^ (7 * (mx + 1))) :
    decVarInt mx (encVarInt n ++ rest) = .ok (n, rest) := by
  have := dec_enc_aux mx n 0 0 rest (by simp) (by simpa using h) (by omega)
  simpa [decVarInt] using this

/-- … in particular on the property's ranges `[0, 2^32)` for VarInt and `[0, 2^64)` for VarLong. -/
theorem dec_enc_varint (n : Nat) (rest : Bytes) (h : n < 2 ^ 32) :
    decVarInt 5 (encVarInt n ++ rest) = .ok (n, rest) :=
  dec_enc 5 n rest (Nat.lt_of_lt_of_le h (Nat.pow_le_pow_right (by omega) (by omega)))

theorem dec_enc_varlong (n : Nat) (rest : Bytes) (h : n < 2 ^ 64) :
    decVarInt 10 (encVarInt n ++ rest) = .ok (n, rest) :=
  dec_enc 10 n rest (Nat.lt_of_lt_of_le h (Nat.pow_le_pow_right (by omega) (by omega)))

/-- Bounded decoding: on ANY byte string the reader issues at most `mx + 1` one-byte reads (one
more than the nominal maximum), and at most one read beyond the bytes that exist. -/
theorem dec_reads_le (mx : Nat) (bs : Bytes) :
    decVarIntReads mx 0 bs ≤ mx + 1 ∧ decVarIntReads mx 0 bs ≤ bs.length + 1 := by
  have := reads_le mx bs 0 (by omega); omega

/-- The only failures are end-of-stream and over-long encoding. -/
theorem dec_error_kinds (mx : Nat) (bs : Bytes) (e : Err) (h : decVarInt mx bs = .error e) :
    e = .eof ∨ e = .tooLong := dec_err mx bs 0 0 e h

/-- A successful decode consumed exactly a run of continuation bytes plus ONE terminator — it does
not read past the terminating byte: the remainder is returned untouched, the result is independent
of it, the number of bytes inspected is the length of that prefix, and the value is the base-128
value of the prefix (a natural number, hence non-negative). -/
theorem dec_ok (mx : Nat) (bs : Bytes) (v : Nat) (rest : Bytes)
    (h : decVarInt mx bs = .ok (v, rest)) :
    ∃ pre last, bs = pre ++ last :: rest ∧ pre.length + 1 ≤ mx + 1 ∧
      (∀ b ∈ pre, 128 ≤ b.toNat) ∧ last.toNat < 128 ∧
      decVarIntReads mx 0 bs = pre.length + 1 ∧
      v = leValue (pre ++ [last]) ∧
      (∀ rest', decVarInt mx (pre ++ last :: rest') = .ok (v, rest')) := by
  obtain ⟨pre, last, h1, h2, h3, h4, h5, h6, h7⟩ :=
    dec_ok_shape mx bs 0 0 v rest (by simp) (by omega) h
  exact ⟨pre, last, h1, by omega, h3, h4, h5, by simpa using h6, h7⟩

/-- Canonical form: the encoding of `n` is non-empty, every byte but the last carries the
continuation bit, the last does not, no trailing zero group, and its base-128 value is `n`. -/
theorem enc_canonical (n : Nat) : Canonical (encVarInt n) ∧ leValue (encVarInt n) = n :=
  ⟨enc_canonical_aux n, leValue_enc n⟩

/-- … and it is the ONLY such string: any canonical string is the encoding of its value. -/
theorem enc_canonical_unique (l : Bytes) (h : Canonical l) : encVarInt (leValue l) = l :=
  enc_unique l h

/-- The size table agrees with the encoder wherever the table is defined (`n < 2^84`), in
particular on `[0, 2^32)` and `[0, 2^64)`. -/
theorem enc_length_eq_size (n : Nat) (h : n < 2 ^ 84) :
    varintSize (n : Int) = .ok (encVarInt n).length := by
  obtain ⟨k, h1, h2, h3, h4⟩ := bucket_exists n h
  rw [size_bucket n k h1 h2 h3 h4, enc_length n k h1 h3 h4]

/-- Above the table `size` raises (it does not return a wrong number). -/
theorem size_too_large (n : Nat) (h : 2 ^ 84 ≤ n) : varintSize (n : Int) = .error .value :=
  size_big n h

/-- Encoding any Python integer terminates: `encVarIntZ` is a total function (its termination is
checked by Lean); it yields bytes for `v ≥ 0` and `ValueError` for `v < 0`. -/
theorem encZ_total (v : Int) :
    (0 ≤ v ∧ encVarIntZ v = .ok (encVarInt v.toNat)) ∨ (v < 0 ∧ encVarIntZ v = .error .value) := by
  unfold encVarIntZ
  by_cases h : v < 0
  · right; simp [h]
  · left; simp [h]; omega

-- non-vacuity: concrete instances of the hypotheses
example : decVarInt 5 (encVarInt 300 ++ [7]) = .ok (300, [7]) := dec_enc 5 300 [7] (by omega)
example : decVarInt 5 [0xff, 0xff, 0xff, 0xff, 0xff, 0xff, 0x01] = .error .tooLong := by decide
example : decVarInt 5 [0xff, 0xff] = .error .eof := by decide
example : Canonical [0xac, 0x02] ∧ leValue [0xac, 0x02] = 300 := by simp [Canonical, leValue]
example : varintSize 300 = .ok 2 := by decide

end PyCraft.C03
