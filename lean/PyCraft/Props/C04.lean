import PyCraft.Lemmas.Position
import PyCraft.Generated.PosLayout
/-!
# C04 — Block positions use the 26/12/26-bit packing of the connection's protocol

Only property theorems and non-vacuity examples live here; helper lemmas are in
`Lemmas/Position.lean`.  `newer` is `context.protocol_later_eq(443)` (x | z | y layout),
`v741` is `context.protocol_later_eq(741)` (one-VarLong record format).  `%` on `Int` is the floor
modulus (result in `[0, 2^k)`), which is what Python's `&` with the mask `2^k - 1` computes.
-/
namespace PyCraft.C04
open PyCraft

/-- `Position` round trip.  For every coordinate triple in the 26/12/26-bit signed ranges and either
layout, the encoder succeeds with exactly 8 bytes, and decoding those bytes followed by arbitrary
other bytes returns the same signed coordinates and leaves exactly the other bytes. -/
theorem pos_rt (newer : Bool) (x y z : Int) (rest : Bytes)
    (hx1 : -2 ^ 25 ≤ x) (hx2 : x < 2 ^ 25) (hy1 : -2 ^ 11 ≤ y) (hy2 : y < 2 ^ 11)
    (hz1 : -2 ^ 25 ≤ z) (hz2 : z < 2 ^ 25) :
    ∃ w, encPos newer x y z = .ok w ∧ w.length = 8 ∧
      decPos newer (w ++ rest) = .ok ((x, y, z), rest) :=
  ⟨_, Pos.encPos_eq newer x y z, Pos.beU64_length _,
    Pos.decPos_posWord newer x y z rest hx1 hx2 hy1 hy2 hz1 hz2⟩

/-- `Position` layout.  For ALL integers `x y z` (the encoder masks, so it never fails) the encoder
emits 8 bytes whose big-endian value is below `2^64` and equals
`(x mod 2^26)·2^38 + (z mod 2^26)·2^12 + (y mod 2^12)` for the newer layout (x, then z, then y) and
`(x mod 2^26)·2^38 + (y mod 2^12)·2^26 + (z mod 2^26)` for the older one (x, then y, then z).
Stated with `%`, `*`, `+` only. -/
theorem pos_layout (newer : Bool) (x y z : Int) :
    ∃ w, encPos newer x y z = .ok w ∧ w.length = 8 ∧ Pos.beValue w < 2 ^ 64 ∧
      (Pos.beValue w : Int) =
        if newer then (x % 2 ^ 26) * 2 ^ 38 + (z % 2 ^ 26) * 2 ^ 12 + y % 2 ^ 12
        else (x % 2 ^ 26) * 2 ^ 38 + (y % 2 ^ 12) * 2 ^ 26 + z % 2 ^ 26 := by
  refine ⟨_, Pos.encPos_eq newer x y z, Pos.beU64_length _, ?_, ?_⟩
  · rw [Pos.beValue_beU64 _ (Pos.posWord_lt newer x y z)]; exact Pos.posWord_lt newer x y z
  · rw [Pos.beValue_beU64 _ (Pos.posWord_lt newer x y z)]; exact Pos.posWord_int newer x y z

/-- `Position` decoding is total on 8 bytes and is also a left inverse: ANY 8 bytes (followed by
anything) decode to coordinates inside the signed 26/12/26-bit ranges, the remainder is returned
untouched, and re-encoding those coordinates reproduces the same 8 bytes.  So every 64-bit word is
the encoding of exactly one in-range position. -/
theorem pos_dec_total (newer : Bool) (w rest : Bytes) (hw : w.length = 8) :
    ∃ x y z : Int, decPos newer (w ++ rest) = .ok ((x, y, z), rest) ∧
      -2 ^ 25 ≤ x ∧ x < 2 ^ 25 ∧ -2 ^ 11 ≤ y ∧ y < 2 ^ 11 ∧ -2 ^ 25 ≤ z ∧ z < 2 ^ 25 ∧
      encPos newer x y z = .ok w := by
  have hn := Pos.beValue_lt w hw
  have hy : (if newer then Pos.beValue w % 2 ^ 12 else Pos.beValue w / 2 ^ 26 % 2 ^ 12) < 2 ^ 12 := by
    split <;> omega
  have hz : (if newer then Pos.beValue w / 2 ^ 12 % 2 ^ 26 else Pos.beValue w % 2 ^ 26) < 2 ^ 26 := by
    split <;> omega
  have sx := Pos.signFix26 (Pos.beValue w / 2 ^ 38) (by omega)
  have sy := Pos.signFix12 _ hy
  have sz := Pos.signFix26 _ hz
  refine ⟨_, _, _, Pos.decPos_arith newer _ _ rest (Pos.readU64_append w rest hw),
    sx.1, sx.2.1, sy.1, sy.2.1, sz.1, sz.2.1, ?_⟩
  rw [Pos.encPos_eq, Pos.posWord_of_fields newer _ hn, Pos.beU64_beValue w hw]

/-- Fewer than 8 bytes: `struct.error` (never a wrong position). -/
theorem pos_dec_short (newer : Bool) (bs : Bytes) (h : bs.length < 8) :
    decPos newer bs = .error .struct := by
  simp only [decPos, Pos.readU64_short bs h]

/-- `ChunkSectionPos` (22/22/20 bits) round trip: for `x, z ∈ [-2^21, 2^21)`, `y ∈ [-2^19, 2^19)`
the encoder emits 8 bytes and the decoder returns the same signed triple, consuming exactly them. -/
theorem section_rt (x y z : Int) (rest : Bytes)
    (hx1 : -2 ^ 21 ≤ x) (hx2 : x < 2 ^ 21) (hy1 : -2 ^ 19 ≤ y) (hy2 : y < 2 ^ 19)
    (hz1 : -2 ^ 21 ≤ z) (hz2 : z < 2 ^ 21) :
    ∃ w, encSecPos x y z = .ok w ∧ w.length = 8 ∧
      decSecPos (w ++ rest) = .ok ((x, y, z), rest) :=
  ⟨_, Pos.encSecPos_eq x y z, Pos.beU64_length _, Pos.decSecPos_secWord x y z rest hx1 hx2 hy1 hy2 hz1 hz2⟩

/-- `ChunkSectionPos` layout, for all integers: x in the top 22 bits, then z (22 bits), then y
(20 bits); the word is below `2^64`. -/
theorem section_layout (x y z : Int) :
    ∃ w, encSecPos x y z = .ok w ∧ w.length = 8 ∧ Pos.beValue w < 2 ^ 64 ∧
      (Pos.beValue w : Int) = (x % 2 ^ 22) * 2 ^ 42 + (z % 2 ^ 22) * 2 ^ 20 + y % 2 ^ 20 := by
  refine ⟨_, Pos.encSecPos_eq x y z, Pos.beU64_length _, ?_, ?_⟩
  · rw [Pos.beValue_beU64 _ (Pos.secWord_lt x y z)]; exact Pos.secWord_lt x y z
  · rw [Pos.beValue_beU64 _ (Pos.secWord_lt x y z)]; exact Pos.secWord_int x y z

/-- `ChunkSectionPos` decoding is total on 8 bytes, lands in the signed ranges, and re-encoding gives
the same 8 bytes back. -/
theorem section_dec_total (w rest : Bytes) (hw : w.length = 8) :
    ∃ x y z : Int, decSecPos (w ++ rest) = .ok ((x, y, z), rest) ∧
      -2 ^ 21 ≤ x ∧ x < 2 ^ 21 ∧ -2 ^ 19 ≤ y ∧ y < 2 ^ 19 ∧ -2 ^ 21 ≤ z ∧ z < 2 ^ 21 ∧
      encSecPos x y z = .ok w := by
  have hn := Pos.beValue_lt w hw
  have sx := Pos.secFix22 (Pos.beValue w / 2 ^ 20 / 2 ^ 22)
  have sy := Pos.secFix20 (Pos.beValue w)
  have sz := Pos.secFix22 (Pos.beValue w / 2 ^ 20)
  refine ⟨_, _, _, Pos.decSecPos_arith _ _ rest hn (Pos.readU64_append w rest hw),
    sx.1, sx.2.1, sy.1, sy.2.1, sz.1, sz.2.1, ?_⟩
  rw [Pos.encSecPos_eq, Pos.secWord_of_fields _ hn, Pos.beU64_beValue w hw]

/-- Multi-block-change record, format of protocol ≥ 741 (one VarLong
`block_state_id << 12 | x << 8 | z << 4 | y`): for `x, y, z ∈ [0, 16)` and
`0 ≤ block_state_id < 2^65` the round trip is exact and consumes exactly the record.  The bound
`2^65` is what keeps the VarLong below `2^77`, the largest value the reader (`max_bytes = 10`,
which in fact lets 11 bytes through, see C03) accepts; the writer itself has no upper bound. -/
theorem record_rt_new (x y z b : Int) (rest : Bytes)
    (hx1 : 0 ≤ x) (hx2 : x < 16) (hy1 : 0 ≤ y) (hy2 : y < 16) (hz1 : 0 ≤ z) (hz2 : z < 16)
    (hb1 : 0 ≤ b) (hb2 : b < 2 ^ 65) :
    ∃ w, encRecord true x y z b = .ok w ∧
      decRecord true (w ++ rest) = .ok ((x, y, z, b), rest) := by
  obtain ⟨x, rfl⟩ := Int.eq_ofNat_of_zero_le hx1
  obtain ⟨y, rfl⟩ := Int.eq_ofNat_of_zero_le hy1
  obtain ⟨z, rfl⟩ := Int.eq_ofNat_of_zero_le hz1
  obtain ⟨b, rfl⟩ := Int.eq_ofNat_of_zero_le hb1
  exact ⟨_, Pos.encRecord_new x y z b (by omega) (by omega) (by omega),
    Pos.decRecord_new x y z b rest (by omega) (by omega) (by omega) (by omega)⟩

/-- Multi-block-change record, format before protocol 741 (byte `x << 4 | z`, byte `y`, VarInt
`block_state_id`): for `x, z ∈ [0, 16)`, `y ∈ [0, 256)` and `0 ≤ block_state_id < 2^42` the round
trip is exact and consumes exactly the record.  `2^42` is the reader's bound (`max_bytes = 5`
lets 6 bytes through); the writer has no upper bound. -/
theorem record_rt_old (x y z b : Int) (rest : Bytes)
    (hx1 : 0 ≤ x) (hx2 : x < 16) (hy1 : 0 ≤ y) (hy2 : y < 256) (hz1 : 0 ≤ z) (hz2 : z < 16)
    (hb1 : 0 ≤ b) (hb2 : b < 2 ^ 42) :
    ∃ w, encRecord false x y z b = .ok w ∧
      decRecord false (w ++ rest) = .ok ((x, y, z, b), rest) := by
  obtain ⟨x, rfl⟩ := Int.eq_ofNat_of_zero_le hx1
  obtain ⟨y, rfl⟩ := Int.eq_ofNat_of_zero_le hy1
  obtain ⟨z, rfl⟩ := Int.eq_ofNat_of_zero_le hz1
  obtain ⟨b, rfl⟩ := Int.eq_ofNat_of_zero_le hb1
  exact ⟨_, Pos.encRecord_old x y z b (by omega) (by omega) (by omega),
    Pos.decRecord_old x y z b rest (by omega) (by omega) (by omega) (by omega)⟩

/-- Both record formats at once: `x, z ∈ [0, 16)`; `y ∈ [0, 16)` (new) or `[0, 256)` (old);
`block_state_id ∈ [0, 2^65)` (new, VarLong) or `[0, 2^42)` (old, VarInt). -/
theorem record_rt (v741 : Bool) (x y z b : Int) (rest : Bytes)
    (hx1 : 0 ≤ x) (hx2 : x < 16) (hy1 : 0 ≤ y) (hy2 : y < if v741 then 16 else 256)
    (hz1 : 0 ≤ z) (hz2 : z < 16) (hb1 : 0 ≤ b) (hb2 : b < if v741 then 2 ^ 65 else 2 ^ 42) :
    ∃ w, encRecord v741 x y z b = .ok w ∧
      decRecord v741 (w ++ rest) = .ok ((x, y, z, b), rest) := by
  cases v741
  · exact record_rt_old x y z b rest hx1 hx2 hy1 (by simpa using hy2) hz1 hz2 hb1
      (by simpa using hb2)
  · exact record_rt_new x y z b rest hx1 hx2 hy1 (by simpa using hy2) hz1 hz2 hb1
      (by simpa using hb2)

/-! ### non-vacuity: concrete values -/

example : encPos true (-1) (-1) (-1) = .ok [0xff, 0xff, 0xff, 0xff, 0xff, 0xff, 0xff, 0xff] := by
  decide +kernel
example : decPos false ([0xff, 0xff, 0xff, 0xff, 0xff, 0xff, 0xff, 0xff] ++ [1, 2])
    = .ok ((-1, -1, -1), [1, 2]) := by decide +kernel
-- the extreme corner (2^25-1, -2^11, -2^25), both layouts (words 0x7FFFFFE000000800 and
-- 0x7FFFFFE002000000)
example : encPos true (2 ^ 25 - 1) (-2 ^ 11) (-2 ^ 25)
    = .ok [0x7f, 0xff, 0xff, 0xe0, 0x00, 0x00, 0x08, 0x00] := by decide +kernel
example : encPos false (2 ^ 25 - 1) (-2 ^ 11) (-2 ^ 25)
    = .ok [0x7f, 0xff, 0xff, 0xe0, 0x02, 0x00, 0x00, 0x00] := by decide +kernel
example : decPos true [0x7f, 0xff, 0xff, 0xe0, 0x00, 0x00, 0x08, 0x00, 0x2a]
    = .ok ((2 ^ 25 - 1, -2 ^ 11, -2 ^ 25), [0x2a]) := by decide +kernel
example : ∃ w, encPos true (2 ^ 25 - 1) (-2 ^ 11) (-2 ^ 25) = .ok w ∧ w.length = 8 ∧
    decPos true (w ++ [7]) = .ok ((2 ^ 25 - 1, -2 ^ 11, -2 ^ 25), [7]) :=
  pos_rt true (2 ^ 25 - 1) (-2 ^ 11) (-2 ^ 25) [7] (by omega) (by omega) (by omega) (by omega)
    (by omega) (by omega)
-- the two layouts really differ
example : encPos true 1 2 3 ≠ encPos false 1 2 3 := by decide +kernel
-- outside the range the encoder wraps (masks) instead of failing: 2^25 comes back as -2^25
example : encPos true (2 ^ 25) 0 0 = encPos true (-2 ^ 25) 0 0 := by decide +kernel
example : decPos true [1, 2, 3] = .error .struct := pos_dec_short true _ (by decide)
-- chunk-section positions
example : encSecPos (-1) (-1) (-1) = .ok [0xff, 0xff, 0xff, 0xff, 0xff, 0xff, 0xff, 0xff] := by
  decide +kernel
example : decSecPos [0x7f, 0xff, 0xfe, 0x00, 0x00, 0x08, 0x00, 0x00, 9]
    = .ok ((2 ^ 21 - 1, -2 ^ 19, -2 ^ 21), [9]) := by decide +kernel
example : ∃ w, encSecPos (2 ^ 21 - 1) (-2 ^ 19) (-2 ^ 21) = .ok w ∧ w.length = 8 ∧
    decSecPos (w ++ [9]) = .ok ((2 ^ 21 - 1, -2 ^ 19, -2 ^ 21), [9]) :=
  section_rt _ _ _ [9] (by omega) (by omega) (by omega) (by omega) (by omega) (by omega)
-- records
example : encRecord true 1 2 3 5 = .ok [0xb2, 0xa2, 0x01] := by decide +kernel
example : decRecord true [0xb2, 0xa2, 0x01, 0x77] = .ok ((1, 2, 3, 5), [0x77]) := by decide +kernel
example : encRecord false 1 200 3 300 = .ok [0x13, 0xc8, 0xac, 0x02] := by decide +kernel
example : decRecord false [0x13, 0xc8, 0xac, 0x02, 0x77] = .ok ((1, 200, 3, 300), [0x77]) := by
  decide +kernel
example : ∃ w, encRecord true 15 15 15 (2 ^ 65 - 1) = .ok w ∧
    decRecord true (w ++ [1]) = .ok ((15, 15, 15, 2 ^ 65 - 1), [1]) :=
  record_rt true 15 15 15 (2 ^ 65 - 1) [1] (by omega) (by omega) (by omega) (by simp)
    (by omega) (by omega) (by omega) (by simp)
-- failures are kept: negative block state id, unmasked old-format x, old-format y > 255
example : encRecord true 0 0 0 (-1) = .error .value := by decide +kernel
example : encRecord false 16 0 0 0 = .error .struct := by decide +kernel
example : encRecord false 0 256 0 0 = .error .struct := by decide +kernel
-- ... while the masked fields wrap silently
example : encRecord false 0 0 16 0 = encRecord false 0 0 0 0 := by decide +kernel
example : encRecord true 16 17 18 0 = encRecord true 0 1 2 0 := by decide +kernel

end PyCraft.C04

/-! ## Which layout each protocol version uses (tabulated from the live codec)

`PyCraft.Gen.posLayout` is regenerated on every run by probing the real `Position.send_with_context`
under every known protocol version (369), listed in chronological (`KNOWN_PROTOCOL_VERSIONS`) order. -/
namespace PyCraft.C04
open PyCraft.Gen

/-- the versions from `v` onward / up to and including `v`, in chronological order -/
def fromVersion (v : Nat) : List (Nat × Nat) := posLayout.dropWhile (·.1 != v)
def uptoVersion (v : Nat) : List (Nat × Nat) :=
  posLayout.take ((posLayout.takeWhile (·.1 != v)).length + 1)

/-- Every known version uses one of the two layouts, with a SINGLE switch-over: the flags are a run
of "old" followed by a run of "new". -/
theorem layout_single_switch :
    ∃ a b, posLayout.map (·.2) = List.replicate a 0 ++ List.replicate b 1 := by
  refine ⟨(posLayout.map (·.2)).count 0, (posLayout.map (·.2)).count 1, ?_⟩
  decide +kernel

/-- From Minecraft 1.14 (protocol 477) onward: x, z, y. -/
theorem layout_new_from_477 : ∀ r ∈ fromVersion 477, r.2 = 1 := by decide +kernel

/-- Up to 1.13.2 (protocol 404): x, y, z. -/
theorem layout_old_upto_404 : ∀ r ∈ uptoVersion 404, r.2 = 0 := by decide +kernel

-- non-vacuity: both version ranges are non-empty and end/start at the named versions
example : (fromVersion 477).head? = some (477, 1) ∧ (fromVersion 477).length > 100 := by
  decide +kernel
example : (uptoVersion 404).getLast? = some (404, 0) ∧ (uptoVersion 404).length > 100 := by
  decide +kernel
example : (posLayout.find? (·.1 == 757)).map (·.2) = some 1 := by decide +kernel
example : (posLayout.find? (·.1 == 47)).map (·.2) = some 0 := by decide +kernel

end PyCraft.C04
