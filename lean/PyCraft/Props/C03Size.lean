import PyCraft.Props.C03
/-!
# C03 (extension) — `VarInt.size` over ALL Python integers

`Props/C03` pins `VarInt.size` to the encoder on `[0, 2^84)` and shows that it raises above.  The
table walk `for max_value, size in TABLE.items(): if value < max_value: return size` also answers
for NEGATIVE integers (the first comparison already succeeds), where `VarInt.send` raises
`ValueError` (fix D3).  This file states the complete behaviour of `size` over `Int`, the exact set
on which `size` and `send` agree, and monotonicity (`size_mono`) — so that a rewrite of the walk (another order of
the table, `<=` for `<`, a guard for negatives) changes a theorem here.  Only property theorems and
examples; the correspondence (`corr/c03.py`) compares `varint.size` with the live `VarInt.size` and
`VarLong.size` as a hard tie for `n ≥ 0` and as a recorded (not judged) comparison on negative
inputs, which the property does not speak about.
-/
namespace PyCraft.C03Size
open PyCraft

/-- `size` of a negative integer is 1: the first table row (`2^7`) already exceeds it. -/
theorem size_negative (v : Int) (h : v < 0) : varintSize v = .ok 1 := by
  have h7 : ((2 ^ 7 : Nat) : Int) = 128 := by decide
  unfold varintSize varintSizeTable
  simp only [sizeLookup]
  rw [if_pos (by omega)]

/-- Complete behaviour of `VarInt.size` over every Python integer. -/
theorem size_total (v : Int) :
    (v < 0 ∧ varintSize v = .ok 1) ∨
    (0 ≤ v ∧ v < 2 ^ 84 ∧ varintSize v = .ok (encVarInt v.toNat).length) ∨
    (2 ^ 84 ≤ v ∧ varintSize v = .error .value) := by
  by_cases hneg : v < 0
  · exact .inl ⟨hneg, size_negative v hneg⟩
  · have h0 : 0 ≤ v := by omega
    obtain ⟨n, rfl⟩ := Int.eq_ofNat_of_zero_le h0
    by_cases hb : n < 2 ^ 84
    · refine .inr (.inl ⟨h0, by exact_mod_cast hb, ?_⟩)
      simpa using C03.enc_length_eq_size n hb
    · refine .inr (.inr ⟨by exact_mod_cast Nat.le_of_not_lt hb, ?_⟩)
      exact C03.size_too_large n (Nat.le_of_not_lt hb)

/-- `size` answers a number exactly below `2^84` (negatives included). -/
theorem size_ok_iff (v : Int) : (∃ k, varintSize v = .ok k) ↔ v < 2 ^ 84 := by
  rcases size_total v with ⟨h, e⟩ | ⟨_, h, e⟩ | ⟨h, e⟩
  · exact ⟨fun _ => by omega, fun _ => ⟨_, e⟩⟩
  · exact ⟨fun _ => h, fun _ => ⟨_, e⟩⟩
  · constructor
    · rintro ⟨k, hk⟩; rw [e] at hk; cases hk
    · intro hlt; omega

/-- `send` and `size` agree — `send` writes bytes and `size` is their count — exactly on
`[0, 2^84)`: below zero `size` answers 1 although `send` raises, above the table `size` raises
although `send` writes. -/
theorem size_agrees_with_send_iff (v : Int) :
    (∃ bs, encVarIntZ v = .ok bs ∧ varintSize v = .ok bs.length) ↔ (0 ≤ v ∧ v < 2 ^ 84) := by
  rcases size_total v with ⟨h, _⟩ | ⟨h0, h, e⟩ | ⟨h, e⟩
  · constructor
    · rintro ⟨bs, hs, _⟩
      have : encVarIntZ v = .error .value := by simp [encVarIntZ, h]
      rw [this] at hs; cases hs
    · intro ⟨h0, _⟩; omega
  · constructor
    · intro _; exact ⟨h0, h⟩
    · intro _
      refine ⟨encVarInt v.toNat, ?_, e⟩
      have : ¬ v < 0 := by omega
      simp [encVarIntZ, this]
  · constructor
    · rintro ⟨bs, _, hz⟩; rw [e] at hz; cases hz
    · intro ⟨_, hlt⟩; omega

/-- The walk over ANY table only ever answers a size that stands in the table. -/
theorem lookup_answers_table_entry (v : Int) (k : Nat) :
    ∀ tbl, sizeLookup v tbl = .ok k → ∃ b, (b, k) ∈ tbl ∧ v < (b : Int)
  | [], h => by cases h
  | (b, s) :: rest, h => by
    simp only [sizeLookup] at h
    split at h
    · cases h; exact ⟨b, by simp, by assumption⟩
    · obtain ⟨b', hm, hlt⟩ := lookup_answers_table_entry v k rest h
      exact ⟨b', by simp [hm], hlt⟩

/-- Every answer of `size` is one of the twelve table values. -/
theorem size_range (v : Int) (k : Nat) (h : varintSize v = .ok k) : 1 ≤ k ∧ k ≤ 12 := by
  obtain ⟨b, hm, _⟩ := lookup_answers_table_entry v k _ h
  simp only [varintSizeTable, List.mem_cons, Prod.mk.injEq, List.not_mem_nil, or_false] at hm
  omega

/-- Walk over a table whose bounds ascend with its sizes: a larger value never gets a smaller size. -/
theorem lookup_mono (v w : Int) (hvw : v ≤ w) :
    ∀ (tbl : List (Nat × Nat)), tbl.Pairwise (fun p q => p.2 ≤ q.2) →
      ∀ k l, sizeLookup v tbl = .ok k → sizeLookup w tbl = .ok l → k ≤ l
  | [], _, k, l, h, _ => by cases h
  | (b, s) :: rest, hp, k, l, hk, hl => by
    simp only [sizeLookup] at hk hl
    rw [List.pairwise_cons] at hp
    by_cases hv : v < (b : Int)
    · rw [if_pos hv] at hk; cases hk
      by_cases hw : w < (b : Int)
      · rw [if_pos hw] at hl; cases hl; exact Nat.le_refl _
      · rw [if_neg hw] at hl
        obtain ⟨b', hm, _⟩ := lookup_answers_table_entry w l rest hl
        exact hp.1 _ hm
    · have hw : ¬ w < (b : Int) := by omega
      rw [if_neg hv] at hk; rw [if_neg hw] at hl
      exact lookup_mono v w hvw rest hp.2 k l hk hl

/-- `VarInt.size` is monotone wherever it answers. -/
theorem size_mono (v w : Int) (hvw : v ≤ w) (k l : Nat)
    (hk : varintSize v = .ok k) (hl : varintSize w = .ok l) : k ≤ l :=
  lookup_mono v w hvw varintSizeTable (by decide) k l hk hl

/-- The disagreement with `send` on negatives, as a concrete pair. -/
theorem negative_size_but_no_encoding :
    varintSize (-1) = .ok 1 ∧ encVarIntZ (-1) = .error .value := by decide

-- non-vacuity
example : varintSize (-(2 ^ 70)) = .ok 1 := size_negative _ (by decide)
example : varintSize (2 ^ 84 - 1) = .ok 12 := by decide +kernel
example : varintSize (2 ^ 84) = .error .value := by decide +kernel
example : ∃ bs, encVarIntZ 300 = .ok bs ∧ varintSize 300 = .ok bs.length :=
  (size_agrees_with_send_iff 300).2 (by decide)
example : varintSize 127 = .ok 1 ∧ varintSize 128 = .ok 2 ∧ (127 : Int) ≤ 128 := by decide +kernel

end PyCraft.C03Size
