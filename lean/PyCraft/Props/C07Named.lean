import PyCraft.Lemmas.C07Named
import PyCraft.Props.C07
/-!
# C07, with field NAMES and EXACT types (audit gap 5)

`Props/C07.lean` compares pyCraft's layouts of the core packets with the published ones as TYPE
sequences only, and only up to `normT` (`i8 ≡ u8`).  Exchanging two attributes of equal type in a
class body (`shared_secret`/`verify_token`, `yaw`/`pitch`, `x`/`z`, `is_debug`/`is_flat`), or turning
`Byte` into `UnsignedByte` on the `dimension` of the 1.8 join-game packet, leaves every theorem there
true.  Neither weakening is needed: all 599 (packet, release) pairs are equal exactly, names included.

Tables (all regenerated on every run):

* `Ref.named` — `harness/refproto.py` (the reference of the PUBLISHED protocol; independent of
  /repo) with the field names kept: per core packet and release, id and `(name, type)` list;
* `Gen.C07Named.live` — `harness/gen/c07named.py`: per core class and protocol in the live
  `RELEASE_PROTOCOL_VERSIONS`, the run-time `id` and `definition` of a packet INSTANCE
  (`packet.py` l.22-24, l.40-43 — what `Packet.read` l.66 / `write_fields` l.110 iterate over);
* the existing `Gen.layoutTables`, `Gen.idTables` (`harness/extract.py`) and `liveTables`.

`Obs` (in `Lemmas/C07Named.lean`) is what one side says about a packet at a version: `absent`,
`packet id layout`, or — pyCraft only — `irregular` (duplicate class name, hand-written codec,
raising/non-integer id, overridden `write`/`_write_buffer`, version not tabulated).
-/
namespace PyCraft.C07Named
open PyCraft PyCraft.Gen PyCraft.C07

theorem checkNamed_ok : checkNamed Gen.C07Named.live Ref.named = true := by decide +kernel
theorem checkTotal_ok : checkTotal Ref.named = true := by decide +kernel
theorem checkRows_ok : checkRows Gen.C07Named.live Ref.named = true := by decide +kernel
theorem checkGenNamed_ok : checkGenNamed Ref.named = true := by decide +kernel
theorem erase_ok : Ref.named.map eraseEntry = Ref.table := by decide +kernel

/-- EXACT agreement, names included.  For every core packet and every release of the reference,
what a pyCraft packet instance says at run time — no such packet, or (id, [(attribute name, wire
type)] in wire order) — is exactly what the published protocol says: same id, same field names, same
types (`Byte` ≠ `UnsignedByte`), same order, and the packet exists in pyCraft iff it is published. -/
theorem core_named_match :
    ∀ c ∈ Ref.core, ∀ rel ∈ Ref.releases, liveObs c.2.1 c.2.2 rel = refObs c.1 rel :=
  checkNamed_sound _ _ checkNamed_ok

/-- The reference is total: for every core packet and every release there IS a published row
(so `core_named_match` compares a real id and layout), with the single exception of the teleport
confirmation in protocol 47 (introduced with 1.9), which is absent; a published row is a row of
`Ref.named` under that packet's name. -/
theorem reference_total :
    ∀ c ∈ Ref.core, ∀ rel ∈ Ref.releases,
      ((c.1 = "teleport_confirm" ∧ rel = 47) → refObs c.1 rel = .absent) ∧
      (¬ (c.1 = "teleport_confirm" ∧ rel = 47) →
        ∃ e ∈ Ref.named, e.1 = c.1 ∧ ∃ row ∈ e.2, row.1 = rel ∧
          refObs c.1 rel = .packet row.2.1 row.2.2) := by
  intro c hc rel hrel
  have h := checkTotal_sound _ checkTotal_ok c hc rel hrel
  have hex : isException c.1 rel = true ↔ (c.1 = "teleport_confirm" ∧ rel = 47) := by
    simp [isException]
  refine ⟨fun hx => h.1 (hex.mpr hx), fun hx => ?_⟩
  have hf : isException c.1 rel = false := by
    cases hb : isException c.1 rel with
    | false => rfl
    | true => exact absurd (hex.mp hb) hx
  obtain ⟨i, L, hp⟩ := h.2 hf
  obtain ⟨e, he, hn, hm⟩ := refObsIn_packet_mem _ _ _ _ _ hp
  exact ⟨e, he, hn, (rel, i, L), hm, rfl, hp⟩

/-- Both together: outside the one exception pyCraft has a regular packet whose id and named layout
are the published ones; at the exception pyCraft registers no such class either. -/
theorem core_named_packets :
    ∀ c ∈ Ref.core, ∀ rel ∈ Ref.releases,
      ((c.1 = "teleport_confirm" ∧ rel = 47) →
        liveObs c.2.1 c.2.2 rel = .absent ∧ refObs c.1 rel = .absent) ∧
      (¬ (c.1 = "teleport_confirm" ∧ rel = 47) →
        ∃ id lay, refObs c.1 rel = .packet id lay ∧ liveObs c.2.1 c.2.2 rel = .packet id lay) := by
  intro c hc rel hrel
  have hm := core_named_match c hc rel hrel
  have ht := reference_total c hc rel hrel
  refine ⟨fun hx => ⟨hm.trans (ht.1 hx), ht.1 hx⟩, fun hx => ?_⟩
  obtain ⟨_, _, _, row, _, _, hp⟩ := ht.2 hx
  exact ⟨row.2.1, row.2.2, hp, hm.trans hp⟩

/-- The reviewer's formulation, over the rows of the reference and over BOTH live sources.  For every
core packet and every row `(release, id, named layout)` the reference has for it: the release is a
reference release; the id in pyCraft's id table is the published id; the named layout found in the
existing layout table (`genLayoutNamed`: first variant listing the release) is exactly the published
one — and so is the layout of EVERY variant listing that release, so "first" loses nothing; and the
run-time observation of the new live table is exactly `packet id layout`. -/
theorem core_layouts_match_named :
    ∀ c ∈ Ref.core, ∀ e ∈ Ref.named, e.1 = c.1 → ∀ row ∈ e.2,
      row.1 ∈ Ref.releases ∧
      genId c.2.1 c.2.2 row.1 = some row.2.1 ∧
      genLayoutNamed c.2.1 c.2.2 row.1 = some row.2.2 ∧
      (∃ variants, variantsOf c.2.1 c.2.2 = some variants ∧
        (∃ var ∈ variants, row.1 ∈ var.2) ∧
        ∀ var ∈ variants, row.1 ∈ var.2 → var.1 = some row.2.2) ∧
      liveObs c.2.1 c.2.2 row.1 = .packet row.2.1 row.2.2 := by
  intro c hc e he hname row hrow
  have hr := checkRows_sound _ _ checkRows_ok c hc e he hname row hrow
  -- ids: through the names-erased table and `C07.core_rows_match`
  have he' : eraseEntry e ∈ Ref.table := erase_ok ▸ List.mem_map_of_mem he
  have hrow' : eraseRow row ∈ (eraseEntry e).2 := List.mem_map_of_mem hrow
  have hid := (C07.core_rows_match c hc (eraseEntry e) he' hname (eraseRow row) hrow').1
  have hid' : genId c.2.1 c.2.2 row.1 = some row.2.1 := of_decide_eq_true hid
  -- layouts: every variant
  have hg := checkGenNamed_ok
  simp only [checkGenNamed, List.all_eq_true] at hg
  have h1 := hg c hc e he
  simp only [hname, beq_self_eq_true, Bool.not_true, Bool.false_or] at h1
  cases hv : variantsOf c.2.1 c.2.2 with
  | none => simp [hv] at h1
  | some variants =>
    simp only [hv] at h1
    obtain ⟨i1, i2, i3⟩ := variantsOk_sound variants e.2 h1 row hrow
    refine ⟨hr.1, hid', ?_, ⟨variants, rfl, i1, i2⟩, hr.2⟩
    unfold genLayoutNamed
    simp only [hv]
    exact i3

/-- The named reference is the reference of `Props/C07.lean` with the names added: dropping the
names gives `Ref.table` back, so the old theorems and the new ones speak of the same published rows;
and the reference has EXACTLY 20 core packets (in the order of `Ref.core`, no name twice), 30
releases (none twice), one row per packet and release in release order except for the one
exception — 599 rows in all (`C07.reference_nonempty` only demands ≥ 25 per packet, ≥ 550). -/
theorem reference_exact :
    Ref.named.map eraseEntry = Ref.table ∧
    Ref.core.length = 20 ∧ Ref.releases.length = 30 ∧ Ref.releases.Nodup ∧
    Ref.named.map (fun e => e.1) = Ref.core.map (fun c => c.1) ∧
    (Ref.core.map fun c => c.1).Nodup ∧
    (∀ e ∈ Ref.named,
      e.2.map (fun r => r.1) = Ref.releases.filter fun rel => !isException e.1 rel) ∧
    (Ref.named.map fun e => e.2.length).sum = 599 := by
  have h : Ref.core.length = 20 ∧ Ref.releases.length = 30 ∧ Ref.releases.Nodup ∧
      Ref.named.map (fun e => e.1) = Ref.core.map (fun c => c.1) ∧
      (Ref.core.map fun c => c.1).Nodup ∧
      (Ref.named.all fun e => decide
        (e.2.map (fun r => r.1) = Ref.releases.filter fun rel => !isException e.1 rel)) = true ∧
      (Ref.named.map fun e => e.2.length).sum = 599 := by decide +kernel
  refine ⟨erase_ok, h.1, h.2.1, h.2.2.1, h.2.2.2.1, h.2.2.2.2.1, fun e he => ?_, h.2.2.2.2.2.2⟩
  exact of_decide_eq_true (List.all_eq_true.mp h.2.2.2.2.2.1 e he)

/-- The domain is tied to the live version tables.  The protocols of the releases pyCraft marks as
supported (`RELEASE_PROTOCOL_VERSIONS`, `minecraft/__init__.py` l.537-545) are EXACTLY 4, 5 and the
reference releases, in this order; the generator of the new live table saw the same list; and every
reference release is a supported protocol.  So `core_named_match` covers every supported release
from 1.8 on, a newly supported release makes this theorem false until the reference covers it, and
what stays outside is stated: protocols 4 and 5 (1.7.2 – 1.7.10), which the README does not list. -/
theorem releases_tied :
    liveTables.releaseProtocols = [4, 5] ++ Ref.releases ∧
    Gen.C07Named.liveReleases = liveTables.releaseProtocols ∧
    (∀ rel ∈ Ref.releases, rel ∈ liveTables.supportedProtocols) ∧
    (∀ e ∈ Gen.C07Named.live, e.2.map (fun r => r.1) = Gen.C07Named.liveReleases) := by
  have h : liveTables.releaseProtocols = [4, 5] ++ Ref.releases ∧
      Gen.C07Named.liveReleases = liveTables.releaseProtocols ∧
      (Ref.releases.all fun rel => liveTables.supportedProtocols.contains rel) = true ∧
      (Gen.C07Named.live.all fun e =>
        decide (e.2.map (fun r => r.1) = Gen.C07Named.liveReleases)) = true := by decide +kernel
  refine ⟨h.1, h.2.1, fun rel hrel => ?_, fun e he => ?_⟩
  · simpa using List.all_eq_true.mp h.2.2.1 rel hrel
  · exact of_decide_eq_true (List.all_eq_true.mp h.2.2.2 e he)

/-- Consequence on the wire, with no restriction on the values (the old `core_bytes_match` needs
every value to be in the domain of both an `i8` and a `u8`, which excludes all boundary values).
For every core packet and reference release, with `L` pyCraft's run-time layout: the published layout
`R` exists and, for EVERY attribute dictionary, value list and byte string, `write_fields` / `read`
driven by `L` and by `R` do the same — same bytes or same error, same attributes set. -/
theorem core_wire_match :
    ∀ c ∈ Ref.core, ∀ rel ∈ Ref.releases, ∀ id L, liveObs c.2.1 c.2.2 rel = .packet id L →
      ∃ R, refObs c.1 rel = .packet id R ∧
        ∀ (cc : CustomCodec) (attrs : Attrs),
          writeFields cc attrs L = writeFields cc attrs R ∧
          (∀ bs, readFields cc L attrs bs = readFields cc R attrs bs) ∧
          (∀ vals, encodeFields cc L vals = encodeFields cc R vals) ∧
          (∀ bs, decodeFields cc L bs = decodeFields cc R bs) := by
  intro c hc rel hrel id L hl
  have hm := core_named_match c hc rel hrel
  exact ⟨L, hm ▸ hl, fun _ _ => ⟨rfl, fun _ => rfl, fun _ => rfl, fun _ => rfl⟩⟩

/-! ## non-vacuity -/

example : ("encryption_response", "sbLogin", "EncryptionResponsePacket") ∈ Ref.core := by
  decide +kernel
example : (757 : Nat) ∈ Ref.releases ∧ (47 : Nat) ∈ Ref.releases := by decide +kernel
example : liveObs "sbLogin" "EncryptionResponsePacket" 757 =
    .packet 1 [("shared_secret", .bytesVarint), ("verify_token", .bytesVarint)] := by decide +kernel
example : refObs "position_look_cb" 47 =
    .packet 8 [("x", .int .f64), ("y", .int .f64), ("z", .int .f64), ("yaw", .int .f32),
      ("pitch", .int .f32), ("flags", .int .i8)] := by decide +kernel
-- the 1.8 dimension is a SIGNED byte on both sides (−1 = Nether), and the comparison sees it
example : (liveObs "cbPlay" "JoinGamePacket" 47).layout?.bind (fun L => L.lookup "dimension") =
    some (.int .i8) ∧
    (refObs "join_game" 47).layout?.bind (fun L => L.lookup "dimension") = some (.int .i8) := by
  decide +kernel
-- the one exception: absent on both sides
example : liveObs "sbPlay" "TeleportConfirmPacket" 47 = .absent ∧
    refObs "teleport_confirm" 47 = .absent ∧
    liveObs "sbPlay" "TeleportConfirmPacket" 107 = .packet 0 [("teleport_id", .varint)] := by
  decide +kernel
example : genLayoutNamed "sbHandshake" "HandShakePacket" 47 =
    some [("protocol_version", .varint), ("server_address", .string), ("server_port", .int .u16),
      ("next_state", .varint)] := by decide +kernel
-- outside the theorem, and stated (see `releases_tied`): under protocols 4 and 5 pyCraft uses the
-- 1.8 layouts (e.g. a VarInt keep-alive id where 1.7 published an Int)
example : liveObs "cbPlay" "KeepAlivePacket" 4 = .packet 0 [("keep_alive_id", .varint)] ∧
    liveObs "cbPlay" "KeepAlivePacket" 5 = liveObs "cbPlay" "KeepAlivePacket" 47 := by decide +kernel

/-! ## refutations: tables of CHANGED code fail the same checker

Each `mutateLive …` below is the table `harness/gen/c07named.py` emits after the described edit of
/repo (the generator was run on an edited copy to confirm).  The old comparison cannot see any of
them: `swapNames_types` (the type sequence is unchanged), resp. `normT` for the retyping. -/

/-- `shared_secret` and `verify_token` exchanged in `EncryptionResponsePacket.definition`
(`serverbound/login/__init__.py`): login to every real server fails -/
example : checkNamed (mutateLive ("sbLogin", "EncryptionResponsePacket")
    (fun _ => swapNames "shared_secret" "verify_token") Gen.C07Named.live) Ref.named = false := by
  decide +kernel
/-- `public_key` and `verify_token` exchanged in `EncryptionRequestPacket` -/
example : checkNamed (mutateLive ("cbLogin", "EncryptionRequestPacket")
    (fun _ => swapNames "public_key" "verify_token") Gen.C07Named.live) Ref.named = false := by
  decide +kernel
/-- `yaw` and `pitch` exchanged in the clientbound position-and-look packet -/
example : checkNamed (mutateLive ("cbPlay", "PlayerPositionAndLookPacket")
    (fun _ => swapNames "yaw" "pitch") Gen.C07Named.live) Ref.named = false := by decide +kernel
/-- `x` and `z` exchanged in the serverbound position-and-look packet -/
example : checkNamed (mutateLive ("sbPlay", "PositionAndLookPacket")
    (fun _ => swapNames "x" "z") Gen.C07Named.live) Ref.named = false := by decide +kernel
/-- `is_debug` and `is_flat` exchanged in `JoinGamePacket` -/
example : checkNamed (mutateLive ("cbPlay", "JoinGamePacket")
    (fun _ => swapNames "is_debug" "is_flat") Gen.C07Named.live) Ref.named = false := by
  decide +kernel
/-- `Byte` → `UnsignedByte` on the join-game `dimension` below protocol 108 -/
example : checkNamed (mutateLive ("cbPlay", "JoinGamePacket")
    (fun v => if v < 108 then retype "dimension" (.int .u8) else id) Gen.C07Named.live)
    Ref.named = false := by decide +kernel
/-- … all of which the old criterion (types only, up to `normT`) accepts -/
example : (retype "dimension" (.int .u8)
      [("entity_id", .int .i32), ("dimension", .int .i8)]).map (fun f => normT f.2) =
    [("entity_id", WType.int .i32), ("dimension", .int .i8)].map (fun f => normT f.2) := by
  decide +kernel
/-- the same on the existing layout table: a variant with the two byte arrays exchanged is rejected
by `variantsOk`, though its type sequence is the published one -/
example : variantsOk
    [(some [("verify_token", .bytesVarint), ("shared_secret", .bytesVarint)], [47, 107])]
    [(47, 1, [("shared_secret", .bytesVarint), ("verify_token", .bytesVarint)])] = false ∧
    variantsOk
    [(some [("shared_secret", .bytesVarint), ("verify_token", .bytesVarint)], [47, 107])]
    [(47, 1, [("shared_secret", .bytesVarint), ("verify_token", .bytesVarint)])] = true := by
  decide +kernel
/-- why the names matter on the wire: the same attribute dictionary written through the two
layouts gives different bytes -/
example :
    writeFields noCustomCodec [("shared_secret", .bytes [0xaa]), ("verify_token", .bytes [0xbb, 0xcc])]
      [("shared_secret", .bytesVarint), ("verify_token", .bytesVarint)] = .ok [1, 0xaa, 2, 0xbb, 0xcc] ∧
    writeFields noCustomCodec [("shared_secret", .bytes [0xaa]), ("verify_token", .bytes [0xbb, 0xcc])]
      (swapNames "shared_secret" "verify_token"
        [("shared_secret", .bytesVarint), ("verify_token", .bytesVarint)]) =
      .ok [2, 0xbb, 0xcc, 1, 0xaa] := by decide +kernel

end PyCraft.C07Named
