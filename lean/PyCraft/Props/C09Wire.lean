import PyCraft.Lemmas.HandshakeWire
import PyCraft.Props.C09
import PyCraft.Props.C01
/-!
# C09 on the wire — handshake, status and login-start frames, byte by byte

Refines property C09 ("status queries and version negotiation pick the right version …") from the
abstract frames `Neg.firstFrames` / `Neg.session` / `Neg.runStatus` (`Props/C09.lean`) to the BYTES
the socket is handed (`HsWire.firstBytes`, `HsWire.clientWrites`, `Model/HandshakeWire.lean`) and
to what an independent reference server (`HsWire.serverRecv`: C01's `read_packet` model plus field
decoders written without reference to the encoders) gets out of them; and, in the other direction,
from the status packets `Neg.StatusPkt` to the bytes of `ResponsePacket` / `PingResponsePacket`
and the client's reading of them (`HsWire.clientRecvStatus`).

Everything is quantified over ALL connection parameters (any host string, any port, any user
name), ALL plans (in particular every plan `connectPlan` produces), every login-start id `lsId`
(0x00 in the releases, 0x01 on the snapshots 385..390) and ALL segmentations of the byte stream
into arrivals.  The guards are explicit and decidable: `StrOK s` (UTF-8 byte length `< 2^31`),
`port < 65536` (`struct.pack('>H')`), VarInts `< 2^32`, `IntT.i64.inDom t` (`struct.pack('>q')`);
`FirstOK lsId p plan` bundles them for the first frames of a plan and additionally asks for a login
name on a direct login (`String.send(None)` raises).  Outside the guards the Python raises, and so
does the model (`client_writes_first_bytes`, `ping_out_of_range_raises`).

Only property theorems and non-vacuity examples live here; helper lemmas and the concrete example
parameters are in `Lemmas/HandshakeWire.lean`.
-/
namespace PyCraft.C09Wire
open PyCraft PyCraft.Neg PyCraft.HsWire

/-- The reference server and the client's status reader see only the concatenation of the arrival
segments: two segmentations of the same bytes — well-formed or not — give the same result
(handshake record, frames, final exception — for the client's reader always an exception, `EOFError`
when the stream is exhausted). -/
theorem segmentation_invariant (s1 s2 : Segs) (h : s1.flatten = s2.flatten) :
    serverRecv s1 = serverRecv s2 ∧ clientRecvStatus s1 = clientRecvStatus s2 := by
  constructor
  · rw [serverRecv_spec, serverRecv_spec, h]
  · rw [clientRecvStatus_spec, clientRecvStatus_spec, h]

/-- What the client really writes.  When the port is in `0..65535` and (for a direct login) a
login name exists, the networking thread writes exactly `firstBytes` and raises nothing.  With a
port `≥ 65536` `UnsignedShort.send` raises `struct.error` while the handshake is still being
buffered: NOTHING reaches the socket.  With a good port but neither user name nor auth token, the
handshake (next state 2) is sent and then `String.send(None)` raises: the server sees a handshake
that is never followed by a login start. -/
theorem client_writes_first_bytes (lsId : Nat) (p : ConnParams) (plan : Plan) :
    (p.port < 65536 → (∀ v, plan = .direct v → loginName p ≠ none) →
      clientWrites lsId ((firstFrames p plan).map .first) = (firstBytes lsId p plan, none)) ∧
    (65536 ≤ p.port →
      clientWrites lsId ((firstFrames p plan).map .first) = ([], some .struct)) ∧
    (p.port < 65536 → ∀ v, plan = .direct v → loginName p = none →
      clientWrites lsId ((firstFrames p plan).map .first) =
        (plainFrame 0 (handshakeFields ⟨v, p.host, p.port, 2⟩), some .other)) := by
  refine ⟨?_, ?_, ?_⟩
  · intro hp hname
    cases plan with
    | query v =>
      rw [firstBytes_query lsId p v hp]
      simp only [firstFrames, List.map_cons, List.map_nil, clientWrites, STATE_STATUS,
        writeFrame_handshake lsId ⟨v, p.host, p.port, 1⟩ hp, writeFrame_request, plainFrame,
        List.flatten_cons, List.flatten_nil]
    | direct v =>
      cases hn : loginName p with
      | none => exact absurd hn (hname v rfl)
      | some name =>
        rw [firstBytes_direct lsId p v name hp hn]
        simp only [firstFrames, hn, List.map_cons, List.map_nil, clientWrites, STATE_PLAYING,
          writeFrame_handshake lsId ⟨v, p.host, p.port, 2⟩ hp, writeFrame_loginStart, plainFrame,
          List.flatten_cons, List.flatten_nil]
  · intro hp
    cases plan with
    | query v =>
      simp only [firstFrames, List.map_cons, clientWrites,
        writeFrame_handshake_err lsId ⟨v, p.host, p.port, STATE_STATUS⟩ hp]
    | direct v =>
      simp only [firstFrames, List.map_cons, clientWrites,
        writeFrame_handshake_err lsId ⟨v, p.host, p.port, STATE_PLAYING⟩ hp]
  · intro hp v hv hn
    subst hv
    simp only [firstFrames, hn, List.map_cons, List.map_nil, clientWrites, STATE_PLAYING,
      writeFrame_handshake lsId ⟨v, p.host, p.port, 2⟩ hp, writeFrame_loginStart_none,
      List.append_nil]

/-- (a) The server recovers the first frames.  Let the bytes `connect()` produces for ANY
parameters and ANY plan within the guards arrive in ANY segmentation: the reference server reads
exactly the handshake record — the plan's protocol number, the configured host and port, next
state 2 for a direct login and 1 for a status query — followed by exactly one frame, which is the
login start with the login name (id `lsId`) resp. the empty status request (id 0); the stream then
ends at a frame boundary (`err = none`): no byte is left over, nothing is raised. -/
theorem server_recovers_first_frames (lsId : Nat) (p : ConnParams) (plan : Plan) (segs : Segs)
    (hok : FirstOK lsId p plan) (hseg : segs.flatten = firstBytes lsId p plan) :
    ∃ r : Received, serverRecv segs = .ok r ∧ r.err = none ∧
      r.hs = ⟨planProto plan, p.host, p.port, planNext plan⟩ ∧
      (∀ v, plan = .direct v → ∃ name, loginName p = some name ∧
        r.frames = [(lsId, encString name)] ∧ r.decoded lsId = [.loginStart name]) ∧
      (∀ v, plan = .query v → r.frames = [(0, [])] ∧ r.decoded lsId = [.request]) := by
  rw [serverRecv_spec, hseg]
  cases plan with
  | direct v =>
    obtain ⟨h1, h2, h3, h4, name, hn, hs⟩ := firstOK_direct lsId p v hok
    refine ⟨_, serverParse_direct lsId p v name h1 h2 h3 h4 hn hs, rfl, rfl,
      fun _ _ => ⟨name, hn, rfl, ?_⟩, fun _ hv => by cases hv⟩
    simp only [Received.decoded, List.map_cons, List.map_nil, decode_loginStart lsId name hs]
  | query v =>
    obtain ⟨h1, h2, h3⟩ := firstOK_query lsId p v hok
    refine ⟨_, serverParse_query lsId p v h1 h2 h3, rfl, rfl, (fun _ hv => by cases hv),
      fun _ _ => ⟨rfl, ?_⟩⟩
    simp only [Received.decoded, List.map_cons, List.map_nil, decode_request]

/-- (b) The encoding of one handshake record is unambiguous: two records within the guards whose
frames are the same bytes are the same record (protocol, host, port, next state). -/
theorem handshake_frame_injective (lsId : Nat) (a b : Handshake) (ha : HsOK a) (hb : HsOK b)
    (h : frameBytes lsId (.first (.handshake a)) = frameBytes lsId (.first (.handshake b))) :
    a = b := by
  rw [frameBytes_handshake lsId a ha.2.2.1, frameBytes_handshake lsId b hb.2.2.1] at h
  have hp : plainFrame 0 (handshakeFields a) ++ [] <+: plainFrame 0 (handshakeFields b) ++ [] := by
    rw [h]; exact List.prefix_refl _
  have := first_frame_of_prefix _ _ _ _ (frameOK_handshake a ha) (frameOK_handshake b hb) hp
  injection this with _ hf
  exact handshakeFields_inj a b ha hb hf

/-- (b) The first bytes determine the parameters.  Two parameter sets / plans within the guards
that produce the same byte stream have the same host, the same port, the same plan (kind and
protocol number) and — for a direct login — the same login name. -/
theorem handshake_bytes_injective (lsId : Nat) (p1 p2 : ConnParams) (pl1 pl2 : Plan)
    (h1 : FirstOK lsId p1 pl1) (h2 : FirstOK lsId p2 pl2)
    (h : firstBytes lsId p1 pl1 = firstBytes lsId p2 pl2) :
    p1.host = p2.host ∧ p1.port = p2.port ∧ pl1 = pl2 ∧
      (∀ v, pl1 = .direct v → loginName p1 = loginName p2) := by
  have key := congrArg serverParse h
  cases pl1 with
  | direct v =>
    obtain ⟨a1, a2, a3, a4, n1, an, as⟩ := firstOK_direct lsId p1 v h1
    rw [serverParse_direct lsId p1 v n1 a1 a2 a3 a4 an as] at key
    cases pl2 with
    | direct w =>
      obtain ⟨b1, b2, b3, b4, n2, bn, bs⟩ := firstOK_direct lsId p2 w h2
      rw [serverParse_direct lsId p2 w n2 b1 b2 b3 b4 bn bs] at key
      injection key with key
      injection key with k1 k2 _
      injection k1 with kv kh kp _
      simp only [List.cons.injEq, Prod.mk.injEq, true_and, and_true] at k2
      have hn : n1 = n2 := encString_inj n1 n2 (by unfold StrOK at as; omega)
        (by unfold StrOK at bs; omega) k2
      exact ⟨kh, kp, by rw [kv], fun _ _ => by rw [an, bn, hn]⟩
    | query w =>
      obtain ⟨b1, b2, b3⟩ := firstOK_query lsId p2 w h2
      rw [serverParse_query lsId p2 w b1 b2 b3] at key
      injection key with key
      injection key with k1 _ _
      injection k1 with _ _ _ kn
      cases kn
  | query v =>
    obtain ⟨a1, a2, a3⟩ := firstOK_query lsId p1 v h1
    rw [serverParse_query lsId p1 v a1 a2 a3] at key
    cases pl2 with
    | direct w =>
      obtain ⟨b1, b2, b3, b4, n2, bn, bs⟩ := firstOK_direct lsId p2 w h2
      rw [serverParse_direct lsId p2 w n2 b1 b2 b3 b4 bn bs] at key
      injection key with key
      injection key with k1 _ _
      injection k1 with _ _ _ kn
      cases kn
    | query w =>
      obtain ⟨b1, b2, b3⟩ := firstOK_query lsId p2 w h2
      rw [serverParse_query lsId p2 w b1 b2 b3] at key
      injection key with key
      injection key with k1 _ _
      injection k1 with kv kh kp _
      exact ⟨kh, kp, by rw [kv], fun _ hv => by cases hv⟩

/-- (b) A status query can never be mistaken for a login, whatever the parameters: the byte stream
of a status plan is neither a prefix of nor equal to the byte stream of a login plan, nor the other
way round (for ANY two parameter sets and protocol numbers within the guards); and for the same
protocol, host and port the two handshake frames are byte-for-byte equal except for their last
byte, which is the next state (1 resp. 2). -/
theorem status_and_login_streams_diverge (lsId : Nat) (p p' : ConnParams) (v w : Nat)
    (h1 : FirstOK lsId p (.query v)) (h2 : FirstOK lsId p' (.direct w)) :
    ¬ firstBytes lsId p (.query v) <+: firstBytes lsId p' (.direct w) ∧
    ¬ firstBytes lsId p' (.direct w) <+: firstBytes lsId p (.query v) ∧
    ∃ pre, frameBytes lsId (.first (.handshake ⟨v, p.host, p.port, 1⟩)) = pre ++ [1] ∧
      frameBytes lsId (.first (.handshake ⟨v, p.host, p.port, 2⟩)) = pre ++ [2] := by
  obtain ⟨a1, a2, a3⟩ := firstOK_query lsId p v h1
  obtain ⟨b1, b2, b3, b4, name, bn, bs⟩ := firstOK_direct lsId p' w h2
  have hq : HsOK ⟨v, p.host, p.port, 1⟩ := ⟨a3, a1, a2, by show (1 : Nat) < 2 ^ 32; omega⟩
  have hd : HsOK ⟨w, p'.host, p'.port, 2⟩ := ⟨b3, b1, b2, by show (2 : Nat) < 2 ^ 32; omega⟩
  have hne : handshakeFields ⟨v, p.host, p.port, 1⟩ ≠ handshakeFields ⟨w, p'.host, p'.port, 2⟩ := by
    intro he
    have := handshakeFields_inj _ _ hq hd he
    injection this with _ _ _ kn
    cases kn
  rw [firstBytes_query lsId p v a2, firstBytes_direct lsId p' w name b2 bn]
  refine ⟨?_, ?_, ?_⟩
  · intro hpre
    have := first_frame_of_prefix _ _ _ _ (frameOK_handshake _ hq) (frameOK_handshake _ hd) hpre
    injection this with _ hf
    exact hne hf
  · intro hpre
    have := first_frame_of_prefix _ _ _ _ (frameOK_handshake _ hd) (frameOK_handshake _ hq) hpre
    injection this with _ hf
    exact hne hf.symm
  · rw [frameBytes_handshake lsId ⟨v, p.host, p.port, 1⟩ a2,
      frameBytes_handshake lsId ⟨v, p.host, p.port, 2⟩ a2]
    exact handshake_frames_differ_last v p.host p.port

/-- (c) The protocol number in the BYTES is the negotiated one (composition with C09).  Whenever
`connect()`'s whole exchange (`session`) ends with "log in with version `v`", the LAST connection
it opened carries bytes from which the reference server — under any segmentation — reads a
handshake with protocol number exactly `v`, the configured host and port and next state 2,
followed by the login start with the login name and nothing else; and `v` is: the single allowed
version, or — with several allowed versions — the version the server's status named (which is
allowed), or the configured default when the status had no version / no protocol key / the status
query stayed unanswered. -/
theorem handshake_protocol_is_negotiated (env : VEnv) (p : ConnParams) (allowed : List Nat)
    (dflt : Nat) (r : StatusReply) (s : Session) (lsId v : Nat) (name : String) (segs : Segs)
    (h : session env p allowed dflt r = .ok s) (hv : s.outcome = .connect v)
    (hname : loginName p = some name) (hh : StrOK p.host) (hp : p.port < 65536)
    (hv32 : v < 2 ^ 32) (hl : lsId < 2 ^ 32) (hs : StrOK name) :
    ∃ conn, s.conns.getLast? = some conn ∧
      (segs.flatten = connBytes lsId conn →
        ∃ rcv, serverRecv segs = .ok rcv ∧ rcv.hs = ⟨v, p.host, p.port, 2⟩ ∧
          rcv.decoded lsId = [.loginStart name] ∧ rcv.err = none) ∧
      (allowed = [v] ∨
        (2 ≤ allowed.length ∧
          ((∃ n nm, r = .proto n nm ∧ n = (v : Int) ∧ v ∈ allowed) ∨
           ((r = .noVersion ∨ r = .noProtocolKey ∨ r = .closedBeforeReply) ∧ v = dflt)))) := by
  obtain ⟨-, hlast, -, -⟩ := C09.handshake_fields env p allowed dflt r s h
  refine ⟨_, hlast v hv, ?_, ?_⟩
  · intro hseg
    have hb : connBytes lsId [.handshake ⟨v, p.host, p.port, 2⟩, .loginStart (loginName p)] =
        firstBytes lsId p (.direct v) := rfl
    rw [serverRecv_spec, hseg, hb, serverParse_direct lsId p v name hh hp hv32 hl hname hs]
    refine ⟨_, rfl, rfl, ?_, rfl⟩
    simp only [Received.decoded, List.map_cons, List.map_nil, decode_loginStart lsId name hs]
  · rcases C09.session_outcome env p allowed dflt r s h with ⟨w, hw, how, -⟩ | ⟨h2, ho, -⟩
    · left
      rw [hv] at how
      injection how with how
      rw [how]; exact hw
    · right
      rw [hv] at ho
      exact ⟨h2, C09.negotiate_sound env allowed dflt r v ho.symm⟩

/-- (c) … the status reply names an allowed version.  Several allowed versions (all ranked), the
server's status carries the allowed protocol number `n`: the exchange is two connections; the
bytes of the first parse to a handshake with the LATEST allowed version `q`, next state 1, and the
status request; the bytes of the second to a handshake with protocol number `n` — the server's —
next state 2, and the login start. -/
theorem negotiated_reply_in_bytes (env : VEnv) (p : ConnParams) (allowed : List Nat)
    (dflt n lsId : Nat) (nm : Option String) (name : String) (segsQ segsL : Segs)
    (h2 : 2 ≤ allowed.length) (hr : ∀ a ∈ allowed, a ∈ env.knownOrder) (hn : n ∈ allowed)
    (h32 : ∀ a ∈ allowed, a < 2 ^ 32)
    (hname : loginName p = some name) (hh : StrOK p.host) (hp : p.port < 65536)
    (hl : lsId < 2 ^ 32) (hs : StrOK name) :
    ∃ q s, latest env allowed = .ok q ∧ session env p allowed dflt (.proto (n : Int) nm) = .ok s ∧
      s.outcome = .connect n ∧
      s.conns.map (connBytes lsId) = [firstBytes lsId p (.query q), firstBytes lsId p (.direct n)] ∧
      (segsQ.flatten = firstBytes lsId p (.query q) →
        serverRecv segsQ = .ok ⟨⟨q, p.host, p.port, 1⟩, [(0, [])], none⟩) ∧
      (segsL.flatten = firstBytes lsId p (.direct n) →
        serverRecv segsL = .ok ⟨⟨n, p.host, p.port, 2⟩, [(lsId, encString name)], none⟩) := by
  obtain ⟨q, hq, hsess⟩ := session_proto_allowed env p allowed dflt n nm h2 hr hn
  have hqm := (latest_spec env allowed q hq).1
  refine ⟨q, _, hq, hsess, rfl, rfl, ?_, ?_⟩
  · intro hseg
    rw [serverRecv_spec, hseg, serverParse_query lsId p q hh hp (h32 q hqm)]
  · intro hseg
    rw [serverRecv_spec, hseg, serverParse_direct lsId p n name hh hp (h32 n hn) hl hname hs]

/-- (c) … the status query stays unanswered.  Several allowed versions, the server closes the
status connection without a reply: again two connections, and the bytes of the second parse to a
handshake carrying the configured DEFAULT version `dflt` (which need not be an allowed one), next
state 2, and the login start. -/
theorem negotiated_default_in_bytes (env : VEnv) (p : ConnParams) (allowed : List Nat)
    (dflt lsId : Nat) (name : String) (segsL : Segs)
    (h2 : 2 ≤ allowed.length) (hr : ∀ a ∈ allowed, a ∈ env.knownOrder) (hd : dflt < 2 ^ 32)
    (hname : loginName p = some name) (hh : StrOK p.host) (hp : p.port < 65536)
    (hl : lsId < 2 ^ 32) (hs : StrOK name) :
    ∃ q s, latest env allowed = .ok q ∧ session env p allowed dflt .closedBeforeReply = .ok s ∧
      s.outcome = .connect dflt ∧
      s.conns.map (connBytes lsId) =
        [firstBytes lsId p (.query q), firstBytes lsId p (.direct dflt)] ∧
      (segsL.flatten = firstBytes lsId p (.direct dflt) →
        serverRecv segsL = .ok ⟨⟨dflt, p.host, p.port, 2⟩, [(lsId, encString name)], none⟩) := by
  obtain ⟨q, hq, hsess⟩ := session_closed env p allowed dflt h2 hr
  refine ⟨q, _, hq, hsess, rfl, rfl, ?_⟩
  intro hseg
  rw [serverRecv_spec, hseg, serverParse_direct lsId p dflt name hh hp hd hl hname hs]

/-- (c) Plain `status()`.  On a connection object built by `Connection(…)` (`ctor`), the bytes a
plain status query writes (handshake + request, no ping) are those of the status plan for
`context.protocol_version`; the reference server reads from them a handshake whose protocol number
is `cfg.ctx` — the LATEST allowed version (a member of the allowed set, strictly later-ranked than
every other member), NOT `initial_version` unless none was given — with the configured host and
port and next state 1, then the status request, and nothing else. -/
theorem status_handshake_bytes (env : VEnv) (allowed : Option (List VReq))
    (initial : Option VReq) (cfg : Cfg) (p : ConnParams) (lsId : Nat) (segs : Segs)
    (h : ctor env allowed initial = .ok cfg) (hh : StrOK p.host) (hp : p.port < 65536)
    (hc : cfg.ctx < 2 ^ 32)
    (hseg : segs.flatten = (clientWrites lsId (statusFrames p cfg.ctx none)).1) :
    clientWrites lsId (statusFrames p cfg.ctx none) = (firstBytes lsId p (.query cfg.ctx), none) ∧
    serverRecv segs = .ok ⟨⟨cfg.ctx, p.host, p.port, 1⟩, [(0, [])], none⟩ ∧
    cfg.ctx ∈ cfg.allowed ∧
    (∀ a ∈ cfg.allowed, a ≠ cfg.ctx → rankOf env a < rankOf env cfg.ctx) ∧
    (initial = none → cfg.default = cfg.ctx) := by
  have hw : clientWrites lsId (statusFrames p cfg.ctx none) =
      (firstBytes lsId p (.query cfg.ctx), none) := by
    have := (client_writes_first_bytes lsId p (.query cfg.ctx)).1 hp (fun v hv => by cases hv)
    simpa [statusFrames] using this
  obtain ⟨-, -, -, -, -, -, hm, hmax, hd, -⟩ := C09.ctor_ok_spec env allowed initial cfg h
  refine ⟨hw, ?_, hm, hmax, hd⟩
  rw [hw] at hseg
  rw [serverRecv_spec, hseg, serverParse_query lsId p cfg.ctx hh hp hc]

/-- (d) The ping is echoed byte for byte.  For EVERY `Long` `t` (all `2^64` values, signed as
Python's `struct '>q'`): the client's ping frame is `09 01` followed by 8 payload bytes `b`; the
status stream handshake + request + ping is written without an exception and the reference server
— under any segmentation — reads from it next state 1, the request and a ping that decodes to `t`;
the pong it answers with (the `Long` it decoded, re-encoded) is `09 01` followed by THE SAME 8
bytes `b`; and the client — under any segmentation — decodes that pong to the `t` it sent, then end
of stream (`EOFError`: nothing follows the pong). -/
theorem ping_echo_bytes (lsId : Nat) (p : ConnParams) (ctx : Nat) (t : Int) (json : String)
    (segsC segsS : Segs) (ht : IntT.i64.inDom t) (hh : StrOK p.host) (hp : p.port < 65536)
    (hc : ctx < 2 ^ 32)
    (hC : segsC.flatten = (clientWrites lsId (statusFrames p ctx (some t))).1) :
    ∃ b, b.length = 8 ∧ IntT.i64.pack t = .ok b ∧
      frameBytes lsId (.ping t) = [0x09, 0x01] ++ b ∧
      (clientWrites lsId (statusFrames p ctx (some t))).2 = none ∧
      (∃ rcv, serverRecv segsC = .ok rcv ∧ rcv.hs = ⟨ctx, p.host, p.port, 1⟩ ∧
        rcv.frames = [(0, []), (1, b)] ∧ rcv.decoded lsId = [.request, .ping t] ∧
        rcv.err = none) ∧
      serverReply json (.ping t) = .ok ([0x09, 0x01] ++ b) ∧
      (segsS.flatten = [0x09, 0x01] ++ b → clientRecvStatus segsS = ([.pong t], .eof)) := by
  obtain ⟨b, hb, hpack, hun⟩ := i64_roundtrip t ht
  have hq : HsOK ⟨ctx, p.host, p.port, 1⟩ := ⟨hc, hh, hp, by show (1 : Nat) < 2 ^ 32; omega⟩
  have hw : clientWrites lsId (statusFrames p ctx (some t)) =
      (plainFrame 0 (handshakeFields ⟨ctx, p.host, p.port, 1⟩) ++
        ([(0, []), (1, b)].map (packetFrame noZlib none)).flatten, none) := by
    simp only [statusFrames, firstFrames, List.map_cons, List.map_nil, List.cons_append,
      List.nil_append, clientWrites, STATE_STATUS,
      writeFrame_handshake lsId ⟨ctx, p.host, p.port, 1⟩ hp, writeFrame_request,
      writeFrame_ping lsId t b hpack, plainFrame, List.flatten_cons, List.flatten_nil]
  have hok : ∀ q ∈ [((0 : Nat), ([] : Bytes)), (1, b)], FrameOK noZlib none q := by
    intro q hq'
    simp only [List.mem_cons, List.not_mem_nil, or_false] at hq'
    rcases hq' with rfl | rfl
    · exact frameOK_fixed 0 [] (by omega) (by simp)
    · exact frameOK_fixed 1 b (by omega) (by omega)
  refine ⟨b, hb, hpack, ?_, by rw [hw], ?_, ?_, ?_⟩
  · rw [frameBytes_ping lsId t b hpack, plainFrame_long b hb]
  · rw [hw] at hC
    rw [serverRecv_spec, hC, serverParse_ok _ _ hq hok]
    refine ⟨_, rfl, rfl, rfl, ?_, rfl⟩
    simp only [Received.decoded, List.map_cons, List.map_nil, decode_request,
      decode_ping lsId t b hun]
  · show pongBytes t = _
    rw [pongBytes_ok t b hpack, plainFrame_long b hb]
  · intro hS
    have hfr : segsS.flatten = ([((1 : Nat), b)].map (packetFrame noZlib none)).flatten := by
      rw [hS, ← plainFrame_long b hb]
      simp [plainFrame]
    rw [clientRecvStatus_frames [(1, b)] segsS
      (fun q hq' => by
        simp only [List.mem_singleton] at hq'; subst hq'
        exact frameOK_fixed 1 b (by omega) (by omega)) hfr]
    simp only [decodeStatusAll, decode_pong t b hun]
    rfl

/-- (d) … and the other way round: ANY 8 payload bytes a server puts into a pong are a `Long` the
client decodes — one `pong` packet, then `EOFError` on the exhausted stream — and re-encoding that
`Long` gives the same 8 bytes (no two byte patterns collapse, `-0`/sign included). -/
theorem pong_payload_is_a_long (b : Bytes) (hb : b.length = 8) (segs : Segs)
    (hseg : segs.flatten = [0x09, 0x01] ++ b) :
    ∃ t, IntT.i64.inDom t ∧ clientRecvStatus segs = ([.pong t], .eof) ∧
      IntT.i64.pack t = .ok b := by
  obtain ⟨t, hun, hpack⟩ := i64_unpack_pack b [] hb
  obtain ⟨v, e1, e2, -, -⟩ := IntT.unpack_spec .i64 b [] hb
  rw [hun] at e1
  injection e1 with e1
  injection e1 with e1 _
  subst e1
  refine ⟨t, e2, ?_, hpack⟩
  have hfr : segs.flatten = ([((1 : Nat), b)].map (packetFrame noZlib none)).flatten := by
    rw [hseg, ← plainFrame_long b hb]
    simp [plainFrame]
  rw [clientRecvStatus_frames [(1, b)] segs
    (fun q hq' => by
      simp only [List.mem_singleton] at hq'; subst hq'
      exact frameOK_fixed 1 b (by omega) (by omega)) hfr]
  rw [List.append_nil] at hun
  simp [decodeStatusAll, decodeClientboundStatus, hun]

/-- (d) A ping time outside the signed 64-bit range cannot be written: `Long.send` raises
`struct.error` and nothing reaches the socket.  (`int(1000 * timeit.default_timer())` stays in
range for the next 292 million years.) -/
theorem ping_out_of_range_raises (lsId : Nat) (t : Int) (h : ¬ IntT.i64.inDom t) :
    writeFrame lsId (.ping t) = .error .struct ∧ frameBytes lsId (.ping t) = [] := by
  have := writeFrame_ping_err lsId t h
  exact ⟨this, by rw [frameBytes, this]⟩

/-- (e) The status response survives the wire.  For any JSON text (an opaque string; UTF-8 byte
length within the VarInt range — `String.read` imposes no limit of its own), the bytes of the
`ResponsePacket` a server writes are decoded by the client, under ANY segmentation, to exactly one
`response` packet carrying the same text, THEN END OF STREAM: the next `read_packet` finds the stream
exhausted and raises `EOFError` (`.eof`), which is what ends the networking loop. -/
theorem status_response_roundtrip (json : String) (segs : Segs) (hj : StrOK json)
    (hseg : segs.flatten = responseBytes json) :
    clientRecvStatus segs = ([.response json], .eof) := by
  have hfr : segs.flatten =
      ([((0 : Nat), encString json)].map (packetFrame noZlib none)).flatten := by
    rw [hseg]; simp [responseBytes, plainFrame]
  rw [clientRecvStatus_frames [(0, encString json)] segs
    (fun q hq => by
      simp only [List.mem_singleton] at hq; subst hq
      exact frameOK_string 0 json (by omega) hj) hfr]
  simp only [decodeStatusAll, decode_response json hj]
  rfl

/-- (e) The whole status exchange, bytes in, C09 out.  If the server's byte stream is the response
for `json` followed by the pong for the time `t₁` the client stamped its ping with, then under any
segmentation the client's reader hands `[response json, pong t₁]` to the reactor, then end of stream
(`EOFError` on the exhausted stream), and the reactor
(`runStatus`, property C09) reports the status once, sends one ping, reports the latency
`t₂ − t₁ ≥ 0` once, disconnects once and runs the exit callback once. -/
theorem status_exchange_bytes (json : String) (t₁ t₂ : Nat) (clock : List Nat) (pong : Bytes)
    (segs : Segs) (hj : StrOK json) (hmono : t₁ ≤ t₂) (hpong : pongBytes (t₁ : Int) = .ok pong)
    (hseg : segs.flatten = responseBytes json ++ pong) :
    clientRecvStatus segs = ([.response json, .pong (t₁ : Int)], .eof) ∧
    runStatus true (clientRecvStatus segs).1 (t₁ :: t₂ :: clock) =
      some ⟨[.sendPing t₁, .handleStatus json, .disconnect, .handlePing ((t₂ : Int) - t₁)],
        true, 1⟩ ∧
    (0 : Int) ≤ (t₂ : Int) - t₁ := by
  have hdom : IntT.i64.inDom (t₁ : Int) := by
    by_cases hd : IntT.i64.inDom (t₁ : Int)
    · exact hd
    · rw [pongBytes, i64_pack_err _ hd] at hpong
      cases hpong
  obtain ⟨b, hb, hpack, hun⟩ := i64_roundtrip _ hdom
  rw [pongBytes_ok _ b hpack] at hpong
  injection hpong with hpong
  have hfr : segs.flatten =
      ([((0 : Nat), encString json), (1, b)].map (packetFrame noZlib none)).flatten := by
    rw [hseg, ← hpong]; simp [responseBytes, plainFrame]
  have hrecv : clientRecvStatus segs = ([.response json, .pong (t₁ : Int)], .eof) := by
    rw [clientRecvStatus_frames [(0, encString json), (1, b)] segs
      (fun q hq => by
        simp only [List.mem_cons, List.not_mem_nil, or_false] at hq
        rcases hq with rfl | rfl
        · exact frameOK_string 0 json (by omega) hj
        · exact frameOK_fixed 1 b (by omega) (by omega)) hfr]
    simp only [decodeStatusAll, decode_response json hj, decode_pong _ b hun]
    rfl
  refine ⟨hrecv, ?_, by omega⟩
  rw [hrecv]
  exact (C09.status_once_ping json [] t₁ t₂ clock hmono).1

/-- (f) Negative witness: the statements are sensitive to the encoding details.  On the concrete
handshake (protocol 757, host "play.é世.example" — 15 characters, 18 UTF-8 bytes — port 25565 =
0x63DD, next state 2) followed by the login start of "u", the reference server recovers the record
from the client's encoding; but from a variant that writes the port LITTLE-endian it reads port
56675 (0xDD63), and from a variant that prefixes the host with its CHARACTER count instead of its
byte count it reads the host "play.é世.exam", takes "pl" for the port and "e" for the next state,
finds bytes left over and refuses the frame.  On an all-ASCII host with a byte-palindromic port
(257 = 0x0101) both faults are invisible — which is why the witness uses these values. -/
theorem wrong_encoding_detected :
    serverRecv [streamWith handshakeFields demoHs] =
        .ok ⟨demoHs, [(0, encString "u")], none⟩ ∧
      serverRecv [streamWith handshakeFieldsLE demoHs] =
        .ok ⟨{ demoHs with port := 56675 }, [(0, encString "u")], none⟩ ∧
      serverRecv [streamWith handshakeFieldsChars demoHs] = .error .other ∧
      serverParseHandshake (handshakeFieldsChars demoHs) =
        .ok (⟨757, "play.é世.exam", 0x706c, 0x65⟩, [0x63, 0xdd, 0x02]) ∧
      streamWith handshakeFieldsLE ⟨757, "localhost", 257, 2⟩ =
        streamWith handshakeFields ⟨757, "localhost", 257, 2⟩ ∧
      streamWith handshakeFieldsChars ⟨757, "localhost", 257, 2⟩ =
        streamWith handshakeFields ⟨757, "localhost", 257, 2⟩ := by
  decide +kernel

/-! ### Non-vacuity: concrete parameters (kernel-evaluated) -/

/-- The guards hold for the example parameters, for both kinds of plan and both login-start ids. -/
example : FirstOK 0 demoParams (.direct 757) ∧ FirstOK 0 demoParams (.query 757) ∧
    FirstOK 1 demoParamsU (.direct 389) ∧ HsOK demoHs ∧ StrOK "{\"version\":{\"protocol\":757}}" ∧
    IntT.i64.inDom (-2) ∧ ¬ IntT.i64.inDom (2 ^ 63) := by decide +kernel

/-- `connect()` with one allowed version, "localhost":25565, user "u", protocol 757:
`10 | 00 | f5 05 | 09 "localhost" | 63 dd | 02` is the handshake (length 16, id 0, VarInt 757,
the host behind its byte length, the port big-endian, next state 2), `03 | 00 | 01 "u"` the login
start. -/
example : firstBytes 0 demoParams (.direct 757) =
    [0x10, 0x00, 0xf5, 0x05, 0x09, 0x6c, 0x6f, 0x63, 0x61, 0x6c, 0x68, 0x6f, 0x73, 0x74, 0x63, 0xdd,
     0x02, 0x03, 0x00, 0x01, 0x75] := by decide +kernel

/-- The status query for the same parameters: the handshake differs in its last byte only, then
the empty request `01 | 00`. -/
example : firstBytes 0 demoParams (.query 757) =
    [0x10, 0x00, 0xf5, 0x05, 0x09, 0x6c, 0x6f, 0x63, 0x61, 0x6c, 0x68, 0x6f, 0x73, 0x74, 0x63, 0xdd,
     0x01, 0x01, 0x00] := by decide +kernel

/-- A non-ASCII host: the length prefix is the BYTE count 18 (0x12), not the character count 15;
login start with id 1 (snapshot numbering). -/
example : firstBytes 1 demoParamsU (.direct 389) =
    [0x19, 0x00, 0x85, 0x03, 0x12] ++ utf8 "play.é世.example" ++ [0x63, 0xdd, 0x02] ++
      [0x03, 0x01, 0x01, 0x75] ∧
    (utf8 "play.é世.example").length = 18 ∧ "play.é世.example".length = 15 := by decide +kernel

/-- `server_recovers_first_frames` on a segmentation cutting through the length prefix, the host
and the port. -/
example : ∃ r, serverRecv [[0x19], [0x00, 0x85], [0x03, 0x12, 0x70, 0x6c, 0x61, 0x79, 0x2e, 0xc3],
      [0xa9, 0xe4, 0xb8], [0x96, 0x2e, 0x65, 0x78, 0x61, 0x6d, 0x70, 0x6c, 0x65, 0x63],
      [0xdd, 0x02, 0x03], [], [0x01, 0x01, 0x75]] = .ok r ∧ r.err = none ∧
    r.hs = ⟨389, "play.é世.example", 25565, 2⟩ ∧
    ∃ name, loginName demoParamsU = some name ∧ r.frames = [(1, encString name)] ∧
      r.decoded 1 = [.loginStart name] := by
  obtain ⟨r, h1, h2, h3, h4, -⟩ := server_recovers_first_frames 1 demoParamsU (.direct 389)
    [[0x19], [0x00, 0x85], [0x03, 0x12, 0x70, 0x6c, 0x61, 0x79, 0x2e, 0xc3],
      [0xa9, 0xe4, 0xb8], [0x96, 0x2e, 0x65, 0x78, 0x61, 0x6d, 0x70, 0x6c, 0x65, 0x63],
      [0xdd, 0x02, 0x03], [], [0x01, 0x01, 0x75]] (by decide +kernel) (by decide +kernel)
  exact ⟨r, h1, h2, h3, h4 389 rfl⟩

/-- The failure modes of `client_writes_first_bytes`: port 65536 — nothing is sent; no user name
— the handshake is sent, the login start is not. -/
example : clientWrites 0 ((firstFrames ⟨"localhost", 65536, some "u", none⟩ (.direct 757)).map
      .first) = ([], some .struct) ∧
    clientWrites 0 ((firstFrames ⟨"a", 25565, none, none⟩ (.direct 47)).map .first) =
      ([0x07, 0x00, 0x2f, 0x01, 0x61, 0x63, 0xdd, 0x02], some .other) := by decide +kernel

/-- A truncated stream is not mistaken for a clean one: cut inside the login start, the server has
the handshake but reports `eof`; cut inside the handshake, it has nothing. -/
example : serverRecv [(firstBytes 0 demoParams (.direct 757)).take 19] =
      .ok ⟨⟨757, "localhost", 25565, 2⟩, [], some .eof⟩ ∧
    serverRecv [(firstBytes 0 demoParams (.direct 757)).take 16] = .error .eof := by
  decide +kernel

/-- Hypotheses of `negotiated_reply_in_bytes` / `negotiated_default_in_bytes` with the C09 example
environment, and the two connections' bytes. -/
example : (2 ≤ [47, 340].length) ∧ (∀ a ∈ [47, 340], a ∈ C09.envEx.knownOrder) ∧
    (∀ a ∈ [47, 340], a < 2 ^ 32) ∧
    (session C09.envEx demoParams [47, 340] 340 (.proto 47 none)).map
        (fun s => s.conns.map (connBytes 0)) =
      .ok [firstBytes 0 demoParams (.query 340), firstBytes 0 demoParams (.direct 47)] ∧
    (firstBytes 0 demoParams (.direct 47)).take 3 = [0x0f, 0x00, 0x2f] ∧
    (firstBytes 0 demoParams (.query 340)).take 4 = [0x10, 0x00, 0xd4, 0x02] := by
  decide +kernel

/-- Hypotheses of `status_handshake_bytes`: a constructed connection whose default (754) is not
what `status()` puts into the handshake (340, the latest ALLOWED version). -/
example : ctor C09.envEx (some [.num 340, .num 47]) (some (.num 754)) = .ok ⟨[47, 340], 754, 340⟩ ∧
    (clientWrites 0 (statusFrames demoParams 340 none)).1 =
      [0x10, 0x00, 0xd4, 0x02, 0x09, 0x6c, 0x6f, 0x63, 0x61, 0x6c, 0x68, 0x6f, 0x73, 0x74, 0x63,
       0xdd, 0x01, 0x01, 0x00] := by decide +kernel

/-- `ping_echo_bytes` for `t = -2` (`ff … fe`): the client's stream, what the server reads, its
pong, and the client reading the pong one byte at a time. -/
example :
    (clientWrites 0 (statusFrames demoParams 757 (some (-2)))).1 =
      firstBytes 0 demoParams (.query 757) ++
        [0x09, 0x01, 0xff, 0xff, 0xff, 0xff, 0xff, 0xff, 0xff, 0xfe] ∧
    (serverRecv [(clientWrites 0 (statusFrames demoParams 757 (some (-2)))).1]).map
        (fun r => r.decoded 0) = .ok [.request, .ping (-2)] ∧
    serverReply "{}" (.ping (-2)) =
      .ok [0x09, 0x01, 0xff, 0xff, 0xff, 0xff, 0xff, 0xff, 0xff, 0xfe] ∧
    clientRecvStatus ([0x09, 0x01, 0xff, 0xff, 0xff, 0xff, 0xff, 0xff, 0xff, 0xfe].map
        fun x => [x]) = ([.pong (-2)], .eof) := by decide +kernel

/-- `status_response_roundtrip` / `status_exchange_bytes` on a non-ASCII JSON text, the response
cut inside the two-byte character. -/
example : responseBytes "{\"é\":1}" = [0x0a, 0x00, 0x08, 0x7b, 0x22, 0xc3, 0xa9, 0x22, 0x3a, 0x31, 0x7d] ∧
    clientRecvStatus [[0x0a, 0x00, 0x08, 0x7b, 0x22, 0xc3], [0xa9, 0x22, 0x3a, 0x31, 0x7d]] =
      ([.response "{\"é\":1}"], .eof) ∧
    pongBytes 1000 = .ok [0x09, 0x01, 0, 0, 0, 0, 0, 0, 0x03, 0xe8] := by decide +kernel

example : runStatus true
    (clientRecvStatus [responseBytes "{}" ++ [0x09, 0x01, 0, 0, 0, 0, 0, 0, 0x03, 0xe8]]).1
    [1000, 1042] =
    some ⟨[.sendPing 1000, .handleStatus "{}", .disconnect, .handlePing 42], true, 1⟩ :=
  (status_exchange_bytes "{}" 1000 1042 [] [0x09, 0x01, 0, 0, 0, 0, 0, 0, 0x03, 0xe8] _
    (by decide +kernel) (by decide) (by decide +kernel) (by simp)).2.1

/-- What the client's reader does with bytes that are not a status packet it knows, invalid UTF-8
or a short `Long`: an unknown id is delivered as `other`, the rest raises. -/
example : clientRecvStatus [[0x02, 0x07, 0xaa]] = ([.other], .eof) ∧
    clientRecvStatus [[0x03, 0x00, 0x01, 0xc3]] = ([], .decode) ∧
    clientRecvStatus [[0x03, 0x01, 0x00, 0x00]] = ([], .struct) ∧
    clientRecvStatus [[0x03, 0x00, 0x05, 0x61]] = ([], .eof) := by decide +kernel

/-- An EXHAUSTED stream is `EOFError` for the client's reader, never a silent clean end: no byte at
all, only empty arrivals, a clean end behind a complete frame, and a cut inside a frame all end the
run with `.eof` (the reference SERVER, `recvFrames`, is the one that tells a clean end — `none` —
from a cut). -/
example : clientRecvStatus [] = ([], .eof) ∧ clientRecvStatus [[], []] = ([], .eof) ∧
    clientRecvStatus [responseBytes "{}"] = ([.response "{}"], .eof) ∧
    clientRecvStatus [(responseBytes "{}").take 3] = ([], .eof) ∧
    recvFrames 1 (Sock.plain []) = ([], none) := by decide +kernel

end PyCraft.C09Wire
