import PyCraft.Lemmas.VersionProfiles
import PyCraft.Props.C11Wire
import PyCraft.Props.C10Wire
import PyCraft.Props.Session
/-!
# Version ↦ profile — the version-dependent parameters of C09Wire/C10Wire/C11/C11Wire are pinned

The play theorems (`Props/C11.lean`, `Props/C11Wire.lean`) are quantified over a `Profile` — six
packet ids and the switches `kaLong`, `newer107`, `dismount` — with `cbDistinct`/`sbDistinct` as
hypotheses; the login theorems (`Props/C10Wire.lean`) over `LoginWire.Ids` with `encResp ≠
plugResp` as a hypothesis; `Props/C09Wire.lean` over the login-start id.  Nothing said WHICH values
a protocol version gets, nor that reader, reactor and writer get the same one.  This file closes
that: `profileOf v`, `loginProfileOf v` (`Model/VersionProfiles.lean`) are computed from the
regenerated tables of the live code (`Generated/Ids.lean`: `get_packets`/`get_id`;
`Generated/VersionProfiles.lean`: class ↦ `packet_name`, and the BEHAVIOUR of the real
`PlayingReactor`/`LoginReactor`, `read`s and `write`s under every supported version), and the
theorems below hold for EVERY supported protocol version `v ∈ liveTables.supportedProtocols`
(250 on the current tree) — re-checked by the kernel on every regeneration.

The switch points are stated with the model of `ConnectionContext.protocol_later_eq` /
`protocol_earlier_eq` on the live version tables (`laterEq liveTables v b`, `Model/Versions.lean`,
tied to `minecraft/__init__.py` by `C08.model_eq_live`): "from protocol 107 on" means
`protocol_later_eq(107)`, which for snapshot numbers is NOT the numeric order.

Only property theorems and non-vacuity examples live here; helper lemmas are in
`Lemmas/VersionProfiles.lean`.
-/
namespace PyCraft.VersionProfiles
open PyCraft PyCraft.Play PyCraft.PlayWire PyCraft.Login PyCraft.LoginWire PyCraft.Session

/-- (1) Every supported version determines a play profile, and its switches are where the property
says.  For every supported `v` the tables determine exactly one profile `P` (each of the names
"keep alive", "player position and look", "disconnect" that `PlayingReactor.react` tests belongs to
exactly one registered class, reader and writer of the keep-alive id agree, every id is present), and
* the keep-alive id is a Long exactly from protocol 339 on, a VarInt before;
* the position-and-look packet carries a teleport id — and is therefore answered with a teleport
  confirm instead of the position echo — exactly from protocol 107 on;
* the dismount flag exists exactly from 755 on (and only together with the teleport id);
* a play-state "set compression" packet is known exactly up to protocol 47;
* the three clientbound ids the reactor reacts to are pairwise distinct, no other known clientbound
  packet has one of them, the two serverbound ids in use differ, and the teleport confirm is 0x00.
These are the hypotheses `hP`, `hSb` and the free flags of every C11Wire theorem. -/
theorem profile_at_every_supported_version (v : Nat) (hv : v ∈ liveTables.supportedProtocols) :
    ∃ P, profileOf v = some P ∧
      laterEq liveTables v 339 = .ok P.kaLong ∧
      laterEq liveTables v 107 = .ok P.newer107 ∧
      laterEq liveTables v 755 = .ok P.dismount ∧
      earlierEq liveTables v 47 = .ok (setCompOf P).isSome ∧
      (P.dismount = true → P.newer107 = true) ∧
      P.cbDistinct = true ∧ P.sbDistinct = true ∧
      (∀ e ∈ P.others, e.1 ≠ P.kaCb ∧ e.1 ≠ P.posLookCb ∧ e.1 ≠ P.disconnectCb) ∧
      P.teleportConfirmSb = 0 := by
  obtain ⟨P, hP⟩ := profileOf_total hv
  obtain ⟨r, -, -, -, -, hok, f1, f2, f3, f4, k1, k2, k3, k4⟩ := profile_facts hv hP
  obtain ⟨c1, c2, -, c4, -, c6, c7⟩ := rowOk_facts hok
  have hk := supported_known hv
  refine ⟨P, hP, ?_, ?_, ?_, ?_, c6, c1, c2, ?_, c7⟩
  · rw [laterEq_live hk k1, f1]
  · rw [laterEq_live hk k2, f2]
  · rw [laterEq_live hk k3, f3]
  · rw [earlierEq_live hk k4, f4]
  · intro e he
    simp only [othersDisjoint, List.all_eq_true, Bool.and_eq_true, bne_iff_ne, ne_eq] at c4
    exact ⟨(c4 e he).1.1, (c4 e he).1.2, (c4 e he).2⟩

/-- (2) Where the ids come from.  The profile's ids are those of the regenerated id tables: in the
row of `clientbound.play.get_packets`/`get_id` for `v` the reaction names resolve to one class each
under the profile's ids, each carried by NO other class of the row (so the reactor's dict
`{get_id(ctx): class}` maps them to those classes whatever the set iteration order — the known id
collisions K1 never touch a reacted id); the replies are written with the ids the serverbound row
registers for `KeepAlivePacket`, `PositionAndLookPacket` and — from 107 on — `TeleportConfirmPacket`,
again carried by one class each; `others` is the rest of the clientbound row with its packet
names. -/
theorem profile_ids_from_tables (v : Nat) (hv : v ∈ liveTables.supportedProtocols) (P : Profile)
    (hP : profileOf v = some P) :
    ∃ cb ∈ Gen.cbPlay, ∃ sb ∈ Gen.sbPlay, cb.1 = v ∧ sb.1 = v ∧ cb.2.1 = true ∧ sb.2.1 = true ∧
      (∃ c, dispatchIn cb.2.2 Gen.cbPlayNames "keep alive" = some (c, P.kaCb)) ∧
      (∃ c, dispatchIn cb.2.2 Gen.cbPlayNames "player position and look" =
        some (c, P.posLookCb)) ∧
      (∃ c, dispatchIn cb.2.2 Gen.cbPlayNames "disconnect" = some (c, P.disconnectCb)) ∧
      idIn sb.2.2 "KeepAlivePacket" = some P.kaSb ∧
      idIn sb.2.2 "PositionAndLookPacket" = some P.posLookSb ∧
      (P.newer107 = true → idIn sb.2.2 "TeleportConfirmPacket" = some P.teleportConfirmSb) ∧
      countId cb.2.2 P.kaCb = 1 ∧ countId cb.2.2 P.posLookCb = 1 ∧
      countId cb.2.2 P.disconnectCb = 1 ∧ countId sb.2.2 P.kaSb = 1 ∧ countId sb.2.2 P.ackSb = 1 ∧
      P.others = othersOf cb.2.2 Gen.cbPlayNames := by
  obtain ⟨r, -, hmem, hrv, hrow, hok, -⟩ := profile_facts hv hP
  obtain ⟨d1, d2, d3, -, -, i1, i2, i3, e1, -, e3, e4, eo⟩ := profileOfRow_some hrow
  obtain ⟨-, -, hu, -⟩ := rowOk_facts hok
  obtain ⟨m1, m2, -⟩ := playRows_mem hmem
  simp only [unshared, Bool.and_eq_true, beq_iff_eq] at hu
  refine ⟨r.cb, m1, r.sb, m2, hrv, e1.trans hrv, e3, e4, d1, d2, d3, i1, i2, ?_, hu.1.1.1.1,
    hu.1.1.1.2, hu.1.1.2, hu.1.2, hu.2, eo⟩
  intro hn
  rw [hn] at i3
  exact i3

/-- (3) One flag, two Python tests — and the third, the writer.  What the real code DID under
protocol `v` (the probe row of `v`, produced by running `read`, `PlayingReactor.react` and `write`
on reference inputs) is what the profile says: `KeepAlivePacket.read` consumed a signed Long iff
`kaLong` and the reply was written in the SAME width; `PlayerPositionAndLookPacket.read` consumed a
teleport id iff `newer107` (and the dismount flag iff `dismount`), and `react` — whose version test
`connection.py:814` is textually independent of the packet's — answered with a teleport confirm
carrying that id iff `newer107`, else with the echo of the 32 bytes read and `on_ground = 1`, and
set `spawned`; the replies went out under the profile's ids; a disconnect packet made it call
`disconnect()` once and write nothing. -/
theorem reactor_reader_writer_agree (v : Nat) (hv : v ∈ liveTables.supportedProtocols)
    (P : Profile) (hP : profileOf v = some P) :
    ∃ pr ∈ Gen.playProbe, pr.v = v ∧
      pr.kaRead = (if P.kaLong then 1 else 0) ∧ pr.kaWrite = (if P.kaLong then 1 else 0) ∧
      pr.posRead = (if P.dismount then 2 else if P.newer107 then 1 else 0) ∧
      pr.ackKind = (if P.newer107 then 1 else 0) ∧
      pr.kaCb = P.kaCb ∧ pr.kaSb = P.kaSb ∧ pr.posCb = P.posLookCb ∧ pr.ackSb = P.ackSb ∧
      pr.discCb = P.disconnectCb ∧ pr.discKind = 1 ∧ pr.setComp = setCompOf P := by
  obtain ⟨r, -, hmem, hrv, hrow, hok, -⟩ := profile_facts hv hP
  obtain ⟨-, -, -, hkl, hfl, -, -, -, -, e2, -, -, -⟩ := profileOfRow_some hrow
  obtain ⟨-, -, -, -, hb, -, -⟩ := rowOk_facts hok
  obtain ⟨-, -, m3⟩ := playRows_mem hmem
  obtain ⟨k1, k2, k3⟩ := kaLongOfProbe_some hkl
  obtain ⟨p1, p2, p3⟩ := posFlagsOfProbe_some hfl
  simp only [behaviourOk, Bool.and_eq_true, beq_iff_eq] at hb
  obtain ⟨⟨⟨⟨⟨⟨⟨b1, b2⟩, b3⟩, b4⟩, b5⟩, b6⟩, b7⟩, b8⟩ := hb
  refine ⟨r.pr, m3, e2.trans hrv, ?_, ?_, ?_, b5, b1, b2, b3, b4, b6, b7, b8⟩
  · rw [k1]; rcases k3 with h | h <;> simp [h]
  · rw [k2, k1]; rcases k3 with h | h <;> simp [h]
  · rw [p1, p2]
    have : r.pr.posRead = 0 ∨ r.pr.posRead = 1 ∨ r.pr.posRead = 2 := by omega
    rcases this with h | h | h <;> simp [h]

/-- (4) The switch from echo to teleport confirm is at protocol 107 (C11 clause "a teleport
confirm with the same id from protocol 107 on, an echoing position packet before that").  For every
supported `v` with its profile `P` and every position-and-look packet a server writes: if
`protocol_later_eq(107)` holds for `v`, the reply due is exactly one `TeleportConfirmPacket` (id
0x00) whose field is the packet's teleport id as a VarInt; otherwise it is exactly one serverbound
position-and-look (the id the serverbound table registers) whose fields are the first 32 bytes of
the server's own fields followed by `on_ground = 1`.  Exactly one of the two cases applies. -/
theorem teleport_switch_at_107 (v : Nat) (hv : v ∈ liveTables.supportedProtocols) (P : Profile)
    (hP : profileOf v = some P) (x y z yaw pitch flags tid : Nat) (dv : Bool) :
    let p := SrvPkt.posLook x y z yaw pitch flags tid dv
    (laterEq liveTables v 107 = .ok true ∨ laterEq liveTables v 107 = .ok false) ∧
    (laterEq liveTables v 107 = .ok true →
      replyTo P.newer107 p.ev = [.teleportConfirm tid] ∧
      ackOf P p = some (0, encVarInt tid) ∧
      replyFields P (.teleportConfirm tid) = (0, encVarInt tid)) ∧
    (laterEq liveTables v 107 = .ok false →
      replyTo P.newer107 p.ev = [.positionEcho x y z yaw pitch true] ∧
      ackOf P p = some (P.posLookSb, (serverFields P p).2.take 32 ++ [1])) := by
  intro p
  obtain ⟨P', hP', -, h107, -, -, -, -, -, -, htc⟩ := profile_at_every_supported_version v hv
  have : P' = P := Option.some.inj (hP'.symm.trans hP)
  subst this
  refine ⟨?_, ?_, ?_⟩
  · rw [h107]; cases P'.newer107 <;> simp
  · intro h
    have hn : P'.newer107 = true := by rw [h107] at h; exact (Except.ok.inj h)
    simp [p, replyTo, ackOf, replyFields, SrvPkt.ev, hn, htc]
  · intro h
    have hn : P'.newer107 = false := by rw [h107] at h; exact (Except.ok.inj h)
    simp [p, replyTo, ackOf, SrvPkt.ev, hn]

/-- (5) C11Wire's end-to-end theorem at a protocol version.  `C11Wire.session_end_to_end` with the
profile no longer a parameter: for EVERY supported `v` the profile `profileOf v` exists and, with
no hypothesis on ids or flags left, server bytes in (any well-formed packets — play-state "set
compression" packets included, each switching the threshold of both directions at its position —,
any initial threshold, zlib, cipher pair, chunking and segmentation) are decoded by the client, the
loop runs (any caps with `capR ≥ 1`), and the reference server reading the client's bytes in any
segmentation recovers exactly the replies due to the packets before the first disconnect — in the
keep-alive width, with the acknowledgement kind and under the ids protocol `v` prescribes (theorems
(1)–(4)), every reply framed with the threshold in force when it was written (`thrTags`).  By (6) only
versions up to 47 have set-compression packets at all; for the later ones `thrAt thr pkts n = thr`
throughout. -/
theorem session_end_to_end_at (v : Nat) (hv : v ∈ liveTables.supportedProtocols) :
    ∃ P, profileOf v = some P ∧
      ∀ {σ τ : Type} (cpS : CipherPair σ) (s0 : σ) (cpC : CipherPair τ) (t0 : τ) (z : Zlib)
        (thr : Option Int) (pkts : List SrvPkt) (capW capR : Nat), 1 ≤ capR →
        (∀ p ∈ pkts, p.wf P = true) →
        ServerOK z.toZlibOps P thr pkts →
        (∀ q ∈ due P pkts, ∀ n ≤ pkts.length,
          FrameOK z.toZlibOps (thrAt thr pkts n) (replyFields P q)) →
        ∀ (sends : List Bytes), sends.flatten = serverBytes z.toZlibOps thr P pkts →
        ∀ (segsIn : Segs), segsIn.flatten = (encSends cpS.enc s0 sends).2.flatten →
        ∃ inbox r tw, clientRead P cpS.dec s0 z.toZlibOps thr.isSome segsIn = (inbox, .eof) ∧
          runLoop P.newer107 true capW capR inbox = some r ∧
          runT P.newer107 true capW capR inbox = some tw ∧ tw.map (·.1) = r.wire ∧
          r.closed = hasDiscP pkts ∧
          ∀ (last : Bool) (segsOut : Segs),
            segsOut.flatten =
              (clientWireT z.toZlibOps P cpC.enc t0 (thrTags thr pkts tw)).flatten →
            serverDecodeRepliesM P cpC.dec t0 z.toZlibOps
              ((thrTags thr pkts tw).map (·.2.isSome)) last segsOut = (due P pkts, .eof) := by
  obtain ⟨P, hP, -, -, -, -, -, c1, c2, -, -⟩ := profile_at_every_supported_version v hv
  refine ⟨P, hP, ?_⟩
  intro σ τ cpS s0 cpC t0 z thr pkts capW capR hR hwf hokS hokC sends hsends segsIn hin
  exact C11Wire.session_end_to_end cpS s0 cpC t0 z thr P pkts capW capR hR c1 c2 hwf hokS hokC
    sends hsends segsIn hin

/-- (6) The play-state "set compression" packet exists exactly up to protocol 47.  For every
supported `v`: the profile's `setCompressionCb` is the id the clientbound play table has under the
name "set compression" (`setCompOf`), it differs from the three ids the reactor reacts to otherwise,
and it exists iff `protocol_earlier_eq(47)`; for every later version no well-formed server packet is
one (its id is simply unknown: a bare `Packet`), the threshold never changes in the play state, and
the hypothesis `hquiet` of (10) holds automatically. -/
theorem play_set_compression_upto_47 (v : Nat) (hv : v ∈ liveTables.supportedProtocols)
    (P : Profile) (hP : profileOf v = some P) :
    P.setCompressionCb = setCompOf P ∧
    (∀ id, P.setCompressionCb = some id →
      id ≠ P.kaCb ∧ id ≠ P.posLookCb ∧ id ≠ P.disconnectCb ∧
      ∀ t, t < 2 ^ 42 → (SrvPkt.setCompression t).wf P = true) ∧
    (earlierEq liveTables v 47 = .ok true ↔ ∃ e ∈ P.others, e.2 = "set compression") ∧
    (earlierEq liveTables v 47 = .ok P.setCompressionCb.isSome) ∧
    (earlierEq liveTables v 47 = .ok false →
      (∀ p : SrvPkt, p.wf P = true → isSetCompression p = false) ∧
      ∀ (pkts : List SrvPkt) (thr : Option Int), (∀ p ∈ pkts, p.wf P = true) →
        ∀ n, thrAt thr pkts n = thr) := by
  obtain ⟨P', hP', -, -, -, h47, -, -, -, hoth, -⟩ := profile_at_every_supported_version v hv
  have : P' = P := Option.some.inj (hP'.symm.trans hP)
  subst this
  obtain ⟨r, -, -, -, hrow, -⟩ := profile_facts hv hP
  have hsc := profileOfRow_setComp hrow
  have hquiet : earlierEq liveTables v 47 = .ok false →
      ∀ p : SrvPkt, p.wf P' = true → isSetCompression p = false := by
    intro h p hwf
    rw [h47] at h
    have hs : (setCompOf P').isSome = false := Except.ok.inj h
    have : setCompOf P' = none := by
      cases hc : setCompOf P' with
      | none => rfl
      | some _ => rw [hc] at hs; cases hs
    exact wf_not_setCompression P' (hsc.trans this) p hwf
  refine ⟨hsc, ?_, ?_, by rw [hsc]; exact h47, fun h => ⟨hquiet h, ?_⟩⟩
  · intro id hid
    rw [hsc] at hid
    have hm : (id, "set compression") ∈ P'.others := by
      unfold setCompOf setCompIn at hid
      simp only [Option.map_eq_some_iff] at hid
      obtain ⟨e, he, rfl⟩ := hid
      have h1 := List.find?_some he
      have h2 := List.mem_of_find?_eq_some he
      simp only [beq_iff_eq] at h1
      rw [← h1]; exact h2
    obtain ⟨a, b, c⟩ := hoth _ hm
    refine ⟨a, b, c, fun t ht => ?_⟩
    rw [← hsc] at hid
    simp [SrvPkt.wf, hid, a, b, c, ht]
  · rw [h47]
    unfold setCompOf setCompIn
    simp only [Except.ok.injEq, Option.isSome_map, List.find?_isSome, beq_iff_eq]
  · intro pkts thr hwf
    exact thrAt_quiet thr pkts fun p hp => hquiet h p (hwf p hp)

/-- (7) Every supported version determines a login profile, with its two renumberings.  For every
supported `v` the tables determine one login profile `L`, and
* a plugin request is decodable and a plugin response registered exactly from protocol 385 on;
* `LoginSuccessPacket.read` takes the UUID as 16 bytes exactly from 707 on;
* from 391 on: login start 0, encryption response 1, plugin response 2; clientbound disconnect 0,
  encryption request 1, login success 2, set compression 3, plugin request 4;
* 385 … 390 (the 1.13 snapshots): login start 1, encryption response 2, plugin response 0;
  clientbound 1, 2, 3, 4 and plugin request 0;
* before 385: login start 0, encryption response 1; clientbound 0, 1, 2, 3, no plugin request;
* in every case the ids of encryption response and plugin response differ (the hypothesis `hids`
  of C10Wire and Session), the login start id differs from both and is below `2^32` (the guard of
  `HsWire.FirstOK`). -/
theorem login_profile_at_every_supported_version (v : Nat)
    (hv : v ∈ liveTables.supportedProtocols) :
    ∃ L, loginProfileOf v = some L ∧ idsAt v = some L.ids ∧ lsIdAt v = some L.lsId ∧
      laterEq liveTables v 385 = .ok L.plugin ∧
      laterEq liveTables v 707 = .ok L.uuidBinary ∧
      (laterEq liveTables v 391 = .ok true →
        L.lsId = 0 ∧ L.ids = ⟨1, 2⟩ ∧ L.plugin = true ∧
        (L.discCb, L.encReqCb, L.successCb, L.setCompCb, L.plugReqCb) = (0, 1, 2, 3, some 4)) ∧
      (laterEq liveTables v 391 = .ok false → L.plugin = true →
        L.lsId = 1 ∧ L.ids = ⟨2, 0⟩ ∧
        (L.discCb, L.encReqCb, L.successCb, L.setCompCb, L.plugReqCb) = (1, 2, 3, 4, some 0)) ∧
      (L.plugin = false →
        L.lsId = 0 ∧ L.ids.encResp = 1 ∧ laterEq liveTables v 391 = .ok false ∧
        (L.discCb, L.encReqCb, L.successCb, L.setCompCb, L.plugReqCb) = (0, 1, 2, 3, none)) ∧
      L.ids.encResp ≠ L.ids.plugResp ∧ L.lsId ≠ L.ids.encResp ∧
      (L.plugin = true → L.lsId ≠ L.ids.plugResp) ∧ L.lsId < 2 ^ 32 := by
  obtain ⟨L, hL⟩ := loginProfileOf_total hv
  obtain ⟨r, -, -, -, -, hshape, -, hdist, f1, f2, f3, k1, k2, k3⟩ := login_facts hv hL
  have hk := supported_known hv
  have h391 : laterEq liveTables v 391 = .ok (L.plugin && L.lsId == 0) := by
    rw [laterEq_live hk k2, f2]
  simp only [loginDistinct, Bool.and_eq_true, bne_iff_ne, ne_eq, Bool.or_eq_true,
    Bool.not_eq_true', decide_eq_true_eq] at hdist
  obtain ⟨⟨⟨⟨⟨⟨⟨⟨⟨⟨⟨d1, d2⟩, d3⟩, -⟩, -⟩, -⟩, -⟩, -⟩, -⟩, -⟩, -⟩, d12⟩ := hdist
  refine ⟨L, hL, by simp [idsAt, hL], by simp [lsIdAt, hL], ?_, ?_, ?_, ?_, ?_, d1, d2, ?_, d12⟩
  · rw [laterEq_live hk k1, f1]
  · rw [laterEq_live hk k3, f3]
  · intro h
    rw [h391] at h
    have hc : (L.plugin && L.lsId == 0) = true := Except.ok.inj h
    unfold loginShapeOk at hshape
    rw [if_pos hc] at hshape
    simp only [Bool.and_eq_true, beq_iff_eq] at hshape hc
    obtain ⟨⟨⟨⟨⟨s1, s2⟩, s3⟩, s4⟩, s5⟩, s6⟩ := hshape
    exact ⟨hc.2, s1, hc.1, by rw [s2, s3, s4, s5, s6]⟩
  · intro h hp
    rw [h391] at h
    have hc : (L.plugin && L.lsId == 0) = false := Except.ok.inj h
    unfold loginShapeOk at hshape
    rw [if_neg (by rw [hc]; simp), if_pos hp] at hshape
    simp only [Bool.and_eq_true, beq_iff_eq] at hshape
    obtain ⟨⟨⟨⟨⟨⟨s0, s1⟩, s2⟩, s3⟩, s4⟩, s5⟩, s6⟩ := hshape
    exact ⟨s0, s1, by rw [s2, s3, s4, s5, s6]⟩
  · intro hp
    have hc : (L.plugin && L.lsId == 0) = false := by rw [hp]; rfl
    unfold loginShapeOk at hshape
    rw [if_neg (by rw [hc]; simp), if_neg (by rw [hp]; simp)] at hshape
    simp only [Bool.and_eq_true, beq_iff_eq] at hshape
    obtain ⟨⟨⟨⟨⟨⟨s0, s1⟩, s2⟩, s3⟩, s4⟩, s5⟩, s6⟩ := hshape
    exact ⟨s0, s1, by rw [h391, hc], by rw [s2, s3, s4, s5, s6]⟩
  · intro hp
    rcases d3 with h | h
    · rw [hp] at h; cases h
    · exact h

/-- (8) What the real login reactor did under protocol `v` is what the login profile says: the
login start went out under `lsId`; the reactor's own table dispatched the five reactions under the
profile's clientbound ids; an encryption request was answered by ONE forced packet named
"encryption response" under `ids.encResp` (two VarInt-prefixed arrays), socket and file object
replaced; a plugin request — decodable iff `plugin` — by one queued "login plugin response" with the
request's message id and `successful = False` under `ids.plugResp`; "login success" was read in the
UUID format of the profile and installed the playing reactor; "set compression" set the threshold
and enabled compression. -/
theorem login_reactor_behaviour (v : Nat) (hv : v ∈ liveTables.supportedProtocols)
    (L : LoginProfile) (hL : loginProfileOf v = some L) :
    ∃ pr ∈ Gen.loginProbe, pr.v = v ∧ pr.lsId = L.lsId ∧
      (pr.discCb, pr.encReqCb, pr.successCb, pr.setCompCb, pr.plugReqCb) =
        (L.discCb, L.encReqCb, L.successCb, L.setCompCb, L.plugReqCb) ∧
      pr.encResp = L.ids.encResp ∧ pr.encKind = 1 ∧ pr.plugRespId = L.ids.plugResp ∧
      pr.plugReact = (if L.plugin then some L.ids.plugResp else none) ∧
      pr.plugKind = (if L.plugin then 1 else 0) ∧
      pr.successKind = (if L.uuidBinary then 1 else 0) ∧ pr.setCompKind = 1 := by
  obtain ⟨r, -, hmem, hrv, hrow, -, hbeh, -⟩ := login_facts hv hL
  obtain ⟨-, -, -, -, -, -, -, -, -, -, huu, -, e2, -, -⟩ := loginProfileOfRow_some hrow
  obtain ⟨-, -, m3⟩ := loginRows_mem hmem
  simp only [loginBehaviourOk, Bool.and_eq_true, beq_iff_eq] at hbeh
  obtain ⟨⟨⟨⟨⟨⟨⟨⟨⟨⟨⟨b1, b2⟩, b3⟩, b4⟩, b5⟩, b6⟩, b7⟩, b8⟩, b9⟩, b10⟩, b11⟩, b12⟩ := hbeh
  refine ⟨r.pr, m3, e2.trans hrv, b1, by rw [b2, b3, b4, b5, b6], b7, b8, b9, b10, b11, ?_, b12⟩
  unfold uuidOfProbe at huu
  split at huu
  · next h => rw [← Option.some.inj huu]; simp [h]
  · split at huu
    · next h => rw [← Option.some.inj huu]; simp [h]
    · cases huu

/-- (9) C10Wire's server theorem at a protocol version: `C10Wire.server_recovers_outbox` with
`ids := idsAt v`, the hypothesis `hids` discharged for every supported version.  (Before 385 a
plugin request cannot be decoded by Python; the statement then merely covers more step lists than
the code can produce.) -/
theorem server_recovers_outbox_at (v : Nat) (hv : v ∈ liveTables.supportedProtocols) :
    ∃ ids, idsAt v = some ids ∧
      ∀ (P : LoginParams) (steps : List Step) (z : Zlib) (EK : Bytes → Bytes → Bytes)
        (priv : Bytes) (segs : Segs),
        (∀ sid pk tok, LoginEv.encRequest sid pk tok ∈ events steps → P.rsa.matching pk priv) →
        (∀ f ∈ (exec P .init steps).outbox, FrameOK z.toZlibOps f.threshold (wirePkt ids f)) →
        segs.flatten =
          wireBytes z.toZlibOps (EK P.secret) P.secret ids (exec P .init steps).outbox →
        let outbox := (exec P .init steps).outbox
        let r := serverRecover z.toZlibOps EK (P.rsa.dec priv) ids.encResp (modesOf outbox) segs
        r.packets = outbox.map (wirePkt ids) ∧ r.err = none ∧ r.rest = [] ∧
          r.key = if outbox.any (fun f => isEncResp f.pkt) then some P.secret else none := by
  obtain ⟨L, -, hids, -, -, -, -, -, -, hne, -⟩ := login_profile_at_every_supported_version v hv
  exact ⟨L.ids, hids, fun P steps z EK priv segs hkey hok hseg =>
    C10Wire.server_recovers_outbox P steps z EK L.ids priv segs hne hkey hok hseg⟩

/-- (10) The whole session at a protocol version: `SessionProps.server_recovers_session` for a
session whose login-start id, login ids and play profile are the ones protocol `v` determines
(`AtVersion S v`) — the hypotheses `hids` (login ids differ) and `hSb` (serverbound play ids differ)
are discharged for every supported `v`; everything else (the guards `FirstOK`, `ReachesPlay`, the
key, the VarInt guards, well-formed packets, `capR ≥ 1`, the peer) is as there.  Such a session
exists for every supported version (`session_exists_at`).  Scope: `hquiet` excludes a play-state
"set compression" packet: `Model/SessionWire.lean` frames every play reply with the ONE threshold
login left in force (see the scope note of `Props/Session.lean`; the per-reply thresholds are in (5)
and `C11Wire`); by (6) the hypothesis is automatic for every version later than 47. -/
theorem server_recovers_session_at (v : Nat) (hv : v ∈ liveTables.supportedProtocols)
    (S : Session) (hS : AtVersion S v) (z : Zlib) (EK : Bytes → Bytes → Bytes)
    (priv : Bytes) (segs : Segs)
    (hfirst : HsWire.FirstOK S.lsId S.conn S.plan) (hplay : ReachesPlay S)
    (hkey : ∀ sid pk tok, LoginEv.encRequest sid pk tok ∈ events S.steps →
      S.lp.rsa.matching pk priv)
    (hokL : ∀ f ∈ outbox S, FrameOK z.toZlibOps f.threshold (wirePkt S.ids f))
    (hR : 1 ≤ S.capR) (hwf : ∀ p ∈ S.pkts, p.wf S.profile = true)
    (_hquiet : ∀ p ∈ S.pkts, isSetCompression p = false)
    (hokP : ∀ q ∈ PlayWire.due S.profile S.pkts,
      FrameOK z.toZlibOps (finalMode S).threshold (PlayWire.replyFields S.profile q))
    (hpo : S.peerOpen = true ∨ PlayWire.hasDiscP S.pkts = false)
    (hseg : segs.flatten = (clientBytes z.toZlibOps (EK S.lp.secret) S).1) :
    (clientBytes z.toZlibOps (EK S.lp.secret) S).2 = none ∧
    ∃ name, Neg.loginName S.conn = some name ∧
      serverRecoverSession z.toZlibOps EK (S.lp.rsa.dec priv) S.lsId S.ids.encResp S.profile
          (serverScript S) segs =
        { hs := some ⟨v, S.conn.host, S.conn.port, 2⟩
          name := some name
          login := (outbox S).map (wirePkt S.ids)
          key := (finalMode S).cipher
          replies := PlayWire.due S.profile S.pkts
          err := none
          playEnd := some .eof } := by
  obtain ⟨hproto, -, hids, hprof⟩ := hS
  obtain ⟨L, -, hids', -, -, -, -, -, -, hne, -⟩ := login_profile_at_every_supported_version v hv
  obtain ⟨P, hP, -, -, -, -, -, -, hSb, -, -⟩ := profile_at_every_supported_version v hv
  have e1 : L.ids = S.ids := Option.some.inj (hids'.symm.trans hids)
  have e2 : P = S.profile := Option.some.inj (hP.symm.trans hprof)
  rw [e1] at hne
  rw [e2] at hSb
  rw [← hproto]
  exact SessionProps.server_recovers_session S z EK priv segs hfirst hplay hne hkey hokL hR hSb hwf
    hokP hpo hseg

/-- For every supported version there is a session at that version (any connection parameters,
login parameters, server steps, packets and caps). -/
theorem session_exists_at (v : Nat) (hv : v ∈ liveTables.supportedProtocols) (S : Session) :
    ∃ S' : Session, AtVersion S' v ∧ S'.conn = S.conn ∧ S'.lp = S.lp ∧ S'.steps = S.steps ∧
      S'.pkts = S.pkts ∧ S'.peerOpen = S.peerOpen ∧ S'.capW = S.capW ∧ S'.capR = S.capR := by
  obtain ⟨L, -, hids, hls, -⟩ := login_profile_at_every_supported_version v hv
  obtain ⟨P, hP, -⟩ := profile_at_every_supported_version v hv
  exact ⟨{ S with proto := v, lsId := L.lsId, ids := L.ids, profile := P },
    ⟨rfl, hls, hids, hP⟩, rfl, rfl, rfl, rfl, rfl, rfl, rfl⟩

/-- (11) The DECLARED layouts (`get_definition`, `Generated/Layouts.lean`) switch at the same
points, for every KNOWN version (369 on the current tree, supported or not).  With `a … e` the
answers of `protocol_later_eq` to 339, 107, 755, 385 and 707: both keep-alive classes declare
`keep_alive_id` as a Long iff `a`, else a VarInt; the clientbound position-and-look declares the six
fixed fields, then `teleport_id` iff `b`, then `dismount_vehicle` iff `c`; `TeleportConfirmPacket`
(one VarInt `teleport_id`) is registered iff `b`; the login plugin request iff `d` (its response has
a hand-written codec: no declarative layout); login success declares the UUID as `UUID` iff `e`, else
`String`; and the layouts the play and login models hard-code — clientbound disconnect (one String),
serverbound position-and-look (x, feet_y, z, yaw, pitch, on_ground), encryption request and response
(server id, public key, verify token / shared secret, verify token — in this order, under these
names), login start, set compression — are the same under every known version. -/
theorem declared_layouts_switch_with_the_profile (v : Nat) (hv : v ∈ liveTables.knownProtocols) :
    ∃ a b c d e : Bool,
      laterEq liveTables v 339 = .ok a ∧ laterEq liveTables v 107 = .ok b ∧
      laterEq liveTables v 755 = .ok c ∧ laterEq liveTables v 385 = .ok d ∧
      laterEq liveTables v 707 = .ok e ∧
      layoutAt Gen.cbPlayLayouts "KeepAlivePacket" v =
        some [("keep_alive_id", if a then .int .i64 else .varint)] ∧
      layoutAt Gen.sbPlayLayouts "KeepAlivePacket" v =
        some [("keep_alive_id", if a then .int .i64 else .varint)] ∧
      layoutAt Gen.cbPlayLayouts "PlayerPositionAndLookPacket" v =
        some (posBase ++ (if b then [("teleport_id", .varint)] else []) ++
          (if c then [("dismount_vehicle", .bool)] else [])) ∧
      layoutAt Gen.sbPlayLayouts "TeleportConfirmPacket" v = (if b then some tcLayout else none) ∧
      layoutAt Gen.cbLoginLayouts "PluginRequestPacket" v =
        (if d then some plugReqLayout else none) ∧
      layoutAt Gen.sbLoginLayouts "PluginResponsePacket" v = none ∧
      layoutAt Gen.cbLoginLayouts "LoginSuccessPacket" v =
        some [("UUID", if e then .uuid else .string), ("Username", .string)] ∧
      layoutAt Gen.cbPlayLayouts "DisconnectPacket" v = some discLayout ∧
      layoutAt Gen.sbPlayLayouts "PositionAndLookPacket" v = some echoLayout ∧
      layoutAt Gen.cbLoginLayouts "DisconnectPacket" v = some discLayout ∧
      layoutAt Gen.cbLoginLayouts "EncryptionRequestPacket" v = some encReqLayout ∧
      layoutAt Gen.cbLoginLayouts "SetCompressionPacket" v = some setCompLayout ∧
      layoutAt Gen.sbLoginLayouts "LoginStartPacket" v = some loginStartLayout ∧
      layoutAt Gen.sbLoginLayouts "EncryptionResponsePacket" v = some encRespLayout := by
  obtain ⟨k339, k107, k755, -, k385, -, k707⟩ := bounds_known
  obtain ⟨l1, l2, l3, l4, l5, l6, l7, l8, l9, l10, l11, l12, l13, l14⟩ := layouts_at hv
  refine ⟨decide (rank 339 ≤ rank v), decide (rank 107 ≤ rank v), decide (rank 755 ≤ rank v),
    decide (rank 385 ≤ rank v), decide (rank 707 ≤ rank v), laterEq_live hv k339,
    laterEq_live hv k107, laterEq_live hv k755, laterEq_live hv k385, laterEq_live hv k707,
    ?_, ?_, ?_, ?_, ?_, l14, ?_, l4, l5, l7, l8, l9, l12, l13⟩
  · rw [l1]; simp only [decide_eq_true_eq]
  · rw [l2]; simp only [decide_eq_true_eq]
  · rw [l3]; simp only [decide_eq_true_eq]
  · rw [l6]; simp only [decide_eq_true_eq]
  · rw [l10]; simp only [decide_eq_true_eq]
  · rw [l11]; simp only [decide_eq_true_eq]

/-- (11′) … hence, for a supported version, the declared layouts are the ones of its profiles: the
flags `a, b, c, d, e` of (11) are `P.kaLong`, `P.newer107`, `P.dismount`, `L.plugin`,
`L.uuidBinary`. -/
theorem declared_layouts_match_profile (v : Nat) (hv : v ∈ liveTables.supportedProtocols)
    (P : Profile) (hP : profileOf v = some P) (L : LoginProfile) (hL : loginProfileOf v = some L) :
    layoutAt Gen.cbPlayLayouts "KeepAlivePacket" v =
      some [("keep_alive_id", if P.kaLong then .int .i64 else .varint)] ∧
    layoutAt Gen.sbPlayLayouts "KeepAlivePacket" v =
      some [("keep_alive_id", if P.kaLong then .int .i64 else .varint)] ∧
    layoutAt Gen.cbPlayLayouts "PlayerPositionAndLookPacket" v =
      some (posBase ++ (if P.newer107 then [("teleport_id", .varint)] else []) ++
        (if P.dismount then [("dismount_vehicle", .bool)] else [])) ∧
    layoutAt Gen.sbPlayLayouts "TeleportConfirmPacket" v =
      (if P.newer107 then some tcLayout else none) ∧
    layoutAt Gen.cbLoginLayouts "PluginRequestPacket" v =
      (if L.plugin then some plugReqLayout else none) ∧
    layoutAt Gen.cbLoginLayouts "LoginSuccessPacket" v =
      some [("UUID", if L.uuidBinary then .uuid else .string), ("Username", .string)] := by
  obtain ⟨a, b, c, d, e, ha, hb, hc, hd, he, l1, l2, l3, l4, l5, -, l7, -⟩ :=
    declared_layouts_switch_with_the_profile v (supported_known hv)
  obtain ⟨P', hP', pa, pb, pc, -⟩ := profile_at_every_supported_version v hv
  obtain ⟨L', hL', -, -, pd, pe, -⟩ := login_profile_at_every_supported_version v hv
  have e1 : P' = P := Option.some.inj (hP'.symm.trans hP)
  have e2 : L' = L := Option.some.inj (hL'.symm.trans hL)
  subst e1 e2
  have ea : a = P'.kaLong := Except.ok.inj (ha.symm.trans pa)
  have eb : b = P'.newer107 := Except.ok.inj (hb.symm.trans pb)
  have ec : c = P'.dismount := Except.ok.inj (hc.symm.trans pc)
  have ed : d = L'.plugin := Except.ok.inj (hd.symm.trans pd)
  have ee : e = L'.uuidBinary := Except.ok.inj (he.symm.trans pe)
  rw [ea] at l1 l2
  rw [eb, ec] at l3
  rw [eb] at l4
  rw [ed] at l5
  rw [ee] at l7
  exact ⟨l1, l2, l3, l4, l5, l7⟩

/-! ### Negative witnesses: seeded code changes that passed every theorem before

Each `… 108`/`340`/`2` function (`Model/VersionProfiles.lean`) turns a table row into what the
generators emit for a copy of /repo with ONE line changed (verified by running
`harness/gen/versionprofiles.py` on such copies: the only differences are the rows modelled here).
With the changed rows the checks behind theorems (1)–(3) and (7) evaluate to `false`: regenerating
the tables from the changed code makes `Lemmas.VersionProfiles.play_tables_ok` /
`login_tables_ok` — hence every theorem of this file — fail to check. -/

/-- `connection.py:814` `protocol_later_eq(107)` → `(108)` (the reactor's test only): under
protocol 107 the packet is still read with its teleport id (`newer107 = true`) but answered with
the position echo (`ackKind` 0 instead of 1).  The row of 107 passes on the live code and fails with
the change — the two Python tests behind the one flag no longer agree — and so does the whole
table check.  Likewise `player_position_and_look_packet.py:36` `(107)` → `(108)` (the packet's test
only): no teleport id is read, the reactor raises `AttributeError`, nothing is written. -/
theorem reactor_and_reader_must_switch_together :
    (playRowAt 107).map (playRowOk Gen.cbPlayNames) = some true ∧
    (playRowAt 107).map (fun r => playRowOk Gen.cbPlayNames (reactor108 r)) = some false ∧
    (playRowAt 107).map (fun r => (profileOfRow Gen.cbPlayNames (reactor108 r)).map
      fun P => (P.newer107, r.pr.ackKind, (reactor108 r).pr.ackKind)) =
        some (some (true, 1, 0)) ∧
    playTablesOk liveTables Gen.cbPlayNames (playRows.map reactor108) = false ∧
    (playRowAt 107).map (fun r => playRowOk Gen.cbPlayNames (layout108 r)) = some false ∧
    playTablesOk liveTables Gen.cbPlayNames (playRows.map layout108) = false := by
  decide +kernel

/-- `keep_alive_packet.py:11` `protocol_later_eq(339)` → `(340)` (seeded change C11-m1): under
protocol 339 the id is read and echoed as a VarInt.  Every single row is still self-consistent
(reader = writer), which is why no per-profile theorem could see it; what fails is the SWITCH POINT:
the profile of 339 has `kaLong = false` although `protocol_later_eq(339)` holds for 339, and the
flag list no longer steps up at 339. -/
theorem keepalive_switch_must_be_at_339 :
    (playRowAt 339).map (playRowOk Gen.cbPlayNames) = some true ∧
    ((playRowAt 339).bind fun r =>
      (profileOfRow Gen.cbPlayNames r).map (·.kaLong)) = some true ∧
    ((playRowAt 339).bind fun r =>
      (profileOfRow Gen.cbPlayNames (keepAlive340 r)).map (·.kaLong)) = some false ∧
    laterEq liveTables 339 339 = .ok true ∧
    playSwitchesOk playRows = true ∧
    playSwitchesOk (playRows.map keepAlive340) = false := by
  decide +kernel

/-- `EncryptionResponsePacket.get_id`: `0x01 if protocol_later_eq(391)` → `0x02`: from 391 on the
encryption response would share id 2 with the plugin response — the hypothesis `hids` of C10Wire
and Session, never discharged before, is false for the changed code; the row of 391 fails. -/
theorem login_ids_must_differ :
    (loginRowAt 391).map (loginRowOk Gen.cbLoginNames) = some true ∧
    (loginRowAt 391).map (fun r => loginRowOk Gen.cbLoginNames (encResp2 r)) = some false ∧
    ((loginRowAt 391).bind fun r =>
      (loginProfileOfRow Gen.cbLoginNames (encResp2 r)).map (·.ids)) = some ⟨2, 2⟩ := by
  decide +kernel

/-! ### Non-vacuity (kernel-evaluated on the live tables) -/

/-- 250 supported versions; the boundary versions and their neighbours are among them. -/
example : liveTables.supportedProtocols.length = 250 ∧
    [47, 107, 338, 339, 384, 385, 390, 391, 706, 707, 754, 755, 757].all
      (liveTables.supportedProtocols.contains ·) = true := by decide +kernel

/-- The hand-written demo profiles of C11Wire ARE the live profiles of 757 and 47 (up to the list
of other known packets, of which the demo keeps one). -/
example : (profileOf 757).map (fun P => { P with others := [] }) = some { p757 with others := [] } ∧
    (profileOf 47).map (fun P => { P with others := [] }) = some { p47 with others := [] } ∧
    (profileOf 757).map (fun P => (P.others.length, P.others.lookup 0x0F)) =
      some (24, some "chat message") ∧
    (profileOf 47).map setCompOf = some (some 0x46) ∧
    (profileOf 47).map (·.setCompressionCb) = some (some 0x46) ∧
    (profileOf 107).map setCompOf = some none ∧
    (profileOf 107).map (·.setCompressionCb) = some none := by decide +kernel

/-- Either side of each switch: 338/339 (keep-alive width), 47/107 (teleport id), 754/755
(dismount flag). -/
example : ((profileOf 338).map (·.kaLong), (profileOf 339).map (·.kaLong)) =
      (some false, some true) ∧
    ((profileOf 47).map (·.newer107), (profileOf 107).map (·.newer107)) =
      (some false, some true) ∧
    ((profileOf 754).map (·.dismount), (profileOf 755).map (·.dismount)) =
      (some false, some true) ∧
    (profileOf 47).map (·.ackSb) = some 0x06 ∧ (profileOf 107).map (·.ackSb) = some 0x00 := by
  decide +kernel

/-- The login ids on either side of 385 and 391, and the login-start id. -/
example : idsAt 384 = some ⟨1, 0⟩ ∧ idsAt 385 = some ⟨2, 0⟩ ∧ idsAt 390 = some ⟨2, 0⟩ ∧
    idsAt 391 = some ⟨1, 2⟩ ∧ idsAt 757 = some ⟨1, 2⟩ ∧
    lsIdAt 384 = some 0 ∧ lsIdAt 385 = some 1 ∧ lsIdAt 391 = some 0 ∧
    (loginProfileOf 706).map (·.uuidBinary) = some false ∧
    (loginProfileOf 707).map (·.uuidBinary) = some true := by decide +kernel

/-- An unsupported or unknown number has no profile. -/
example : profileOf 106 = none ∧ profileOf 758 = none ∧ loginProfileOf 48 = none := by
  decide +kernel

/-- The reply to a position-and-look on either side of 107, as `(id, field bytes)`. -/
example :
    (profileOf 107).map (fun P => ackOf P (.posLook 1 2 3 4 5 0 7 false)) =
      some (some (0x00, [7])) ∧
    (profileOf 47).map (fun P => ackOf P (.posLook 1 2 3 4 5 0 0 false)) =
      some (some (0x06, [0, 0, 0, 0, 0, 0, 0, 1, 0, 0, 0, 0, 0, 0, 0, 2, 0, 0, 0, 0, 0, 0, 0, 3,
        0, 0, 0, 4, 0, 0, 0, 5, 1])) := by decide +kernel

/-- (10) instantiated: `demoAt757` is a session AT protocol 757 (its profile is the live one), the
hypotheses of `server_recovers_session_at` are satisfiable by it, and the conclusion for an arrival
in four segments. -/
example : AtVersion demoAt757 757 :=
  ⟨rfl, by decide +kernel, by decide +kernel, by decide +kernel⟩

example :
    let w := demoBytes .carry demoAt757
    demoServer demoAt757 [w.take 5, (w.drop 5).take 40, (w.drop 45).take 20, w.drop 65] =
      expected demoAt757 "Steve" := by
  intro w
  obtain ⟨-, name, hn, h⟩ := server_recovers_session_at 757 supported_757 demoAt757
    ⟨rfl, by decide +kernel, by decide +kernel, by decide +kernel⟩ Zlib.ident toyEK []
    [w.take 5, (w.drop 5).take 40, (w.drop 45).take 20, w.drop 65]
    (by decide +kernel) (by decide +kernel) (fun _ _ _ _ => trivial)
    (by decide +kernel) (by decide) (by decide +kernel) (by decide +kernel) (by decide +kernel)
    (Or.inl rfl) (by decide +kernel)
  have : name = "Steve" := by
    have h2 : Neg.loginName demoAt757.conn = some "Steve" := rfl
    rw [h2] at hn; exact (Option.some.inj hn).symm
  subst this
  exact h

/-- (5) instantiated at protocol 47 (VarInt keep-alive, position echo, set compression under 0x46):
the hypotheses are satisfiable by the demo streams of C11Wire — the one with two play-state "set
compression" packets included — under the LIVE profile of 47. -/
example : (profileOf 47).map (fun P =>
      decide (∀ p ∈ demo47, p.wf P = true) && decide (∀ p ∈ demo47sc, p.wf P = true) &&
        decide (ServerOK Zlib.ident.toZlibOps P none demo47sc) &&
        decide (∀ q ∈ due P demo47sc, ∀ n ≤ demo47sc.length,
          FrameOK Zlib.ident.toZlibOps (thrAt none demo47sc n) (replyFields P q)) &&
        demo47.all (fun p => !isSetCompression p) && demo47sc.any isSetCompression) =
    some true := by decide +kernel

end PyCraft.VersionProfiles
