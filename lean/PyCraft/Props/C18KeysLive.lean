import PyCraft.Lemmas.C18Keys
/-!
# C18 — fresh secret, key = IV = secret, PKCS#1 v1.5: the LIVE code

The theorems of `Props/C18Keys.lean` are about models.  These re-check the same clauses on a table
(`Generated/C18Keys.lean`) that `harness/gen/c18keys.py` regenerates on every run by driving the
real `LoginReactor.react` of /repo with `os.urandom` replaced by the recording stub `stubDraw`
(call `i` returns the bytes `(37 i + 11 j + 5) mod 256`, `j < 16`) and the real socket / file
object by recorders.  A change of the code that breaks a clause changes the table, and the
kernel-checked statement below becomes false.
-/
namespace PyCraft.C18Keys
open PyCraft PyCraft.Login PyCraft.LoginWire PyCraft.Keys

open PyCraft.Gen.C18Keys in
/-- LIVE, fresh per login.  In each of the four logins (the first three on ONE `Connection`
object) and in each of the two requests of the nested probe the real `react` made exactly one
`os.urandom` call, of 16 bytes, WHILE it ran; and the call numbers are strictly increasing across
all six requests (they are 1, 3, 5, 7, 8, 9: every other one of the first eight is the unrelated
call the generator makes before each login).  A constant secret, a secret cached on the connection
or in the module, or one drawn before the request, makes this false. -/
theorem live_one_fresh_draw_per_request :
    (∀ row ∈ loginRows, row.draws.map (·.2) = [16]) ∧
      nested.draws1.map (·.2) = [16] ∧ nested.draws2.map (·.2) = [16] ∧
      ((loginRows.flatMap (·.draws) ++ nested.draws1 ++ nested.draws2).map (·.1)).Pairwise (· < ·) := by
  decide +kernel

open PyCraft.Gen.C18Keys in
/-- LIVE, the secret reaches the server.  The two fields of every encryption response, as found on
the wire and opened with the raw RSA private-key operation, are `k`-octet EME-PKCS1-v1_5 blocks
that this file's decoder (`emeDecode`, RFC 8017 §7.2.2) opens to: the draw made during that very
request — first field — and the server's verify token — second field (1024- and 2048-bit keys,
tokens of 1, 4, 16 and 64 bytes). -/
theorem live_secret_reaches_server :
    (∀ row ∈ loginRows,
      row.emSecret.length = row.kBytes ∧ row.emToken.length = row.kBytes ∧
        emeDecode row.emSecret = .ok (stubDraw (rowIdx row.draws)) ∧
        emeDecode row.emToken = .ok row.token) ∧
      emeDecode nested.emSecret1 = .ok (stubDraw (rowIdx nested.draws1)) := by
  decide +kernel

open PyCraft.Gen.C18Keys in
/-- LIVE, key = IV = that draw under AES-128.  What the wrappers installed by the real `react` do
to a fixed sequence of `socket.send` / `socket.recv` / `file_object.read` calls is, call by call,
what `KChan.run` does from `KChan.create (that draw)`: AES-128-CFB8, key and IV both the draw, one
continuous stream per direction, the file wrapper sharing the socket wrapper's decryptor. -/
theorem live_channel_keyed_by_draw :
    ∀ row ∈ loginRows,
      KChan.create (stubDraw (rowIdx row.draws)) =
          .ok ⟨stubDraw (rowIdx row.draws), stubDraw (rowIdx row.draws),
            stubDraw (rowIdx row.draws)⟩ ∧
        (KChan.run ⟨stubDraw (rowIdx row.draws), stubDraw (rowIdx row.draws),
            stubDraw (rowIdx row.draws)⟩ (row.calls.map opOf)).2 = row.calls.map (·.2.2) := by
  decide +kernel

open PyCraft.Gen.C18Keys in
/-- LIVE, a second request nests.  After two requests on one connection the real socket got, for
the second reply, the first five bytes `85 02 01 80 01` (frame length 261, packet id, length 128
of the first field) ENCRYPTED under the first draw, 263 bytes in all; and what `socket.recv` /
`file_object.read` return afterwards is the stack of both ciphers (`mkStack`: first draw
innermost) applied to what the real socket / raw file returned. -/
theorem live_second_request_nests :
    let d1 := stubDraw (rowIdx nested.draws1)
    let d2 := stubDraw (rowIdx nested.draws2)
    mkStack [d1, d2] = .ok [⟨d2, d2, d2⟩, ⟨d1, d1, d1⟩] ∧
      (stackSend [⟨d1, d1, d1⟩] [0x85, 0x02, 0x01, 0x80, 0x01]).2 = nested.reply2Head ∧
      nested.reply2Len = 2 + (1 + (2 + 128) + (2 + 128)) ∧
      stackRun [⟨d2, d2, d2⟩, ⟨d1, d1, d1⟩] (nested.calls.map opOf) =
        nested.calls.map (·.2.2) := by
  decide +kernel

/-! ## Non-vacuity: the table is not empty and the probes are not degenerate -/

open PyCraft.Gen.C18Keys in
example : loginRows.length = 4 ∧ (loginRows.map (·.conn)) = [0, 0, 0, 1] ∧
    (loginRows.map (·.kBytes)) = [128, 256, 128, 256] ∧
    (loginRows.map (·.token.length)) = [4, 1, 64, 16] ∧
    (∀ row ∈ loginRows, (row.calls.map (·.1)) = [0, 1, 2, 0, 0, 2, 1]) ∧
    (nested.calls.map (·.1)) = [1, 2, 1] := by decide

-- the stub's draws are pairwise different, so "another call number" means "another secret"
open PyCraft.Gen.C18Keys in
example : ((List.range 10).map stubDraw).Nodup := by decide +kernel

end PyCraft.C18Keys
