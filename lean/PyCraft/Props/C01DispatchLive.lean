import PyCraft.Lemmas.C01Dispatch
import PyCraft.Generated.C01Dispatch
/-!
# C01 gap 22 — the model of `Model/C01Dispatch.lean` against the LIVE code

`harness/gen/c01dispatch.py` runs the real `Connection._write_packet`, `Connection._connect`,
`LoginReactor.react`, `PlayingReactor.react` and `PacketReactor.read_packet` (as `LoginReactor`,
with its real id table under protocols 47 and 757) on small inputs and tabulates what they did
(`Generated/C01Dispatch.lean`).  The theorems below say that the model does the same on every
tabulated input; they are re-checked by the kernel whenever the table is regenerated, so a change
of the code under study that alters one of these behaviours — the unknown-id branch calling
`packet.read`, `_write_packet` ignoring `compression_enabled`, `read_packet` testing the threshold,
`_connect` not resetting a variable, `set compression` not enabling — makes them fail.
-/
namespace PyCraft.C01Dispatch
open PyCraft PyCraft.Gen.C01Dispatch

/-- the real login-state id table of the probed protocol version -/
def liveTable (pv : Nat) : IdTable (List Value) :=
  assocTable realCustom (if pv = 47 then loginTable47 else loginTable757)

/-- zlib as observed (`zpairs`) -/
def liveZ : ZlibOps := tableZlib zpairs

/-- `_write_packet`: for every probed `(compression_enabled, compression_threshold)` — enabled or
not, thresholds `-1`, `0`, small, large, negative — and every probed packet, the two `send` calls of
the real code are the model's `frameSends` under `writerThr`. -/
theorem live_write_probes : ∀ pr ∈ writeProbes,
    frameSends liveZ (writerThr { enabled := pr.1.1, threshold := pr.1.2 })
      (packetPayload pr.2.1.1 pr.2.1.2) = pr.2.2 := by
  decide +kernel

/-- `_connect`, `LoginReactor.react`, `PlayingReactor.react`: from every probed state of the two
variables, the real code's assignment is the model's `ConnOpts.step`. -/
theorem live_opt_probes : ∀ pr ∈ optProbes,
    (ConnOpts.step { enabled := pr.2.1.1, threshold := pr.2.1.2 } pr.1) =
      { enabled := pr.2.2.1, threshold := pr.2.2.2 } := by
  decide +kernel

/-- `read_packet` in a loop, with the REAL id tables: on every probed stream (known and unknown
ids interleaved; plain, data-length and zlib framing; whole, byte-wise and cut arrival; trailing
bytes inside a known packet; a known packet whose `read` raises; a truncated last frame) the model
hands on exactly what the real code handed on — same class-found/bare decision, same id, same field
values, same unread rest of the frame — and ends with the same exception. -/
theorem live_read_probes : ∀ chunk ∈ readProbeChunks, ∀ pr ∈ chunk,
    readAllD liveZ pr.2.1 (liveTable pr.1) pr.2.2.1 = (pr.2.2.2.1, pr.2.2.2.2) := by
  decide +kernel

-- non-vacuity: the tables are non-empty, the probes exercise BOTH branches under both versions,
-- and id 4 is unknown under 47 but known under 757
example : writeProbes.length = 36 ∧ optProbes.length = 36 ∧ 0 < readProbeChunks.flatten.length := by
  decide +kernel
example : (liveTable 47 5).isNone ∧ (liveTable 47 0x7f).isNone ∧ (liveTable 47 4).isNone ∧
    (liveTable 757 4).isSome ∧ (liveTable 757 300).isNone ∧ (liveTable 47 3).isSome := by
  decide +kernel
example : ∀ pv ∈ [47, 757], ∃ pr ∈ readProbeChunks.flatten, pr.1 = pv ∧
    (pr.2.2.2.1.any fun d => match d with | .bare .. => true | _ => false) ∧
    (pr.2.2.2.1.any fun d => match d with | .known .. => true | _ => false) := by
  decide +kernel

end PyCraft.C01Dispatch
