import PyCraft.Lemmas.Cfb8
/-!
# C18 — the encrypted channel is AES-128-CFB8 keyed by the shared secret

`E` is the block function (key already applied); every structural theorem holds for EVERY
`E : Bytes → Bytes`, every register, every byte string and every split.  The instance pyCraft uses
is `E = aes128 secret`, register = `secret` (`Chan.init`); the Lean AES and CFB8 are tied to the
standards by the kernel-checked FIPS-197 and SP 800-38A vectors at the end.

Only property theorems and non-vacuity examples live here; helper lemmas are in
`Lemmas/Cfb8.lean` and next to the definitions in `Model/Cfb8.lean`.
-/
namespace PyCraft.C18
open PyCraft

/-- Output length = input length, for the bare contexts and for the wrappers: `send` hands the
inner socket exactly as many bytes as it was given, `recv`/`read` return exactly as many bytes as
the inner socket/file returned. -/
theorem cfb8_len (E : Bytes → Bytes) (reg x : Bytes) (c : Chan) :
    (cfb8Enc E reg x).2.length = x.length ∧ (cfb8Dec E reg x).2.length = x.length ∧
      (c.send E x).2.length = x.length ∧ (c.recv E x).2.length = x.length ∧
      (c.read E x).2.length = x.length :=
  ⟨cfb8Enc_length E reg x, cfb8Dec_length E reg x, cfb8Enc_length E _ x, cfb8Dec_length E _ x,
    cfb8Dec_length E _ x⟩

/-- One call on `a ++ b` = a call on `a` followed by a call on `b` on the same context: same
final register, outputs concatenated.  For the encryptor and for the decryptor. -/
theorem cfb8_chunking (E : Bytes → Bytes) (reg a b : Bytes) :
    cfb8Enc E reg (a ++ b) =
        ((cfb8Enc E (cfb8Enc E reg a).1 b).1,
          (cfb8Enc E reg a).2 ++ (cfb8Enc E (cfb8Enc E reg a).1 b).2) ∧
      cfb8Dec E reg (a ++ b) =
        ((cfb8Dec E (cfb8Dec E reg a).1 b).1,
          (cfb8Dec E reg a).2 ++ (cfb8Dec E (cfb8Dec E reg a).1 b).2) :=
  ⟨cfb8Enc_append E reg a b, cfb8Dec_append E reg a b⟩

/-- n-ary form: for ANY list of chunks, calling `update` once per chunk gives outputs whose
concatenation is the one-shot result on the concatenated input, and the same final register. -/
theorem cfb8_chunks (E : Bytes → Bytes) (reg : Bytes) (cs : List Bytes) :
    (cfb8EncChunks E reg cs).2.flatten = (cfb8Enc E reg cs.flatten).2 ∧
      (cfb8EncChunks E reg cs).1 = (cfb8Enc E reg cs.flatten).1 ∧
      (cfb8DecChunks E reg cs).2.flatten = (cfb8Dec E reg cs.flatten).2 ∧
      (cfb8DecChunks E reg cs).1 = (cfb8Dec E reg cs.flatten).1 := by
  have he := encChunks_flatten E reg cs
  have hd := decChunks_flatten E reg cs
  exact ⟨congrArg Prod.snd he, congrArg Prod.fst he, congrArg Prod.snd hd, congrArg Prod.fst hd⟩

/-- Hence the split does not matter: two ways of cutting the same stream into calls give the same
stream of output bytes and leave the context in the same state. -/
theorem cfb8_split_irrelevant (E : Bytes → Bytes) (reg : Bytes) (cs cs' : List Bytes)
    (h : cs.flatten = cs'.flatten) :
    (cfb8EncChunks E reg cs).2.flatten = (cfb8EncChunks E reg cs').2.flatten ∧
      (cfb8EncChunks E reg cs).1 = (cfb8EncChunks E reg cs').1 ∧
      (cfb8DecChunks E reg cs).2.flatten = (cfb8DecChunks E reg cs').2.flatten ∧
      (cfb8DecChunks E reg cs).1 = (cfb8DecChunks E reg cs').1 := by
  obtain ⟨a1, a2, a3, a4⟩ := cfb8_chunks E reg cs
  obtain ⟨b1, b2, b3, b4⟩ := cfb8_chunks E reg cs'
  rw [a1, a2, a3, a4, b1, b2, b3, b4, h]
  exact ⟨rfl, rfl, rfl, rfl⟩

/-- Decryption inverts encryption for any chunking on either side: the sender encrypts the chunks
`cs` from register `reg`; the receiver, from the same initial register, decrypts the ciphertext
stream cut in ANY other way `ds`; the concatenated plaintext is the concatenated input, and the
two registers end equal (so the property continues to hold for whatever follows). -/
theorem cfb8_dec_enc (E : Bytes → Bytes) (reg : Bytes) (cs ds : List Bytes)
    (h : ds.flatten = (cfb8EncChunks E reg cs).2.flatten) :
    (cfb8DecChunks E reg ds).2.flatten = cs.flatten ∧
      (cfb8DecChunks E reg ds).1 = (cfb8EncChunks E reg cs).1 := by
  obtain ⟨a1, a2, _, _⟩ := cfb8_chunks E reg cs
  obtain ⟨_, _, b3, b4⟩ := cfb8_chunks E reg ds
  have inv := cfb8Dec_enc E reg cs.flatten
  rw [b3, b4, h, a1, a2]
  exact inv

/-- The shift register keeps the length of the IV (16 bytes under `Chan.create`), so the block
function is only ever applied to 16-byte blocks. -/
theorem cfb8_reg_length (E : Bytes → Bytes) (reg x : Bytes) (h : reg.length = 16) :
    (cfb8Enc E reg x).1.length = 16 ∧ (cfb8Dec E reg x).1.length = 16 := by
  have hne : reg ≠ [] := by intro h0; simp [h0] at h
  exact ⟨(cfb8Enc_reg_length E reg x hne).trans h, (cfb8Dec_reg_length E reg x hne).trans h⟩

/-- The AES block function returns a 16-byte block for every key and input, so the key-stream
byte CFB8 uses is its genuine first byte (the `headD` default is never taken). -/
theorem aes_block_length (key block : Bytes) :
    (aes128 key block).length = 16 ∧ cfb8Key (aes128 key) block = (aes128 key block)[0]! := by
  have h := aes128_length key block
  refine ⟨h, ?_⟩
  unfold cfb8Key
  cases hb : aes128 key block with
  | nil => simp [hb] at h
  | cons a as => rfl

/-- The wrappers, over ANY interleaved sequence of `send` / `recv` / `read` calls, from the state
`create_AES_cipher(secret)` sets up: the bytes handed to the inner socket, concatenated, are the
CFB8 encryption (register initially = secret) of all the data passed to `send`, concatenated; the
bytes returned by `recv` and `read` (which share the one decryptor), concatenated in call order,
are the CFB8 decryption (register initially = secret) of all the bytes the inner socket / file
returned, concatenated; and the final registers are those of the two one-shot computations. -/
theorem wrapper_stream (E : Bytes → Bytes) (secret : Bytes) (ops : List Op) :
    let r := Chan.run E (Chan.init secret) ops
    (outsOf Op.isSend ops r.2).flatten = (cfb8Enc E secret (ops.flatMap Op.sent)).2 ∧
      (outsOf Op.isRecv ops r.2).flatten = (cfb8Dec E secret (ops.flatMap Op.rcvd)).2 ∧
      r.1.encReg = (cfb8Enc E secret (ops.flatMap Op.sent)).1 ∧
      r.1.decReg = (cfb8Dec E secret (ops.flatMap Op.rcvd)).1 ∧
      r.2.length = ops.length := by
  have hs := run_sent E (Chan.init secret) ops
  have hr := run_rcvd E (Chan.init secret) ops
  exact ⟨congrArg Prod.snd hs, congrArg Prod.snd hr, congrArg Prod.fst hs, congrArg Prod.fst hr,
    run_length E _ ops⟩

/-- … and the same from any reachable state `c` (any registers), not only the initial one. -/
theorem wrapper_stream_from (E : Bytes → Bytes) (c : Chan) (ops : List Op) :
    let r := Chan.run E c ops
    (outsOf Op.isSend ops r.2).flatten = (cfb8Enc E c.encReg (ops.flatMap Op.sent)).2 ∧
      (outsOf Op.isRecv ops r.2).flatten = (cfb8Dec E c.decReg (ops.flatMap Op.rcvd)).2 ∧
      r.1.encReg = (cfb8Enc E c.encReg (ops.flatMap Op.sent)).1 ∧
      r.1.decReg = (cfb8Dec E c.decReg (ops.flatMap Op.rcvd)).1 := by
  have hs := run_sent E c ops
  have hr := run_rcvd E c ops
  exact ⟨congrArg Prod.snd hs, congrArg Prod.snd hr, congrArg Prod.fst hs, congrArg Prod.fst hr⟩

/-- The directions are independent, call by call: two sequences of calls that contain the same
receiving calls (`recv`/`read`, in the same order) return the same result for each of them,
whatever `send`s are interleaved; and two sequences that contain the same `send`s hand the same
bytes to the inner socket for each of them, whatever receiving calls are interleaved. -/
theorem wrapper_independent (E : Bytes → Bytes) (secret : Bytes) (ops ops' : List Op) :
    (ops.filter Op.isRecv = ops'.filter Op.isRecv →
        outsOf Op.isRecv ops (Chan.run E (Chan.init secret) ops).2 =
          outsOf Op.isRecv ops' (Chan.run E (Chan.init secret) ops').2) ∧
      (ops.filter Op.isSend = ops'.filter Op.isSend →
        outsOf Op.isSend ops (Chan.run E (Chan.init secret) ops).2 =
          outsOf Op.isSend ops' (Chan.run E (Chan.init secret) ops').2) := by
  constructor
  · intro h
    rw [run_recv_indep E _ (Chan.init secret) ops rfl,
      run_recv_indep E _ (Chan.init secret) ops' rfl, h]
  · intro h
    rw [run_send_indep E _ (Chan.init secret) ops rfl,
      run_send_indep E _ (Chan.init secret) ops' rfl, h]

/-- Two peers that set up the cipher from the same secret interoperate: whatever peer A `send`s
(in any calls, interleaved with anything), if the bytes A's inner socket was handed are what
B's inner socket/file returns (cut into `recv`/`read` calls in any way, interleaved with anything),
then what B's `recv`/`read` calls return, concatenated, is what A sent, concatenated. -/
theorem wrapper_roundtrip (E : Bytes → Bytes) (secret : Bytes) (opsA opsB : List Op)
    (h : opsB.flatMap Op.rcvd =
      (outsOf Op.isSend opsA (Chan.run E (Chan.init secret) opsA).2).flatten) :
    (outsOf Op.isRecv opsB (Chan.run E (Chan.init secret) opsB).2).flatten =
      opsA.flatMap Op.sent := by
  obtain ⟨a1, _, _, _, _⟩ := wrapper_stream E secret opsA
  obtain ⟨_, b2, _, _, _⟩ := wrapper_stream E secret opsB
  rw [b2, h, a1]
  exact (cfb8Dec_enc E secret _).1

/-- `create_AES_cipher` accepts exactly the 16-byte secrets (then both contexts start from
register = secret) and raises `ValueError` otherwise. -/
theorem create_ok_iff (secret : Bytes) :
    (secret.length = 16 ∧ Chan.create secret = .ok ⟨secret, secret⟩) ∨
      (secret.length ≠ 16 ∧ Chan.create secret = .error .value) := by
  unfold Chan.create Chan.init
  by_cases h : secret.length = 16
  · left; simp [h]
  · right; simp [h]

/-! ### The Lean AES and CFB8 are the standard ones (kernel evaluation) -/

/-- The literal S-box table (FIPS-197 Figure 7) is the function FIPS-197 §5.1.1 defines:
multiplicative inverse in GF(2^8) followed by the affine map — on all 256 bytes. -/
theorem sbox_table_correct (b : Nat) (h : b < 256) : aesSbox b = aesSboxSpec b :=
  sbox_table_eq_spec b h

/-- FIPS-197 Appendix C.1: key `000102…0f`, block `00112233445566778899aabbccddeeff` ↦
`69c4e0d86a7b0430d8cdb78070b4c55a`. -/
theorem fips197_c1 :
    aes128 [0x00, 0x01, 0x02, 0x03, 0x04, 0x05, 0x06, 0x07, 0x08, 0x09, 0x0a, 0x0b, 0x0c, 0x0d, 0x0e, 0x0f]
        [0x00, 0x11, 0x22, 0x33, 0x44, 0x55, 0x66, 0x77, 0x88, 0x99, 0xaa, 0xbb, 0xcc, 0xdd, 0xee, 0xff] =
      [0x69, 0xc4, 0xe0, 0xd8, 0x6a, 0x7b, 0x04, 0x30, 0xd8, 0xcd, 0xb7, 0x80, 0x70, 0xb4, 0xc5, 0x5a] := by
  decide +kernel

/-- FIPS-197 Appendix A.1 (key expansion of `2b7e151628aed2a6abf7158809cf4f3c`): eleven round
keys, the last being `w40..w43 = d014f9a8 c9ee2589 e13f0cc8 b6630ca6`. -/
theorem fips197_a1 :
    (aesKeySchedule [0x2b, 0x7e, 0x15, 0x16, 0x28, 0xae, 0xd2, 0xa6, 0xab, 0xf7, 0x15, 0x88, 0x09, 0xcf, 0x4f, 0x3c]).length = 11 ∧
      (aesKeySchedule [0x2b, 0x7e, 0x15, 0x16, 0x28, 0xae, 0xd2, 0xa6, 0xab, 0xf7, 0x15, 0x88, 0x09, 0xcf, 0x4f, 0x3c]).getLast? =
        some [0xd0, 0x14, 0xf9, 0xa8, 0xc9, 0xee, 0x25, 0x89, 0xe1, 0x3f, 0x0c, 0xc8, 0xb6, 0x63, 0x0c, 0xa6] := by
  decide +kernel

/-- SP 800-38A F.3.7 key. -/
def nistKey : Bytes :=
  [0x2b, 0x7e, 0x15, 0x16, 0x28, 0xae, 0xd2, 0xa6, 0xab, 0xf7, 0x15, 0x88, 0x09, 0xcf, 0x4f, 0x3c]
/-- SP 800-38A F.3.7 IV. -/
def nistIV : Bytes :=
  [0x00, 0x01, 0x02, 0x03, 0x04, 0x05, 0x06, 0x07, 0x08, 0x09, 0x0a, 0x0b, 0x0c, 0x0d, 0x0e, 0x0f]
/-- SP 800-38A F.3.7 plaintext `6bc1bee22e409f96e93d7e117393172aae2d`. -/
def nistPlain : Bytes :=
  [0x6b, 0xc1, 0xbe, 0xe2, 0x2e, 0x40, 0x9f, 0x96, 0xe9, 0x3d, 0x7e, 0x11, 0x73, 0x93, 0x17, 0x2a,
   0xae, 0x2d]
/-- SP 800-38A F.3.7 ciphertext `3b79424c9c0dd436bace9e0ed4586a4f32b9`. -/
def nistCipher : Bytes :=
  [0x3b, 0x79, 0x42, 0x4c, 0x9c, 0x0d, 0xd4, 0x36, 0xba, 0xce, 0x9e, 0x0e, 0xd4, 0x58, 0x6a, 0x4f,
   0x32, 0xb9]

/-- NIST SP 800-38A F.3.7 (CFB8-AES128.Encrypt), all 18 segments. -/
theorem sp800_38a_cfb8_encrypt : (cfb8Enc (aes128 nistKey) nistIV nistPlain).2 = nistCipher := by
  decide +kernel

/-- NIST SP 800-38A F.3.8 (CFB8-AES128.Decrypt), all 18 segments. -/
theorem sp800_38a_cfb8_decrypt : (cfb8Dec (aes128 nistKey) nistIV nistCipher).2 = nistPlain := by
  decide +kernel

/-- The same vector through the wrapper model with an arbitrary split into calls (`send` 3 + 0 + 15
bytes interleaved with `recv`/`read` of 9 + 9 ciphertext bytes): per-call outputs. -/
theorem sp800_38a_through_wrappers :
    (Chan.run (aes128 nistKey) ⟨nistIV, nistIV⟩
        [.send (nistPlain.take 3), .recv (nistCipher.take 9), .send [], .read (nistCipher.drop 9),
          .send (nistPlain.drop 3)]).2 =
      [nistCipher.take 3, nistPlain.take 9, [], nistPlain.drop 9, nistCipher.drop 3] := by
  decide +kernel

/-! ### non-vacuity: the hypotheses are met by concrete, non-trivial values -/

/-- a toy block function, to show the generic theorems have content without AES -/
def toyE : Bytes → Bytes := fun r => [r.foldl (fun a b => 3 * a + b) 7]

-- `cfb8_chunking` / `cfb8_chunks`: a stream of 5 bytes cut 2 + 0 + 3, outputs differ from inputs
example : (cfb8EncChunks toyE [1, 2, 3] [[10, 20], [], [30, 40, 50]]).2 = [[197, 137], [], [174, 219, 65]] ∧
    (cfb8Enc toyE [1, 2, 3] [10, 20, 30, 40, 50]).2 = [197, 137, 174, 219, 65] := by decide
-- `cfb8_split_irrelevant`: hypothesis satisfiable with genuinely different splits
example : ([[10, 20], [], [30, 40, 50]] : List Bytes).flatten = [[10], [20, 30, 40], [50]].flatten := by
  decide
-- `cfb8_dec_enc`: sender splits 2 + 0 + 3, receiver splits the ciphertext 1 + 4
example : ([[197], [137, 174, 219, 65]] : List Bytes).flatten =
      (cfb8EncChunks toyE [1, 2, 3] [[10, 20], [], [30, 40, 50]]).2.flatten ∧
    (cfb8DecChunks toyE [1, 2, 3] [[197], [137, 174, 219, 65]]).2 = [[10], [20, 30, 40, 50]] := by decide
-- `cfb8_reg_length`: a 16-byte register
example : nistIV.length = 16 := by decide
-- `wrapper_independent`: two different interleavings with the same receiving calls
example : ([.send [1], .recv [2, 3], .send [4], .read [5]] : List Op).filter Op.isRecv =
    ([.recv [2, 3], .read [5], .send [9, 9]] : List Op).filter Op.isRecv := by decide
-- `wrapper_roundtrip`: A sends 2 + 1 bytes, B receives the 3 ciphertext bytes as read 1 + recv 2
example :
    let opsA : List Op := [.send [10, 20], .recv [99], .send [30]]
    let opsB : List Op := [.read [197], .send [1, 2, 3], .recv [137, 174]]
    opsB.flatMap Op.rcvd = (outsOf Op.isSend opsA (Chan.run toyE (Chan.init [1, 2, 3]) opsA).2).flatten ∧
      (outsOf Op.isRecv opsB (Chan.run toyE (Chan.init [1, 2, 3]) opsB).2).flatten = [10, 20, 30] := by
  decide
-- `create_ok_iff`: both branches occur
example : Chan.create nistKey = .ok ⟨nistKey, nistKey⟩ ∧ Chan.create [1, 2, 3] = .error .value := by
  decide
-- `sbox_table_correct`: e.g. FIPS-197 §5.1.1's example `S({53}) = {ed}`
example : aesSbox 0x53 = 0xed ∧ aesSboxSpec 0x53 = 0xed := by decide +kernel

end PyCraft.C18
