import PyCraft.Lemmas.C01Dispatch
import PyCraft.Props.C01
/-!
# C01, clause 9 at dispatch level, and the connection-state mapping (audit gap 22)

`Props/C01.lean` proves the round trip of `(id, field bytes)` through `read_packet` WITHOUT the id
table (`readPacketK` returns `(id, rest)` for every id) and with the reader's compression flag
hard-wired to `thr.isSome`.  Here (`Model/C01Dispatch.lean`):

* `read_packet` complete with the branch `if packet_id in self.clientbound_packets`
  (`connection.py:707-714`): a known id is decoded by ITS class's `read` (an exception ends the
  networking loop), an unknown id becomes a bare `Packet` — `readAllD`, `readAllDEnc`;
* `connection.options` as the two variables `compression_enabled` / `compression_threshold`
  (`ConnOpts`), the writer's use of them (`writerThr`, `_write_packet` l.340-343), the reader's
  (`readerFlag`, l.690) and the three places that assign them.

A `Delivered.known id vals []` means: the class registered for `id` was instantiated, its `read`
returned `vals` and consumed the payload exactly; `Delivered.bare id fields`: a bare `Packet` with
that id, `fields` (all bytes behind the id) left unread and discarded with the frame.

The reviewer's proposal `dispatch_unknown_interleaved` quantified over `TPacket`s only
(`table p.id = none ∨ table p.id = some p.layout`).  That is imprecise in one respect: a packet the
reader does not know need not have been produced from any `definition` — its payload is arbitrary
bytes.  The statement here is over `WItem`s (`typed p` | `raw id fields`), which subsumes the
proposal (an unknown `TPacket` is `raw p.id (its field bytes)`), and is preceded by table-generic
versions (`dispatch_stream`, any `BodyReader`s, hand-written `read`s included) phrased against the
relational specification `Dispatches`.

Only property theorems, refutations of changed code, and non-vacuity examples live here.
-/
namespace PyCraft.C01Dispatch
open PyCraft

/-! ## the dispatching reader against the raw reader (any stream) -/

/-- For ANY byte stream (well-formed or not), any segmentation, any inflate function, compression
on or off, any id table: what the complete `read_packet` loop delivers is what the raw loop of
`Props/C01.lean` delivers, dispatched packet by packet in order, cut at the first packet whose
`read` raises — whose exception then ends the loop in place of the raw loop's. -/
theorem dispatch_is_cut_of_raw {α : Type} (z : ZlibOps) (c : Bool) (table : IdTable α)
    (segs : Segs) :
    readAllD z c table segs =
      cutDispatch (dispatchBody table) (readAll z c segs).1 (readAll z c segs).2 :=
  readAllWithK_cut idXform z c (dispatchBody table) (Sock.plain segs)

/-- The same through a decrypting file object. -/
theorem dispatch_is_cut_of_raw_encrypted {σ α : Type} (dec : StreamXform σ) (s0 : σ) (z : ZlibOps)
    (c : Bool) (table : IdTable α) (segs : Segs) :
    readAllDEnc dec s0 z c table segs =
      cutDispatch (dispatchBody table) (readAllEnc dec s0 z c segs).1
        (readAllEnc dec s0 z c segs).2 :=
  readAllWithK_cut dec z c (dispatchBody table) (Sock.enc s0 segs)

/-- Read segmentation stays invisible at dispatch level: two segmentations of the same byte
stream give the same deliveries (known and bare) and the same final exception — plain or through
any decryptor. -/
theorem dispatch_segmentation_invariant {σ α : Type} (dec : StreamXform σ) (s0 : σ) (z : ZlibOps)
    (c : Bool) (table : IdTable α) (s1 s2 : Segs) (h : s1.flatten = s2.flatten) :
    readAllD z c table s1 = readAllD z c table s2 ∧
    readAllDEnc dec s0 z c table s1 = readAllDEnc dec s0 z c table s2 := by
  rw [dispatch_is_cut_of_raw, dispatch_is_cut_of_raw, dispatch_is_cut_of_raw_encrypted,
    dispatch_is_cut_of_raw_encrypted, (C01.read_segmentation_invariant z c s1 s2 h).2.2.2,
    C01.read_segmentation_invariant_encrypted dec s0 z c s1 s2 h]
  exact ⟨rfl, rfl⟩

/-! ## clause 9: known and unknown ids interleaved -/

/-- Table-generic round trip.  `pds` pairs every framed `(id, field bytes)` with what the
specification `Dispatches` says must be handed on for it (bare packet for an id outside the table;
the class's decoded instance for an id inside).  For every zlib, every threshold, every table (any
`read` functions), every segmentation of the concatenated frames: the reader hands on exactly that
list — known and unknown ids in any interleaving, ids may repeat — and then raises end-of-stream. -/
theorem dispatch_stream {α : Type} (z : Zlib) (thr : Option Int) (table : IdTable α)
    (pds : List ((Nat × Bytes) × Delivered α))
    (hok : ∀ pd ∈ pds, FrameOK z.toZlibOps thr pd.1)
    (hd : ∀ pd ∈ pds, Dispatches table pd.1 pd.2) (segs : Segs)
    (hseg : segs.flatten = ((pds.map (·.1)).map (packetFrame z.toZlibOps thr)).flatten) :
    readAllD z.toZlibOps thr.isSome table segs = (pds.map (·.2), .eof) := by
  rw [dispatch_is_cut_of_raw,
    C01.roundtrip_stream z thr (pds.map (·.1))
      (fun p hp => by obtain ⟨pd, hpd, rfl⟩ := List.mem_map.mp hp; exact hok pd hpd) segs hseg]
  exact cutDispatch_all_ok _ _ pds fun pd hpd => dispatchBody_of_dispatches table _ _ (hd pd hpd)

/-- … through any cipher pair, the writer's bytes cut into `send` calls in any way, the cipher
text arriving in any segmentation. -/
theorem dispatch_stream_encrypted {σ α : Type} (cp : CipherPair σ) (s0 : σ) (z : Zlib)
    (thr : Option Int) (table : IdTable α) (pds : List ((Nat × Bytes) × Delivered α))
    (hok : ∀ pd ∈ pds, FrameOK z.toZlibOps thr pd.1)
    (hd : ∀ pd ∈ pds, Dispatches table pd.1 pd.2) (sends : List Bytes)
    (hsends : sends.flatten = ((pds.map (·.1)).map (packetFrame z.toZlibOps thr)).flatten)
    (segs : Segs) (hseg : segs.flatten = (encSends cp.enc s0 sends).2.flatten) :
    readAllDEnc cp.dec s0 z.toZlibOps thr.isSome table segs = (pds.map (·.2), .eof) := by
  rw [dispatch_is_cut_of_raw_encrypted,
    C01.roundtrip_encrypted cp s0 z thr (pds.map (·.1))
      (fun p hp => by obtain ⟨pd, hpd, rfl⟩ := List.mem_map.mp hp; exact hok pd hpd)
      sends hsends segs hseg]
  exact cutDispatch_all_ok _ _ pds fun pd hpd => dispatchBody_of_dispatches table _ _ (hd pd hpd)

/-- Clause 9 literally.  A packet whose id is NOT in the table (`table id = none`; ANY field bytes),
framed between any packets `before` and `after` (each known or unknown): it is handed on as a bare
packet with that id, all its field bytes unread; every predecessor and every successor is handed on
exactly as specified; and the deliveries are exactly those of the stream WITHOUT the unknown frame,
plus the bare packet at its position — the successors are not disturbed. -/
theorem unknown_skipped_without_disturbing {α : Type} (z : Zlib) (thr : Option Int)
    (table : IdTable α) (before after : List ((Nat × Bytes) × Delivered α))
    (hok : ∀ pd ∈ before ++ after, FrameOK z.toZlibOps thr pd.1)
    (hd : ∀ pd ∈ before ++ after, Dispatches table pd.1 pd.2)
    (id : Nat) (fields : Bytes) (hunk : table id = none)
    (hfr : FrameOK z.toZlibOps thr (id, fields)) (segsWith segsWithout : Segs)
    (hw : segsWith.flatten =
      ((before.map (·.1)).map (packetFrame z.toZlibOps thr)).flatten ++
        (packetFrame z.toZlibOps thr (id, fields) ++
          ((after.map (·.1)).map (packetFrame z.toZlibOps thr)).flatten))
    (hwo : segsWithout.flatten =
      ((before.map (·.1)).map (packetFrame z.toZlibOps thr)).flatten ++
        ((after.map (·.1)).map (packetFrame z.toZlibOps thr)).flatten) :
    readAllD z.toZlibOps thr.isSome table segsWith =
      (before.map (·.2) ++ .bare id fields :: after.map (·.2), .eof) ∧
    readAllD z.toZlibOps thr.isSome table segsWithout =
      (before.map (·.2) ++ after.map (·.2), .eof) := by
  constructor
  · have := dispatch_stream z thr table (before ++ ((id, fields), .bare id fields) :: after)
      (fun pd hpd => by
        rcases List.mem_append.mp hpd with h | h
        · exact hok pd (List.mem_append.mpr (.inl h))
        · rcases List.mem_cons.mp h with rfl | h
          · exact hfr
          · exact hok pd (List.mem_append.mpr (.inr h)))
      (fun pd hpd => by
        rcases List.mem_append.mp hpd with h | h
        · exact hd pd (List.mem_append.mpr (.inl h))
        · rcases List.mem_cons.mp h with rfl | h
          · exact .inl ⟨hunk, rfl⟩
          · exact hd pd (List.mem_append.mpr (.inr h)))
      segsWith (by rw [hw]; simp)
    rw [this]; simp
  · have := dispatch_stream z thr table (before ++ after) hok hd segsWithout (by rw [hwo]; simp)
    rw [this]; simp

/-- A KNOWN packet whose `read` raises ends the networking loop with that exception: exactly the
packets before it are handed on, nothing behind it is read (`connection.py:710` is inside
`read_packet`; the exception leaves the loop).  This is where `readDispatch` of
`Model/TypedStream.lean` (decode after the fact) was unfaithful. -/
theorem known_read_error_ends_loop {α : Type} (z : Zlib) (thr : Option Int) (table : IdTable α)
    (before : List ((Nat × Bytes) × Delivered α)) (bad : Nat × Bytes)
    (after : List (Nat × Bytes))
    (hok : ∀ pd ∈ before, FrameOK z.toZlibOps thr pd.1)
    (hd : ∀ pd ∈ before, Dispatches table pd.1 pd.2)
    (hokb : FrameOK z.toZlibOps thr bad) (hoka : ∀ p ∈ after, FrameOK z.toZlibOps thr p)
    (rd : BodyReader α) (e : Err) (hknown : table bad.1 = some rd) (hraise : rd bad.2 = .error e)
    (segs : Segs)
    (hseg : segs.flatten =
      ((before.map (·.1) ++ bad :: after).map (packetFrame z.toZlibOps thr)).flatten) :
    readAllD z.toZlibOps thr.isSome table segs = (before.map (·.2), e) := by
  rw [dispatch_is_cut_of_raw,
    C01.roundtrip_stream z thr (before.map (·.1) ++ bad :: after)
      (fun p hp => by
        rcases List.mem_append.mp hp with h | h
        · obtain ⟨pd, hpd, rfl⟩ := List.mem_map.mp h; exact hok pd hpd
        · rcases List.mem_cons.mp h with rfl | h
          · exact hokb
          · exact hoka p h) segs hseg]
  exact cutDispatch_first_error _ _ e bad after (dispatchBody_error_of table bad rd e hknown hraise)
    before fun pd hpd => dispatchBody_of_dispatches table _ _ (hd pd hpd)

/-- The typed statement (the reviewer's `dispatch_unknown_interleaved`, over items).  For ANY list of
items — `typed p`: a packet with a declarative definition, values in the domains of its fields,
whose id the reader's table maps to that definition; `raw id fields`: arbitrary bytes under an id
the table does not contain — in any interleaving, for any zlib and any threshold: writing succeeds,
and for ANY segmentation of the written stream the reader (looking the class up BY THE ID READ FROM
THE WIRE) hands on, in order, the values of every known packet with its payload consumed exactly,
and a bare packet for every unknown one; then end-of-stream. -/
theorem dispatch_unknown_interleaved (z : Zlib) (thr : Option Int) (t : Nat → Option Layout)
    (items : List WItem) (hok : ∀ i ∈ items, i.OK z.toZlibOps thr t) :
    ∃ stream, writeItems realCustom z.toZlibOps thr items = .ok stream ∧
      ∀ segs : Segs, segs.flatten = stream →
        readAllD z.toZlibOps thr.isSome (layoutTable realCustom t) segs =
          (items.map WItem.expected, .eof) := by
  have hf := fun i hi => item_facts z.toZlibOps thr t i (hok i hi)
  refine ⟨_, writeItems_of_ok realCustom z.toZlibOps thr items (fun i hi => (hf i hi).1),
    fun segs hseg => ?_⟩
  have := dispatch_stream z thr (layoutTable realCustom t)
    (items.map fun i => (i.rawOf realCustom, i.expected))
    (fun pd hpd => by obtain ⟨i, hi, rfl⟩ := List.mem_map.mp hpd; exact (hf i hi).2.1)
    (fun pd hpd => by
      obtain ⟨i, hi, rfl⟩ := List.mem_map.mp hpd
      exact dispatches_of_dispatchBody _ _ _ (hf i hi).2.2)
    segs (by rw [hseg]; simp [Function.comp_def])
  rw [this]; simp [Function.comp_def]

/-- ALL of C01's dimensions at once, at dispatch level and over the connection's REAL state: any
options `o` (both variables free), the writer using `writerThr o` (`_write_packet`), the reader
using `readerFlag o` (`read_packet` l.690), any cipher pair, the written bytes cut into `send`
calls in any way, the cipher text arriving in any segmentation, known and unknown ids interleaved. -/
theorem dispatch_unknown_interleaved_conn {σ : Type} (cp : CipherPair σ) (s0 : σ) (z : Zlib)
    (o : ConnOpts) (t : Nat → Option Layout) (items : List WItem)
    (hok : ∀ i ∈ items, i.OK z.toZlibOps (writerThr o) t) :
    ∃ stream, writeItems realCustom z.toZlibOps (writerThr o) items = .ok stream ∧
      (∀ segs : Segs, segs.flatten = stream →
        readAllD z.toZlibOps (readerFlag o) (layoutTable realCustom t) segs =
          (items.map WItem.expected, .eof)) ∧
      ∀ (sends : List Bytes) (segs : Segs), sends.flatten = stream →
        segs.flatten = (encSends cp.enc s0 sends).2.flatten →
        readAllDEnc cp.dec s0 z.toZlibOps (readerFlag o) (layoutTable realCustom t) segs =
          (items.map WItem.expected, .eof) := by
  have hf := fun i hi => item_facts z.toZlibOps (writerThr o) t i (hok i hi)
  refine ⟨_, writeItems_of_ok realCustom z.toZlibOps (writerThr o) items (fun i hi => (hf i hi).1),
    fun segs hseg => ?_, fun sends segs hsends hseg => ?_⟩
  · obtain ⟨stream, h1, h2⟩ := dispatch_unknown_interleaved z (writerThr o) t items hok
    rw [writeItems_of_ok realCustom z.toZlibOps (writerThr o) items (fun i hi => (hf i hi).1)] at h1
    injection h1 with h1
    rw [← writerThr_isSome]
    exact h2 segs (by rw [hseg, h1])
  · have := dispatch_stream_encrypted cp s0 z (writerThr o) (layoutTable realCustom t)
      (items.map fun i => (i.rawOf realCustom, i.expected))
      (fun pd hpd => by obtain ⟨i, hi, rfl⟩ := List.mem_map.mp hpd; exact (hf i hi).2.1)
      (fun pd hpd => by
        obtain ⟨i, hi, rfl⟩ := List.mem_map.mp hpd
        exact dispatches_of_dispatchBody _ _ _ (hf i hi).2.2)
      sends (by rw [hsends]; simp [Function.comp_def]) segs hseg
    rw [← writerThr_isSome, this]; simp [Function.comp_def]

/-! ## the connection-state mapping -/

/-- The collapse used by `Props/C01.lean` is legitimate for the code as it is: the reader's flag is
on exactly when the writer passes a threshold. -/
theorem reader_flag_iff_writer_threshold (o : ConnOpts) :
    (writerThr o).isSome = readerFlag o ∧
    (o.enabled = false → writerThr o = none ∧ readerFlag o = false) ∧
    (o.enabled = true → writerThr o = some o.threshold ∧ readerFlag o = true) := by
  refine ⟨writerThr_isSome o, fun h => ?_, fun h => ?_⟩ <;> simp [writerThr, readerFlag, h]

/-- Which threshold is in force, for ANY history of the two variables: starting from any options
and applying any sequence of `connect` / "set compression" events, the writer's threshold is the one
of the independently phrased one-variable machine (`none` after a connect, `some t` after a
"set compression t" — also `t = -1`, `0`, negative), and the reader's flag is its `isSome`.  In
particular a fresh `_ConnectionOptions` and every state right after `_connect` frame plainly,
whatever was negotiated on an earlier connection. -/
theorem options_history (o : ConnOpts) (evs : List OptEv) :
    writerThr (o.run evs) = evs.foldl thrSpecStep (writerThr o) ∧
    readerFlag (o.run evs) = (evs.foldl thrSpecStep (writerThr o)).isSome ∧
    writerThr ConnOpts.init = none ∧
    writerThr (o.run (evs ++ [.connect])) = none ∧
    ∀ t, writerThr (o.run (evs ++ [.setCompression t])) = some t := by
  refine ⟨writerThr_run evs o, ?_, rfl, ?_, fun t => ?_⟩
  · rw [← writerThr_isSome, writerThr_run]
  · rw [writerThr_run, List.foldl_append]; rfl
  · rw [writerThr_run, List.foldl_append]; rfl

/-- `roundtrip_stream` over the two variables: for ANY values of `compression_enabled` and
`compression_threshold` (e.g. enabled with threshold `-1`; disabled with a stale threshold `256`),
what `_write_packet` frames under these options, `read_packet` under the same options recovers
exactly, for any segmentation. -/
theorem roundtrip_conn (z : Zlib) (o : ConnOpts) (ps : List (Nat × Bytes))
    (hok : ∀ p ∈ ps, FrameOK z.toZlibOps (writerThr o) p) (segs : Segs)
    (hseg : segs.flatten = (ps.map (packetFrame z.toZlibOps (writerThr o))).flatten) :
    readAll z.toZlibOps (readerFlag o) segs = (ps, .eof) := by
  rw [← writerThr_isSome]
  exact C01.roundtrip_stream z (writerThr o) ps hok segs hseg

/-- … and through any cipher pair. -/
theorem roundtrip_conn_encrypted {σ : Type} (cp : CipherPair σ) (s0 : σ) (z : Zlib) (o : ConnOpts)
    (ps : List (Nat × Bytes)) (hok : ∀ p ∈ ps, FrameOK z.toZlibOps (writerThr o) p)
    (sends : List Bytes)
    (hsends : sends.flatten = (ps.map (packetFrame z.toZlibOps (writerThr o))).flatten)
    (segs : Segs) (hseg : segs.flatten = (encSends cp.enc s0 sends).2.flatten) :
    readAllEnc cp.dec s0 z.toZlibOps (readerFlag o) segs = (ps, .eof) := by
  rw [← writerThr_isSome]
  exact C01.roundtrip_encrypted cp s0 z (writerThr o) ps hok sends hsends segs hseg

/-- Why the two sides MUST consult the same variable (the reviewer's negative witness, for every
packet instead of one): if the writer passes the threshold `-1` while the reader's flag is off
(which is what dropping `if self.options.compression_enabled` at l.340 does right after every
connect), then EVERY packet `(id, fields)` is misread: the reader hands on id `0`, and the real id
leaks into the field bytes — never the packet that was written. -/
theorem writer_threshold_while_reader_off_misreads (z : Zlib) (id : Nat) (fields : Bytes)
    (hlen : (packetPayload id fields).length + 1 < 2 ^ 42) (segs : Segs)
    (hseg : segs.flatten = packetFrame z.toZlibOps (some (-1)) (id, fields)) :
    readAll z.toZlibOps false segs = ([(0, encVarInt id ++ fields)], .eof) ∧
    readAll z.toZlibOps false segs ≠ ([(id, fields)], .eof) := by
  have hfr : packetFrame z.toZlibOps (some (-1)) (id, fields) =
      packetFrame z.toZlibOps none (0, packetPayload id fields) := by
    have h0 : encVarInt 0 = [0x00] := by decide +kernel
    simp [packetFrame, frame, frameBody, packetPayload, h0]
  have hlen0 : (packetPayload 0 (packetPayload id fields)).length
      = (packetPayload id fields).length + 1 := by
    have h0 : encVarInt 0 = [0x00] := by decide +kernel
    simp [packetPayload, h0]
  have h1 := C01.roundtrip_stream z none [(0, packetPayload id fields)]
    (fun p hp => by
      rw [List.mem_singleton.mp hp]
      refine ⟨by omega, ?_, ?_⟩
      · rw [hlen0]; omega
      · show (packetPayload 0 (packetPayload id fields)).length < 2 ^ 42
        rw [hlen0]; omega)
    segs (by rw [hseg, hfr]; simp)
  have h1' : readAll z.toZlibOps false segs = ([(0, encVarInt id ++ fields)], .eof) := h1
  refine ⟨h1', ?_⟩
  rw [h1']
  intro h
  injection h with h _
  injection h with h _
  injection h with _ h2
  have := congrArg List.length h2
  rw [List.length_append] at this
  have := enc_length_pos id
  omega

/-! ## refutations: models of CHANGED code violate the theorems above -/

/-- CHANGE 1 (the reviewer's): the unknown branch calls `packet.read(packet_data)` on the bare
`Packet` — its `definition` is `None`, so `for field in self.definition` raises `TypeError`. -/
def dispatchMutRead {α : Type} (table : IdTable α) (raw : Nat × Bytes) :
    Except Err (Delivered α) :=
  match table raw.1 with
  | some rd =>
    match rd raw.2 with
    | .error e => .error e
    | .ok (v, rest) => .ok (.known raw.1 v rest)
  | none => .error .type

/-- the table, the items and the stream of the refutations and examples: login-state ids 0
(`json_data : String`) and 3 (`threshold : VarInt`) known; 5 and 0x7f unknown -/
def exTable : Nat → Option Layout := fun id =>
  if id = 0 then some [("json_data", .string)] else if id = 3 then some [("threshold", .varint)]
  else none

def exItems : List WItem :=
  [ .typed { id := 0, layout := [("json_data", .string)], vals := [.str "hi"] },
    .raw 5 [0xaa, 0xbb],
    .typed { id := 3, layout := [("threshold", .varint)], vals := [.int 300] },
    .raw 0x7f [] ]

def exStream : Bytes :=
  [0x04, 0x00, 0x02, 0x68, 0x69,  0x03, 0x05, 0xaa, 0xbb,  0x03, 0x03, 0xac, 0x02,  0x01, 0x7f]

/-- `dispatch_unknown_interleaved` with CHANGE 1 plugged in is FALSE: on the example stream the
changed reader hands on one packet and dies with `TypeError` at the first unknown id. -/
theorem mutant_unknown_calls_read_refuted :
    ¬ ∀ (z : Zlib) (thr : Option Int) (t : Nat → Option Layout) (items : List WItem),
      (∀ i ∈ items, i.OK z.toZlibOps thr t) →
      ∃ stream, writeItems realCustom z.toZlibOps thr items = .ok stream ∧
        ∀ segs : Segs, segs.flatten = stream →
          (readAllWithK idXform z.toZlibOps thr.isSome
            (dispatchMutRead (layoutTable realCustom t)) (Sock.plain segs)).1 =
            (items.map WItem.expected, .eof) := by
  intro h
  obtain ⟨stream, h1, h2⟩ := h Zlib.ident none exTable exItems (by decide +kernel)
  have e : writeItems realCustom Zlib.ident.toZlibOps none exItems = .ok exStream := by
    decide +kernel
  rw [e] at h1; injection h1 with h1
  have := h2 [exStream] (by rw [← h1]; simp)
  have bad : (readAllWithK idXform Zlib.ident.toZlibOps (none : Option Int).isSome
      (dispatchMutRead (layoutTable realCustom exTable)) (Sock.plain [exStream])).1
      = ([.known 0 [.str "hi"] []], .type) := by decide +kernel
  rw [bad] at this
  exact absurd (congrArg Prod.snd this) (by decide)

/-- … and the library's branch on the same stream, evaluated (not via the theorem): all four handed
on, the two unknown ones bare, then end-of-stream. -/
example : readAllD Zlib.ident.toZlibOps false (layoutTable realCustom exTable) [exStream] =
    ([.known 0 [.str "hi"] [], .bare 5 [0xaa, 0xbb], .known 3 [.int 300] [], .bare 0x7f []], .eof) := by
  decide +kernel

/-- CHANGE 2: `_write_packet` without `if self.options.compression_enabled` — always
`packet.write(self.socket, self.options.compression_threshold)`. -/
def writerThrMutAlways (o : ConnOpts) : Option Int := some o.threshold

/-- `roundtrip_conn` with CHANGE 2 plugged in is FALSE, already for the options of a fresh
connection and a one-byte packet. -/
theorem mutant_writer_ignores_enabled_refuted :
    ¬ ∀ (z : Zlib) (o : ConnOpts) (ps : List (Nat × Bytes)),
      (∀ p ∈ ps, FrameOK z.toZlibOps (writerThrMutAlways o) p) → ∀ segs : Segs,
        segs.flatten = (ps.map (packetFrame z.toZlibOps (writerThrMutAlways o))).flatten →
        readAll z.toZlibOps (readerFlag o) segs = (ps, .eof) := by
  intro h
  have := h Zlib.ident ConnOpts.init [(5, [0x61])] (by decide +kernel) [[0x03, 0x00, 0x05, 0x61]]
    (by decide +kernel)
  revert this
  decide +kernel

/-- CHANGE 3: `read_packet` tests the threshold instead of the flag
(`if self.connection.options.compression_threshold >= 0`). -/
def readerFlagMutThreshold (o : ConnOpts) : Bool := decide (0 ≤ o.threshold)

/-- `roundtrip_conn` with CHANGE 3 plugged in is FALSE: after a "set compression" announcing `-1`
the writer frames with the data-length byte, the changed reader does not expect it. -/
theorem mutant_reader_tests_threshold_refuted :
    ¬ ∀ (z : Zlib) (o : ConnOpts) (ps : List (Nat × Bytes)),
      (∀ p ∈ ps, FrameOK z.toZlibOps (writerThr o) p) → ∀ segs : Segs,
        segs.flatten = (ps.map (packetFrame z.toZlibOps (writerThr o))).flatten →
        readAll z.toZlibOps (readerFlagMutThreshold o) segs = (ps, .eof) := by
  intro h
  have := h Zlib.ident (ConnOpts.init.setCompression (-1)) [(5, [0x61])] (by decide +kernel)
    [[0x03, 0x00, 0x05, 0x61]] (by decide +kernel)
  revert this
  decide +kernel

/-- CHANGE 4: `_connect` resets only the threshold (l.453 dropped). -/
def connectResetMut (o : ConnOpts) : ConnOpts := { o with threshold := -1 }

/-- `options_history` ("plain framing after every connect") with CHANGE 4 plugged in is FALSE:
reconnecting after a session that negotiated compression keeps the data-length framing. -/
theorem mutant_connect_keeps_enabled_refuted :
    ¬ ∀ o : ConnOpts, writerThr (connectResetMut o) = none := by
  intro h
  exact absurd (h (ConnOpts.init.setCompression 256)) (by decide)

/-! ## non-vacuity -/

-- the hypotheses of `dispatch_unknown_interleaved` hold for the example (compression off, and
-- threshold 3: the first item is compressed), and its conclusion read off a segmentation that
-- cuts inside the unknown frame
example : ∀ i ∈ exItems, i.OK Zlib.ident.toZlibOps none exTable := by decide +kernel
example : ∀ i ∈ exItems, i.OK Zlib.ident.toZlibOps (some 3) exTable := by decide +kernel
example : writeItems realCustom Zlib.ident.toZlibOps none exItems = .ok exStream := by
  decide +kernel
example :
    readAllD Zlib.ident.toZlibOps false (layoutTable realCustom exTable)
      [exStream.take 6, [], exStream.drop 6 |>.take 1, exStream.drop 7] =
    (exItems.map WItem.expected, .eof) := by
  obtain ⟨stream, h1, h2⟩ := dispatch_unknown_interleaved Zlib.ident none exTable exItems
    (by decide +kernel)
  have e : writeItems realCustom Zlib.ident.toZlibOps none exItems = .ok exStream := by
    decide +kernel
  rw [e] at h1; injection h1 with h1
  exact h2 _ (by rw [← h1]; decide +kernel)

-- `Dispatches` is satisfiable in both branches, and not by everything
example : Dispatches (layoutTable realCustom exTable) (5, [0xaa, 0xbb]) (.bare 5 [0xaa, 0xbb]) :=
  .inl ⟨rfl, rfl⟩
example : Dispatches (layoutTable realCustom exTable) (3, [0xac, 0x02, 0x09])
    (.known 3 [.int 300] [0x09]) :=
  .inr ⟨_, _, _, rfl, by decide +kernel, rfl⟩
example : ¬ Dispatches (layoutTable realCustom exTable) (3, [0xac, 0x02]) (.bare 3 [0xac, 0x02]) := by
  rintro (⟨h, -⟩ | ⟨_, _, _, -, -, h⟩)
  · exact absurd h (by decide +kernel)
  · cases h

-- `known_read_error_ends_loop`: id 3 with a truncated VarInt between a good packet and a successor
example :
    readAllD Zlib.ident.toZlibOps false (layoutTable realCustom exTable)
      [[0x03, 0x05, 0xaa, 0xbb,  0x02, 0x03, 0xac,  0x01, 0x7f]] =
    ([.bare 5 [0xaa, 0xbb]], .eof) :=
  known_read_error_ends_loop Zlib.ident none (layoutTable realCustom exTable)
    [((5, [0xaa, 0xbb]), .bare 5 [0xaa, 0xbb])] (3, [0xac]) [(0x7f, [])]
    (by decide +kernel) (fun pd hpd => by rw [List.mem_singleton.mp hpd]; exact .inl ⟨rfl, rfl⟩)
    (by decide +kernel) (by decide +kernel) (decodeFields realCustom [("threshold", .varint)]) .eof
    rfl (by decide +kernel) _ (by decide +kernel)

-- `roundtrip_conn` / `options_history`: enabled with threshold -1; disabled with a stale 256
example : readAll Zlib.ident.toZlibOps true [[0x03], [0x00, 0x05, 0x61]] = ([(5, [0x61])], .eof) :=
  roundtrip_conn Zlib.ident (ConnOpts.init.setCompression (-1)) [(5, [0x61])] (by decide +kernel) _
    (by decide +kernel)
example : readAll Zlib.ident.toZlibOps false [[0x02, 0x05, 0x61]] = ([(5, [0x61])], .eof) :=
  roundtrip_conn Zlib.ident ((ConnOpts.init.setCompression 256).connectReset) [(5, [0x61])]
    (by decide +kernel) _ (by decide +kernel)
example : ConnOpts.init.run [.setCompression 256, .connect, .setCompression (-1)]
    = { enabled := true, threshold := -1 } := by decide +kernel
-- `writer_threshold_while_reader_off_misreads`
example : readAll Zlib.ident.toZlibOps false [[0x03, 0x00, 0x05, 0x61]]
    = ([(0, encVarInt 5 ++ [0x61])], .eof) :=
  (writer_threshold_while_reader_off_misreads Zlib.ident 5 [0x61] (by decide +kernel)
    [[0x03, 0x00, 0x05, 0x61]] (by decide +kernel)).1
example : encVarInt 5 ++ [0x61] = [0x05, 0x61] := by decide +kernel

end PyCraft.C01Dispatch
