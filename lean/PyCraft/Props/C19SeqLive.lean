import PyCraft.Generated.C19Seq
import PyCraft.Ref.C19Json
/-!
# C19, audit item 23 — the model of `Model/C19Seq.lean`, `Model/C19Json.lean` and the reference
# decoder `Ref/C19Json.lean` against observations of the LIVE code

`Generated/C19Seq.lean` is written by `harness/gen/c19seq.py` from whatever `/repo` contains when it
runs: the module constants, `json.dumps` / `json.loads` on fixed inputs, the responses served in the
observed program runs (`res.text`, `res.json()`), and the runs themselves (those are checked in
`Props/C19SeqRuns.lean`).  The theorems below say the model / the reference decoder predict every
entry of the first four tables.
-/
namespace PyCraft.C19Seq
open PyCraft PyCraft.Json PyCraft.AuthSeq PyCraft.Ref.Json PyCraft.Gen.C19Seq

/-- The constants of the model are the constants of the module. -/
theorem live_constants :
    liveConsts =
      [("AUTH_SERVER", AUTH_SERVER), ("SESSION_SERVER", SESSION_SERVER),
       ("CONTENT_TYPE", CONTENT_TYPE),
       ("HEADERS", ";".intercalate (HEADERS.map fun kv => kv.1 ++ "=" ++ kv.2)),
       ("AGENT_NAME", AGENT_NAME), ("AGENT_VERSION", toString AGENT_VERSION)] := by
  decide +kernel

/-- `Json.jsonDumps` produces, character for character, what the real `json.dumps` produced. -/
theorem live_dumps_agree : ∀ p ∈ liveDumps, jsonDumps p.1 = p.2 := by decide +kernel

/-- The reference decoder accepts / rejects and decodes the sample texts exactly like the real
`json.loads` (texts whose value has a float or a lone surrogate are not in the table). -/
theorem live_loads_agree : ∀ p ∈ liveLoads, parseJson p.1 = p.2 := by decide +kernel

/-- The responses served in the runs. -/
def repliesOf (r : LiveRun) : List Reply :=
  r.steps.filterMap fun s => match s.2 with
    | .reply rp => some rp
    | .fail => none

/-- For every response served in the runs, the reference decoder finds in `res.text` exactly what
the real `res.json()` returned (or fails where it raised): the two fields of `Reply` that the model
treats as independent inputs are related as expected.  (`liveReplyTexts` lists the distinct pairs.) -/
theorem live_replies_decode :
    (∀ p ∈ liveReplyTexts, parseJson p.1 = p.2) ∧
    ∀ r ∈ liveRuns, ∀ rp ∈ repliesOf r, (rp.text, rp.json) ∈ liveReplyTexts := by
  constructor <;> decide +kernel

end PyCraft.C19Seq
