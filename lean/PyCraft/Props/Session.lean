import PyCraft.Lemmas.SessionWire
import PyCraft.Props.C01
import PyCraft.Props.C09Wire
import PyCraft.Props.C10Wire
import PyCraft.Props.C11Wire
import PyCraft.Props.C18
import PyCraft.Model.Aes
/-!
# One session on the wire — handshake → login → play as ONE byte stream

Composes the three byte-level layers `Props/C09Wire.lean` (handshake / login start),
`Props/C10Wire.lean` (login: cipher switch, threshold) and `Props/C11Wire.lean` (play: keep-alive
and teleport replies) — and underneath C01 (frames, any segmentation) and C18 (CFB8 chunking) — into
statements about the WHOLE client → server stream of a direct-login session
(`Session.clientBytes`, `Model/SessionWire.lean`) and about ONE reference server reading it
(`Session.serverRecoverSession`).  The point of the composition is what happens at the
login → play boundary: `connection.socket` (wrapped once, at the encryption response) and
`connection.options.compression_threshold` are the SAME objects before and after `login success`,
so the CFB8 stream and the threshold continue.

Everything is quantified over ALL sessions (`Session.Session`: any connection parameters, any
negotiated protocol and login-start id, any login parameters, any server step list — every order of
login packets and every placement of the client's write phases —, any pair of login packet ids, any
play profile, any play packets, any caps with `capR ≥ 1`), every zlib, every block function and
every segmentation.  Guards are explicit and decidable: `HsWire.FirstOK` (C09Wire), `ReachesPlay`
(the login run ends in the play state without an exception), C01's `FrameOK` for the login frames
and the play replies, `SrvPkt.wf`, `Profile.sbDistinct` (C11Wire); the RSA law `dec ∘ enc = id` is
the field `Rsa.law` of the parameter, used through `matching pk priv`; the zlib law is the field
`Zlib.rt`.

Scope of the play part.  `Session.clientBytes` frames every play reply with ONE threshold, the one
of the final login mode: that is what the client writes when the server's play stream contains no
play-state "set compression" packet (`SrvPkt.isSetCompression`; such a packet exists only for
protocols ≤ 47) — `C11Wire.server_recovers_replies_one_threshold`, last clause.  With such packets
the threshold changes inside the play phase; that is `C11Wire.client_wire_is_frames_of_replies` /
`server_recovers_replies` (a threshold per reply), not composed into the session here.

Only property theorems and non-vacuity examples live here; helper lemmas and the concrete example
sessions are in `Lemmas/SessionWire.lean`.
-/
namespace PyCraft.SessionProps
open PyCraft PyCraft.Login PyCraft.Play PyCraft.LoginWire PyCraft.Session

/-- (a) The stream decomposes into the three layers.  For a session whose first frames can be
written (port in `0..65535`, a login name exists) and whose login reaches the play state, the
bytes handed to the socket are, in this order and with nothing in between:
1. `HsWire.firstBytes` — handshake and login start, plaintext, uncompressed (C09Wire);
2. `LoginWire.wireBytes` of the login outbox — which is (C10Wire) the PLAINTEXT frames up to and
   including the encryption response followed by ONE CFB8 stream (register initially the secret)
   over the later login frames;
3. the frames of the play replies (`PlayWire.replyFrame`, C11Wire), every one framed with the
   threshold of the final login mode — as they are if no cipher was installed, else encrypted from
   `loginReg`, THE REGISTER THE ENCRYPTOR WAS LEFT IN by the login part (which is the register the
   one-shot encryption of the encrypted login frames ends in — not the IV).
The chunks (`clientChunks`) concatenate to that stream.  The cipher is on exactly when an
encryption response is in the outbox, the threshold is the last one the server announced before
`login success`, and the replies are a prefix of — unless the peer closed at a disconnect, exactly
— the replies due to the packets before the first server disconnect. -/
theorem session_bytes_decompose (S : Session) (z : ZlibOps) (E : Bytes → Bytes)
    (hport : S.conn.port < 65536) (hname : Neg.loginName S.conn ≠ none)
    (hplay : ReachesPlay S) (hR : 1 ≤ S.capR) :
    let m := finalMode S
    let plainPart := (splitAtEncResp (outbox S)).1
    let cipherPart := (splitAtEncResp (outbox S)).2
    let pf := (playReplies S).map (PlayWire.replyFrame z m.threshold S.profile)
    clientBytes z E S =
        (HsWire.firstBytes S.lsId S.conn S.plan ++
          (wireBytes z E S.lp.secret S.ids (outbox S) ++
            (match m.cipher with
             | none => pf.flatten
             | some _ => (cfb8Enc E (loginReg z E S) pf.flatten).2)), none) ∧
      (clientChunks z E S).1.flatten = (clientBytes z E S).1 ∧
      wireBytes z E S.lp.secret S.ids (outbox S) =
        (plainPart.map (frameOfSent z S.ids)).flatten ++
          (cfb8Enc E S.lp.secret (cipherPart.map (frameOfSent z S.ids)).flatten).2 ∧
      loginReg z E S =
        (cfb8Enc E S.lp.secret (cipherPart.map (frameOfSent z S.ids)).flatten).1 ∧
      m.cipher = (if (outbox S).any (fun f => isEncResp f.pkt) then some S.lp.secret else none) ∧
      m.threshold = announced (events S.steps) ∧
      playReplies S <+: PlayWire.due S.profile S.pkts ∧
      ((S.peerOpen = true ∨ PlayWire.hasDiscP S.pkts = false) →
        playReplies S = PlayWire.due S.profile S.pkts) := by
  intro m plainPart cipherPart pf
  have hinv := wireInv_exec S.lp S.loginSteps
  obtain ⟨hw, -⟩ := C10Wire.wire_prefix_plain_suffix_cipher S.lp S.loginSteps z E S.ids
  obtain ⟨hpre, heq⟩ := playReplies_facts S hR
  refine ⟨?_, by simp only [clientBytes, clientBytesWith, clientChunks], hw,
    wireRun_split z E S.ids (outbox S) S.lp.secret hinv.sw, ?_, ?_, hpre, heq⟩
  · show clientBytesWith .carry z E S = _
    rw [clientBytesWith_ok .carry z E S hport hname, playWire_carry z E S hplay]
    simp only [playFrames, m, pf]
    generalize (finalMode S).cipher = c
    cases c <;> rfl
  · show (if (loginEnd S).encrypted then some S.lp.secret else none) = _
    rw [loginEnd_encrypted]; rfl
  · show (exec S.lp .init S.loginSteps).threshold = _
    rw [threshold_exec, events_loginSteps]

/-- (b) The reference server recovers the session.  Let the whole stream of ANY session within
the guards of the three layers — `FirstOK` (C09Wire); the login reaches play, the server holds the
private key of every public key it sent, the two login ids differ, every login frame passes the
VarInt guard (C10Wire); `capR ≥ 1`, well-formed play packets, distinct serverbound play ids, every
reply due passes the VarInt guard under the final threshold, the peer has not closed (C11Wire) —
arrive in ANY segmentation.  The ONE server — plaintext for handshake and login start, plaintext
login frames until the encryption response, RSA-decrypting the secret from it, ONE CFB8 decryptor
from the next byte on for the remaining login frames AND the play replies, ONE compression flag
switched by its own announcements and kept across `login success` — returns exactly: the handshake
record with the negotiated protocol, host, port and next state 2; the login name; `(id, field
bytes)` of every login frame in order; the client's secret as key iff encryption was switched on;
the play replies due; no exception, and the play loop ends with the stream exhausted at a frame
boundary.  Nothing is lost, merged, split or reordered across the two state changes. -/
theorem server_recovers_session (S : Session) (z : Zlib) (EK : Bytes → Bytes → Bytes)
    (priv : Bytes) (segs : Segs)
    (hfirst : HsWire.FirstOK S.lsId S.conn S.plan) (hplay : ReachesPlay S)
    (hids : S.ids.encResp ≠ S.ids.plugResp)
    (hkey : ∀ sid pk tok, LoginEv.encRequest sid pk tok ∈ events S.steps →
      S.lp.rsa.matching pk priv)
    (hokL : ∀ f ∈ outbox S, FrameOK z.toZlibOps f.threshold (wirePkt S.ids f))
    (hR : 1 ≤ S.capR) (hSb : S.profile.sbDistinct = true)
    (hwf : ∀ p ∈ S.pkts, p.wf S.profile = true)
    (hokP : ∀ q ∈ PlayWire.due S.profile S.pkts,
      FrameOK z.toZlibOps (finalMode S).threshold (PlayWire.replyFields S.profile q))
    (hpo : S.peerOpen = true ∨ PlayWire.hasDiscP S.pkts = false)
    (hseg : segs.flatten = (clientBytes z.toZlibOps (EK S.lp.secret) S).1) :
    (clientBytes z.toZlibOps (EK S.lp.secret) S).2 = none ∧
    ∃ name, Neg.loginName S.conn = some name ∧
      serverRecoverSession z.toZlibOps EK (S.lp.rsa.dec priv) S.lsId S.ids.encResp S.profile
          (serverScript S) segs =
        { hs := some ⟨S.proto, S.conn.host, S.conn.port, 2⟩
          name := some name
          login := (outbox S).map (wirePkt S.ids)
          key := (finalMode S).cipher
          replies := PlayWire.due S.profile S.pkts
          err := none
          playEnd := some .eof } := by
  obtain ⟨h1, h2, h3, h4, name, hn, hs⟩ := HsWire.firstOK_direct S.lsId S.conn S.proto hfirst
  have hne : Neg.loginName S.conn ≠ none := by rw [hn]; simp
  have hb : clientBytes z.toZlibOps (EK S.lp.secret) S = _ :=
    clientBytesWith_ok .carry z.toZlibOps (EK S.lp.secret) S h2 hne
  rw [hb] at hseg ⊢
  refine ⟨rfl, name, hn, ?_⟩
  have hfb : HsWire.firstBytes S.lsId S.conn S.plan = _ :=
    HsWire.firstBytes_direct S.lsId S.conn S.proto name h2 hn
  simp only [hfb, List.map_cons, List.map_nil, List.flatten_cons, List.flatten_nil,
    List.append_nil, List.append_assoc] at hseg
  obtain ⟨k2, hk2, hsrv⟩ := server_first z.toZlibOps EK (S.lp.rsa.dec priv) S.lsId S.ids.encResp
    S.profile (serverScript S) segs ⟨S.proto, S.conn.host, S.conn.port, 2⟩
    ⟨h3, h1, h2, by show (2 : Nat) < 2 ^ 32; omega⟩ rfl name h4 hs _ hseg
  rw [hsrv]
  have hinv := wireInv_exec S.lp S.loginSteps
  have hrep : playReplies S = PlayWire.due S.profile S.pkts := (playReplies_facts S hR).2 hpo
  have henc : (loginEnd S).encrypted = hasEncResp (outbox S) := loginEnd_encrypted S
  have hk : k2.segs.flatten =
      (wireRun z.toZlibOps (EK S.lp.secret) S.ids S.lp.secret (outbox S)).2.flatten ++
        (playChunks z.toZlibOps (EK S.lp.secret) (finalMode S).threshold S.profile
          (if hasEncResp (outbox S) then
            some (wireRun z.toZlibOps (EK S.lp.secret) S.ids S.lp.secret (outbox S)).1 else none)
          (PlayWire.due S.profile S.pkts)).flatten := by
    rw [hk2, wireRun_snd, ← hrep]
    unfold playWireWith playChunksWith
    rw [if_pos hplay]
    simp only [finalMode, henc, Boundary.carry, loginReg, loginRun, wireBytes, wireChunks]
    cases hasEncResp (outbox S) <;> rfl
  have hmain := sessPlain_outbox z EK (S.lp.rsa.dec priv) S.lp.secret S.ids hids S.profile
    (finalMode S).threshold (PlayWire.due S.profile S.pkts) hSb
    (PlayWire.due_wf S.profile S.pkts hwf) hokP (outbox S) false k2 hinv.sw hokL
    (session_key S priv hkey) hk
  have hscr : serverScript S =
      expectOf false (modesOf (outbox S)) (finalMode S).threshold.isSome := rfl
  rw [hscr, hmain]
  simp only [finalMode, henc]

/-- (b′) The ONE server agrees with the three layer servers.  Under the hypotheses of (b): cut the
stream at the two layer boundaries and give each part, in any segmentation, to the reference server
of its own layer — `HsWire.serverRecv` (C09Wire) gets the handshake record and the login start,
`LoginWire.serverRecover` (C10Wire) gets the login frames and the key, and
`PlayWire.serverDecodeReplies` (C11Wire) gets the replies due PROVIDED its decryptor is started from
`loginReg`, the register carried over from the login part (resp. on a plain socket if no cipher was
installed) and its compression flag is the one of the final login mode.  These are literally the
three layer theorems `C09Wire.server_recovers_first_frames`, `C10Wire.server_recovers_outbox`,
`C11Wire.server_recovers_replies_one_threshold`; the components are those `serverRecoverSession` returns in (b). -/
theorem layer_servers_agree (S : Session) (z : Zlib) (EK : Bytes → Bytes → Bytes)
    (priv : Bytes) (segsH segsL segsP : Segs)
    (hfirst : HsWire.FirstOK S.lsId S.conn S.plan) (hplay : ReachesPlay S)
    (hids : S.ids.encResp ≠ S.ids.plugResp)
    (hkey : ∀ sid pk tok, LoginEv.encRequest sid pk tok ∈ events S.steps →
      S.lp.rsa.matching pk priv)
    (hokL : ∀ f ∈ outbox S, FrameOK z.toZlibOps f.threshold (wirePkt S.ids f))
    (hR : 1 ≤ S.capR) (hSb : S.profile.sbDistinct = true)
    (hwf : ∀ p ∈ S.pkts, p.wf S.profile = true)
    (hokP : ∀ q ∈ PlayWire.due S.profile S.pkts,
      FrameOK z.toZlibOps (finalMode S).threshold (PlayWire.replyFields S.profile q))
    (hpo : S.peerOpen = true ∨ PlayWire.hasDiscP S.pkts = false)
    (hH : segsH.flatten = HsWire.firstBytes S.lsId S.conn S.plan)
    (hL : segsL.flatten = wireBytes z.toZlibOps (EK S.lp.secret) S.lp.secret S.ids (outbox S))
    (hP : segsH.flatten ++ (segsL.flatten ++ segsP.flatten) =
      (clientBytes z.toZlibOps (EK S.lp.secret) S).1) :
    (∃ r name, HsWire.serverRecv segsH = .ok r ∧ Neg.loginName S.conn = some name ∧
      r.hs = ⟨S.proto, S.conn.host, S.conn.port, 2⟩ ∧ r.decoded S.lsId = [.loginStart name] ∧
      r.err = none) ∧
    (let r :=
        serverRecover z.toZlibOps EK (S.lp.rsa.dec priv) S.ids.encResp (modesOf (outbox S)) segsL;
      r.packets = (outbox S).map (wirePkt S.ids) ∧ r.key = (finalMode S).cipher ∧ r.err = none ∧
        r.rest = []) ∧
    (match (finalMode S).cipher with
     | some _ =>
       PlayWire.serverDecodeReplies S.profile (cfb8DecX (EK S.lp.secret))
           (loginReg z.toZlibOps (EK S.lp.secret) S) z.toZlibOps (finalMode S).threshold.isSome
           segsP = (PlayWire.due S.profile S.pkts, .eof)
     | none =>
       PlayWire.serverDecodeReplies S.profile idXform () z.toZlibOps
           (finalMode S).threshold.isSome segsP = (PlayWire.due S.profile S.pkts, .eof)) := by
  obtain ⟨-, h2, -, -, name, hn, -⟩ := HsWire.firstOK_direct S.lsId S.conn S.proto hfirst
  have hne : Neg.loginName S.conn ≠ none := by rw [hn]; simp
  -- the play part of the stream
  have hb : clientBytes z.toZlibOps (EK S.lp.secret) S = _ :=
    clientBytesWith_ok .carry z.toZlibOps (EK S.lp.secret) S h2 hne
  rw [hb, hH, hL] at hP
  have hPw : segsP.flatten = playWireWith .carry z.toZlibOps (EK S.lp.secret) S :=
    List.append_cancel_left (List.append_cancel_left hP)
  have hrep : playReplies S = PlayWire.due S.profile S.pkts := (playReplies_facts S hR).2 hpo
  refine ⟨?_, ?_, ?_⟩
  · obtain ⟨r, e1, e2, e3, e4, -⟩ :=
      C09Wire.server_recovers_first_frames S.lsId S.conn S.plan segsH hfirst hH
    obtain ⟨nm, en, -, ed⟩ := e4 S.proto rfl
    exact ⟨r, nm, e1, en, e3, ed, e2⟩
  · intro r
    have hkey' : ∀ sid pk tok, LoginEv.encRequest sid pk tok ∈ events S.loginSteps →
        S.lp.rsa.matching pk priv := by
      rw [events_loginSteps]; exact hkey
    obtain ⟨a, b, c, d⟩ := C10Wire.server_recovers_outbox S.lp S.loginSteps z EK S.ids priv segsL
      hids hkey' hokL hL
    refine ⟨a, d.trans ?_, b, c⟩
    show _ = if (loginEnd S).encrypted then some S.lp.secret else none
    rw [loginEnd_encrypted]; rfl
  · have hwire := playWire_carry z.toZlibOps (EK S.lp.secret) S hplay
    cases hc : (finalMode S).cipher with
    | some sec =>
      rw [hc] at hwire
      obtain ⟨r, hr, hsrv, hdue, -⟩ := C11Wire.server_recovers_replies_one_threshold (cfb8Pair (EK S.lp.secret))
        (loginReg z.toZlibOps (EK S.lp.secret) S) z (finalMode S).threshold S.profile S.pkts
        S.peerOpen S.capW S.capR hR hSb hwf hokP
      have hw : r.wire = playReplies S := by unfold playReplies; rw [hr]
      rw [← hdue hpo]
      apply hsrv
      rw [hPw, hwire, hw]
      exact (playChunks_some _ _ _ _ _ _).symm
    | none =>
      rw [hc] at hwire
      obtain ⟨r, hr, hsrv, hdue, -⟩ := C11Wire.server_recovers_replies_one_threshold PlayWire.plainPair ()
        z (finalMode S).threshold S.profile S.pkts S.peerOpen S.capW S.capR hR hSb hwf hokP
      have hw : r.wire = playReplies S := by unfold playReplies; rw [hr]
      rw [← hdue hpo]
      apply hsrv
      rw [hPw, hwire, hw]
      exact (playChunks_none _ (EK S.lp.secret) _ _ _).symm

/-- (c) The cipher context continues across `login success`.  If the login switched encryption
on, then behind the first frames and the plaintext login frames (the last of which IS the
encryption response) the whole rest of the stream — the remaining login frames AND all play
frames — is `cfb8Enc secret secret (login frames ++ play frames)`: ONE CFB8 stream with
key = IV = secret, not two.  Equivalently (C18's chunking law) the play frames are encrypted from
the register the login frames left behind; a decryptor that started from the secret and has
consumed the login ciphertext is in exactly that register, and from there — and, as the negative
witness below shows, not from a fresh IV — the play ciphertext decrypts to the play frames. -/
theorem cipher_continues_across_login_to_play (S : Session) (z : ZlibOps) (E : Bytes → Bytes)
    (hport : S.conn.port < 65536) (hname : Neg.loginName S.conn ≠ none)
    (hplay : ReachesPlay S) (henc : (finalMode S).cipher ≠ none) :
    let plainPart := (splitAtEncResp (outbox S)).1
    let loginTail := ((splitAtEncResp (outbox S)).2.map (frameOfSent z S.ids)).flatten
    let play := playFrames z (finalMode S).threshold S.profile (playReplies S)
    (finalMode S).cipher = some S.lp.secret ∧
      (∃ before x, plainPart = before ++ [x] ∧ isEncResp x.pkt = true ∧
        ∀ f ∈ before, isEncResp f.pkt = false) ∧
      clientBytes z E S =
        (HsWire.firstBytes S.lsId S.conn S.plan ++
          ((plainPart.map (frameOfSent z S.ids)).flatten ++
            (cfb8Enc E S.lp.secret (loginTail ++ play)).2), none) ∧
      (cfb8Enc E S.lp.secret (loginTail ++ play)).2 =
        (cfb8Enc E S.lp.secret loginTail).2 ++ (cfb8Enc E (loginReg z E S) play).2 ∧
      loginReg z E S = (cfb8Enc E S.lp.secret loginTail).1 ∧
      (cfb8Dec E S.lp.secret (cfb8Enc E S.lp.secret loginTail).2).1 = loginReg z E S ∧
      (cfb8Dec E (loginReg z E S) (cfb8Enc E (loginReg z E S) play).2).2 = play ∧
      (cfb8Dec E S.lp.secret (cfb8Enc E S.lp.secret (loginTail ++ play)).2).2 =
        loginTail ++ play := by
  intro plainPart loginTail play
  have hinv := wireInv_exec S.lp S.loginSteps
  have hcipher : (finalMode S).cipher = some S.lp.secret := by
    unfold finalMode at henc ⊢
    cases h : (loginEnd S).encrypted
    · rw [h] at henc; simp at henc
    · simp
  have hencr : (loginEnd S).encrypted = true := by
    cases h : (loginEnd S).encrypted
    · unfold finalMode at hcipher; rw [h] at hcipher; simp at hcipher
    · rfl
  obtain ⟨hw, -, -, -, -, hshape⟩ :=
    C10Wire.wire_prefix_plain_suffix_cipher S.lp S.loginSteps z E S.ids
  have hhas : ∃ f ∈ outbox S, isEncResp f.pkt = true := by
    have : hasEncResp (outbox S) = true := by rw [← loginEnd_encrypted]; exact hencr
    exact List.any_eq_true.mp this
  have hreg : loginReg z E S = (cfb8Enc E S.lp.secret loginTail).1 :=
    wireRun_split z E S.ids (outbox S) S.lp.secret hinv.sw
  obtain ⟨c1, -⟩ := cfb8_continue E S.lp.secret loginTail play
  obtain ⟨d1, d2, d3⟩ := cfb8_continue_dec E S.lp.secret loginTail play
  refine ⟨hcipher, hshape hhas, ?_, by rw [c1, hreg], hreg, by rw [hreg]; exact d1,
    by rw [hreg]; exact d2, d3⟩
  show clientBytesWith .carry z E S = _
  rw [clientBytesWith_ok .carry z E S hport hname, playWire_carry z E S hplay, hcipher]
  have hw' : wireBytes z E S.lp.secret S.ids (outbox S) =
      (plainPart.map (frameOfSent z S.ids)).flatten ++ (cfb8Enc E S.lp.secret loginTail).2 := hw
  simp only [hw', c1, hreg, List.append_assoc, play]

/-- (c, negative witness) Restarting the cipher at the boundary is detected — on either side.
On the concrete session `demoSession` (protocol 757 ids; encryption, then threshold 8, a plugin
request, success; in play two keep-alives and a position-and-look) the reference server recovers
everything from pyCraft's stream.  Sender side: a client that installs a FRESH cipher for the play
state (`Boundary.restartCipher`: IV = secret again) writes the same bytes up to the boundary and
different bytes behind it, and the same server — whose ONE decryptor has moved on — gets the
handshake and the login frames but NOT the play replies out of them.  Receiver side: the play part
of pyCraft's real stream (its last 26 bytes, behind 48 plaintext bytes and the 5 encrypted bytes of
the plugin response) is decoded by C11Wire's server when its decryptor starts from the CARRIED
register `loginReg`, and is NOT when it starts from a fresh IV (= the secret). -/
theorem cipher_restart_detected :
    let E := toyEK demoLP.secret
    let z := Zlib.ident.toZlibOps
    let due := PlayWire.due demoSession.profile demoSession.pkts
    demoServer demoSession [demoBytes .carry demoSession] = expected demoSession "Steve" ∧
      demoBytes .restartCipher demoSession ≠ demoBytes .carry demoSession ∧
      (demoBytes .restartCipher demoSession).take 53 = (demoBytes .carry demoSession).take 53 ∧
      (demoServer demoSession [demoBytes .restartCipher demoSession]).login =
        (expected demoSession "Steve").login ∧
      (demoServer demoSession [demoBytes .restartCipher demoSession]).replies ≠ due ∧
      PlayWire.serverDecodeReplies demoSession.profile (cfb8DecX E) (loginReg z E demoSession) z
          true [(demoBytes .carry demoSession).drop 53] = (due, .eof) ∧
      loginReg z E demoSession ≠ demoLP.secret ∧
      (PlayWire.serverDecodeReplies demoSession.profile (cfb8DecX E) demoLP.secret z
          true [(demoBytes .carry demoSession).drop 53]).1 ≠ due := by
  decide +kernel

/-- (d) The threshold continues into play.  Let `thr` be the last `set compression` value the
server sent before `login success` (`none` if it sent none).  It is the threshold of the final
login mode, and the play part of the stream ON THE WIRE is — behind first frames and login frames,
in plaintext or continuing the cipher stream — the concatenation of one frame per reply, EVERY one
of them `Packet._write_buffer` under exactly `thr`: without an announcement the frame is
`VarInt(len payload) ++ payload` (no data-length field); with threshold `t` the frame body starts
with the data-length field — `VarInt(len payload)` followed by `zlib.compress(payload)` iff
`len payload > t` and `t ≠ -1`, else `0x00` followed by the payload as it is. -/
theorem threshold_continues_into_play (S : Session) (z : ZlibOps) (E : Bytes → Bytes)
    (hport : S.conn.port < 65536) (hname : Neg.loginName S.conn ≠ none)
    (hplay : ReachesPlay S) :
    let thr := announced (events S.steps)
    let frames := (playReplies S).map (PlayWire.replyFrame z thr S.profile)
    (finalMode S).threshold = thr ∧
      (clientBytes z E S).1 =
        HsWire.firstBytes S.lsId S.conn S.plan ++
          (wireBytes z E S.lp.secret S.ids (outbox S) ++
            (match (finalMode S).cipher with
             | none => frames.flatten
             | some _ => (cfb8Enc E (loginReg z E S) frames.flatten).2)) ∧
      ∀ q ∈ playReplies S,
        let pay := packetPayload (PlayWire.replyFields S.profile q).1
          (PlayWire.replyFields S.profile q).2
        PlayWire.replyFrame z thr S.profile q =
            encVarInt (frameBody z thr pay).length ++ frameBody z thr pay ∧
          (thr = none → frameBody z thr pay = pay) ∧
          (∀ t, thr = some t → ((pay.length : Int) > t ∧ t ≠ -1) →
            frameBody z thr pay = encVarInt pay.length ++ z.deflate pay) ∧
          (∀ t, thr = some t → ¬((pay.length : Int) > t ∧ t ≠ -1) →
            frameBody z thr pay = 0 :: pay) := by
  intro thr frames
  have hthr : (finalMode S).threshold = thr := by
    show (exec S.lp .init S.loginSteps).threshold = _
    rw [threshold_exec, events_loginSteps]
  refine ⟨hthr, ?_, ?_⟩
  · show (clientBytesWith .carry z E S).1 = _
    rw [clientBytesWith_ok .carry z E S hport hname, playWire_carry z E S hplay]
    simp only [playFrames, frames, hthr]
    generalize (finalMode S).cipher = c
    cases c <;> rfl
  · intro q _ pay
    refine ⟨rfl, ?_, ?_, ?_⟩
    · intro h; rw [h]; rfl
    · intro t h hc; rw [h]; simp only [frameBody]; rw [if_pos hc]
    · intro t h hc
      rw [h]
      simp only [frameBody]
      rw [if_neg hc, HsWire.encVarInt_zero]
      rfl

/-- (d′) The server's ONE compression variable.  The script the reference server of a session
runs (`serverScript`, derived from the login outbox and the final mode) reads exactly one frame
per login frame and otherwise contains only "compression ON" entries — never "off": for EVERY run
the compression flags of the login frames are monotone (a threshold, once set, is never unset —
neither by a later login packet nor at `login success`) and the flag of the play phase is at least
the flag of the last login frame.  So the server's flag is a single variable that starts off, is
switched on when its `set compression` has taken effect, and is still on when play begins. -/
theorem server_flag_only_switched_on (S : Session) :
    (∀ e ∈ serverScript S, e = .frame ∨ e = .comp true) ∧
      ((serverScript S).filter (· == .frame)).length = (outbox S).length ∧
      (modesOf (outbox S)).Pairwise (fun a b => a = true → b = true) ∧
      (∀ f ∈ outbox S, f.threshold.isSome = true → (finalMode S).threshold.isSome = true) := by
  obtain ⟨h1, h2⟩ := serverScript_shape S
  have hinv := thrInv_exec S.lp S.loginSteps
  refine ⟨h1, h2, hinv.mono, ?_⟩
  intro f hf hft
  exact hinv.le _ (List.mem_map.mpr ⟨f, hf, rfl⟩) hft

/-- (d, negative witness) Forgetting the threshold at the boundary is detected.  On `demoSession`
(threshold 8 announced during login) a client that writes the play frames WITHOUT the data-length
field (`Boundary.forgetThreshold`) produces a different stream — identical up to the boundary —
which the reference server, whose compression flag is still on, refuses: it reads the handshake and
the login frames, then raises in the play phase and delivers no reply.  A session without any
announcement (`demoPlainSession`) is recovered with the flag off throughout. -/
theorem threshold_forgotten_detected :
    demoBytes .forgetThreshold demoSession ≠ demoBytes .carry demoSession ∧
      (demoBytes .forgetThreshold demoSession).take 53 = (demoBytes .carry demoSession).take 53 ∧
      (demoServer demoSession [demoBytes .forgetThreshold demoSession]).login =
        (expected demoSession "Steve").login ∧
      (demoServer demoSession [demoBytes .forgetThreshold demoSession]).replies = [] ∧
      (demoServer demoSession [demoBytes .forgetThreshold demoSession]).playEnd =
        some .assertion ∧
      demoServer demoPlainSession [demoBytes .carry demoPlainSession] =
        expected demoPlainSession "Steve" := by
  decide +kernel

/-! ### Non-vacuity: concrete sessions (kernel-evaluated) -/

/-- The login part of `demoSession`: the encryption response in plaintext and uncompressed, the
plugin response encrypted and compressed-framed; final mode: threshold 8, cipher on; the script
of its server: a frame, "compression on", a frame. -/
example : outbox demoSession =
      [⟨.encResp (7 :: demoLP.secret) [7, 9], false, none, true⟩,
       ⟨.plugResp 5 false none, true, some 8, false⟩] ∧
    finalMode demoSession = ⟨some 8, some demoLP.secret⟩ ∧
    announced (events demoSession.steps) = some 8 ∧
    serverScript demoSession = [.frame, .comp true, .frame] ∧
    playReplies demoSession = [.keepAlive 1, .teleportConfirm 7, .keepAlive 2] := by
  decide +kernel

/-- The guards of (a)–(d) hold for `demoSession` (and `FirstOK`, `ReachesPlay` are decidable). -/
example : HsWire.FirstOK demoSession.lsId demoSession.conn demoSession.plan ∧
    ReachesPlay demoSession ∧ demoSession.ids.encResp ≠ demoSession.ids.plugResp ∧
    (∀ f ∈ outbox demoSession,
      FrameOK Zlib.ident.toZlibOps f.threshold (wirePkt demoSession.ids f)) ∧
    1 ≤ demoSession.capR ∧ demoSession.profile.sbDistinct = true ∧
    (∀ p ∈ demoSession.pkts, p.wf demoSession.profile = true) ∧
    (∀ q ∈ PlayWire.due demoSession.profile demoSession.pkts,
      FrameOK Zlib.ident.toZlibOps (finalMode demoSession).threshold
        (PlayWire.replyFields demoSession.profile q)) ∧
    (finalMode demoSession).cipher ≠ none := by
  decide +kernel

/-- The whole stream of `demoSession` with the cipher made visible (`E` = the constant block
`00…`, so the key stream is zero and ciphertext = plaintext):
`10 00 f505 09"localhost" 63dd 02` handshake (protocol 757, next state 2) ·
`07 00 05"Steve"` login start ·
`16 01 11 07 10…1f 02 0709` encryption response (id 1; RSA(secret) = 17 bytes, RSA(token)),
uncompressed format ·
`04 00 02 05 00` plugin response (id 2, message 5, unsuccessful) in COMPRESSED format (data length
0) ·
`0a 09 0f 0000000000000001` keep-alive 1 (id 0x0f): data length 9 > 8, the `compress` branch
(store-only zlib) ·
`03 00 00 07` teleport confirm 7 (id 0) ·
`0a 09 0f …02` keep-alive 2. -/
example : hexOfBytes (clientBytes Zlib.ident.toZlibOps (fun _ => [0]) demoSession).1 =
    "1000f505096c6f63616c686f737463dd02" ++ "070005" ++ "5374657665" ++
    "16011107101112131415161718191a1b1c1d1e1f020709" ++ "0400020500" ++
    "0a090f0000000000000001" ++ "03000007" ++ "0a090f0000000000000002" := by decide +kernel

/-- … its chunks as handed to `socket.send`: two per frame (length prefix, body). -/
example : ((clientChunks Zlib.ident.toZlibOps (fun _ => [0]) demoSession).1.map hexOfBytes) =
    ["10", "00f505096c6f63616c686f737463dd02", "07", "00055374657665", "16",
     "011107101112131415161718191a1b1c1d1e1f020709", "04", "00020500", "0a",
     "090f0000000000000001", "03", "000007", "0a", "090f0000000000000002"] := by decide +kernel

/-- … and the real thing under the toy block function: 48 plaintext bytes (first frames and
encryption response), then ONE cipher stream over the plugin response and the three play frames. -/
example : hexOfBytes (demoBytes .carry demoSession) =
    "1000f505096c6f63616c686f737463dd02" ++ "0700055374657665" ++
    "16011107101112131415161718191a1b1c1d1e1f020709" ++
    "13aabbb364" ++ "d472a0382ab18cb7228df96722c0e08e11e80df602c0719a530e" ∧
    (demoBytes .carry demoSession).drop 48 =
      (cfb8Enc (toyEK demoLP.secret) demoLP.secret
        ([0x04, 0x00, 0x02, 0x05, 0x00] ++
          [0x0a, 0x09, 0x0f, 0, 0, 0, 0, 0, 0, 0, 1, 0x03, 0x00, 0x00, 0x07,
           0x0a, 0x09, 0x0f, 0, 0, 0, 0, 0, 0, 0, 2])).2 := by decide +kernel

/-- … and under the block function pyCraft uses, AES-128 keyed with the secret (`Model/Aes.lean`,
tied to FIPS-197 / SP 800-38A in `Props/C18.lean`): the hex of the whole stream — 48 plaintext
bytes, then 31 bytes of ONE AES-128-CFB8 stream (key = IV = secret) over the plugin response and
the three play frames — and the reference server with AES recovering the session from it. -/
example : hexOfBytes (clientBytes Zlib.ident.toZlibOps (aes128 demoLP.secret) demoSession).1 =
    "1000f505096c6f63616c686f737463dd02" ++ "0700055374657665" ++
    "16011107101112131415161718191a1b1c1d1e1f020709" ++
    "b365670313" ++ "9bf577f8be86e6fb6248e509736f20bd4f53867ee43773aea01d" := by decide +kernel
example :
    serverRecoverSession Zlib.ident.toZlibOps aes128 (demoSession.lp.rsa.dec []) demoSession.lsId
        demoSession.ids.encResp demoSession.profile (serverScript demoSession)
        [(clientBytes Zlib.ident.toZlibOps (aes128 demoLP.secret) demoSession).1] =
      expected demoSession "Steve" := by decide +kernel

/-- (b) instantiated: the hypotheses are satisfiable by `demoSession`, and the conclusion for an
arrival in four segments that cut through the handshake, the encryption response, the cipher
switch and the login → play boundary. -/
example :
    let w := demoBytes .carry demoSession
    demoServer demoSession [w.take 5, (w.drop 5).take 40, (w.drop 45).take 20, w.drop 65] =
      expected demoSession "Steve" := by
  intro w
  obtain ⟨-, name, hn, h⟩ := server_recovers_session demoSession Zlib.ident toyEK []
    [w.take 5, (w.drop 5).take 40, (w.drop 45).take 20, w.drop 65]
    (by decide +kernel) (by decide +kernel) (by decide) (fun _ _ _ _ => trivial)
    (by decide +kernel) (by decide) (by decide) (by decide +kernel) (by decide +kernel)
    (Or.inl rfl) (by decide +kernel)
  have : name = "Steve" := by
    have h2 : Neg.loginName demoSession.conn = some "Steve" := rfl
    rw [h2] at hn; exact (Option.some.inj hn).symm
  subst this
  exact h

/-- … evaluated: what the server returns. -/
example : demoServer demoSession [demoBytes .carry demoSession] =
    { hs := some ⟨757, "localhost", 25565, 2⟩
      name := some "Steve"
      login := [(1, [0x11, 7] ++ demoLP.secret ++ [2, 7, 9]), (2, [5, 0])]
      key := some demoLP.secret
      replies := [.keepAlive 1, .teleportConfirm 7, .keepAlive 2]
      err := none
      playEnd := some .eof } := by decide +kernel

/-- An offline-mode server without compression: the whole stream is plaintext,
`03 02 05 00` plugin response, `09 0f …01` keep-alive, `02 00 07` teleport confirm. -/
example : hexOfBytes (demoBytes .carry demoPlainSession) =
    "1000f505096c6f63616c686f737463dd02" ++ "0700055374657665" ++ "03020500" ++
    "090f0000000000000001" ++ "020007" ++ "090f0000000000000002" ∧
    finalMode demoPlainSession = ⟨none, none⟩ ∧ serverScript demoPlainSession = [.frame] := by
  decide +kernel

/-- A refused login never reaches play: the stream ends behind the encryption response, there is
no play part whatever the server "sends" afterwards, and the server sees the stream end. -/
example : ¬ ReachesPlay demoRefused ∧
    demoBytes .carry demoRefused = (demoBytes .carry demoSession).take 48 ∧
    (demoServer demoRefused [demoBytes .carry demoRefused]).replies = [] := by decide +kernel

/-- A first write phase that raises: port 65536 — nothing at all is sent; no login name — the
handshake is sent and nothing else, although the scripted server would have gone on. -/
example :
    clientBytes Zlib.ident.toZlibOps (toyEK demoLP.secret)
        { demoSession with conn := ⟨"localhost", 65536, none, some "Steve"⟩ } =
      ([], some .struct) ∧
    clientBytes Zlib.ident.toZlibOps (toyEK demoLP.secret)
        { demoSession with conn := ⟨"localhost", 25565, none, none⟩ } =
      ((demoBytes .carry demoSession).take 17, some .other) := by decide +kernel

end PyCraft.SessionProps
