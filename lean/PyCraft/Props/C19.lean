import PyCraft.Lemmas.Auth
/-!
# C19 — Auth token state follows the Yggdrasil replies; errors leave it untouched

All statements are for every token, every reply (any status, any of the six body shapes) and every
argument.  `run op t r` runs one of the six operations (`Model/Auth.lean`); its result is
`(token afterwards, outcome, request emitted or none)`.
-/
namespace PyCraft.C19
open PyCraft PyCraft.Auth

/-- A token reports itself authenticated exactly when username, access token and client token are
present and non-empty (Python truthiness: `None` and `""` are both falsy) and both profile fields are
not `None` (they may be empty strings). -/
theorem authenticated_iff (t : Token) :
    authenticated t = true ↔
      (∃ u, t.username = some u ∧ u ≠ "") ∧ (∃ a, t.accessToken = some a ∧ a ≠ "") ∧
      (∃ c, t.clientToken = some c ∧ c ≠ "") ∧ t.profileId ≠ none ∧ t.profileName ≠ none := by
  obtain ⟨u, a, c, i, n⟩ := t
  cases u <;> cases a <;> cases c <;> cases i <;> cases n <;>
    simp [authenticated, truthy] <;> grind

/-- HTTP error replies.  For every operation other than `validate`: if a request was emitted and
the reply status is not one the operation accepts — accepted are exactly `200` for `authenticate`,
`refresh`, `sign_out` and exactly `200`, `204` for `invalidate`, `join` — then the token is unchanged
and the call raises `YggdrasilError` carrying the status code, and either the reply's `error`,
`errorMessage` and (optional) `cause` when the body is an error object, or no fields and the
"Malformed error message" text for every other body. -/
theorem error_reply_raises_and_preserves (op : Op) (t : Token) (r : Reply) (req : Request)
    (hreq : (run op t r).2.2 = some req)
    (hst : match op with
      | .authenticate .. | .refresh | .signOut .. => r.status ≠ 200
      | .invalidate | .join _ => r.status ≠ 200 ∧ r.status ≠ 204
      | .validate => False) :
    (run op t r).1 = t ∧
    (run op t r).2.1 =
      (match r.body with
       | .errorObj e m c => .yggdrasil r.status (some e) (some m) c false
       | _ => .yggdrasil r.status none none none true) := by
  obtain ⟨st, body⟩ := r
  cases op with
  | authenticate fresh user pass inv =>
    simp only at hst
    cases body <;> simp [run, authenticate, raiseFromResponse, hst]
  | refresh =>
    simp only at hst
    cases ha : t.accessToken with
    | none => simp [run, refresh, ha] at hreq
    | some a =>
      cases hc : t.clientToken with
      | none => simp [run, refresh, ha, hc] at hreq
      | some c => cases body <;> simp [run, refresh, ha, hc, raiseFromResponse, hst]
  | validate => exact hst.elim
  | invalidate =>
    simp only at hst
    cases body <;> simp [run, invalidate, raiseFromResponse, hst]
  | signOut user pass =>
    simp only at hst
    cases body <;> simp [run, signOut, raiseFromResponse, hst]
  | join sid =>
    simp only at hst
    cases hau : authenticated t with
    | false => simp [run, join, hau] at hreq
    | true => cases body <;> simp [run, join, hau, raiseFromResponse, hst]

/-- The other direction for the three operations that read nothing from the body: on an accepted
status (`200` for `sign_out`; `200` or `204` for `invalidate` and for `join` on an authenticated
token) the call returns `True`, whatever the body, and the token is unchanged — `invalidate` does not
clear the stored tokens. -/
theorem accepted_reply_returns_true (t : Token) (r : Reply) (user pass sid : String) :
    (r.status = 200 → (signOut user pass r).1 = .ret true) ∧
    (r.status = 200 ∨ r.status = 204 →
      (invalidate t r).1 = t ∧ (invalidate t r).2.1 = .ret true) ∧
    (r.status = 200 ∨ r.status = 204 → authenticated t = true →
      (join t sid r).1 = t ∧ (join t sid r).2.1 = .ret true) := by
  refine ⟨?_, ?_, ?_⟩
  · intro h; simp [signOut, raiseFromResponse, h]
  · intro h; rcases h with h | h <;> simp [invalidate, raiseFromResponse, h]
  · intro h hau; rcases h with h | h <;> simp [join, raiseFromResponse, h, hau]

/-- `validate`: never changes the token and never raises on a reply.  Without an access token
(`None`; the empty string is let through) it raises `ValueError` and sends nothing.  Otherwise it
posts, returns `True` exactly for status 204, and for EVERY other status — 200, 403, 500 … — it
raises nothing and returns `None`, regardless of the body. -/
theorem validate_true_iff_204 (t : Token) (r : Reply) :
    (validate t r).1 = t ∧
    (t.accessToken = none → validate t r = (t, .valueError, none)) ∧
    (t.accessToken ≠ none →
      (validate t r).2.2 ≠ none ∧
      ((validate t r).2.1 = .ret true ↔ r.status = 204) ∧
      (r.status ≠ 204 → (validate t r).2.1 = .retNone)) := by
  cases ha : t.accessToken with
  | none => simp [validate, ha]
  | some a => by_cases h : r.status = 204 <;> simp [validate, ha, h]

/-- `join` on a token that is not authenticated contacts nobody, leaves the token unchanged and
raises the bare `YggdrasilError("AuthenticationToken hasn't been authenticated yet!")` (no status
code, no fields); and `join` emits a request exactly when the token is authenticated. -/
theorem join_refuses_offline (t : Token) (sid : String) (r : Reply) :
    (authenticated t = false → join t sid r = (t, .notAuthenticated, none)) ∧
    ((join t sid r).2.2 ≠ none ↔ authenticated t = true) := by
  cases h : authenticated t with
  | false => simp [join, h]
  | true => simp [join_req t sid r h]

/-- `authenticate` on a `200` reply whose body has all four keys stores exactly: the `username`
ARGUMENT, the returned access token, client token, profile id and profile name (nothing of the old
token survives — all five fields are overwritten) and returns `True`. -/
theorem success_stores_exactly_authenticate (fresh : String) (t : Token) (user pass : String)
    (inv : Bool) (a c i n : String) :
    let res := authenticate fresh t user pass inv ⟨200, .result (some a) (some c) (some ⟨some i, some n⟩)⟩
    res.1 = ⟨some user, some a, some c, some i, some n⟩ ∧ res.2.1 = .ret true := by
  simp [authenticate, raiseFromResponse, Body.parses, storeReply]

/-- `refresh` on a token that has both tokens, on a `200` reply whose body has all four keys: the
username is kept, the four other fields are replaced by the returned ones, `True` is returned. -/
theorem success_stores_exactly_refresh (t : Token) (a c i n : String)
    (ha : t.accessToken ≠ none) (hc : t.clientToken ≠ none) :
    let res := refresh t ⟨200, .result (some a) (some c) (some ⟨some i, some n⟩)⟩
    res.1 = ⟨t.username, some a, some c, some i, some n⟩ ∧ res.2.1 = .ret true := by
  obtain ⟨u, a0, c0, i0, n0⟩ := t
  cases a0 <;> cases c0 <;> simp_all [refresh, raiseFromResponse, Body.parses, storeReply]

/-- `authenticate` / `refresh` return `True` ONLY in the situation of the two theorems above: status
`200` and a body with all four keys (and, for `refresh`, both tokens set beforehand). -/
theorem returns_true_iff (fresh : String) (t : Token) (user pass : String) (inv : Bool) (r : Reply) :
    ((authenticate fresh t user pass inv r).2.1 = .ret true ↔
      r.status = 200 ∧ ∃ a c i n, r.body = .result (some a) (some c) (some ⟨some i, some n⟩)) ∧
    ((refresh t r).2.1 = .ret true ↔
      t.accessToken ≠ none ∧ t.clientToken ≠ none ∧
      r.status = 200 ∧ ∃ a c i n, r.body = .result (some a) (some c) (some ⟨some i, some n⟩)) := by
  obtain ⟨st, body⟩ := r
  obtain ⟨u, a0, c0, i0, n0⟩ := t
  have key := fun t' : Token => storeReply_true_iff t' body
  constructor
  · by_cases hst : st = 200
    · subst hst
      by_cases hp : body.parses = true
      · simp [authenticate, raiseFromResponse, hp, key]
      · cases body <;> simp_all [authenticate, raiseFromResponse, Body.parses]
    · cases body <;> simp [authenticate, raiseFromResponse, hst]
  · cases a0 with
    | none => simp [refresh]
    | some a0 =>
      cases c0 with
      | none => simp [refresh]
      | some c0 =>
        by_cases hst : st = 200
        · subst hst
          by_cases hp : body.parses = true
          · simp [refresh, raiseFromResponse, hp, key]
          · cases body <;> simp_all [refresh, raiseFromResponse, Body.parses]
        · cases body <;> simp [refresh, raiseFromResponse, hst]

/-- The request each operation posts, for every reply (the request never depends on the reply):

* `authenticate` → `AUTH_SERVER/authenticate` with `agent = {name: "Minecraft", version: 1}`,
  `username`, `password` (the arguments) and — only when `invalidate_previous` is false —
  `clientToken` = the stored client token if it is truthy, otherwise the fresh uuid (also when the
  stored one is `""`).  No `requestUser`.
* `refresh` → `AUTH_SERVER/refresh` with the stored `accessToken`, `clientToken`.
* `validate` → `AUTH_SERVER/validate` with the stored `accessToken` ONLY (no client token).
* `invalidate` → `AUTH_SERVER/invalidate` with `accessToken`, `clientToken`, `null` when unset.
* `sign_out` → `AUTH_SERVER/signout` with `username`, `password`.
* `join` → `SESSION_SERVER/join` with `accessToken`, `selectedProfile = {id, name}` (the whole
  profile object, not just the id), `serverId`. -/
theorem payload_shape (fresh : String) (t : Token) (user pass sid : String) (r : Reply) :
    (authenticate fresh t user pass true r).2.2 = some ⟨.auth, "authenticate",
      [("agent", .obj [("name", .str "Minecraft"), ("version", .num 1)]),
       ("username", .atom (.str user)), ("password", .atom (.str pass))]⟩ ∧
    (authenticate fresh t user pass false r).2.2 = some ⟨.auth, "authenticate",
      [("agent", .obj [("name", .str "Minecraft"), ("version", .num 1)]),
       ("username", .atom (.str user)), ("password", .atom (.str pass)),
       ("clientToken", .atom (.str (if truthy t.clientToken = true then t.clientToken.getD "" else fresh)))]⟩ ∧
    (∀ a c, t.accessToken = some a → t.clientToken = some c →
      (refresh t r).2.2 = some ⟨.auth, "refresh",
        [("accessToken", .atom (.str a)), ("clientToken", .atom (.str c))]⟩) ∧
    (∀ a, t.accessToken = some a →
      (validate t r).2.2 = some ⟨.auth, "validate", [("accessToken", .atom (.str a))]⟩) ∧
    (invalidate t r).2.2 = some ⟨.auth, "invalidate",
      [("accessToken", .atom (.ofOpt t.accessToken)), ("clientToken", .atom (.ofOpt t.clientToken))]⟩ ∧
    (signOut user pass r).2 = ⟨.auth, "signout",
      [("username", .atom (.str user)), ("password", .atom (.str pass))]⟩ ∧
    (∀ a i n, authenticated t = true → t.accessToken = some a → t.profileId = some i →
      t.profileName = some n →
      (join t sid r).2.2 = some ⟨.session, "join",
        [("accessToken", .atom (.str a)),
         ("selectedProfile", .obj [("id", .str i), ("name", .str n)]),
         ("serverId", .atom (.str sid))]⟩) ∧
    (⟨.auth, "authenticate", []⟩ : Request).url = "https://authserver.mojang.com/authenticate" ∧
    (⟨.session, "join", []⟩ : Request).url =
      "https://sessionserver.mojang.com/session/minecraft/join" := by
  refine ⟨?_, ?_, ?_, ?_, invalidate_req t r, signOut_req user pass r, ?_, by decide, by decide⟩
  · simp [authenticate_req]
  · simp [authenticate_req, orElse_eq]
  · intro a c ha hc; exact refresh_req t a c r ha hc
  · intro a ha; exact validate_req t a r ha
  · intro a i n hau ha hi hn
    simp [join_req t sid r hau, ha, hi, hn, PayAtom.ofOpt]

/-- The `ValueError` preconditions are `is None` tests made before anything is sent: `refresh`
refuses exactly when the access token or the client token is `None`, `validate` exactly when the
access token is `None` (empty strings pass); a refusal is `ValueError`, no request, token unchanged.
`authenticate`, `invalidate` and `sign_out` have no precondition and always post. -/
theorem missing_credentials_refuse (fresh : String) (t : Token) (user pass : String) (inv : Bool)
    (r : Reply) :
    (t.accessToken = none ∨ t.clientToken = none → refresh t r = (t, .valueError, none)) ∧
    ((refresh t r).2.2 = none ↔ t.accessToken = none ∨ t.clientToken = none) ∧
    (t.accessToken = none → validate t r = (t, .valueError, none)) ∧
    ((validate t r).2.2 = none ↔ t.accessToken = none) ∧
    (authenticate fresh t user pass inv r).2.2 ≠ none ∧
    (invalidate t r).2.2 ≠ none := by
  refine ⟨?_, ?_, ?_, ?_, by simp [authenticate_req], by simp [invalidate_req]⟩
  · intro h
    cases ha : t.accessToken with
    | none => simp [refresh, ha]
    | some a =>
      cases hc : t.clientToken with
      | none => simp [refresh, ha, hc]
      | some c => simp [ha, hc] at h
  · cases ha : t.accessToken with
    | none => simp [refresh, ha]
    | some a =>
      cases hc : t.clientToken with
      | none => simp [refresh, ha, hc]
      | some c => simp [refresh_req t a c r ha hc]
  · intro ha; simp [validate, ha]
  · cases ha : t.accessToken with
    | none => simp [validate, ha]
    | some a => simp [validate_req t a r ha]

/-- POSSIBLE DEFECT, stated exactly.  `authenticate` on a `200` reply whose JSON object lacks one
of the four keys raises `KeyError` AFTER having already assigned everything that precedes the first
missing key in source order: the username is always overwritten; the access token is overwritten if
present in the reply; the client token if access and client token are both present; the profile id
if additionally `selectedProfile.id` is present; the profile name never.  Every field not so
overwritten keeps its OLD value — the token ends up a mixture of two logins. -/
theorem partial_success_body_authenticate (fresh : String) (t : Token) (user pass : String)
    (inv : Bool) (a c : Option String) (sp : Option ProfileObj)
    (hinc : ¬ ∃ a' c' i n, a = some a' ∧ c = some c' ∧ sp = some ⟨some i, some n⟩) :
    let res := authenticate fresh t user pass inv ⟨200, .result a c sp⟩
    res.2.1 = .keyError ∧
    res.1.username = some user ∧
    res.1.accessToken = (if a.isSome then a else t.accessToken) ∧
    res.1.clientToken = (if a.isSome ∧ c.isSome then c else t.clientToken) ∧
    res.1.profileId =
      (if a.isSome ∧ c.isSome ∧ (sp.bind (·.id)).isSome then sp.bind (·.id) else t.profileId) ∧
    res.1.profileName = t.profileName := by
  cases a <;> cases c <;> try simp [authenticate, raiseFromResponse, Body.parses, storeReply]
  cases sp with
  | none => simp
  | some p =>
    obtain ⟨i, n⟩ := p
    cases i <;> cases n <;> simp_all

/-- The same for `refresh` (the username is not touched by `refresh`). -/
theorem partial_success_body_refresh (t : Token) (a c : Option String) (sp : Option ProfileObj)
    (ha : t.accessToken ≠ none) (hc : t.clientToken ≠ none)
    (hinc : ¬ ∃ a' c' i n, a = some a' ∧ c = some c' ∧ sp = some ⟨some i, some n⟩) :
    let res := refresh t ⟨200, .result a c sp⟩
    res.2.1 = .keyError ∧
    res.1.username = t.username ∧
    res.1.accessToken = (if a.isSome then a else t.accessToken) ∧
    res.1.clientToken = (if a.isSome ∧ c.isSome then c else t.clientToken) ∧
    res.1.profileId =
      (if a.isSome ∧ c.isSome ∧ (sp.bind (·.id)).isSome then sp.bind (·.id) else t.profileId) ∧
    res.1.profileName = t.profileName := by
  obtain ⟨u, a0, c0, i0, n0⟩ := t
  cases a0 with
  | none => simp at ha
  | some a0 =>
    cases c0 with
    | none => simp at hc
    | some c0 =>
      cases a <;> cases c <;> try simp [refresh, raiseFromResponse, Body.parses, storeReply]
      cases sp with
      | none => simp
      | some p =>
        obtain ⟨i, n⟩ := p
        cases i <;> cases n <;> simp_all

/-- A `200` reply whose body is not a result object.  Not JSON / empty: `res.json()` raises
`ValueError` before anything is assigned — token unchanged.  JSON but not an object: `TypeError`;
an error object or any object without `accessToken`: `KeyError`; in these cases `authenticate` has
ALREADY overwritten the username (only the username), `refresh` has changed nothing. -/
theorem success_status_bad_body (fresh : String) (t : Token) (user pass : String) (inv : Bool)
    (b : Body) (hb : ∀ a c sp, b ≠ .result a c sp) :
    let au := authenticate fresh t user pass inv ⟨200, b⟩
    let expected : Outcome :=
      if b = .nonJson ∨ b = .empty then .valueError
      else if b = .jsonNonObject then .typeError else .keyError
    au.2.1 = expected ∧
    au.1 = (if b = .nonJson ∨ b = .empty then t else { t with username := some user }) ∧
    (t.accessToken ≠ none → t.clientToken ≠ none →
      (refresh t ⟨200, b⟩).2.1 = expected ∧ (refresh t ⟨200, b⟩).1 = t) := by
  obtain ⟨u, a0, c0, i0, n0⟩ := t
  cases b with
  | result a c sp => exact absurd rfl (hb a c sp)
  | _ =>
    cases a0 <;> cases c0 <;>
      simp [authenticate, refresh, raiseFromResponse, Body.parses, storeReply]

/-- "Errors leave it untouched", globally: the stored credentials can differ after a call only if
the call was `authenticate` or `refresh`, the reply had status `200` and its body was JSON. -/
theorem token_changes_only_on_200_json (op : Op) (t : Token) (r : Reply)
    (h : (run op t r).1 ≠ t) :
    ((∃ fresh user pass inv, op = .authenticate fresh user pass inv) ∨ op = .refresh) ∧
    r.status = 200 ∧ r.body.parses = true := by
  obtain ⟨st, body⟩ := r
  cases op with
  | authenticate fresh user pass inv =>
    refine ⟨.inl ⟨_, _, _, _, rfl⟩, ?_⟩
    by_cases hst : st = 200
    · by_cases hp : body.parses = true
      · exact ⟨hst, hp⟩
      · exact absurd (by simp [run, authenticate, raiseFromResponse, hst, hp]) h
    · exact absurd (by cases body <;> simp [run, authenticate, raiseFromResponse, hst]) h
  | refresh =>
    refine ⟨.inr rfl, ?_⟩
    cases ha : t.accessToken with
    | none => exact absurd (by simp [run, refresh, ha]) h
    | some a =>
      cases hc : t.clientToken with
      | none => exact absurd (by simp [run, refresh, ha, hc]) h
      | some c =>
        by_cases hst : st = 200
        · by_cases hp : body.parses = true
          · exact ⟨hst, hp⟩
          · exact absurd (by simp [run, refresh, ha, hc, raiseFromResponse, hst, hp]) h
        · exact absurd (by cases body <;> simp [run, refresh, ha, hc, raiseFromResponse, hst]) h
  | validate => exact absurd (validate_true_iff_204 t _).1 h
  | invalidate => exact absurd (invalidate_tok t _) h
  | signOut user pass => exact absurd rfl h
  | join sid => exact absurd (join_tok t sid _) h

/-- No operation ever returns `False`: the only values returned are `True` and (for `validate`)
`None`. -/
theorem never_returns_false (op : Op) (t : Token) (r : Reply) : (run op t r).2.1 ≠ .ret false := by
  cases op with
  | authenticate fresh user pass inv =>
    cases h1 : raiseFromResponse r with
    | some e => simpa [run, authenticate, h1] using raise_ne_retFalse r e h1
    | none =>
      cases h2 : r.body.parses with
      | false => simp [run, authenticate, h1, h2]
      | true => simpa [run, authenticate, h1, h2] using storeReply_ne_false _ r.body
  | refresh =>
    cases ha : t.accessToken with
    | none => simp [run, refresh, ha]
    | some a =>
      cases hc : t.clientToken with
      | none => simp [run, refresh, ha, hc]
      | some c =>
        cases h1 : raiseFromResponse r with
        | some e => simpa [run, refresh, ha, hc, h1] using raise_ne_retFalse r e h1
        | none =>
          cases h2 : r.body.parses with
          | false => simp [run, refresh, ha, hc, h1, h2]
          | true => simpa [run, refresh, ha, hc, h1, h2] using storeReply_ne_false _ r.body
  | validate =>
    cases ha : t.accessToken with
    | none => simp [run, validate, ha]
    | some a => by_cases h : r.status = 204 <;> simp [run, validate, ha, h]
  | invalidate =>
    by_cases h : r.status = 204
    · simp [run, invalidate, h]
    · cases h1 : raiseFromResponse r with
      | some e => simpa [run, invalidate, h, h1] using raise_ne_retFalse r e h1
      | none => simp [run, invalidate, h, h1]
  | signOut user pass =>
    cases h1 : raiseFromResponse r with
    | some e => simpa [run, signOut, h1] using raise_ne_retFalse r e h1
    | none => simp [run, signOut, h1]
  | join sid =>
    cases hau : authenticated t with
    | false => simp [run, join, hau]
    | true =>
      by_cases h : r.status = 204
      · simp [run, join, hau, h]
      · cases h1 : raiseFromResponse r with
        | some e => simpa [run, join, hau, h, h1] using raise_ne_retFalse r e h1
        | none => simp [run, join, hau, h, h1]

/-! ## Non-vacuity: concrete instances -/

/-- a fully populated token, and one with an empty-string client token -/
def tokA : Token := ⟨some "alice", some "acc-A", some "cli-A", some "id-A", some "Alice"⟩

example : authenticated tokA = true := by decide
example : authenticated { tokA with clientToken := some "" } = false := by decide
example : authenticated { tokA with profileName := some "" } = true := by decide
example : authenticated ⟨none, none, none, none, none⟩ = false := by decide

-- error_reply_raises_and_preserves: hypotheses satisfiable for each of the five operations
example : run (.authenticate "f" "bob" "pw" false) tokA ⟨403, .errorObj "ForbiddenOperationException" "Invalid credentials." none⟩
    = (tokA, .yggdrasil 403 (some "ForbiddenOperationException") (some "Invalid credentials.") none false,
       some ⟨.auth, "authenticate",
         [("agent", .obj [("name", .str "Minecraft"), ("version", .num 1)]),
          ("username", .atom (.str "bob")), ("password", .atom (.str "pw")),
          ("clientToken", .atom (.str "cli-A"))]⟩) := by decide
example : (run .refresh tokA ⟨500, .nonJson⟩).2.1 = .yggdrasil 500 none none none true := by decide
example : (run .invalidate tokA ⟨404, .jsonNonObject⟩).2.1 = .yggdrasil 404 none none none true := by decide
example : (run (.join "srv") tokA ⟨403, .errorObj "E" "M" (some "C")⟩).2.1
    = .yggdrasil 403 (some "E") (some "M") (some "C") false := by decide
/-- `sign_out` accepts only 200: the documented success reply of the real service, 204 with an empty
body, makes it raise. -/
example : (signOut "bob" "pw" ⟨204, .empty⟩).1 = .yggdrasil 204 none none none true := by decide
example : (invalidate tokA ⟨204, .empty⟩).2.1 = .ret true := by decide

-- validate
example : validate tokA ⟨204, .empty⟩
    = (tokA, .ret true, some ⟨.auth, "validate", [("accessToken", .atom (.str "acc-A"))]⟩) := by decide
example : (validate tokA ⟨403, .errorObj "ForbiddenOperationException" "Invalid token" none⟩).2.1 = .retNone := by
  decide
example : validate { tokA with accessToken := none } ⟨204, .empty⟩
    = ({ tokA with accessToken := none }, .valueError, none) := by decide

-- join
example : join { tokA with username := some "" } "srv" ⟨204, .empty⟩
    = ({ tokA with username := some "" }, .notAuthenticated, none) := by decide
example : (join tokA "srv" ⟨204, .empty⟩).2 = (.ret true, some ⟨.session, "join",
    [("accessToken", .atom (.str "acc-A")),
     ("selectedProfile", .obj [("id", .str "id-A"), ("name", .str "Alice")]),
     ("serverId", .atom (.str "srv"))]⟩) := by decide

-- success
example : (authenticate "f" ⟨none, none, none, none, none⟩ "bob" "pw" false
      ⟨200, .result (some "acc-B") (some "cli-B") (some ⟨some "id-B", some "Bob"⟩)⟩)
    = (⟨some "bob", some "acc-B", some "cli-B", some "id-B", some "Bob"⟩, .ret true,
       some ⟨.auth, "authenticate",
         [("agent", .obj [("name", .str "Minecraft"), ("version", .num 1)]),
          ("username", .atom (.str "bob")), ("password", .atom (.str "pw")),
          ("clientToken", .atom (.str "f"))]⟩) := by decide
example : (refresh tokA ⟨200, .result (some "acc-2") (some "cli-2") (some ⟨some "id-2", some "Al"⟩)⟩).1
    = ⟨some "alice", some "acc-2", some "cli-2", some "id-2", some "Al"⟩ := by decide

/-- The partial-body defect on a realistic reply: an account without a game profile gets a `200`
with tokens but no `selectedProfile`.  Logging such an account ("bob") in on a token previously
authenticated as "alice" raises `KeyError` and leaves bob's username and tokens next to ALICE's
profile — and the token claims to be authenticated. -/
example :
    let res := authenticate "f" tokA "bob" "pw" false ⟨200, .result (some "acc-B") (some "cli-B") none⟩
    res.1 = ⟨some "bob", some "acc-B", some "cli-B", some "id-A", some "Alice"⟩ ∧
    res.2.1 = .keyError ∧ authenticated res.1 = true := by decide
example : ¬ ∃ a' c' i n, (some "acc-B" : Option String) = some a' ∧ (some "cli-B" : Option String) = some c' ∧
    (none : Option ProfileObj) = some ⟨some i, some n⟩ := by simp

-- success_status_bad_body
example : (authenticate "f" tokA "bob" "pw" false ⟨200, .jsonNonObject⟩).1 = { tokA with username := some "bob" } ∧
    (authenticate "f" tokA "bob" "pw" false ⟨200, .jsonNonObject⟩).2.1 = .typeError := by decide

-- token_changes_only_on_200_json: the hypothesis is satisfiable
example : (run .refresh tokA ⟨200, .result (some "x") none none⟩).1 ≠ tokA := by decide

end PyCraft.C19
