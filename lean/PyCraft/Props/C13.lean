import PyCraft.Lemmas.Dispatch
/-!
# C13 — Listeners fire in documented order, once each; ignore stops later stages

Model: `PyCraft/Model/Dispatch.lean` (`callPacket`, `reactIncoming`, `writeOutgoing`, `register`).
Specification vocabulary (`Listener.matches`, `cutAfterFirst`, `stage`, `specIncoming`,
`specOutgoing`, `slotOf`) and helper lemmas: `PyCraft/Lemmas/Dispatch.lean`.

Every statement is for ALL class hierarchies (edge lists, cyclic or not — `isSub` is proved to be
exactly reachability, `isSub_iff_reach`), ALL listener lists and ALL packet histories.
Only property theorems and non-vacuity examples live here.
-/
namespace PyCraft.C13
open PyCraft

/-- `call_packet` invokes the callback iff one of the registered types is the packet's class or a
superclass of it, and then exactly once (the result is one `(called, raisedIgnore)` pair, however
many registered types match); `IgnorePacket` propagates iff the callback was invoked and raises it.
"Superclass" is reflexive-transitive reachability along the `(child, parent)` edges. -/
theorem call_packet_matches (hier : Hier) (l : Listener) (c : Nat) :
    callPacket hier l c = (if l.matches hier c then (true, l.ignores) else (false, false)) ∧
    (l.matches hier c = true ↔ ∃ t ∈ l.types, Reach hier c t) := by
  refine ⟨callPacket_eq hier l c, ?_⟩
  simp [Listener.matches, isSub_iff_reach]

/-- Documented order: the call log of one incoming packet is
(matching early listeners in registration order) ++ [reaction] ++ (matching ordinary listeners in
registration order), cut just after the first call that raises `IgnorePacket`; the packet counts as
ignored iff some call of that uncut sequence ignores.  The right-hand side is built from `filter`,
`takeWhile` and `find?` only. -/
theorem incoming_order (hier : Hier) (early ordinary : List Listener) (rIgn : Bool) (c : Nat) :
    reactIncoming hier early ordinary rIgn c = specIncoming hier early ordinary rIgn c := by
  simp only [reactIncoming, specIncoming, stagesIn, runListeners_eq]
  by_cases hA : (stage hier Ev.early c early).any (fun x => x.2) = true
  · simp [cutAfterFirst_append, hA]
  · simp only [Bool.not_eq_true] at hA
    cases rIgn
    · simp [cutAfterFirst_append, hA, cutAfterFirst_cons,
        cutAfterFirst_of_not_any _ _ hA]
    · simp [cutAfterFirst_append, hA, cutAfterFirst_cons,
        cutAfterFirst_of_not_any _ _ hA]

/-- Exactly once: with distinct listener ids within each list, no entry of the log of one packet
repeats (every entry occurs at most once), and
* the early listener at a given position is called exactly once iff it matches and no matching
  early listener before it ignored;
* the built-in reaction runs exactly once iff no matching early listener ignored;
* the ordinary listener at a given position is called exactly once iff it matches, no matching
  early listener ignored, the reaction did not ignore and no matching ordinary listener before it
  ignored. -/
theorem exactly_once (hier : Hier) (early ordinary : List Listener) (rIgn : Bool) (c : Nat)
    (hE : (early.map (·.id)).Nodup) (hO : (ordinary.map (·.id)).Nodup) :
    (∀ ev, (reactIncoming hier early ordinary rIgn c).1.count ev ≤ 1) ∧
    (∀ pre l post, early = pre ++ l :: post →
      ((reactIncoming hier early ordinary rIgn c).1.count (Ev.early l.id) = 1 ↔
        l.matches hier c = true ∧
          ∀ l' ∈ pre, l'.matches hier c = true → l'.ignores = false)) ∧
    ((reactIncoming hier early ordinary rIgn c).1.count Ev.reaction = 1 ↔
        ∀ l' ∈ early, l'.matches hier c = true → l'.ignores = false) ∧
    (∀ pre l post, ordinary = pre ++ l :: post →
      ((reactIncoming hier early ordinary rIgn c).1.count (Ev.ordinary l.id) = 1 ↔
        l.matches hier c = true ∧
          (∀ l' ∈ early, l'.matches hier c = true → l'.ignores = false) ∧ rIgn = false ∧
          ∀ l' ∈ pre, l'.matches hier c = true → l'.ignores = false)) := by
  have hn := reactIncoming_nodup hier early ordinary rIgn c hE hO
  refine ⟨List.nodup_iff_count.mp hn, ?_, ?_, ?_⟩
  · intro pre l post he
    subst he
    rw [count_eq_one_iff_mem hn, mem_reactIncoming_early]
    exact mem_runListeners hier Ev.early (by intro a b h; cases h; rfl) c l post pre hE
  · rw [count_eq_one_iff_mem hn, mem_reactIncoming_reaction, runListeners_not_ignored]
  · intro pre l post ho
    subst ho
    rw [count_eq_one_iff_mem hn, mem_reactIncoming_ordinary, runListeners_not_ignored,
      mem_runListeners hier Ev.ordinary (by intro a b h; cases h; rfl) c l post pre hO]
    constructor
    · rintro ⟨h1, h2, h3, h4⟩; exact ⟨h3, h1, h2, h4⟩
    · rintro ⟨h3, h1, h2, h4⟩; exact ⟨h1, h2, h3, h4⟩

/-- Ignore is local to one packet: in ANY history, the result recorded for the packet at position
`k` is the result of reacting to that packet alone — it depends neither on the packets before or
after it nor on whether any of them was ignored (by a listener or by the built-in reaction: `rI`
and `rI'` may differ arbitrarily on the other packets).  In particular two histories that have the
same packet somewhere produce the same log for it.  One result per packet, in order. -/
theorem ignore_is_local (hier : Hier) (early ordinary : List Listener) (rI rI' : Nat → Bool)
    (pre post pre' post' : List Nat) (c : Nat) (hc : rI c = rI' c) :
    (runHistory hier early ordinary rI (pre ++ c :: post))[pre.length]? =
        some (reactIncoming hier early ordinary (rI c) c) ∧
    (runHistory hier early ordinary rI (pre ++ c :: post))[pre.length]? =
        (runHistory hier early ordinary rI' (pre' ++ c :: post'))[pre'.length]? ∧
    (runHistory hier early ordinary rI (pre ++ c :: post)).length = (pre ++ c :: post).length := by
  simp [runHistory_eq_map, hc]

/-- An early listener that ignores suppresses everything after it: if some matching early listener
raises `IgnorePacket`, the built-in reaction does not run, no ordinary listener runs, no early
listener registered after the first such ignoring one runs, and the packet is reported ignored. -/
theorem early_ignore_suppresses_reaction (hier : Hier) (early ordinary : List Listener)
    (rIgn : Bool) (c : Nat)
    (h : ∃ l ∈ early, l.matches hier c = true ∧ l.ignores = true) :
    Ev.reaction ∉ (reactIncoming hier early ordinary rIgn c).1 ∧
    (∀ i, Ev.ordinary i ∉ (reactIncoming hier early ordinary rIgn c).1) ∧
    (reactIncoming hier early ordinary rIgn c).2 = true ∧
    (reactIncoming hier early ordinary rIgn c).1 =
      (cutAfterFirst (fun x => x.2) (stage hier Ev.early c early)).map (fun x => x.1) := by
  have hi := (runListeners_ignored hier Ev.early c early).mpr h
  refine ⟨?_, ?_, ?_, ?_⟩
  · rw [mem_reactIncoming_reaction, hi]; simp
  · intro i; rw [mem_reactIncoming_ordinary, hi]; simp
  · rw [reactIncoming_ignored, hi]; simp
  · rw [reactIncoming_log, hi, runListeners_eq]; simp

/-- Conversely the reaction is the ONLY thing an ignoring reaction lets through after the early
stage: if no matching early listener ignores but the reaction does, the log is exactly the matching
early listeners followed by the reaction, and no ordinary listener runs. -/
theorem reaction_ignore_suppresses_ordinary (hier : Hier) (early ordinary : List Listener)
    (c : Nat) (h : ∀ l ∈ early, l.matches hier c = true → l.ignores = false) :
    reactIncoming hier early ordinary true c =
      ((early.filter (fun l => l.matches hier c)).map (fun l => Ev.early l.id) ++ [Ev.reaction],
        true) := by
  have hi := (runListeners_not_ignored hier Ev.early c early).mpr h
  have hlog := reactIncoming_log hier early ordinary true c
  have hign := reactIncoming_ignored hier early ordinary true c
  rw [hi] at hlog hign
  have hA : (stage hier Ev.early c early).any (fun x => x.2) = false := by
    rw [runListeners_eq] at hi; exact hi
  rw [runListeners_eq, cutAfterFirst_of_not_any _ _ hA] at hlog
  apply Prod.ext
  · rw [hlog]; simp [stage]
  · rw [hign]; simp

/-- Outgoing packets: the log is (matching early-outgoing listeners) ++ [written] ++ (matching
ordinary-outgoing listeners), cut just after the first ignoring call (`specOutgoing`).  Hence:
* the packet is written iff no matching early-outgoing listener ignores, and at most once;
* when it is written, everything before the write is exactly the matching early-outgoing listeners
  in registration order and everything after it is ordinary-outgoing listeners only (the matching
  ones in registration order up to and including the first that ignores);
* when it is suppressed, only early-outgoing listeners ran. -/
theorem outgoing_order (hier : Hier) (earlyOut ordOut : List Listener) (c : Nat) :
    writeOutgoing hier earlyOut ordOut c = specOutgoing hier earlyOut ordOut c ∧
    (OutEv.written ∈ writeOutgoing hier earlyOut ordOut c ↔
      ∀ l ∈ earlyOut, l.matches hier c = true → l.ignores = false) ∧
    (writeOutgoing hier earlyOut ordOut c).count OutEv.written ≤ 1 ∧
    ((∀ l ∈ earlyOut, l.matches hier c = true → l.ignores = false) →
      writeOutgoing hier earlyOut ordOut c =
        (earlyOut.filter (fun l => l.matches hier c)).map (fun l => OutEv.earlyOut l.id) ++
          OutEv.written ::
          (cutAfterFirst (fun x => x.2) (stage hier OutEv.ordOut c ordOut)).map (fun x => x.1)) ∧
    ((∃ l ∈ earlyOut, l.matches hier c = true ∧ l.ignores = true) →
      ∀ e ∈ writeOutgoing hier earlyOut ordOut c, ∃ i, e = OutEv.earlyOut i) ∧
    (∀ i, OutEv.ordOut i ∈ writeOutgoing hier earlyOut ordOut c →
      OutEv.written ∈ writeOutgoing hier earlyOut ordOut c) := by
  have h1 := not_mem_runListeners_of_tag hier OutEv.earlyOut c earlyOut OutEv.written (by simp)
  have h2 := not_mem_runListeners_of_tag hier OutEv.ordOut c ordOut OutEv.written (by simp)
  have hc1 : (runListeners hier OutEv.earlyOut c earlyOut).1.count OutEv.written = 0 :=
    List.count_eq_zero.mpr h1
  have hc2 : (runListeners hier OutEv.ordOut c ordOut).1.count OutEv.written = 0 :=
    List.count_eq_zero.mpr h2
  refine ⟨?_, ?_, ?_, ?_, ?_, ?_⟩
  · simp only [writeOutgoing, specOutgoing, stagesOut, runListeners_eq]
    by_cases hA : (stage hier OutEv.earlyOut c earlyOut).any (fun x => x.2) = true
    · simp [cutAfterFirst_append, hA]
    · simp only [Bool.not_eq_true] at hA
      simp [cutAfterFirst_append, hA, cutAfterFirst_cons, cutAfterFirst_of_not_any _ _ hA]
  · rw [← runListeners_not_ignored hier OutEv.earlyOut c earlyOut, writeOutgoing_log]
    cases hb : (runListeners hier OutEv.earlyOut c earlyOut).2 <;> simp [h1]
  · rw [writeOutgoing_log]
    cases hb : (runListeners hier OutEv.earlyOut c earlyOut).2 <;>
      simp [List.count_append, hc1, hc2]
  · intro h
    have hi := (runListeners_not_ignored hier OutEv.earlyOut c earlyOut).mpr h
    have hA : (stage hier OutEv.earlyOut c earlyOut).any (fun x => x.2) = false := by
      rw [runListeners_eq] at hi; exact hi
    rw [writeOutgoing_log, hi]
    simp only [Bool.false_eq_true, ↓reduceIte]
    rw [runListeners_eq, runListeners_eq, cutAfterFirst_of_not_any _ _ hA]
    simp [stage]
  · intro h e he
    have hi := (runListeners_ignored hier OutEv.earlyOut c earlyOut).mpr h
    rw [writeOutgoing_log, hi] at he
    simp only [↓reduceIte, List.append_nil] at he
    obtain ⟨l, _, _, h3⟩ := runListeners_log_mem hier OutEv.earlyOut c earlyOut e he
    exact ⟨l.id, h3⟩
  · intro i hi
    have h3 := not_mem_runListeners_of_tag hier OutEv.earlyOut c earlyOut (OutEv.ordOut i)
      (by simp)
    rw [writeOutgoing_log] at hi ⊢
    cases hb : (runListeners hier OutEv.earlyOut c earlyOut).2
    · simp
    · rw [hb] at hi; simp [h3] at hi

/-- Registration: `(early, outgoing) ↦ list` is the documented table `slotOf`, which is a
bijection between the four flag combinations and the four lists; a registration appends its
listener at the END of exactly that list and leaves the other three untouched; consequently after
any sequence of registrations each list holds, in registration order, exactly the listeners
registered for it. -/
theorem register_target :
    (∀ e o e' o', slotOf e o = slotOf e' o' → e = e' ∧ o = o') ∧
    (∀ s, ∃ e o, slotOf e o = s) ∧
    (∀ (cfg : Cfg) (l : Listener) (e o : Bool) (s : Slot),
      (register cfg l e o).get s = if s = slotOf e o then cfg.get s ++ [l] else cfg.get s) ∧
    (∀ (cfg : Cfg) (rs : List Reg) (s : Slot),
      (registerAll cfg rs).get s =
        cfg.get s ++ (rs.filter (fun r => slotOf r.early r.outgoing == s)).map (·.l)) ∧
    (∀ (cfg : Cfg) (l : Listener) (e o e' o' : Bool),
      register cfg l e o = register cfg l e' o' → e = e' ∧ o = o') := by
  have hinj : ∀ e o e' o', slotOf e o = slotOf e' o' → e = e' ∧ o = o' := by decide
  refine ⟨hinj, ?_, register_get, fun cfg rs s => registerAll_get rs cfg s, ?_⟩
  · intro s
    cases s
    · exact ⟨false, false, rfl⟩
    · exact ⟨true, false, rfl⟩
    · exact ⟨false, true, rfl⟩
    · exact ⟨true, true, rfl⟩
  · intro cfg l e o e' o' h
    have h1 := congrArg (fun c => (c.get (slotOf e o)).length) h
    simp only [register_get] at h1
    apply hinj
    by_cases hs : slotOf e o = slotOf e' o'
    · exact hs
    · simp [hs] at h1

/-! ## Non-vacuity -/

/-- Hierarchy used below: 1 = `Packet`, 2 = `KeepAlive(Packet)`, 3 = `Special(KeepAlive)`,
4 = unrelated, plus a diamond 5 → {2, 4}. -/
private def h₀ : Hier := [(2, 1), (3, 2), (5, 2), (5, 4)]

example : isSub h₀ 3 1 = true ∧ isSub h₀ 1 3 = false ∧ isSub h₀ 5 4 = true ∧ isSub h₀ 3 4 = false :=
  by decide
-- a cyclic edge list is handled too (every class of the cycle reaches every other one)
example : isSub [(1, 2), (2, 3), (3, 1)] 3 2 = true ∧ isSub [(1, 2), (2, 3), (3, 1)] 3 4 = false :=
  by decide

-- two registered types both match: still one call
example : callPacket h₀ ⟨7, [1, 2], false⟩ 3 = (true, false) := by decide
-- no registered type: never called
example : callPacket h₀ ⟨7, [], true⟩ 3 = (false, false) := by decide

-- full three-stage log, nothing ignores
example :
    reactIncoming h₀ [⟨10, [1], false⟩, ⟨11, [4], false⟩] [⟨20, [2], false⟩, ⟨21, [3], false⟩]
      false 3 = ([.early 10, .reaction, .ordinary 20, .ordinary 21], false) := by decide
-- an ordinary listener ignoring stops the remaining ordinary listeners only
example :
    reactIncoming h₀ [⟨10, [1], false⟩] [⟨20, [2], true⟩, ⟨21, [3], false⟩] false 3 =
      ([.early 10, .reaction, .ordinary 20], true) := by decide
-- an early listener ignoring suppresses the reaction (hypothesis of
-- `early_ignore_suppresses_reaction` is satisfiable)
example :
    reactIncoming h₀ [⟨10, [1], true⟩, ⟨11, [1], false⟩] [⟨20, [2], false⟩] false 3 =
      ([.early 10], true) := by decide
example : ∃ l ∈ [(⟨10, [1], true⟩ : Listener), ⟨11, [1], false⟩],
    l.matches h₀ 3 = true ∧ l.ignores = true := ⟨⟨10, [1], true⟩, by decide⟩
-- the nodup hypotheses of `exactly_once` are satisfiable with several listeners
example : (([⟨10, [1], true⟩, ⟨11, [1], false⟩] : List Listener).map (·.id)).Nodup := by decide
-- ignore is local: the ignored first packet does not affect the second one
example :
    runHistory h₀ [⟨10, [2], true⟩] [⟨20, [1], false⟩] (fun _ => false) [3, 4, 1] =
      [([.early 10], true), ([.reaction], false), ([.reaction, .ordinary 20], false)] := by decide
-- outgoing: suppressed write / normal write
example : writeOutgoing h₀ [⟨30, [1], true⟩] [⟨40, [1], false⟩] 2 = [.earlyOut 30] := by decide
example :
    writeOutgoing h₀ [⟨30, [1], false⟩] [⟨40, [1], true⟩, ⟨41, [1], false⟩] 2 =
      [.earlyOut 30, .written, .ordOut 40] := by decide
-- registration: four flag combinations, four different lists, order preserved
example :
    registerAll {} [⟨⟨1, [1], false⟩, false, false⟩, ⟨⟨2, [1], false⟩, true, false⟩,
        ⟨⟨3, [1], false⟩, false, true⟩, ⟨⟨4, [1], false⟩, true, true⟩,
        ⟨⟨5, [1], false⟩, false, false⟩] =
      { packetListeners := [⟨1, [1], false⟩, ⟨5, [1], false⟩],
        earlyPacketListeners := [⟨2, [1], false⟩],
        outgoingPacketListeners := [⟨3, [1], false⟩],
        earlyOutgoingPacketListeners := [⟨4, [1], false⟩] } := by decide

end PyCraft.C13
