import PyCraft.Lemmas.C17Utf8
import PyCraft.Generated.C17Utf8
/-!
# C17, audit gap 24 — statements over the tables generated from the live code

`Generated/C17Utf8.lean` is rewritten by `harness/gen/c17utf8.py` from /repo on every run; the
theorems here are re-checked by the kernel against what the code says NOW.  (Separate file only to
keep checking times low; the universally quantified theorems are in `Props/C17Utf8.lean`.)
-/
namespace PyCraft.C17Utf8
open PyCraft PyCraft.Utf8 PyCraft.Login

/-- Live: `encryption.sha1(b'a' * n).hexdigest()` for n = 55, 56, 64, 112 (around the
block boundaries) and 198 (a realistic login input: 20 + 16 + 162 bytes, four blocks) — every row reproduced by the Lean SHA-1. -/
theorem live_sha1_lengths :
    ∀ r ∈ Gen.C17Utf8.shaRows, hexOfBytes (sha1 (List.replicate r.1 0x61)) = r.2 := by
  decide +kernel

/-- Live: for every tabulated server id (boundary code points of all four length classes,
non-ASCII text, lone surrogates) the mirror of the encoder gives what `str.encode('utf-8')` gave —
the same bytes, or `ValueError` where Python raised — and where it succeeded the bytes are the
reference encoding and `String.toUTF8` of the corresponding Lean string. -/
theorem live_encode :
    ∀ r ∈ Gen.C17Utf8.encRows,
      pyUtf8Encode r.cps = expectOf r.utf8 ∧
      (r.utf8 = none ∨
        (r.utf8 = some (r.cps.flatMap utf8RefCp) ∧ r.utf8 = some (strOfCps r.cps).toUTF8.toList ∧
          codePoints (strOfCps r.cps) = r.cps)) := by
  decide +kernel

/-- Live: `generate_verification_hash(id, secret, key)` of /repo — the three published vectors,
non-ASCII ids with 16-byte secrets and real DER keys of 162 and 294 bytes, inputs of total length 55,
56, 63, 64, 65, 119, 120, ids with lone surrogates — equals the model on every row (the same string,
or `ValueError` where Python raised `UnicodeEncodeError`); and on the rows where Python returned a
value the id is a sequence of scalar values, i.e. the code points of the Lean string `strOfCps`
(`live_hash_string` in `Props/C17Utf8.lean` concludes the statement about `generateVerificationHash`). -/
theorem live_hash :
    ∀ r ∈ Gen.C17Utf8.hashRows,
      generateVerificationHashCps r.cps r.secret r.key = expectOf r.hash ∧
      (r.hash = none ∨ codePoints (strOfCps r.cps) = r.cps) := by
  decide +kernel

/-- The login parameters of a `joinRows` row: the stubbed `os.urandom(16)` as secret, token present
or not as in the row; RSA, JSON and plugin handling as in `demoParams` (irrelevant to `join`). -/
def rowParams (r : Gen.C17Utf8.JoinRow) : LoginParams :=
  { demoParams with secret := r.secret, hasToken := r.hasToken }

/-- Live: the strings the real `LoginReactor.react` handed to `auth_token.join` for one encryption
request (ids `"Nötch€😀"`, `""`, `"-"`, `"--"` with a token, `"世界"` without one) are exactly the `joins` of the login model run with the real hash function. -/
theorem live_join :
    ∀ r ∈ Gen.C17Utf8.joinRows,
      (exec (realHash (rowParams r)) .init
        [.flush, .recv (.encRequest (strOfCps r.cps) r.key r.token), .flush]).joins = r.joins := by
  decide +kernel

end PyCraft.C17Utf8
