import PyCraft.Lemmas.C09Clock
import PyCraft.Generated.C09Clock
import PyCraft.Generated.C09Names
import PyCraft.Generated.Versions
/-!
# C09 — the reported latency over a real-valued clock; names at construction

Property C09 (excerpts): "A plain status query … pings only if latency was requested and then
reports a NON-NEGATIVE latency, and closes." and "unknown or unsupported versions are refused at
construction" (versions "given as names or numbers").

Model: `Model/C09Clock.lean`; lemmas and the specification vocabulary (`MonotoneConv`,
`scaledElapsedNum`, `crosses`, `boundariesCrossed`) in `Lemmas/C09Clock.lean`; live facts in
`Generated/C09Clock.lean`, `Generated/C09Names.lean` (generator `harness/gen/c09clock.py`).

What the earlier C09 files left open and this one closes:

* `C09Status.latency_general` is over INTEGER clock values supplied by the harness, so the
  conversion `int(1000 * timeit.default_timer())` — performed at two different places of
  `StatusReactor.react` — was outside the model.  Here the clock reading is a non-negative
  rational and each site has its own conversion.  Part A: non-negativity holds whenever both
  sites apply the same monotone conversion (whatever floating point does, as long as it is
  monotone), the exact-rational value for `int(1000·t)` on both sites, and the refutation for the
  mixed pair `round` / `int`, with the exact condition under which it goes negative.
  Part B: `live_sites_agree` — the two sites of the code as it is now are the same expression,
  `int(1000 * timeit.default_timer())`.
  The exact-rational instance describes the running code exactly only where the binary64 product
  `1000 * t` is exact (e.g. dyadic readings with a small numerator, which is what
  `live_latency_rows` runs the real code on).  Elsewhere the product is rounded and may land on the
  next integer: for the double nearest to 18034.063 s (slightly below it) the real code stamps
  18034063 while `⌊1000·t⌋ = 18034062`.  Such a reading shifts both sites alike — that is exactly
  what `latency_nonneg_of_monotone_stages` is for — and in 200 000 random runs of the real code the
  latency was never negative, while it differed from the exact-rational value by one in the cases
  of this kind.
* `Neg.ctor` receives only the SUPPORTED name table.  Part C: the constructor with both tables and
  the choice of table explicit; names outside the supported table are refused whatever the known
  table says; with the lookup in the KNOWN table the live names of `Generated.sharedNames` would be
  accepted; the code as it is now looks names up in the supported table and refuses all of them.
-/
namespace PyCraft.C09Clock
open PyCraft PyCraft.Neg

/-! ## A. Latency over a real-valued clock -/

/-- **General theorem.**  If the ping stamp and the pong handler convert the clock reading with the
SAME monotone non-decreasing function `f` (for instance "binary64 multiply by 1000, then `int`"),
then for every two readings `t₀ ≤ t₁` of a monotonic clock the reported latency `f t₁ − f t₀` is
non-negative. -/
theorem latency_nonneg_of_same_monotone_conversion (f : Reading → Int) (hf : MonotoneConv f)
    (t₀ t₁ : Reading) (h₀ : t₀.Valid) (h₁ : t₁.Valid) (h : t₀ ≤ t₁) :
    0 ≤ latency f f t₀ t₁ := by
  have := hf t₀ t₁ h₀ h₁ h
  simp only [latency, pongLatency, pingStamp]
  omega

/-- The same, with the float arithmetic spelled out as two stages over an arbitrary ordered
carrier `F` (think: binary64): `scale` (= `1000 * ·` on the timer value) and `toInt` (= `int` or
`round`), each only assumed monotone.  Nothing else about floating point is used. -/
theorem latency_nonneg_of_monotone_stages {F : Type} (le : F → F → Prop)
    (scale : Reading → F) (toInt : F → Int)
    (hscale : ∀ a b : Reading, a.Valid → b.Valid → a ≤ b → le (scale a) (scale b))
    (hint : ∀ x y : F, le x y → toInt x ≤ toInt y)
    (t₀ t₁ : Reading) (h₀ : t₀.Valid) (h₁ : t₁.Valid) (h : t₀ ≤ t₁) :
    0 ≤ latency (fun t => toInt (scale t)) (fun t => toInt (scale t)) t₀ t₁ :=
  latency_nonneg_of_same_monotone_conversion _
    (fun a b ha hb hab => hint _ _ (hscale a b ha hb hab)) t₀ t₁ h₀ h₁ h

/-- `int(1000 · t)` on exact rationals is monotone. -/
theorem trunc_monotone : MonotoneConv truncConv := by
  intro a b ha hb h
  exact Int.ofNat_le.2 (floor_mono a b ha hb h)

/-- `round(1000 · t)` (ties to even) on exact rationals is monotone: using `round` at BOTH sites
would also keep the latency non-negative; the defect below is the mismatch. -/
theorem round_monotone : MonotoneConv roundConv := by
  intro a b ha hb h
  exact Int.ofNat_le.2 (round_mono a b ha hb h)

/-- The model `millisRoundHalfEven` really is "nearest integer, ties to even" (what Python 3
`round` does): the result is within one half of `1000·t`, and when `1000·t` is exactly halfway the
result is even. -/
theorem round_model_is_nearest_ties_even (t : Reading) (h : t.Valid) :
    (2 * (millisRoundHalfEven t * t.den) ≤ 2 * (1000 * t.num) + t.den ∧
     2 * (1000 * t.num) ≤ 2 * (millisRoundHalfEven t * t.den) + t.den) ∧
    ((2 * (millisRoundHalfEven t * t.den) = 2 * (1000 * t.num) + t.den ∨
      2 * (1000 * t.num) = 2 * (millisRoundHalfEven t * t.den) + t.den) →
        millisRoundHalfEven t % 2 = 0) :=
  ⟨round_nearest t h, round_tie_even t h⟩

/-- The model `millisFloor` really is `⌊1000·t⌋`: `k = millisFloor t` iff `k ≤ 1000·t < k + 1`. -/
theorem floor_model_is_floor (t : Reading) (h : t.Valid) (k : Nat) :
    millisFloor t = k ↔ k * t.den ≤ 1000 * t.num ∧ 1000 * t.num < (k + 1) * t.den :=
  floor_eq_iff t h k

/-- **Exact-rational instance** (`int(1000·t)` at both sites, as in the code): the latency is
non-negative. -/
theorem latency_trunc_nonneg (t₀ t₁ : Reading) (h₀ : t₀.Valid) (h₁ : t₁.Valid) (h : t₀ ≤ t₁) :
    0 ≤ latency truncConv truncConv t₀ t₁ :=
  latency_nonneg_of_same_monotone_conversion truncConv trunc_monotone t₀ t₁ h₀ h₁ h

/-- … and it is within one unit of the true elapsed time in milliseconds
`1000·(t₁ − t₀) = scaledElapsedNum t₀ t₁ / (t₀.den · t₁.den)`:
`L − 1 < 1000·(t₁ − t₀) < L + 1` (cross-multiplied by the positive common denominator). -/
theorem latency_trunc_within_one (t₀ t₁ : Reading) (h₀ : t₀.Valid) (h₁ : t₁.Valid) :
    (latency truncConv truncConv t₀ t₁ - 1) * ((t₀.den : Int) * t₁.den) < scaledElapsedNum t₀ t₁ ∧
    scaledElapsedNum t₀ t₁ < (latency truncConv truncConv t₀ t₁ + 1) * ((t₀.den : Int) * t₁.den) :=
  elapsed_bounds t₀ t₁ h₀ h₁

/-- Two readings in the same millisecond `[k, k+1)` ms give latency 0. -/
theorem latency_zero_same_millisecond (t₀ t₁ : Reading) (h₀ : t₀.Valid) (h₁ : t₁.Valid) (k : Nat)
    (hk₀ : k * t₀.den ≤ 1000 * t₀.num ∧ 1000 * t₀.num < (k + 1) * t₀.den)
    (hk₁ : k * t₁.den ≤ 1000 * t₁.num ∧ 1000 * t₁.num < (k + 1) * t₁.den) :
    latency truncConv truncConv t₀ t₁ = 0 := by
  have e₀ := (floor_eq_iff t₀ h₀ k).2 hk₀
  have e₁ := (floor_eq_iff t₁ h₁ k).2 hk₁
  simp only [latency, pongLatency, pingStamp, truncConv, e₀, e₁]
  omega

/-- Every millisecond boundary in `(t₀, t₁]` is at most `⌊1000·t₁⌋`, so `boundariesCrossed`
(which searches `0 … ⌊1000·t₁⌋`) misses none. -/
theorem crosses_lt (t₀ t₁ : Reading) (h₀ : t₀.Valid) (h₁ : t₁.Valid) (k : Nat)
    (h : crosses t₀ t₁ k = true) : k < millisFloor t₁ + 1 := by
  have := (crosses_iff t₀ t₁ h₀ h₁ k).1 h
  omega

/-- The latency is exactly the number of millisecond boundaries `k/1000` s with
`t₀ < k/1000 ≤ t₁`. -/
theorem latency_eq_boundaries_crossed (t₀ t₁ : Reading) (h₀ : t₀.Valid) (h₁ : t₁.Valid)
    (h : t₀ ≤ t₁) :
    latency truncConv truncConv t₀ t₁ = (boundariesCrossed t₀ t₁ : Int) := by
  have hq := floor_mono t₀ t₁ h₀ h₁ h
  have hc := countP_range_Ioc (crosses t₀ t₁) (millisFloor t₀) (millisFloor t₁) hq
    (fun k _ => crosses_iff t₀ t₁ h₀ h₁ k)
  simp only [latency, pongLatency, pingStamp, truncConv, boundariesCrossed, hc]
  omega

/-- Tie to the integer-clock reactor model `Neg.react`: fed with the converted readings, the
reactor stamps `⌊1000·t₀⌋`, and hands `handle_ping` exactly `latency truncConv truncConv t₀ t₁`
(and disconnects before doing so). -/
theorem reactLog_reports_latency (t₀ t₁ : Reading) (json : String) :
    reactLog t₀ t₁ json =
      [.sendPing (millisFloor t₀), .handleStatus json, .disconnect,
       .handlePing (latency truncConv truncConv t₀ t₁)] := by
  simp [reactLog, Neg.react, latency, pongLatency, pingStamp, truncConv]

/-! ### Refutation: `round` at the ping, `int` at the pong -/

/-- **Witness.**  Ping stamped at `t₀ = 0.75 ms` with `round(1000·t)`, pong handled at
`t₁ = 0.875 ms` with `int(1000·t)`: the clock went forward, the reported latency is `−1`. -/
theorem mixed_pair_negative_witness :
    (⟨3, 4000⟩ : Reading) ≤ ⟨7, 8000⟩ ∧ latency roundConv truncConv ⟨3, 4000⟩ ⟨7, 8000⟩ = -1 := by
  decide +kernel

/-- The mixed pair never reports less than `−1`. -/
theorem mixed_pair_ge_neg_one (t₀ t₁ : Reading) (h₀ : t₀.Valid) (h₁ : t₁.Valid) (h : t₀ ≤ t₁) :
    -1 ≤ latency roundConv truncConv t₀ t₁ := by
  have hq := floor_mono t₀ t₁ h₀ h₁ h
  have hr := round_le_floor_succ t₀
  simp only [latency, pongLatency, pingStamp, truncConv, roundConv]
  omega

/-- **Exact characterisation.**  For readings `t₀ ≤ t₁` the mixed pair reports a negative latency
exactly when `round` moves the ping reading up — the fractional part of `1000·t₀` is above ½, or
equal to ½ with `⌊1000·t₀⌋` odd — and the pong arrives within the same millisecond
(`⌊1000·t₁⌋ = ⌊1000·t₀⌋`); the value is then `−1`. -/
theorem mixed_pair_negative_iff (t₀ t₁ : Reading) (h₀ : t₀.Valid) (h₁ : t₁.Valid) (h : t₀ ≤ t₁) :
    (latency roundConv truncConv t₀ t₁ < 0 ↔
      (t₀.den < 2 * millisRem t₀ ∨ (2 * millisRem t₀ = t₀.den ∧ millisFloor t₀ % 2 = 1)) ∧
        millisFloor t₁ = millisFloor t₀) ∧
    (latency roundConv truncConv t₀ t₁ < 0 → latency roundConv truncConv t₀ t₁ = -1) := by
  have hq := floor_mono t₀ t₁ h₀ h₁ h
  rw [← roundsUp_iff]
  simp only [latency, pongLatency, pingStamp, truncConv, roundConv, round_eq]
  by_cases hu : roundsUp t₀ = true
  · simp only [hu, if_true, true_and]
    omega
  · simp only [hu, Bool.false_eq_true, if_false, false_and, iff_false]
    omega

/-- **Family of witnesses (upper half of a millisecond).**  For every millisecond `k`: ping at
`k + 0.75` ms, pong at `k + 0.875` ms → `−1`. -/
theorem mixed_pair_negative_family (k : Nat) :
    (⟨4 * k + 3, 4000⟩ : Reading) ≤ ⟨8 * k + 7, 8000⟩ ∧
    latency roundConv truncConv ⟨4 * k + 3, 4000⟩ ⟨8 * k + 7, 8000⟩ = -1 := by
  constructor
  · show (4 * k + 3) * 8000 ≤ (8 * k + 7) * 4000
    omega
  · have hu : roundsUp ⟨4 * k + 3, 4000⟩ = true :=
      (roundsUp_iff _).2 (Or.inl (by show 4000 < 2 * (1000 * (4 * k + 3) % 4000); omega))
    simp only [latency, pongLatency, pingStamp, truncConv, roundConv, round_eq, hu, if_true,
      millisFloor]
    omega

/-- **Family of witnesses (exact tie, ZERO elapsed time).**  For every odd millisecond `2j+1`: a
single reading `t = (2j+1) + 0.5` ms used for both ping and pong → `−1`; on an even millisecond
the tie rounds down and the latency is `0`. -/
theorem mixed_pair_tie_family (j : Nat) :
    latency roundConv truncConv ⟨4 * j + 3, 2000⟩ ⟨4 * j + 3, 2000⟩ = -1 ∧
    latency roundConv truncConv ⟨4 * j + 1, 2000⟩ ⟨4 * j + 1, 2000⟩ = 0 := by
  have hu : roundsUp ⟨4 * j + 3, 2000⟩ = true :=
    (roundsUp_iff _).2 (Or.inr ⟨by show 2 * (1000 * (4 * j + 3) % 2000) = 2000; omega,
      by show 1000 * (4 * j + 3) / 2000 % 2 = 1; omega⟩)
  have hd : ¬ roundsUp ⟨4 * j + 1, 2000⟩ = true := by
    rw [roundsUp_iff]
    show ¬ (2000 < 2 * (1000 * (4 * j + 1) % 2000) ∨
      (2 * (1000 * (4 * j + 1) % 2000) = 2000 ∧ 1000 * (4 * j + 1) / 2000 % 2 = 1))
    omega
  constructor
  · simp only [latency, pongLatency, pingStamp, truncConv, roundConv, round_eq, hu, if_true,
      millisFloor]
    omega
  · simp only [latency, pongLatency, pingStamp, truncConv, roundConv, round_eq, hd,
      Bool.false_eq_true, if_false, millisFloor]
    omega

/-- The opposite mix (`int` at the ping, `round` at the pong) cannot go negative (it can
over-report by one): only the order "round first" is harmful. -/
theorem trunc_then_round_nonneg (t₀ t₁ : Reading) (h₀ : t₀.Valid) (h₁ : t₁.Valid) (h : t₀ ≤ t₁) :
    0 ≤ latency truncConv roundConv t₀ t₁ := by
  have hq := floor_mono t₀ t₁ h₀ h₁ h
  have hr := floor_le_round t₁
  simp only [latency, pongLatency, pingStamp, truncConv, roundConv]
  omega

/-! ## B. The two sites of the code as it is now -/

/-- **Live.**  In `StatusReactor.react` as it is now the expression assigned to
`ping_packet.time` and the expression bound to `now` in the pong branch are the same expression,
and it is `int(1000 * timeit.default_timer())`.  (Stops checking when either site changes.) -/
theorem live_sites_agree :
    Generated.sameConversion = true ∧ Generated.conversion = .truncMillis := by decide

/-- Each site separately is recognised as `int(1000 * timeit.default_timer())`. -/
theorem live_each_site_truncates :
    Generated.pingConversion = .truncMillis ∧ Generated.pongConversion = .truncMillis := by decide

/-- The flag `sameConversion` is what Lean itself finds by comparing the two emitted dumps. -/
theorem live_dumps_consistent :
    Generated.sameConversion = decide (Generated.pingExpr = Generated.pongExpr) := by
  decide +kernel

/-- The argument of `handle_ping` is `now - packet.time`, and the timer is the monotonic
`time.perf_counter`. -/
theorem live_latency_expression_and_clock :
    Generated.latencyIsNowMinusEcho = true ∧ Generated.timerIsPerfCounter = true ∧
      Generated.timerMonotonic = true := by decide

/-- The REAL `StatusReactor.react`, run with a stubbed timer on dyadic readings (where the binary64
product `1000 * t` is exact), hands `handle_ping` exactly what the model computes. -/
theorem live_latency_rows :
    ∀ row ∈ Generated.latencyRows,
      latencyOf Generated.pingConversion Generated.pongConversion
        ⟨row.1, row.2.1⟩ ⟨row.2.2.1, row.2.2.2.1⟩ = some row.2.2.2.2 := by
  decide +kernel

/-- **The clause of C09 for the code as it is now**: with the conversions found at the two live
sites, every pair of readings `t₀ ≤ t₁` yields a reported latency, it is non-negative, and it is
the number of millisecond boundaries crossed. -/
theorem live_latency_nonneg (t₀ t₁ : Reading) (h₀ : t₀.Valid) (h₁ : t₁.Valid) (h : t₀ ≤ t₁) :
    ∃ l : Int, latencyOf Generated.pingConversion Generated.pongConversion t₀ t₁ = some l ∧
      0 ≤ l ∧ l = (boundariesCrossed t₀ t₁ : Int) := by
  obtain ⟨e₀, e₁⟩ := live_each_site_truncates
  rw [e₀, e₁]
  exact ⟨latency truncConv truncConv t₀ t₁, rfl, latency_trunc_nonneg t₀ t₁ h₀ h₁ h,
    latency_eq_boundaries_crossed t₀ t₁ h₀ h₁ h⟩

/-- Had the ping site been `round(1000 * timeit.default_timer())` (the other recognised
conversion) with the pong site unchanged, the model reports `−1` on the witness. -/
theorem roundMillis_at_ping_refuted :
    latencyOf .roundMillis .truncMillis ⟨3, 4000⟩ ⟨7, 8000⟩ = some (-1) := by decide +kernel

/-! ## C. Names at construction -/

/-- The constructor model with the lookup in the supported table IS the existing `Neg.ctor`. -/
theorem ctorWith_supported_eq_ctor (env : VEnv2) (allowed : Option (List VReq))
    (initial : Option VReq) :
    ctorWith .supported env allowed initial = ctor env.base allowed initial := by
  have ha : allowedSetWith .supported env allowed = allowedSet env.base allowed := by
    cases allowed with
    | none => rfl
    | some reqs => simp only [allowedSetWith, allowedSet, resolveAllWith_supported]
                   cases resolveAll env.base reqs <;> rfl
  unfold ctorWith ctor
  rw [ha]
  cases allowedSet env.base allowed with
  | error e => rfl
  | ok al =>
    simp only []
    cases latest env.base al with
    | error e => rfl
    | ok lt =>
      cases initial with
      | none => rfl
      | some r => simp only [resolveWith_supported]; cases resolve env.base r <;> rfl

/-- **Unsupported names are refused, whatever the known table says.**  With the lookup in the
supported table (as in the code), for EVERY known table:
a name that is not a key of `SUPPORTED_MINECRAFT_VERSIONS` makes `proto_version` raise
`ValueError`; so does a list of allowed versions containing it; and a constructor call whose
`initial_version` is such a name never succeeds (it raises `ValueError` as soon as the
allowed-versions part went through).  A name that IS a key resolves to the protocol the supported
table gives it (when that number is in `SUPPORTED_PROTOCOL_VERSIONS`, which `initglobals`
guarantees; `live_supported_names_covered`). -/
theorem unsupported_names_refused (env : VEnv2) (name : String) :
    (dictGet env.base.supportedNames name = none →
      resolveWith .supported env (.name name) = .error .value ∧
      (∀ reqs initial, VReq.name name ∈ reqs →
        ctorWith .supported env (some reqs) initial = .error .value) ∧
      (∀ allowed, (∃ e, ctorWith .supported env allowed (some (.name name)) = .error e) ∧
        ∀ al lt, allowedSetWith .supported env allowed = .ok al → latest env.base al = .ok lt →
          ctorWith .supported env allowed (some (.name name)) = .error .value)) ∧
    (∀ p, dictGet env.base.supportedNames name = some p → p ∈ env.base.supportedProtocols →
      resolveWith .supported env (.name name) = .ok p) := by
  constructor
  · intro hnone
    have hres : resolveWith .supported env (.name name) = .error .value := by
      simp [resolveWith, protoOfWith, VEnv2.table, hnone]
    refine ⟨hres, ?_, ?_⟩
    · intro reqs initial hmem
      have := resolveAllWith_refuses .supported env (by decide) reqs _ hmem hres
      simp [ctorWith, allowedSetWith, this]
    · intro allowed
      constructor
      · unfold ctorWith
        cases allowedSetWith .supported env allowed with
        | error e => exact ⟨e, rfl⟩
        | ok al =>
          simp only []
          cases latest env.base al with
          | error e => exact ⟨e, rfl⟩
          | ok lt => simp only [hres]; exact ⟨_, rfl⟩
      · intro al lt hal hlt
        simp [ctorWith, hal, hlt, hres]
  · intro p hget hp
    simp [resolveWith, protoOfWith, VEnv2.table, hget, inZ, hp]

/-- **Refutation of the lookup in the known table (general form).**  Whenever some name is a key
of the known table but not of the supported table, and its protocol number is supported, the
constructor with the lookup in the KNOWN table accepts it while the one with the lookup in the
supported table raises `ValueError`. -/
theorem known_lookup_differs (env : VEnv2) (name : String) (p : Nat)
    (hk : dictGet env.knownNames name = some p) (hs : dictGet env.base.supportedNames name = none)
    (hp : p ∈ env.base.supportedProtocols) :
    resolveWith .known env (.name name) = .ok p ∧
    resolveWith .supported env (.name name) = .error .value := by
  constructor
  · simp [resolveWith, protoOfWith, VEnv2.table, hk, inZ, hp]
  · simp [resolveWith, protoOfWith, VEnv2.table, hs]

/-- The tables of the running module. -/
def liveEnv2 : VEnv2 :=
  ⟨⟨Generated.supportedNames, Generated.supportedProtocols, Generated.knownOrder⟩,
   Generated.knownNames⟩

/-- The tables emitted by this generator are the ones `Generated/Versions.lean` (another
generator) records for the same module. -/
theorem live_tables_agree :
    liveEnv2.base = ⟨liveTables.supportedVersions, liveTables.supportedProtocols,
      liveTables.knownProtocols⟩ ∧ liveEnv2.knownNames = liveTables.knownVersions := by
  decide +kernel

/-- Every protocol number of the live supported-name table is in the live
`SUPPORTED_PROTOCOL_VERSIONS` (so a supported name always resolves). -/
theorem live_supported_names_covered :
    ∀ e ∈ Generated.supportedNames, e.2 ∈ Generated.supportedProtocols := by
  decide +kernel

/-- **The live shared names are what they are said to be**: every entry `(name, p)` of
`Generated.sharedNames` is NOT a key of the live supported table, IS a key of the live known table
with value `p`, and `p` is a live supported protocol; and there are such names.
(Soundness of the generated list; that the list contains ALL such names is the generator's
business and is not needed below.) -/
theorem live_shared_names_sound :
    (∀ e ∈ Generated.sharedNames,
      dictGet Generated.supportedNames e.1 = none ∧ dictGet Generated.knownNames e.1 = some e.2 ∧
        e.2 ∈ Generated.supportedProtocols) ∧
    Generated.sharedNames.length = 40 := by
  -- names are compared through their UTF-8 byte lists (`nameTag`), emitted by the generator
  have hsup : Generated.supportedNames.map (fun e => nameTag e.1) = Generated.supportedTags := by
    decide +kernel
  have hsh : Generated.sharedNames.map (fun e => nameTag e.1) = Generated.sharedTags := by
    decide +kernel
  have hdisj : ∀ a ∈ Generated.sharedTags, a ∉ Generated.supportedTags := by decide +kernel
  have hrest : (∀ e ∈ Generated.sharedNames,
      dictGet Generated.knownNames e.1 = some e.2 ∧ e.2 ∈ Generated.supportedProtocols) ∧
      Generated.sharedNames.length = 40 := by decide +kernel
  refine ⟨fun e he => ⟨?_, hrest.1 e he⟩, hrest.2⟩
  apply dictGet_none_of_tags
  intro s hs heq
  have h1 : nameTag e.1 ∈ Generated.sharedTags := by
    rw [← hsh]; exact List.mem_map.2 ⟨e, he, rfl⟩
  have h2 : nameTag s.1 ∈ Generated.supportedTags := by
    rw [← hsup]; exact List.mem_map.2 ⟨s, hs, rfl⟩
  rw [heq] at h2
  exact hdisj _ h1 h2

/-- **Live refutation.**  With the lookup in `KNOWN_MINECRAFT_VERSIONS`, EVERY one of the live
shared names (e.g. `"1.8.1-pre1"` → 47) would be accepted by `proto_version`; and a constructor
call with such an initial version succeeds with that default protocol. -/
theorem known_lookup_accepts_unsupported_name :
    (∀ e ∈ Generated.sharedNames, resolveWith .known liveEnv2 (.name e.1) = .ok e.2) ∧
    (ctorWith .known liveEnv2 (some [.num 47, .num 340]) (some (.name "1.8.1-pre1"))).toOption.map
        (·.default) = some 47 := by
  constructor
  · intro e he
    have h := live_shared_names_sound.1 e he
    exact (known_lookup_differs liveEnv2 e.1 e.2 h.2.1 h.1 h.2.2).1
  · decide +kernel

/-- **Live.**  The nested `proto_version` as it is now calls `.get` on
`SUPPORTED_MINECRAFT_VERSIONS` (the very dict of the `minecraft` module) and tests membership in
`SUPPORTED_PROTOCOL_VERSIONS`. -/
theorem live_lookup_is_supported_table :
    Generated.lookup = .supported ∧ Generated.membershipIsSupportedProtocols = true ∧
      Generated.lookupDictIsModuleTable = true := by decide

/-- **Live.**  The model of the CURRENT code (lookup in the table the generator found) refuses every
one of the live shared names with `ValueError`. -/
theorem live_shared_names_refused :
    ∀ e ∈ Generated.sharedNames,
      resolveWith Generated.lookup liveEnv2 (.name e.1) = .error .value := by
  intro e he
  have h := live_shared_names_sound.1 e he
  rw [live_lookup_is_supported_table.1]
  exact (known_lookup_differs liveEnv2 e.1 e.2 h.2.1 h.1 h.2.2).2

/-- … and a constructor call naming one of them, as the initial version or among the allowed
versions, raises `ValueError` — for every shared name, by the general theorem. -/
theorem live_shared_names_refused_by_ctor :
    ∀ e ∈ Generated.sharedNames,
      (∀ reqs initial, VReq.name e.1 ∈ reqs →
        ctorWith Generated.lookup liveEnv2 (some reqs) initial = .error .value) ∧
      (∀ allowed, ∃ err,
        ctorWith Generated.lookup liveEnv2 allowed (some (.name e.1)) = .error err) := by
  intro e he
  have hnone : dictGet liveEnv2.base.supportedNames e.1 = none :=
    (live_shared_names_sound.1 e he).1
  rw [live_lookup_is_supported_table.1]
  have h := (unsupported_names_refused liveEnv2 e.1).1 hnone
  exact ⟨h.2.1, fun allowed => (h.2.2 allowed).1⟩

/-- The REAL `Connection('localhost', 25565, initial_version=name)` — run by the generator on the
first two and last two shared names and on every 32nd known name — gives exactly what the model of the current code gives:
`default_proto_version`, or `ValueError`. -/
theorem live_ctor_rows :
    ∀ row ∈ Generated.ctorRows,
      (resolveWith Generated.lookup liveEnv2 (.name row.1)).toOption = row.2 := by
  decide +kernel

/-! ## Non-vacuity -/

-- valid readings, strictly increasing, more than a millisecond apart
example : (⟨1, 3⟩ : Reading).Valid ∧ (⟨7, 20⟩ : Reading).Valid ∧ (⟨1, 3⟩ : Reading) ≤ ⟨7, 20⟩ ∧
    latency truncConv truncConv ⟨1, 3⟩ ⟨7, 20⟩ = 17 ∧ boundariesCrossed ⟨1, 3⟩ ⟨7, 20⟩ = 17 := by
  decide +kernel
-- the monotone hypothesis of the general theorem is met by a conversion that is neither floor
-- nor round (ceil-like: floor + 5)
example : MonotoneConv (fun t => truncConv t + 5) := by
  intro a b ha hb h
  have := trunc_monotone a b ha hb h
  show truncConv a + 5 ≤ truncConv b + 5
  omega
-- … and is NOT met by every function (so the hypothesis says something): "milliseconds within
-- the current second" wraps around
example : ¬ MonotoneConv (fun t => ((millisFloor t % 1000 : Nat) : Int)) := by
  intro h
  have := h ⟨999, 1000⟩ ⟨1, 1⟩ (by decide) (by decide) (by decide)
  revert this
  decide +kernel
-- same millisecond (k = 2): 2.25 ms and 2.75 ms
example : latency truncConv truncConv ⟨9, 4000⟩ ⟨11, 4000⟩ = 0 :=
  latency_zero_same_millisecond _ _ (by decide) (by decide) 2 (by decide) (by decide)
-- within one unit: 0.9 ms → 1.1 ms reports 1 for an elapsed 0.2 ms
example : latency truncConv truncConv ⟨9, 10000⟩ ⟨11, 10000⟩ = 1 ∧
    scaledElapsedNum ⟨9, 10000⟩ ⟨11, 10000⟩ = 20000000 := by decide +kernel
-- the mixed pair is not ALWAYS negative (lower half of the millisecond) …
example : latency roundConv truncConv ⟨1, 4000⟩ ⟨1, 2000⟩ = 0 := by decide +kernel
-- … and the characterisation's right-hand side is satisfiable in both of its disjuncts
example : (4000 < 2 * millisRem ⟨3, 4000⟩) ∧ millisFloor ⟨7, 8000⟩ = millisFloor ⟨3, 4000⟩ := by
  decide +kernel
example : 2 * millisRem ⟨3, 2000⟩ = 2000 ∧ millisFloor ⟨3, 2000⟩ % 2 = 1 := by decide +kernel
-- round half even: 0.5 → 0, 1.5 → 2, 2.5 → 2, 2.6 → 3
example : [millisRoundHalfEven ⟨1, 2000⟩, millisRoundHalfEven ⟨3, 2000⟩,
    millisRoundHalfEven ⟨5, 2000⟩, millisRoundHalfEven ⟨26, 10000⟩] = [0, 2, 2, 3] := by
  decide +kernel
-- the reactor log on concrete readings
example : reactLog ⟨1, 3⟩ ⟨7, 20⟩ "{}" =
    [.sendPing 333, .handleStatus "{}", .disconnect, .handlePing 17] := by decide +kernel
-- names: a supported name, a shared name under both lookups, an unknown name, a number
example : resolveWith .supported liveEnv2 (.name "1.8.9") = .ok 47 := by decide +kernel
example : resolveWith .known liveEnv2 (.name "1.8.1-pre1") = .ok 47 ∧
    resolveWith .supported liveEnv2 (.name "1.8.1-pre1") = .error .value := by decide +kernel
example : resolveWith .known liveEnv2 (.name "no such version") = .error .value := by
  decide +kernel
-- a known name whose protocol is NOT supported is refused under either lookup
example : resolveWith .known liveEnv2 (.name "13w41a") = .error .value ∧
    resolveWith .supported liveEnv2 (.name "13w41a") = .error .value := by decide +kernel
example : resolveWith .known liveEnv2 (.num 47) = .ok 47 ∧
    resolveWith .known liveEnv2 .other = .error .value := by decide +kernel
-- hypotheses of `known_lookup_differs` on a small hand-made environment
example : dictGet [("a", 1), ("a-pre", 1)] "a-pre" = some 1 ∧ dictGet [("a", 1)] "a-pre" = none ∧
    1 ∈ [1] := by decide

end PyCraft.C09Clock
