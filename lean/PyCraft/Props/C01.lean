import PyCraft.Lemmas.FrameViews
/-!
# C01 — framed packet stream survives any threshold, cipher and read segmentation

Model: `PyCraft/Model/Frame.lean`.  Writer `frameBody`/`frame`/`frameSends` (`Packet.write`,
`Packet._write_buffer`), reader `readPacket`/`readAll` (`PacketReactor.read_packet` called in a
loop) over arrival segments `Segs` (`read(n)` returns at most the rest of the first arrival
segment), `readAllEnc` through `EncryptedFileObjectWrapper`.  zlib is any `z : Zlib`
(`inflate (deflate x) = some x` is the only assumption), the cipher any `CipherPair`.
The guard `FrameOK` says that the id and the two lengths written as VarInts are `< 2^42`, the
bound of the reader's `VarInt.read` (it holds for every id `< 2^32` and every length `< 2^35`).
Only property theorems and non-vacuity examples live here.
-/
namespace PyCraft.C01
open PyCraft

/-- The two chunks handed to `socket.send` concatenate to the frame. -/
theorem frameSends_flatten (z : ZlibOps) (thr : Option Int) (payload : Bytes) :
    (frameSends z thr payload).flatten = frame z thr payload :=
  frameSends_flatten' z thr payload

/-- Read segmentation is invisible: two segmentations of the same byte stream (any sizes, empty
segments, one byte at a time …) give the same VarInt, the same `n` reassembled bytes, the same
packet — or the same exception — and leave the same bytes unread; and the whole sequence of
delivered packets and the final exception are the same.  For any inflate function, compression on
or off, well-formed stream or not. -/
theorem read_segmentation_invariant (z : ZlibOps) (c : Bool) (s1 s2 : Segs)
    (h : s1.flatten = s2.flatten) :
    (∀ mx, (readVarIntS mx s1).map (fun r => (r.1, r.2.flatten))
        = (readVarIntS mx s2).map (fun r => (r.1, r.2.flatten))) ∧
    (∀ n, (readExact s1 n).map (fun r => (r.1, r.2.flatten))
        = (readExact s2 n).map (fun r => (r.1, r.2.flatten))) ∧
    (readPacket z c s1).map (fun r => (r.1, r.2.flatten))
        = (readPacket z c s2).map (fun r => (r.1, r.2.flatten)) ∧
    readAll z c s1 = readAll z c s2 := by
  refine ⟨fun mx => ?_, fun n => ?_, ?_, ?_⟩
  · rw [readVarIntS_spec, readVarIntS_spec, h]
  · rw [readExact_spec, readExact_spec, h]
  · rw [readPacket_spec, readPacket_spec, h]
  · rw [readAll_spec, readAll_spec, h]

/-- … in particular one byte per `read` gives what a single arrival of the whole stream gives. -/
theorem read_bytewise (z : ZlibOps) (c : Bool) (bs : Bytes) :
    readAll z c (bs.map fun b => [b]) = readAll z c [bs] := by
  rw [readAll_spec, readAll_spec]
  congr 1
  induction bs with
  | nil => rfl
  | cons b bs ih => simp only [List.map_cons, List.flatten_cons, ih]; simp

/-- The same for an encrypted connection: however the cipher text is split across reads, the
packets delivered and the final exception are the same. -/
theorem read_segmentation_invariant_encrypted {σ : Type} (dec : StreamXform σ) (s0 : σ)
    (z : ZlibOps) (c : Bool) (s1 s2 : Segs) (h : s1.flatten = s2.flatten) :
    readAllEnc dec s0 z c s1 = readAllEnc dec s0 z c s2 := by
  rw [readAllEnc_spec, readAllEnc_spec, h]

/-- Round trip of a whole conversation: for every zlib, every threshold (`none`, or `some t` for
ANY integer `t` — negative, `-1`, zero, anything), every list of packets `(id, field bytes)` passing
the VarInt guard, and every segmentation of the concatenated frames, the reader (compression
enabled iff a threshold is set) delivers exactly that list — nothing lost, duplicated, merged,
split or reordered, no byte leaking between packets — and then raises end-of-stream. -/
theorem roundtrip_stream (z : Zlib) (thr : Option Int) (ps : List (Nat × Bytes))
    (hok : ∀ p ∈ ps, FrameOK z.toZlibOps thr p) (segs : Segs)
    (hseg : segs.flatten = (ps.map (packetFrame z.toZlibOps thr)).flatten) :
    readAll z.toZlibOps thr.isSome segs = (ps, .eof) := by
  rw [readAll_spec, hseg]
  have := parseAll_frames z thr ps [] hok
  rw [List.append_nil, parseAll_nil] at this
  rw [this]; simp

/-- … and if the stream goes on with an incomplete frame (any strict prefix `t` of a further
frame), still exactly `ps` is delivered, then end-of-stream. -/
theorem roundtrip_stream_trailing (z : Zlib) (thr : Option Int) (ps : List (Nat × Bytes))
    (hok : ∀ p ∈ ps, FrameOK z.toZlibOps thr p) (q : Nat × Bytes)
    (hq : FrameOK z.toZlibOps thr q) (t u : Bytes)
    (htu : t ++ u = packetFrame z.toZlibOps thr q) (hu : u ≠ []) (segs : Segs)
    (hseg : segs.flatten = (ps.map (packetFrame z.toZlibOps thr)).flatten ++ t) :
    readAll z.toZlibOps thr.isSome segs = (ps, .eof) := by
  rw [readAll_spec, hseg, parseAll_frames z thr ps t hok,
    parseAll_incomplete z.toZlibOps thr _ t (Or.inr ⟨q, u, hq, htu, hu⟩)]
  simp

/-- The literal writer: the stream is the concatenation of the `send` calls of `Packet.write`
(two per packet). -/
theorem roundtrip_sends (z : Zlib) (thr : Option Int) (ps : List (Nat × Bytes))
    (hok : ∀ p ∈ ps, FrameOK z.toZlibOps thr p) (segs : Segs)
    (hseg : segs.flatten =
      (ps.flatMap fun p => frameSends z.toZlibOps thr (packetPayload p.1 p.2)).flatten) :
    readAll z.toZlibOps thr.isSome segs = (ps, .eof) := by
  apply roundtrip_stream z thr ps hok
  rw [hseg]
  clear hseg hok
  induction ps with
  | nil => rfl
  | cons p ps ih =>
    simp only [List.flatMap_cons, List.flatten_append, List.map_cons, List.flatten_cons, ih,
      frameSends_flatten']
    rfl

/-- Round trip through any cipher pair: the writer's byte stream — cut into `send` calls in ANY
way (`sends`) — goes through `encryptor.update` call by call from context `s0`; the cipher text
arrives in ANY segmentation and is decrypted `read` call by `read` call from the same `s0`.
Exactly `ps` is delivered, then end-of-stream. -/
theorem roundtrip_encrypted {σ : Type} (cp : CipherPair σ) (s0 : σ) (z : Zlib)
    (thr : Option Int) (ps : List (Nat × Bytes))
    (hok : ∀ p ∈ ps, FrameOK z.toZlibOps thr p)
    (sends : List Bytes)
    (hsends : sends.flatten = (ps.map (packetFrame z.toZlibOps thr)).flatten)
    (segs : Segs) (hseg : segs.flatten = (encSends cp.enc s0 sends).2.flatten) :
    readAllEnc cp.dec s0 z.toZlibOps thr.isSome segs = (ps, .eof) := by
  rw [readAllEnc_spec, hseg, encSends_flatten, (cp.inv s0 _).1, hsends]
  have := parseAll_frames z thr ps [] hok
  rw [List.append_nil, parseAll_nil] at this
  rw [this]; simp

/-- The reader never looks inside a frame before it has consumed it: for ANY frame body (any id,
known to the library or not, even bytes that are no VarInt or do not inflate) followed by any
`more`, `read_packet` returns/raises exactly what `parseBody` says about that body alone and
leaves the stream positioned exactly behind the frame. -/
theorem frame_consumed_whole (z : ZlibOps) (c : Bool) (body more : Bytes)
    (hb : body.length < 2 ^ 42) (segs : Segs)
    (hseg : segs.flatten = encVarInt body.length ++ (body ++ more)) :
    (readPacketK idXform z c (Sock.plain segs)).1 = parseBody z c body ∧
    (readPacketK idXform z c (Sock.plain segs)).2.segs.flatten = more := by
  have := readPacketK_frame idXform z c (Sock.plain segs) body more
    (by rw [ahead_plain, hseg]; exact parseFrame_frame body more hb)
  exact this

/-- A packet with ANY id (no hypothesis relating it to a packet table) is delivered as
`(id, field bytes)` and the bytes consumed are exactly its frame: the successors `more` are
untouched.  (`roundtrip_stream` likewise has no hypothesis about ids.) -/
theorem unknown_id_skipped (z : Zlib) (thr : Option Int) (id : Nat) (fields more : Bytes)
    (hok : FrameOK z.toZlibOps thr (id, fields)) (segs : Segs)
    (hseg : segs.flatten = packetFrame z.toZlibOps thr (id, fields) ++ more) :
    ∃ s', readPacket z.toZlibOps thr.isSome segs = .ok ((id, fields), s') ∧ s'.flatten = more := by
  have h1 := readPacket_spec z.toZlibOps thr.isSome segs
  rw [hseg, parsePacket_packetFrame z thr (id, fields) more hok] at h1
  cases hr : readPacket z.toZlibOps thr.isSome segs with
  | error e => rw [hr] at h1; cases h1
  | ok r =>
    rw [hr] at h1
    injection h1 with h1; injection h1 with h2 h3
    exact ⟨r.2, by rw [← h2], h3⟩

/-- The three regimes of `_write_buffer`: no threshold → the payload itself; threshold `-1` or
payload not longer than the threshold → a zero data-length byte, then the payload; otherwise the
payload length as VarInt, then the deflated payload. -/
theorem threshold_cases (z : ZlibOps) (payload : Bytes) :
    frameBody z none payload = payload ∧
    (∀ t : Int, (t = -1 ∨ (payload.length : Int) ≤ t) →
      frameBody z (some t) payload = 0x00 :: payload) ∧
    (∀ t : Int, t ≠ -1 → t < (payload.length : Int) →
      frameBody z (some t) payload = encVarInt payload.length ++ z.deflate payload) := by
  refine ⟨rfl, ?_, ?_⟩
  · intro t ht
    have : ¬ ((payload.length : Int) > t ∧ t ≠ -1) := by omega
    simp only [frameBody, if_neg this]
    unfold encVarInt
    simp
  · intro t h1 h2
    have : (payload.length : Int) > t ∧ t ≠ -1 := by omega
    simp only [frameBody, if_pos this]

/-- With a threshold set, the data-length field read back by the reader is `> 0` exactly when the
writer compressed (and is then the payload length); a payload is never empty since it starts with
the packet id. -/
theorem data_length_pos_iff_compressed (z : ZlibOps) (t : Int) (id : Nat) (fields : Bytes)
    (hlen : (packetPayload id fields).length < 2 ^ 42) :
    packetPayload id fields ≠ [] ∧
    ∃ dl rest, decVarInt 5 (frameBody z (some t) (packetPayload id fields)) = .ok (dl, rest) ∧
      (0 < dl ↔ (((packetPayload id fields).length : Int) > t ∧ t ≠ -1)) ∧
      (0 < dl → dl = (packetPayload id fields).length ∧
        rest = z.deflate (packetPayload id fields)) ∧
      (dl = 0 → rest = packetPayload id fields) := by
  have hpos : 0 < (packetPayload id fields).length := by
    unfold packetPayload; rw [List.length_append]; have := enc_length_pos id; omega
  refine ⟨List.length_pos_iff.mp hpos, ?_⟩
  by_cases hc : ((packetPayload id fields).length : Int) > t ∧ t ≠ -1
  · refine ⟨(packetPayload id fields).length, z.deflate (packetPayload id fields), ?_, ?_, ?_, ?_⟩
    · simp only [frameBody, if_pos hc]; exact decVarInt_enc _ _ hlen
    · exact ⟨fun _ => hc, fun _ => hpos⟩
    · intro _; exact ⟨rfl, rfl⟩
    · intro h; omega
  · refine ⟨0, packetPayload id fields, ?_, ?_, ?_, ?_⟩
    · simp only [frameBody, if_neg hc]; exact decVarInt_enc _ _ (by omega)
    · exact ⟨fun h => absurd h (Nat.lt_irrefl 0), fun h => absurd h hc⟩
    · intro h; omega
    · intro _; rfl

-- non-vacuity: concrete frames, thresholds and segmentations
example : frame Zlib.ident.toZlibOps (some 1) [0x05, 0x61, 0x62]
    = [0x04, 0x03, 0x05, 0x61, 0x62] := by decide +kernel
example : frame Zlib.ident.toZlibOps (some 3) [0x05, 0x61, 0x62]
    = [0x04, 0x00, 0x05, 0x61, 0x62] := by decide +kernel
example : frame Zlib.ident.toZlibOps (some (-1)) [0x05, 0x61, 0x62]
    = [0x04, 0x00, 0x05, 0x61, 0x62] := by decide +kernel
example : frame Zlib.ident.toZlibOps none [0x05, 0x61, 0x62] = [0x03, 0x05, 0x61, 0x62] := by
  decide +kernel
example : FrameOK Zlib.ident.toZlibOps (some 1) (5, [0x61, 0x62]) := by decide +kernel
example : readAll Zlib.ident.toZlibOps true [[0x04], [], [0x03, 0x05], [0x61], [0x62, 0x02, 0x00], [0x07]]
    = ([(5, [0x61, 0x62]), (7, [])], .eof) :=
  roundtrip_stream Zlib.ident (some 1) [(5, [0x61, 0x62]), (7, [])] (by decide +kernel) _
    (by decide +kernel)
example : readAll Zlib.ident.toZlibOps false [[0x03, 0x05, 0x61, 0x62, 0x05, 0x01]]
    = ([(5, [0x61, 0x62])], .eof) :=
  roundtrip_stream_trailing Zlib.ident none [(5, [0x61, 0x62])] (by decide +kernel)
    (1, [1, 2, 3, 4]) (by decide +kernel) [0x05, 0x01] [1, 2, 3, 4] (by decide +kernel)
    (by decide) _ (by decide +kernel)
-- the cipher laws are satisfiable (identity pair; `Model/Cfb8.lean` gives CFB8 over any block
-- function); writer chunks `[04] [03 05 61 62]`, cipher text re-segmented as `[04 03 05] [61 62]`
example : readAllEnc idXform () Zlib.ident.toZlibOps true [[0x04, 0x03, 0x05], [0x61, 0x62]]
    = ([(5, [0x61, 0x62])], .eof) :=
  roundtrip_encrypted { enc := idXform, dec := idXform, inv := fun _ _ => ⟨rfl, rfl⟩ } ()
    Zlib.ident (some 1) [(5, [0x61, 0x62])] (by decide +kernel)
    [[0x04], [0x03, 0x05, 0x61, 0x62]] (by decide +kernel) _ (by decide +kernel)
example : readPacket Zlib.ident.toZlibOps true [[0x03, 0x03], [0x05, 0x61]] = .error .assertion := by
  decide +kernel

end PyCraft.C01
