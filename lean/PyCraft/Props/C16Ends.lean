import PyCraft.Lemmas.C16Ends
import PyCraft.Lemmas.C16EndsReuse
import PyCraft.Props.C16Live
/-!
# C16, how a connection ends — audit ranks 3 and 7

**Part A (rank 3): "`disconnect()` may be called in any state … without raising, and always leads
to the networking thread terminating".**  In `Model/Lifecycle.lean` the body of `disconnect()` is
`(doDisconnect s, .ok)` by definition.  `Model/C16Ends.lean` adds the outgoing queue and a flush whose
packet writes fail according to an arbitrary oracle `F`, with the failure points of
`Connection.disconnect` (connection.py:457-489): an `IOError` from a write, an `AttributeError` from
a missing socket or a missing queue attribute; an exception that propagates skips the rest of the
method.  `disconnectE true` is the current code (`try: … except IOError: pass` around the flush,
commit 584a461), `disconnectE false` the code before it.  Theorems A1–A6 are for the current code,
for ALL oracles `F`, server behaviours, user programs, reconnect budgets and schedules `acts`
(thread steps interleaved with `write_packet` calls `enq p` and queue consumption `deq`); the
refutations show that each of them fails for the old code.  `x.calls` is the list of API calls whose
body has run, with the outcome the CALLER sees (`OutcomeE` includes `ioError`, `otherExc`).
ASSUMED (model header): every queued packet can be serialised and the outgoing packet listeners
do not raise — an exception of that kind is not an `IOError`, the guard does not catch it, and the
real `disconnect()` then raises it before interrupting the thread (observed with a `ChatPacket`
without `message`); the packet writes themselves fail arbitrarily.

**Part B (rank 7): "after a connection ends for any reason … the same object can connect again,
including from inside its own listeners and handlers".**  `C16.reusable_after_end` ASSUMES that the
slot holder is interrupted.  Theorems B1–B9 (about `Model/Lifecycle.lean`, all reachable states)
derive that from how the connection ended: B1 is the new invariant, B2/B3 the calls from the
networking thread itself, B4–B6 the four reasons, B7/B8 the pending hand-over, B9 the quiescent
object.  `Ended s` = every thread occupying a slot is interrupted; `busy s` = the condition under
which `_check_connection` raises `InvalidState`; `ConnectsAfresh env s t s1` = the conclusion of
`C16.reusable_after_end` (one connection attempt; refusal reported or one new thread created).

Only property theorems, non-vacuity examples and refutations live here.
-/
namespace PyCraft.C16Ends
open PyCraft PyCraft.Life PyCraft.Ends

/-! ## Part A — `disconnect()` with a flush that can fail -/

/-- A1 `disconnect_body_never_raises`: the body of the CURRENT `disconnect(immediate)`, in ANY
state in which the queue attribute exists whenever a socket object does (`QInv`; true in every
reachable state, A3), for ANY queue content and ANY failure pattern `F` of the packet writes:
returns normally; its effect on the lifecycle state is exactly `Life.doDisconnect` — so the socket
is `None`, `connected` is false and the thread `new_networking_thread or networking_thread` is
interrupted. -/
theorem disconnect_body_never_raises (imm : Bool) (F : Nat → Bool) (x : ESys)
    (hq : x.sys.socket ≠ .none → x.queue.isSome = true) :
    (disconnectE true imm F x).2 = .ok ∧
    (disconnectE true imm F x).1.sys = doDisconnect x.sys ∧
    (disconnectE true imm F x).1.sys.socket = .none ∧
    (disconnectE true imm F x).1.sys.connected = false ∧
    (∀ j, target x.sys = some j → ((disconnectE true imm F x).1.sys.net j).intr = true) := by
  rw [disconnectE_guarded imm F x hq]
  refine ⟨rfl, rfl, by simp [doDisconnect_eq], by simp [doDisconnect_eq], ?_⟩
  intro j hj
  simp [doDisconnect_eq, dnet, hj]

/-- A2 `flush_delivers_prefix`: what the flush of the current `disconnect(immediate)` does.
`immediate=True` or no socket: nothing.  On the connected socket of connection `c` with queue `q`:
exactly the packets before the first failing write (`k = firstFail F tick |q|`, `k = |q|` if none
fails) are delivered, in order; the packet whose write failed is lost, the rest stays queued; the
write counter advances by the number of attempts.  On a socket object that never connected the
first write fails. -/
theorem flush_delivers_prefix (imm : Bool) (F : Nat → Bool) (x : ESys)
    (hq : x.sys.socket ≠ .none → x.queue.isSome = true) :
    let y := (disconnectE true imm F x).1
    ((imm = true ∨ x.sys.socket = .none) →
      y.queue = x.queue ∧ y.wire = x.wire ∧ y.tick = x.tick) ∧
    (∀ c q, imm = false → x.sys.socket = .open c → x.queue = some q →
      y.wire = x.wire ++ (q.take (firstFail F x.tick q.length)).map (fun p => (c, p)) ∧
      y.queue = some (q.drop (firstFail F x.tick q.length + 1)) ∧
      y.tick = x.tick + min (firstFail F x.tick q.length + 1) q.length) ∧
    (∀ q, imm = false → x.sys.socket = .unconnected → x.queue = some q →
      y.wire = x.wire ∧ y.queue = some (q.drop 1)) := by
  intro y
  have hy : y = { afterFlush imm F x with sys := doDisconnect x.sys } := by
    simp only [y, disconnectE_guarded imm F x hq]
  obtain ⟨a, b, c⟩ := afterFlush_spec imm F x
  rw [hy]
  refine ⟨fun h => ?_, b, c⟩
  simp only [a h, and_self]

/-- A3 `projects_to_lifecycle_model`: for the current code the extended system adds nothing to the
lifecycle behaviour.  In every reachable state `x` the queue attribute exists whenever a socket
does; the lifecycle component `x.sys` is the state that `Model/Lifecycle.lean` reaches on the thread
steps of the schedule; and a thread step of the extended system is enabled iff the model's step is,
with the model's successor as lifecycle component.  Hence EVERY theorem of `Props/C16.lean` and
`Props/C16Live.lean` about reachable states holds for `x.sys`. -/
theorem projects_to_lifecycle_model (F : Nat → Bool) (env : List Beh) (progs : List (List Op))
    (rl rh : Nat) (acts : List Act) (t : Tid) :
    let x := runE true F env (initE progs rl rh) acts
    (x.sys.socket ≠ .none → x.queue.isSome = true) ∧
    x.sys = run env (init progs rl rh) (thrs acts) ∧
    (stepE true F env x (.thr t)).map (·.sys) = step env x.sys t := by
  intro x
  obtain ⟨h1, h2⟩ := reachE F env progs rl rh acts
  exact ⟨h2, h1, (stepE_thr F env x t h2).1⟩

/-- A4 `disconnect_total`: `disconnect(immediate)` called by any thread in ANY reachable state of
the extended system (any number of times, any queue, any failure pattern of the writes) is enabled
as soon as the lock is available, and the CALLER SEES A NORMAL RETURN (`calls` records `.ok`: no
`IOError`, no other exception).  Afterwards the socket is `None`, `connected` is false, the slots
and counters are unchanged, the selected thread is interrupted, nobody else's flag changes, EVERY
thread occupying a slot is interrupted; and queue, wire and write counter are as A2 says. -/
theorem disconnect_total (F : Nat → Bool) (env : List Beh) (progs : List (List Op)) (rl rh : Nat)
    (acts : List Act) (t : Tid) (imm : Bool) :
    let x := runE true F env (initE progs rl rh) acts
    atCall x.sys t (.disconnect imm) →
    (canAcq x.sys t = true → ∃ x1, stepE true F env x (.thr t) = some x1) ∧
    ∀ x1, stepE true F env x (.thr t) = some x1 →
      x1.calls = x.calls ++ [(t, .disconnect imm, .ok)] ∧ pendingOut x1.sys t = some .ok ∧
      x1.sys.socket = .none ∧ x1.sys.connected = false ∧
      x1.sys.nt = x.sys.nt ∧ x1.sys.newNt = x.sys.newNt ∧
      x1.sys.nthreads = x.sys.nthreads ∧ x1.sys.conns = x.sys.conns ∧
      (∀ j, target x.sys = some j → (x1.sys.net j).intr = true) ∧
      (∀ j, target x.sys ≠ some j → (x1.sys.net j).intr = (x.sys.net j).intr) ∧
      (∀ j, x1.sys.nt = some j ∨ x1.sys.newNt = some j → (x1.sys.net j).intr = true) ∧
      ((imm = true ∨ x.sys.socket = .none) →
        x1.queue = x.queue ∧ x1.wire = x.wire ∧ x1.tick = x.tick) ∧
      (∀ c q, imm = false → x.sys.socket = .open c → x.queue = some q →
        x1.wire = x.wire ++ (q.take (firstFail F x.tick q.length)).map (fun p => (c, p)) ∧
        x1.queue = some (q.drop (firstFail F x.tick q.length + 1))) := by
  intro x hat
  obtain ⟨hsys, hq⟩ := reachE F env progs rl rh acts
  have hsys' : x.sys = run env (init progs rl rh) (thrs acts) := hsys
  have hstep := (stepE_thr F env x t hq).1
  have key := C16.disconnect_total env progs rl rh (thrs acts) t imm
  dsimp only at key
  rw [← hsys'] at key
  obtain ⟨k1, k2⟩ := key hat
  refine ⟨fun hc => ?_, fun x1 hx1 => ?_⟩
  · obtain ⟨s1, hs1⟩ := k1 hc
    rw [hs1] at hstep
    cases hx : stepE true F env x (.thr t) with
    | none => rw [hx] at hstep; cases hstep
    | some x1 => exact ⟨x1, rfl⟩
  · rw [hx1] at hstep
    simp only [Option.map_some] at hstep
    obtain ⟨a1, a2, a3, a4, a5, a6, a7, a8, a9, a10⟩ := k2 x1.sys hstep.symm
    obtain ⟨b1, b2, b3, b4⟩ := stepE_disconnect F env x x1 t imm hq hat hx1
    obtain ⟨c1, c2, -⟩ := afterFlush_spec imm F x
    refine ⟨b1, a1, a2, a3, a4, a5, a6, a7, a8, a9, a10, fun h => ?_, fun c q hi hs hqq => ?_⟩
    · rw [b2, b3, b4, c1 h]; exact ⟨rfl, rfl, rfl⟩
    · obtain ⟨d1, d2, -⟩ := c2 c q hi hs hqq
      rw [b2, b3]; exact ⟨d1, d2⟩

/-- A5 `no_call_ever_raises`: in every reachable state of the extended system (current code) every
API call made so far — `connect`, `status`, `disconnect`, `disconnect(immediate)`, by user threads,
by the reaction to a disconnect packet, by listeners and exception handlers — has returned
normally or raised `InvalidState` / `ConnectionRefusedError`; none has raised an `IOError` or any
other exception; and a call step records exactly the outcome that `Model/Lifecycle.lean` computes
(so the placeholder `outL` inside `sys` is exact). -/
theorem no_call_ever_raises (F : Nat → Bool) (env : List Beh) (progs : List (List Op))
    (rl rh : Nat) (acts : List Act) :
    let x := runE true F env (initE progs rl rh) acts
    (∀ e ∈ x.calls, e.2.2 = .ok ∨ e.2.2 = .invalidState ∨ e.2.2 = .refused) ∧
    (∀ t op x1, atCall x.sys t op → stepE true F env x (.thr t) = some x1 →
      x1.calls = x.calls ++ [(t, op, lift (body env x.sys op).2)]) := by
  intro x
  obtain ⟨-, hq⟩ := reachE F env progs rl rh acts
  refine ⟨fun e he => ?_, fun t op x1 hat hs => stepE_call F env x x1 t op hq hat hs⟩
  obtain ⟨o, ho⟩ := runE_noExc F env acts (initE progs rl rh) (initE_QInv progs rl rh)
    (by intro e he; cases he) e he
  rw [ho]; cases o <;> simp [lift]

/-- A6 `disconnect_leads_to_termination`: after the body of a `disconnect(immediate)` call in any
reachable state of the extended system, every thread `j` occupying a slot is interrupted and stays
so under EVERY continuation `more` (thread steps, `write_packet`s, queue consumption); after every
such continuation some further ≤ 47 scheduler choices kill it; and on EVERY weakly fair infinite
schedule of the lifecycle model from the state reached (`C16Live`) it is dead from some pick on. -/
theorem disconnect_leads_to_termination (F : Nat → Bool) (env : List Beh)
    (progs : List (List Op)) (rl rh : Nat) (acts : List Act) (t : Tid) (imm : Bool) :
    let x := runE true F env (initE progs rl rh) acts
    atCall x.sys t (.disconnect imm) → ∀ x1, stepE true F env x (.thr t) = some x1 →
    ∀ j, x1.sys.nt = some j ∨ x1.sys.newNt = some j →
      (∀ more, ((runE true F env x1 more).sys.net j).intr = true ∧
        ∃ more', more'.length ≤ 47 ∧
          ((runE true F env (runE true F env x1 more) more').sys.net j).pc = .dead) ∧
      (∀ σ, WeakFair env x1.sys σ → ∃ n, ∀ m, n ≤ m → ((runN env x1.sys σ m).net j).pc = .dead) := by
  intro x hat x1 hx1 j hj
  obtain ⟨hsys, hq⟩ := reachE F env progs rl rh acts
  have hsys' : x.sys = run env (init progs rl rh) (thrs acts) := hsys
  obtain ⟨hstep, hq1⟩ := stepE_thr F env x t hq
  rw [hx1] at hstep
  simp only [Option.map_some] at hstep
  have k1 := C16.disconnect_leads_to_termination_partial env progs rl rh (thrs acts) t imm
  have k2 := C16Live.disconnect_leads_to_termination env progs rl rh (thrs acts) t imm
  dsimp only at k1 k2
  rw [← hsys'] at k1 k2
  refine ⟨fun more => ?_, k2 hat x1.sys hstep.symm j hj⟩
  obtain ⟨-, -, hm⟩ := k1 hat x1.sys hstep.symm j hj
  obtain ⟨e1, hq2⟩ := runE_sys F env more x1 (hq1 x1 hx1)
  obtain ⟨a, -, -, more', hl, hd⟩ := hm (thrs more)
  refine ⟨by rw [e1]; exact a, more'.map .thr, by simpa using hl, ?_⟩
  obtain ⟨e2, -⟩ := runE_sys F env (more'.map .thr) _ hq2
  rw [e2, e1, thrs_map_thr]; exact hd

/-! ### Non-vacuity and refutation for part A

One user thread runs `connect(); disconnect()`; the server accepts; the peer has closed, so EVERY
packet write fails (`allFail`).  After the `connect()` call the queue holds the handshake and the
login-start packet. -/

def allFail : Nat → Bool := fun _ => true

def exProg : List (List Op) := [[.connect, .disconnect false]]

/-- connect body, release. -/
def exActs : List Act := [.thr (.user 0), .thr (.user 0)]

/-- Hypotheses of A1/A2/A4: the state after the `connect()` call has a connected socket, two queued
packets, an uninterrupted thread in the slot, and the user thread is at its `disconnect()` call. -/
example :
    let x := runE true allFail [.accept] (initE exProg 0 0) exActs
    x.sys.socket = .open 0 ∧ x.queue = some [0, 1] ∧ x.sys.nt = some 0 ∧
    (x.sys.net 0).intr = false ∧ canAcq x.sys (.user 0) = true ∧
    atCall x.sys (.user 0) (.disconnect false) :=
  ⟨by decide, by decide, by decide, by decide, by decide, by decide, _, rfl⟩

/-- CURRENT code on that state: the first write fails, the flush stops (the popped packet is lost,
the other stays queued), `disconnect()` RETURNS NORMALLY, the socket is `None`, the thread is
interrupted — and dies within 5 of its own actions once the caller has released the lock. -/
example :
    let x1 := runE true allFail [.accept] (initE exProg 0 0) (exActs ++ [.thr (.user 0)])
    x1.calls = [(.user 0, .connect, .ok), (.user 0, .disconnect false, .ok)] ∧
    x1.sys.socket = .none ∧ x1.sys.connected = false ∧ (x1.sys.net 0).intr = true ∧
    x1.queue = some [1] ∧ x1.wire = [] ∧ x1.tick = 1 := by decide

example :
    let x2 := runE true allFail [.accept] (initE exProg 0 0)
      (exActs ++ [.thr (.user 0), .thr (.user 0)] ++ List.replicate 5 (.thr (.net 0)))
    (x2.sys.net 0).pc = .dead ∧ x2.sys.nt = none ∧ (x2.sys.usr 0).outs = [.ok, .ok] := by decide

/-- With writes that succeed the flush delivers both queued packets, and one queued by
`write_packet` in between, in order, on connection 0. -/
example :
    let x1 := runE true (fun _ => false) [.accept] (initE exProg 0 0)
      (exActs ++ [.enq 7, .thr (.user 0)])
    x1.wire = [(0, 0), (0, 1), (0, 7)] ∧ x1.queue = some [] ∧ x1.tick = 3 ∧
    x1.sys.socket = .none := by decide

/-- A failure in the middle: the second write fails; packet 0 is delivered, packet 1 is lost,
packet 7 stays queued; `firstFail` says so. -/
example :
    let x1 := runE true (fun k => k == 1) [.accept] (initE exProg 0 0)
      (exActs ++ [.enq 7, .thr (.user 0)])
    x1.wire = [(0, 0)] ∧ x1.queue = some [7] ∧ x1.tick = 2 ∧ firstFail (fun k => k == 1) 0 3 = 1 ∧
    x1.calls.getLast? = some (.user 0, .disconnect false, .ok) := by decide

/-- REFUTATION (the code before commit 584a461, `guard = false`), same state, same call: the
`IOError` of the first write leaves `disconnect()` — A1 and A4 fail: the caller sees `ioError`, the
socket is still the connected one, the thread is NOT interrupted (only `connected` was cleared). -/
theorem old_disconnect_raises :
    let x1 := runE false allFail [.accept] (initE exProg 0 0) (exActs ++ [.thr (.user 0)])
    x1.calls = [(.user 0, .connect, .ok), (.user 0, .disconnect false, .ioError)] ∧
    x1.sys.socket = .open 0 ∧ x1.sys.connected = false ∧ x1.sys.nt = some 0 ∧
    (x1.sys.net 0).intr = false ∧ x1.queue = some [1] := by decide

/-- … in particular the statement of A1 is false for `guard = false` … -/
theorem old_body_refutes_A1 :
    ¬ ∀ (imm : Bool) (F : Nat → Bool) (x : ESys),
      (x.sys.socket ≠ .none → x.queue.isSome = true) → (disconnectE false imm F x).2 = .ok := by
  intro h
  have := h false allFail (runE false allFail [.accept] (initE exProg 0 0) exActs) (by decide)
  revert this
  decide

/-- … and "always leads to the networking thread terminating" (A6) fails too: after the failed
`disconnect()` the thread is never interrupted; scheduled alone for 60 actions it is still in its
loop, alive, with the socket open. -/
theorem old_disconnect_thread_survives :
    let x2 := runE false allFail [.accept] (initE exProg 0 0)
      (exActs ++ [.thr (.user 0), .thr (.user 0)] ++ List.replicate 60 (.thr (.net 0)))
    (x2.sys.net 0).intr = false ∧ (x2.sys.net 0).pc.alive = true ∧ (x2.sys.net 0).pc.phase = .io ∧
    x2.sys.socket = .open 0 ∧ (x2.sys.usr 0).todo = [] := by decide +kernel

/-- Why the library's own use did not show it: in the reaction to a disconnect packet
(connection.py:829-835) the site catches the `IOError` and calls `disconnect(immediate=True)`; so
even with the old code that path ends cleanly.  (For the current code this fallback is dead code,
`Ends.siteBodyE_guarded`.) -/
example :
    let x := runE false allFail [.disconnects] (initE [[.connect]] 0 0)
      (exActs ++ List.replicate 6 (.thr (.net 0)))
    x.calls.getLast? = some (.net 0, .disconnect false, .ok) ∧ x.sys.socket = .none ∧
    (x.sys.net 0).intr = true := by decide

/-- `disconnect()` on a fresh object (no queue attribute, no socket), after a refused connect
(socket object present, never connected, a packet queued by `write_packet`), and twice in a row:
all return normally with the current code; the second case raised `BrokenPipeError` before. -/
example :
    let x := runE true allFail [.refuse]
      (initE [[.disconnect false, .connect, .disconnect false, .disconnect false]] 0 0)
      ([.thr (.user 0), .thr (.user 0), .thr (.user 0), .thr (.user 0), .enq 5] ++
        List.replicate 4 (.thr (.user 0)))
    x.calls.map (·.2.2) = [.ok, .refused, .ok, .ok] ∧ x.sys.socket = .none ∧ x.queue = some [] :=
  by decide

example :
    let x := runE false allFail [.refuse]
      (initE [[.disconnect false, .connect, .disconnect false]] 0 0)
      ([.thr (.user 0), .thr (.user 0), .thr (.user 0), .thr (.user 0), .enq 5, .thr (.user 0)])
    x.calls.map (·.2.2) = [.ok, .refused, .ioError] ∧ x.sys.socket = .unconnected := by decide

/-- `QInv` is needed by A1: with a socket object but no queue attribute (a state the current code
cannot reach, A3 — it would be reachable if `_connect` created the queue AFTER the socket) the flush
raises `AttributeError`, which the guard does not catch. -/
example :
    (disconnectE true false allFail
      { sys := { init [] 0 0 with socket := .unconnected }, queue := none, wire := [], tick := 0,
        calls := [] }).2 = .otherExc := by decide

/-- Hypotheses of A6, and its weak-fairness part instantiated: thread 0 dies on every weakly fair
schedule. -/
example :
    let x := runE true allFail [.accept] (initE exProg 0 0) exActs
    ∃ x1, stepE true allFail [.accept] x (.thr (.user 0)) = some x1 ∧ x1.sys.nt = some 0 ∧
      ∀ σ, WeakFair [.accept] x1.sys σ →
        ∃ n, ∀ m, n ≤ m → ((runN [.accept] x1.sys σ m).net 0).pc = .dead := by
  intro x
  have hat : atCall x.sys (.user 0) (.disconnect false) := ⟨by decide, _, rfl⟩
  obtain ⟨x1, hx1⟩ := (disconnect_total allFail [.accept] exProg 0 0 exActs (.user 0) false hat).1
    (by decide)
  have hnt : x1.sys.nt = some 0 := by
    rw [((disconnect_total allFail [.accept] exProg 0 0 exActs (.user 0) false hat).2 x1
      hx1).2.2.2.2.1]
    decide
  exact ⟨x1, hx1, hnt,
    (disconnect_leads_to_termination allFail [.accept] exProg 0 0 exActs (.user 0) false hat x1 hx1
      0 (Or.inl hnt)).2⟩

/-! ## Part B — an ended connection is reusable -/

/-- B1 `left_loop_interrupted`: in every reachable state of `Model/Lifecycle.lean`, a networking
thread that has run its own reaction to a disconnect packet (`callRel react`, and the listeners
after it), has left its loop normally (`exit` = `_handle_exit`), is past
`except Exception: self.interrupt = True` (handlers, final block), or is in or after its `finally`
block, has its own `interrupt` flag set. -/
theorem left_loop_interrupted (env : List Beh) (progs : List (List Op)) (rl rh : Nat)
    (sched : List Tid) (i : Nat) :
    let s := run env (init progs rl rh) sched
    over (s.net i).pc = true → (s.net i).intr = true := by
  intro s h
  exact reach_over env progs rl rh sched i h

/-- B2 `own_thread_not_busy`: whenever the networking thread itself is at a point where user code
may call `connect()` — a packet listener after a server disconnect, `_handle_exit`, an exception
handler — and nobody else has queued a successor meanwhile, `_check_connection` passes. -/
theorem own_thread_not_busy (env : List Beh) (progs : List (List Op)) (rl rh : Nat)
    (sched : List Tid) (i : Nat) :
    let s := run env (init progs rl rh) sched
    ((s.net i).pc = .call .listen ∨ (s.net i).pc = .exit ∨ (s.net i).pc = .hRun ∨
      (s.net i).pc = .call .handler) →
    s.newNt = none → s.nt = some i ∧ (s.net i).intr = true ∧ busy s = false := by
  intro s hpc hnew
  have h := reach_inv env progs rl rh sched
  have ho := reach_over env progs rl rh sched
  have hov : over (s.net i).pc = true := by
    rcases hpc with hpc | hpc | hpc | hpc <;> rw [hpc] <;> rfl
  have hn : s.nt = some i := (h.nt_iff i).mpr (by
    rcases hpc with hpc | hpc | hpc | hpc <;> rw [hpc] <;> rfl)
  exact ⟨hn, ho i hov, over_not_busy s ho i hn hov hnew⟩

/-- B3 `reconnect_from_listener_or_handler`: a `connect()` made by the networking thread itself
from a packet listener (after the reaction to a server disconnect) or from an exception handler
(after an error), in ANY reachable state in which nobody else has queued a successor, is NOT refused
with `InvalidState`: it connects afresh.  (No hypothesis about `interrupt`: it is derived.) -/
theorem reconnect_from_listener_or_handler (env : List Beh) (progs : List (List Op))
    (rl rh : Nat) (sched : List Tid) (i : Nat) (site : Site) :
    let s := run env (init progs rl rh) sched
    (s.net i).pc = .call site → site ≠ .react → s.newNt = none →
    ∀ s1, step env s (.net i) = some s1 → ConnectsAfresh env s (.net i) s1 := by
  intro s hpc hsite hnew s1 hs1
  have hop : site.op = .connect := by cases site <;> first | rfl | exact absurd rfl hsite
  have hb := own_thread_not_busy env progs rl rh sched i
    (by cases site
        · exact absurd rfl hsite
        · exact Or.inl hpc
        · exact Or.inr (Or.inr (Or.inr hpc))) hnew
  have key := C16.reusable_after_end env progs rl rh sched (.net i) .connect rfl
    ⟨site, hpc, hop⟩ hnew (fun k hk => by
      have : k = i := by rw [hb.1] at hk; cases hk; rfl
      rw [this]; exact hb.2.1) s1 hs1
  exact key

/-- B4 `ended_after_disconnect`: after the body of a `disconnect(immediate)` executed by ANY thread
in any reachable state — a user's call ("user disconnect") or the networking thread's reaction to a
disconnect packet ("server disconnect") — the connection is `Ended`; it still is when the caller has
released the lock; and unless a successor is queued the object is not busy. -/
theorem ended_after_disconnect (env : List Beh) (progs : List (List Op)) (rl rh : Nat)
    (sched : List Tid) (t : Tid) (imm : Bool) :
    let s := run env (init progs rl rh) sched
    atCall s t (.disconnect imm) → ∀ s1, step env s t = some s1 →
      Ended s1 ∧ (s1.newNt = none → busy s1 = false) ∧
      ∃ s2, step env s1 t = some s2 ∧ s2.owner = none ∧ Ended s2 ∧
        (s2.newNt = none → busy s2 = false) := by
  intro s hat s1 hs1
  have h := reach_inv env progs rl rh sched
  obtain ⟨hp, -, -, -, -, -, -, -, -, he⟩ :=
    (C16.disconnect_total env progs rl rh sched t imm hat).2 s1 hs1
  have he1 : Ended s1 := he
  obtain ⟨s2, hs2, hsh, ho, -, hst, -, -⟩ :=
    release_step env s1 t .ok (Life.step_inv env s s1 t h hs1) hp
  simp only [Sys.shared, Shared.mk.injEq] at hsh
  have he2 : Ended s2 := by
    intro j hj
    rw [hsh.1, hsh.2.1] at hj
    rw [(hst j).1]; exact he1 j hj
  refine ⟨he1, fun hn => by rw [ended_busy s1 he1, hn]; rfl, s2, hs2, ho, he2,
    fun hn => by rw [ended_busy s2 he2, hn]; rfl⟩

/-- B5 `ended_after_error`: when a networking thread that failed (read error, write on a missing
socket, exception from a listener) reaches the final block of `_handle_exception` and no handler
or other thread has started a new connection, that block disconnects: afterwards the socket is
`None`, `connected` is false, the connection is `Ended` and the object is not busy. -/
theorem ended_after_error (env : List Beh) (progs : List (List Op)) (rl rh : Nat)
    (sched : List Tid) (i : Nat) :
    let s := run env (init progs rl rh) sched
    (s.net i).pc = .hChk → s.newNt = none → ∀ s1, step env s (.net i) = some s1 →
      s1.socket = .none ∧ s1.connected = false ∧ Ended s1 ∧ busy s1 = false := by
  intro s hpc hnew s1 hs1
  have h := reach_inv env progs rl rh sched
  have ho := reach_over env progs rl rh sched
  have hn : s.nt = some i := (h.nt_iff i).mpr (by rw [hpc]; rfl)
  have hi : (s.net i).intr = true := ho i (by rw [hpc]; rfl)
  have htg : target s = some i := by simp [target, hnew, hn]
  obtain ⟨-, -, -, hd | hd | hd⟩ := hchk_step env s s1 i hpc hs1
  · obtain ⟨k, hk, -, hsh, hst⟩ := hd
    simp only [Sys.shared, Shared.mk.injEq, discSt] at hsh
    obtain ⟨e1, e2, e3, -, e5, -, -⟩ := hsh
    have he : Ended s1 := by
      intro j hj
      rw [e1, e2, hnew, hn] at hj
      rcases hj with hj | hj
      · cases hj
        rw [(hst i).1]; simp [discSt, dnet, htg]
      · cases hj
    exact ⟨e3, e5, he, by rw [ended_busy s1 he, e2, hnew]; rfl⟩
  · obtain ⟨k, hk, hki, -⟩ := hd
    rw [htg] at hk; cases hk; rw [hi] at hki; cases hki
  · rw [htg] at hd; cases hd.1

/-- B6 `refused_leaves_reusable`: a `connect()` / `status()` whose TCP connect is refused leaves the
object not busy (socket object present but unconnected, no thread created), also after the caller
has released the lock: the next `connect()` is not refused with `InvalidState`. -/
theorem refused_leaves_reusable (env : List Beh) (progs : List (List Op)) (rl rh : Nat)
    (sched : List Tid) (t : Tid) (op : Op) :
    let s := run env (init progs rl rh) sched
    op.isConn = true → atCall s t op → ∀ s1, step env s t = some s1 →
    pendingOut s1 t = some .refused →
      busy s = false ∧ busy s1 = false ∧ s1.socket = .unconnected ∧ s1.nthreads = s.nthreads ∧
      ∃ s2, step env s1 t = some s2 ∧ s2.owner = none ∧ busy s2 = false := by
  intro s hop hat s1 hs1 hp
  have h := reach_inv env progs rl rh sched
  obtain ⟨-, hp', hsh, -, -, hst, -, -, -, -⟩ := call_step env s s1 t op hat hs1
  obtain ⟨sb, ob, hbd⟩ : ∃ sb ob, body env s op = (sb, ob) := ⟨_, _, rfl⟩
  rw [hbd] at hp' hsh hst
  rw [hp] at hp'
  simp only [Option.some.injEq] at hp'
  simp only [Sys.shared, Shared.mk.injEq] at hsh
  obtain ⟨e1, e2, e3, -, -, -, e7⟩ := hsh
  rcases body_cases env s op sb ob hbd with ⟨-, -, -, b2⟩ | ⟨-, hb, -, b1, -⟩ | ⟨-, -, -, -, -, b2⟩ |
    ⟨p, -, -, -, -, -, b2⟩ | ⟨hop', -⟩
  · rw [b2] at hp'; cases hp'
  · subst b1
    have hb1 : busy s1 = false := by
      rw [busy_congr_threads s1 s e1 e2 (fun j => (hst j).1)]; exact hb
    obtain ⟨s2, hs2, hsh2, ho2, -, hst2, -, -⟩ :=
      release_step env s1 t .refused (Life.step_inv env s s1 t h hs1) hp
    simp only [Sys.shared, Shared.mk.injEq] at hsh2
    refine ⟨hb, hb1, e3, e7, s2, hs2, ho2, ?_⟩
    rw [busy_congr_threads s2 s1 hsh2.1 hsh2.2.1 (fun j => (hst2 j).1)]; exact hb1
  · rw [b2] at hp'; cases hp'
  · rw [b2] at hp'; cases hp'
  · rw [hop] at hop'; cases hop'

/-- B7 `ended_reusable_now_or_soon`: in every reachable state in which the connection is `Ended`
(B4, B5) the object is not busy as soon as no successor is queued; and if one is queued (an
interrupted successor waiting for its interrupted predecessor — FINDING 1 of `Props/C16.lean`), some
schedule of at most 47 steps leads to a state that is not busy. -/
theorem ended_reusable_now_or_soon (env : List Beh) (progs : List (List Op)) (rl rh : Nat)
    (sched : List Tid) :
    let s := run env (init progs rl rh) sched
    Ended s → (s.newNt = none → busy s = false) ∧
      ∃ more, more.length ≤ 47 ∧ busy (run env s more) = false := by
  intro s he
  exact ⟨fun hn => by rw [ended_busy s he, hn]; rfl,
    ended_eventually env s (reach_inv env progs rl rh sched) he⟩

/-- B8 `ended_reusable_on_every_fair_schedule`: … and on EVERY weakly fair infinite schedule
(whatever the other threads do meanwhile) a state that is not busy is reached: the hand-over
completes, or somebody's `connect()` found the object free even earlier. -/
theorem ended_reusable_on_every_fair_schedule (env : List Beh) (progs : List (List Op))
    (rl rh : Nat) (sched : List Tid) :
    let s := run env (init progs rl rh) sched
    Ended s → ∀ σ, WeakFair env s σ → ∃ n, busy (runN env s σ n) = false := by
  intro s he σ hf
  exact ended_eventually_fair env progs.length s σ (reach_inv env progs rl rh sched)
    (UB_run env _ sched _ (init_UB progs rl rh)) he hf

/-- B9 `at_rest_reusable`: a reachable state in which no networking thread is alive (all ended,
for whatever reason, or none ever started) has both slots empty and is not busy. -/
theorem at_rest_reusable (env : List Beh) (progs : List (List Op)) (rl rh : Nat)
    (sched : List Tid) :
    let s := run env (init progs rl rh) sched
    (∀ i, (s.net i).pc.alive = false) → s.nt = none ∧ s.newNt = none ∧ busy s = false := by
  intro s hall
  have h := reach_inv env progs rl rh sched
  have h1 : s.nt = none := by
    cases hn : s.nt with
    | none => rfl
    | some i =>
      have := holds_alive _ ((h.nt_iff i).mp hn)
      rw [hall i] at this; cases this
  have h2 : s.newNt = none := by
    cases hn : s.newNt with
    | none => rfl
    | some i =>
      have := waiting_alive _ ((h.new_iff i).mp hn)
      rw [hall i] at this; cases this
  exact ⟨h1, h2, by simp [busy, h1, h2]⟩

/-- B10 `connect_after_end_succeeds`: the link to `C16.reusable_after_end` — in an `Ended` reachable
state without a queued successor, `connect()` / `status()` by any thread connects afresh. -/
theorem connect_after_end_succeeds (env : List Beh) (progs : List (List Op)) (rl rh : Nat)
    (sched : List Tid) (t : Tid) (op : Op) :
    let s := run env (init progs rl rh) sched
    Ended s → s.newNt = none → op.isConn = true → atCall s t op →
    ∀ s1, step env s t = some s1 → ConnectsAfresh env s t s1 := by
  intro s he hnew hop hat s1 hs1
  exact C16.reusable_after_end env progs rl rh sched t op hop hat hnew
    (fun i hi => he i (Or.inl hi)) s1 hs1

/-! ### Non-vacuity and refutation for part B -/

/-- Hypotheses of B2/B3 for an exception HANDLER: the first connection fails, the networking
thread raises, and its handler (budget `rh = 1`) is about to call `connect()`; the call succeeds:
second connection open, thread 1 queued behind thread 0. -/
example :
    let s := run [.fails, .accept] (init [[.connect]] 0 1)
      ([.user 0, .user 0] ++ List.replicate 7 (.net 0))
    (s.net 0).pc = .call .handler ∧ s.newNt = none ∧ busy s = false ∧
    ∃ s1, step [.fails, .accept] s (.net 0) = some s1 ∧ pendingOut s1 (.net 0) = some .ok ∧
      s1.socket = .open 1 ∧ s1.newNt = some 1 :=
  ⟨by decide, by decide, by decide, _, rfl, by decide, by decide, by decide⟩

/-- … for a LISTENER after a server disconnect (budget `rl = 1`). -/
example :
    let s := run [.disconnects, .accept] (init [[.connect]] 1 0)
      ([.user 0, .user 0] ++ List.replicate 7 (.net 0))
    (s.net 0).pc = .call .listen ∧ s.newNt = none ∧ busy s = false := by decide

/-- … and at `_handle_exit` after a user disconnect. -/
example :
    let s := run [] (init [[.connect, .disconnect false]] 0 0)
      ([.user 0, .user 0, .user 0, .user 0, .net 0])
    (s.net 0).pc = .exit ∧ s.newNt = none ∧ busy s = false := by decide

/-- REFUTATION (audit rank 7: delete `self.interrupt = True`, connection.py:607; `Ends.stepNoIntr`
is `Life.step` for that code).  Same scenario as the first example: the thread reaches its handler
with its flag clear, B1/B2 fail (`busy`), and the handler's `connect()` is refused with
`InvalidState` — B3 fails. -/
theorem without_interrupt_handler_cannot_reconnect :
    let s := runNoIntr [.fails, .accept] (init [[.connect]] 0 1)
      ([.user 0, .user 0] ++ List.replicate 7 (.net 0))
    (s.net 0).pc = .call .handler ∧ s.newNt = none ∧ (s.net 0).intr = false ∧ busy s = true ∧
    ∃ s1, stepNoIntr [.fails, .accept] s (.net 0) = some s1 ∧
      pendingOut s1 (.net 0) = some .invalidState ∧ s1.conns = 1 :=
  ⟨by decide, by decide, by decide, by decide, _, rfl, by decide, by decide⟩

/-- Hypotheses of B4 (user disconnect; server disconnect) and of B5 (error). -/
example :
    let s := run [] (init [[.connect, .disconnect false]] 0 0) [.user 0, .user 0]
    atCall s (.user 0) (.disconnect false) :=
  ⟨by decide, _, rfl⟩

example :
    let s := run [.disconnects] (init [[.connect]] 0 0)
      ([.user 0, .user 0] ++ List.replicate 5 (.net 0))
    atCall s (.net 0) (.disconnect false) :=
  ⟨.react, by decide, rfl⟩

example :
    let s := run [.fails] (init [[.connect]] 0 0) ([.user 0, .user 0] ++ List.replicate 7 (.net 0))
    (s.net 0).pc = .hChk ∧ s.newNt = none ∧ s.socket = .open 0 := by decide

/-- Hypotheses of B6: a refused connect. -/
example :
    let s := run [.refuse] (init [[.connect, .connect]] 0 0) []
    atCall s (.user 0) .connect ∧
    ∃ s1, step [.refuse] s (.user 0) = some s1 ∧ pendingOut s1 (.user 0) = some .refused :=
  ⟨⟨by decide, _, rfl⟩, _, rfl, by decide⟩

/-- Hypotheses of B7/B8 with a QUEUED successor (connect, disconnect, connect, disconnect before
the first thread notices): `Ended`, busy now, not busy after thread 0 has died and thread 1 has
taken over. -/
example :
    let s := run [] (init [[.connect, .disconnect false, .connect, .disconnect false]] 0 0)
      (List.replicate 8 (.user 0))
    s.nt = some 0 ∧ s.newNt = some 1 ∧ (s.net 0).intr = true ∧ (s.net 1).intr = true ∧
    busy s = true ∧
    busy (run [] s (List.replicate 5 (.net 0) ++ List.replicate 2 (.net 1))) = false := by decide

/-- Hypothesis of B9: the fresh object; and an object whose only thread has died. -/
example : ∀ i, (((run [] (init [[.connect]] 0 0) []).net i).pc.alive = false) := fun _ => rfl

end PyCraft.C16Ends
