import PyCraft.Lemmas.Versions
import PyCraft.Lemmas.VersionsCheck
import PyCraft.Generated.Versions
/-!
# C08 — Protocol versions are totally ordered by publication; derived tables agree

Every theorem is for ALL record lists `recs` (`KNOWN_MINECRAFT_VERSION_RECORDS`), hence also for a
list extended at run time.  `initKnown recs` is `initglobals(use_known_records=True)`.  "Known
version" means a member of `(initKnown recs).knownProtocols`.

Specification vocabulary (defined in `Lemmas/Versions.lean`, independently of the model's loops):
`dedup` (keep first occurrences), `odFromList` (`OrderedDict(pairs)`), `lastVal` (value of the last
pair with a given key), `recPairs recs` (the `(id, protocol)` pairs), `specTables`.

Only property theorems and non-vacuity examples live here.
-/
namespace PyCraft.C08
open PyCraft

/-- Master statement: all seven tables are the closed-form projections of the record list. -/
theorem tables_are_projections (recs : List Rec) : initKnown recs = specTables recs :=
  initKnown_eq_spec recs

/-- `KNOWN_PROTOCOL_VERSIONS` is the order-preserving duplicate-free projection of the records'
protocol numbers: it equals `dedup`, has no duplicates, has exactly the records' protocol numbers
as members, is a sublist of them, and lists them in order of FIRST occurrence. -/
theorem known_protocols_dedup (recs : List Rec) :
    (initKnown recs).knownProtocols = dedup (recs.map (·.protocol)) ∧
    (initKnown recs).knownProtocols.Nodup ∧
    (∀ p, p ∈ (initKnown recs).knownProtocols ↔ p ∈ recs.map (·.protocol)) ∧
    (initKnown recs).knownProtocols.Sublist (recs.map (·.protocol)) ∧
    (∀ a b, (initKnown recs).knownProtocols.idxOf a < (initKnown recs).knownProtocols.idxOf b ↔
      (recs.map (·.protocol)).idxOf a < (recs.map (·.protocol)).idxOf b) := by
  have h : (initKnown recs).knownProtocols = dedup (recs.map (·.protocol)) := by
    rw [initKnown_eq_spec]; rfl
  rw [h]
  exact ⟨rfl, nodup_dedup _, mem_dedup _, dedup_sublist _, idxOf_dedup_lt _⟩

/-- `KNOWN_MINECRAFT_VERSIONS` is `OrderedDict((r.id, r.protocol) for r in records)`: its keys are
the ids in order of first occurrence without duplicates, and each id maps to the protocol of the
LAST record with that id. -/
theorem known_versions_projection (recs : List Rec) :
    (initKnown recs).knownVersions = odFromList (recPairs recs) ∧
    (initKnown recs).knownVersions.map (·.1) = dedup (recs.map (·.id)) ∧
    (∀ k, odGet (initKnown recs).knownVersions k = lastVal (recPairs recs) k) := by
  have h : (initKnown recs).knownVersions = odFromList (recPairs recs) := by
    rw [initKnown_eq_spec]; rfl
  rw [h]
  refine ⟨rfl, ?_, odGet_odFromList _⟩
  rw [odFromList_keys, recPairs, List.map_map]; rfl

/-- `PROTOCOL_VERSION_INDICES` maps each known protocol number to its position in
`KNOWN_PROTOCOL_VERSIONS` and nothing else: the table is literally the list zipped with positions,
`index pv = some i` iff `pv` is the `i`-th known version, unknown numbers have no index
(`KeyError`), and the index is injective. -/
theorem indices_spec (recs : List Rec) :
    (initKnown recs).indices = (initKnown recs).knownProtocols.zipIdx ∧
    (∀ pv i, index (initKnown recs) pv = some i ↔ (initKnown recs).knownProtocols[i]? = some pv) ∧
    (∀ pv, index (initKnown recs) pv = none ↔ pv ∉ (initKnown recs).knownProtocols) ∧
    (∀ a b i, index (initKnown recs) a = some i → index (initKnown recs) b = some i → a = b) := by
  have hspec : ∀ pv i, index (initKnown recs) pv = some i ↔
      (initKnown recs).knownProtocols[i]? = some pv := by
    intro pv i
    rw [index_spec, getElem?_eq_some_iff_idxOf _ (knownProtocols_nodup recs)]
    by_cases h : pv ∈ (initKnown recs).knownProtocols <;> simp [h]
  refine ⟨by rw [initKnown_eq_spec]; rfl, hspec, ?_, ?_⟩
  · intro pv
    rw [index_spec]
    by_cases h : pv ∈ (initKnown recs).knownProtocols <;> simp [h]
  · intro a b i ha hb
    have h1 := (hspec a i).1 ha
    have h2 := (hspec b i).1 hb
    rw [h1] at h2
    exact Option.some.inj h2

/-- On known versions `protocol_earlier` is a strict total order that coincides with position:
comparing the `i`-th and `j`-th known version answers `i < j`; it is irreflexive, transitive and
trichotomous (exactly one of `a` earlier `b`, `a = b`, `b` earlier `a`); it agrees with the order
of first occurrence in the record list; and it raises (`KeyError`) exactly when an argument is
unknown. -/
theorem order_strict_total (recs : List Rec) :
    (∀ i j (hi : i < (initKnown recs).knownProtocols.length)
        (hj : j < (initKnown recs).knownProtocols.length),
      earlier (initKnown recs) (initKnown recs).knownProtocols[i]
        (initKnown recs).knownProtocols[j] = .ok (decide (i < j))) ∧
    (∀ a ∈ (initKnown recs).knownProtocols, earlier (initKnown recs) a a = .ok false) ∧
    (∀ a ∈ (initKnown recs).knownProtocols, ∀ b ∈ (initKnown recs).knownProtocols,
      ∀ c ∈ (initKnown recs).knownProtocols,
      earlier (initKnown recs) a b = .ok true → earlier (initKnown recs) b c = .ok true →
      earlier (initKnown recs) a c = .ok true) ∧
    (∀ a ∈ (initKnown recs).knownProtocols, ∀ b ∈ (initKnown recs).knownProtocols,
      (earlier (initKnown recs) a b = .ok true ∧ a ≠ b ∧ earlier (initKnown recs) b a = .ok false) ∨
      (earlier (initKnown recs) a b = .ok false ∧ a = b ∧ earlier (initKnown recs) b a = .ok false) ∨
      (earlier (initKnown recs) a b = .ok false ∧ a ≠ b ∧ earlier (initKnown recs) b a = .ok true)) ∧
    (∀ a ∈ (initKnown recs).knownProtocols, ∀ b ∈ (initKnown recs).knownProtocols,
      earlier (initKnown recs) a b
        = .ok (decide ((recs.map (·.protocol)).idxOf a < (recs.map (·.protocol)).idxOf b))) ∧
    (∀ a b, earlier (initKnown recs) a b = .error .other ↔
      (a ∉ (initKnown recs).knownProtocols ∨ b ∉ (initKnown recs).knownProtocols)) := by
  have hE : ∀ a ∈ (initKnown recs).knownProtocols, ∀ b ∈ (initKnown recs).knownProtocols,
      earlier (initKnown recs) a b = .ok (decide ((initKnown recs).knownProtocols.idxOf a
        < (initKnown recs).knownProtocols.idxOf b)) :=
    fun a ha b hb => earlier_ok _ a b _ _ (indexE_known recs a ha) (indexE_known recs b hb)
  have hnd := knownProtocols_nodup recs
  have hinj : ∀ a ∈ (initKnown recs).knownProtocols, ∀ b ∈ (initKnown recs).knownProtocols,
      (initKnown recs).knownProtocols.idxOf a = (initKnown recs).knownProtocols.idxOf b → a = b := by
    intro a ha b hb e
    have h1 := (getElem?_eq_some_iff_idxOf _ hnd ((initKnown recs).knownProtocols.idxOf a) a).2
      ⟨ha, rfl⟩
    have h2 := (getElem?_eq_some_iff_idxOf _ hnd ((initKnown recs).knownProtocols.idxOf a) b).2
      ⟨hb, e.symm⟩
    rw [h1] at h2
    exact Option.some.inj h2
  refine ⟨?_, ?_, ?_, ?_, ?_, ?_⟩
  · intro i j hi hj
    rw [hE _ (List.getElem_mem hi) _ (List.getElem_mem hj),
      idxOf_getElem_of_nodup _ hnd i hi, idxOf_getElem_of_nodup _ hnd j hj]
  · intro a ha
    rw [hE a ha a ha]; simp
  · intro a ha b hb c hc
    rw [hE a ha b hb, hE b hb c hc, hE a ha c hc]
    simp only [Except.ok.injEq, decide_eq_true_eq]
    omega
  · intro a ha b hb
    rw [hE a ha b hb, hE b hb a ha]
    have := hinj a ha b hb
    simp only [Except.ok.injEq, decide_eq_true_eq, decide_eq_false_iff_not, ne_eq]
    by_cases hab : a = b
    · subst hab; simp
    · have hne : (initKnown recs).knownProtocols.idxOf a ≠ (initKnown recs).knownProtocols.idxOf b :=
        fun e => hab (this e)
      simp only [hab, not_false_eq_true, false_and, and_false, true_and, false_or]
      omega
  · intro a ha b hb
    rw [hE a ha b hb]
    congr 1
    exact decide_eq_decide.2 ((known_protocols_dedup recs).2.2.2.2 a b)
  · intro a b
    by_cases ha : a ∈ (initKnown recs).knownProtocols
    · by_cases hb : b ∈ (initKnown recs).knownProtocols
      · rw [hE a ha b hb]; simp [ha, hb]
      · simp [(earlier_err_right _ a b (indexE_unknown recs b hb)).1, hb]
    · simp [(earlier_err_left _ a b (indexE_unknown recs a ha)).1, ha]

/-- The five `ConnectionContext` predicates are expressed through the one order, as equalities of
results (value or `KeyError`) for ALL arguments:
`earlier_eq a b` = `earlier a b or a == b`; `later a b` = `earlier b a`;
`later_eq a b` = `not earlier a b`; and `in_range v s e` is true exactly when `later_eq v s` and
`earlier v e` are both true.  When all three arguments are known, `in_range` equals the
conjunction outright. -/
theorem predicates_consistent (recs : List Rec) (a b : Nat) :
    earlierEq (initKnown recs) a b
      = (earlier (initKnown recs) a b).map (fun x => x || decide (a = b)) ∧
    later (initKnown recs) a b = earlier (initKnown recs) b a ∧
    laterEq (initKnown recs) a b = (earlier (initKnown recs) a b).map (fun x => !x) ∧
    (∀ v s e, inRange (initKnown recs) v s e = .ok true ↔
      (laterEq (initKnown recs) v s = .ok true ∧ earlier (initKnown recs) v e = .ok true)) ∧
    (∀ v ∈ (initKnown recs).knownProtocols, ∀ s ∈ (initKnown recs).knownProtocols,
      ∀ e ∈ (initKnown recs).knownProtocols,
      inRange (initKnown recs) v s e
        = (do let l ← laterEq (initKnown recs) v s
              let r ← earlier (initKnown recs) v e
              pure (l && r))) := by
  refine ⟨?_, rfl, ?_, ?_, ?_⟩
  · by_cases ha : a ∈ (initKnown recs).knownProtocols
    · by_cases hb : b ∈ (initKnown recs).knownProtocols
      · rw [earlier_ok _ a b _ _ (indexE_known recs a ha) (indexE_known recs b hb),
          earlierEq_ok _ a b _ _ (indexE_known recs a ha) (indexE_known recs b hb)]
        simp only [Except.map, Except.ok.injEq]
        have h1 := (getElem?_eq_some_iff_idxOf _ (knownProtocols_nodup recs)
          ((initKnown recs).knownProtocols.idxOf a) a).2 ⟨ha, rfl⟩
        by_cases hab : a = b
        · subst hab; simp
        · have hne : (initKnown recs).knownProtocols.idxOf a
              ≠ (initKnown recs).knownProtocols.idxOf b := by
            intro e
            have h2 := (getElem?_eq_some_iff_idxOf _ (knownProtocols_nodup recs)
              ((initKnown recs).knownProtocols.idxOf a) b).2 ⟨hb, e.symm⟩
            rw [h1] at h2
            exact hab (Option.some.inj h2)
          simp only [hab, decide_false, Bool.or_false, decide_eq_decide]
          omega
      · have := earlier_err_right _ a b (indexE_unknown recs b hb)
        rw [this.1, this.2]; rfl
    · have := earlier_err_left _ a b (indexE_unknown recs a ha)
      rw [this.1, this.2]; rfl
  · show earlierEq (initKnown recs) b a = _
    rcases indexE_cases (initKnown recs) a with ⟨i, ha⟩ | ha
    · rcases indexE_cases (initKnown recs) b with ⟨j, hb⟩ | hb
      · rw [earlier_ok _ a b i j ha hb, earlierEq_ok _ b a j i hb ha]
        simp only [Except.map, Except.ok.injEq]
        by_cases h : i < j <;> simp [h] <;> omega
      · rw [(earlier_err_right _ a b hb).1, (earlier_err_left _ b a hb).2]; rfl
    · rw [(earlier_err_left _ a b ha).1, (earlier_err_right _ b a ha).2]; rfl
  · intro v s e
    show _ ↔ (earlierEq (initKnown recs) s v = .ok true ∧ _)
    unfold inRange
    cases h : earlier (initKnown recs) v e with
    | error x => simp [bind, Except.bind]
    | ok r => cases r <;> simp [bind, Except.bind, pure, Except.pure]
  · intro v hv s hs e he
    show _ = (do let l ← earlierEq (initKnown recs) s v; let r ← earlier (initKnown recs) v e
                 pure (l && r))
    unfold inRange
    rw [earlier_ok _ v e _ _ (indexE_known recs v hv) (indexE_known recs e he),
      earlierEq_ok _ s v _ _ (indexE_known recs s hs) (indexE_known recs v hv)]
    simp only [bind, Except.bind, pure, Except.pure]
    split <;> simp_all

/-- Python's `and` short-circuits in `protocol_in_range`: with `v` and `end` known and `v` NOT
earlier than `end`, the answer is `False` even if `start` is unknown (no `KeyError`), whereas with
`v` earlier than `end` an unknown `start` raises. -/
theorem in_range_short_circuit (recs : List Rec) (v s e : Nat)
    (hs : s ∉ (initKnown recs).knownProtocols) :
    (earlier (initKnown recs) v e = .ok false → inRange (initKnown recs) v s e = .ok false) ∧
    (earlier (initKnown recs) v e = .ok true → inRange (initKnown recs) v s e = .error .other) := by
  constructor
  · intro h; simp [inRange, h, bind, Except.bind, pure, Except.pure]
  · intro h
    simp only [inRange, h, bind, Except.bind, if_true]
    exact (earlier_err_left _ s v (indexE_unknown recs s hs)).2

/-- `SUPPORTED_MINECRAFT_VERSIONS` is the ordered dict of the `(id, protocol)` pairs of the
supported records (keys in order of first insertion, no duplicate keys, LAST protocol wins for a
repeated id); `SUPPORTED_PROTOCOL_VERSIONS` is the duplicate-free projection of its values in
order; every supported protocol is known and every supported id is a known id. -/
theorem supported_projection (recs : List Rec) :
    (initKnown recs).supportedVersions = odFromList (recPairs (recs.filter (·.supported))) ∧
    (initKnown recs).supportedVersions.map (·.1)
      = dedup ((recs.filter (·.supported)).map (·.id)) ∧
    (∀ k v, (k, v) ∈ (initKnown recs).supportedVersions ↔
      lastVal (recPairs (recs.filter (·.supported))) k = some v) ∧
    (initKnown recs).supportedProtocols
      = dedup ((initKnown recs).supportedVersions.map (·.2)) ∧
    (∀ p ∈ (initKnown recs).supportedProtocols, p ∈ (initKnown recs).knownProtocols) ∧
    (∀ k ∈ (initKnown recs).supportedVersions.map (·.1),
      k ∈ (initKnown recs).knownVersions.map (·.1)) := by
  have hsv : (initKnown recs).supportedVersions
      = odFromList (recPairs (recs.filter (·.supported))) := by rw [initKnown_eq_spec]; rfl
  have hsp : (initKnown recs).supportedProtocols
      = dedup ((initKnown recs).supportedVersions.map (·.2)) := by rw [initKnown_eq_spec]; rfl
  have hkeys : (initKnown recs).supportedVersions.map (·.1)
      = dedup ((recs.filter (·.supported)).map (·.id)) := by
    rw [hsv, odFromList_keys, recPairs, List.map_map]; rfl
  refine ⟨hsv, hkeys, ?_, hsp, ?_, ?_⟩
  · intro k v
    rw [hsv, mem_iff_odGet _ (odFromList_keys_nodup _), odGet_odFromList]
  · intro p hp
    rw [hsp, mem_dedup, hsv] at hp
    obtain ⟨e, he, rfl⟩ := List.mem_map.1 hp
    have := mem_odFromList _ _ he
    obtain ⟨r, hr, rfl⟩ := List.mem_map.1 this
    rw [(known_protocols_dedup recs).2.2.1]
    exact List.mem_map.2 ⟨r, (List.mem_filter.1 hr).1, rfl⟩
  · intro k hk
    rw [hkeys, mem_dedup] at hk
    obtain ⟨r, hr, rfl⟩ := List.mem_map.1 hk
    rw [(known_versions_projection recs).2.1, mem_dedup]
    exact List.mem_map.2 ⟨r, (List.mem_filter.1 hr).1, rfl⟩

/-- `RELEASE_MINECRAFT_VERSIONS` is `SUPPORTED_MINECRAFT_VERSIONS` filtered by the release-name
pattern (same order, same values); `RELEASE_PROTOCOL_VERSIONS` is the duplicate-free projection of
its values in order; every release protocol is a supported protocol. -/
theorem release_projection (recs : List Rec) :
    (initKnown recs).releaseVersions
      = (initKnown recs).supportedVersions.filter (fun e => isRelease e.1) ∧
    (∀ k v, (k, v) ∈ (initKnown recs).releaseVersions ↔
      ((k, v) ∈ (initKnown recs).supportedVersions ∧ isRelease k = true)) ∧
    (initKnown recs).releaseVersions.Sublist (initKnown recs).supportedVersions ∧
    (initKnown recs).releaseProtocols = dedup ((initKnown recs).releaseVersions.map (·.2)) ∧
    (∀ p ∈ (initKnown recs).releaseProtocols, p ∈ (initKnown recs).supportedProtocols) := by
  have hrv : (initKnown recs).releaseVersions
      = (initKnown recs).supportedVersions.filter (fun e => isRelease e.1) := by
    rw [initKnown_eq_spec]; rfl
  have hrp : (initKnown recs).releaseProtocols
      = dedup ((initKnown recs).releaseVersions.map (·.2)) := by rw [initKnown_eq_spec]; rfl
  refine ⟨hrv, ?_, ?_, hrp, ?_⟩
  · intro k v; rw [hrv, List.mem_filter]
  · rw [hrv]; exact List.filter_sublist
  · intro p hp
    rw [hrp, mem_dedup, hrv] at hp
    obtain ⟨e, he, rfl⟩ := List.mem_map.1 hp
    rw [(supported_projection recs).2.2.2.1, mem_dedup]
    exact List.mem_map.2 ⟨e, (List.mem_filter.1 he).1, rfl⟩

/-- The backward-compatible mode `initglobals()` run on ANY state `t` after the user has replaced
`SUPPORTED_MINECRAFT_VERSIONS` by a dict `sv` (distinct keys): the known tables and the index map
are untouched and the three dependent tables are the projections of `sv`. -/
theorem supported_only_projection (t : Tables) (sv : List (String × Nat))
    (hsv : (sv.map (·.1)).Nodup) :
    initSupportedOnly t sv =
      { knownVersions := t.knownVersions
        knownProtocols := t.knownProtocols
        supportedVersions := sv
        indices := t.indices
        supportedProtocols := dedup (sv.map (·.2))
        releaseVersions := sv.filter (fun e => isRelease e.1)
        releaseProtocols := dedup ((sv.filter (fun e => isRelease e.1)).map (·.2)) } := by
  unfold initSupportedOnly
  rw [rebuildSupported_eq]
  simp only [odFromList_of_nodup _ (filter_keys_nodup sv _ hsv)]

/-- Re-initialising is idempotent: `initglobals(True)` ignores the previous contents of the
globals, so running it again on its own output (or on anything else) gives the same tables; and
`initglobals(False)` run on that output changes nothing. -/
theorem init_idempotent (recs : List Rec) :
    (∀ prev, initKnownFrom prev recs = initKnown recs) ∧
    initglobals true recs (initKnown recs) = initKnown recs ∧
    initglobals false recs (initKnown recs) = initKnown recs ∧
    initSupportedOnly (initKnown recs) (initKnown recs).supportedVersions = initKnown recs := by
  have h1 : ∀ prev, initKnownFrom prev recs = initKnown recs := fun prev => by
    rw [initKnownFrom_eq_spec, initKnown_eq_spec]
  have h2 : initSupportedOnly (initKnown recs) (initKnown recs).supportedVersions
      = initKnown recs := by
    rw [supported_only_projection _ _ (by
      rw [(supported_projection recs).1]; exact odFromList_keys_nodup _)]
    rw [initKnown_eq_spec]; rfl
  exact ⟨h1, h1 _, h2, h2⟩

/-- Run-time extension, part 1: after appending records and re-running `initglobals(True)` on the
live state, every law above holds for the extended list (they are quantified over all lists; this
is the explicit instantiation). -/
theorem extend_then_init (recs ext : List Rec) :
    initglobals true (recs ++ ext) (initKnown recs) = initKnown (recs ++ ext) ∧
    initKnown (recs ++ ext) = specTables (recs ++ ext) ∧
    type_of% (known_protocols_dedup (recs ++ ext)) ∧
    type_of% (known_versions_projection (recs ++ ext)) ∧
    type_of% (indices_spec (recs ++ ext)) ∧
    type_of% (order_strict_total (recs ++ ext)) ∧
    (∀ a b, type_of% (predicates_consistent (recs ++ ext) a b)) ∧
    type_of% (supported_projection (recs ++ ext)) ∧
    type_of% (release_projection (recs ++ ext)) ∧
    type_of% (init_idempotent (recs ++ ext)) :=
  ⟨(init_idempotent (recs ++ ext)).1 _, tables_are_projections _, known_protocols_dedup _,
    known_versions_projection _, indices_spec _, order_strict_total _,
    fun a b => predicates_consistent _ a b, supported_projection _, release_projection _,
    init_idempotent _⟩

/-- Run-time extension, part 2 (monotonicity): appending records never disturbs what was there.
The old known-protocol list is a prefix of the new one, every old index is unchanged, all
comparisons between previously known versions give the same answers, and the old id lists (known
and supported) are prefixes of the new ones. -/
theorem extend_monotone (recs ext : List Rec) :
    (initKnown recs).knownProtocols <+: (initKnown (recs ++ ext)).knownProtocols ∧
    (∀ pv i, index (initKnown recs) pv = some i → index (initKnown (recs ++ ext)) pv = some i) ∧
    (∀ a ∈ (initKnown recs).knownProtocols, ∀ b ∈ (initKnown recs).knownProtocols,
      earlier (initKnown (recs ++ ext)) a b = earlier (initKnown recs) a b ∧
      earlierEq (initKnown (recs ++ ext)) a b = earlierEq (initKnown recs) a b) ∧
    (∀ v ∈ (initKnown recs).knownProtocols, ∀ s ∈ (initKnown recs).knownProtocols,
      ∀ e ∈ (initKnown recs).knownProtocols,
      inRange (initKnown (recs ++ ext)) v s e = inRange (initKnown recs) v s e) ∧
    (initKnown recs).knownVersions.map (·.1) <+: (initKnown (recs ++ ext)).knownVersions.map (·.1) ∧
    (initKnown recs).supportedVersions.map (·.1)
      <+: (initKnown (recs ++ ext)).supportedVersions.map (·.1) := by
  have hpre : (initKnown recs).knownProtocols <+: (initKnown (recs ++ ext)).knownProtocols := by
    rw [(known_protocols_dedup recs).1, (known_protocols_dedup (recs ++ ext)).1, List.map_append]
    exact dedup_prefix_append _ _
  have hidx : ∀ pv i, index (initKnown recs) pv = some i →
      index (initKnown (recs ++ ext)) pv = some i := by
    intro pv i h
    rw [(indices_spec _).2.1] at h ⊢
    obtain ⟨l, hl⟩ := hpre
    rw [← hl, List.getElem?_append_left (by
      rcases List.getElem?_eq_some_iff.1 h with ⟨hi, _⟩; exact hi)]
    exact h
  have hE : ∀ a ∈ (initKnown recs).knownProtocols,
      indexE (initKnown (recs ++ ext)) a = indexE (initKnown recs) a := by
    intro a ha
    have h1 : index (initKnown recs) a = some ((initKnown recs).knownProtocols.idxOf a) := by
      rw [index_spec, if_pos ha]
    unfold indexE
    rw [hidx a _ h1, h1]
  have hcmp : ∀ a ∈ (initKnown recs).knownProtocols, ∀ b ∈ (initKnown recs).knownProtocols,
      earlier (initKnown (recs ++ ext)) a b = earlier (initKnown recs) a b ∧
      earlierEq (initKnown (recs ++ ext)) a b = earlierEq (initKnown recs) a b := by
    intro a ha b hb
    simp only [earlier, earlierEq, hE a ha, hE b hb, and_self]
  refine ⟨hpre, hidx, hcmp, ?_, ?_, ?_⟩
  · intro v hv s hs e he
    simp only [inRange, (hcmp v hv e he).1, (hcmp s hs v hv).2]
  · rw [(known_versions_projection recs).2.1, (known_versions_projection (recs ++ ext)).2.1,
      List.map_append]
    exact dedup_prefix_append _ _
  · rw [(supported_projection recs).2.1, (supported_projection (recs ++ ext)).2.1,
      List.filter_append, List.map_append]
    exact dedup_prefix_append _ _

/-! ### The release-name recogniser on sample ids -/

example : isRelease "1.18.1" = true ∧ isRelease "1.7" = true ∧ isRelease "1.18\n" = true := by
  decide +kernel
example : isRelease "1" = false ∧ isRelease "1." = false ∧ isRelease ".1" = false ∧
    isRelease "1..2" = false ∧ isRelease "" = false ∧ isRelease "21w44a" = false ∧
    isRelease "1.18-rc4" = false ∧ isRelease "1.18\n\n" = false ∧ isRelease "1.18 " = false ∧
    isRelease "\n" = false ∧ isRelease "1.1\n8" = false := by decide +kernel

/-! ### Non-vacuity: a concrete record list with a duplicate protocol (`757`), a repeated id
(`"1.18"`: first supported with protocol 757, later re-listed unsupported with protocol 758),
supported and unsupported records, release and snapshot ids. -/

def sample : List Rec :=
  [⟨"1.17", 755, true⟩, ⟨"21w44a", 1073741872, false⟩, ⟨"1.18-rc4", 1073741884, true⟩,
   ⟨"1.18", 757, true⟩, ⟨"1.18.1", 757, true⟩, ⟨"1.18", 758, false⟩, ⟨"1.17", 756, true⟩]

example : initKnown sample =
    { knownVersions := [("1.17", 756), ("21w44a", 1073741872), ("1.18-rc4", 1073741884),
                        ("1.18", 758), ("1.18.1", 757)]
      knownProtocols := [755, 1073741872, 1073741884, 757, 758, 756]
      supportedVersions := [("1.17", 756), ("1.18-rc4", 1073741884), ("1.18", 757), ("1.18.1", 757)]
      indices := [(755, 0), (1073741872, 1), (1073741884, 2), (757, 3), (758, 4), (756, 5)]
      supportedProtocols := [756, 1073741884, 757]
      releaseVersions := [("1.17", 756), ("1.18", 757), ("1.18.1", 757)]
      releaseProtocols := [756, 757] } := by decide +kernel

-- the order is by position, not by number: the snapshot 2^30+48 is earlier than release 757
example : earlier (initKnown sample) 1073741872 757 = .ok true ∧
    earlier (initKnown sample) 757 1073741872 = .ok false ∧
    earlier (initKnown sample) 757 757 = .ok false ∧
    earlierEq (initKnown sample) 757 757 = .ok true ∧
    later (initKnown sample) 758 757 = .ok true ∧
    laterEq (initKnown sample) 755 757 = .ok false ∧
    inRange (initKnown sample) 757 1073741872 758 = .ok true ∧
    inRange (initKnown sample) 758 1073741872 758 = .ok false ∧
    earlier (initKnown sample) 757 999 = .error .other ∧
    inRange (initKnown sample) 758 999 757 = .ok false ∧
    inRange (initKnown sample) 755 999 757 = .error .other := by decide +kernel

-- hypotheses of the "known version" clauses are satisfiable
example : 757 ∈ (initKnown sample).knownProtocols ∧ 999 ∉ (initKnown sample).knownProtocols := by
  decide +kernel

-- a repeated id can make the supported table disagree with the known table on that id's protocol
-- (supported keeps 757 from the supported record, known has 758 from the later unsupported one)
example : odGet (initKnown sample).supportedVersions "1.18" = some 757 ∧
    odGet (initKnown sample).knownVersions "1.18" = some 758 := by decide +kernel

-- extension at run time: new records appended, old indices unchanged, new version is latest
example : index (initKnown (sample ++ [⟨"1.19", 759, true⟩])) 759 = some 6 ∧
    index (initKnown (sample ++ [⟨"1.19", 759, true⟩])) 757 = index (initKnown sample) 757 := by
  decide +kernel

-- backward-compatible mode with a user-edited supported dict
example : (initSupportedOnly (initKnown sample) [("1.19", 759), ("22w11a", 1073741900)]).releaseProtocols
    = [759] ∧
    (initSupportedOnly (initKnown sample) [("1.19", 759)]).knownProtocols
      = (initKnown sample).knownProtocols := by decide +kernel

/-! ### Instantiation on the live data

`PyCraft/Generated/Versions.lean` (written by the translator) defines `liveRecords : List Rec` and
`liveTables : Tables` from the running Python module.  The theorem below then states that the model
applied to the live records reproduces the live tables.  `decide +kernel` on the statement itself
works but takes minutes for 450 records (string comparison is slow in the kernel), so the proof
goes through the verified checker `checkTables` (`Lemmas/VersionsCheck.lean`), about 10 s:

```
import PyCraft.Props.C08
import PyCraft.Generated.Versions
theorem PyCraft.C08.model_eq_live : initKnown liveRecords = liveTables :=
  checkTables_sound liveRecords liveTables (by decide +kernel)
-- slow alternative (≈ 4 min): `:= by decide +kernel`
```
-/

/-- The model applied to the live version records reproduces the live module-level tables (known,
supported, release names and numbers and the index map): a kernel-checked correspondence on the real
data, re-established on every run from the regenerated `Generated/Versions.lean`. -/
theorem model_eq_live : initKnown liveRecords = liveTables :=
  checkTables_sound liveRecords liveTables (by decide +kernel)

/-- Ordinary protocol numbers (without the 2^30 pre-release bit) appear in the chronological list in
strictly increasing numeric order. -/
theorem ordinary_numbers_monotone :
    (liveTables.knownProtocols.filter (· < 2 ^ 30)).Pairwise (· < ·) := by decide +kernel

/-- Pre-release numbers (2^30 bit set) are ordered by the list (publication) — and, on the live
data, their low parts increase as well. -/
theorem pre_numbers_monotone :
    (liveTables.knownProtocols.filter (2 ^ 30 ≤ ·)).Pairwise (· < ·) := by decide +kernel

/-- The supported protocol list is in chronological order: its ranks are strictly increasing. -/
theorem supported_sorted_by_index :
    (liveTables.supportedProtocols.map fun v => (liveTables.knownProtocols.idxOf v)).Pairwise (· < ·) := by
  decide +kernel

example : liveRecords.length ≥ 400 ∧ liveTables.knownProtocols.length ≥ 300 := by decide +kernel

end PyCraft.C08
