import PyCraft.Lemmas.TypedStream
import PyCraft.Props.C01
import PyCraft.Props.C05
/-!
# C01 ∘ C05 — packets with typed fields through the framed stream

`Props/C05.lean` proves that a packet body (any admissible layout, in-domain values, the library's
custom codecs) is read back exactly from its own bytes; `Props/C01.lean` proves that a sequence of
frames `(id, field bytes)` survives any threshold, cipher and read segmentation.  Here they are
COMPOSED (`Model/TypedStream.lean`): `Packet.write` end to end (`writeTyped` = id + `write_fields`
+ `_write_buffer`), any number of packets concatenated (`writeTypedAll`), the stream cut
arbitrarily, `read_packet` in a loop, then `packet.read` of each delivered payload with the packet's
definition (`readTyped`; `readDispatch` looks the definition up by the packet id).

The guard `TypedOK z thr p` (decidable) says: `p.layout.ok`, `WellTypedFields realDom p.layout p.vals`
and C01's `FrameOK` for `(p.id, field bytes)`.  A result `(id, .ok (vals, []))` means: the packet
with that id was delivered, its `read` returned `vals` and consumed the payload EXACTLY.

Only property theorems and non-vacuity examples live here; helper lemmas are in
`Lemmas/TypedStream.lean`.
-/
namespace PyCraft.C05Stream
open PyCraft

/-- One packet: under the guard, `Packet.write` succeeds and produces the frame of
`(id, write_fields bytes)`; followed by ANYTHING (`more`) and cut arbitrarily, `read_packet`
delivers `(id, payload)`, leaves exactly `more` unread, and `packet.read(payload)` returns exactly
the values with nothing of the payload left. -/
theorem typed_packet_roundtrip (z : Zlib) (thr : Option Int) (p : TPacket)
    (hok : TypedOK z.toZlibOps thr p) (more : Bytes) :
    ∃ fields, encodeFields realCustom p.layout p.vals = .ok fields ∧
      writeTyped realCustom z.toZlibOps thr p = .ok (packetFrame z.toZlibOps thr (p.id, fields)) ∧
      decodeFields realCustom p.layout fields = .ok (p.vals, []) ∧
      ∀ segs : Segs, segs.flatten = packetFrame z.toZlibOps thr (p.id, fields) ++ more →
        ∃ s', readPacket z.toZlibOps thr.isSome segs = .ok ((p.id, fields), s') ∧
          s'.flatten = more := by
  obtain ⟨fields, hf, -, hd⟩ := C05.layout_rt_real p.layout p.vals hok.1 hok.2.1
  have hfr : FrameOK z.toZlibOps thr (p.id, fields) := by
    have := hok.2.2; rw [hf] at this; exact this
  refine ⟨fields, hf, ?_, hd, fun segs hseg => ?_⟩
  · rw [writeTyped_of_ok realCustom _ thr p fields hf, rawOf_of_ok realCustom p fields hf]
  · exact C01.unknown_id_skipped z thr p.id fields more hfr segs hseg

/-- A whole conversation.  For ANY list of packets `(id, layout, values)` passing the guard — any
layouts (user-defined ones included), any nesting of arrays, ids may repeat — for any zlib, any
threshold: writing all of them succeeds; and for ANY segmentation of the concatenated frames the
reader delivers exactly as many packets as were written, then end-of-stream, and decoding the `i`-th
payload with the `i`-th layout returns exactly the `i`-th values, each payload consumed exactly
(nothing left, nothing leaking into the next packet). -/
theorem typed_packet_stream_roundtrip (z : Zlib) (thr : Option Int) (ps : List TPacket)
    (hok : ∀ p ∈ ps, TypedOK z.toZlibOps thr p) :
    ∃ stream, writeTypedAll realCustom z.toZlibOps thr ps = .ok stream ∧
      ∀ segs : Segs, segs.flatten = stream →
        (readAll z.toZlibOps thr.isSome segs).1.length = ps.length ∧
        (readAll z.toZlibOps thr.isSome segs).1.map Prod.fst = ps.map (·.id) ∧
        readTyped realCustom z.toZlibOps thr.isSome (ps.map (·.layout)) segs =
          (ps.map fun p => (p.id, .ok (p.vals, [])), .eof) := by
  have hf := fun p hp => typedOK_facts z.toZlibOps thr p (hok p hp)
  refine ⟨_, writeTypedAll_of_ok realCustom z.toZlibOps thr ps (fun p hp => ⟨_, (hf p hp).1⟩),
    fun segs hseg => ?_⟩
  have hr := C01.roundtrip_stream z thr (ps.map (rawOf realCustom))
    (fun q hq => by obtain ⟨p, hp, rfl⟩ := List.mem_map.mp hq; exact (hf p hp).2.2) segs hseg
  refine ⟨by rw [hr]; simp, by rw [hr]; simp [rawOf, Function.comp_def], ?_⟩
  simp only [readTyped, hr]
  rw [zipWith_decodeTyped realCustom ps (fun p hp => (hf p hp).2.1)]

/-- The same through any cipher pair: the concatenated frames are cut into `send` calls in ANY way
(`sends`), each goes through `encryptor.update` from context `s0`; the cipher text arrives in ANY
segmentation and is decrypted `read` call by `read` call from the same `s0`; then as above. -/
theorem typed_packet_stream_roundtrip_encrypted {σ : Type} (cp : CipherPair σ) (s0 : σ) (z : Zlib)
    (thr : Option Int) (ps : List TPacket) (hok : ∀ p ∈ ps, TypedOK z.toZlibOps thr p) :
    ∃ stream, writeTypedAll realCustom z.toZlibOps thr ps = .ok stream ∧
      ∀ (sends : List Bytes) (segs : Segs), sends.flatten = stream →
        segs.flatten = (encSends cp.enc s0 sends).2.flatten →
        (readAllEnc cp.dec s0 z.toZlibOps thr.isSome segs).1.length = ps.length ∧
        readTypedEnc realCustom cp.dec s0 z.toZlibOps thr.isSome (ps.map (·.layout)) segs =
          (ps.map fun p => (p.id, .ok (p.vals, [])), .eof) := by
  have hf := fun p hp => typedOK_facts z.toZlibOps thr p (hok p hp)
  refine ⟨_, writeTypedAll_of_ok realCustom z.toZlibOps thr ps (fun p hp => ⟨_, (hf p hp).1⟩),
    fun sends segs hsends hseg => ?_⟩
  have hr := C01.roundtrip_encrypted cp s0 z thr (ps.map (rawOf realCustom))
    (fun q hq => by obtain ⟨p, hp, rfl⟩ := List.mem_map.mp hq; exact (hf p hp).2.2)
    sends hsends segs hseg
  refine ⟨by rw [hr]; simp, ?_⟩
  simp only [readTypedEnc, hr]
  rw [zipWith_decodeTyped realCustom ps (fun p hp => (hf p hp).2.1)]

/-- As the reactor does it: the definition is looked up BY THE PACKET ID read from the wire.  If the
table maps the id of every written packet to its layout (other ids: anything), the reader
reconstructs exactly the list of `(id, values)`, every payload consumed exactly. -/
theorem typed_packet_stream_dispatch (z : Zlib) (thr : Option Int) (ps : List TPacket)
    (hok : ∀ p ∈ ps, TypedOK z.toZlibOps thr p) (table : Nat → Option Layout)
    (htab : ∀ p ∈ ps, table p.id = some p.layout) :
    ∃ stream, writeTypedAll realCustom z.toZlibOps thr ps = .ok stream ∧
      ∀ segs : Segs, segs.flatten = stream →
        readDispatch realCustom z.toZlibOps thr.isSome table segs =
          (ps.map fun p => (p.id, .ok (p.vals, [])), .eof) := by
  have hf := fun p hp => typedOK_facts z.toZlibOps thr p (hok p hp)
  refine ⟨_, writeTypedAll_of_ok realCustom z.toZlibOps thr ps (fun p hp => ⟨_, (hf p hp).1⟩),
    fun segs hseg => ?_⟩
  have hr := C01.roundtrip_stream z thr (ps.map (rawOf realCustom))
    (fun q hq => by obtain ⟨p, hp, rfl⟩ := List.mem_map.mp hq; exact (hf p hp).2.2) segs hseg
  simp only [readDispatch, hr]
  rw [filterMap_decodeTyped realCustom table ps htab (fun p hp => (hf p hp).2.1)]

/-- The guard is about values, not about luck: a packet whose values are in the domains of its
fields' types can fail `TypedOK` only through the layout shape or the 2^42 frame bounds — writing
its fields never fails. -/
theorem typed_fields_always_encode (p : TPacket) (hw : WellTypedFields realDom p.layout p.vals) :
    ∃ fields, encodeFields realCustom p.layout p.vals = .ok fields :=
  C05.layout_enc_total_real p.layout p.vals hw

/-! ### Non-vacuity -/

/-- three packets with different layouts: (a) a VarInt, a nested array of positions and a trailing
byte array; (b) a string, a position, a bool and a short; (c) no fields at all (id only) -/
def exPackets : List TPacket :=
  [ { id := 0x23,
      layout := [("n", .varint), ("grid", .array .varint (.array .u8 (.custom (.position true)))),
                 ("data", .trailing)],
      vals := [.int 300,
               .list [.list [Value.ofInts [1, 2, 3], Value.ofInts [-1, -2, -3]], .list []],
               .bytes [0xde, 0xad]] },
    { id := 0x0b,
      layout := [("name", .string), ("location", .custom (.position false)), ("flag", .bool),
                 ("count", .int .i16)],
      vals := [.str "héllo", Value.ofInts [-5, 64, 7], .bool true, .int (-2)] },
    { id := 0x7f, layout := [], vals := [] } ]

/-- the guard holds for all three, with threshold 16 (the first two are compressed, the third not)
and with compression off -/
example : ∀ p ∈ exPackets, TypedOK Zlib.ident.toZlibOps (some 16) p := by decide +kernel
example : ∀ p ∈ exPackets, TypedOK Zlib.ident.toZlibOps none p := by decide +kernel

/-- the bytes written for the conversation (threshold 16) -/
def exStream : Bytes :=
  [0x19, 0x18, 0x23, 0xac, 0x02, 2, 2, 0, 0, 0, 0x40, 0, 0, 0x30, 0x02, 0xff, 0xff, 0xff, 0xff, 0xff,
     0xff, 0xdf, 0xfe, 0, 0xde, 0xad,
   0x14, 0x13, 0x0b, 0x06, 0x68, 0xc3, 0xa9, 0x6c, 0x6c, 0x6f, 0xff, 0xff, 0xfe, 0xc1, 0x00, 0x00,
     0x00, 0x07, 0x01, 0xff, 0xfe,
   0x02, 0x00, 0x7f]

example : writeTypedAll realCustom Zlib.ident.toZlibOps (some 16) exPackets = .ok exStream := by
  decide +kernel

/-- read back from a segmentation that cuts inside a length prefix, a position and the string -/
example :
    readTyped realCustom Zlib.ident.toZlibOps true (exPackets.map (·.layout))
      [exStream.take 1, exStream.drop 1 |>.take 12, [], exStream.drop 13 |>.take 20,
       exStream.drop 33] =
    (exPackets.map fun p => (p.id, .ok (p.vals, [])), .eof) := by
  obtain ⟨stream, h1, h2⟩ := typed_packet_stream_roundtrip Zlib.ident (some 16) exPackets
    (by decide +kernel)
  have e : writeTypedAll realCustom Zlib.ident.toZlibOps (some 16) exPackets = .ok exStream := by
    decide +kernel
  rw [e] at h1; cases h1
  exact (h2 _ (by decide +kernel)).2.2

/-- dispatch by id: a table knowing the three ids -/
example : ∀ p ∈ exPackets,
    (fun id => (exPackets.find? (·.id == id)).map (·.layout)) p.id = some p.layout := by
  intro p hp
  simp only [exPackets, List.mem_cons, List.not_mem_nil, or_false] at hp
  rcases hp with rfl | rfl | rfl <;> rfl

/-- the guard is not trivially true: a Y coordinate outside the 12-bit range of `Position`, and a
trailing byte array that is not the last field, are both rejected -/
example : ¬ TypedOK Zlib.ident.toZlibOps none
    { id := 1, layout := [("p", .custom (.position true))], vals := [Value.ofInts [0, 4096, 0]] } := by
  decide +kernel
example : ¬ TypedOK Zlib.ident.toZlibOps none
    { id := 1, layout := [("d", .trailing), ("b", .bool)], vals := [.bytes [1], .bool true] } := by
  decide +kernel

end PyCraft.C05Stream
