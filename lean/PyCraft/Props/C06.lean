import PyCraft.Lemmas.Ids
import PyCraft.Generated.Ids
/-!
# C06 — per-version packet id tables are total and injective

`PyCraft.Gen.idTables` is regenerated on every run from the live `get_packets`/`get_id` of /repo on
the WHOLE domain (8 state/direction tables × every known protocol version), so the `decide +kernel`
proofs below are about what the code says now.
-/
namespace PyCraft.C06
open PyCraft PyCraft.Gen

/-- Known finding K1 (known_findings.json): id collisions on supported *snapshot* versions that
exist on the unchanged tree.  (table, version, id). -/
def knownCollisions : List (String × Nat × Int) :=
  [("cbPlay", 317, 0x10), ("cbPlay", 336, 0x49), ("cbPlay", 337, 0x49), ("cbPlay", 343, 0x4A),
   ("cbPlay", 344, 0x4A), ("cbPlay", 389, 0x4A), ("cbPlay", 390, 0x4A), ("cbPlay", 391, 0x4A),
   ("cbPlay", 392, 0x4A)]

def knownFor (t : String) (v : Nat) : List (Option Int) :=
  (knownCollisions.filter fun k => k.1 == t && k.2.1 == v).map fun k => some k.2.2

def checkTotal : Bool :=
  idTables.all fun t => t.2.all fun r => !r.2.1 || entsTotal r.2.2

def checkInj : Bool :=
  idTables.all fun t => t.2.all fun r => !r.2.1 || entsInjExcept (knownFor t.1 r.1) r.2.2

def checkKnownReal : Bool :=
  knownCollisions.all fun k => idTables.any fun t =>
    t.1 == k.1 && t.2.any fun r => r.1 == k.2.1 && r.2.1 && (dupIds r.2.2).contains (some k.2.2)

theorem checkTotal_ok : checkTotal = true := by decide +kernel
theorem checkInj_ok : checkInj = true := by decide +kernel

/-- Totality: for every state/direction table and every SUPPORTED protocol version, each registered
packet class resolves to a non-negative integer id. -/
theorem ids_total_supported :
    ∀ t ∈ idTables, ∀ r ∈ t.2, r.2.1 = true →
      ∀ e ∈ r.2.2, ∃ i : Int, e.2 = some i ∧ 0 ≤ i := by
  intro t ht r hr hs e he
  have h := checkTotal_ok
  simp only [checkTotal, List.all_eq_true] at h
  have h2 := h t ht r hr
  simp only [hs, Bool.not_true, Bool.false_or, entsTotal, List.all_eq_true] at h2
  have h3 := h2 e he
  split at h3
  · next i hi => exact ⟨i, hi, by simpa using h3⟩
  · simp at h3

/-- Injectivity: for every table and SUPPORTED version, two different registered classes share an id
only in the listed known collisions. -/
theorem ids_injective_except_known :
    ∀ t ∈ idTables, ∀ r ∈ t.2, r.2.1 = true →
      ∀ i ∈ dupIds r.2.2, i ∈ knownFor t.1 r.1 := by
  intro t ht r hr hs i hi
  have h := checkInj_ok
  simp only [checkInj, List.all_eq_true] at h
  have h2 := h t ht r hr
  simp only [hs, Bool.not_true, Bool.false_or, entsInjExcept, List.all_eq_true] at h2
  simpa using h2 i hi

/-- … hence wherever no known collision is listed the ids of the row are pairwise distinct. -/
theorem ids_injective_elsewhere :
    ∀ t ∈ idTables, ∀ r ∈ t.2, r.2.1 = true → knownFor t.1 r.1 = [] →
      (r.2.2.map (·.2)).Nodup := by
  intro t ht r hr hs hk
  apply nodup_of_dupIds_nil
  cases hd : dupIds r.2.2 with
  | nil => rfl
  | cons i rest =>
    have := ids_injective_except_known t ht r hr hs i (by simp [hd])
    simp [hk] at this

/-- Each listed collision is real (a negative result with its witness): on that supported version
two registered classes do share that id.  If a repair removes one, this theorem fails and the entry
must leave the list. -/
theorem known_collision_real : checkKnownReal = true := by decide +kernel

/-- Generic consequence (all tables, all iteration orders): if the ids of a row are pairwise
distinct, the dict `{get_id: class}` built in ANY iteration order `perm` of the set of classes maps an
id to exactly the class whose id it is — the decoder chosen never depends on set iteration order. -/
theorem dispatch_unique (ents perm : List (String × Int)) (hp : perm.Perm ents)
    (hn : (ents.map (·.2)).Nodup) (c : String) (i : Int) :
    dictGet (buildDict perm) i = some c ↔ (c, i) ∈ ents := by
  rw [dictGet_buildDict]
  have hn' : (perm.reverse.map (·.2)).Nodup := by
    have h1 : (perm.reverse.map (·.2)).Perm (ents.map (·.2)) :=
      ((List.reverse_perm perm).trans hp).map _
    exact h1.nodup_iff.mpr hn
  constructor
  · intro h
    cases hf : perm.reverse.find? (fun e => e.2 == i) with
    | none => simp [hf] at h
    | some e =>
      simp only [hf, Option.map_some, Option.some.injEq] at h
      have hm := List.mem_of_find?_eq_some hf
      have hi : e.2 = i := by simpa using List.find?_some hf
      have : e = (c, i) := by cases e; simp_all
      rw [← this]
      exact hp.mem_iff.mp (List.mem_reverse.mp hm)
  · intro h
    have hm : (c, i) ∈ perm.reverse := List.mem_reverse.mpr (hp.mem_iff.mpr h)
    rw [find_of_mem_nodup _ c i hm hn']; rfl

-- non-vacuity: the supported row for protocol 757 of the clientbound play table is non-trivial
example : ∃ r ∈ cbPlay, r.1 = 757 ∧ r.2.1 = true ∧ r.2.2.length ≥ 20 := by decide +kernel
example : dictGet (buildDict [("A", 1), ("B", 2)]) 2 = some "B" := by decide

end PyCraft.C06
