import PyCraft.Lemmas.C13Roles
import PyCraft.Generated.C13Roles
/-!
# C13 (audit gap 17) — the registration flags decide the role; every packet is dispatched once

`Props/C13.lean` proves the documented order for ONE `_react` / `_write_packet` call on GIVEN lists,
and separately that `register_packet_listener` appends to the list `slotOf early outgoing`.  Nothing
there says that the list a listener lands in is the list that plays the matching ROLE (iterating
`early_outgoing_packet_listeners` in `_react`, or swapping the two lists in `_write_packet`, left
every theorem true), and "for every incoming / outgoing packet" had no model.

Model: `Model/C13Roles.lean` (`Conn`: `register`, `writePacket force`, `popPacket`, `flush`, `react`
with the reaction's nested / queued writes, `runIter` = one iteration of `NetworkingThread._run`,
`Conn.run` = a whole session; a ghost `trace` of every `write_packet`, `_write_packet`, `_react` and
registration).  Vocabulary (`sel`, `entryOKRegs`, readers of the trace are in the model file) and
helper lemmas: `Lemmas/C13Roles.lean`.  Live table: `Generated/C13Roles.lean`
(harness/gen/c13roles.py).

All statements are for ALL hierarchies, reactors, batch caps and sessions (lists of operations).
-/
namespace PyCraft.C13Roles
open PyCraft PyCraft.Roles

/-! ## Flags → role, one dispatch -/

/-- **Registered role** (the reviewer's proposal).  After ANY sequence of
`register_packet_listener` calls on a fresh connection, `_react` on the connection's own lists
(`Cfg.react`) is the documented incoming sequence over — before the reaction — the listeners
registered with `early=True, outgoing=False` and — after it — those registered with
`early=False, outgoing=False`, each in registration order; `_write_packet` (`Cfg.write`) is the
documented outgoing sequence over those registered with `early=True, outgoing=True` before the
write and `early=False, outgoing=True` after it. -/
theorem registered_role (hier : Hier) (rs : List Reg) (rIgn : Bool) (c : Nat) :
    (registerAll {} rs).react hier rIgn c =
      specIncoming hier
        ((rs.filter (fun r => r.early == true && r.outgoing == false)).map (·.l))
        ((rs.filter (fun r => r.early == false && r.outgoing == false)).map (·.l)) rIgn c ∧
    (registerAll {} rs).write hier c =
      specOutgoing hier
        ((rs.filter (fun r => r.early == true && r.outgoing == true)).map (·.l))
        ((rs.filter (fun r => r.early == false && r.outgoing == true)).map (·.l)) c :=
  ⟨react_registerAll hier rs rIgn c, write_registerAll hier rs c⟩

/-- **Role read off the call log.**  Whatever was registered: a callback that runs BEFORE the
reaction on an incoming packet belongs to a registration with `early=True, outgoing=False` whose
types match; one that runs AFTER the reaction to one with `early=False, outgoing=False`; one that
runs before the write of an outgoing packet to one with `early=True, outgoing=True`; one that runs
after the write to one with `early=False, outgoing=True`.  In particular no listener registered for
one direction is ever called for the other. -/
theorem role_of_every_call (hier : Hier) (rs : List Reg) (rIgn : Bool) (c : Nat) :
    (∀ i, Ev.early i ∈ ((registerAll {} rs).react hier rIgn c).1 →
      ∃ r ∈ rs, r.l.id = i ∧ r.early = true ∧ r.outgoing = false ∧ r.l.matches hier c = true) ∧
    (∀ i, Ev.ordinary i ∈ ((registerAll {} rs).react hier rIgn c).1 →
      ∃ r ∈ rs, r.l.id = i ∧ r.early = false ∧ r.outgoing = false ∧ r.l.matches hier c = true) ∧
    (∀ i, OutEv.earlyOut i ∈ (registerAll {} rs).write hier c →
      ∃ r ∈ rs, r.l.id = i ∧ r.early = true ∧ r.outgoing = true ∧ r.l.matches hier c = true) ∧
    (∀ i, OutEv.ordOut i ∈ (registerAll {} rs).write hier c →
      ∃ r ∈ rs, r.l.id = i ∧ r.early = false ∧ r.outgoing = true ∧ r.l.matches hier c = true) := by
  refine ⟨?_, ?_, ?_, ?_⟩
  · intro i h
    rcases mem_reactIncoming_cases hier _ _ rIgn c _ h with ⟨l, hl, hm, he⟩ | he | ⟨l, _, _, he⟩
    · rw [registerAll_early] at hl
      obtain ⟨r, hr, rfl, h1, h2⟩ := mem_sel hl
      cases he
      exact ⟨r, hr, rfl, h1, h2, hm⟩
    · cases he
    · cases he
  · intro i h
    rcases mem_reactIncoming_cases hier _ _ rIgn c _ h with ⟨l, _, _, he⟩ | he | ⟨l, hl, hm, he⟩
    · cases he
    · cases he
    · rw [registerAll_ordinary] at hl
      obtain ⟨r, hr, rfl, h1, h2⟩ := mem_sel hl
      cases he
      exact ⟨r, hr, rfl, h1, h2, hm⟩
  · intro i h
    rcases mem_writeOutgoing_cases hier _ _ c _ h with ⟨l, hl, hm, he⟩ | he | ⟨l, _, _, he⟩
    · rw [registerAll_earlyOut] at hl
      obtain ⟨r, hr, rfl, h1, h2⟩ := mem_sel hl
      cases he
      exact ⟨r, hr, rfl, h1, h2, hm⟩
    · cases he
    · cases he
  · intro i h
    rcases mem_writeOutgoing_cases hier _ _ c _ h with ⟨l, _, _, he⟩ | he | ⟨l, hl, hm, he⟩
    · cases he
    · cases he
    · rw [registerAll_ordOut] at hl
      obtain ⟨r, hr, rfl, h1, h2⟩ := mem_sel hl
      cases he
      exact ⟨r, hr, rfl, h1, h2, hm⟩

/-- **Directions are independent.**  Registrations with `outgoing=True` have no influence whatever
on the dispatch of incoming packets, and registrations with `outgoing=False` none on outgoing
packets. -/
theorem directions_independent (hier : Hier) (rs : List Reg) (rIgn : Bool) (c : Nat) :
    (registerAll {} rs).react hier rIgn c =
      (registerAll {} (rs.filter (fun r => r.outgoing == false))).react hier rIgn c ∧
    (registerAll {} rs).write hier c =
      (registerAll {} (rs.filter (fun r => r.outgoing == true))).write hier c := by
  simp only [react_registerAll, write_registerAll, sel_filter_outgoing, and_self]

/-! ## Whole sessions -/

/-- **Roles in every dispatch of every session** (and the frame property behind "ignore is local").
Take any session `ops` from a fresh connection and any further operation `op`.  `op` only APPENDS to
the trace, and every `_write_packet` call it performs — forced by a user, forced by the built-in
reaction in the middle of a `_react`, popped by `_pop_packet`, the flush loop or `_run` — and every
`_react` call it performs has exactly the documented call log over the listeners that the operations
BEFORE `op` registered with the matching flags.  The log therefore depends on nothing but those
registrations, the packet's class and (incoming) whether the reaction ignores this packet: not on
any other packet, nor on whether an earlier one was ignored, suppressed, queued or forced. -/
theorem session_roles (hier : Hier) (R : Reactor) (caps : Caps) (ops : List Op) (op : Op) :
    ∃ t, ((Conn.run hier R caps {} ops).step hier R caps op).trace =
        (Conn.run hier R caps {} ops).trace ++ t ∧
      (∀ site p evs, Tr.out site p evs ∈ t →
        evs = specOutgoing hier (sel (regOpsOf ops) true true) (sel (regOpsOf ops) false true)
          p.cls) ∧
      (∀ p evs ign, Tr.inc p evs ign ∈ t →
        (evs, ign) = specIncoming hier (sel (regOpsOf ops) true false)
          (sel (regOpsOf ops) false false) (R.ignores p) p.cls) := by
  obtain ⟨t, ht, h⟩ := step_roles hier R caps ops op
  exact ⟨t, ht, fun site p evs hm => h _ hm, fun p evs ign hm => h _ hm⟩

/-- **Ignore is local — across sessions.**  Two arbitrary sessions (possibly with different
reactors, caps, packets, ignored or not) whose registrations so far coincide: an incoming packet of
the same class (with the same reaction verdict) gets the same call log and the same "ignored"
answer in both, whatever happened to any other packet before. -/
theorem ignore_is_local (hier : Hier) (R R' : Reactor) (caps caps' : Caps) (ops ops' : List Op)
    (op op' : Op) (hregs : regOpsOf ops = regOpsOf ops') (p p' : Pkt) (evs evs' : List Ev)
    (ign ign' : Bool) (hc : p.cls = p'.cls) (hr : R.ignores p = R'.ignores p') (t t' : List Tr)
    (ht : ((Conn.run hier R caps {} ops).step hier R caps op).trace =
      (Conn.run hier R caps {} ops).trace ++ t)
    (ht' : ((Conn.run hier R' caps' {} ops').step hier R' caps' op').trace =
      (Conn.run hier R' caps' {} ops').trace ++ t')
    (h : Tr.inc p evs ign ∈ t) (h' : Tr.inc p' evs' ign' ∈ t') :
    evs = evs' ∧ ign = ign' := by
  obtain ⟨u, hu, _, h2⟩ := session_roles hier R caps ops op
  obtain ⟨u', hu', _, h2'⟩ := session_roles hier R' caps' ops' op'
  have e1 : t = u := List.append_cancel_left (ht.symm.trans hu)
  have e2 : t' = u' := List.append_cancel_left (ht'.symm.trans hu')
  subst e1; subst e2
  have a := h2 p evs ign h
  have b := h2' p' evs' ign' h'
  rw [← hregs, ← hc, ← hr] at b
  have := a.trans b.symm
  exact ⟨(Prod.mk.inj this).1, (Prod.mk.inj this).2⟩

/-- **Every packet is dispatched exactly once.**  In the state reached by ANY session:
* outgoing, unforced: the packets `_pop_packet` has handed to `_write_packet`, followed by the
  queue, are exactly the packets given to `write_packet(force=False)`, in call order — FIFO, none
  lost, none dispatched twice, those not yet dispatched are precisely the queue;
* outgoing, forced: the packets dispatched from `write_packet(force=True)` are exactly those given
  to it, in order;
* which `write_packet` calls there were: each `(packet, force)` pair was issued exactly as often as
  the user asked for it plus as often as a built-in reaction THAT RAN asked for it (a reaction
  suppressed by an early listener's ignore writes nothing);
* incoming: the packets `_react` was called with, followed by what is still unread, are exactly
  the packets that arrived, in order — each read packet gets one `_react` call;
* the registrations recorded are the session's registrations. -/
theorem every_packet_once (hier : Hier) (R : Reactor) (caps : Caps) (ops : List Op) :
    let s := Conn.run hier R caps {} ops
    outsOf .popped s.trace ++ s.queue = issuedOf false s.trace ∧
    outsOf .forced s.trace = issuedOf true s.trace ∧
    (∀ w, (allIssuedOf s.trace).count w =
      (userWritesOf ops).count w + (reactionWritesOf R s.trace).count w) ∧
    incsOf s.trace ++ s.inbox = arrivedOf ops ∧
    regsOf s.trace = regOpsOf ops := by
  have h := Top.run hier R caps ops
  exact ⟨h.acct.1, h.acct.2, h.issued, h.arrived, h.regs⟩

/-- The same as counts: a packet object is handed to `_write_packet` exactly as many times as it
was given to `write_packet`, minus the times it still sits in the queue; and to `_react` exactly
as many times as it arrived, minus the times it is still unread.  (With distinct packet objects:
at most once, and exactly once as soon as it has left the queue / the inbox.) -/
theorem dispatch_counts (hier : Hier) (R : Reactor) (caps : Caps) (ops : List Op) (p : Pkt) :
    let s := Conn.run hier R caps {} ops
    (outsOf .popped s.trace).count p + (outsOf .forced s.trace).count p + s.queue.count p =
      (issuedOf false s.trace).count p + (issuedOf true s.trace).count p ∧
    (incsOf s.trace).count p + s.inbox.count p = (arrivedOf ops).count p := by
  obtain ⟨h1, h2, _, h4, _⟩ := every_packet_once hier R caps ops
  constructor
  · rw [← h1, ← h2, List.count_append]; omega
  · rw [← h4, List.count_append]

/-- **The flush loop** (`disconnect`, l.467-468) empties the queue: afterwards every packet ever
given to `write_packet(force=False)` has been dispatched, once, in call order. -/
theorem flush_dispatches_all (hier : Hier) (R : Reactor) (caps : Caps) (ops : List Op) :
    let s := Conn.run hier R caps {} (ops ++ [.flush])
    s.queue = [] ∧ outsOf .popped s.trace = issuedOf false s.trace := by
  have h := (every_packet_once hier R caps (ops ++ [.flush])).1
  have hq : (Conn.run hier R caps {} (ops ++ [.flush])).queue = [] := by
    rw [run_snoc]
    exact (flushLoop_queue hier _ _ (Nat.le_refl _)).1
  simp only [hq, List.append_nil] at h
  exact ⟨hq, h⟩

/-- **One iteration of `_run`.**  From any reachable state with queue `q` and unread packets `i`:
`n = min capW |q|` queued packets are dispatched (the first `n`, in order), then
`m = min (capR - n) |i|` packets are read and reacted to (the first `m`, in order — the SAME counter
`num_packets` is used for both phases, so writes eat into the read budget); the rest of the inbox
stays; the queue afterwards is the undispatched rest followed by the unforced writes `δ` of the
reactions that ran. -/
theorem iter_progress (hier : Hier) (R : Reactor) (caps : Caps) (ops : List Op) :
    let s := Conn.run hier R caps {} ops
    let s' := Conn.run hier R caps {} (ops ++ [.iter])
    let n := min caps.capW s.queue.length
    let m := min (caps.capR - n) s.inbox.length
    outsOf .popped s'.trace = outsOf .popped s.trace ++ s.queue.take n ∧
    incsOf s'.trace = incsOf s.trace ++ s.inbox.take m ∧
    s'.inbox = s.inbox.drop m ∧
    ∃ δ, reactionWritesOf R s'.trace = reactionWritesOf R s.trace ++ δ ∧
      s'.queue = s.queue.drop n ++ (δ.filter (fun w => !w.2)).map (·.1) := by
  intro s s' n m
  have h := runIter_facts hier R caps s
  have hs : s' = s.runIter hier R caps := by
    show Conn.run hier R caps {} (ops ++ [.iter]) = _
    rw [run_snoc]; rfl
  rw [hs]
  obtain ⟨d, _, hd2, hd3⟩ := h.writes
  exact ⟨h.popped, h.incs, h.inbox, d, hd2, hd3⟩

/-- A consequence worth knowing (observed on the real code too: 50 queued packets and one arrived
packet, one iteration of `_run` → 50 `_write_packet` calls, no `_react`): because the write phase
and the read phase share `num_packets`, an iteration that starts with at least `capR` (50) queued
packets reads NOTHING — no incoming packet is dispatched in it, the inbox is untouched. -/
theorem writes_starve_reads (hier : Hier) (R : Reactor) (caps : Caps) (ops : List Op)
    (h : caps.capR ≤ min caps.capW (Conn.run hier R caps {} ops).queue.length) :
    incsOf (Conn.run hier R caps {} (ops ++ [.iter])).trace =
      incsOf (Conn.run hier R caps {} ops).trace ∧
    (Conn.run hier R caps {} (ops ++ [.iter])).inbox = (Conn.run hier R caps {} ops).inbox := by
  obtain ⟨_, h2, h3, _⟩ := iter_progress hier R caps ops
  have hm : min (caps.capR - min caps.capW (Conn.run hier R caps {} ops).queue.length)
      (Conn.run hier R caps {} ops).inbox.length = 0 := by omega
  rw [hm] at h2 h3
  exact ⟨by simpa using h2, by simpa using h3⟩

/-! ## Ties to the live code (re-generated and re-checked on every run) -/

open PyCraft.Gen.C13Roles in
/-- The live `register_packet_listener`, called in each of the nine ways of giving / omitting
`early=` and `outgoing=`, appended exactly one listener, to the list `slotOf early outgoing` of the
model (omitted = `False`). -/
theorem live_targets :
    ∀ x ∈ liveTargets, x.2.2 = [slotIndex (slotOf (x.1.getD false) (x.2.1.getD false))] := by
  decide +kernel

open PyCraft.Gen.C13Roles in
/-- The live `_react` and `_write_packet`, after the live interleaved registration sequence
`liveRunRegs` (every flag combination twice, plus non-matching listeners), for every choice of the
one callback that raises `IgnorePacket` and of the reaction raising it, entered the callbacks, the
reaction and the write in exactly the order `registerAll` + `Cfg.react` / `Cfg.write` compute. -/
theorem live_runs :
    ∀ x ∈ liveRuns,
      ((probeCfg liveRunRegs x.1).react liveHier x.2.1 liveRunClass).1.map evNum = x.2.2.1 ∧
      ((probeCfg liveRunRegs x.1).write liveHier liveRunClass).map outEvNum = x.2.2.2 := by
  decide +kernel

open PyCraft.Gen.C13Roles in
/-- Whole live sessions (registrations in between, forced / queued writes, `_pop_packet`, the flush
loop, iterations of the real `NetworkingThread._run`, a reaction that writes and one that ignores):
the model's final state — the four lists, the queue, the unread packets and the complete trace of
`write_packet` / `_write_packet` / `_react` calls with their call logs — is what the real code did. -/
theorem live_sessions :
    ∀ x ∈ liveSessions, Conn.run liveHier (Reactor.ofTable x.1.1 x.1.2) {} {} x.2.1 = x.2.2 := by
  decide +kernel

/-! ## The changed code the reviewer describes is refuted -/

/-- `_react` iterating `early_outgoing_packet_listeners` violates `registered_role`: a listener
registered with `early=True, outgoing=True` would run on an incoming packet. -/
example : ¬ ∀ (hier : Hier) (rs : List Reg) (rIgn : Bool) (c : Nat),
    reactWrongList hier (registerAll {} rs) rIgn c =
      specIncoming hier (sel rs true false) (sel rs false false) rIgn c := fun h =>
  absurd (h [] [⟨⟨7, [1], false⟩, true, true⟩] false 1) (by decide +kernel)

/-- … and it also loses the early incoming listeners. -/
example : ¬ ∀ (hier : Hier) (rs : List Reg) (rIgn : Bool) (c : Nat),
    reactWrongList hier (registerAll {} rs) rIgn c =
      specIncoming hier (sel rs true false) (sel rs false false) rIgn c := fun h =>
  absurd (h [] [⟨⟨7, [1], true⟩, true, false⟩] false 1) (by decide +kernel)

/-- `_write_packet` with the two lists swapped violates `registered_role`: the listener registered
with `early=True` runs AFTER the write and can no longer suppress it. -/
example : ¬ ∀ (hier : Hier) (rs : List Reg) (c : Nat),
    writeSwapped hier (registerAll {} rs) c =
      specOutgoing hier (sel rs true true) (sel rs false true) c := fun h =>
  absurd (h [] [⟨⟨7, [1], true⟩, true, true⟩] 1) (by decide +kernel)

/-- `_pop_packet` that does not remove the packet violates `every_packet_once` (FIFO equation): the
packet is dispatched and still queued. -/
example : ¬ ∀ (hier : Hier) (s : Conn),
    outsOf .popped s.trace ++ s.queue = issuedOf false s.trace →
    outsOf .popped (popPacketPeek hier s).1.trace ++ (popPacketPeek hier s).1.queue =
      issuedOf false (popPacketPeek hier s).1.trace := fun h =>
  absurd (h [] (Conn.run [] ⟨fun _ => [], fun _ => false⟩ {} {} [.write ⟨1, 1⟩ false])
    (by decide +kernel)) (by decide +kernel)

/-- `write_packet` that queues a forced packet as well violates `every_packet_once`. -/
example : ¬ ∀ (hier : Hier) (s : Conn) (p : Pkt),
    outsOf .popped s.trace ++ s.queue = issuedOf false s.trace →
    outsOf .popped (writePacketNoElse hier s p true).trace ++ (writePacketNoElse hier s p true).queue
      = issuedOf false (writePacketNoElse hier s p true).trace := fun h =>
  absurd (h [] {} ⟨1, 1⟩ rfl) (by decide +kernel)

/-- Ignore handling moved from `_react` to the read loop violates `iter_progress`: after an ignored
packet the remaining arrived packets are not reacted to in this iteration. -/
example : ¬ ∀ (hier : Hier) (R : Reactor) (capR : Nat) (s : Conn),
    incsOf (readLoopIgnoreEnds hier R capR s.inbox s 0).trace =
      incsOf s.trace ++ s.inbox.take (min capR s.inbox.length) := fun h =>
  absurd (h [] ⟨fun _ => [], fun _ => false⟩ 50
    (Conn.run [] ⟨fun _ => [], fun _ => false⟩ {} {}
      [.register ⟨⟨1, [1], true⟩, true, false⟩, .arrive [⟨1, 1⟩, ⟨2, 1⟩]])) (by decide +kernel)

/-! ## Non-vacuity -/

/-- 1 = `Packet`, 2 = `KeepAlive(Packet)`, 3 = `Special(KeepAlive)`, 4 unrelated. -/
private def h₀ : Hier := [(2, 1), (3, 2)]

/-- all four flag combinations, interleaved -/
private def rs₀ : List Reg :=
  [⟨⟨1, [1], false⟩, false, false⟩, ⟨⟨2, [2], false⟩, true, true⟩, ⟨⟨3, [1], false⟩, true, false⟩,
   ⟨⟨4, [3], false⟩, false, true⟩, ⟨⟨5, [4], false⟩, true, false⟩, ⟨⟨6, [1], true⟩, false, true⟩,
   ⟨⟨7, [1], false⟩, false, true⟩]

-- `registered_role` on a configuration where all four roles are populated
example : (registerAll {} rs₀).react h₀ false 3 = ([.early 3, .reaction, .ordinary 1], false) ∧
    (registerAll {} rs₀).write h₀ 3 = [.earlyOut 2, .written, .ordOut 4, .ordOut 6] := by
  decide +kernel

-- the hypotheses of `role_of_every_call` are satisfiable for each of the four kinds of entry
example : Ev.early 3 ∈ ((registerAll {} rs₀).react h₀ false 3).1 ∧
    Ev.ordinary 1 ∈ ((registerAll {} rs₀).react h₀ false 3).1 ∧
    OutEv.earlyOut 2 ∈ (registerAll {} rs₀).write h₀ 3 ∧
    OutEv.ordOut 4 ∈ (registerAll {} rs₀).write h₀ 3 := by decide +kernel

/-- the reaction to class 3 writes a forced and a queued packet; the reaction to class 2 ignores -/
private def R₀ : Reactor := Reactor.ofTable [(3, [(⟨90, 2⟩, true), (⟨91, 2⟩, false)])] [2]

/-- a session using every kind of operation, with small caps -/
private def ops₀ : List Op :=
  [.register ⟨⟨1, [1], false⟩, true, false⟩, .write ⟨1, 3⟩ false, .write ⟨2, 2⟩ true,
   .register ⟨⟨2, [2], true⟩, true, true⟩, .write ⟨3, 2⟩ false, .write ⟨4, 1⟩ false,
   .arrive [⟨10, 3⟩, ⟨11, 2⟩, ⟨12, 3⟩], .pop, .iter]

-- what that session does (caps 2 / 3: one more packet popped, then two of the three arrived
-- packets reacted to; the reaction's forced write is dispatched inside the `_react`)
example : (Conn.run h₀ R₀ ⟨2, 3⟩ {} ops₀).trace =
    [.reg ⟨⟨1, [1], false⟩, true, false⟩, .issued ⟨1, 3⟩ false, .issued ⟨2, 2⟩ true,
     .out .forced ⟨2, 2⟩ [.written], .reg ⟨⟨2, [2], true⟩, true, true⟩, .issued ⟨3, 2⟩ false,
     .issued ⟨4, 1⟩ false, .out .popped ⟨1, 3⟩ [.earlyOut 2],
     .out .popped ⟨3, 2⟩ [.earlyOut 2], .out .popped ⟨4, 1⟩ [.written],
     .issued ⟨90, 2⟩ true, .out .forced ⟨90, 2⟩ [.earlyOut 2], .issued ⟨91, 2⟩ false,
     .inc ⟨10, 3⟩ [.early 1, .reaction] false] ∧
    (Conn.run h₀ R₀ ⟨2, 3⟩ {} ops₀).queue = [⟨91, 2⟩] ∧
    (Conn.run h₀ R₀ ⟨2, 3⟩ {} ops₀).inbox = [⟨11, 2⟩, ⟨12, 3⟩] := by decide +kernel

-- `session_roles` / `ignore_is_local`: the last operation of that session really produces `.out`
-- and `.inc` entries
example : ∃ t, (Conn.run h₀ R₀ ⟨2, 3⟩ {} ops₀).trace =
      (Conn.run h₀ R₀ ⟨2, 3⟩ {} ops₀.dropLast).trace ++ t ∧
    Tr.inc ⟨10, 3⟩ [.early 1, .reaction] false ∈ t ∧ Tr.out .popped ⟨3, 2⟩ [.earlyOut 2] ∈ t :=
  ⟨[.out .popped ⟨3, 2⟩ [.earlyOut 2], .out .popped ⟨4, 1⟩ [.written],
     .issued ⟨90, 2⟩ true, .out .forced ⟨90, 2⟩ [.earlyOut 2], .issued ⟨91, 2⟩ false,
     .inc ⟨10, 3⟩ [.early 1, .reaction] false], by decide +kernel⟩

-- an early ignore suppresses the reaction AND its writes, for that packet only
example : (Conn.run h₀ R₀ {} {}
      [.register ⟨⟨1, [3], true⟩, true, false⟩, .arrive [⟨10, 3⟩, ⟨11, 1⟩, ⟨12, 3⟩], .iter]).trace =
    [.reg ⟨⟨1, [3], true⟩, true, false⟩, .inc ⟨10, 3⟩ [.early 1] true,
     .inc ⟨11, 1⟩ [.reaction] false, .inc ⟨12, 3⟩ [.early 1] true] := by decide +kernel

-- the hypothesis of `writes_starve_reads` is satisfiable (caps 2 / 2, two queued packets)
example : (⟨2, 2⟩ : Caps).capR ≤ min (⟨2, 2⟩ : Caps).capW
    (Conn.run h₀ R₀ ⟨2, 2⟩ {} [.write ⟨1, 1⟩ false, .write ⟨2, 1⟩ false,
      .arrive [⟨3, 1⟩]]).queue.length := by decide +kernel

-- the live tables are not empty
example : Gen.C13Roles.liveTargets.length = 9 ∧ Gen.C13Roles.liveRuns.length = 26 ∧
    Gen.C13Roles.liveSessions.length = 3 := by decide

end PyCraft.C13Roles
