import PyCraft.Lemmas.C12Progress
import PyCraft.Props.C12
/-!
# C12, the progress half — "packets handed to the connection … each REACH the wire"

`Props/C12.lean` (`exactly_once`) is conservation: a packet is never on the wire twice and never
lost from the accounting `issued ~ sent ++ in-flight ++ queue ++ failed`; `Props/C12Final.lean`
says what a disconnect leaves behind.  Neither forces anybody to ever SEND a queued packet: a
networking thread whose write loop never pops (`while False` at `connection.py:613`) satisfies all
of them.  This file states the missing AT-LEAST-ONCE half, for the same model
(`Model/Writers.lean`), ALL batch caps `cfg` (including `capW = 0`, `capR = 0`), ALL programs with
pairwise distinct packet ids and ALL schedules; `s := run cfg (init progs) sched` is an arbitrary
reachable state.

Vocabulary (`Model/C12Progress.lean`): `enabled cfg s t` = thread `t` can perform its next atomic
action (it is neither finished nor blocked in `RLock.acquire`); `moves cfg 0 s more` = the number of
entries of the schedule `more` that were actions actually performed by the networking thread
(entries that are not enabled are skipped by `run` and do not count); `runN cfg s σ n` = the state
after `n` picks of an infinite schedule `σ`; `WeakFair cfg s σ` = a thread that is enabled at every
pick from some pick on is picked again.  `(s.thr t).pc.dctx = some c` = thread `t` is inside
`disconnect` (between its `acq` and its `rel`).

What "reaches the wire" can mean.  A queued packet is NOT sent when a disconnect intervenes — an
immediate one by specification, a graceful one if the packet was appended after the flush
(`C12Final`) — so every liveness statement has the escape "… or a disconnect has been started"
(`interrupt` is set, or some thread is inside `disconnect`); `C12Final` says what happens then.
Forced writes need no liveness argument beyond `lock_holder_never_blocked`: the packet is sent by
the calling thread itself before `write_packet` returns (`forced_write_is_synchronous`).

The reviewer's proposal (`docs/audit_report.md`, rank 8) is `nt_drains` below, with two
corrections: (1) its bound `8·(len+1)+8` is too small — with `capW ≤ 1 < capR` the networking thread
needs ELEVEN actions per packet (`rdi acq rdi chk pop snd snd chk rel rdi sel`), e.g. `len = 8`
needs 84 > 80 (example below) — the bound proved here is `11·len + 2`; (2) "`∃ k ≤ B`" is replaced by the stronger "for all
`k ≥ B`".  Beyond the proposal, `nt_progress` removes the "only the networking thread runs"
restriction (arbitrary interleaving with user threads, counting only the networking thread's own
actions), and `queued_packet_eventually_sent` gives the genuine liveness statement over infinite
weakly fair schedules.

Only property theorems, non-vacuity examples and refutations of mutants live here; helper lemmas
are in `Lemmas/C12Progress.lean`.
-/
namespace PyCraft.C12Progress
open PyCraft PyCraft.Writers

/-! ### Deadlock freedom -/

/-- `lock_holder_never_blocked`: in every reachable state the thread that holds the write lock can
perform its next action (inside a `with self._write_lock:` block nothing blocks: no nested
acquisition by another thread's lock, and `popleft` is never reached with an empty queue). -/
theorem lock_holder_never_blocked (cfg : Cfg) (progs : List (List Op))
    (hnd : (progs.flatMap pktsOf).Nodup) (sched : List Tid) (t : Tid) :
    let s := run cfg (init progs) sched
    s.owner = some t → enabled cfg s t = true := by
  intro s ho
  have h := reach_inv cfg progs hnd sched
  exact holder_enabled cfg s t h.lock h.wire ho

/-- `blocked_only_in_acquire`: a thread that cannot move is finished (at `end`), or the lock is
held by ANOTHER thread — and that thread can move.  In particular, while the lock is free every
unfinished thread can move. -/
theorem blocked_only_in_acquire (cfg : Cfg) (progs : List (List Op))
    (hnd : (progs.flatMap pktsOf).Nodup) (sched : List Tid) (t : Tid) :
    let s := run cfg (init progs) sched
    enabled cfg s t = false →
      (s.thr t).pc.isDone = true ∨ ∃ u, u ≠ t ∧ s.owner = some u ∧ enabled cfg s u = true := by
  intro s hb
  have h := reach_inv cfg progs hnd sched
  exact blocked_cases cfg s t h.lock h.wire hb

/-- `no_deadlock`: in every reachable state in which some thread has not finished, some thread can
move; the successor state extends the log by exactly one event of that thread. -/
theorem no_deadlock (cfg : Cfg) (progs : List (List Op))
    (hnd : (progs.flatMap pktsOf).Nodup) (sched : List Tid) :
    let s := run cfg (init progs) sched
    (∃ t, (s.thr t).pc.isDone = false) →
      ∃ u s' ev, step cfg s u = some s' ∧ s'.log = s.log ++ [(u, ev)] := by
  intro s ⟨t, ht⟩
  have h := reach_inv cfg progs hnd sched
  have hen : ∃ u, enabled cfg s u = true := by
    cases hb : enabled cfg s t with
    | true => exact ⟨t, hb⟩
    | false =>
      rcases blocked_cases cfg s t h.lock h.wire hb with hd | ⟨u, -, -, hu⟩
      · rw [ht] at hd; cases hd
      · exact ⟨u, hu⟩
  obtain ⟨u, hu⟩ := hen
  obtain ⟨s', hs⟩ := Option.isSome_iff_exists.mp hu
  obtain ⟨ev, he⟩ := step_log cfg s s' u hs
  exact ⟨u, s', ev, hs, he⟩

/-- `networking_thread_runs_until_interrupted`: as long as `interrupt` is clear the networking
thread has not finished; it can move whenever the lock is free or its own. -/
theorem networking_thread_runs_until_interrupted (cfg : Cfg) (progs : List (List Op))
    (hnd : (progs.flatMap pktsOf).Nodup) (sched : List Tid) :
    let s := run cfg (init progs) sched
    s.interrupt = false →
      (s.thr 0).pc.isDone = false ∧
      ((s.owner = none ∨ s.owner = some 0) → enabled cfg s 0 = true) := by
  intro s hi
  have h := reach_inv cfg progs hnd sched
  refine ⟨nt_not_done h.lock hi, ?_⟩
  rintro (ho | ho)
  · exact free_enabled cfg s 0 h.lock ho (nt_not_done h.lock hi)
  · exact holder_enabled cfg s 0 h.lock h.wire ho

/-! ### At least once -/

/-- `nt_progress`: THE progress bound.  Let `p` be in the queue of a reachable state `s`, with
`i = s.queue.idxOf p` packets in front of it, and let `more` be ANY continuation of the schedule —
user threads appending, forcing, holding the lock, in any interleaving.  If the networking thread
gets to perform at least `11·i + 13` actions of its own in `more`, then afterwards `p` has a whole
frame on the wire, or a disconnect has been started (the `interrupt` flag is set, or some thread is
inside `disconnect`).  No action of any other thread can delay `p`: the count is of the networking
thread's own actions only. -/
theorem nt_progress (cfg : Cfg) (progs : List (List Op)) (hnd : (progs.flatMap pktsOf).Nodup)
    (sched more : List Tid) (p : Pkt) :
    let s := run cfg (init progs) sched
    let s' := run cfg s more
    p ∈ s.queue → 11 * s.queue.idxOf p + 13 ≤ moves cfg 0 s more →
      p ∈ sentPkts s'.wire ∨ s'.interrupt = true ∨ ∃ t c, (s'.thr t).pc.dctx = some c := by
  intro s s' hp hm
  have h := reach_inv cfg progs hnd sched
  have hr := rank_le s p
  rw [qpos_eq_idxOf] at hr
  rcases progress_core cfg progs p more s h (Or.inr ⟨Or.inl hp, by omega⟩) with g | g
  · exact Or.inl g
  · exact Or.inr ((discBegun_iff (run_inv cfg progs more s h).lock).mp g)

/-- `nt_drains` (the reviewer's proposal, corrected): in a reachable state with the lock free or
held by the networking thread and `interrupt` clear, let the networking thread run alone for `k ≥
11·len(queue) + 2` actions.  Then no schedule entry was skipped (it was never blocked), EVERY packet
that was in the queue has a whole frame on the wire, `interrupt` is still clear and the socket is
still open. -/
theorem nt_drains (cfg : Cfg) (progs : List (List Op)) (hnd : (progs.flatMap pktsOf).Nodup)
    (sched : List Tid) (k : Nat) :
    let s := run cfg (init progs) sched
    let s' := run cfg s (List.replicate k 0)
    (s.owner = none ∨ s.owner = some 0) → s.interrupt = false → 11 * s.queue.length + 2 ≤ k →
      (∀ p ∈ s.queue, p ∈ sentPkts s'.wire) ∧ skipped cfg s (List.replicate k 0) = 0 ∧
      s'.interrupt = false ∧ s'.sockOpen = true := by
  intro s s' ho hi hk
  exact drain_core cfg progs s (reach_inv cfg progs hnd sched) ho hi k hk

/-- `queued_packet_eventually_sent`: LIVENESS.  Let `p` be in the queue of a reachable state `s`
and let `σ` be any infinite schedule that is weakly fair for the run from `s`.  Then after finitely
many picks — and from then on for ever — `p` has a whole frame on the wire, or a disconnect has
been started.  (Weak fairness is needed only to exclude schedules that from some point on pick
nothing but blocked or finished threads: every ACTION of every thread decreases the variant
`rank s p + work s` = (actions the networking thread still needs for `p`) + (actions the user
programs have left), so no fairness towards the networking thread in particular is assumed — the
user programs are finite, and the lock holder can always move.) -/
theorem queued_packet_eventually_sent (cfg : Cfg) (progs : List (List Op))
    (hnd : (progs.flatMap pktsOf).Nodup) (sched : List Tid) (p : Pkt) (σ : Nat → Tid) :
    let s := run cfg (init progs) sched
    p ∈ s.queue → WeakFair cfg s σ →
      ∃ n, ∀ m, n ≤ m →
        let s' := runN cfg s σ m
        p ∈ sentPkts s'.wire ∨ s'.interrupt = true ∨ ∃ t c, (s'.thr t).pc.dctx = some c := by
  intro s hp hf
  have h := reach_inv cfg progs hnd sched
  have hu : UB progs.length s := UB_run cfg _ sched _ (UB_init progs)
  obtain ⟨n, hn⟩ := fair_core cfg progs progs.length p _ s σ h hu (Or.inl hp) (Nat.le_refl _) hf
  refine ⟨n, fun m hm => ?_⟩
  rcases goal_runN cfg progs s σ p h n hn m hm with g | g
  · exact Or.inl g
  · exact Or.inr ((discBegun_iff (runN_inv cfg progs s σ h m).lock).mp g)

/-- `without_disconnect_every_queued_packet_is_sent`: if no program contains a `disconnect`, then
in every reachable state no disconnect has been started, and every packet in the queue has — after
finitely many picks of every weakly fair schedule, and from then on for ever — a whole frame on the
wire (exactly one, by `C12.exactly_once`). -/
theorem without_disconnect_every_queued_packet_is_sent (cfg : Cfg) (progs : List (List Op))
    (hnd : (progs.flatMap pktsOf).Nodup) (hno : ∀ prog ∈ progs, ∀ imm, Op.disconnect imm ∉ prog)
    (sched : List Tid) (p : Pkt) (σ : Nat → Tid) :
    let s := run cfg (init progs) sched
    (s.interrupt = false ∧ ∀ t, (s.thr t).pc.dctx = none) ∧
    (p ∈ s.queue → WeakFair cfg s σ → ∃ n, ∀ m, n ≤ m → p ∈ sentPkts (runN cfg s σ m).wire) := by
  intro s
  have h := reach_inv cfg progs hnd sched
  have hq : discBegun s = false :=
    nodisc_run cfg progs hno sched _ (init_inv progs hnd) (init_not_disc progs)
  have hnot : ¬ (s.interrupt = true ∨ ∃ t c, (s.thr t).pc.dctx = some c) := by
    rw [← discBegun_iff h.lock, hq]; simp
  refine ⟨⟨?_, fun t => ?_⟩, fun hp hf => ?_⟩
  · cases hi : s.interrupt with
    | false => rfl
    | true => exact absurd (Or.inl hi) hnot
  · cases hc : (s.thr t).pc.dctx with
    | none => rfl
    | some c => exact absurd (Or.inr ⟨t, c, hc⟩) hnot
  · have hu : UB progs.length s := UB_run cfg _ sched _ (UB_init progs)
    obtain ⟨n, hn⟩ := fair_core cfg progs progs.length p _ s σ h hu (Or.inl hp) (Nat.le_refl _) hf
    refine ⟨n, fun m hm => ?_⟩
    rcases goal_runN cfg progs s σ p h n hn m hm with g | g
    · exact g
    · have : discBegun (runN cfg s σ m) = false := by
        rw [runN_eq_run]
        exact nodisc_run cfg progs hno _ s h hq
      rw [this] at g; cases g

/-- `fair_schedules_exist`: the fairness hypothesis is satisfiable — round robin over the threads
`0..progs.length`, and more generally every schedule that picks each of these threads infinitely
often, is weakly fair for the run from every reachable state (threads with larger ids are finished
from the start and never enabled). -/
theorem fair_schedules_exist (cfg : Cfg) (progs : List (List Op)) (sched : List Tid)
    (σ : Nat → Tid) :
    let s := run cfg (init progs) sched
    (FairUpTo progs.length σ → WeakFair cfg s σ) ∧ FairUpTo progs.length (roundRobin progs.length) := by
  intro s
  exact ⟨fair_weak cfg progs.length s σ (UB_run cfg _ sched _ (UB_init progs)),
    roundRobin_fair progs.length⟩

/-! ### Forced writes and the flush of a graceful disconnect -/

/-- `forced_write_is_synchronous`: if in a reachable state thread `t` is about to execute
`write_packet(p, force=True)` (idle, next operation `forced p`, then `rest`), then in every later
state in which `t` has returned from that call — it is outside every locked block and has at most
`rest` left to do — `p` has a whole frame on the wire, or the write failed (`p ∈ failed`: the
socket was `None`, the exception went to the caller), and then the socket is closed.  A forced
packet is never left in the queue. -/
theorem forced_write_is_synchronous (cfg : Cfg) (progs : List (List Op))
    (hnd : (progs.flatMap pktsOf).Nodup) (sched more : List Tid) (t : Tid) (p : Pkt)
    (rest : List Op) :
    let s0 := run cfg (init progs) sched
    let s := run cfg s0 more
    (s0.thr t).pc = .user .idle → (s0.thr t).todo = .forced p :: rest →
    (s.thr t).pc.crit = false → (s.thr t).todo.length ≤ rest.length →
      (p ∈ sentPkts s.wire ∨ (p ∈ s.failed ∧ s.sockOpen = false)) ∧ p ∉ s.queue := by
  intro s0 s hpc htd hcrit hlen
  have h0 := reach_inv cfg progs hnd sched
  have h := run_inv cfg progs more s0 h0
  have hj := forcedJ_run cfg t p rest more s0 (Or.inl ⟨hpc, htd⟩)
  have hn := h.wire.nodup
  rcases hj with ⟨-, e⟩ | ⟨e, -⟩ | ⟨e, -⟩ | e | e
  · have : (s.thr t).todo.length = rest.length + 1 := by
      show ((run cfg s0 more).thr t).todo.length = _
      rw [e]; rfl
    omega
  · have : (s.thr t).pc.crit = true := by
      show ((run cfg s0 more).thr t).pc.crit = _
      rw [e]; rfl
    rw [hcrit] at this; cases this
  · have : (s.thr t).pc.crit = true := by
      show ((run cfg s0 more).thr t).pc.crit = _
      rw [e]; rfl
    rw [hcrit] at this; cases this
  · exact ⟨Or.inl e, by grind [List.nodup_append]⟩
  · exact ⟨Or.inr ⟨e, h.wire.failed_closed (List.ne_nil_of_mem e)⟩, by grind [List.nodup_append]⟩

/-- `graceful_disconnect_sends_all_issued_before`: let `s0` be a reachable state with the lock free
and the socket open.  By `C12.disconnect_ctx_set` a `disconnect(immediate=False)` that acquires the
lock in `s0` carries the ghost context `⟨false, s0.queue, s0.wire, true⟩`.  Whenever a later state
has a thread at the final `rel` of a disconnect with that context, EVERY packet issued before the
acquisition — queued or forced, by any thread — has a whole frame on the wire, and the socket is
closed.  (`C12.graceful_flushes_then_closes` says this for the queue snapshot only.) -/
theorem graceful_disconnect_sends_all_issued_before (cfg : Cfg) (progs : List (List Op))
    (hnd : (progs.flatMap pktsOf).Nodup) (sched more : List Tid) (t : Tid) :
    let s0 := run cfg (init progs) sched
    let s := run cfg s0 more
    s0.owner = none → s0.sockOpen = true →
    (s.thr t).pc = .user (.dRel ⟨false, s0.queue, s0.wire, true⟩) →
      (∀ p ∈ s0.issued, p ∈ sentPkts s.wire) ∧ s.sockOpen = false := by
  intro s0 s ho hopen hpc
  exact issued_before_sent cfg progs s0 (reach_inv cfg progs hnd sched) more t ho hopen hpc

/-! ### Non-vacuity -/

/-- Thread 1 queues 1 and 2; thread 2 forces 3. -/
def progsA : List (List Op) := [[.queued 1, .queued 2], [.forced 3]]

/-- After `[1, 1]` the queue is `[1, 2]`.  Continuation: the networking thread reads `interrupt`,
thread 2 takes the lock for its forced write, the networking thread is blocked in `acquire` (that
entry is skipped and not counted), thread 2 finishes, then the networking thread runs. -/
def moreA : List Tid := [0, 2, 0, 2, 2, 2] ++ List.replicate 24 0

example : (progsA.flatMap pktsOf).Nodup := by decide

/-- The hypotheses of `nt_progress` hold for packet 2 (one packet in front of it: bound 24; the
networking thread performs 25 of the 30 entries, one entry is skipped), and it is sent: the wire is
the forced frame followed by the two queued frames in queue order. -/
example :
    let s := run ⟨300, 50⟩ (init progsA) [1, 1]
    s.queue = [1, 2] ∧ s.queue.idxOf 2 = 1 ∧ moves ⟨300, 50⟩ 0 s moreA = 25 ∧
    skipped ⟨300, 50⟩ s moreA = 1 ∧
    (run ⟨300, 50⟩ s moreA).wire = [(3, 0), (3, 1), (1, 0), (1, 1), (2, 0), (2, 1)] ∧
    (run ⟨300, 50⟩ s moreA).interrupt = false := by decide +kernel

/-- The hypotheses of `nt_drains` hold in the same state (`11·2 + 2 = 24`), also with batch caps
`0` (one packet per round of the outer loop: the bound is attained up to the final `rel`). -/
example :
    let s := run ⟨0, 0⟩ (init progsA) [1, 1]
    s.owner = none ∧ s.interrupt = false ∧ s.queue.length = 2 ∧
    sentPkts (run ⟨0, 0⟩ s (List.replicate 24 0)).wire = [1, 2] ∧
    sentPkts (run ⟨0, 0⟩ s (List.replicate 15 0)).wire = [1] := by decide +kernel

/-- Elevens are needed: with `capW = 1` (one packet per round of the outer loop) eight queued packets
are NOT all sent after the `8·(8+1)+8 = 80` actions of the reviewer's bound, but are after
`11·8 + 2 = 90`. -/
example :
    let s := run ⟨1, 50⟩ (init [[.queued 1, .queued 2, .queued 3, .queued 4, .queued 5, .queued 6,
      .queued 7, .queued 8]]) (List.replicate 8 1)
    s.queue.length = 8 ∧ s.owner = none ∧ s.interrupt = false ∧
    sentPkts (run ⟨1, 50⟩ s (List.replicate 80 0)).wire = [1, 2, 3, 4, 5, 6, 7] ∧
    sentPkts (run ⟨1, 50⟩ s (List.replicate 90 0)).wire = [1, 2, 3, 4, 5, 6, 7, 8] := by
  decide +kernel

/-- `no_deadlock` / `blocked_only_in_acquire`: a state in which the networking thread is blocked
(thread 2 holds the lock), thread 2 is enabled. -/
example :
    let s := run ⟨300, 50⟩ (init progsA) [1, 1, 0, 2]
    enabled ⟨300, 50⟩ s 0 = false ∧ s.owner = some 2 ∧ enabled ⟨300, 50⟩ s 2 = true ∧
    (s.thr 0).pc.isDone = false := by decide +kernel

/-- `queued_packet_eventually_sent` instantiated: under round robin over threads 0, 1, 2 packet 2 is
eventually — and then for ever — on the wire (there is no disconnect in `progsA`). -/
example : ∃ n, ∀ m, n ≤ m →
    2 ∈ sentPkts (runN ⟨300, 50⟩ (run ⟨300, 50⟩ (init progsA) [1, 1]) (roundRobin 2) m).wire := by
  have hf := (fair_schedules_exist ⟨300, 50⟩ progsA [1, 1] (roundRobin 2)).1
    (fair_schedules_exist ⟨300, 50⟩ progsA [1, 1] (roundRobin 2)).2
  exact (without_disconnect_every_queued_packet_is_sent ⟨300, 50⟩ progsA (by decide) (by decide)
    [1, 1] 2 (roundRobin 2)).2 (by decide +kernel) hf

/-- … concretely after 60 picks. -/
example :
    sentPkts (runN ⟨300, 50⟩ (run ⟨300, 50⟩ (init progsA) [1, 1]) (roundRobin 2) 60).wire
      = [3, 1, 2] := by decide +kernel

/-- `forced_write_is_synchronous`: thread 2 of `progsA` before and after its forced write. -/
example :
    let s0 := run ⟨300, 50⟩ (init progsA) [1, 1]
    let s := run ⟨300, 50⟩ s0 [0, 2, 0, 2, 2, 2]
    (s0.thr 2).pc = .user .idle ∧ (s0.thr 2).todo = [.forced 3] ∧
    (s.thr 2).pc.crit = false ∧ (s.thr 2).todo.length ≤ ([] : List Op).length ∧
    3 ∈ sentPkts s.wire := by decide +kernel

/-- … and a forced write that fails: thread 1 disconnects immediately, then thread 2 forces 3. -/
example :
    let s0 := run ⟨300, 50⟩ (init [[.disconnect true], [.forced 3]]) [1, 1, 1, 1, 1]
    let s := run ⟨300, 50⟩ s0 [2, 2, 2]
    (s0.thr 2).pc = .user .idle ∧ (s0.thr 2).todo = [.forced 3] ∧
    (s.thr 2).pc.crit = false ∧ (s.thr 2).todo = [] ∧ s.failed = [3] ∧ s.sockOpen = false := by
  decide +kernel

/-- `graceful_disconnect_sends_all_issued_before`: thread 1 queues 1, forces 2, disconnects
gracefully; thread 2 queues 3.  In `s0` (lock free, socket open) 1, 2, 3 have been issued, 2 is on
the wire; thread 1 then acquires the lock and runs its disconnect up to the final `rel`. -/
def progsG : List (List Op) := [[.queued 1, .forced 2, .disconnect false], [.queued 3]]

example :
    let s0 := run ⟨300, 50⟩ (init progsG) [1, 2, 1, 1, 1, 1]
    let s := run ⟨300, 50⟩ s0 (List.replicate 13 1)
    s0.owner = none ∧ s0.sockOpen = true ∧ s0.issued = [1, 3, 2] ∧ s0.queue = [1, 3] ∧
    (s.thr 1).pc = .user (.dRel ⟨false, s0.queue, s0.wire, true⟩) ∧
    sentPkts s.wire = [2, 1, 3] := by decide +kernel

/-! ### The mutants are refuted

Both mutants (`Model/C12Progress.lean`) are models of CHANGED code which, according to the audit
(`docs/audit_report.md`, rank 8), pass every theorem of `C12`, `C12Bytes` and `C12Final`: nothing
there forces a send.  `runWith (step cfg)` is `run cfg`
(`runWith_real`), so the statements below are the conclusions of the theorems above with the
mutant's step function in place of `step`. -/

/-- MUTANT 1 (`while False:` at `connection.py:613`, the networking thread never pops) violates
`nt_drains`: thread 1 queues packet 1; the lock is free, `interrupt` is clear, the queue is `[1]`;
but after `k` solo actions of the networking thread — for every `k` up to 60, in particular for
`k = 11·1 + 2 = 13` — packet 1 is NOT on the wire (nothing is), although no entry was skipped … -/
example :
    let s := runWith (stepNoPop ⟨300, 50⟩) (init [[.queued 1]]) [1]
    s.queue = [1] ∧ s.owner = none ∧ s.interrupt = false ∧
    ∀ k, k ≤ 60 → (runWith (stepNoPop ⟨300, 50⟩) s (List.replicate k 0)).wire = [] ∧
      (runWith (stepNoPop ⟨300, 50⟩) s (List.replicate k 0)).queue = [1] := by decide +kernel

/-- … whereas the real model sends it within 13 actions, as `nt_drains` says. -/
example :
    let s := runWith (step ⟨300, 50⟩) (init [[.queued 1]]) [1]
    s.queue = [1] ∧ s.owner = none ∧ s.interrupt = false ∧
    (runWith (step ⟨300, 50⟩) s (List.replicate 13 0)).wire = [(1, 0), (1, 1)] := by
  decide +kernel

/-- MUTANT 1 also violates `nt_progress` and `queued_packet_eventually_sent` on the same instance:
600 picks of round robin over threads 0 and 1 (300 actions of the networking thread; bound 13), no
disconnect anywhere, and packet 1 is still in the queue. -/
example :
    let s' := runWith (stepNoPop ⟨300, 50⟩) (init [[.queued 1]])
      ((List.range 600).map (roundRobin 1))
    s'.wire = [] ∧ s'.queue = [1] ∧ s'.interrupt = false ∧ s'.owner = none := by
  decide +kernel

/-- MUTANT 2 (`write_packet(p, force=True)` silently appends to the queue) violates
`forced_write_is_synchronous`: thread 1 is idle with `forced 1` next; after its one action it has
returned (outside every locked block, nothing left to do), but packet 1 is neither on the wire nor
failed — it sits in the queue … -/
example :
    let s0 := init [[.forced 1]]
    let s := runWith (stepForceQueued ⟨300, 50⟩) s0 [1]
    (s0.thr 1).pc = .user .idle ∧ (s0.thr 1).todo = [.forced 1] ∧
    (s.thr 1).pc.crit = false ∧ (s.thr 1).todo.length ≤ ([] : List Op).length ∧
    1 ∉ sentPkts s.wire ∧ 1 ∉ s.failed ∧ 1 ∈ s.queue := by decide +kernel

/-- … whereas in the real model it is on the wire when the call has returned. -/
example :
    let s := runWith (step ⟨300, 50⟩) (init [[.forced 1]]) [1, 1, 1, 1]
    (s.thr 1).pc.crit = false ∧ (s.thr 1).todo = [] ∧ s.wire = [(1, 0), (1, 1)] ∧ s.queue = [] := by
  decide +kernel

end PyCraft.C12Progress
