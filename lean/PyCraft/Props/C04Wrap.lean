import PyCraft.Props.C04
/-!
# C04 (extension) — what `Position` does OUTSIDE the signed 26/12/26-bit ranges

`Props/C04` proves the round trip inside the ranges and the layout for all integers.  This file
closes the remaining question — what comes back for coordinates outside the ranges, and whether the
ranges in `pos_rt` are the weakest possible: the encoder masks and the decoder sign-extends, so the
value read back is the coordinate WRAPPED into its range (`wrap26`, `wrap12`), for every integer and
both layouts; hence the round trip holds exactly on the stated ranges and two positions have the same
bytes exactly when their coordinates are congruent modulo 2^26 / 2^12 / 2^26.  Only property theorems
and examples; the correspondence (`corr/c04.py`) drives `pos.enc` and the live send/read with
out-of-range coordinates too, as a recorded (not judged) comparison — the property speaks about
in-range positions only.
-/
namespace PyCraft.C04Wrap
open PyCraft

/-- Two's-complement wrap into `[-2^25, 2^25)`. -/
def wrap26 (v : Int) : Int := (v + 2 ^ 25) % 2 ^ 26 - 2 ^ 25
/-- Two's-complement wrap into `[-2^11, 2^11)`. -/
def wrap12 (v : Int) : Int := (v + 2 ^ 11) % 2 ^ 12 - 2 ^ 11

/-- For ALL integers and either layout: encoding never fails, and decoding the 8 bytes (followed by
anything) returns each coordinate wrapped into its signed range, leaving the other bytes. -/
theorem pos_wraps (newer : Bool) (x y z : Int) (rest : Bytes) :
    ∃ w, encPos newer x y z = .ok w ∧
      decPos newer (w ++ rest) = .ok ((wrap26 x, wrap12 y, wrap26 z), rest) := by
  obtain ⟨w, hw, hlen, _, hval⟩ := C04.pos_layout newer x y z
  obtain ⟨x', y', z', hdec, hx1, hx2, hy1, hy2, hz1, hz2, henc'⟩ := C04.pos_dec_total newer w rest hlen
  obtain ⟨w', hw', _, _, hval'⟩ := C04.pos_layout newer x' y' z'
  have hww : w' = w := by rw [henc'] at hw'; cases hw'; rfl
  subst hww
  rw [hval] at hval'
  have key : x' = wrap26 x ∧ y' = wrap12 y ∧ z' = wrap26 z := by
    unfold wrap26 wrap12
    cases newer <;> simp only [if_true, if_false, Bool.false_eq_true] at hval' <;> omega
  obtain ⟨rfl, rfl, rfl⟩ := key
  exact ⟨w', hw, hdec⟩

theorem wrap26_id_iff (v : Int) : wrap26 v = v ↔ (-2 ^ 25 ≤ v ∧ v < 2 ^ 25) := by
  unfold wrap26; omega
theorem wrap12_id_iff (v : Int) : wrap12 v = v ↔ (-2 ^ 11 ≤ v ∧ v < 2 ^ 11) := by
  unfold wrap12; omega

/-- The ranges of `C04.pos_rt` are exact: the position read back equals the one written if and only
if every coordinate lies in its signed range. -/
theorem pos_rt_iff_in_range (newer : Bool) (x y z : Int) (rest : Bytes) :
    (∃ w, encPos newer x y z = .ok w ∧ decPos newer (w ++ rest) = .ok ((x, y, z), rest)) ↔
      ((-2 ^ 25 ≤ x ∧ x < 2 ^ 25) ∧ (-2 ^ 11 ≤ y ∧ y < 2 ^ 11) ∧ (-2 ^ 25 ≤ z ∧ z < 2 ^ 25)) := by
  obtain ⟨w, hw, hd⟩ := pos_wraps newer x y z rest
  rw [← wrap26_id_iff x, ← wrap12_id_iff y, ← wrap26_id_iff z]
  constructor
  · rintro ⟨w2, hw2, hd2⟩
    rw [hw] at hw2; cases hw2
    rw [hd] at hd2
    injection hd2 with h
    injection h with h1 _
    injection h1 with hx h2
    injection h2 with hy hz
    exact ⟨hx, hy, hz⟩
  · rintro ⟨hx, hy, hz⟩
    refine ⟨w, hw, ?_⟩
    rw [hd, hx, hy, hz]

/-- Two positions have the same bytes exactly when their coordinates are congruent modulo
2^26 / 2^12 / 2^26 — the encoder loses nothing else. -/
theorem pos_same_bytes_iff (newer : Bool) (x y z x' y' z' : Int) :
    encPos newer x y z = encPos newer x' y' z' ↔
      (x % 2 ^ 26 = x' % 2 ^ 26 ∧ y % 2 ^ 12 = y' % 2 ^ 12 ∧ z % 2 ^ 26 = z' % 2 ^ 26) := by
  obtain ⟨w, hw, hd⟩ := pos_wraps newer x y z []
  obtain ⟨w', hw', hd'⟩ := pos_wraps newer x' y' z' []
  constructor
  · intro h
    rw [hw, hw'] at h; cases h
    rw [hd] at hd'
    injection hd' with h
    injection h with h1 _
    injection h1 with hx h2
    injection h2 with hy hz
    unfold wrap26 at hx hz; unfold wrap12 at hy
    omega
  · rintro ⟨hx, hy, hz⟩
    have hI : (Pos.posWord newer x y z : Int) = Pos.posWord newer x' y' z' := by
      rw [Pos.posWord_int, Pos.posWord_int, hx, hy, hz]
    have hN : Pos.posWord newer x y z = Pos.posWord newer x' y' z' := by exact_mod_cast hI
    rw [Pos.encPos_eq, Pos.encPos_eq, hN]

/-! ### `ChunkSectionPos` (22/22/20 bits) outside its ranges -/

/-- Two's-complement wrap into `[-2^21, 2^21)`. -/
def wrap22 (v : Int) : Int := (v + 2 ^ 21) % 2 ^ 22 - 2 ^ 21
/-- Two's-complement wrap into `[-2^19, 2^19)`. -/
def wrap20 (v : Int) : Int := (v + 2 ^ 19) % 2 ^ 20 - 2 ^ 19

/-- For ALL integers the section-position encoder never fails and the value read back is each
coordinate wrapped into its signed range. -/
theorem section_wraps (x y z : Int) (rest : Bytes) :
    ∃ w, encSecPos x y z = .ok w ∧
      decSecPos (w ++ rest) = .ok ((wrap22 x, wrap20 y, wrap22 z), rest) := by
  obtain ⟨w, hw, hlen, _, hval⟩ := C04.section_layout x y z
  obtain ⟨x', y', z', hdec, hx1, hx2, hy1, hy2, hz1, hz2, henc'⟩ := C04.section_dec_total w rest hlen
  obtain ⟨w', hw', _, _, hval'⟩ := C04.section_layout x' y' z'
  have hww : w' = w := by rw [henc'] at hw'; cases hw'; rfl
  subst hww
  rw [hval] at hval'
  have key : x' = wrap22 x ∧ y' = wrap20 y ∧ z' = wrap22 z := by
    unfold wrap22 wrap20; omega
  obtain ⟨rfl, rfl, rfl⟩ := key
  exact ⟨w', hw, hdec⟩

/-- The ranges of `C04.section_rt` are exact. -/
theorem section_rt_iff_in_range (x y z : Int) (rest : Bytes) :
    (∃ w, encSecPos x y z = .ok w ∧ decSecPos (w ++ rest) = .ok ((x, y, z), rest)) ↔
      ((-2 ^ 21 ≤ x ∧ x < 2 ^ 21) ∧ (-2 ^ 19 ≤ y ∧ y < 2 ^ 19) ∧ (-2 ^ 21 ≤ z ∧ z < 2 ^ 21)) := by
  obtain ⟨w, hw, hd⟩ := section_wraps x y z rest
  constructor
  · rintro ⟨w2, hw2, hd2⟩
    rw [hw] at hw2; cases hw2
    rw [hd] at hd2
    injection hd2 with h
    injection h with h1 _
    injection h1 with hx h2
    injection h2 with hy hz
    unfold wrap22 at hx hz; unfold wrap20 at hy
    omega
  · rintro ⟨hx, hy, hz⟩
    refine ⟨w, hw, ?_⟩
    have e1 : wrap22 x = x := by unfold wrap22; omega
    have e2 : wrap20 y = y := by unfold wrap20; omega
    have e3 : wrap22 z = z := by unfold wrap22; omega
    rw [hd, e1, e2, e3]

-- non-vacuity / concrete witnesses
example : wrap26 (2 ^ 25) = -2 ^ 25 ∧ wrap12 2048 = -2048 ∧ wrap26 (-2 ^ 25 - 1) = 2 ^ 25 - 1 := by
  decide +kernel
example : ∃ w, encPos true (2 ^ 25) 2048 (-1) = .ok w ∧
    decPos true (w ++ [9]) = .ok ((-2 ^ 25, -2048, -1), [9]) := by
  have h := pos_wraps true (2 ^ 25) 2048 (-1) [9]
  have e : wrap26 (2 ^ 25) = -2 ^ 25 ∧ wrap12 2048 = -2048 ∧ wrap26 (-1) = -1 := by decide +kernel
  rw [e.1, e.2.1, e.2.2] at h
  exact h
example : ∃ w, encSecPos (2 ^ 21) (-2 ^ 19 - 1) 3 = .ok w ∧
    decSecPos (w ++ [9]) = .ok ((-2 ^ 21, 2 ^ 19 - 1, 3), [9]) := by
  have h := section_wraps (2 ^ 21) (-2 ^ 19 - 1) 3 [9]
  have e : wrap22 (2 ^ 21) = -2 ^ 21 ∧ wrap20 (-2 ^ 19 - 1) = 2 ^ 19 - 1 ∧ wrap22 3 = 3 := by
    decide +kernel
  rw [e.1, e.2.1, e.2.2] at h
  exact h
example : encPos false 5 6 7 = encPos false (5 + 2 ^ 26) (6 - 2 ^ 12) 7 :=
  (pos_same_bytes_iff false _ _ _ _ _ _).2 (by omega)

end PyCraft.C04Wrap
