import PyCraft.Lemmas.C16Carry
import PyCraft.Model.Frame
/-!
# C16 (with C11, C10): what one `Connection` object carries from a session into the next

Model: `PyCraft/Model/C16Carry.lean` (`minecraft/networking/connection.py`).  All theorems are about
the unchanged program `Variant.real`; the two CHANGED programs `Variant.chg1` / `Variant.chg2`
appear only in the refutations at the end.
-/
namespace PyCraft.C16Carry
open PyCraft PyCraft.Carry

/-! ## every session starts clean -/

/-- **Every session starts clean.**  Take a fresh object (any allowed versions, any default
version, with or without an exit callback) and ANY history of operations on it — any number of
earlier sessions, each with any compression threshold and/or encryption negotiated, in login, play
or status state, ended by a user `disconnect` (immediate or flushing, the flush failing or not), a
server disconnect packet, an error with or without a handler that reconnects, a refused or
unresolvable TCP connect; packets left in the queue or not.  Then EVERY `connect()` / `status()` of
that history that returned normally — including those made from inside an exception handler, the
exit callback or `PlayingStatusReactor` — left the object in exactly the state of the first
`connect()` on a fresh object with the same allowed versions: compression off (threshold −1), plain
socket and plain file object, the outgoing queue holding just the handshake and the login start
(or the status request), the login (or status) reactor, `spawned = False`, `connected = True`.
(`run … ops).starts` is the log of the views taken right after each such call; the proof is an
invariant (`Carry.Inv`) carried by induction over the list of operations.) -/
theorem every_session_starts_clean (c : Cfg) (ops : List Op) :
    ∀ e ∈ (run .real (fresh c) ops).starts, e.clean = true :=
  (inv_run ops (inv_fresh c)).starts

/-- The same, one call at a time and without any assumption on the state (reachable or not): a
`connect()` that returns normally produces the view of the first `connect()` of a fresh object with
the same allowed versions. -/
theorem connect_resets_everything (s s' : Obj) (r : Net) (c : Cfg)
    (h : connect .real s r = (s', .ok)) (hc : c.allowed = s.allowed) :
    s'.view = (connect .real (fresh c) .ok).1.view ∧ s'.view = cleanConnectView s.allowed := by
  have h1 := (connect_ok_spec h).1
  refine ⟨?_, h1⟩
  rw [h1, ← hc]
  by_cases hl : c.allowed.length = 1 <;>
    simp [connect, busy, fresh, connectSock, Variant.real, startThread, push, logStart, Obj.view,
      cleanConnectView, hl]

/-- … and in a history: whatever came before, if the next `connect()` returns normally, the object
is in the clean start state (spelled out field by field for the single-version case). -/
theorem connect_after_any_history (c : Cfg) (ops : List Op) (r : Net) (s' : Obj)
    (h : connect .real (run .real (fresh c) ops) r = (s', .ok))
    (h1 : (run .real (fresh c) ops).allowed.length = 1) :
    s'.compEnabled = false ∧ s'.compThreshold = -1 ∧ s'.socket = .open false ∧
    s'.file = .open false ∧
    s'.queue = some [.handshake (latest (run .real (fresh c) ops).allowed) 2, .loginStart] ∧
    s'.reactor = .login ∧ s'.spawned = some false ∧ s'.connected = true := by
  have hv := (connect_ok_spec h).1
  simp only [cleanConnectView, h1, if_true] at hv
  simp only [Obj.view, View.mk.injEq] at hv
  exact hv

/-- A refused TCP connect (`socket.connect` raises at line 451) has reset NOTHING but the queue and
the socket object: compression options, `connected`, `file_object`, reactor, `exception` are those
of the previous session, and no thread was started. -/
theorem refused_connect_resets_only_queue (s : Obj) (hb : busy s = false) :
    let s' := (connect .real s .refused).1
    (connect .real s .refused).2 = .exc .refused ∧
    s'.queue = some [] ∧ s'.socket = .unconnected ∧
    s'.compEnabled = s.compEnabled ∧ s'.compThreshold = s.compThreshold ∧
    s'.connected = s.connected ∧ s'.file = s.file ∧ s'.reactor = s.reactor ∧ s'.exc = s.exc ∧
    s'.nt = s.nt ∧ s'.newNt = s.newNt ∧ s'.spawned = some false := by
  simp [connect, hb, connectSock]

/-! ## what is written matches what was negotiated on THIS transport -/

/-- **Every frame is written the way the current transport negotiated.**  In every history, every
frame ever written used as `compression_threshold` argument exactly the threshold the server OF THAT
TRANSPORT had set (none if it had set none), and went through an `EncryptedSocketWrapper` iff that
server had requested encryption.  Nothing negotiated on an earlier transport leaks. -/
theorem frames_match_transport (c : Cfg) (ops : List Op) :
    ∀ w ∈ (run .real (fresh c) ops).wire, w.thr = w.srvThr ∧ w.enc = w.srvEnc :=
  (inv_run ops (inv_fresh c)).wire

/-- **Byte-level corollary: the first frames of every session carry no data-length field.**  For
any serialisation `payload` of the packets and any zlib: every frame written on a transport whose
server had not (yet) sent Set Compression is `VarInt(len(payload)) ++ payload` (`Model/Frame.lean`'s
`frame` with `thr = none`), and it is written to the plain socket if the server had not requested
encryption. -/
theorem first_frames_have_no_data_length (c : Cfg) (ops : List Op) (z : ZlibOps)
    (payload : Pkt → Bytes) :
    ∀ w ∈ (run .real (fresh c) ops).wire, w.srvThr = none →
      frame z w.thr (payload w.pkt) = encVarInt (payload w.pkt).length ++ payload w.pkt ∧
      (w.srvEnc = false → w.enc = false) := by
  intro w hw hs
  obtain ⟨h1, h2⟩ := frames_match_transport c ops w hw
  rw [h1, hs]
  exact ⟨rfl, fun h => by rw [h2, h]⟩

/-! ## the exit callback -/

/-- **`_handle_exit` runs the callback exactly when `connected` is False** — whatever `exception`
holds from earlier sessions (and appends exactly one entry to the callback log when it does). -/
theorem exit_callback_iff_not_connected (s : Obj) (t : Thr) (hx : s.hasExit = true) :
    ((handleExit .real s t).2 = true ↔ s.connected = false) ∧
    (handleExit .real s t).1.exits = (if s.connected then s.exits else s.exits ++ [t.sess]) := by
  cases hc : s.connected <;> simp [handleExit, hc, hx, Variant.real]

/-- **After a server disconnect packet the exit callback runs exactly once**, in any state reached
by any earlier history — in particular with `exception` still holding the error of a failed earlier
attempt: if a networking thread `t` is running un-interrupted in play state (no successor pending),
then [disconnect packet arrives; the thread leaves `_run`] appends exactly one call (that thread's)
to the callback log, closes the socket and leaves `connected = False`. -/
theorem server_disconnect_runs_exit_once (s : Obj) (t : Thr) (fail : Option Nat) (h : Handler)
    (hnt : s.nt = some t) (hi : t.intr = false) (hnew : s.newNt = none)
    (hre : s.reactor = .play) (hx : s.hasExit = true) :
    let s' := run .real s [.recv (.disconnect fail) h, .exit none]
    s'.exits = s.exits ++ [t.sess] ∧ s'.connected = false ∧ s'.nt = none := by
  obtain ⟨d1, d2, d3, d4, d5, d6, d7, d8⟩ := disconnect_fields .real s false fail
  simp only [interruptTarget, hnew, hnt] at d5 d6
  have hstep1 : (step .real s (.recv (.disconnect fail) h)).1 = disconnect .real s false fail := by
    simp [step, hnt, hi, react, hre, reactPlay]
  simp only [run, hstep1]
  generalize disconnect .real s false fail = d at d1 d3 d4 d5 d6 ⊢
  simp [step, d5, endByExit, handleExit, d1, d4, hx, d3, epilogue, d6, Variant.real]

/-! ## the recorded exception -/

/-- **The recorded exception is the last session's.**  When thread `t` ends with an error `e`
(anything but the `EOFError` that `PlayingStatusReactor` swallows), `exception` afterwards was
recorded by `t` itself — never a leftover of an earlier session, never `None` — and it is `e`
unless a handler's own `connect()` raised (then it is that exception, as documented): also when a
handler started a successor session. -/
theorem recorded_exception_is_last (s : Obj) (t : Thr) (e : ExcKind) (h : Handler)
    (hnt : s.nt = some t) (hre : ¬(s.reactor = .playingStatus ∧ e = .eof)) :
    ∃ k, (step .real s (.error e h)).1.exc = some ⟨t.sess, k⟩ ∧
      (h.reconnects = false → k = e) ∧
      (∀ s1, connect .real { s with nt := some { t with intr := true } } h.net = (s1, .ok) →
        k = e) := by
  simp only [step, hnt, endByError_exc s t e h hnt hre]
  refine ⟨_, rfl, ?_, ?_⟩
  · intro hr; simp [userHandlers, hr]
  · intro s1 hc
    unfold userHandlers
    split
    · simp [hc]
    · rfl

/-- … and the successor the handler started is untouched by the failing thread's clean-up: after
[error `e`; a handler calls `connect()`, which succeeds] the object is connected on a NEW transport
in the clean start state, the new thread owns `networking_thread`, and `exception` is the failed
session's `e`. -/
theorem handler_successor_survives (s : Obj) (t : Thr) (e : ExcKind)
    (hnt : s.nt = some t) (hnew : s.newNt = none)
    (hre : ¬(s.reactor = .playingStatus ∧ e = .eof)) :
    let s' := (step .real s (.error e ⟨true, .ok⟩)).1
    s'.view = cleanConnectView s.allowed ∧ s'.nt = some ⟨false, s.sess + 1⟩ ∧ s'.newNt = none ∧
    s'.exc = some ⟨t.sess, e⟩ ∧ s'.sess = s.sess + 1 := by
  by_cases h1 : s.allowed.length = 1 <;>
    simp [step, hnt, endByError, handleException, reactorHandles, hre, userHandlers, connect, busy,
      hnew, connectSock, Variant.real, startThread, push, logStart, finalCheck, epilogue, Obj.view,
      cleanConnectView, h1]

/-! ## the two changed programs are told apart -/

/-- CHANGED PROGRAM (1) (compression reset moved from `_connect` to `disconnect`) violates
`every_session_starts_clean`: login with Set Compression 64, the transport dies (EOF), an exception
handler reconnects — the new session starts with compression still enabled. -/
theorem chg1_violates_starts_clean :
    ¬ ∀ e ∈ (run .chg1 (fresh ⟨[340], 340, true⟩)
        [.connect .ok, .flush 300 none, .recv (.setCompression 64) Handler.none,
         .error .eof ⟨true, .ok⟩]).starts, e.clean = true := by
  decide +kernel

/-- … and `frames_match_transport` / the byte-level corollary: the handshake of the new session is
written WITH a data-length field (threshold 64) although the new server negotiated nothing. -/
theorem chg1_violates_frames_match :
    ¬ ∀ w ∈ (run .chg1 (fresh ⟨[340], 340, true⟩)
        [.connect .ok, .flush 300 none, .recv (.setCompression 64) Handler.none,
         .error .eof ⟨true, .ok⟩, .flush 300 none]).wire, w.thr = w.srvThr ∧ w.enc = w.srvEnc := by
  decide +kernel

/-- The unchanged program on the same two histories (so the refutations are about the change). -/
example :
    (∀ e ∈ (run .real (fresh ⟨[340], 340, true⟩)
        [.connect .ok, .flush 300 none, .recv (.setCompression 64) Handler.none,
         .error .eof ⟨true, .ok⟩]).starts, e.clean = true) ∧
    (∀ w ∈ (run .real (fresh ⟨[340], 340, true⟩)
        [.connect .ok, .flush 300 none, .recv (.setCompression 64) Handler.none,
         .error .eof ⟨true, .ok⟩, .flush 300 none]).wire, w.thr = w.srvThr ∧ w.enc = w.srvEnc) := by
  decide +kernel

/-- The history of C11's scenario: a first attempt fails (the server rejects the login), the user
connects again, logs in, the server sends a disconnect packet, the thread leaves `_run`. -/
def retryHistory : List Op :=
  [.connect .ok, .flush 300 none, .recv (.disconnect none) Handler.none,
   .connect .ok, .flush 300 none, .recv .loginSuccess Handler.none,
   .recv (.disconnect none) Handler.none, .exit none]

/-- Unchanged program: after [failed attempt; connect; server disconnect packet] the callback has
run exactly once (for the second session), although `exception` still holds the first session's
`LoginDisconnect`. -/
theorem exit_once_after_failed_attempt :
    (run .real (fresh ⟨[340], 340, true⟩) retryHistory).exits = [2] ∧
    (run .real (fresh ⟨[340], 340, true⟩) retryHistory).exc = some ⟨1, .loginDisconnect⟩ := by
  decide +kernel

/-- CHANGED PROGRAM (2) (`_handle_exit` also tests `self.exception is None`) violates
`exit_callback_iff_not_connected` … -/
theorem chg2_violates_exit_iff :
    ¬ ∀ (s : Obj) (t : Thr), s.hasExit = true →
      ((handleExit .chg2 s t).2 = true ↔ s.connected = false) := by
  intro h
  have := h { fresh ⟨[340], 340, true⟩ with exc := some ⟨1, .eof⟩ } ⟨true, 2⟩ rfl
  revert this
  decide +kernel

/-- … and on the retry history the exit callback never runs. -/
theorem chg2_violates_exit_once :
    (run .chg2 (fresh ⟨[340], 340, true⟩) retryHistory).exits = [] := by
  decide +kernel

/-! ## non-vacuity: the hypotheses are met by real multi-session histories -/

/-- Two sessions, the first with compression AND encryption negotiated and ended by an error whose
handler reconnects; every call returns normally, two transports, two clean starts, frames written
compressed + encrypted on the first transport and plain on the second. -/
example :
    let ops : List Op :=
      [.connect .ok, .flush 300 none, .recv (.setCompression 64) Handler.none,
       .recv .encryptionRequest Handler.none, .recv .loginSuccess Handler.none,
       .recv (.keepAlive 5) Handler.none, .flush 300 none, .write 1,
       .error .eof ⟨true, .ok⟩, .flush 300 none]
    let s := run .real (fresh ⟨[340], 340, true⟩) ops
    s.sess = 2 ∧ s.starts.length = 2 ∧ s.wire.length = 6 ∧
    s.wire.map (fun w => (w.sess, w.thr, w.enc)) =
      [(1, none, false), (1, none, false), (1, some 64, false), (1, some 64, true),
       (2, none, false), (2, none, false)] ∧
    s.exc = some ⟨1, .eof⟩ ∧ s.connected = true := by
  decide +kernel

/-- Three sessions: (1) status query that yields the version, (2) login with compression 256 and
encryption, play, server disconnect packet, exit callback reconnects, (3) login with another
threshold, user disconnect with a packet left unflushed. -/
example :
    let ops : List Op :=
      [.connect .ok, .flush 300 none, .recv (.response (some 47) .ok) Handler.none, .exit none,
       .flush 300 none, .recv (.setCompression 256) Handler.none,
       .recv .encryptionRequest Handler.none, .recv .loginSuccess Handler.none,
       .recv (.position 3) Handler.none, .recv (.setCompression 0) Handler.none,
       .recv (.disconnect none) Handler.none, .exit (some .ok),
       .flush 300 none, .recv (.setCompression 1) Handler.none, .recv .loginSuccess Handler.none,
       .write 7, .disconnect true none, .exit none]
    let s := run .real (fresh ⟨[47, 340], 340, true⟩) ops
    s.sess = 3 ∧ s.starts.length = 3 ∧ (∀ e ∈ s.starts, e.clean = true) ∧ s.exits = [2, 3] ∧
    s.queue = some [.user 7] ∧ s.compEnabled = true ∧ s.compThreshold = 1 ∧
    (outcomes .real (fresh ⟨[47, 340], 340, true⟩) ops).all (· == .ok) = true := by
  decide +kernel

/-- The hypotheses of `server_disconnect_runs_exit_once`, `recorded_exception_is_last` and
`handler_successor_survives` hold in a state reached by a real history (a failed first attempt, a
retry that got to play state with compression and encryption on). -/
example :
    let s := run .real (fresh ⟨[340], 340, true⟩)
      [.connect .ok, .flush 300 none, .recv (.disconnect none) Handler.none, .connect .ok,
       .flush 300 none, .recv (.setCompression 64) Handler.none,
       .recv .encryptionRequest Handler.none, .recv .loginSuccess Handler.none]
    s.nt = some ⟨false, 2⟩ ∧ s.newNt = none ∧ s.reactor = .play ∧ s.hasExit = true ∧
    s.exc = some ⟨1, .loginDisconnect⟩ ∧ s.compEnabled = true ∧ s.socket = .open true := by
  decide +kernel

/-- `connect_resets_everything` / `connect_after_any_history`: a normally returning `connect()`
after such a history exists. -/
example :
    (connect .real (run .real (fresh ⟨[340], 340, true⟩)
      [.connect .ok, .flush 300 none, .recv (.setCompression 64) Handler.none,
       .recv .encryptionRequest Handler.none, .write 3, .disconnect true none]) .ok).2 = .ok := by
  decide +kernel

/-- `refused_connect_resets_only_queue`: its hypothesis holds after a session that negotiated
compression and ended by an error, and the stale options are indeed still there. -/
example :
    let s := run .real (fresh ⟨[340], 340, true⟩)
      [.connect .ok, .flush 300 none, .recv (.setCompression 64) Handler.none,
       .error .eof Handler.none]
    busy s = false ∧ (connect .real s .refused).1.compEnabled = true := by
  decide +kernel

end PyCraft.C16Carry
