import PyCraft.Props.C01Buffer
/-!
# C01 (extension) — the exact operation sequences `read_packet` and `Packet.write` issue

`Props/C01Buffer` gives the two disciplines on a fresh buffer.  Here are the complete sequences of
the real callers, with every intermediate `get_writable` of the reassembly loop and the
compressed path's second episode (`reset`, `send(decompressed)`, `reset_cursor`), so that the byte
lists the frame model (`Model/Frame.lean`) computes with are what the real buffer returns.
-/
namespace PyCraft.C01BufferFrame
open PyCraft PyCraft.PBuf PyCraft.C01Buffer

/-- The reassembly loop: after every `send` of a segment the loop asks `get_writable` for the length
so far.  It sees the running concatenations, and the buffer ends as the concatenation of all segments
with the cursor at the end. -/
def loopOps (segs : List Bytes) : List Op := segs.flatMap (fun v => [.send v, .getw])

/-- Running concatenations `acc ++ s₁`, `acc ++ s₁ ++ s₂`, … -/
def prefixes (acc : Bytes) : List Bytes → List Bytes
  | [] => []
  | v :: vs => (acc ++ v) :: prefixes (acc ++ v) vs

theorem loop_sees_prefixes (segs : List Bytes) : ∀ s, s.pos = s.buf.length →
    run s (loopOps segs) =
      (⟨s.buf ++ segs.flatten, s.buf.length + segs.flatten.length⟩, prefixes s.buf segs) := by
  induction segs with
  | nil => intro s h; cases s; simp_all [run, loopOps, prefixes]
  | cons v vs ih =>
    intro s h
    have hs : (step s (.send v)) = (⟨s.buf ++ v, s.buf.length + v.length⟩, none) := by
      simp [step, h]
    have ih' := ih ⟨s.buf ++ v, s.buf.length + v.length⟩ (by simp)
    simp only [loopOps, List.flatMap_cons, List.cons_append, List.nil_append, run, hs] at ih' ⊢
    simp only [step]
    rw [show List.flatMap (fun v => [Op.send v, Op.getw]) vs = loopOps vs from rfl] at ih' ⊢
    rw [ih']
    simp [prefixes, List.append_assoc, Nat.add_assoc]

/-- The uncompressed path of `read_packet` on a fresh buffer: reassembly loop, `reset_cursor`, then
the sized reads of the packet parser — the parser reads the consecutive pieces of the frame body. -/
theorem read_packet_plain (segs : List Bytes) (ns : List Nat) :
    (run init (loopOps segs ++ [.rewind] ++ ns.map (fun n => .read (some n)))).2
      = prefixes [] segs ++ chunks segs.flatten ns := by
  rw [List.append_assoc, run_append, loop_sees_prefixes segs init rfl]
  simp only [init, List.nil_append, List.length_nil, Nat.zero_add, List.cons_append, run, step]
  rw [(reads_chunk ns ⟨segs.flatten, 0⟩).1]
  simp

private theorem drop_take_length {α} (l : List α) (n : Nat) : l.drop (l.take n).length = l.drop n := by
  rw [List.length_take]
  by_cases h : n ≤ l.length
  · rw [Nat.min_eq_left h]
  · have h' : l.length ≤ n := by omega
    rw [Nat.min_eq_right h', List.drop_eq_nil_of_le (Nat.le_refl _), List.drop_eq_nil_of_le h']

/-- Where sized reads leave the cursor: advanced by exactly the number of bytes returned. -/
theorem reads_state (ns : List Nat) : ∀ s,
    (run s (ns.map (fun n => .read (some n)))).1
      = ⟨s.buf, s.pos + (chunks (s.buf.drop s.pos) ns).flatten.length⟩ := by
  induction ns with
  | nil => intro s; simp [run, chunks]
  | cons n ns ih =>
    intro s
    simp only [List.map_cons, run, step, chunks]
    rw [ih]
    simp only [List.flatten_cons, List.length_append]
    rw [← List.drop_drop, drop_take_length, Nat.add_assoc]

/-- The compressed path: after the loop and `reset_cursor`, `k` one-byte reads (the data-length
VarInt), `read()` for the deflated rest, then `reset`, `send(d)`, `reset_cursor` and the parser's
reads.  The VarInt reader sees the first `k` bytes one at a time, zlib gets exactly the rest, and the
parser reads the consecutive pieces of the inflated packet `d` — nothing of the compressed body
survives the `reset`. -/
theorem read_packet_compressed (segs : List Bytes) (k : Nat) (d : Bytes) (ns : List Nat) :
    (run init (loopOps segs ++ [.rewind] ++ (List.replicate k 1).map (fun n => .read (some n))
        ++ [.read none, .reset, .send d, .rewind] ++ ns.map (fun n => .read (some n)))).2
      = prefixes [] segs ++ chunks segs.flatten (List.replicate k 1)
          ++ [(segs.flatten.drop ((chunks segs.flatten (List.replicate k 1)).flatten.length))]
          ++ chunks d ns := by
  have e1 : loopOps segs ++ [Op.rewind] ++ (List.replicate k 1).map (fun n => Op.read (some n))
        ++ [Op.read none, Op.reset, Op.send d, Op.rewind] ++ ns.map (fun n => Op.read (some n))
      = loopOps segs ++ ([Op.rewind] ++ ((List.replicate k 1).map (fun n => Op.read (some n))
        ++ ([Op.read none, Op.reset, Op.send d, Op.rewind] ++ ns.map (fun n => Op.read (some n))))) := by
    simp [List.append_assoc]
  rw [e1, run_append, loop_sees_prefixes segs init rfl]
  simp only [init, List.nil_append, List.length_nil, Nat.zero_add, List.cons_append, run, step]
  rw [run_append, reads_state, (reads_chunk (List.replicate k 1) ⟨segs.flatten, 0⟩).1]
  simp only [List.drop_zero, Nat.zero_add, run, step, init, List.take_zero, List.nil_append,
    List.drop_nil]
  rw [(reads_chunk ns ⟨d ++ [], 0⟩).1]
  simp [List.append_assoc]

-- non-vacuity: a frame arriving in three segments, plain and compressed
example : (run init (loopOps [[5, 1], [2], [3, 4]] ++ [.rewind] ++ [1, 2, 9].map (fun n => .read (some n)))).2
    = [[5, 1], [5, 1, 2], [5, 1, 2, 3, 4], [5], [1, 2], [3, 4]] := by decide
example : (run init (loopOps [[0x81], [0x01, 7, 8]] ++ [.rewind]
      ++ (List.replicate 2 1).map (fun n => .read (some n))
      ++ [.read none, .reset, .send [9, 9, 9], .rewind] ++ [1, 5].map (fun n => .read (some n)))).2
    = [[0x81], [0x81, 0x01, 7, 8], [0x81], [0x01], [7, 8], [9], [9, 9]] := by decide

end PyCraft.C01BufferFrame
